/-
  SimVerif.StreamSys — ONE direction (writer `a` → reader `b`) of ONE established TCP connection
  as an OPEN system over the mechanism functions of SimVerif/Tcp.lean (unchanged), with an
  adversarial network.

  * The network is a BAG of in-flight packets: every `.forward p` effect of a socket function
    puts `p` into the bag; the adversary (`deliver i`) may hand ANY bag element to its
    destination at ANY time (arbitrary delay and reordering), and may `drop i` any packet that
    carries a drop callback (the scripted droppers / tail-dropping queues of the simulation),
    which removes it from the bag and calls the sender's `packet_dropped`. The adversary does
    not duplicate or alter packets (the simulated network never does: queues conserve packets,
    C10).  Destination: payload and error (EOF) packets are created only by `a` with the route
    towards `b`; ACKs only by `b` with the route towards `a` — `deliver` dispatches on the type.
    In transit the route shrinks and a NAT may rewrite the source: `deliver` / `drop` hand over
    the packet with ANY remaining route and source (`Pkt.inTransit`).
  * The writer's synchronous sections — the segmentation loop of `write_some_impl` and the ACK
    path's retransmission loop, window growth and writer wake-up — are executed one iteration
    per `run` label (control state `TCtl`), exactly in the order of the world driver
    (`Drv.tcpWriteRun` / `tcpSegLoop` / `tcpResendRun` / `applyNEffs`), so that the drop of a
    just-sent packet by the first hop (a synchronous re-entry in the C++) can be interleaved
    at any point: while a section is in progress the writer-side entry points (`write`,
    `closeA`, delivery of an ACK) are not enabled (the C++ is single-threaded; every route holds
    a queue, so nothing but the first hop's drop callback re-enters), `drop`, `run` and
    everything on the reader's side are.
  * Reader API: `read` (async_read_some; a pending read is completed by `maybe_wakeup_reader`
    inside `incoming_packet`), `readNb` (non-blocking read_some), `waitRead` (async_wait).
  * Ghost logs: `segs` (payload of sequence number k), `written` (their concatenation, in
    order), `accepted` (bytes that completed writes reported: the first `n` bytes of the
    buffers of each completed write), `delivered` (bytes handed to the reader by completed
    reads, in order), `eofAt` (length of `delivered` when end-of-file was first reported to
    the reader), `closed` (the writer called close), `posts` (all completions posted).
    The ghost entries for reads are computed with the same `readSome` / `available` calls the
    mechanism makes (`C05_ghost_*` in Props/C05.lean tie them to the posted completions).
-/
import SimVerif.Tcp

namespace SimVerif

structure TcpCfg where
  a  : String            -- the writer
  b  : String            -- the reader
  tp : TParams := {}

/-- the writer's synchronous section in progress -/
inductive TCtl where
  | idle
  | resend (n : Nat) (wb : Bool) (acked : Nat)   -- ACK path: `n` retransmissions may still be tried, then window growth
  | segs (op : WriteOp) (hops : List String) (rest : List (List UInt8)) (acc : Nat)   -- segmentation loop
  deriving Repr

inductive TLbl where
  | write (t : Int) (op : WriteOp)   -- a.async_write_some(bufs, h)
  | run (t : Int)                    -- next iteration of the section in progress
  | deliver (t : Int) (i : Nat) (tr : Option (List String × String))   -- bag element i reaches its destination
  | drop (i : Nat) (tr : Option (List String × String))   -- bag element i (with drop callback) is dropped by a hop
  | read (op : ReadOp)               -- b.async_read_some(bufs, h)
  | readNb (caps : List Nat)         -- b.read_some(bufs, ec)
  | waitRead (h : Nat)               -- b.async_wait(wait_read, h)
  | closeA (t : Int)                 -- a.close()
  deriving Repr

/-- what a reader is told by a completed read / wait -/
inductive RdEv where
  | data (d : List UInt8)
  | err (e : Ec)
  deriving Repr, DecidableEq

def rdEvOf : Except Ec (List UInt8) → Option RdEv
  | .ok d => some (.data d)
  | .error .wouldBlock => none
  | .error e => some (.err e)

structure TS where
  net       : NetSt
  bag       : List Pkt := []
  ctl       : TCtl := .idle
  -- ghosts
  segs      : List (List UInt8) := []
  written   : List UInt8 := []
  accepted  : List UInt8 := []
  delivered : List UInt8 := []
  eofAt     : Option Nat := none
  closed    : Bool := false
  mss0      : Nat := 0              -- the writer's segment size when the system starts
  posts     : List Compl := []
  deriving Repr

/-- what transit does to a packet: hops are popped off its route, a NAT rewrites its source
    (`tr` = the route left and the source shown when it arrives / is dropped; `none` = as sent).
    Sequence number, type, payload and drop callback are never touched (C10, C13). -/
def Pkt.inTransit (p : Pkt) : Option (List String × String) → Pkt
  | none => p
  | some (hops, src) => { p with hops := hops, src := src }

def s5_fwdsOf : List NEff → List Pkt
  | [] => []
  | .forward p :: r => p :: s5_fwdsOf r
  | _ :: r => s5_fwdsOf r

def postsOf : List NEff → List Compl
  | [] => []
  | .post c :: r => c :: postsOf r
  | _ :: r => postsOf r

def ackPostOf : List NEff → Option (Bool × Nat)
  | [] => none
  | .tcpAckPost _ wb acked :: _ => some (wb, acked)
  | _ :: r => ackPostOf r

/-- forwarded packets go into the bag, posted completions into the log -/
def TS.emit (s : TS) (effs : List NEff) : TS :=
  { s with bag := s.bag ++ s5_fwdsOf effs, posts := s.posts ++ postsOf effs }

def TS.note (s : TS) : Option RdEv → TS
  | some (.data d) => { s with delivered := s.delivered ++ d }
  | some (.err .eof) =>
    { s with eofAt := match s.eofAt with | some k => some k | none => some s.delivered.length }
  | _ => s

/-- the socket state inside `incoming_packet` just before `maybe_wakeup_reader()` (in-order
    arrival of a payload / error packet on a connected socket), `none` on every other path -/
def NetSt.tcpPreWake (n : NetSt) (name : String) (p : Pkt) : Option TcpSock :=
  match n.tcp? name with
  | none => none
  | some s =>
    match s.chan.bind n.chan? with
    | none => none
    | some _ =>
      if p.id != s.nextIn then none
      else
        let (nx, ro, q) := drainReorder (s.reorder.length + 1) (s.nextIn + 1) s.reorder (s.inq ++ [p])
        some { s with nextIn := nx, reorder := ro, inq := q }

/-- what `maybe_wakeup_reader()` tells the reader (mirrors its case analysis; the read itself is
    the mechanism's `readSome` / `available`) -/
def TcpSock.wakeRead (tp : TParams) (s : TcpSock) : Option RdEv :=
  let skip := if tp.wakeReaderFixed then s.inq.isEmpty else s.inq.length != 1
  if skip || (s.recvH.isNone && s.waitRecvH.isNone) then none
  else if s.recvNull then
    match s.waitRecvH with
    | some _ => (match s.available s.chan.isSome with | .error e => some (.err e) | .ok _ => none)
    | none => none
  else
    match s.recvH with
    | some op => rdEvOf (s.readSome s.chan.isSome op.caps).2
    | none => none

/-- one iteration of the segmentation loop -/
def TS.sendSeg (c : TcpCfg) (s : TS) (t : Int) (hops : List String) (seg : List UInt8) : TS :=
  let r := s.net.tcpSendSeg t c.a hops seg
  ({ s with net := r.1, segs := s.segs ++ [seg], written := s.written ++ seg }).emit r.2

/-- `write_some_impl` returned: the handler is posted with the byte count (or parked) -/
def TS.finish (c : TcpCfg) (s : TS) (op : WriteOp) (r : Except Ec Nat) : TS :=
  let x := s.net.tcpWriteFinish c.a op r
  let acc := match r with
    | .ok k => s.accepted ++ op.bufs.flatten.take k
    | .error _ => s.accepted
  ({ s with net := x.1, ctl := .idle, accepted := acc }).emit x.2

/-- `async_write_some_impl` (Drv.tcpWriteRun): checks, first segment -/
def TS.startWrite (c : TcpCfg) (s : TS) (t : Int) (op : WriteOp) : TS :=
  match s.net.tcpWritePrep c.a op.bufs with
  | .error e => s.finish c op (.error e)
  | .ok (_, []) => s.finish c op (.ok 0)
  | .ok (hops, seg :: rest) => { s.sendSeg c t hops seg with ctl := .segs op hops rest seg.length }

/-- the `.tcpWrite` / `.tcpWake` effects: take the parked write out of the slot and run it -/
def TS.wake (c : TcpCfg) (s : TS) (t : Int) : TS :=
  match s.net.tcp? c.a with
  | some sa =>
    match sa.sendH with
    | some op => ({ s with net := s.net.setTcp c.a { sa with sendH := none } }).startWrite c t op
    | none => { s with ctl := .idle }
  | none => { s with ctl := .idle }

def TS.runCtl (c : TcpCfg) (s : TS) (t : Int) : TS :=
  match s.ctl with
  | .idle => s
  | .resend (n + 1) wb acked =>
    match s.net.tcpResendOne t c.a with
    | none => { s with ctl := .resend 0 wb acked }
    | some r => ({ s with net := r.1, ctl := .resend n wb acked }).emit r.2
  | .resend 0 wb acked =>
    let r := s.net.tcpAckPost c.tp c.a wb acked
    let s := { s with net := r.1, ctl := .idle }
    if r.2 then s.wake c t else s
  | .segs op hops rest acc =>
    -- the loop's exit test, evaluated after the previous packet was forwarded (and possibly
    -- handed back by the first hop)
    if s.net.tcpWindowFull c.a then s.finish c op (.ok acc)
    else
      match rest with
      | [] => s.finish c op (.ok acc)
      | seg :: rest' => { s.sendSeg c t hops seg with ctl := .segs op hops rest' (acc + seg.length) }

def TS.step (c : TcpCfg) (s : TS) : TLbl → TS
  | .write t op =>
    match s.ctl with
    | .idle =>
      let r := s.net.tcpAsyncWrite c.a op
      (({ s with net := r.1 }).emit r.2).wake c t
    | _ => s
  | .run t => s.runCtl c t
  | .deliver t i tr =>
    match s.bag[i]? with
    | none => s
    | some p0 =>
      let p := p0.inTransit tr
      match p.ty with
      | .ack =>
        (match s.ctl with
         | .idle =>
           let r := s.net.tcpIncoming c.tp t c.a p
           let n0 := ((r.1.tcp? c.a).map (·.resend.length)).getD 0
           let ctl := match ackPostOf r.2 with
             | some (wb, acked) => TCtl.resend n0 wb acked
             | none => TCtl.idle
           ({ s with bag := s.bag.eraseIdx i, net := r.1, ctl := ctl }).emit r.2
         | _ => s)
      | .payload | .err =>
        let ev := (s.net.tcpPreWake c.b p).bind (·.wakeRead c.tp)
        let r := s.net.tcpIncoming c.tp t c.b p
        (({ s with bag := s.bag.eraseIdx i, net := r.1 }).emit r.2).note ev
      | _ => { s with bag := s.bag.eraseIdx i }
  | .drop i tr =>
    match s.bag[i]? with
    | none => s
    | some p0 =>
      let p := p0.inTransit tr
      if p.hasDrop then { s with bag := s.bag.eraseIdx i, net := s.net.tcpPacketDropped c.tp c.a p }
      else s
  | .read op =>
    let ev := (s.net.tcp? c.b).bind (fun sb => rdEvOf (sb.readSome sb.chan.isSome op.caps).2)
    let r := s.net.tcpAsyncRead c.b op
    (({ s with net := r.1 }).emit r.2).note ev
  | .readNb caps =>
    let r := s.net.tcpReadNb c.b caps
    ({ s with net := r.1 }).note (rdEvOf r.2)
  | .waitRead h =>
    let ev := (s.net.tcp? c.b).bind (fun sb =>
      match sb.available sb.chan.isSome with | .error e => some (RdEv.err e) | .ok _ => none)
    let r := s.net.tcpWaitRead c.b h
    (({ s with net := r.1 }).emit r.2).note ev
  | .closeA t =>
    match s.ctl with
    | .idle =>
      let r := s.net.tcpClose t c.a
      ({ s with net := r.1, closed := true }).emit r.2
    | _ => s

def TS.run (c : TcpCfg) (s : TS) (ls : List TLbl) : TS := ls.foldl (TS.step c) s

def TS.init (c : TcpCfg) (n : NetSt) : TS :=
  { net := n, mss0 := ((n.tcp? c.a).map (·.mss)).getD 0 }

/-- What the theorems need of the initial network state: two distinct socket objects, nothing
    sent by `a` and nothing received by `b` yet on this connection. (`established` below
    builds such a state explicitly; Props/C05.lean shows that the real handshake functions
    produce one.) -/
structure TcpStart (c : TcpCfg) (n : NetSt) : Prop where
  ne : c.a ≠ c.b
  sa : ∃ s, n.tcp? c.a = some s ∧ s.nextOut = 0 ∧ s.resend = [] ∧ s.isOpen = true
  sb : ∃ s, n.tcp? c.b = some s ∧ s.nextIn = 0 ∧ s.reorder = [] ∧ s.inq = []

/-- An established connection, built explicitly: `a` (the connecting side, channel index 0)
    bound to `epA` with forwarder 0, `b` (the accepted socket, index 1) bound to `epB` with
    forwarder 1, one channel whose routes are arbitrary hop lists ending in the peer's
    forwarder, segment sizes as the configuration's path MTU gives them. -/
def established (cfg : NetCfg) (c : TcpCfg) (epA epB : Ep) (hopsAB hopsBA : List String) : NetSt :=
  let mA := cfg.pathMtu epA.addr epB.addr
  let mB := cfg.pathMtu epB.addr epA.addr
  { cfg := cfg,
    fwds := [some c.a, some c.b],
    chans := [{ hops0 := hopsBA ++ [fwdHop 0], hops1 := hopsAB ++ [fwdHop 1],
                ep0 := epA, ep1 := epB, vis0 := epA, vis1 := epB }],
    tcps := [(c.a, { node := "nA", isOpen := true, bound := epA, fwd := some 0, chan := some 0,
                     mss := mA, cwnd := mA * 2 }),
             (c.b, { node := "nB", isOpen := true, bound := epB, fwd := some 1, chan := some 0,
                     mss := mB, cwnd := mB * 2 })] }

end SimVerif
