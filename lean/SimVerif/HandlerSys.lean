/-
  SimVerif.HandlerSys — sockets and acceptors as OPEN systems for C04: the program chooses the
  API calls (any order, any arguments, at any moment), the network chooses which packets
  arrive and when, the kernel chooses when internal timer callbacks run. Each label is one
  call of a mechanism function of SimVerif/Net.lean / SimVerif/Tcp.lean, unchanged, on the
  socket called `name` inside an arbitrary network state. Ghost logs record the handler ids
  given to initiating calls (`started`) and every completion produced (`log`, with a flag
  "invoked inline by an internal callback" vs. "posted").
-/
import SimVerif.Tcp

namespace SimVerif

/-- the completions of an effect list, in order: (inline?, completion) -/
def logOf : List NEff → List (Bool × Compl)
  | [] => []
  | .post c :: rest => (false, c) :: logOf rest
  | .invoke c :: rest => (true, c) :: logOf rest
  | _ :: rest => logOf rest

/-! ### one UDP socket -/

inductive ULbl where
  | recv (op : RecvOp)                    -- async_receive_from / async_receive
  | waitRead (h : Nat)                    -- async_wait(wait_read)
  | waitWrite (now : Int) (h : Nat)       -- async_wait(wait_write)
  | recvNb (caps : List Nat)              -- receive_from (non-blocking)
  | sendTo (now : Int) (dst : Ep) (payload : List UInt8)
  | cancel
  | close                                 -- close / destructor
  | reopen (v4 : Bool)                    -- open
  | bind (ep : Ep)
  | incoming (p : Pkt)                    -- a datagram delivered through the forwarder
  | sendTimer (aborted : Bool)            -- the deferred wait-for-write's timer callback runs
  deriving Repr

/-- the handler id an initiating call brings in -/
def ULbl.newId? : ULbl → Option Nat
  | .recv op => some op.h
  | .waitRead h => some h
  | .waitWrite _ h => some h
  | _ => none

/-- the mechanism function a label stands for -/
def ULbl.eff (name : String) (n : NetSt) : ULbl → NetSt × List NEff
  | .recv op => n.udpAsyncRecv name op
  | .waitRead h => n.udpWaitRead name h
  | .waitWrite now h => n.udpWaitWrite now name h
  | .recvNb caps => ((n.udpRecvNb name caps).1, (n.udpRecvNb name caps).2.1)
  | .sendTo now dst pl => ((n.udpSendTo now name dst pl).1, (n.udpSendTo now name dst pl).2.1)
  | .cancel => n.udpCancel name
  | .close => n.udpClose name
  | .reopen v4 => n.udpOpen name v4
  | .bind ep => ((n.udpBind name ep).1, [])
  | .incoming p =>
    match n.udp? name with
    | none => (n, [])
    | some u => (n.setUdp name (u.incoming p).1, (u.incoming p).2)
  | .sendTimer ab => n.udpSendWaitFired name ab

structure HdS where
  n       : NetSt
  started : List Nat := []                 -- ghost: handler ids given to initiating calls
  log     : List (Bool × Compl) := []      -- ghost: completions produced (inline?, completion)
  parked  : List Nat := []                 -- ghost (TCP): connect handlers bound into a connect timer's callback

def HdS.ids (s : HdS) : List Nat := s.log.map (·.2.h)

def US.step (name : String) (s : HdS) (l : ULbl) : HdS :=
  { n := (l.eff name s.n).1
    started := s.started ++ l.newId?.toList
    log := s.log ++ logOf (l.eff name s.n).2 }

def US.run (name : String) (s : HdS) (ls : List ULbl) : HdS := ls.foldl (US.step name) s

/-! ### all TCP sockets and acceptors of a network state -/

/-- what happens between taking a write out of its slot and `async_write_some_impl`'s verdict:
    iterations of the segmentation loop, and tail-drops the first hop reports synchronously -/
inductive WMid where
  | seg (now : Int) (hops : List String) (seg : List UInt8)     -- `tcpSendSeg`
  | drop (p : Pkt)                                            -- `packet_dropped`
  deriving Repr

inductive h4_HLbl where
  | newSock (name node : String) (isAcc : Bool)                 -- construct a socket / an acceptor
  | connect (now : Int) (name : String) (target : Ep) (h : Nat)
  | read (name : String) (op : ReadOp)
  | waitRead (name : String) (h : Nat)
  | write (name : String) (op : WriteOp)                        -- async_write_some: parks, emits `.tcpWrite`
  /-- the effects `.tcpWrite name h` (`some h`) / `.tcpWake name` (`none`): take the write out of its
      slot, run the loop, then `tcpWriteFinish` with the verdict `r` -/
  | runWrite (name : String) (h? : Option Nat) (mid : List WMid) (r : Except Ec Nat)
  | readNb (name : String) (caps : List Nat)
  | cancel (name : String)
  | close (now : Int) (name : String)                           -- close / destructor of a socket
  | reopen (now : Int) (name : String) (v4 : Bool)
  | bind (name : String) (ep : Ep)
  | accept (now : Int) (name : String) (op : AcceptOp)          -- the three async_accept overloads
  | listen (name : String) (qs : Int)
  | accCancel (name : String)
  | accClose (now : Int) (name : String)                        -- close / destructor of an acceptor
  | incoming (now : Int) (name : String) (p : Pkt)              -- a packet delivered through the forwarder
  | dropped (name : String) (p : Pkt)                           -- a drop notification delivered through the forwarder
  | resendOne (now : Int) (name : String)                       -- effect `.tcpResend`, one iteration
  | ackPost (name : String) (wasBlocked : Bool) (acked : Nat)   -- effect `.tcpAckPost`
  | refusedFired (h : Nat)                                      -- a connect timer's callback runs: refused
  deriving Repr

def h4_HLbl.newId? : h4_HLbl → Option Nat
  | .connect _ _ _ h => some h
  | .read _ op => some op.h
  | .waitRead _ h => some h
  | .write _ op => some op.h
  | .accept _ _ op => some (match op with | .into h _ _ => h | .fresh h _ => h)
  | _ => none

def WMid.apply (tp : TParams) (name : String) (n : NetSt) : WMid → NetSt
  | .seg now hops sg => (n.tcpSendSeg now name hops sg).1
  | .drop p => n.tcpPacketDropped tp name p

def h4_HLbl.eff (tp : TParams) (n : NetSt) : h4_HLbl → NetSt × List NEff
  | .newSock name node isAcc => (n.setTcp name { node := node, acc := if isAcc then some {} else none }, [])
  | .connect now name target h => n.tcpConnect now name target h
  | .read name op => n.tcpAsyncRead name op
  | .waitRead name h => n.tcpWaitRead name h
  | .write name op => n.tcpAsyncWrite name op
  | .runWrite name h? mid r =>
    match n.tcp? name with
    | none => (n, [])
    | some t =>
      match t.sendH with
      | none => (n, [])
      | some op =>
        if (match h? with | some h => op.h != h | none => false) then (n, [])
        else ((mid.foldl (WMid.apply tp name) (n.setTcp name { t with sendH := none })).tcpWriteFinish name op r)
  | .readNb name caps => ((n.tcpReadNb name caps).1, [])
  | .cancel name => n.tcpCancel name
  | .close now name => n.tcpClose now name
  | .reopen now name v4 => n.tcpOpen now name v4
  | .bind name ep => ((n.tcpBind name ep).1, [])
  | .accept now name op => n.accAsyncAccept now name op
  | .listen name qs => ((n.accListen name qs).1, [])
  | .accCancel name => n.accCancel name
  | .accClose now name => n.accClose now name
  | .incoming now name p =>
    match n.tcp? name with
    | none => (n, [])
    | some t => if t.acc.isSome then n.accIncoming now name p else n.tcpIncoming tp now name p
  | .dropped name p => (n.tcpPacketDropped tp name p, [])
  | .resendOne now name => match n.tcpResendOne now name with | some r => r | none => (n, [])
  | .ackPost name wb acked => ((n.tcpAckPost tp name wb acked).1, [])
  | .refusedFired h => (n, [.invoke { h := h, ec := .refused }])

/-- handler ids an effect list binds into a connect timer (the refused connect of `async_connect`) -/
def parkedOf : List NEff → List Nat
  | [] => []
  | .armAfter _ _ _ (.tcpConnectRefused _ h) :: rest => h :: parkedOf rest
  | .armTimer _ _ _ (.tcpConnectRefused _ h) :: rest => h :: parkedOf rest
  | _ :: rest => parkedOf rest

def HTS.step (tp : TParams) (s : HdS) (l : h4_HLbl) : HdS :=
  { n := (l.eff tp s.n).1
    started := s.started ++ l.newId?.toList
    log := s.log ++ logOf (l.eff tp s.n).2
    parked := match l with
      | .connect _ _ _ _ => s.parked ++ parkedOf (l.eff tp s.n).2
      | .refusedFired h => s.parked.erase h
      | _ => s.parked }

def HTS.run (tp : TParams) (s : HdS) (ls : List h4_HLbl) : HdS := ls.foldl (HTS.step tp) s

/-- connections queued at acceptor `name` are valid channel ids (the C++ queue holds
    `shared_ptr<channel>`). NOT a side condition: it is an invariant of the system
    (`ConnsOk`, SimVerif/Lemmas/HandlersConns.lean), assumed of the initial table only. -/
def accConnsOk (n : NetSt) (name : String) : Prop :=
  ∀ s a, n.tcp? name = some s → s.acc = some a → ∀ c ∈ a.conns, c < n.chans.length

/-- **Preconditions of the code and guarantees of the environment**, per label:
    * an initiating call is made on an object that exists (an accept on an acceptor);
    * `async_connect`: `assert(!m_connect_handler)` when the socket is already open;
    * the socket object a socket-returning accept creates is new; constructors create new objects;
    * the packet the environment hands in carries no channel or a valid one (it can only deliver
      packets that were sent, and a sent SYN / SYN-ACK carries an allocated channel id);
    * a connect timer's callback runs only for a handler that was bound into it.
    That accept queues hold valid channels is no longer assumed: it is preserved by every label
    (`HL.cok_label`) and part of the invariant `h4_TInv`. -/
def HTS.ok (s : HdS) : h4_HLbl → Prop
  | .newSock name _ _ => s.n.tcp? name = none
  | .connect _ name _ _ => ∃ s0, s.n.tcp? name = some s0 ∧ (s0.isOpen = true → s0.connectH = none)
  | .read name _ => (s.n.tcp? name).isSome
  | .waitRead name _ => (s.n.tcp? name).isSome
  | .write name _ => (s.n.tcp? name).isSome
  | .accept _ name op => (∃ s0, s.n.tcp? name = some s0 ∧ s0.acc.isSome)
      ∧ (∀ h nn, op = .fresh h nn → s.n.tcp? nn = none)
  | .incoming _ _ p => ∀ c, p.chan = some c → c < s.n.chans.length
  | .refusedFired h => h ∈ s.parked
  | _ => True

def HTS.okRun (tp : TParams) : HdS → List h4_HLbl → Prop
  | _, [] => True
  | s, l :: rest => HTS.ok s l ∧ HTS.okRun tp (HTS.step tp s l) rest

/-! ### the packet clause as a promise of the environment only

`HTS.ok`'s one remaining clause about channels ("the packet handed to `.incoming` carries no
channel or a valid one") mentions the channel table. It follows (`HL.okRun_of_okRunSent`,
SimVerif/Lemmas/HandlersWire.lean) from a promise that mentions only what was put on the wire:
*the network hands in — delivers, or reports as dropped — only packets whose channel id some
forwarded packet carried before* (`wire`: ghost list of those ids). Drop notifications are
included because `packet_dropped` queues the reported packet and the ACK path sends it again. -/

/-- the channel ids carried by the packets an effect list puts on the wire -/
def wireOf : List NEff → List Nat
  | [] => []
  | .forward p :: rest => p.chan.toList ++ wireOf rest
  | _ :: rest => wireOf rest

/-- `p` carries no channel id, or one that was on the wire -/
def pktSent (wire : List Nat) (p : Pkt) : Prop := ∀ c, p.chan = some c → c ∈ wire

/-- the promise of the environment, per label -/
def HTS.okEnv (wire : List Nat) : h4_HLbl → Prop
  | .incoming _ _ p => pktSent wire p
  | .dropped _ p => pktSent wire p
  | .runWrite _ _ mid _ => ∀ p, WMid.drop p ∈ mid → pktSent wire p
  | _ => True

/-- `HTS.ok` without its packet clause: the preconditions of the code -/
def HTS.okCode (s : HdS) : h4_HLbl → Prop
  | .incoming _ _ _ => True
  | l => HTS.ok s l

/-- a run in which the code's preconditions hold and the environment keeps its promise; `w` is
    the ghost list of channel ids on the wire so far -/
def HTS.okRunSent (tp : TParams) : HdS → List Nat → List h4_HLbl → Prop
  | _, _, [] => True
  | s, w, l :: rest =>
    HTS.okCode s l ∧ HTS.okEnv w l ∧ HTS.okRunSent tp (HTS.step tp s l) (w ++ wireOf (l.eff tp s.n).2) rest

end SimVerif
