/-
  SimVerif.HandlerSys — sockets and acceptors as OPEN systems for C04: the program chooses the
  API calls (any order, any arguments, at any moment), the network chooses which packets
  arrive and when, the kernel chooses when internal timer callbacks run. Each label is one
  call of a mechanism function of SimVerif/Net.lean / SimVerif/Tcp.lean, unchanged, on the
  socket called `name` inside an arbitrary network state. Ghost logs record the handler ids
  given to initiating calls (`started`) and every completion produced (`log`, with a flag
  "invoked inline by an internal callback" vs. "posted").
-/
import SimVerif.Tcp

namespace SimVerif

/-- the completions of an effect list, in order: (inline?, completion) -/
def logOf : List NEff → List (Bool × Compl)
  | [] => []
  | .post c :: rest => (false, c) :: logOf rest
  | .invoke c :: rest => (true, c) :: logOf rest
  | _ :: rest => logOf rest

/-! ### one UDP socket -/

inductive ULbl where
  | recv (op : RecvOp)                    -- async_receive_from / async_receive
  | waitRead (h : Nat)                    -- async_wait(wait_read)
  | waitWrite (now : Int) (h : Nat)       -- async_wait(wait_write)
  | recvNb (caps : List Nat)              -- receive_from (non-blocking)
  | sendTo (now : Int) (dst : Ep) (payload : List UInt8)
  | cancel
  | close                                 -- close / destructor
  | reopen (v4 : Bool)                    -- open
  | bind (ep : Ep)
  | incoming (p : Pkt)                    -- a datagram delivered through the forwarder
  | sendTimer (aborted : Bool)            -- the deferred wait-for-write's timer callback runs
  deriving Repr

/-- the handler id an initiating call brings in -/
def ULbl.newId? : ULbl → Option Nat
  | .recv op => some op.h
  | .waitRead h => some h
  | .waitWrite _ h => some h
  | _ => none

/-- the mechanism function a label stands for -/
def ULbl.eff (name : String) (n : NetSt) : ULbl → NetSt × List NEff
  | .recv op => n.udpAsyncRecv name op
  | .waitRead h => n.udpWaitRead name h
  | .waitWrite now h => n.udpWaitWrite now name h
  | .recvNb caps => ((n.udpRecvNb name caps).1, (n.udpRecvNb name caps).2.1)
  | .sendTo now dst pl => ((n.udpSendTo now name dst pl).1, (n.udpSendTo now name dst pl).2.1)
  | .cancel => n.udpCancel name
  | .close => n.udpClose name
  | .reopen v4 => n.udpOpen name v4
  | .bind ep => ((n.udpBind name ep).1, [])
  | .incoming p =>
    match n.udp? name with
    | none => (n, [])
    | some u => (n.setUdp name (u.incoming p).1, (u.incoming p).2)
  | .sendTimer ab => n.udpSendWaitFired name ab

structure HS where
  n       : NetSt
  started : List Nat := []                 -- ghost: handler ids given to initiating calls
  log     : List (Bool × Compl) := []      -- ghost: completions produced (inline?, completion)

def HS.ids (s : HS) : List Nat := s.log.map (·.2.h)

def US.step (name : String) (s : HS) (l : ULbl) : HS :=
  { n := (l.eff name s.n).1
    started := s.started ++ l.newId?.toList
    log := s.log ++ logOf (l.eff name s.n).2 }

def US.run (name : String) (s : HS) (ls : List ULbl) : HS := ls.foldl (US.step name) s

end SimVerif
