/-
  C20 — path MTU.

  "No TCP segment, in either direction of a connection, carries more payload than the path MTU
   the configuration reports for the two endpoints when the connection is made, and segments
   are never merged, split or altered in transit. A UDP datagram larger than the path MTU is
   silently discarded when the sending socket's don't-fragment option is set (send_to still
   reports it as sent) and is delivered whole otherwise; datagrams within the MTU are
   unaffected by the option."

  Property theorems only, over the mechanism functions of SimVerif/Tcp.lean and
  SimVerif/Net.lean (all states, all arguments). Helper lemmas: SimVerif/Lemmas/TcpMtu.lean.
  The concrete states of the examples (`c20Listen`, `c20Pending`, `c20Udp`, …) are defined at
  the end of the lemma file. `s5_forwards effs` is the list of packets of the `.forward` effects of `effs`, in order
  (`mem_forwards : p ∈ s5_forwards l ↔ NEff.forward p ∈ l`); `Chan.static` is a channel record
  with its two byte counters zeroed.
-/
import SimVerif.Lemmas.TcpMtu
import SimVerif.Lemmas.TcpGhost
import SimVerif.TcpEx

namespace SimVerif

/-! ### 1. segmentation of one buffer -/

/-- **One buffer is cut into maximal pieces**: the pieces concatenate to the buffer, none is
    empty, none exceeds the MSS, and only the last may be shorter than the MSS.
    (`mss = 0`: the model cuts 1-byte pieces, see the `example` below; the C++ loop
    `while (buf_size > 0) { packet_size = min(buf_size, m_mss) = 0; … }` would never terminate,
    producing empty packets forever. `get_path_mtu` returning 0 is a configuration error.) -/
theorem C20_cutBuf (mss : Nat) (h : 0 < mss) (b : List UInt8) :
    (cutBuf mss (b.length + 1) b).flatten = b
    ∧ (∀ x ∈ cutBuf mss (b.length + 1) b, x ≠ [] ∧ x.length ≤ mss)
    ∧ (∀ x ∈ (cutBuf mss (b.length + 1) b).dropLast, x.length = mss) :=
  cutBuf_spec mss h (b.length + 1) b (by omega)

example : cutBuf 0 3 [1, 2] = [[1], [2]] := by decide
example : cutBuf 3 9 [1, 2, 3, 4, 5, 6, 7, 8] = [[1, 2, 3], [4, 5, 6], [7, 8]] := by decide

/-! ### 2. the segments of one write -/

/-- **The segments of a write are exactly the per-buffer cuts, in order** (a segment never
    spans two buffers), and the route is the channel's route to the peer. -/
theorem C20_tcp_segments_per_buffer (n : NetSt) (name : String) (bufs : List (List UInt8))
    (s : TcpSock) (hops : List String) (segs : List (List UInt8))
    (hs : n.tcp? name = some s) (h : n.tcpWritePrep name bufs = .ok (hops, segs)) :
    segs = (bufs.map (fun b => cutBuf s.mss (b.length + 1) b)).flatten := by
  unfold NetSt.tcpWritePrep at h
  rw [hs] at h; dsimp only at h
  split at h
  · cases h
  · split at h
    · cases h
    · split at h
      · cases h
      · split at h
        · cases h
        · split at h
          · cases h
          · cases h; rfl

/-- **No segment of a write carries more than the socket's MSS; none is empty; together they
    are the bytes of the buffers, in order.** -/
theorem C20_tcp_segment_bound (n : NetSt) (name : String) (bufs : List (List UInt8))
    (s : TcpSock) (hops : List String) (segs : List (List UInt8))
    (hs : n.tcp? name = some s) (hm : 0 < s.mss)
    (h : n.tcpWritePrep name bufs = .ok (hops, segs)) :
    segs.flatten = bufs.flatten ∧ ∀ seg ∈ segs, seg ≠ [] ∧ seg.length ≤ s.mss := by
  rw [C20_tcp_segments_per_buffer n name bufs s hops segs hs h]
  clear h
  constructor
  · induction bufs with
    | nil => rfl
    | cons b bs ih =>
      simp only [List.map_cons, List.flatten_cons, List.flatten_append]
      rw [(C20_cutBuf s.mss hm b).1]
      rw [ih]
  · intro seg hseg
    obtain ⟨l, hl, hseg⟩ := List.mem_flatten.mp hseg
    obtain ⟨b, _, rfl⟩ := List.mem_map.mp hl
    exact (C20_cutBuf s.mss hm b).2.1 seg hseg

/-- **One iteration of the segmentation loop puts the segment, whole and unaltered, into at
    most one packet** carrying the socket's next sequence number along the channel's route;
    exactly one when the socket has a channel. -/
theorem C20_tcp_sendSeg_packet (n : NetSt) (now : Int) (name : String) (hops : List String)
    (seg : List UInt8) :
    (∀ p, NEff.forward p ∈ (n.tcpSendSeg now name hops seg).2 →
        p.payload = seg ∧ p.len = seg.length ∧ p.ty = .payload ∧ p.hops = hops
        ∧ ∀ s, n.tcp? name = some s → p.id = s.nextOut)
    ∧ (s5_forwards (n.tcpSendSeg now name hops seg).2).length ≤ 1
    ∧ (∀ s, n.tcp? name = some s → (s.chan.bind n.chan?).isSome →
        (s5_forwards (n.tcpSendSeg now name hops seg).2).length = 1) := by
  unfold NetSt.tcpSendSeg
  cases hs : n.tcp? name with
  | none => simp
  | some s =>
    dsimp only
    obtain ⟨_, _, _, _, h5⟩ := mtu_tcpSendPacket_spec (n.setTcp name { s with nextOut := s.nextOut + 1 }) now name
      { id := s.nextOut, ty := .payload, len := seg.length, ovh := 40, hops := hops,
        src := s.bound.toString, payload := seg, hasDrop := true, dropFwd := s.fwd } _
      (tcp?_setTcp_same _ _ _)
    rcases h5 with ⟨h5, h6⟩ | ⟨h5, bc, h6⟩
    · rw [h6]
      refine ⟨by simp, by simp, ?_⟩
      intro s' hs' hc; cases hs'
      have h5' : s.chan.bind n.chan? = none := h5
      simp [h5'] at hc
    · refine ⟨?_, by rw [h6]; simp, fun _ _ _ => by rw [h6]; rfl⟩
      intro p hp
      rw [← mem_forwards, h6] at hp
      simp only [List.mem_singleton] at hp
      subst hp
      exact ⟨rfl, rfl, rfl, rfl, fun s' hs' => by cases hs'; rfl⟩

/-- **Sending never changes any socket's MSS**: it is fixed when the connection is made. -/
theorem C20_sendSeg_keeps_mss (n : NetSt) (now : Int) (name : String) (hops : List String)
    (seg : List UInt8) (p : Pkt) (k : String) :
    ((n.tcpSendSeg now name hops seg).1.tcp? k).map (·.mss) = (n.tcp? k).map (·.mss)
    ∧ ((n.tcpSendPacket now name p).1.tcp? k).map (·.mss) = (n.tcp? k).map (·.mss) := by
  have hP : ∀ (n : NetSt) (p : Pkt),
      ((n.tcpSendPacket now name p).1.tcp? k).map (·.mss) = (n.tcp? k).map (·.mss) := by
    intro n p
    cases hs : n.tcp? name with
    | none => unfold NetSt.tcpSendPacket; rw [hs]
    | some s =>
      obtain ⟨_, _, h3, ⟨s', h4, h4'⟩, _⟩ := mtu_tcpSendPacket_spec n now name p s hs
      by_cases hk : k = name
      · subst hk; rw [h4, hs, h4']; rfl
      · rw [h3 k hk]
  refine ⟨?_, hP n p⟩
  unfold NetSt.tcpSendSeg
  cases hs : n.tcp? name with
  | none => rfl
  | some s =>
    dsimp only
    rw [hP]
    by_cases hk : k = name
    · subst hk; rw [tcp?_setTcp_same, hs]; rfl
    · rw [tcp?_setTcp_other _ _ _ _ hk]

/-! ### 3. the MSS is the configured path MTU of the two endpoints, fixed when the connection is made -/

/-- **Every way `async_connect` can end** (no side conditions beyond the socket existing): the
    configuration is untouched, the socket still exists, and either
    * the connect failed before `internal_connect` (implicit bind or address family) with a
      posted error, or
    * `internal_connect` ran and the socket's MSS is the configured path MTU from its own bound
      address (after the implicit bind) to the target, its window two segments; then either the
      connection is pending on a channel whose side 0 is the socket's bound endpoint, or it was
      refused (no channel; the 50 ms refusal timer is the last effect). -/
theorem C20_connect_cases (n : NetSt) (now : Int) (name : String) (target : Ep) (h : Nat)
    (s0 : TcpSock) (hs : n.tcp? name = some s0) :
    (n.tcpConnect now name target h).1.cfg = n.cfg
    ∧ ∃ s', (n.tcpConnect now name target h).1.tcp? name = some s'
      ∧ ((∃ ec, ec ≠ Ec.ok ∧ (n.tcpConnect now name target h).2.getLast? = some (.post { h := h, ec := ec })
            ∧ (s0.connectH = none → s'.connectH = none))
         ∨ (s'.mss = n.cfg.pathMtu s'.bound.addr target.addr ∧ s'.cwnd = s'.mss * 2
            ∧ ((∃ c, s'.chan = some c ∧ s'.connectH = some h
                  ∧ ((n.tcpConnect now name target h).1.chan? c).map Chan.ep0 = some s'.bound)
               ∨ (s'.chan = none ∧ (s0.connectH = none → s'.connectH = none)
                  ∧ (n.tcpConnect now name target h).2.getLast?
                      = some (.armAfter name 0 50000000 (.tcpConnectRefused name h)))))) :=
  tcpConnect_cases n now name target h s0 hs

/-- **A connect that went through to a pending connection set the MSS to the path MTU the
    configuration reports from the socket's own (implicitly) bound address to the target.**

    Hypothesis added to the requested statement: no connect was outstanding before the call
    (`s0.connectH = none`). Without it "the socket now waits with handler `h`" does not identify
    the successful branch: a socket that is already connecting with the same handler id and
    whose second `async_connect` fails in the implicit bind keeps `connectH = some h` with its
    old MSS (see the counterexample below). `C20_connect_cases` is the unconditional form. -/
theorem C20_connect_sets_mss (n : NetSt) (now : Int) (name : String) (target : Ep) (h : Nat)
    (s0 : TcpSock) (n' : NetSt) (effs : List NEff) (s' : TcpSock)
    (h0 : n.tcp? name = some s0) (hfresh : s0.connectH = none)
    (hr : n.tcpConnect now name target h = (n', effs))
    (hs' : n'.tcp? name = some s') (hc : s'.connectH = some h) :
    s'.mss = n'.cfg.pathMtu s'.bound.addr target.addr ∧ n'.cfg = n.cfg ∧ s'.cwnd = s'.mss * 2
    ∧ ∃ c, s'.chan = some c ∧ (n'.chan? c).map Chan.ep0 = some s'.bound := by
  obtain ⟨a1, s1, a2, a3⟩ := tcpConnect_cases n now name target h s0 h0
  rw [hr] at a1 a2 a3
  dsimp only at a1 a2 a3
  rw [hs'] at a2; cases a2
  rcases a3 with ⟨_, _, _, b⟩ | ⟨b1, b2, b3⟩
  · rw [b hfresh] at hc; cases hc
  · rcases b3 with ⟨c, c1, _, c3⟩ | ⟨_, c2, _⟩
    · exact ⟨by rw [a1]; exact b1, a1, b2, c, c1, c3⟩
    · rw [c2 hfresh] at hc; cases hc

/-- **The accepting side**: attaching an incoming connection to the peer socket sets its MSS to
    the configured path MTU from the acceptor's bound address to the connector's real endpoint
    (`ch.ep0`), binds it to the acceptor's endpoint and gives it the channel. (`tcpOpen` /
    `tcpClose` of the peer may update a channel's byte counters — the end-of-stream packet of a
    previous connection — but never its endpoints, so `ch` may be read before the call.) -/
theorem C20_attach_sets_mss (n : NetSt) (now : Int) (peer : String) (bindEp : Ep) (cid : Nat)
    (p0 : TcpSock) (ch : Chan) (hp : n.tcp? peer = some p0) (hc : n.chan? cid = some ch) :
    (n.tcpAttach now peer bindEp cid).1.cfg = n.cfg
    ∧ (∀ c, ((n.tcpAttach now peer bindEp cid).1.chan? c).map Chan.ep0 = (n.chan? c).map Chan.ep0)
    ∧ ∃ s', (n.tcpAttach now peer bindEp cid).1.tcp? peer = some s'
        ∧ s'.mss = n.cfg.pathMtu bindEp.addr ch.ep0.addr ∧ s'.cwnd = s'.mss * 2
        ∧ s'.bound = bindEp ∧ s'.chan = some cid ∧ s'.connectH = none :=
  s5_tcpAttach_spec n now peer bindEp cid p0 ch hp hc

/-- **The configuration (and with it the MTU table) is never changed** by the functions of
    this property. -/
theorem C20_cfg_unchanged (n : NetSt) (now : Int) (name : String) :
    (∀ p, (n.tcpSendPacket now name p).1.cfg = n.cfg)
    ∧ (∀ hops seg, (n.tcpSendSeg now name hops seg).1.cfg = n.cfg)
    ∧ (n.tcpClose now name).1.cfg = n.cfg
    ∧ (∀ v4, (n.tcpOpen now name v4).1.cfg = n.cfg)
    ∧ (∀ target h, (n.tcpConnect now name target h).1.cfg = n.cfg)
    ∧ (∀ bindEp cid, (n.tcpAttach now name bindEp cid).1.cfg = n.cfg)
    ∧ (∀ tp p, (n.tcpPacketDropped tp name p).cfg = n.cfg)
    ∧ (∀ n' effs, n.tcpResendOne now name = some (n', effs) → n'.cfg = n.cfg)
    ∧ (∀ target, (n.internalConnect name target).1.cfg = n.cfg) := by
  have hP : ∀ (n : NetSt) p, (n.tcpSendPacket now name p).1.cfg = n.cfg := by
    intro n p
    cases hs : n.tcp? name with
    | none => unfold NetSt.tcpSendPacket; rw [hs]
    | some s => exact (mtu_tcpSendPacket_spec n now name p s hs).1
  cases hs : n.tcp? name with
  | none =>
    refine ⟨hP n, ?_, ?_, ?_, ?_, ?_, ?_, ?_, fun t => (internalConnect_spec n name t).1⟩
    · intro hops seg; unfold NetSt.tcpSendSeg; rw [hs]
    · unfold NetSt.tcpClose; rw [hs]
    · intro v4; unfold NetSt.tcpOpen NetSt.tcpClose; rw [hs]; dsimp only; rw [hs]
    · intro t h; unfold NetSt.tcpConnect; rw [hs]
    · intro b c; unfold NetSt.tcpAttach; rw [hs]
    · intro tp p; unfold NetSt.tcpPacketDropped; rw [hs]
    · intro n' effs h; unfold NetSt.tcpResendOne at h; rw [hs] at h; cases h
  | some s =>
    have hsome : (n.tcp? name).isSome := by simp [hs]
    refine ⟨hP n, ?_, (mtu_tcpClose_spec n now name hsome).1, fun v4 => (tcpOpen_spec n now name v4 hsome).1,
      fun t h => (tcpConnect_cases n now name t h s hs).1, ?_, ?_, ?_,
      fun t => (internalConnect_spec n name t).1⟩
    · intro hops seg; unfold NetSt.tcpSendSeg; rw [hs]; dsimp only; rw [hP]; rfl
    · intro b c
      unfold NetSt.tcpAttach; rw [hs]; dsimp only
      have := (tcpOpen_spec n now name s.isV4 hsome).1
      split
      · simp [this]
      · exact this
    · intro tp p
      rcases mtu_tcpPacketDropped_spec tp n name p s hs with ⟨_, h⟩ | ⟨_, _, _, h, _⟩ <;> rw [h]; rfl
    · intro n' effs h
      unfold NetSt.tcpResendOne at h; rw [hs] at h; dsimp only at h
      split at h
      · cases h
      · split at h
        · cases h
        · split at h
          · simp only [Option.some.injEq] at h
            have h1 := congrArg (fun r => r.1.cfg) h
            dsimp only at h1
            rw [← h1, hP]; rfl
          · cases h

/-! ### 4. segments are never merged, split or altered: drop notification and retransmission -/

/-- **A dropped segment is queued for retransmission as it was sent**: same sequence number,
    payload, length, type and overhead (only the route and the drop callback are renewed);
    it is appended as one entry of its own, and the socket's MSS and next sequence number do
    not change. Without a channel nothing happens at all. -/
theorem C20_no_merge_split_dropped (tp : TParams) (n : NetSt) (name : String) (p : Pkt)
    (s : TcpSock) (hs : n.tcp? name = some s) :
    (s.chan.bind n.chan? = none ∧ n.tcpPacketDropped tp name p = n)
    ∨ ∃ s' p', (n.tcpPacketDropped tp name p).tcp? name = some s'
        ∧ s'.resend = s.resend ++ [p']
        ∧ p' = { p with hops := p'.hops, hasDrop := p'.hasDrop, dropFwd := p'.dropFwd }
        ∧ p'.id = p.id ∧ p'.payload = p.payload ∧ p'.len = p.len ∧ p'.ty = p.ty ∧ p'.ovh = p.ovh
        ∧ s'.mss = s.mss ∧ s'.nextOut = s.nextOut := by
  rcases mtu_tcpPacketDropped_spec tp n name p s hs with h | ⟨ch, s', _, h2, h3, h4, h5, _, _⟩
  · exact .inl h
  · refine .inr ⟨s', _, by rw [h2]; exact tcp?_setTcp_same _ _ _, h3, rfl, rfl, rfl, rfl, rfl, rfl, h4, h5⟩

/-- **Retransmission sends the head of the retransmission list, one stored segment per packet,
    unaltered** (only the capture's byte counter is stamped): the head is removed from the
    list, every forwarded packet is that head, there is at most one, and exactly one when the
    socket has a channel. MSS and next sequence number do not change. -/
theorem C20_no_merge_split_resend (n : NetSt) (now : Int) (name : String) (s : TcpSock)
    (n' : NetSt) (effs : List NEff) (hs : n.tcp? name = some s)
    (h : n.tcpResendOne now name = some (n', effs)) :
    ∃ p rest, s.resend = p :: rest
      ∧ (n'.tcp? name).map (·.resend) = some rest
      ∧ (n'.tcp? name).map (·.mss) = some s.mss
      ∧ (n'.tcp? name).map (·.nextOut) = some s.nextOut
      ∧ (∀ q, NEff.forward q ∈ effs → q = { p with bc := q.bc })
      ∧ (s5_forwards effs).length ≤ 1
      ∧ ((s.chan.bind n.chan?).isSome → (s5_forwards effs).length = 1) := by
  obtain ⟨p, rest, h1, ⟨s', h2, h3, h4, h5⟩, h6, h7, h8⟩ := mtu_tcpResendOne_spec n now name s n' effs hs h
  exact ⟨p, rest, h1, by simp [h2, h3], by simp [h2, h4], by simp [h2, h5], h6, h7, h8⟩

/-! ### 5. UDP and the don't-fragment option -/

/-- **(a) Don't-fragment set, datagram above the path MTU: silently discarded.** `send_to`
    reports success and the full byte count, nothing is forwarded (nor captured): the only
    effects are those of `abort_send_handlers()`. -/
theorem C20_udp_df (n : NetSt) (now : Int) (name : String) (dst : Ep) (payload : List UInt8)
    (u : UdpSock) (hs : n.udp? name = some u) (hb : u.bound.isDefault = false)
    (hdf : u.df = true) (hbig : payload.length > n.cfg.pathMtu u.bound.addr dst.addr)
    (hmax : payload.length ≤ 65535) :
    (n.udpSendTo now name dst payload).2.2 = (.ok, payload.length)
    ∧ (n.udpSendTo now name dst payload).2.1 = (u.abortSend name).2
    ∧ (∀ p, NEff.forward p ∉ (n.udpSendTo now name dst payload).2.1) := by
  rw [s5_udpSendTo_bound n now name dst payload u hs hb]
  have h0 : payload.length ≠ 0 := by omega
  have h1 : ¬ payload.length > 65535 := by omega
  simp only [h0, h1, hdf, hbig, if_false, Bool.true_and, decide_true, if_true, true_and]
  intro p hp
  simp [UdpSock.abortSend] at hp
  split at hp <;> simp at hp

/-- **(b) Within the path MTU the option makes no difference**: the same call on the same state
    with the flag set and with the flag cleared returns the same effects, error code and byte
    count, and leaves the same socket up to the flag itself. (Hypothesis exactly as weak as
    the model allows: `¬ payload.length > mtu`.) -/
theorem C20_udp_df_irrelevant (n : NetSt) (now : Int) (name : String) (dst : Ep) (payload : List UInt8)
    (u : UdpSock) (hs : n.udp? name = some u) (hb : u.bound.isDefault = false)
    (hsmall : ¬ payload.length > n.cfg.pathMtu u.bound.addr dst.addr) :
    ((n.setUdp name { u with df := true }).udpSendTo now name dst payload).2
      = ((n.setUdp name { u with df := false }).udpSendTo now name dst payload).2
    ∧ (((n.setUdp name { u with df := true }).udpSendTo now name dst payload).1.udp? name).map
          (fun u => { u with df := false })
      = (((n.setUdp name { u with df := false }).udpSendTo now name dst payload).1.udp? name).map
          (fun u => { u with df := false }) := by
  rw [s5_udpSendTo_bound (n.setUdp name { u with df := true }) now name dst payload { u with df := true }
        (udp?_setUdp_same _ _ _) hb,
      s5_udpSendTo_bound (n.setUdp name { u with df := false }) now name dst payload { u with df := false }
        (udp?_setUdp_same _ _ _) hb]
  have r1 : (n.setUdp name { u with df := true }).udpRoute u.bound dst = n.udpRoute u.bound dst :=
    udpRoute_setUdp n name u { u with df := true } hs rfl rfl _ _
  have r0 : (n.setUdp name { u with df := false }).udpRoute u.bound dst = n.udpRoute u.bound dst :=
    udpRoute_setUdp n name u { u with df := false } hs rfl rfl _ _
  simp only [s5_cfg_setUdp, r1, r0, hsmall, decide_false, Bool.and_false,
    Bool.false_eq_true, if_false]
  split
  · simp [UdpSock.abortSend]
  · split
    · simp [UdpSock.abortSend]
    · split
      · simp [UdpSock.abortSend]
      · split
        · simp [UdpSock.abortSend]
        · simp [UdpSock.abortSend]
          rfl

/-- **(c) A datagram is delivered whole or not at all**: every forwarded packet carries exactly
    the caller's bytes (never fragmented or truncated, also above the MTU) and `send_to` then
    reports the full count; at most one packet is forwarded; and when the option is clear (or
    the datagram fits the MTU), the datagram is non-empty and at most 65535 bytes, the send
    queue is not full and the destination is a bound UDP socket, exactly one packet IS
    forwarded, along the route `udpRoute` computes. -/
theorem C20_udp_whole (n : NetSt) (now : Int) (name : String) (dst : Ep) (payload : List UInt8)
    (u : UdpSock) (hs : n.udp? name = some u) (hb : u.bound.isDefault = false) :
    (∀ p, NEff.forward p ∈ (n.udpSendTo now name dst payload).2.1 →
        p.payload = payload ∧ p.len = payload.length ∧ p.ty = .payload ∧ p.src = u.bound.toString
        ∧ (n.udpSendTo now name dst payload).2.2 = (.ok, payload.length))
    ∧ (s5_forwards (n.udpSendTo now name dst payload).2.1).length ≤ 1
    ∧ (∀ hops, (u.df = false ∨ payload.length ≤ n.cfg.pathMtu u.bound.addr dst.addr) →
        0 < payload.length → payload.length ≤ 65535 → ¬ (u.nextSend - now > u.sendQueueTime) →
        n.udpRoute u.bound dst = some hops →
        s5_forwards (n.udpSendTo now name dst payload).2.1
            = [{ id := 0, ty := .payload, len := payload.length, ovh := 28, hops := hops,
                 src := u.bound.toString, payload := payload }]
        ∧ (n.udpSendTo now name dst payload).2.2 = (.ok, payload.length)) := by
  have habort : s5_forwards (u.abortSend name).2 = [] := by
    unfold UdpSock.abortSend; dsimp only
    split <;> rfl
  rw [s5_udpSendTo_bound n now name dst payload u hs hb]
  dsimp only
  refine ⟨?_, ?_, ?_⟩
  · intro p hp
    rw [← mem_forwards] at hp
    split at hp
    · simp [habort] at hp
    · split at hp
      · simp [habort] at hp
      · split at hp
        · simp [habort] at hp
        · split at hp
          · simp [habort] at hp
          · split at hp
            · simp [habort] at hp
            · rename_i h0 h1 h2 h3 _ hops hr
              have hpc : s5_forwards (if n.cfg.pcap then [NEff.pcapUdp now u.bound dst payload] else []) = [] := by
                split <;> rfl
              simp only [s5_forwards_append, habort, hpc, forwards_forward, forwards_nil, List.nil_append,
                List.mem_singleton] at hp
              subst hp
              simp [h0, h1, h2, h3]
  · split
    · simp [habort]
    · split
      · simp [habort]
      · split
        · simp [habort]
        · split
          · simp [habort]
          · split
            · simp [habort]
            · have hpc : s5_forwards (if n.cfg.pcap then [NEff.pcapUdp now u.bound dst payload] else []) = [] := by
                split <;> rfl
              simp [habort, hpc]
  · intro hops hdf h0 h1 h2 hr
    have h0' : payload.length ≠ 0 := by omega
    have h1' : ¬ payload.length > 65535 := by omega
    have hd : (u.df && decide (payload.length > n.cfg.pathMtu u.bound.addr dst.addr)) = false := by
      rcases hdf with h | h
      · simp [h]
      · simp; intro _; omega
    have hpc : s5_forwards (if n.cfg.pcap then [NEff.pcapUdp now u.bound dst payload] else []) = [] := by
      split <;> rfl
    simp only [h0', h1', hd, h2, hr, if_false, Bool.false_eq_true]
    simp [habort, hpc]

/-! ### 6. non-vacuity -/

/-- connecting `c` (A) to the acceptor on B: implicit bind to 10.0.0.1:2000, MSS = the A→B path
    MTU 100, window 200, pending on channel 0 -/
example :
    c20Listen.tcp? "c" = some { node := "A" }
    ∧ ((c20Listen.tcpConnect 0 "c" { addr := "10.0.0.2", port := 8080 } 7).1.tcp? "c").map
        (fun s => (s.mss, s.cwnd, s.bound, s.connectH, s.chan))
      = some (100, 200, { addr := "10.0.0.1", port := 2000 }, some 7, some 0) := by
  refine ⟨rfl, ?_⟩
  simp [NetSt.tcpConnect, c20Listen, c20Cfg, NetSt.tcp?, NetSt.tcpOpen, NetSt.tcpClose, NetSt.setTcp,
    setAssoc, TcpSock.cancel, TcpSock.abortRecv, TcpSock.abortSend, NetSt.newFwd, Ep.isV4, ioResolve,
    NetCfg.ipsOf, addrIsV4, simBind, c20Probe, NetSt.internalConnect, TcpSock.isListening,
    NetCfg.pathMtu, Ep.isDefault, List.lookup]

/-- the accepting side of the same connection gets the B→A path MTU, 3000 -/
example : ∃ s', (c20Pending.tcpAttach 0 "p" { addr := "10.0.0.2", port := 8080 } 0).1.tcp? "p" = some s'
    ∧ s'.mss = 3000 ∧ s'.chan = some 0 := by
  obtain ⟨_, _, s', h1, h2, _, _, h3, _⟩ :=
    C20_attach_sets_mss c20Pending 0 "p" { addr := "10.0.0.2", port := 8080 } 0 _ _ rfl rfl
  exact ⟨s', h1, by rw [h2]; decide, h3⟩

/-- a 250-byte buffer written on the connector (MSS 100) is cut into 100 + 100 + 50 -/
example : (c20Pending.tcpWritePrep "c" [c20Buf250]).toOption
    = some (["q"], [List.replicate 100 7, List.replicate 100 7, List.replicate 50 7]) := by
  decide +kernel

/-- with an MSS of 3: 8 bytes in two buffers; segments do not span buffers -/
example : (c20Mss3.tcpWritePrep "c" [[1, 2, 3, 4, 5], [6, 7, 8]]).toOption
    = some (["q"], [[1, 2, 3], [4, 5], [6, 7, 8]]) := by decide

/-- the segment leaves as one packet, sequence number 0, the 100 bytes unaltered -/
example : (s5_forwards (c20Pending.tcpSendSeg 0 "c" ["q"] (List.replicate 100 7)).2).map
      (fun p => (p.id, p.ty, p.len, p.hops, p.payload))
    = [(0, .payload, 100, ["q"], List.replicate 100 7)] := by
  decide +kernel

/-- a dropped segment comes back as one retransmission entry with its bytes … -/
example :
    ((c20Pending.tcpPacketDropped {} "c" { id := 4, len := 3, ovh := 40, payload := [1, 2, 3] }).tcp? "c").map
        (fun s => s.resend.map (fun p => (p.id, p.len, p.payload, p.hops)))
      = some [((4 : Nat), (3 : Nat), ([1, 2, 3] : List UInt8), ["q"])] := by
  decide +kernel

/-- … and retransmission s5_forwards exactly that entry -/
example :
    ((c20Pending.tcpPacketDropped {} "c" { id := 4, len := 3, ovh := 40, payload := [1, 2, 3] }).tcpResendOne 0 "c").map
        (fun r => (s5_forwards r.2).map (fun p => (p.id, p.len, p.payload, p.hops)))
      = some [((4 : Nat), (3 : Nat), ([1, 2, 3] : List UInt8), ["q"])] := by
  decide +kernel

/-- (a) don't-fragment set, 150 bytes over a 100-byte path: reported sent, nothing forwarded -/
example :
    ((c20Udp true).udpSendTo 0 "u" { addr := "10.0.0.2", port := 4000 } (List.replicate 150 1)).2.2 = (.ok, 150)
    ∧ ∀ p, NEff.forward p ∉ ((c20Udp true).udpSendTo 0 "u" { addr := "10.0.0.2", port := 4000 } (List.replicate 150 1)).2.1 := by
  have h := C20_udp_df (c20Udp true) 0 "u" { addr := "10.0.0.2", port := 4000 } (List.replicate 150 1) _ rfl
    (by decide) rfl (by decide +kernel) (by decide +kernel)
  exact ⟨by simpa using h.1, h.2.2⟩

/-- (c) option clear: the same 150 bytes are forwarded whole, in one packet -/
example :
    (s5_forwards ((c20Udp false).udpSendTo 0 "u" { addr := "10.0.0.2", port := 4000 } (List.replicate 150 1)).2.1).map
        (fun p => (p.len, p.payload, p.hops))
      = [(150, List.replicate 150 1, ["q"])] := by
  have h := (C20_udp_whole (c20Udp false) 0 "u" { addr := "10.0.0.2", port := 4000 } (List.replicate 150 1) _ rfl
    (by decide)).2.2 ["q"] (.inl rfl) (by decide +kernel) (by decide +kernel) (by decide) (by decide)
  rw [h.1]; simp

/-- why `C20_connect_sets_mss` asks for "no connect outstanding": a socket already connecting
    with handler 7 on a node without addresses fails the implicit bind and keeps handler 7 and
    its old MSS 1475, while the table says 100 -/
example :
    ((c20NoAddr.tcpConnect 0 "c" { addr := "10.0.0.2", port := 8080 } 7).1.tcp? "c").map
        (fun s => (s.connectH, s.mss,
          (c20NoAddr.tcpConnect 0 "c" { addr := "10.0.0.2", port := 8080 } 7).1.cfg.pathMtu s.bound.addr "10.0.0.2"))
      = some (some 7, 1475, 100) := by
  simp [NetSt.tcpConnect, c20NoAddr, NetSt.tcp?, Ep.isV4, ioResolve, NetCfg.ipsOf,
    NetCfg.pathMtu, List.lookup]

/-! ### 7. the whole connection (open system SimVerif/StreamSys.lean, all histories) -/

/-- **Along every history of a connection** — any writes, deliveries in any order, drops,
    retransmissions, reads, close — every segment ever created, every payload packet in flight,
    every packet waiting for retransmission and every packet in the reader's reorder buffer
    carries at most the writer's MSS as it was when the connection was made (`mss0`; by
    `C20_connect_sets_mss` / `C20_attach_sets_mss` the configured path MTU of the two
    endpoints), and none is empty; the writer's MSS itself never changes while the connection
    is open. -/
theorem C20_sys_segment_bound (c : TcpCfg) (n : NetSt) (h : TcpStart c n) (ls : List TLbl)
    (sa0 : TcpSock) (hsa0 : n.tcp? c.a = some sa0) (hm : 0 < sa0.mss) :
    let s := TS.run c (TS.init c n) ls
    (∀ x ∈ s.segs, x ≠ [] ∧ x.length ≤ sa0.mss)
    ∧ (∀ p ∈ s.bag, p.ty = .payload → p.payload ≠ [] ∧ p.payload.length ≤ sa0.mss)
    ∧ (∃ sa, s.net.tcp? c.a = some sa ∧ (s.closed = false → sa.mss = sa0.mss)
        ∧ ∀ p ∈ sa.resend, p.payload ≠ [] ∧ p.payload.length ≤ sa0.mss)
    ∧ (∃ sb, s.net.tcp? c.b = some sb
        ∧ ∀ e ∈ sb.reorder, e.2.ty = .payload → e.2.payload ≠ [] ∧ e.2.payload.length ≤ sa0.mss) := by
  intro s
  have hI := (TInv.reach h ls).core
  have hm0 : s.mss0 = sa0.mss := by
    show (TS.run c (TS.init c n) ls).mss0 = _
    rw [TS.run_mss0]; simp [TS.init, hsa0]
  rw [hm0] at hI
  have hb := hI.segsB hm
  have hget : ∀ (k : Nat) (pl : List UInt8), s.segs[k]? = some pl → pl ≠ [] ∧ pl.length ≤ sa0.mss :=
    fun k pl hk => hb pl (List.mem_of_getElem? hk)
  refine ⟨hb, ?_, ?_, ?_⟩
  · intro p hp hty
    rcases hI.bag p hp with (⟨_, h2⟩ | ⟨h1, _⟩) | ⟨h1, _⟩
    · exact hget _ _ h2
    · rw [h1] at hty; cases hty
    · rw [h1] at hty; cases hty
  · obtain ⟨sa, hsa, hao⟩ := hI.exA
    exact ⟨sa, hsa, fun hc => (hao.live hc).2, fun p hp => hget _ _ (hao.resend p hp).2⟩
  · obtain ⟨sb, hsb, hq⟩ := hI.exB
    refine ⟨sb, hsb, ?_⟩
    intro e he hty
    rcases (hq.ro e he).2 with ⟨_, h2⟩ | ⟨h1, _⟩
    · exact hget _ _ h2
    · rw [h1] at hty; cases hty

/-- **Segments are never merged, split or altered anywhere on the way**: along every history,
    a payload packet with sequence number `k` — in flight, dropped and waiting for
    retransmission, retransmitted, or parked in the reorder buffer — carries exactly the bytes
    `segs[k]` that `write_some_impl` cut for that number, and what the reader gets is their
    concatenation in order (`C05_prefix`). -/
theorem C20_sys_unaltered (c : TcpCfg) (n : NetSt) (h : TcpStart c n) (ls : List TLbl) :
    let s := TS.run c (TS.init c n) ls
    (∀ p ∈ s.bag, p.ty = .payload → s.segs[p.id]? = some p.payload)
    ∧ (∃ sa, s.net.tcp? c.a = some sa ∧ ∀ p ∈ sa.resend, p.ty = .payload ∧ s.segs[p.id]? = some p.payload)
    ∧ (∃ sb, s.net.tcp? c.b = some sb
        ∧ ∀ e ∈ sb.reorder, e.2.ty = .payload → s.segs[e.1]? = some e.2.payload) := by
  intro s
  have hI := (TInv.reach h ls).core
  refine ⟨?_, ?_, ?_⟩
  · intro p hp hty
    rcases hI.bag p hp with (⟨_, h2⟩ | ⟨h1, _⟩) | ⟨h1, _⟩
    · exact h2
    · rw [h1] at hty; cases hty
    · rw [h1] at hty; cases hty
  · obtain ⟨sa, hsa, hao⟩ := hI.exA
    exact ⟨sa, hsa, hao.resend⟩
  · obtain ⟨sb, hsb, hq⟩ := hI.exB
    refine ⟨sb, hsb, ?_⟩
    intro e he hty
    obtain ⟨hk, hd⟩ := hq.ro e he
    rcases hd with ⟨_, h2⟩ | ⟨h1, _⟩
    · rw [hk]; exact h2
    · rw [h1] at hty; cases hty

/-- non-vacuity: the history of SimVerif/TcpEx.lean (MSS 3: segments [1,2,3] and [4]) -/
example := C20_sys_segment_bound TcpEx.c TcpEx.n0 (established_start _ _ _ _ _ _ (by decide)).1 TcpEx.hist
  _ rfl (by decide)

end SimVerif
