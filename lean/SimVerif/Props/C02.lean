/-
  C02 — Virtual clock is monotonic and jumps only to the next timer expiry.

  Property theorems only (helper lemmas live in SimVerif/Lemmas). All statements quantify
  over *every* label sequence, i.e. every program (API calls from top level and from
  inside handlers) under every schedule of `exec`/`advance` the loop can produce.
  `repaired` = the parameters describing the current tree (after the `fix:` commits);
  `asIs` = the pinned tree bb9bed4.
-/
import SimVerif.Lemmas.KernelInv

namespace SimVerif

def repaired : KParams := { advanceGuard := true, waitRequeue := true }
def asIs : KParams := { advanceGuard := false, waitRequeue := false }

/-- The clock of a fresh simulation reads zero (`reset_clock()` in the constructor). -/
theorem C02_starts_at_zero : ({} : K).now = 0 := rfl

theorem step_now_ge (k : K) (l : Lbl) : k.now ≤ (step repaired k l).now := by
  cases l with
  | expiresAt i e => simp [step, expiresAt, arm, cancel_now]
  | expiresAfter i d => simp [step, expiresAfter, expiresAt, arm, cancel_now]
  | wait i h =>
    simp only [step, asyncWait]
    split
    · split
      · simp [setHandler, arm]
      · rw [fire_now]; simp [setHandler]
    · simp [setHandler]
  | cancel i => simp [step, cancel_now]
  | post h => simp [step, postTask]
  | stop => simp [step]
  | restart => simp [step]
  | exec => simp only [step, exec]; split <;> simp
  | advance =>
    simp only [step]; split
    · exact advance_now_ge repaired rfl k
    · exact Int.le_refl _

/-- **The clock never moves backwards**, along any execution whatsoever. -/
theorem C02_monotone (ls : List Lbl) (k : K) : k.now ≤ (runLbls repaired k ls).now := by
  induction ls generalizing k with
  | nil => exact Int.le_refl _
  | cons l rest ih => exact Int.le_trans (step_now_ge k l) (ih _)

/-- **The clock changes only in the loop's clock step, only when no handler is ready, and
    then jumps exactly to the earliest pending expiry, which is strictly in the future.** -/
theorem C02_jump_only_when_idle (k : K) (l : Lbl) (hk : KInv k)
    (hch : (step repaired k l).now ≠ k.now) :
    l matches .advance ∧ k.ready = [] ∧
    ∃ e i rest, k.tq = (e, i) :: rest ∧ k.now < e ∧ (step repaired k l).now = e
      ∧ ∀ e' i', (e', i') ∈ k.tq → e ≤ e' := by
  cases l with
  | expiresAt i e => simp [step, expiresAt, arm, cancel_now] at hch
  | expiresAfter i d => simp [step, expiresAfter, expiresAt, arm, cancel_now] at hch
  | wait i h =>
    exfalso; apply hch
    simp only [step, asyncWait]
    split
    · split
      · simp [setHandler, arm]
      · rw [fire_now]; simp [setHandler]
    · simp [setHandler]
  | cancel i => simp [step, cancel_now] at hch
  | post h => simp [step, postTask] at hch
  | stop => simp [step] at hch
  | restart => simp [step] at hch
  | exec => exfalso; apply hch; simp only [step, exec]; split <;> simp
  | advance =>
    simp only [step] at hch ⊢
    split at hch
    · rename_i hr
      refine ⟨by simp, hr, ?_⟩
      simp only [hr, if_true]
      unfold advance at hch ⊢
      split at hch
      · exact absurd rfl hch
      · rename_i e i rest htq
        simp only [htq]
        refine ⟨e, i, rest, rfl, ?_⟩
        simp only [repaired, if_true] at hch ⊢
        rw [fireDue_now] at hch ⊢
        dsimp only at hch ⊢
        split at hch
        · rename_i hlt
          refine ⟨hlt, by simp [hlt], ?_⟩
          intro e' i' hm
          have hs := hk.sorted; rw [htq] at hs
          rw [List.mem_cons] at hm
          rcases hm with hm | hm
          · simp only [Prod.mk.injEq] at hm; omega
          · have := (List.pairwise_cons.mp hs).1 _ hm; simpa using this
        · exact absurd rfl hch
    · exact absurd rfl hch

/-- **Staying put when the earliest expiry is not in the future.** -/
theorem C02_stays_when_due (k : K) (e : Int) (i : Nat) (rest : List (Int × Nat))
    (htq : k.tq = (e, i) :: rest) (hdue : e ≤ k.now) : (advance repaired k).1.now = k.now := by
  unfold advance; simp only [htq, repaired, if_true]; rw [fireDue_now]
  dsimp only; split <;> omega

/-- Everything ever enqueued, in enqueue order: what already ran followed by what is ready. -/
def K.enqueued (k : K) : List Task := k.ran.map Prod.fst ++ k.ready

theorem fireDue_ready_suffix (l : List (Int × Nat)) (k : K) :
    ∃ s, (fireDue l k).1.ready = k.ready ++ s ∧ (fireDue l k).1.ran = k.ran := by
  induction l generalizing k with
  | nil => exact ⟨[], by simp [fireDue]⟩
  | cons a rest ih =>
    obtain ⟨e, i⟩ := a
    unfold fireDue
    split
    · simp only
      obtain ⟨s, hs, hr⟩ := ih (fire { k with tq := rest } i .ok)
      rw [hs, hr, fire_ready, fire_ran]
      dsimp only
      split
      · exact ⟨s, rfl, rfl⟩
      · exact ⟨_, List.append_assoc _ _ _, rfl⟩
    · exact ⟨[], by simp⟩

/-- **FIFO.** Every transition only appends to the sequence "ran ++ ready": handlers are
    executed in exactly the order in which they were posted (and `exec` always takes the
    oldest one). -/
theorem C02_fifo_step (p : KParams) (k : K) (l : Lbl) :
    ∃ s, (step p k l).enqueued = k.enqueued ++ s := by
  unfold K.enqueued
  cases l with
  | expiresAt i e =>
    simp only [step, expiresAt, arm, cancel_ran, cancel_ready]
    split
    · exact ⟨[], by simp⟩
    · split
      · exact ⟨[], by simp⟩
      · exact ⟨_, by rw [List.append_assoc]⟩
  | expiresAfter i d =>
    simp only [step, expiresAfter, expiresAt, arm, cancel_ran, cancel_ready]
    split
    · exact ⟨[], by simp⟩
    · split
      · exact ⟨[], by simp⟩
      · exact ⟨_, by rw [List.append_assoc]⟩
  | wait i h =>
    simp only [step, asyncWait]
    split
    · split
      · exact ⟨[], by simp [setHandler, arm]⟩
      · rw [fire_ready, fire_ran]
        simp only [setHandler, setF_same]
        exact ⟨_, by rw [List.append_assoc]⟩
    · exact ⟨[], by simp [setHandler]⟩
  | cancel i =>
    simp only [step, cancel_ran, cancel_ready]
    split
    · exact ⟨[], by simp⟩
    · split
      · exact ⟨[], by simp⟩
      · exact ⟨_, by rw [List.append_assoc]⟩
  | post h => exact ⟨_, by simp only [step, postTask]; rw [List.append_assoc]⟩
  | stop => exact ⟨[], by simp [step]⟩
  | restart => exact ⟨[], by simp [step]⟩
  | exec =>
    simp only [step, exec]
    split
    · exact ⟨[], by simp⟩
    · rename_i t rest hr; exact ⟨[], by simp [hr]⟩
  | advance =>
    simp only [step]
    split
    · unfold advance
      split
      · exact ⟨[], by simp⟩
      · obtain ⟨s, hs, hr⟩ := fireDue_ready_suffix k.tq
          { k with now := (if p.advanceGuard then (if k.now < _ then _ else k.now) else _) }
        exact ⟨s, by rw [hs, hr]; simp⟩
    · exact ⟨[], by simp⟩

theorem C02_fifo (p : KParams) (ls : List Lbl) (k : K) :
    ∃ s, (runLbls p k ls).enqueued = k.enqueued ++ s := by
  induction ls generalizing k with
  | nil => exact ⟨[], by simp [runLbls]⟩
  | cons l rest ih =>
    obtain ⟨s1, h1⟩ := C02_fifo_step p k l
    obtain ⟨s2, h2⟩ := ih (step p k l)
    exact ⟨s1 ++ s2, by simp only [runLbls, List.foldl_cons] at h2 ⊢; rw [h2, h1, List.append_assoc]⟩

/-- **A posted handler runs at the virtual time at which it was posted**, and a timer
    completion runs at the virtual time at which the timer fired. -/
theorem C02_runs_when_posted (ls : List Lbl) (t : Task) (c : Int)
    (h : (t, c) ∈ (runLbls repaired {} ls).ran) (hp : t.tm = false) : c = t.st :=
  (KInv_run repaired rfl rfl ls {} KInv_init).ranP t c h hp

/-! #### `run()` as a loop -/

theorem pollFuel_ready (p : KParams) (react : React) (fuel : Nat) (k : K) (n : Nat) (k' : K) (n' : Nat)
    (h : pollFuel p react fuel k n = some (k', n')) : k'.ready = [] := by
  induction fuel generalizing k n with
  | zero => simp [pollFuel] at h
  | succ f ih =>
    unfold pollFuel at h
    split at h
    · rename_i hr; simp at h; rw [← h.1]; exact hr
    · exact ih _ _ h

/-- `poll()` executed nothing iff nothing was ready. -/
theorem pollFuel_zero (p : KParams) (react : React) (fuel : Nat) (k : K) (k' : K)
    (h : pollFuel p react fuel k 0 = some (k', 0)) : k' = k := by
  cases fuel with
  | zero => simp [pollFuel] at h
  | succ f =>
    unfold pollFuel at h
    split at h
    · simp at h; exact h.symm
    · exfalso
      have : ∀ (f : Nat) (k : K) (n : Nat) (k' : K) (n' : Nat),
          pollFuel p react f k n = some (k', n') → n ≤ n' := by
        intro f; induction f with
        | zero => intro k n k' n' h; simp [pollFuel] at h
        | succ f ih =>
          intro k n k' n' h
          unfold pollFuel at h
          split at h
          · simp at h; omega
          · have := ih _ _ _ _ h; omega
      have := this _ _ _ _ _ h; omega

theorem fireDue_count_pos (e : Int) (i : Nat) (rest : List (Int × Nat)) (k : K) (h : e ≤ k.now) :
    0 < (fireDue ((e, i) :: rest) k).2 := by
  unfold fireDue; simp [h]

theorem advance_zero_imp (k : K) (h : (advance repaired k).2 = 0) :
    k.tq = [] ∧ (advance repaired k).1 = k := by
  cases htq : k.tq with
  | nil => simp [advance, htq]
  | cons a rest =>
    obtain ⟨e, i⟩ := a
    exfalso
    have : 0 < (advance repaired k).2 := by
      unfold advance
      rw [htq]
      simp only [repaired, if_true]
      apply fireDue_count_pos
      dsimp only; split <;> omega
    omega

/-- **`run()` returns exactly when the simulation is quiescent or was stopped.** -/
theorem C02_run_returns (react : React) (fuel : Nat) (k : K) (ret : Nat) (k' : K) (r : Nat)
    (h : runFuel repaired react fuel k ret = some (k', r)) :
    k'.stopped = true ∨ k'.quiescent := by
  induction fuel generalizing k ret with
  | zero => simp [runFuel] at h
  | succ f ih =>
    unfold runFuel at h
    split at h
    · simp at h
    · rename_i k1 last hround
      split at h
      · exact ih _ _ h
      · rename_i hc
        simp at h
        obtain ⟨h1, _⟩ := h
        subst h1
        simp only [Bool.and_eq_true, decide_eq_true_eq, Bool.not_eq_true', not_and,
          Bool.not_eq_false] at hc
        by_cases hl : last > 0
        · exact Or.inl (hc hl)
        · right
          have hl0 : last = 0 := by omega
          subst hl0
          unfold roundFuel at hround
          split at hround
          · simp at hround
          · rename_i kp n hpoll
            simp at hround
            obtain ⟨hk2, hn⟩ := hround
            have hn0 : n = 0 := by omega
            have hm0 : (advance repaired kp).2 = 0 := by omega
            have hrdy := pollFuel_ready _ _ _ _ _ _ _ hpoll
            obtain ⟨htq, heq⟩ := advance_zero_imp kp hm0
            rw [← hk2, heq]
            exact ⟨hrdy, htq⟩

/-- **A second `run()` after a quiescent return executes nothing and leaves the state
    (clock included) unchanged.** -/
theorem C02_second_run_noop (p : KParams) (react : React) (fuel : Nat) (k : K) (hq : k.quiescent) :
    runFuel p react (fuel + 1) k 0 = some (k, 0) := by
  obtain ⟨hr, htq⟩ := hq
  simp [runFuel, roundFuel, pollFuel, hr, advance, htq]

/-- **stop()/restart() only toggle a flag that no transition reads**: the same label
    sequence with every `stop`/`restart` removed reaches the same state (flag aside), so no
    event is lost, duplicated or reordered by stopping and restarting. (The loop of `run()`
    reads the flag only between rounds, to decide whether to return.) -/
theorem C02_stop_restart_transparent (p : KParams) (ls : List Lbl) (k : K) :
    (runLbls p k ls).withStop false =
      (runLbls p k (ls.filter (fun l => !(l matches .stop | .restart)))).withStop false := by
  induction ls generalizing k with
  | nil => rfl
  | cons l rest ih =>
    by_cases hl : (l matches .stop | .restart) = true
    · have hf : (List.filter (fun l => !(l matches .stop | .restart)) (l :: rest))
          = List.filter (fun l => !(l matches .stop | .restart)) rest := by
        simp [List.filter, hl]
      rw [hf, ← ih k]
      obtain ⟨b, hb⟩ : ∃ b, step p k l = k.withStop b := by
        cases l <;> simp at hl
        · exact ⟨true, rfl⟩
        · exact ⟨false, rfl⟩
      simp only [runLbls, List.foldl_cons]
      rw [hb]
      exact run_withStop_irrel p rest k b
    · have hf : (List.filter (fun l => !(l matches .stop | .restart)) (l :: rest))
          = l :: List.filter (fun l => !(l matches .stop | .restart)) rest := by
        simp [List.filter, hl]
      rw [hf]
      simp only [runLbls, List.foldl_cons] at ih ⊢
      exact ih _

/-! #### The pinned tree violated the property (kept as a regression witness)

`t0.expires_at(100); t1.expires_at(40)` armed from inside t0's handler at clock 100:
the unconditional `fast_forward(expiry - now)` moves the clock from 100 back to 40. -/
def c02Witness : List Lbl :=
  [.expiresAt 0 100, .wait 0 0, .advance, .exec, .expiresAt 1 40, .wait 1 1, .advance]

theorem C02_asis_backwards :
    (runLbls asIs {} (c02Witness.take 4)).now = 100 ∧ (runLbls asIs {} c02Witness).now = 40 := by
  decide

/-- The same history on the repaired mechanism keeps the clock at 100. -/
theorem C02_witness_repaired : (runLbls repaired {} c02Witness).now = 100 := by decide

/-- Non-vacuity: a reachable state satisfying the invariant with three timers queued, a
    handler ready and a stop requested. -/
def c02Example : List Lbl :=
  [.expiresAt 0 30, .wait 0 0, .expiresAt 1 10, .wait 1 1, .expiresAfter 2 10, .post 7, .stop]

example : KInv (runLbls repaired {} c02Example)
    ∧ (runLbls repaired {} c02Example).tq.length = 3
    ∧ (runLbls repaired {} c02Example).ready.length = 1
    ∧ (runLbls repaired {} c02Example).stopped = true :=
  ⟨KInv_run repaired rfl rfl _ _ KInv_init, by decide, by decide, by decide⟩

end SimVerif
