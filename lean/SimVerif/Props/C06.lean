/-
  C06 — TCP makes progress: written bytes arrive and pending reads complete.

  FULL STATEMENT (properties.jsonl): on an established connection whose two sockets stay open,
  every byte accepted by a write is eventually delivered to a reader that keeps reading, and
  the simulation never goes quiescent while (a) a read is pending although deliverable data
  is queued, (b) a writer is blocked although nothing is in flight, or (c) dropped segments
  wait unsent; with unbounded queues for any traffic, with finite tail-drop queues (each able
  to hold one full segment) when payload flows one direction at a time; connects to a
  listening acceptor with an accept outstanding complete.

  WHAT IS PROVED HERE (DESIGN.md §5 C06: liveness is NOT proved; proved are the
  quiescence-safety invariants of the mechanism model SimVerif/Tcp.lean, all repairs in place,
  `({} : TParams)`), over EVERY history of two open systems (SimVerif/TcpSys.lean):

    sender `TxS`   — labels write / deliver / ack / dropped / synack; the environment decides
                    which segment reaches the peer, which ACK comes back and when (or never),
                    and which segment a queue hands back, at label boundaries and
                    synchronously inside the segmentation and retransmission loops;
    receiver `RxS` — labels arrive (payload or error packet, ANY sequence number, any order,
                    duplicates allowed) / read / waitRead / readNb.

  None of the theorems about `TxS`/`RxS` needs the side conditions of the property text (queue
  capacities, one direction at a time, no foreign traffic, drops only by queues): they are
  invariants of the socket mechanism against an arbitrary network. The only side conditions
  are `RxS.okRun` (payload segments are non-empty — what `cutBuf` produces, lemma
  `Prog.cutBuf_nonempty` — and error packets do not carry the code `would_block`).

  Ghost state of `TxS`: `bag` = segments of the socket in the network (every packet it
  forwarded — first transmission or retransmission — that was neither delivered nor handed
  back), `acks` = sequence numbers delivered whose ACK has not arrived, `lost` = segments that
  vanished without notification (a hand-back of a packet that carries no drop callback).

  As-is witnesses (`C06_asis_*`): concrete runs of the same systems with ONE repair switched
  off, reproducing the stalls of the pinned tree (F8 reader, F8a writer, F9 in-flight leak,
  F10 lost callback).

  THE COMPOSED CONNECTION (last section; open system SimVerif/StreamSys.lean: writer + reader +
  the network as a bag of in-flight packets, histories restricted by the drop side condition
  `TS.okRun` of SimVerif/StreamQuiesce.lean — the abstraction of "tail-drop queues able to hold
  one full segment, payload one direction at a time"; histories without drops = unbounded
  queues satisfy it trivially): `C06_no_orphan_resend`, `C06_writer_not_blocked_at_quiescence`,
  `C06_reader_not_stranded_at_quiescence`, `C06_quiescent_all_delivered`, with witnesses that
  the side condition and each repair are necessary.

  THE COMPOSED CONNECTION OVER TAIL-DROP QUEUES (very last section; refined open system
  SimVerif/StreamNet.lean: the bag of the forward direction replaced by a chain of tail-drop
  queues): `C06_queues_refine_bag` derives `TS.okRun` from the configuration, and
  `C06_queues_no_orphan_resend`, `C06_queues_writer_not_blocked_at_quiescence`,
  `C06_queues_reader_not_stranded_at_quiescence`, `C06_queues_quiescent_all_delivered` hold with
  no assumption about the network; `C06_queues_capacity_necessary`, `C06_queues_rearm_necessary`.

  WHAT REMAINS UNPROVED for the full statement: see the comment before that last section.
-/
import SimVerif.Lemmas.TcpProgress
import SimVerif.Props.C10
import SimVerif.Lemmas.StreamQuiesce
import SimVerif.Lemmas.StreamNet
import SimVerif.TcpEx

namespace SimVerif
open Prog

/-! ### the initial state is what the handshake functions produce -/

/-- `a0.open; a0.bind :8000; a0.listen; a0.accept s1 h0; s0.connect 10.0.0.2:8000 h1`, then
    the SYN reaches the acceptor -/
def Prog.handshake (mss : Nat) : NetSt × List NEff :=
  let n : NetSt := { cfg := cfg0 mss, tcps := [("a0", { node := "n1", acc := some {} }), (sockB, { node := "n1" }),
                                               (sockA, { node := "n0" })] }
  let n := (n.tcpOpen 0 "a0" true).1
  let n := (n.tcpBind "a0" { addr := "0.0.0.0", port := 8000 }).1
  let n := (n.accListen "a0" (-1)).1
  let (n, e1) := n.accAsyncAccept 0 "a0" (.into 0 sockB false)
  let (n, e2) := n.tcpConnect 0 sockA epB 1
  let syn := (forwards e2).headD (ackPkt 0)
  let (n, e3) := n.accIncoming 0 "a0" { syn with hops := [] }
  (n, e1 ++ e2 ++ e3)

/-- the explicit initial state `net0` IS the state after the handshake functions ran … -/
example : (handshake 1475).1 = net0 1475 := by rfl
example : (handshake 10).1 = net0 10 := by rfl
/-- … which forwarded the SYN along `hops1`, the SYN-ACK along `hops0`, and completed the accept -/
example : (forwards (handshake 1475).2).map (fun p => (p.ty, p.hops, p.chan))
    = [(.syn, chan0.hops1.dropLast ++ ["@0"], some 0), (.synack, chan0.hops0, some 0)] := by decide
example : (handshake 1475).2.any (fun e => match e with | .post c => c.h == 0 && c.ec == .ok | _ => false) = true := by
  decide

/-! ### sender: the window never closes below one segment -/

/-- **Window floor.** `mss ≤ cwnd` at every label boundary (initially `cwnd = 2·mss`; a
    hand-back halves it but not below `mss`; ACKs only add), so a single segment always fits
    an empty window. (Stronger than `0 < mss → mss ≤ cwnd`.) Needs no side condition. -/
theorem C06_window_floor (mss : Nat) (ls : List TxLbl) :
    ∃ t, (TxS.run {} (TxS.init mss) ls).sock = some t ∧ t.mss = mss ∧ t.mss ≤ t.cwnd := by
  obtain ⟨t, hsv, _, hm⟩ := (SInv.init mss).run {} rfl rfl rfl ls
  exact ⟨t, hsv.est.sock, hm, hsv.core.floor⟩

/-! ### sender: the in-flight account -/

/-- **In-flight account.** At every label boundary:
    * `m_bytes_in_flight` is the sum of the recorded segment sizes, in particular ≥ 0;
    * the keys of `m_outstanding_packet_sizes` are distinct and are EXACTLY the sequence numbers
      of the segments in the network (`bag`) or delivered with the ACK still to come (`acks`),
      i.e. sent (or retransmitted) and neither ACKed nor handed back; every segment in the
      network is recorded with its own size;
    * a sequence number is in at most one place: network, ACK pending, or retransmission list;
    * no segment ever vanished unreported (`lost = []`).
    This is the invariant the pinned tree broke (`C06_asis_inflight_leaks`). -/
theorem C06_in_flight_account (mss : Nat) (ls : List TxLbl) :
    let s := TxS.run {} (TxS.init mss) ls
    ∃ t, s.sock = some t
      ∧ t.inFlight = sumSizes t.outstanding ∧ 0 ≤ t.inFlight
      ∧ (keys t.outstanding).Nodup
      ∧ (∀ k, k ∈ keys t.outstanding ↔ (k ∈ ids s.bag ∨ k ∈ s.acks))
      ∧ (∀ p, p ∈ s.bag → (p.id, p.payload.length) ∈ t.outstanding)
      ∧ (ids s.bag).Nodup ∧ s.acks.Nodup ∧ (ids t.resend).Nodup
      ∧ (∀ k, k ∈ ids s.bag → k ∉ s.acks)
      ∧ (∀ k, k ∈ ids t.resend → k ∉ ids s.bag ∧ k ∉ s.acks)
      ∧ s.lost = [] := by
  obtain ⟨t, hsv, _, _⟩ := (SInv.init mss).run {} rfl rfl rfl ls
  have c := hsv.core
  exact ⟨t, hsv.est.sock, c.acct, by rw [c.acct]; exact sumSizes_nonneg _, c.keysND, c.live, c.sized, c.bagND,
    c.acksND, c.resendND, c.disjBA, c.disjR, hsv.lost⟩

/-- nothing outstanding ⇒ nothing counted as in flight (corollary of the account) -/
theorem C06_idle_means_zero_in_flight (mss : Nat) (ls : List TxLbl) :
    let s := TxS.run {} (TxS.init mss) ls
    s.bag = [] → s.acks = [] → ∃ t, s.sock = some t ∧ t.outstanding = [] ∧ t.inFlight = 0 := by
  intro s hb ha
  obtain ⟨t, h1, h2, _, _, h5, _⟩ := C06_in_flight_account mss ls
  have ho : t.outstanding = [] := by
    cases hx : t.outstanding with
    | nil => rfl
    | cons e es =>
      have := (h5 e.1).mp (by rw [hx]; simp [keys])
      rw [show (TxS.run {} (TxS.init mss) ls).bag = [] from hb, show (TxS.run {} (TxS.init mss) ls).acks = [] from ha] at this
      simp [ids] at this
  exact ⟨t, h1, ho, by rw [h2, ho]; rfl⟩

def Prog.wr (h len off : Nat) : WriteOp := { h := h, bufs := [List.replicate len 0], stream := 3, off := off }

/-- what the witnesses look at: (write parked, bytes in flight, size table, retransmission
    list length), ids in the network, ACKs pending, ids lost -/
def Prog.sview (s : TxS) : (Bool × Int × List (Nat × Nat) × Nat) × List Nat × List Nat × List Nat :=
  (match s.sock with
   | some t => (t.sendH.isSome, t.inFlight, t.outstanding, t.resend.length)
   | none => (false, -1, [], 0),
   ids s.bag, s.acks, ids s.lost)

/-- two short segments, the first handed back once, retransmitted, everything ACKed -/
def Prog.histLeak : List TxLbl :=
  [.synack 0 [], .write 0 (wr 2 100 0) [], .write 0 (wr 3 100 100) [], .dropped 0,
   .deliver 1, .ack 0 1 [] [], .deliver 0, .ack 0 0 [] []]

/-- **As-is (F9, `releaseOnDrop := false`).** After one hand-back and ALL ACKs the network is
    empty, the size table is empty, nothing waits for retransmission — and 100 bytes are still
    counted as in flight, forever (every later window test is off by them). -/
theorem C06_asis_inflight_leaks :
    sview (TxS.run { releaseOnDrop := false } (TxS.init 1475) histLeak) = ((false, 100, [], 0), [], [], []) := by
  decide +kernel

/-- the same history with the repair: the account returns to zero -/
example : sview (TxS.run {} (TxS.init 1475) histLeak) = ((false, 0, [], 0), [], [], []) := by
  decide +kernel

/-! ### sender: a parked writer -/

/-- **Writer not stranded.** At every label boundary a parked write (`m_send_handler` set)
    means: the handshake is not finished, or the window is full, or segments wait for
    retransmission. Hence (with the floor and the account): a parked write on an established
    socket with an empty retransmission list has bytes in flight, and some segment of the
    connection is in the network or its ACK is still to come — the event that will run the
    ACK path (`C06_ack_wakes_writer`) or the hand-back path. No side condition. -/
theorem C06_writer_not_stranded (mss : Nat) (ls : List TxLbl) :
    let s := TxS.run {} (TxS.init mss) ls
    ∃ t, s.sock = some t
      ∧ (t.sendH.isSome = true →
            t.connectH.isSome = true ∨ t.inFlight + t.mss > t.cwnd ∨ t.resend ≠ [])
      ∧ (t.sendH.isSome = true → t.connectH = none → t.resend = [] →
            0 < t.inFlight ∧ ∃ k, k ∈ ids s.bag ∨ k ∈ s.acks) := by
  obtain ⟨t, hsv, hw, _⟩ := (SInv.init mss).run {} rfl rfl rfl ls
  refine ⟨t, hsv.est.sock, hw, ?_⟩
  intro h1 h2 h3
  have hfl := hsv.core.floor
  have hpos : 0 < t.inFlight := by
    rcases hw h1 with h | h | h
    · simp [h2] at h
    · omega
    · exact absurd h3 h
  refine ⟨hpos, ?_⟩
  cases hx : t.outstanding with
  | nil => have := hsv.core.acct; rw [hx] at this; simp [sumSizes] at this; omega
  | cons e es => exact ⟨e.1, (hsv.core.live e.1).mp (by rw [hx]; simp [keys])⟩

/-- **The ACK path wakes the writer** (the step that matters, `tcpAckPost` with
    `wakeWriterFixed`): after an ACK has been processed — retransmission loop, window growth,
    `maybe_wakeup_writer` — whatever the environment handed back meanwhile, a write is parked
    only if `write_some_impl` refused it again: window full (or handshake pending). If the
    window has room, the parked write HAS been re-run. -/
theorem C06_ack_wakes_writer (mss : Nat) (ls : List TxLbl) (now : Int) (k : Nat) (ds dw : List (List Nat))
    (hk : k ∈ (TxS.run {} (TxS.init mss) ls).acks) :
    ∃ t, (TxS.run {} (TxS.init mss) (ls ++ [.ack now k ds dw])).sock = some t
      ∧ (t.sendH.isSome = true → t.connectH.isSome = true ∨ t.inFlight + t.mss > t.cwnd) := by
  obtain ⟨t, hsv, _, _⟩ := (SInv.init mss).run {} rfl rfl rfl ls
  obtain ⟨t', a, b, _⟩ := step_ack {} rfl rfl rfl now k ds dw hsv hk
  refine ⟨t', ?_, b⟩
  simp only [TxS.run, List.foldl_append, List.foldl_cons, List.foldl_nil]
  exact a.est.sock

/-- … and so does a write call and the SYN-ACK: after every label except a hand-back the
    `resend ≠ []` disjunct is not needed. -/
theorem C06_write_parks_only_on_full_window (mss : Nat) (ls : List TxLbl) (now : Int) (op : WriteOp)
    (ds : List (List Nat)) :
    ∃ t, (TxS.run {} (TxS.init mss) (ls ++ [.write now op ds])).sock = some t
      ∧ (t.sendH.isSome = true → t.connectH.isSome = true ∨ t.inFlight + t.mss > t.cwnd) := by
  obtain ⟨t, hsv, _, _⟩ := (SInv.init mss).run {} rfl rfl rfl ls
  obtain ⟨t', a, b, _⟩ := step_write {} rfl rfl now op ds hsv
  refine ⟨t', ?_, b⟩
  simp only [TxS.run, List.foldl_append, List.foldl_cons, List.foldl_nil]
  exact a.est.sock

/-- shape of corpus/_defects/f8a_writer_not_woken.scn: the window is shrunk to one segment by
    a hand-back, then only short segments are ACKed while a write is parked -/
def Prog.histWriter : List TxLbl :=
  [.synack 0 [], .write 0 (wr 2 1475 0) [], .dropped 0, .write 0 (wr 3 100 1475) [], .write 0 (wr 4 100 1575) [],
   .deliver 1, .ack 0 1 [] [], .deliver 0, .ack 0 0 [] []]

/-- **As-is (F8a, `wakeWriterFixed := false`).** The write `h4` is parked (100 + 1475 > 1475);
    every ACK arrives while the window is still full BEFORE it, so `!was_blocked && writeable`
    is never true: at the end the write is parked, nothing is in flight, nothing waits for
    retransmission, the network is empty — no event is left that could run it. -/
theorem C06_asis_writer_missed :
    sview (TxS.run { wakeWriterFixed := false } (TxS.init 1475) histWriter) = ((true, 0, [], 0), [], [], []) := by
  decide +kernel

/-- the same history with the repair: the last ACK re-runs the write, its segment is out -/
example : sview (TxS.run {} (TxS.init 1475) histWriter) = ((false, 100, [(2, 100)], 0), [2], [], []) := by
  decide +kernel
example : ((TxS.run {} (TxS.init 1475) histWriter).posts.map (fun c => (c.h, c.ec)))
    = [(1, .ok), (2, .ok), (3, .ok), (4, .ok)] := by decide +kernel

/-- non-vacuity: in that history a write IS parked at a label boundary (window full), and the
    hypothesis of `C06_ack_wakes_writer` holds (ACK 1 pending) -/
example : sview (TxS.run {} (TxS.init 1475) (histWriter.take 6))
    = ((true, 100, [(1, 100)], 1), [], [1], []) := by decide +kernel
example := C06_ack_wakes_writer 1475 (histWriter.take 6) 0 1 [] [] (by decide +kernel)

/-! ### sender: retransmission -/

/-- **The retransmission loop stops only at a segment that does not fit** (no synchronous
    hand-backs, at least as many iterations as the list is long — what `.tcpResend` grants):
    from any reachable state, after the loop, the head of the list (if any) exceeds the
    window. -/
theorem C06_resend_loop_exit (mss : Nat) (ls : List TxLbl) (now : Int) (n : Nat) :
    let s := TxS.run {} (TxS.init mss) ls
    (∀ t, s.sock = some t → t.resend.length ≤ n) →
    ∃ t', (TxS.resendLoop {} now n [] s).sock = some t'
      ∧ ∀ p rest, t'.resend = p :: rest → t'.inFlight + p.payload.length > t'.cwnd := by
  intro s hn
  obtain ⟨t, hsv, _, _⟩ := (SInv.init mss).run {} rfl rfl rfl ls
  obtain ⟨t', a, _, c⟩ := resendLoop_sv {} rfl rfl now n [] hsv
  exact ⟨t', a.est.sock, c rfl (hn t hsv.est.sock)⟩

/-- **Resend drains.** After an ACK has been processed without synchronous hand-backs
    (`ds = dw = []`), segments still wait for retransmission only if bytes are in flight
    (the head did not fit: `inFlight + size > cwnd`, and `size ≤ mss ≤ cwnd`), i.e. another ACK
    or hand-back is still to come. The exact exit condition is `C06_resend_loop_exit`; with
    synchronous hand-backs during the loop the statement is false (the loop is bounded by the
    list length at entry, a segment handed back during the loop stays for the next ACK) —
    that residue is `C06_no_orphan_resend` (end of file). -/
theorem C06_resend_drains (mss : Nat) (hm : 0 < mss) (ls : List TxLbl) (now : Int) (k : Nat)
    (hk : k ∈ (TxS.run {} (TxS.init mss) ls).acks) :
    ∃ t, (TxS.run {} (TxS.init mss) (ls ++ [.ack now k [] []])).sock = some t
      ∧ (t.resend ≠ [] → 0 < t.inFlight) := by
  obtain ⟨t, hsv, _, hmss⟩ := (SInv.init mss).run {} rfl rfl rfl ls
  obtain ⟨t', a, _, _, _, e⟩ := step_ack {} rfl rfl rfl now k [] [] hsv hk
  refine ⟨t', ?_, e rfl rfl (by rw [hmss]; exact hm)⟩
  simp only [TxS.run, List.foldl_append, List.foldl_cons, List.foldl_nil]
  exact a.est.sock

/-- MSS 10; the window grown to 32 by three ACKs, three segments out (3, 4, 5), two of them
    handed back (window 10 again), then the ACK of the third: one retransmission fits, the
    other stays -/
def Prog.histDrain : List TxLbl :=
  [.synack 0 [], .write 0 (wr 2 20 0) [], .deliver 0, .ack 0 0 [] [], .deliver 1, .ack 0 1 [] [],
   .write 0 (wr 3 30 20) [], .deliver 2, .ack 0 2 [] [], .write 0 (wr 4 30 40) [],
   .dropped 4, .dropped 5, .deliver 3]

/-- non-vacuity of `C06_resend_drains`: ACK 3 is pending; after it one segment still waits for
    retransmission while the retransmitted one (10 bytes) is in flight -/
example : sview (TxS.run {} (TxS.init 10) histDrain) = ((false, 10, [(3, 10)], 2), [], [3], []) := by
  decide +kernel
example : sview (TxS.run {} (TxS.init 10) (histDrain ++ [.ack 0 3 [] []]))
    = ((false, 10, [(4, 10)], 1), [4], [], []) := by decide +kernel
example := C06_resend_drains 10 (by decide) histDrain 0 3 (by decide +kernel)

/-- **A retransmission keeps its drop callback.** At every label boundary every segment in the
    network and every segment waiting for retransmission carries a drop callback bound to the
    socket's own (attached) forwarder, retransmitted ones included (`rearmDrop`) — so a second
    hand-back is reported like the first, and no segment is ever lost unreported. Segments are
    at most one MSS long. No side condition. -/
theorem C06_retransmission_keeps_callback (mss : Nat) (ls : List TxLbl) :
    let s := TxS.run {} (TxS.init mss) ls
    ∃ t f, s.sock = some t ∧ t.fwd = some f ∧ s.net.fwdTarget f = some sockA
      ∧ (∀ p, (p ∈ s.bag ∨ p ∈ t.resend) → p.hasDrop = true ∧ p.dropFwd = some f)
      ∧ (∀ p, (p ∈ s.bag ∨ p ∈ t.resend) → 0 < mss → p.payload.length ≤ mss)
      ∧ s.lost = [] := by
  obtain ⟨t, hsv, _, hmss⟩ := (SInv.init mss).run {} rfl rfl rfl ls
  obtain ⟨f, hf1, hf2⟩ := hsv.est.fwdOk
  refine ⟨t, f, hsv.est.sock, hf1, hf2, ?_, ?_, hsv.lost⟩
  · intro p hp; rw [← hf1]; exact hsv.core.cb p hp
  · intro p hp; rw [← hmss]; exact hsv.core.segLen p hp

/-- two full segments; the first is handed back, retransmitted by the ACK of the second, and
    handed back again -/
def Prog.histRearm : List TxLbl :=
  [.synack 0 [], .write 0 (wr 2 1475 0) [], .write 0 (wr 3 1475 1475) [], .dropped 0,
   .deliver 1, .ack 0 1 [] [], .dropped 0]

/-- **As-is (F10, `rearmDrop := false`).** The retransmitted segment 0 carries no callback: its
    second loss is not reported. The network is empty, the retransmission list is empty, and
    1475 bytes stay in flight waiting for an ACK that cannot come. -/
theorem C06_asis_retransmission_unreported :
    sview (TxS.run { rearmDrop := false } (TxS.init 1475) histRearm) = ((false, 1475, [(0, 1475)], 0), [], [], [0]) := by
  decide +kernel

/-- with the repair the second hand-back is reported: the segment waits for retransmission,
    its bytes are released -/
example : sview (TxS.run {} (TxS.init 1475) histRearm) = ((false, 0, [], 1), [], [], []) := by
  decide +kernel

/-! ### receiver: a pending read -/

/-- **Reader not stranded.** At every label boundary of the receiver system: while a read or
    a wait-for-read is pending the incoming queue is empty — a read is never left pending
    while deliverable data, or an error / end-of-stream packet, is queued. (The handshake is
    over on this side: `connectH = none` throughout.) Arrivals are arbitrary: any sequence
    numbers, any order, duplicates; the only side condition is `RxS.okRun` (payload segments
    non-empty, error packets not `would_block`). -/
theorem C06_reader_not_stranded (mss : Nat) (ls : List RxLbl) (hl : RxS.okRun ls) :
    ∃ t, (RxS.run {} (RxS.init mss) ls).sock = some t ∧ t.connectH = none
      ∧ ((t.recvH.isSome = true ∨ t.waitRecvH.isSome = true) → t.inq = []) := by
  obtain ⟨t, h1, h2⟩ := (RInv.init mss).run {} rfl ls hl
  exact ⟨t, h1, h2.conn, h2.pend⟩

def Prog.seg (id : Nat) (b : UInt8) : Pkt := { id := id, ty := .payload, len := 1, ovh := 40, payload := [b] }

/-- a read is pending; segment 1 overtakes segment 0 (a retransmission); segment 0 arrives and
    releases both at once -/
def Prog.histReader : List RxLbl := [.read { h := 5, caps := [100] }, .arrive 0 (seg 1 7), .arrive 1 (seg 0 6)]

example : RxS.okRun histReader := by decide

def Prog.rview (s : RxS) : Option (Bool × Nat) × List (Nat × Ec × String) :=
  (s.sock.map (fun t => (t.recvH.isSome, t.inq.length)), s.posts.map (fun c => (c.h, c.ec, c.extra)))

/-- **As-is (F8, `wakeReaderFixed := false`).** `maybe_wakeup_reader` looks for a queue length
    of exactly 1; the reorder buffer released two segments together: the read stays pending
    with two segments queued. -/
theorem C06_asis_reader_stranded :
    rview (RxS.run { wakeReaderFixed := false } (RxS.init 1475) histReader) = (some (true, 2), []) := by
  decide +kernel

/-- with the repair the read completes with both bytes -/
example : rview (RxS.run {} (RxS.init 1475) histReader) = (some (false, 0), [(5, .ok, "n=2 data=0607")]) := by
  decide +kernel

/-! ### the handshake completes -/

/-- **Connect completes, acceptor side (SYN arrives while an accept is outstanding).** An open
    acceptor with `acceptOp = some op` and nothing queued receives the SYN of channel `c`
    (the socket the accept hands the connection to exists and is not attached to a channel —
    `async_accept` closed it): exactly ONE packet is forwarded, the SYN-ACK for `c` along
    `hops0` (the route back to the connector), and the accept completion is posted with `ok`. -/
theorem C06_connect_completes_syn (n : NetSt) (now : Int) (a : String) (s : TcpSock) (ac : AccState)
    (op : AcceptOp) (c : Nat) (ch : Chan) (p0 : TcpSock) (p : Pkt)
    (hs : n.tcp? a = some s) (hopen : s.isOpen = true) (hacc : s.acc = some ac)
    (hop : ac.acceptOp = some op) (hconns : ac.conns = []) (hch : n.chan? c = some ch)
    (hne : peerOf op ≠ a) (hpeer : n.tcp? (peerOf op) = some p0) (hpc : p0.chan = none)
    (hty : p.ty = .syn) (hpch : p.chan = some c) :
    forwards (n.accIncoming now a p).2 = [synAckFor c ch s.bound]
    ∧ acceptDone op ch.vis0 ∈ (n.accIncoming now a p).2 :=
  accIncoming_syn n now a s ac op c ch p0 p hs hopen hacc hop hconns hch hne hpeer hpc hty hpch

/-- **Connect completes, acceptor side (SYN queued when the accept is issued).** -/
theorem C06_connect_completes_queued (n : NetSt) (now : Int) (a : String) (s : TcpSock) (ac : AccState)
    (h : Nat) (peer : String) (withEp : Bool) (c : Nat) (rest : List Nat) (ch : Chan) (p0 : TcpSock)
    (hs : n.tcp? a = some s) (hopen : s.isOpen = true) (hacc : s.acc = some ac)
    (hop : ac.acceptOp = none) (hconns : ac.conns = c :: rest) (hch : n.chan? c = some ch)
    (hne : peer ≠ a) (hpeer : n.tcp? peer = some p0) (hpo : p0.isOpen = false) (hpc : p0.chan = none) :
    forwards (n.accAsyncAccept now a (.into h peer withEp)).2 = [synAckFor c ch s.bound]
    ∧ acceptDone (.into h peer withEp) ch.vis0 ∈ (n.accAsyncAccept now a (.into h peer withEp)).2 :=
  accAsyncAccept_queued n now a s ac h peer withEp c rest ch p0 hs hopen hacc hop hconns hch hne hpeer hpo hpc

/-- **… the mechanism underneath both** (`check_accept_queue` on an open acceptor with an accept
    outstanding and a SYN queued), which also takes the accept and the SYN out of the acceptor. -/
theorem C06_connect_completes_check_queue (n : NetSt) (now : Int) (a : String) (s : TcpSock) (ac : AccState)
    (op : AcceptOp) (c : Nat) (rest : List Nat) (ch : Chan) (p0 : TcpSock)
    (hs : n.tcp? a = some s) (hopen : s.isOpen = true) (hacc : s.acc = some ac)
    (hop : ac.acceptOp = some op) (hconns : ac.conns = c :: rest) (hch : n.chan? c = some ch)
    (hne : peerOf op ≠ a) (hpeer : n.tcp? (peerOf op) = some p0) (hpc : p0.chan = none) :
    forwards (n.accCheckQueue now a).2 = [synAckFor c ch s.bound]
    ∧ acceptDone op ch.vis0 ∈ (n.accCheckQueue now a).2
    ∧ ∃ s', (n.accCheckQueue now a).1.tcp? a = some s'
        ∧ s'.acc = some { ac with conns := rest, acceptOp := none } :=
  accCheckQueue_accepts n now a s ac op c rest ch p0 hs hopen hacc hop hconns hch hne hpeer hpc

/-- **Connect completes, connector side.** A socket with `connectH = some h` that receives the
    SYN-ACK posts `h` with `ok`, clears the handler and runs `maybe_wakeup_writer`. -/
theorem C06_connect_completes_synack (tp : TParams) (n : NetSt) (now : Int) (name : String) (t : TcpSock)
    (h : Nat) (p : Pkt) (hs : n.tcp? name = some t) (hc : t.connectH = some h) (hty : p.ty = .synack) :
    n.tcpIncoming tp now name p
      = (n.setTcp name { t with connectH := none }, [NEff.post { h := h, ec := .ok }, .tcpWake name]) :=
  tcpIncoming_synack tp n now name t h p hs hc hty

/-- non-vacuity of the acceptor-side theorems on the handshake's own states: the state after
    listen + accept + connect (SYN on its way), and the state after listen + connect + SYN
    arrival without an accept (SYN queued) -/
def Prog.preSyn : NetSt :=
  let n : NetSt := { cfg := cfg0 1475, tcps := [("a0", { node := "n1", acc := some {} }), (sockB, { node := "n1" }),
                                                (sockA, { node := "n0" })] }
  let n := (n.tcpOpen 0 "a0" true).1
  let n := (n.tcpBind "a0" { addr := "0.0.0.0", port := 8000 }).1
  let n := (n.accListen "a0" (-1)).1
  let n := (n.accAsyncAccept 0 "a0" (.into 0 sockB false)).1
  (n.tcpConnect 0 sockA epB 1).1

def Prog.synPkt : Pkt := { id := 0, ty := .syn, len := 0, ovh := 28, src := "10.0.0.1:2000", chan := some 0 }

example := C06_connect_completes_syn preSyn 0 "a0"
  { node := "n1", isOpen := true, bound := epB, fwd := some 0, acc := some { queueLimit := 20, acceptOp := some (.into 0 sockB false) } }
  { queueLimit := 20, acceptOp := some (.into 0 sockB false) } (.into 0 sockB false) 0
  { chan0 with hops1 := ["qo0", "net", "qi1", "@0"] } { node := "n1" } synPkt
  (by rfl) rfl rfl rfl rfl (by rfl) (by decide) (by rfl) rfl rfl rfl

def Prog.preAccept : NetSt :=
  let n : NetSt := { cfg := cfg0 1475, tcps := [("a0", { node := "n1", acc := some {} }), (sockB, { node := "n1" }),
                                                (sockA, { node := "n0" })] }
  let n := (n.tcpOpen 0 "a0" true).1
  let n := (n.tcpBind "a0" { addr := "0.0.0.0", port := 8000 }).1
  let n := (n.accListen "a0" (-1)).1
  let n := (n.tcpConnect 0 sockA epB 1).1
  (n.accIncoming 0 "a0" synPkt).1

example := C06_connect_completes_queued preAccept 0 "a0"
  { node := "n1", isOpen := true, bound := epB, fwd := some 0, acc := some { queueLimit := 20, conns := [0] } }
  { queueLimit := 20, conns := [0] } 0 sockB false 0 []
  { chan0 with hops1 := ["qo0", "net", "qi1", "@0"] } { node := "n1" }
  (by rfl) rfl rfl rfl rfl (by rfl) (by decide) (by rfl) rfl rfl

/-- … in the open system: after the `synack` label the connect handler of the initial state has
    been completed with `ok`, and the socket is established -/
example : ((TxS.step {} (TxS.init 1475) (.synack 0 [])).posts, (TxS.step {} (TxS.init 1475) (.synack 0 [])).sock.map (·.connectH))
    = ([{ h := 1, ec := .ok }], some none) := by decide +kernel

/-! ### the queue lemma behind `C06_no_orphan_resend` -/

/-- **A tail-drop of a packet that would fit an empty queue means the queue is not empty**
    (any well-timed history of a queue, C10's account invariant): if `p` is tail-dropped —
    `cap < held + size` — although `size ≤ cap`, then `held > 0`, so a packet is queued. Under
    the property's side conditions (capacity ≥ one full segment incl. overhead; one direction
    at a time; no foreign traffic) that packet is another segment of the same connection and
    direction: whenever a segment is handed back, another one is still on its way, whose ACK
    (or hand-back) will run the sender again. -/
theorem C06_tail_drop_queue_nonempty (c : QCfg) (hc : c.WF) (ls : List QLbl) (h : QS.okRun c {} ls) (p : Pkt)
    (hd : TailDrop c (QS.run c {} ls).q.held p) (hfit : p.size ≤ c.cap) :
    (QS.run c {} ls).q.items ≠ [] := by
  intro he
  have hacc := C10_account c hc ls h
  rw [he] at hacc
  simp only [List.map_nil, List.sum_nil] at hacc
  have := hd.2.2
  rw [hacc] at this
  omega

end SimVerif

/-! ## the composed connection: quiescence

  Open system `TS` (SimVerif/StreamSys.lean): writer `c.a`, reader `c.b`, the network a bag of
  in-flight packets with `deliver i` / `drop i`, the writer's loops one iteration per `run`.
  `TS.Quiescent s` = the bag is empty and no loop is in progress: nothing can happen without a
  new API call. All theorems are about EVERY history `ls` from ANY established start state
  (`TcpStartQ`: handshake complete on both sides, both sockets attached to an existing channel,
  window account zero, `0 < mss ≤ cwnd`) that satisfies the drop side condition `TS.okRun`
  (SimVerif/StreamQuiesce.lean: a drop that takes effect leaves another packet of the
  connection in the network, or happens inside a writer loop that still sends), while both
  sockets stay open (`closed = false`: no `close()` of the writer took effect; the system has no
  label closing the reader). Hypotheses on the repair switches are stated per theorem; the
  default `TParams` (`{}`) satisfies them, and for each switch a witness shows what goes wrong
  without it. (`rearmDrop` plays no role here: the open system does not model the silent loss
  of a packet without drop callback — `drop i` on such a packet is a no-op — see
  `C06_retransmission_keeps_callback` / `C06_asis_retransmission_unreported` above for that
  repair.) -/

namespace SimVerif

/-- **No orphan retransmission.** While segments wait for retransmission, a packet of the
    connection is in the network (every packet in the bag is a segment of the writer or an ACK
    on its way to the writer) or a writer loop that will still send is in progress — so the
    simulation is never quiescent while dropped segments wait unsent. Needs the in-flight
    release on drop (`C06_asis_orphan_resend`) and the side condition (`C06_dropOk_necessary`). -/
theorem C06_no_orphan_resend (c : TcpCfg) (n : NetSt) (h : TcpStartQ c n) (hD : c.tp.releaseOnDrop = true)
    (ls : List TLbl) (hok : TS.okRun c (TS.init c n) ls) :
    let s := TS.run c (TS.init c n) ls
    s.closed = false →
    ∃ sa, s.net.tcp? c.a = some sa
      ∧ (sa.resend ≠ [] → s.bag ≠ [] ∨ s.ctl.willSend = true)
      ∧ (s.Quiescent → sa.resend = []) := by
  intro s hc
  obtain ⟨sa, sb, hq, hJ, _⟩ := QLive.reach hD h ls hok hc
  refine ⟨sa, hq.hsa, hJ, ?_⟩
  intro hqs
  cases hr : sa.resend with
  | nil => rfl
  | cons p rest =>
    exfalso
    rcases hJ (by rw [hr]; simp) with x | x
    · exact x hqs.1
    · rw [hqs.2] at x; simp [TCtl.willSend] at x

/-- **The writer is not blocked at quiescence.** Outside the ACK path a parked write
    (`m_send_handler` set; the handshake is complete throughout) means the window is full or
    segments wait for retransmission; at quiescence nothing is in flight (`inFlight = 0`) and no
    write is parked. Needs the writer wake-up repair (`C06_asis_writer_parked_at_quiescence`). -/
theorem C06_writer_not_blocked_at_quiescence (c : TcpCfg) (n : NetSt) (h : TcpStartQ c n)
    (hD : c.tp.releaseOnDrop = true) (hF : c.tp.wakeWriterFixed = true)
    (ls : List TLbl) (hok : TS.okRun c (TS.init c n) ls) :
    let s := TS.run c (TS.init c n) ls
    s.closed = false →
    ∃ sa, s.net.tcp? c.a = some sa ∧ sa.connectH = none
      ∧ (s.ctl.inAck = false → sa.sendH.isSome = true → sa.inFlight + sa.mss > sa.cwnd ∨ sa.resend ≠ [])
      ∧ (s.Quiescent → sa.sendH = none ∧ sa.inFlight = 0) := by
  intro s hc
  obtain ⟨sa, sb, hq, hJ, hW⟩ := QLive.reach hD h ls hok hc
  refine ⟨sa, hq.hsa, hq.pure.connA, hW hF, ?_⟩
  intro hqs
  refine ⟨?_, hq.pure.empty_zero hqs.1⟩
  cases hs : sa.sendH with
  | none => rfl
  | some op =>
    exfalso
    have hi : s.ctl.inAck = false := by rw [hqs.2]; rfl
    rcases hW hF hi (by rw [hs]; rfl) with x | x
    · exact hq.pure.empty_notFull hqs.1 x
    · rcases hJ x with y | y
      · exact y hqs.1
      · rw [hqs.2] at y; simp [TCtl.willSend] at y

/-- **The reader is not stranded.** At every label boundary — in particular at quiescence — a
    pending read or wait-for-read means the reader's incoming queue is EMPTY: no deliverable
    byte is queued. Needs the reader wake-up repair (`C06_asis_reader_stranded_at_quiescence`). -/
theorem C06_reader_not_stranded_at_quiescence (c : TcpCfg) (n : NetSt) (h : TcpStartQ c n)
    (hD : c.tp.releaseOnDrop = true) (hR : c.tp.wakeReaderFixed = true)
    (ls : List TLbl) (hok : TS.okRun c (TS.init c n) ls) :
    let s := TS.run c (TS.init c n) ls
    s.closed = false →
    ∃ sb, s.net.tcp? c.b = some sb
      ∧ ((sb.recvH.isSome = true ∨ sb.waitRecvH.isSome = true) → sb.inq = []) := by
  intro s hc
  obtain ⟨sa, sb, hq, _, _⟩ := QLive.reach hD h ls hok hc
  exact ⟨sb, hq.hsb, (hq.pure.rd hR).pend⟩

/-- **At quiescence everything written is at the reader.** Nothing waits for retransmission,
    the reader has received every segment in order (`nextIn = nextOut` = the number of segments
    created), what completed writes reported is what was written, and every byte written is
    delivered or queued for the next read: `written = delivered ++ queued`. If a read is
    pending (reader wake-up repair in place) nothing is queued: `delivered = written`. -/
theorem C06_quiescent_all_delivered (c : TcpCfg) (n : NetSt) (h : TcpStartQ c n)
    (hD : c.tp.releaseOnDrop = true) (ls : List TLbl) (hok : TS.okRun c (TS.init c n) ls) :
    let s := TS.run c (TS.init c n) ls
    s.closed = false → s.Quiescent →
    ∃ sa sb, s.net.tcp? c.a = some sa ∧ s.net.tcp? c.b = some sb
      ∧ sa.resend = [] ∧ sb.nextIn = sa.nextOut ∧ sa.nextOut = s.segs.length
      ∧ s.accepted = s.written
      ∧ s.written = s.delivered ++ bytesOf sb.inq
      ∧ (c.tp.wakeReaderFixed = true → (sb.recvH.isSome = true ∨ sb.waitRecvH.isSome = true) →
          s.delivered = s.written) := by
  intro s hc hqs
  obtain ⟨sa, sb, hq, hJ, _⟩ := QLive.reach hD h ls hok hc
  have hT := TInv.reach h.toTcpStart ls
  have hres : sa.resend = [] := by
    cases hr : sa.resend with
    | nil => rfl
    | cons p rest =>
      exfalso
      rcases hJ (by rw [hr]; simp) with x | x
      · exact x hqs.1
      · rw [hqs.2] at x; simp [TCtl.willSend] at x
  obtain ⟨sa', hsa', hao⟩ := hT.core.exA
  rw [hq.hsa] at hsa'; cases hsa'
  obtain ⟨sb', hsb', hbq⟩ := hT.core.exB
  rw [hq.hsb] at hsb'; cases hsb'
  have hcs : s.closed = false := hc
  have hno : sa.nextOut = s.segs.length := (hao.live hcs).1
  have hge : sa.nextOut ≤ sb.nextIn := by
    apply Nat.le_of_not_lt
    intro hlt
    rcases hq.pure.whereK _ hlt with a | a | a
    · rw [hqs.1] at a; simp [Prog.ids] at a
    · rw [hres] at a; simp [Prog.ids] at a
    · rcases a with a | a
      · omega
      · have hd := hq.pure.drained
        obtain ⟨e, he, hk⟩ := List.mem_map.mp a
        have hne := List.lookup_eq_none_iff.mp hd e he
        simp [hk] at hne
  have hle : sb.nextIn ≤ s.segs.length := by
    have := hbq.bound
    rw [hcs] at this; simpa using this
  have hnx : sb.nextIn = sa.nextOut := by omega
  have hacc : s.accepted = s.written := by
    have := hT.ctl
    rw [hqs.2] at this
    exact this.symm
  have hlen : s.segs.length ≤ sb.nextIn := by rw [← hno]; exact hge
  have hw : s.written = s.delivered ++ bytesOf sb.inq := by
    rw [hbq.bytes, List.take_of_length_le hlen, hT.core.flat]
  refine ⟨sa, sb, hq.hsa, hq.hsb, hres, hnx, hno, hacc, hw, ?_⟩
  intro hR hp
  rw [hw, (hq.pure.rd hR).pend hp]; simp

/-- **Unbounded queues**: a history without any drop satisfies the side condition, so the
    quiescence clauses hold for any traffic pattern. -/
theorem C06_quiescent_all_delivered_unbounded (c : TcpCfg) (n : NetSt) (h : TcpStartQ c n)
    (hD : c.tp.releaseOnDrop = true) (ls : List TLbl) (hnd : ∀ l ∈ ls, l.isDrop = false) :
    let s := TS.run c (TS.init c n) ls
    s.closed = false → s.Quiescent →
    ∃ sb, s.net.tcp? c.b = some sb ∧ s.accepted = s.written ∧ s.written = s.delivered ++ bytesOf sb.inq := by
  intro s hc hqs
  obtain ⟨_, sb, _, h2, _, _, _, h6, h7, _⟩ :=
    C06_quiescent_all_delivered c n h hD ls (TS.okRun_of_noDrop c ls hnd _) hc hqs
  exact ⟨sb, h2, h6, h7⟩

/-- the ctl-free form of the side condition suffices: every drop that takes effect leaves at
    least one other packet of the connection in the network (`TS.okRunStrong`) -/
theorem C06_no_orphan_resend_strong (c : TcpCfg) (n : NetSt) (h : TcpStartQ c n) (hD : c.tp.releaseOnDrop = true)
    (ls : List TLbl) (hok : TS.okRunStrong c (TS.init c n) ls) :
    let s := TS.run c (TS.init c n) ls
    s.closed = false → s.Quiescent → ∃ sa, s.net.tcp? c.a = some sa ∧ sa.resend = [] := by
  intro s hc hqs
  obtain ⟨sa, h1, _, h3⟩ := C06_no_orphan_resend c n h hD ls (TS.okRun_of_okRunStrong c ls _ hok) hc
  exact ⟨sa, h1, h3 hqs⟩

/-! ### witnesses (MSS 3, window 6: the state `TcpEx.n0`) -/

namespace QEx
open TcpEx

/-- (side condition holds, quiescent, both open), ids waiting for retransmission + write parked,
    (read or wait pending, packets queued), delivered, written -/
def qview (c : TcpCfg) (ls : List TLbl) :
    (Bool × Bool × Bool) × Option (List Nat × Bool) × Option (Bool × Nat) × List UInt8 × List UInt8 :=
  let s := TS.run c (TS.init c n0) ls
  ((decide (TS.okRun c (TS.init c n0) ls), decide s.Quiescent, !s.closed),
   (s.net.tcp? c.a).map (fun t => (t.resend.map (·.id), t.sendH.isSome)),
   (s.net.tcp? c.b).map (fun t => (t.recvH.isSome || t.waitRecvH.isSome, t.inq.length)),
   s.delivered, s.written)

theorem startQ : TcpStartQ c n0 := (established_startQ _ _ _ _ _ _ (by decide) (by decide) (by decide)).1

/-- the history of SimVerif/TcpEx.lean up to the close: segment 0 handed back by the first hop
    INSIDE the segmentation loop (the bag is empty after the drop, but the loop still sends:
    `willSend`), segment 1 overtakes, its ACK retransmits segment 0, a pending 2-byte read is
    completed by the arrival, the rest is read non-blocking -/
def histOk : List TLbl := [
  .read { h := 7, caps := [1, 1] },
  .write 0 { h := 1, bufs := [[1, 2, 3, 4], [5, 6]], stream := 0, off := 0 },
  .drop 0 none, .run 0, .run 0,
  .deliver 0 0 none, .deliver 0 0 none, .run 0, .run 0,
  .deliver 0 0 none, .deliver 0 0 none, .run 0,
  .readNb [10]]

/-- two segments out, the loop over; segment 0 is handed back while segment 1 is still in the
    network (the strong form of the side condition); the ACK of segment 1 retransmits it -/
def histOk2 : List TLbl := [
  .write 0 { h := 1, bufs := [[1, 2, 3, 4]], stream := 0, off := 0 }, .run 0, .run 0,
  .drop 0 none,
  .deliver 0 0 none, .deliver 0 0 none, .run 0, .run 0,
  .deliver 0 0 none, .deliver 0 0 none, .run 0,
  .read { h := 7, caps := [10] }]

/-- non-vacuity: histories WITH drops that satisfy the side condition and end quiescent, both
    sockets open, nothing waiting for retransmission, everything written delivered -/
example : qview c histOk = ((true, true, true), some ([], false), some (false, 0), [1, 2, 3, 4], [1, 2, 3, 4]) := by
  decide +kernel
example : qview c histOk2 = ((true, true, true), some ([], false), some (false, 0), [1, 2, 3, 4], [1, 2, 3, 4]) := by
  decide +kernel
example := C06_quiescent_all_delivered c n0 startQ rfl histOk (by decide +kernel) (by decide +kernel) (by decide +kernel)
example := C06_no_orphan_resend c n0 startQ rfl histOk2 (by decide +kernel) (by decide +kernel)
/-- … and a state in the middle where segment 0 DOES wait for retransmission while segment 1 is
    in the network (the hypothesis of `C06_no_orphan_resend` is not vacuous) -/
example : qview c (histOk2.take 4) = ((true, false, true), some ([0], false), some (false, 0), [], [1, 2, 3, 4]) := by
  decide +kernel

/-- one segment out, handed back with nothing else of the connection in the network -/
def histOrphan : List TLbl :=
  [.write 0 { h := 1, bufs := [[1, 2, 3]], stream := 0, off := 0 }, .run 0, .drop 0 none]

end QEx

/-- **The side condition is necessary**: all repairs in place, the only packet in flight is
    dropped (the history violates `TS.okRun`): the system is quiescent with segment 0 waiting
    for retransmission forever, the 3 bytes a completed write reported never reach the reader.
    (The library has no retransmission timer: only an ACK runs the retransmission loop.) -/
theorem C06_dropOk_necessary :
    QEx.qview TcpEx.c QEx.histOrphan = ((false, true, true), some ([0], false), some (false, 0), [], [1, 2, 3]) := by
  decide +kernel

namespace QEx
open TcpEx

def cNoRelease : TcpCfg := { c with tp := { releaseOnDrop := false } }
def cNoWakeW : TcpCfg := { c with tp := { wakeWriterFixed := false } }
def cNoWakeR : TcpCfg := { c with tp := { wakeReaderFixed := false } }

/-- two full segments out; segment 0 handed back while segment 1 is in the network; segment 1
    delivered and ACKed -/
def histLeak : List TLbl := [
  .write 0 { h := 1, bufs := [[1, 2, 3, 4, 5, 6]], stream := 0, off := 0 }, .run 0, .run 0,
  .drop 0 none, .deliver 0 0 none, .deliver 0 0 none, .run 0, .run 0]

/-- segments [1,2,3] and [4] out; segment 0 handed back (window 3), a second write parks;
    segment 1 ACKed (retransmits segment 0), segment 0 ACKed -/
def histWriter : List TLbl := [
  .write 0 { h := 1, bufs := [[1, 2, 3], [4]], stream := 0, off := 0 }, .run 0, .run 0,
  .drop 0 none, .write 0 { h := 2, bufs := [[9]], stream := 0, off := 4 },
  .deliver 0 0 none, .deliver 0 0 none, .run 0, .run 0, .deliver 0 0 none, .deliver 0 0 none, .run 0]

/-- a read is pending; segment 1 overtakes segment 0; both ACKs arrive -/
def histReader : List TLbl := [
  .read { h := 7, caps := [10] },
  .write 0 { h := 1, bufs := [[1, 2, 3, 4]], stream := 0, off := 0 }, .run 0, .run 0,
  .deliver 0 1 none, .deliver 0 0 none, .deliver 0 0 none, .run 0, .deliver 0 0 none, .run 0]

end QEx

/-- **As-is (F9, `releaseOnDrop := false`)**: the history satisfies the side condition; the
    3 bytes of the dropped segment stay counted as in flight, so after the last ACK the
    retransmission does not fit the halved window: quiescent with segment 0 unsent. -/
theorem C06_asis_orphan_resend :
    QEx.qview QEx.cNoRelease QEx.histLeak
      = ((true, true, true), some ([0], false), some (false, 0), [], [1, 2, 3, 4, 5, 6]) := by
  decide +kernel

/-- the same history with the repair: the ACK retransmits segment 0 (not quiescent) -/
example : QEx.qview TcpEx.c QEx.histLeak
    = ((true, false, true), some ([], false), some (false, 0), [], [1, 2, 3, 4, 5, 6]) := by
  decide +kernel

/-- **As-is (F8a, `wakeWriterFixed := false`)**: every ACK arrives while the window is still
    full before it; quiescent with the write `h2` parked although nothing is in flight. -/
theorem C06_asis_writer_parked_at_quiescence :
    QEx.qview QEx.cNoWakeW QEx.histWriter
      = ((true, true, true), some ([], true), some (false, 2), [], [1, 2, 3, 4]) := by
  decide +kernel

/-- with the repair the last ACK re-runs the parked write (its segment is out: not quiescent) -/
example : QEx.qview TcpEx.c QEx.histWriter
    = ((true, false, true), some ([], false), some (false, 2), [], [1, 2, 3, 4, 9]) := by
  decide +kernel

/-- **As-is (F8, `wakeReaderFixed := false`)**: the reorder buffer releases two segments at
    once; quiescent with the read pending and both segments queued. -/
theorem C06_asis_reader_stranded_at_quiescence :
    QEx.qview QEx.cNoWakeR QEx.histReader
      = ((true, true, true), some ([], false), some (true, 2), [], [1, 2, 3, 4]) := by
  decide +kernel

/-- with the repair the read completes with all four bytes -/
example : QEx.qview TcpEx.c QEx.histReader
    = ((true, true, true), some ([], false), some (false, 0), [1, 2, 3, 4], [1, 2, 3, 4]) := by
  decide +kernel

/-
  WHAT REMAINS UNPROVED for the full statement of C06.

  1. Liveness proper ("eventually delivered", under fair timing) — not attempted (DESIGN §5).
     What is proved instead is its safety core: a history that ends quiescent has everything
     written at the reader (`C06_quiescent_all_delivered`), and quiescence with a pending read /
     parked write / waiting retransmission is impossible.

  2. The drop side condition `TS.okRun` is no longer an assumption about the network when the
     forward route is a chain of tail-drop queues carrying only this connection's forward
     packets: the last section of this file (`C06_queues_*`, system `QN` of
     SimVerif/StreamNet.lean) DERIVES it from the configuration (each queue unlimited or of
     capacity ≥ mss + 40; drop re-arming) and restates the four quiescence theorems without
     it. What that section still idealises: the queues are timing-free hops (`hopDeq` at the
     adversary's discretion — a superset of every bandwidth/latency; tied to `Q.incoming` /
     `Q.sentPop` by `C06_hop_is_queue`), they carry NO foreign traffic (next note), and the
     reverse path is a drop-free bag (ACKs are never dropped by a queue:
     `C10_control_never_dropped`).

     NOTE (checked on the real library and on the Lean world model, scenario
     corpus/_defects/c06_sole_segment_dropped.scn): the side condition is really about the
     CONNECTION's packets, not about queue capacities alone. Two connections from the same node
     sharing one finite outgoing queue (capacity 1600 ≥ one full segment), each writing ONE
     1475-byte segment 28 µs apart: the second connection's only segment is tail-dropped by the
     queue holding the first connection's segment; both writes report 1475 bytes accepted, the
     second reader never gets them, `run()` returns — the library has no retransmission timer.
     That history violates `TS.okRun` (nothing else of the second connection is in the network),
     exactly like `C06_dropOk_necessary`; the property's wording excludes it only if "payload
     one direction at a time on the connection" is read as "no other traffic in the queues".

  3. Both sockets open: after the writer's `close()` the model discards what waits for
     retransmission and ignores later hand-backs (the channel is gone), so bytes accepted
     before the close can be lost — the theorems are stated for `closed = false` only.
-/

end SimVerif

/-! ## the composed connection over tail-drop queues: the drop side condition discharged

  Refined open system `QN` (SimVerif/StreamNet.lean): the sockets, writer loops and ghost logs
  of `TS`, but the forward path writer → reader is a CHAIN OF TAIL-DROP QUEUES (`QNCfg.caps`: one
  byte capacity per hop, 0 = unlimited) carrying only this connection's forward packets; each
  hop is the timing-free abstraction of `sim::queue` (`hopDrops` = the tail-drop test of
  `Q.incoming` on the byte account, FIFO; tied to the mechanism functions by
  `C06_hop_is_queue`); the adversary only chooses WHEN a hop forwards its head (`hopDeq k`).
  The reverse path carries only ACKs (payload one direction at a time), which no queue ever
  drops (`C10_control_never_dropped`): it stays an adversarial bag without drops (`ackDeliver`).
  A packet tail-dropped by the first hop is handed back synchronously inside the send; one
  dropped by a later hop is handed back when it gets there; a droppable packet WITHOUT drop
  callback is silently lost, as in the queue.

  `C06_queues_refine_bag`: every history of `QN` projects to a history of `TS` that satisfies
  `TS.okRun` and ends in the same state (same sockets, control state, ghosts; the bag is what
  the queues and the reverse path hold). Hence the four quiescence theorems hold for `QN` with
  NO assumption about the network — only about the configuration:
    * `TcpStartQ c n`      — established start state (as before);
    * `nc.CapOk (mssOf c n)` — at least one queue; each unlimited or of capacity ≥ one full
                              segment = the writer's `mss` + 40 bytes TCP overhead;
    * the repaired parameter values: `releaseOnDrop`, `rearmDrop` (a retransmitted segment
      keeps its drop callback; without it a queue loses it silently —
      `C06_queues_rearm_necessary`), and per theorem `wakeWriterFixed` / `wakeReaderFixed`;
    * both sockets open (`closed = false`).
  `C06_queues_capacity_necessary`: a queue with 0 < capacity < one full segment drops into an
  EMPTY queue and strands the segment. -/

namespace SimVerif

/-- **A hop is a queue without time.** On every state of a well-timed history of a
    `sim::queue` (C10's byte account holds there; it is kept by all four mechanism functions:
    `hop_incoming`, `hop_sentPop`, `hop_beginSend_acct`, `hop_sentFinish_acct`, so the same is
    true of the re-entrant states inside `next_packet_sent`): `incoming_packet` tail-drops
    exactly when `hopDrops` says so on the list of packets held — the queue is then untouched
    and the drop callback runs iff the packet has one — and otherwise appends the packet;
    `next_packet_sent` pops the head of that list; the timer callbacks do not touch it. -/
theorem C06_hop_is_queue (c : QCfg) (hc : c.WF) (ls : List QLbl) (h : QS.okRun c {} ls) (now : Int) (p : Pkt) :
    let q := (QS.run c {} ls).q
    (hopDrops c.cap q.pkts p = true → q.incoming c now p = (q, if p.hasDrop then [.dropCb p] else []))
    ∧ (hopDrops c.cap q.pkts p = false →
        (q.incoming c now p).1.pkts = q.pkts ++ [p] ∧ ∀ x, QEff.dropCb x ∉ (q.incoming c now p).2)
    ∧ (∀ p' rest, q.pkts = p' :: rest → q.sentPop.2 = some p' ∧ q.sentPop.1.pkts = rest)
    ∧ (q.beginSend c now).1.pkts = q.pkts ∧ (q.sentFinish c now).1.pkts = q.pkts := by
  intro q
  have ha : q.Acct := hop_of_run c hc ls h
  obtain ⟨h1, h2⟩ := hop_incoming c now q p ha
  refine ⟨h1, fun hd => ⟨(h2 hd).1, (h2 hd).2.2⟩, ?_, hop_beginSend c now q, hop_sentFinish c now q⟩
  intro p' rest hq
  obtain ⟨a, b, _⟩ := hop_sentPop q p' rest ha hq
  exact ⟨a, b⟩

/-- **The key fact.** A hop that is unlimited never drops; a hop able to hold the packet
    tail-drops it only when it holds another packet. -/
theorem C06_hop_drop_nonempty (cap : Nat) (held : List Pkt) (p : Pkt) (hd : hopDrops cap held p = true)
    (hcap : cap = 0 ∨ p.size ≤ cap) : held ≠ [] :=
  hopDrops_nonempty cap held p hd hcap

/-- **Every droppable packet of the connection is at most one full segment and carries a drop
    callback** (every history of `TS`, drop re-arming in place): what the capacity hypothesis
    has to cover is `mss + 40`. -/
theorem C06_segment_size (c : TcpCfg) (n : NetSt) (h : TcpStartQ c n) (hR : c.tp.rearmDrop = true)
    (ls : List TLbl) (p : Pkt) (hp : p ∈ (TS.run c (TS.init c n) ls).bag) (hk : p.okToDrop = true) :
    p.hasDrop = true ∧ p.size ≤ mssOf c n + 40 := by
  have hpos : 0 < mssOf c n := by
    obtain ⟨sa, hsa, _, _, _, _, h5, _⟩ := h.qa
    unfold mssOf; rw [hsa]; exact h5
  have hg : QNGood c (mssOf c n) (TS.init c n) := ⟨TInv.init h.toTcpStart, TShape.init h.toTcpStart, rfl, hpos⟩
  exact (hg.run hR ls).bound p hp hk

/-- **Refinement: the network side condition is a theorem.** Every history of the system over
    tail-drop queues — any interleaving of API calls, queue departures and ACK deliveries —
    projects to a history `ls` of the open system with the adversarial bag that satisfies the
    drop side condition `TS.okRun` and ends in the same state (`QNRel`: same sockets, writer
    control state and ghost logs; the bag holds, in some order, exactly what the queues and the
    reverse path hold). -/
theorem C06_queues_refine_bag (c : TcpCfg) (nc : QNCfg) (n : NetSt) (h : TcpStartQ c n)
    (hR : c.tp.rearmDrop = true) (hcap : nc.CapOk (mssOf c n)) (nls : List QNLbl) :
    ∃ ls, TS.okRun c (TS.init c n) ls
      ∧ QNRel (TS.run c (TS.init c n) ls) (QN.run c nc (QN.init c nc n) nls) :=
  QN.refines c nc n h hR hcap nls

/-- **No orphan retransmission, over tail-drop queues.** While segments wait for
    retransmission, a packet of the connection is in a queue or on the reverse path, or a
    writer loop that will still send is in progress; never quiescent with dropped segments
    unsent. No assumption about the network. -/
theorem C06_queues_no_orphan_resend (c : TcpCfg) (nc : QNCfg) (n : NetSt) (h : TcpStartQ c n)
    (hD : c.tp.releaseOnDrop = true) (hR : c.tp.rearmDrop = true) (hcap : nc.CapOk (mssOf c n))
    (nls : List QNLbl) :
    let s := QN.run c nc (QN.init c nc n) nls
    s.ts.closed = false →
    ∃ sa, s.ts.net.tcp? c.a = some sa
      ∧ (sa.resend ≠ [] → s.inNet ≠ [] ∨ s.ts.ctl.willSend = true)
      ∧ (s.Quiescent → sa.resend = []) := by
  intro s hc
  obtain ⟨ls, hok, hrel⟩ := QN.refines c nc n h hR hcap nls
  obtain ⟨sa, h1, h2, h3⟩ := C06_no_orphan_resend c n h hD ls hok (by rw [hrel.closed]; exact hc)
  refine ⟨sa, by rw [← hrel.net]; exact h1, ?_, fun hq => h3 (hrel.quiescent.mpr hq)⟩
  intro hne
  rcases h2 hne with x | x
  · exact Or.inl (fun he => x (hrel.bag_nil.mpr he))
  · exact Or.inr (by rw [← hrel.ctl]; exact x)

/-- **The writer is not blocked at quiescence, over tail-drop queues.** -/
theorem C06_queues_writer_not_blocked_at_quiescence (c : TcpCfg) (nc : QNCfg) (n : NetSt) (h : TcpStartQ c n)
    (hD : c.tp.releaseOnDrop = true) (hR : c.tp.rearmDrop = true) (hF : c.tp.wakeWriterFixed = true)
    (hcap : nc.CapOk (mssOf c n)) (nls : List QNLbl) :
    let s := QN.run c nc (QN.init c nc n) nls
    s.ts.closed = false →
    ∃ sa, s.ts.net.tcp? c.a = some sa ∧ sa.connectH = none
      ∧ (s.ts.ctl.inAck = false → sa.sendH.isSome = true → sa.inFlight + sa.mss > sa.cwnd ∨ sa.resend ≠ [])
      ∧ (s.Quiescent → sa.sendH = none ∧ sa.inFlight = 0) := by
  intro s hc
  obtain ⟨ls, hok, hrel⟩ := QN.refines c nc n h hR hcap nls
  obtain ⟨sa, h1, h2, h3, h4⟩ :=
    C06_writer_not_blocked_at_quiescence c n h hD hF ls hok (by rw [hrel.closed]; exact hc)
  exact ⟨sa, by rw [← hrel.net]; exact h1, h2, by rw [← hrel.ctl]; exact h3, fun hq => h4 (hrel.quiescent.mpr hq)⟩

/-- **The reader is not stranded, over tail-drop queues.** -/
theorem C06_queues_reader_not_stranded_at_quiescence (c : TcpCfg) (nc : QNCfg) (n : NetSt) (h : TcpStartQ c n)
    (hD : c.tp.releaseOnDrop = true) (hR : c.tp.rearmDrop = true) (hW : c.tp.wakeReaderFixed = true)
    (hcap : nc.CapOk (mssOf c n)) (nls : List QNLbl) :
    let s := QN.run c nc (QN.init c nc n) nls
    s.ts.closed = false →
    ∃ sb, s.ts.net.tcp? c.b = some sb
      ∧ ((sb.recvH.isSome = true ∨ sb.waitRecvH.isSome = true) → sb.inq = []) := by
  intro s hc
  obtain ⟨ls, hok, hrel⟩ := QN.refines c nc n h hR hcap nls
  obtain ⟨sb, h1, h2⟩ :=
    C06_reader_not_stranded_at_quiescence c n h hD hW ls hok (by rw [hrel.closed]; exact hc)
  exact ⟨sb, by rw [← hrel.net]; exact h1, h2⟩

/-- **At quiescence everything written is at the reader, over tail-drop queues**: all queues
    and the reverse path empty, no writer loop in progress ⇒ nothing waits for retransmission,
    the reader has every segment in order, what completed writes reported is what was written,
    and `written = delivered ++ queued` (`= delivered` if a read is pending). -/
theorem C06_queues_quiescent_all_delivered (c : TcpCfg) (nc : QNCfg) (n : NetSt) (h : TcpStartQ c n)
    (hD : c.tp.releaseOnDrop = true) (hR : c.tp.rearmDrop = true) (hcap : nc.CapOk (mssOf c n))
    (nls : List QNLbl) :
    let s := QN.run c nc (QN.init c nc n) nls
    s.ts.closed = false → s.Quiescent →
    ∃ sa sb, s.ts.net.tcp? c.a = some sa ∧ s.ts.net.tcp? c.b = some sb
      ∧ sa.resend = [] ∧ sb.nextIn = sa.nextOut ∧ sa.nextOut = s.ts.segs.length
      ∧ s.ts.accepted = s.ts.written
      ∧ s.ts.written = s.ts.delivered ++ bytesOf sb.inq
      ∧ (c.tp.wakeReaderFixed = true → (sb.recvH.isSome = true ∨ sb.waitRecvH.isSome = true) →
          s.ts.delivered = s.ts.written) := by
  intro s hc hq
  obtain ⟨ls, hok, hrel⟩ := QN.refines c nc n h hR hcap nls
  obtain ⟨sa, sb, h1, h2, h3, h4, h5, h6, h7, h8⟩ :=
    C06_quiescent_all_delivered c n h hD ls hok (by rw [hrel.closed]; exact hc) (hrel.quiescent.mpr hq)
  refine ⟨sa, sb, by rw [← hrel.net]; exact h1, by rw [← hrel.net]; exact h2, h3, h4,
    by rw [← hrel.segs]; exact h5, by rw [← hrel.accepted, ← hrel.written]; exact h6,
    by rw [← hrel.written, ← hrel.delivered]; exact h7, ?_⟩
  intro a b
  rw [← hrel.written, ← hrel.delivered]; exact h8 a b

/-- **Unlimited queues** (every capacity 0) satisfy the capacity hypothesis whatever the
    segment size, and never drop: the quiescence theorems hold for any traffic pattern. -/
theorem C06_queues_unlimited_capOk (k m : Nat) : ({ caps := List.replicate (k + 1) 0 } : QNCfg).CapOk m :=
  ⟨by simp [List.replicate_succ], fun cap hc => Or.inl (List.eq_of_mem_replicate hc)⟩

/-! ### witnesses (MSS 3, window 6: the state `TcpEx.n0`; a full segment is 43 bytes) -/

namespace QEx
open TcpEx

/-- what the witnesses look at -/
structure NView where
  quiescent : Bool
  open_     : Bool
  hops      : List (List Nat)            -- sequence numbers held by each hop
  rev       : List Nat                   -- ACKs on the reverse path
  drops     : List (Nat × Nat)           -- tail-drops so far: (hop, sequence number)
  resend    : List Nat                   -- waiting for retransmission
  parked    : Bool                       -- a write is parked
  rdPending : Bool                       -- a read or wait-for-read is pending
  queued    : Nat                        -- packets in the reader's incoming queue
  nextIn    : Nat                        -- next sequence number the reader expects
  delivered : List UInt8
  written   : List UInt8
  accepted  : List UInt8
  deriving DecidableEq, Repr

def nview (c : TcpCfg) (nc : QNCfg) (n : NetSt) (ls : List QNLbl) : NView :=
  let s := QN.run c nc (QN.init c nc n) ls
  let sa := (s.ts.net.tcp? c.a).getD { node := "" }
  let sb := (s.ts.net.tcp? c.b).getD { node := "" }
  { quiescent := decide s.Quiescent, open_ := !s.ts.closed, hops := s.hops.map (·.map (·.id)),
    rev := s.rev.map (·.id), drops := s.dropLog, resend := sa.resend.map (·.id), parked := sa.sendH.isSome,
    rdPending := sb.recvH.isSome || sb.waitRecvH.isSome, queued := sb.inq.length, nextIn := sb.nextIn,
    delivered := s.ts.delivered, written := s.ts.written, accepted := s.ts.accepted }

def nw (l : List UInt8) (h off : Nat) : QNLbl := .api (.write 0 { h := h, bufs := [l], stream := 0, off := off })
def nr : QNLbl := .api (.run 0)
def nd (k : Nat) : QNLbl := .hopDeq 0 k none
def na : QNLbl := .ackDeliver 0 0 none

/-- two hops, each able to hold exactly one full segment -/
def nc2 : QNCfg := { caps := [43, 43] }

example : mssOf c n0 = 3 := by decide +kernel
example : nc2.CapOk (mssOf c n0) := by decide +kernel

/-- first write (6 bytes = segments 0, 1): segment 0 enters hop 0 and moves on to hop 1;
    segment 1 enters hop 0, the loop ends; hop 0 forwards segment 1 into the FULL hop 1:
    tail-dropped there (asynchronous hand-back, segment 0 still in hop 1) -/
def netDropLater : List QNLbl := [nw [1, 2, 3, 4, 5, 6] 1 0, nd 0, nr, nr, nd 0]

/-- … segment 0 reaches the reader, its ACK retransmits segment 1, which arrives and is
    acknowledged: quiescent -/
def netRecovered : List QNLbl := netDropLater ++ [nd 1, na, nr, nr, nd 0, nd 1, na, nr]

/-- second write (segments 2, 3): segment 2 sits in hop 0, so segment 3 is tail-dropped by the
    FIRST hop synchronously inside the segmentation loop; segment 2's ACK retransmits it;
    everything is read -/
def netBoth : List QNLbl :=
  netRecovered ++ [nw [7, 8, 9, 10, 11, 12] 2 6, nr, nr,
    nd 0, nd 1, na, nr, nr, nd 0, nd 1, na, nr, .api (.readNb [100])]

/-- non-vacuity: a real drop at a later hop … -/
example : nview c nc2 n0 netDropLater
    = { quiescent := false, open_ := true, hops := [[], [0]], rev := [], drops := [(1, 1)], resend := [1], parked := false,
            rdPending := false, queued := 0, nextIn := 0, delivered := [],
            written := [1, 2, 3, 4, 5, 6], accepted := [1, 2, 3, 4, 5, 6] } := by
  decide +kernel
example : nview c nc2 n0 netRecovered
    = { quiescent := true, open_ := true, hops := [[], []], rev := [], drops := [(1, 1)], resend := [], parked := false,
            rdPending := false, queued := 2, nextIn := 2, delivered := [],
            written := [1, 2, 3, 4, 5, 6], accepted := [1, 2, 3, 4, 5, 6] } := by
  decide +kernel
/-- … and one at the first hop, in ONE history that ends quiescent with all 12 bytes delivered -/
example : nview c nc2 n0 netBoth
    = { quiescent := true, open_ := true, hops := [[], []], rev := [], drops := [(1, 1), (0, 3)], resend := [], parked := false,
            rdPending := false, queued := 0, nextIn := 4, delivered := [1, 2, 3, 4, 5, 6, 7, 8, 9, 10, 11, 12],
            written := [1, 2, 3, 4, 5, 6, 7, 8, 9, 10, 11, 12], accepted := [1, 2, 3, 4, 5, 6, 7, 8, 9, 10, 11, 12] } := by
  decide +kernel
example := C06_queues_quiescent_all_delivered c nc2 n0 startQ rfl rfl (by decide +kernel) netBoth
  (by decide +kernel) (by decide +kernel)
example := C06_queues_no_orphan_resend c nc2 n0 startQ rfl rfl (by decide +kernel) netDropLater (by decide +kernel)

/-- one hop that cannot hold a full segment (0 < 42 < 43) -/
def ncSmall : QNCfg := { caps := [42] }

/-- one 3-byte write -/
def netSmall : List QNLbl := [nw [1, 2, 3] 1 0, nr]

/-- the start state with a window of ten segments -/
def n0w : NetSt := match n0.tcp? c.a with | some sa => n0.setTcp c.a { sa with cwnd := 30 } | none => n0

theorem startQw : TcpStartQ c n0w := by
  apply tcpStartQ_of_check
  · exact tcpStart_of_check _ _ (by decide) (by decide +kernel) (by decide +kernel)
  · decide +kernel
  · decide +kernel

def cNoRearm : TcpCfg := { c with tp := { rearmDrop := false } }

/-- hop 0 holds two full segments, hop 1 one -/
def nc3 : QNCfg := { caps := [86, 43] }

/-- segments 0..3 written; 0 in hop 1, 1 and 2 in hop 0; 1 is tail-dropped by hop 1 (callback:
    handed back), 3 joins 2 in hop 0; segment 0's ACK retransmits 1 into the full hop 0 -/
def netRearm : List QNLbl :=
  [nw [1, 2, 3, 4, 5, 6, 7, 8, 9, 10, 11, 12] 1 0, nd 0, nr, nr, nd 0, nr, nr,
   nd 1, na, nr, nr,
   nd 0, nd 1, na, nr, nd 0, nd 1, na, nr, .api (.readNb [100])]

end QEx

/-- **The capacity hypothesis is necessary**: a queue with 0 < capacity < one full segment
    (42 < 43) tail-drops the segment although it is EMPTY; all repairs in place; the system is
    quiescent with segment 0 waiting for retransmission forever, the 3 bytes a completed write
    reported never reach the reader. -/
theorem C06_queues_capacity_necessary :
    QEx.ncSmall.CapOk (mssOf TcpEx.c TcpEx.n0) = False
    ∧ QEx.nview TcpEx.c QEx.ncSmall TcpEx.n0 QEx.netSmall
      = { quiescent := true, open_ := true, hops := [[]], rev := [], drops := [(0, 0)], resend := [0], parked := false,
            rdPending := false, queued := 0, nextIn := 0, delivered := [],
            written := [1, 2, 3], accepted := [1, 2, 3] } := by
  refine ⟨eq_false (by decide +kernel), by decide +kernel⟩

/-- **Drop re-arming is necessary** (`rearmDrop := false`, capacities fine): the retransmitted
    segment 1 carries no drop callback; hop 0, full with segments 2 and 3, loses it silently
    (second entry of the drop log). Quiescent, nothing waits for retransmission, 12 bytes
    accepted — the reader got 3 and waits for segment 1 forever. -/
theorem C06_queues_rearm_necessary :
    QEx.nc3.CapOk (mssOf TcpEx.c QEx.n0w)
    ∧ QEx.nview QEx.cNoRearm QEx.nc3 QEx.n0w QEx.netRearm
      = { quiescent := true, open_ := true, hops := [[], []], rev := [], drops := [(1, 1), (0, 1)], resend := [], parked := false,
            rdPending := false, queued := 0, nextIn := 1, delivered := [1, 2, 3],
            written := [1, 2, 3, 4, 5, 6, 7, 8, 9, 10, 11, 12], accepted := [1, 2, 3, 4, 5, 6, 7, 8, 9, 10, 11, 12] } := by
  refine ⟨by decide +kernel, by decide +kernel⟩

/-- with re-arming the same history hands segment 1 back a second time (not quiescent:
    it has been retransmitted again and sits in hop 0) -/
example : QEx.nview TcpEx.c QEx.nc3 QEx.n0w QEx.netRearm
    = { quiescent := false, open_ := true, hops := [[1], []], rev := [3], drops := [(1, 1), (0, 1)], resend := [], parked := false,
            rdPending := false, queued := 0, nextIn := 1, delivered := [1, 2, 3],
            written := [1, 2, 3, 4, 5, 6, 7, 8, 9, 10, 11, 12], accepted := [1, 2, 3, 4, 5, 6, 7, 8, 9, 10, 11, 12] } := by
  decide +kernel

end SimVerif
