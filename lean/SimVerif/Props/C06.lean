/-
  C06 — TCP makes progress: written bytes arrive and pending reads complete.

  FULL STATEMENT (properties.jsonl): on an established connection whose two sockets stay open,
  every byte accepted by a write is eventually delivered to a reader that keeps reading, and
  the simulation never goes quiescent while (a) a read is pending although deliverable data
  is queued, (b) a writer is blocked although nothing is in flight, or (c) dropped segments
  wait unsent; with unbounded queues for any traffic, with finite tail-drop queues (each able
  to hold one full segment) when payload flows one direction at a time; connects to a
  listening acceptor with an accept outstanding complete.

  WHAT IS PROVED HERE (DESIGN.md §5 C06: liveness is NOT proved; proved are the
  quiescence-safety invariants of the mechanism model SimVerif/Tcp.lean, all repairs in place,
  `({} : TParams)`), over EVERY history of two open systems (SimVerif/TcpSys.lean):

    sender `TxS`   — labels write / deliver / ack / dropped / synack; the environment decides
                    which segment reaches the peer, which ACK comes back and when (or never),
                    and which segment a queue hands back, at label boundaries and
                    synchronously inside the segmentation and retransmission loops;
    receiver `RxS` — labels arrive (payload or error packet, ANY sequence number, any order,
                    duplicates allowed) / read / waitRead / readNb.

  None of the theorems about `TxS`/`RxS` needs the side conditions of the property text (queue
  capacities, one direction at a time, no foreign traffic, drops only by queues): they are
  invariants of the socket mechanism against an arbitrary network. The only side conditions
  are `RxS.okRun` (payload segments are non-empty — what `cutBuf` produces, lemma
  `Prog.cutBuf_nonempty` — and error packets do not carry the code `would_block`).

  Ghost state of `TxS`: `bag` = segments of the socket in the network (every packet it
  forwarded — first transmission or retransmission — that was neither delivered nor handed
  back), `acks` = sequence numbers delivered whose ACK has not arrived, `lost` = segments that
  vanished without notification (a hand-back of a packet that carries no drop callback).

  As-is witnesses (`C06_asis_*`): concrete runs of the same systems with ONE repair switched
  off, reproducing the stalls of the pinned tree (F8 reader, F8a writer, F9 in-flight leak,
  F10 lost callback).

  WHAT REMAINS UNPROVED for the full statement: see the comment at the end of the file.
-/
import SimVerif.Lemmas.TcpProgress
import SimVerif.Props.C10

namespace SimVerif
open Prog

/-! ### the initial state is what the handshake functions produce -/

/-- `a0.open; a0.bind :8000; a0.listen; a0.accept s1 h0; s0.connect 10.0.0.2:8000 h1`, then
    the SYN reaches the acceptor -/
def Prog.handshake (mss : Nat) : NetSt × List NEff :=
  let n : NetSt := { cfg := cfg0 mss, tcps := [("a0", { node := "n1", acc := some {} }), (sockB, { node := "n1" }),
                                               (sockA, { node := "n0" })] }
  let n := (n.tcpOpen 0 "a0" true).1
  let n := (n.tcpBind "a0" { addr := "0.0.0.0", port := 8000 }).1
  let n := (n.accListen "a0" (-1)).1
  let (n, e1) := n.accAsyncAccept 0 "a0" (.into 0 sockB false)
  let (n, e2) := n.tcpConnect 0 sockA epB 1
  let syn := (forwards e2).headD (ackPkt 0)
  let (n, e3) := n.accIncoming 0 "a0" { syn with hops := [] }
  (n, e1 ++ e2 ++ e3)

/-- the explicit initial state `net0` IS the state after the handshake functions ran … -/
example : (handshake 1475).1 = net0 1475 := by rfl
example : (handshake 10).1 = net0 10 := by rfl
/-- … which forwarded the SYN along `hops1`, the SYN-ACK along `hops0`, and completed the accept -/
example : (forwards (handshake 1475).2).map (fun p => (p.ty, p.hops, p.chan))
    = [(.syn, chan0.hops1.dropLast ++ ["@0"], some 0), (.synack, chan0.hops0, some 0)] := by decide
example : (handshake 1475).2.any (fun e => match e with | .post c => c.h == 0 && c.ec == .ok | _ => false) = true := by
  decide

/-! ### sender: the window never closes below one segment -/

/-- **Window floor.** `mss ≤ cwnd` at every label boundary (initially `cwnd = 2·mss`; a
    hand-back halves it but not below `mss`; ACKs only add), so a single segment always fits
    an empty window. (Stronger than `0 < mss → mss ≤ cwnd`.) Needs no side condition. -/
theorem C06_window_floor (mss : Nat) (ls : List TxLbl) :
    ∃ t, (TxS.run {} (TxS.init mss) ls).sock = some t ∧ t.mss = mss ∧ t.mss ≤ t.cwnd := by
  obtain ⟨t, hsv, _, hm⟩ := (SInv.init mss).run {} rfl rfl rfl ls
  exact ⟨t, hsv.est.sock, hm, hsv.core.floor⟩

/-! ### sender: the in-flight account -/

/-- **In-flight account.** At every label boundary:
    * `m_bytes_in_flight` is the sum of the recorded segment sizes, in particular ≥ 0;
    * the keys of `m_outstanding_packet_sizes` are distinct and are EXACTLY the sequence numbers
      of the segments in the network (`bag`) or delivered with the ACK still to come (`acks`),
      i.e. sent (or retransmitted) and neither ACKed nor handed back; every segment in the
      network is recorded with its own size;
    * a sequence number is in at most one place: network, ACK pending, or retransmission list;
    * no segment ever vanished unreported (`lost = []`).
    This is the invariant the pinned tree broke (`C06_asis_inflight_leaks`). -/
theorem C06_in_flight_account (mss : Nat) (ls : List TxLbl) :
    let s := TxS.run {} (TxS.init mss) ls
    ∃ t, s.sock = some t
      ∧ t.inFlight = sumSizes t.outstanding ∧ 0 ≤ t.inFlight
      ∧ (keys t.outstanding).Nodup
      ∧ (∀ k, k ∈ keys t.outstanding ↔ (k ∈ ids s.bag ∨ k ∈ s.acks))
      ∧ (∀ p, p ∈ s.bag → (p.id, p.payload.length) ∈ t.outstanding)
      ∧ (ids s.bag).Nodup ∧ s.acks.Nodup ∧ (ids t.resend).Nodup
      ∧ (∀ k, k ∈ ids s.bag → k ∉ s.acks)
      ∧ (∀ k, k ∈ ids t.resend → k ∉ ids s.bag ∧ k ∉ s.acks)
      ∧ s.lost = [] := by
  obtain ⟨t, hsv, _, _⟩ := (SInv.init mss).run {} rfl rfl rfl ls
  have c := hsv.core
  exact ⟨t, hsv.est.sock, c.acct, by rw [c.acct]; exact sumSizes_nonneg _, c.keysND, c.live, c.sized, c.bagND,
    c.acksND, c.resendND, c.disjBA, c.disjR, hsv.lost⟩

/-- nothing outstanding ⇒ nothing counted as in flight (corollary of the account) -/
theorem C06_idle_means_zero_in_flight (mss : Nat) (ls : List TxLbl) :
    let s := TxS.run {} (TxS.init mss) ls
    s.bag = [] → s.acks = [] → ∃ t, s.sock = some t ∧ t.outstanding = [] ∧ t.inFlight = 0 := by
  intro s hb ha
  obtain ⟨t, h1, h2, _, _, h5, _⟩ := C06_in_flight_account mss ls
  have ho : t.outstanding = [] := by
    cases hx : t.outstanding with
    | nil => rfl
    | cons e es =>
      have := (h5 e.1).mp (by rw [hx]; simp [keys])
      rw [show (TxS.run {} (TxS.init mss) ls).bag = [] from hb, show (TxS.run {} (TxS.init mss) ls).acks = [] from ha] at this
      simp [ids] at this
  exact ⟨t, h1, ho, by rw [h2, ho]; rfl⟩

def Prog.wr (h len off : Nat) : WriteOp := { h := h, bufs := [List.replicate len 0], stream := 3, off := off }

/-- what the witnesses look at: (write parked, bytes in flight, size table, retransmission
    list length), ids in the network, ACKs pending, ids lost -/
def Prog.sview (s : TxS) : (Bool × Int × List (Nat × Nat) × Nat) × List Nat × List Nat × List Nat :=
  (match s.sock with
   | some t => (t.sendH.isSome, t.inFlight, t.outstanding, t.resend.length)
   | none => (false, -1, [], 0),
   ids s.bag, s.acks, ids s.lost)

/-- two short segments, the first handed back once, retransmitted, everything ACKed -/
def Prog.histLeak : List TxLbl :=
  [.synack 0 [], .write 0 (wr 2 100 0) [], .write 0 (wr 3 100 100) [], .dropped 0,
   .deliver 1, .ack 0 1 [] [], .deliver 0, .ack 0 0 [] []]

/-- **As-is (F9, `releaseOnDrop := false`).** After one hand-back and ALL ACKs the network is
    empty, the size table is empty, nothing waits for retransmission — and 100 bytes are still
    counted as in flight, forever (every later window test is off by them). -/
theorem C06_asis_inflight_leaks :
    sview (TxS.run { releaseOnDrop := false } (TxS.init 1475) histLeak) = ((false, 100, [], 0), [], [], []) := by
  decide +kernel

/-- the same history with the repair: the account returns to zero -/
example : sview (TxS.run {} (TxS.init 1475) histLeak) = ((false, 0, [], 0), [], [], []) := by
  decide +kernel

/-! ### sender: a parked writer -/

/-- **Writer not stranded.** At every label boundary a parked write (`m_send_handler` set)
    means: the handshake is not finished, or the window is full, or segments wait for
    retransmission. Hence (with the floor and the account): a parked write on an established
    socket with an empty retransmission list has bytes in flight, and some segment of the
    connection is in the network or its ACK is still to come — the event that will run the
    ACK path (`C06_ack_wakes_writer`) or the hand-back path. No side condition. -/
theorem C06_writer_not_stranded (mss : Nat) (ls : List TxLbl) :
    let s := TxS.run {} (TxS.init mss) ls
    ∃ t, s.sock = some t
      ∧ (t.sendH.isSome = true →
            t.connectH.isSome = true ∨ t.inFlight + t.mss > t.cwnd ∨ t.resend ≠ [])
      ∧ (t.sendH.isSome = true → t.connectH = none → t.resend = [] →
            0 < t.inFlight ∧ ∃ k, k ∈ ids s.bag ∨ k ∈ s.acks) := by
  obtain ⟨t, hsv, hw, _⟩ := (SInv.init mss).run {} rfl rfl rfl ls
  refine ⟨t, hsv.est.sock, hw, ?_⟩
  intro h1 h2 h3
  have hfl := hsv.core.floor
  have hpos : 0 < t.inFlight := by
    rcases hw h1 with h | h | h
    · simp [h2] at h
    · omega
    · exact absurd h3 h
  refine ⟨hpos, ?_⟩
  cases hx : t.outstanding with
  | nil => have := hsv.core.acct; rw [hx] at this; simp [sumSizes] at this; omega
  | cons e es => exact ⟨e.1, (hsv.core.live e.1).mp (by rw [hx]; simp [keys])⟩

/-- **The ACK path wakes the writer** (the step that matters, `tcpAckPost` with
    `wakeWriterFixed`): after an ACK has been processed — retransmission loop, window growth,
    `maybe_wakeup_writer` — whatever the environment handed back meanwhile, a write is parked
    only if `write_some_impl` refused it again: window full (or handshake pending). If the
    window has room, the parked write HAS been re-run. -/
theorem C06_ack_wakes_writer (mss : Nat) (ls : List TxLbl) (now : Int) (k : Nat) (ds dw : List (List Nat))
    (hk : k ∈ (TxS.run {} (TxS.init mss) ls).acks) :
    ∃ t, (TxS.run {} (TxS.init mss) (ls ++ [.ack now k ds dw])).sock = some t
      ∧ (t.sendH.isSome = true → t.connectH.isSome = true ∨ t.inFlight + t.mss > t.cwnd) := by
  obtain ⟨t, hsv, _, _⟩ := (SInv.init mss).run {} rfl rfl rfl ls
  obtain ⟨t', a, b, _⟩ := step_ack {} rfl rfl rfl now k ds dw hsv hk
  refine ⟨t', ?_, b⟩
  simp only [TxS.run, List.foldl_append, List.foldl_cons, List.foldl_nil]
  exact a.est.sock

/-- … and so does a write call and the SYN-ACK: after every label except a hand-back the
    `resend ≠ []` disjunct is not needed. -/
theorem C06_write_parks_only_on_full_window (mss : Nat) (ls : List TxLbl) (now : Int) (op : WriteOp)
    (ds : List (List Nat)) :
    ∃ t, (TxS.run {} (TxS.init mss) (ls ++ [.write now op ds])).sock = some t
      ∧ (t.sendH.isSome = true → t.connectH.isSome = true ∨ t.inFlight + t.mss > t.cwnd) := by
  obtain ⟨t, hsv, _, _⟩ := (SInv.init mss).run {} rfl rfl rfl ls
  obtain ⟨t', a, b, _⟩ := step_write {} rfl rfl now op ds hsv
  refine ⟨t', ?_, b⟩
  simp only [TxS.run, List.foldl_append, List.foldl_cons, List.foldl_nil]
  exact a.est.sock

/-- shape of corpus/_defects/f8a_writer_not_woken.scn: the window is shrunk to one segment by
    a hand-back, then only short segments are ACKed while a write is parked -/
def Prog.histWriter : List TxLbl :=
  [.synack 0 [], .write 0 (wr 2 1475 0) [], .dropped 0, .write 0 (wr 3 100 1475) [], .write 0 (wr 4 100 1575) [],
   .deliver 1, .ack 0 1 [] [], .deliver 0, .ack 0 0 [] []]

/-- **As-is (F8a, `wakeWriterFixed := false`).** The write `h4` is parked (100 + 1475 > 1475);
    every ACK arrives while the window is still full BEFORE it, so `!was_blocked && writeable`
    is never true: at the end the write is parked, nothing is in flight, nothing waits for
    retransmission, the network is empty — no event is left that could run it. -/
theorem C06_asis_writer_missed :
    sview (TxS.run { wakeWriterFixed := false } (TxS.init 1475) histWriter) = ((true, 0, [], 0), [], [], []) := by
  decide +kernel

/-- the same history with the repair: the last ACK re-runs the write, its segment is out -/
example : sview (TxS.run {} (TxS.init 1475) histWriter) = ((false, 100, [(2, 100)], 0), [2], [], []) := by
  decide +kernel
example : ((TxS.run {} (TxS.init 1475) histWriter).posts.map (fun c => (c.h, c.ec)))
    = [(1, .ok), (2, .ok), (3, .ok), (4, .ok)] := by decide +kernel

/-- non-vacuity: in that history a write IS parked at a label boundary (window full), and the
    hypothesis of `C06_ack_wakes_writer` holds (ACK 1 pending) -/
example : sview (TxS.run {} (TxS.init 1475) (histWriter.take 6))
    = ((true, 100, [(1, 100)], 1), [], [1], []) := by decide +kernel
example := C06_ack_wakes_writer 1475 (histWriter.take 6) 0 1 [] [] (by decide +kernel)

/-! ### sender: retransmission -/

/-- **The retransmission loop stops only at a segment that does not fit** (no synchronous
    hand-backs, at least as many iterations as the list is long — what `.tcpResend` grants):
    from any reachable state, after the loop, the head of the list (if any) exceeds the
    window. -/
theorem C06_resend_loop_exit (mss : Nat) (ls : List TxLbl) (now : Int) (n : Nat) :
    let s := TxS.run {} (TxS.init mss) ls
    (∀ t, s.sock = some t → t.resend.length ≤ n) →
    ∃ t', (TxS.resendLoop {} now n [] s).sock = some t'
      ∧ ∀ p rest, t'.resend = p :: rest → t'.inFlight + p.payload.length > t'.cwnd := by
  intro s hn
  obtain ⟨t, hsv, _, _⟩ := (SInv.init mss).run {} rfl rfl rfl ls
  obtain ⟨t', a, _, c⟩ := resendLoop_sv {} rfl rfl now n [] hsv
  exact ⟨t', a.est.sock, c rfl (hn t hsv.est.sock)⟩

/-- **Resend drains.** After an ACK has been processed without synchronous hand-backs
    (`ds = dw = []`), segments still wait for retransmission only if bytes are in flight
    (the head did not fit: `inFlight + size > cwnd`, and `size ≤ mss ≤ cwnd`), i.e. another ACK
    or hand-back is still to come. The exact exit condition is `C06_resend_loop_exit`; with
    synchronous hand-backs during the loop the statement is false (the loop is bounded by the
    list length at entry, a segment handed back during the loop stays for the next ACK) —
    that residue is `C06_no_orphan_resend` (end of file). -/
theorem C06_resend_drains (mss : Nat) (hm : 0 < mss) (ls : List TxLbl) (now : Int) (k : Nat)
    (hk : k ∈ (TxS.run {} (TxS.init mss) ls).acks) :
    ∃ t, (TxS.run {} (TxS.init mss) (ls ++ [.ack now k [] []])).sock = some t
      ∧ (t.resend ≠ [] → 0 < t.inFlight) := by
  obtain ⟨t, hsv, _, hmss⟩ := (SInv.init mss).run {} rfl rfl rfl ls
  obtain ⟨t', a, _, _, _, e⟩ := step_ack {} rfl rfl rfl now k [] [] hsv hk
  refine ⟨t', ?_, e rfl rfl (by rw [hmss]; exact hm)⟩
  simp only [TxS.run, List.foldl_append, List.foldl_cons, List.foldl_nil]
  exact a.est.sock

/-- MSS 10; the window grown to 32 by three ACKs, three segments out (3, 4, 5), two of them
    handed back (window 10 again), then the ACK of the third: one retransmission fits, the
    other stays -/
def Prog.histDrain : List TxLbl :=
  [.synack 0 [], .write 0 (wr 2 20 0) [], .deliver 0, .ack 0 0 [] [], .deliver 1, .ack 0 1 [] [],
   .write 0 (wr 3 30 20) [], .deliver 2, .ack 0 2 [] [], .write 0 (wr 4 30 40) [],
   .dropped 4, .dropped 5, .deliver 3]

/-- non-vacuity of `C06_resend_drains`: ACK 3 is pending; after it one segment still waits for
    retransmission while the retransmitted one (10 bytes) is in flight -/
example : sview (TxS.run {} (TxS.init 10) histDrain) = ((false, 10, [(3, 10)], 2), [], [3], []) := by
  decide +kernel
example : sview (TxS.run {} (TxS.init 10) (histDrain ++ [.ack 0 3 [] []]))
    = ((false, 10, [(4, 10)], 1), [4], [], []) := by decide +kernel
example := C06_resend_drains 10 (by decide) histDrain 0 3 (by decide +kernel)

/-- **A retransmission keeps its drop callback.** At every label boundary every segment in the
    network and every segment waiting for retransmission carries a drop callback bound to the
    socket's own (attached) forwarder, retransmitted ones included (`rearmDrop`) — so a second
    hand-back is reported like the first, and no segment is ever lost unreported. Segments are
    at most one MSS long. No side condition. -/
theorem C06_retransmission_keeps_callback (mss : Nat) (ls : List TxLbl) :
    let s := TxS.run {} (TxS.init mss) ls
    ∃ t f, s.sock = some t ∧ t.fwd = some f ∧ s.net.fwdTarget f = some sockA
      ∧ (∀ p, (p ∈ s.bag ∨ p ∈ t.resend) → p.hasDrop = true ∧ p.dropFwd = some f)
      ∧ (∀ p, (p ∈ s.bag ∨ p ∈ t.resend) → 0 < mss → p.payload.length ≤ mss)
      ∧ s.lost = [] := by
  obtain ⟨t, hsv, _, hmss⟩ := (SInv.init mss).run {} rfl rfl rfl ls
  obtain ⟨f, hf1, hf2⟩ := hsv.est.fwdOk
  refine ⟨t, f, hsv.est.sock, hf1, hf2, ?_, ?_, hsv.lost⟩
  · intro p hp; rw [← hf1]; exact hsv.core.cb p hp
  · intro p hp; rw [← hmss]; exact hsv.core.segLen p hp

/-- two full segments; the first is handed back, retransmitted by the ACK of the second, and
    handed back again -/
def Prog.histRearm : List TxLbl :=
  [.synack 0 [], .write 0 (wr 2 1475 0) [], .write 0 (wr 3 1475 1475) [], .dropped 0,
   .deliver 1, .ack 0 1 [] [], .dropped 0]

/-- **As-is (F10, `rearmDrop := false`).** The retransmitted segment 0 carries no callback: its
    second loss is not reported. The network is empty, the retransmission list is empty, and
    1475 bytes stay in flight waiting for an ACK that cannot come. -/
theorem C06_asis_retransmission_unreported :
    sview (TxS.run { rearmDrop := false } (TxS.init 1475) histRearm) = ((false, 1475, [(0, 1475)], 0), [], [], [0]) := by
  decide +kernel

/-- with the repair the second hand-back is reported: the segment waits for retransmission,
    its bytes are released -/
example : sview (TxS.run {} (TxS.init 1475) histRearm) = ((false, 0, [], 1), [], [], []) := by
  decide +kernel

/-! ### receiver: a pending read -/

/-- **Reader not stranded.** At every label boundary of the receiver system: while a read or
    a wait-for-read is pending the incoming queue is empty — a read is never left pending
    while deliverable data, or an error / end-of-stream packet, is queued. (The handshake is
    over on this side: `connectH = none` throughout.) Arrivals are arbitrary: any sequence
    numbers, any order, duplicates; the only side condition is `RxS.okRun` (payload segments
    non-empty, error packets not `would_block`). -/
theorem C06_reader_not_stranded (mss : Nat) (ls : List RxLbl) (hl : RxS.okRun ls) :
    ∃ t, (RxS.run {} (RxS.init mss) ls).sock = some t ∧ t.connectH = none
      ∧ ((t.recvH.isSome = true ∨ t.waitRecvH.isSome = true) → t.inq = []) := by
  obtain ⟨t, h1, h2⟩ := (RInv.init mss).run {} rfl ls hl
  exact ⟨t, h1, h2.conn, h2.pend⟩

def Prog.seg (id : Nat) (b : UInt8) : Pkt := { id := id, ty := .payload, len := 1, ovh := 40, payload := [b] }

/-- a read is pending; segment 1 overtakes segment 0 (a retransmission); segment 0 arrives and
    releases both at once -/
def Prog.histReader : List RxLbl := [.read { h := 5, caps := [100] }, .arrive 0 (seg 1 7), .arrive 1 (seg 0 6)]

example : RxS.okRun histReader := by decide

def Prog.rview (s : RxS) : Option (Bool × Nat) × List (Nat × Ec × String) :=
  (s.sock.map (fun t => (t.recvH.isSome, t.inq.length)), s.posts.map (fun c => (c.h, c.ec, c.extra)))

/-- **As-is (F8, `wakeReaderFixed := false`).** `maybe_wakeup_reader` looks for a queue length
    of exactly 1; the reorder buffer released two segments together: the read stays pending
    with two segments queued. -/
theorem C06_asis_reader_stranded :
    rview (RxS.run { wakeReaderFixed := false } (RxS.init 1475) histReader) = (some (true, 2), []) := by
  decide +kernel

/-- with the repair the read completes with both bytes -/
example : rview (RxS.run {} (RxS.init 1475) histReader) = (some (false, 0), [(5, .ok, "n=2 data=0607")]) := by
  decide +kernel

/-! ### the handshake completes -/

/-- **Connect completes, acceptor side (SYN arrives while an accept is outstanding).** An open
    acceptor with `acceptOp = some op` and nothing queued receives the SYN of channel `c`
    (the socket the accept hands the connection to exists and is not attached to a channel —
    `async_accept` closed it): exactly ONE packet is forwarded, the SYN-ACK for `c` along
    `hops0` (the route back to the connector), and the accept completion is posted with `ok`. -/
theorem C06_connect_completes_syn (n : NetSt) (now : Int) (a : String) (s : TcpSock) (ac : AccState)
    (op : AcceptOp) (c : Nat) (ch : Chan) (p0 : TcpSock) (p : Pkt)
    (hs : n.tcp? a = some s) (hopen : s.isOpen = true) (hacc : s.acc = some ac)
    (hop : ac.acceptOp = some op) (hconns : ac.conns = []) (hch : n.chan? c = some ch)
    (hne : peerOf op ≠ a) (hpeer : n.tcp? (peerOf op) = some p0) (hpc : p0.chan = none)
    (hty : p.ty = .syn) (hpch : p.chan = some c) :
    forwards (n.accIncoming now a p).2 = [synAckFor c ch s.bound]
    ∧ acceptDone op ch.vis0 ∈ (n.accIncoming now a p).2 :=
  accIncoming_syn n now a s ac op c ch p0 p hs hopen hacc hop hconns hch hne hpeer hpc hty hpch

/-- **Connect completes, acceptor side (SYN queued when the accept is issued).** -/
theorem C06_connect_completes_queued (n : NetSt) (now : Int) (a : String) (s : TcpSock) (ac : AccState)
    (h : Nat) (peer : String) (withEp : Bool) (c : Nat) (rest : List Nat) (ch : Chan) (p0 : TcpSock)
    (hs : n.tcp? a = some s) (hopen : s.isOpen = true) (hacc : s.acc = some ac)
    (hop : ac.acceptOp = none) (hconns : ac.conns = c :: rest) (hch : n.chan? c = some ch)
    (hne : peer ≠ a) (hpeer : n.tcp? peer = some p0) (hpo : p0.isOpen = false) (hpc : p0.chan = none) :
    forwards (n.accAsyncAccept now a (.into h peer withEp)).2 = [synAckFor c ch s.bound]
    ∧ acceptDone (.into h peer withEp) ch.vis0 ∈ (n.accAsyncAccept now a (.into h peer withEp)).2 :=
  accAsyncAccept_queued n now a s ac h peer withEp c rest ch p0 hs hopen hacc hop hconns hch hne hpeer hpo hpc

/-- **… the mechanism underneath both** (`check_accept_queue` on an open acceptor with an accept
    outstanding and a SYN queued), which also takes the accept and the SYN out of the acceptor. -/
theorem C06_connect_completes_check_queue (n : NetSt) (now : Int) (a : String) (s : TcpSock) (ac : AccState)
    (op : AcceptOp) (c : Nat) (rest : List Nat) (ch : Chan) (p0 : TcpSock)
    (hs : n.tcp? a = some s) (hopen : s.isOpen = true) (hacc : s.acc = some ac)
    (hop : ac.acceptOp = some op) (hconns : ac.conns = c :: rest) (hch : n.chan? c = some ch)
    (hne : peerOf op ≠ a) (hpeer : n.tcp? (peerOf op) = some p0) (hpc : p0.chan = none) :
    forwards (n.accCheckQueue now a).2 = [synAckFor c ch s.bound]
    ∧ acceptDone op ch.vis0 ∈ (n.accCheckQueue now a).2
    ∧ ∃ s', (n.accCheckQueue now a).1.tcp? a = some s'
        ∧ s'.acc = some { ac with conns := rest, acceptOp := none } :=
  accCheckQueue_accepts n now a s ac op c rest ch p0 hs hopen hacc hop hconns hch hne hpeer hpc

/-- **Connect completes, connector side.** A socket with `connectH = some h` that receives the
    SYN-ACK posts `h` with `ok`, clears the handler and runs `maybe_wakeup_writer`. -/
theorem C06_connect_completes_synack (tp : TParams) (n : NetSt) (now : Int) (name : String) (t : TcpSock)
    (h : Nat) (p : Pkt) (hs : n.tcp? name = some t) (hc : t.connectH = some h) (hty : p.ty = .synack) :
    n.tcpIncoming tp now name p
      = (n.setTcp name { t with connectH := none }, [NEff.post { h := h, ec := .ok }, .tcpWake name]) :=
  tcpIncoming_synack tp n now name t h p hs hc hty

/-- non-vacuity of the acceptor-side theorems on the handshake's own states: the state after
    listen + accept + connect (SYN on its way), and the state after listen + connect + SYN
    arrival without an accept (SYN queued) -/
def Prog.preSyn : NetSt :=
  let n : NetSt := { cfg := cfg0 1475, tcps := [("a0", { node := "n1", acc := some {} }), (sockB, { node := "n1" }),
                                                (sockA, { node := "n0" })] }
  let n := (n.tcpOpen 0 "a0" true).1
  let n := (n.tcpBind "a0" { addr := "0.0.0.0", port := 8000 }).1
  let n := (n.accListen "a0" (-1)).1
  let n := (n.accAsyncAccept 0 "a0" (.into 0 sockB false)).1
  (n.tcpConnect 0 sockA epB 1).1

def Prog.synPkt : Pkt := { id := 0, ty := .syn, len := 0, ovh := 28, src := "10.0.0.1:2000", chan := some 0 }

example := C06_connect_completes_syn preSyn 0 "a0"
  { node := "n1", isOpen := true, bound := epB, fwd := some 0, acc := some { queueLimit := 20, acceptOp := some (.into 0 sockB false) } }
  { queueLimit := 20, acceptOp := some (.into 0 sockB false) } (.into 0 sockB false) 0
  { chan0 with hops1 := ["qo0", "net", "qi1", "@0"] } { node := "n1" } synPkt
  (by rfl) rfl rfl rfl rfl (by rfl) (by decide) (by rfl) rfl rfl rfl

def Prog.preAccept : NetSt :=
  let n : NetSt := { cfg := cfg0 1475, tcps := [("a0", { node := "n1", acc := some {} }), (sockB, { node := "n1" }),
                                                (sockA, { node := "n0" })] }
  let n := (n.tcpOpen 0 "a0" true).1
  let n := (n.tcpBind "a0" { addr := "0.0.0.0", port := 8000 }).1
  let n := (n.accListen "a0" (-1)).1
  let n := (n.tcpConnect 0 sockA epB 1).1
  (n.accIncoming 0 "a0" synPkt).1

example := C06_connect_completes_queued preAccept 0 "a0"
  { node := "n1", isOpen := true, bound := epB, fwd := some 0, acc := some { queueLimit := 20, conns := [0] } }
  { queueLimit := 20, conns := [0] } 0 sockB false 0 []
  { chan0 with hops1 := ["qo0", "net", "qi1", "@0"] } { node := "n1" }
  (by rfl) rfl rfl rfl rfl (by rfl) (by decide) (by rfl) rfl rfl

/-- … in the open system: after the `synack` label the connect handler of the initial state has
    been completed with `ok`, and the socket is established -/
example : ((TxS.step {} (TxS.init 1475) (.synack 0 [])).posts, (TxS.step {} (TxS.init 1475) (.synack 0 [])).sock.map (·.connectH))
    = ([{ h := 1, ec := .ok }], some none) := by decide +kernel

/-! ### the queue lemma behind `C06_no_orphan_resend` -/

/-- **A tail-drop of a packet that would fit an empty queue means the queue is not empty**
    (any well-timed history of a queue, C10's account invariant): if `p` is tail-dropped —
    `cap < held + size` — although `size ≤ cap`, then `held > 0`, so a packet is queued. Under
    the property's side conditions (capacity ≥ one full segment incl. overhead; one direction
    at a time; no foreign traffic) that packet is another segment of the same connection and
    direction: whenever a segment is handed back, another one is still on its way, whose ACK
    (or hand-back) will run the sender again. -/
theorem C06_tail_drop_queue_nonempty (c : QCfg) (hc : c.WF) (ls : List QLbl) (h : QS.okRun c {} ls) (p : Pkt)
    (hd : TailDrop c (QS.run c {} ls).q.held p) (hfit : p.size ≤ c.cap) :
    (QS.run c {} ls).q.items ≠ [] := by
  intro he
  have hacc := C10_account c hc ls h
  rw [he] at hacc
  simp only [List.map_nil, List.sum_nil] at hacc
  have := hd.2.2
  rw [hacc] at this
  omega

/-
  WHAT REMAINS UNPROVED for the full statement of C06.

  1. Liveness proper ("eventually delivered", under fair timing) — not attempted (DESIGN §5).

  2. `C06_no_orphan_resend`: at quiescence `resend ≠ [] → something of the connection is still
     in the network`. The socket-level invariants above give, unconditionally:
       * after every ACK processed without synchronous hand-backs: `resend ≠ [] → 0 < inFlight`
         (`C06_resend_drains`), and `0 < inFlight → some segment is in `bag` or its ACK in
         `acks`` (`C06_in_flight_account`);
       * a parked writer with `resend = []` has `0 < inFlight` (`C06_writer_not_stranded`).
     What is missing is the state right after a hand-back (`dropped`, or a hand-back inside a
     loop): there `resend ≠ []` holds with possibly `inFlight = 0` (the only outstanding segment
     was handed back), and `packet_dropped` neither retransmits nor wakes the writer. The
     mechanism does NOT exclude this; the property text excludes it by its side conditions,
     through the network: a hand-back is a tail-drop by a queue of capacity ≥ one segment,
     hence (`C06_tail_drop_queue_nonempty`) another packet is in that queue — with one
     direction at a time and no foreign traffic, a segment of this connection, still in `bag`.
     Formalising this needs the COMPOSED system (sender + the route's queues from
     SimVerif/QueueSys.lean instead of the free `bag`), with the composed invariant
     "every hand-back label is justified by a `TailDrop` of a queue on `hops`, whose items are
     segments of `bag`". That composition is not done here.
     (Against an arbitrary network the statement is false: `histRearm.take 4` followed by
     nothing — one segment out, handed back, nothing else in flight — strands the retransmission.)

  3. `C06_quiescent_complete` (delivered = written at quiescence) needs C05's payload identity on
     top of the above; the bags here carry sizes and sequence numbers only.
-/

end SimVerif
