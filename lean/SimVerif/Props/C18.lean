/-
  SimVerif.Props.C18 — the HTTP test proxy `sim::http_proxy` forwards absolute-URI requests and
  relays replies verbatim.

  Mechanism model: SimVerif/HttpProxy.lean (one function per callback of src/http_proxy.cpp, over
  checked memory; the tree these theorems are about is the REPAIRED one: bracket rule F26a,
  `m_connecting` F26b, session numbers F26c/d/f/g, full-buffer test F26e).
  Open system: SimVerif/HttpProxySys.lean — the environment (two reliable byte streams, resolver,
  acceptor) chooses every completion: any cut of the client's bytes into read completions, any
  cut of the origin's bytes, any partial acceptance of writes, any lookup / connect outcome,
  errors and `stop()` at any moment. `PS.ok` is what asio guarantees (a completion belongs to an
  outstanding operation; a read delivers 1..cap bytes; a write is accepted for a prefix).

  All theorems quantify over EVERY well-behaved event sequence from the constructor (`Reach`).
-/
import SimVerif.Lemmas.ProxyInv
import SimVerif.Lemmas.ProxyRewrite
import SimVerif.Props.C15

namespace SimVerif.HttpProxy

open SimVerif.Http

/-- the states the proxy can be in: after any sequence of events the environment may deliver -/
def Reach (lit : Bytes → Option Bool) (port : Nat) (s : PS) : Prop :=
  ∃ es, PS.okRun lit (PS.init port) es ∧ s = (PS.init port).run lit es

theorem C18_invariant (lit : Bytes → Option Bool) (port : Nat) (s : PS) (h : Reach lit port s) : PSInv s := by
  obtain ⟨es, hok, rfl⟩ := h
  exact PSInv_run lit es _ (PSInv_init port) hok

/-- MEMORY SAFETY of the model: under a well-behaved environment no callback ever accesses one of
    the three 64 kB arrays out of bounds, calls `memmove` with a wrapped-around size, or lets the
    byte counts leave `[0, 65536]`. (On the pinned tree this fails: `C18_pinned_*` in the header
    of DESIGN §6 F26d — a write completion delivered after `close_connection()`.) -/
theorem C18_no_ub (lit : Bytes → Option Bool) (port : Nat) (s : PS) (h : Reach lit port s) :
    s.ub = false ∧ s.p.nCin ≤ BUF ∧ s.p.nSout ≤ BUF :=
  let i := C18_invariant lit port s h
  ⟨i.no_ub, i.nCin_le, i.nSout_le⟩

/-! ### C18_rewrite: `forward_request` as a pure function -/

/-- For every absolute target `http://host[:port][/path]` with a well-formed authority — host
    non-empty, without '/', and either without ':' (IPv4 literal, name) or ending in ']' (bracketed
    IPv6 literal, with or without port); port = decimal digits < 65536; path empty or starting
    with '/' — `forward_request` dials `(host without its brackets, explicit port or 80)` and queues
    LITERALLY: `METHOD SP path-or-"/" SP "HTTP/1.1" CRLF`, then every parsed header as
    `name ": " value CRLF` in `std::map` order (names lower-cased, values trimmed, duplicates merged
    by the parser: `hs` is the parser's map), then `"host: " host CRLF` iff the map has no `host`
    key, then `CRLF`. -/
theorem C18_rewrite (m path' : Bytes) (t : Target) (hs : HMap) (h : t.wf) :
    rewrite { method := m, req := t.render, path := path', headers := hs } = .ok (expectedRewrite m t hs) :=
  rewrite_wf m path' t hs h

/-- The same from the bytes on the wire: a well-formed request line + headers (C15's `WellFormed`)
    whose target is such a URI parses (C15_roundtrip) and is rewritten as stated. -/
theorem C18_rewrite_wire (r : RawRequest) (t : Target) (hw : WellFormed r) (ht : t.wf) (htar : r.target = t.render) :
    parseRequest (render r) (render r).length = .ok (canon r) ∧
    rewrite (canon r) = .ok (expectedRewrite r.method t (canonHeaders r.headers)) := by
  refine ⟨C15_roundtrip r hw, ?_⟩
  have := rewrite_wf r.method (canonPath r.method r.target) t (canonHeaders r.headers) ht
  simpa [canon, htar] using this

/-- anything whose first seven bytes are not `http://` (relative URI, `https://`, `CONNECT host:port`, …)
    and anything whose port (`reqPort`: `atoi` of what follows the authority's last ':') does not fit
    16 bits makes `forward_request` throw — and nothing else does (the other throw is the full queue) -/
theorem C18_rewrite_rejects_iff (r : Request) :
    rewrite r = .error () ↔ (r.req.take 7 ≠ HTTP_PFX ∨ reqPort r.req < 0 ∨ reqPort r.req > 65535) := by
  unfold rewrite
  split
  · simp_all
  · dsimp only
    split <;> simp_all

/-- a request that `forward_request` accepts names a port that fits 16 bits … -/
theorem C18_rewrite_port_range (r : Request) (rw : Rewritten) (h : rewrite r = .ok rw) :
    rw.port = reqPort r.req ∧ 0 ≤ rw.port ∧ rw.port ≤ 65535 := by
  unfold rewrite at h
  split at h
  · cases h
  · dsimp only at h
    split at h
    · cases h
    · rename_i hp
      injection h with h
      subst h
      dsimp only
      omega

/-- … so that the `static_cast<unsigned short>` at the dialling site changes nothing -/
theorem toU16_of_range (v : Int) (h0 : 0 ≤ v) (h1 : v ≤ 65535) : toU16 v = v.toNat := by
  unfold toU16
  rw [Int.emod_eq_of_lt h0 (by omega)]

/-- As-is witness (before 99bb698 nothing tested the range; the port was only cut to 16 bits when
    dialling): `http://host:73616/` dialled port 8080 = 73616 mod 65536. -/
theorem C18_asis_port_wraps : toU16 (atoi [55, 51, 54, 49, 54]) = 8080 := by decide

/-! ### C18_relay_verbatim -/

/-- Whatever the environment does: the bytes handed to the client connection (in order, by the
    composed writes of the relay loop) are exactly the bytes read from the origin connection, in
    order — for EVERY cut of the origin's byte stream into read completions. -/
theorem C18_relay_verbatim (lit : Bytes → Option Bool) (port : Nat) (s : PS) (h : Reach lit port s) :
    s.toClient = s.fromOrigin :=
  (C18_invariant lit port s h).relay

/-- the relay loop as a state machine over chunk lists: one read completion per chunk, each
    followed by the completion of the composed write -/
def relayEvents (cs : List Bytes) : List Ev := cs.flatMap (fun c => [Ev.serverData c, Ev.clientWritten .ok])

/-- From any state of the invariant in which the origin read is outstanding, feeding the chunks
    `cs` (each 1..65536 bytes) makes the proxy write exactly `cs.flatten` to the client, in order,
    and leaves the origin read outstanding again: the relayed stream does not depend on the
    segmentation (`C18_relay_segmentation_independent`). -/
theorem C18_relay_chunks (lit : Bytes → Option Bool) : ∀ (cs : List Bytes) (s : PS), PSInv s →
    s.serverRead = some s.p.session → (∀ c ∈ cs, 0 < c.length ∧ c.length ≤ BUF) →
    let s' := s.run lit (relayEvents cs)
    s'.toClient = s.toClient ++ cs.flatten ∧ s'.serverRead = some s'.p.session ∧ s'.p.session = s.p.session ∧
      s'.sessions = s.sessions ∧ PSInv s' ∧ PS.okRun lit s (relayEvents cs) := by
  intro cs
  induction cs with
  | nil => intro s h hsr _; simp [relayEvents, PS.run, PS.okRun, hsr, h]
  | cons c rest ih =>
    intro s h hsr hcs
    have hc := hcs c (by simp)
    have hok1 : s.ok (.serverData c) := ⟨by simp [hsr], hc.1, hc.2⟩
    have h1 := PSInv_serverData lit s h c hok1
    -- one chunk: the read completes, the proxy writes the chunk to the client …
    have e1 : s.step lit (.serverData c) =
        { s with p := { s.p with inb := written s.p.inb 0 c }, serverRead := none, fromOrigin := s.fromOrigin ++ c,
                 clientWrite := some (.forward, s.p.session), toClient := s.toClient ++ c } := by
      simp only [PS.step, hsr, onServerReceive]
      rw [memWrite_ok _ _ _ (by simpa using hc.2)]
      simp only [stale_false _ _ (by decide : Ec.ok ≠ Ec.aborted), Bool.false_eq_true, if_false, ne_eq, not_true_eq_false]
      rw [memRead_zero _ _ hc.2, view_written_zero]
      simp [PS.apply, PS.act]
    -- … and when that write is done, reads again
    have e2 : (s.step lit (.serverData c)).step lit (.clientWritten .ok) =
        { s with p := { s.p with inb := written s.p.inb 0 c }, serverRead := some s.p.session, fromOrigin := s.fromOrigin ++ c,
                 clientWrite := none, toClient := s.toClient ++ c } := by
      rw [e1]
      simp [PS.step, onServerForward, stale, PS.apply, PS.act]
    have hok2 : (s.step lit (.serverData c)).ok (.clientWritten .ok) := by
      rw [e1]; exact ⟨⟨_, rfl⟩, by decide⟩
    have h2 := PSInv_clientWritten lit _ h1 .ok hok2
    have := ih _ h2 (by rw [e2]) (fun c' hc' => hcs c' (by simp [hc']))
    simp only [relayEvents, List.flatMap_cons, PS.run, List.foldl_cons, List.cons_append, List.nil_append,
      PS.okRun, List.flatten_cons] at this ⊢
    obtain ⟨a1, a2, a3, a4, a5, a6⟩ := this
    refine ⟨?_, a2, ?_, ?_, a5, hok1, hok2, a6⟩
    · rw [a1, e2]; simp
    · rw [a3, e2]
    · rw [a4, e2]

theorem C18_relay_segmentation_independent (lit : Bytes → Option Bool) (cs cs' : List Bytes) (s : PS) (h : PSInv s)
    (hsr : s.serverRead = some s.p.session) (h1 : ∀ c ∈ cs, 0 < c.length ∧ c.length ≤ BUF)
    (h2 : ∀ c ∈ cs', 0 < c.length ∧ c.length ≤ BUF) (heq : cs.flatten = cs'.flatten) :
    (s.run lit (relayEvents cs)).toClient = (s.run lit (relayEvents cs')).toClient := by
  rw [(C18_relay_chunks lit cs s h hsr h1).1, (C18_relay_chunks lit cs' s h hsr h2).1, heq]

/-! ### C18_pipelined_same_origin_order -/

/-- Whatever the environment does (any cut of the client's bytes, any interleaving with lookup,
    connect, partial writes, relay): with `B` = the bytes read from the client in this session,
    `scan B` = the requests cut off its front (each ends at the first CRLF CRLF) and rewritten, the
    bytes the origin connection has accepted, followed by what is still queued in
    `m_server_out_buffer`, are EXACTLY the rewritten requests in the order they were received
    (`outs`), and the unparsed rest of `B` is what `m_client_in_buffer` holds. `scan` is a function
    of `B` alone: the cut does not matter. -/
theorem C18_pipelined_same_origin_order (lit : Bytes → Option Bool) (port : Nat) (s : PS) (h : Reach lit port s) :
    ∃ l, scan (s.fromClient.length + 1) s.fromClient = (l, some (view s.p.cin s.p.nCin)) ∧
         s.toOrigin ++ view s.p.sout s.p.nSout = outs l := by
  have i := C18_invariant lit port s h
  obtain ⟨l, h1, h2⟩ := i.scanned
  exact ⟨l, h1, by rw [i.fifo, h2]⟩

/-- in particular the origin never receives anything but a prefix of the rewritten requests, and
    once the queue has drained (`m_num_server_out_bytes = 0`) it has received all of them -/
theorem C18_origin_prefix (lit : Bytes → Option Bool) (port : Nat) (s : PS) (h : Reach lit port s) :
    ∃ rest, s.toOrigin ++ rest = outs (scan (s.fromClient.length + 1) s.fromClient).1 ∧
      (s.p.nSout = 0 → rest = []) := by
  obtain ⟨l, h1, h2⟩ := C18_pipelined_same_origin_order lit port s h
  refine ⟨view s.p.sout s.p.nSout, by rw [h1]; exact h2, ?_⟩
  intro h0; rw [h0]; simp

/-- the buffer given to an outstanding `async_write_some` is the head of the queue -/
theorem C18_write_is_queue_head (lit : Bytes → Option Bool) (port : Nat) (s : PS) (h : Reach lit port s) (w : Bytes) (ses : Nat)
    (hw : s.serverWrite = some (w, ses)) : w = (view s.p.sout s.p.nSout).take w.length ∧ ses = s.p.session :=
  let i := C18_invariant lit port s h
  ⟨(i.write_buf w ses hw).2.2, i.ses_sw w ses hw⟩

/-- SEGMENTATION INDEPENDENCE on the request side: two histories in which the client sent the same
    bytes (cut differently, interleaved differently with everything else) have queued the same
    bytes for the origin. -/
theorem C18_segmentation_independent (lit : Bytes → Option Bool) (port : Nat) (s s' : PS)
    (h : Reach lit port s) (h' : Reach lit port s') (heq : s.fromClient = s'.fromClient) :
    s.toOrigin ++ view s.p.sout s.p.nSout = s'.toOrigin ++ view s'.p.sout s'.p.nSout ∧
    view s.p.cin s.p.nCin = view s'.p.cin s'.p.nCin := by
  obtain ⟨l, h1, h2⟩ := C18_pipelined_same_origin_order lit port s h
  obtain ⟨l', h1', h2'⟩ := C18_pipelined_same_origin_order lit port s' h'
  rw [heq, h1'] at h1
  simp only [Prod.mk.injEq, Option.some.injEq] at h1
  obtain ⟨rfl, ht⟩ := h1
  exact ⟨by rw [h2, h2'], ht.symm⟩

/-! ### C18_503_on_failure -/

/-- the response bytes, literally -/
theorem C18_503_bytes :
    resp503Lookup = [72, 84, 84, 80, 47, 49, 46, 49, 32, 53, 48, 51, 32] ++ MSG_RESOURCE ++ [13, 10] ++ CONTENT_LENGTH_0 ++ [13, 10, 13, 10] ∧
    resp503Connect = [72, 84, 84, 80, 47, 49, 46, 49, 32, 53, 48, 51, 32] ++ MSG_SERVICE ++ [13, 10] ++ CONTENT_LENGTH_0 ++ [13, 10, 13, 10] := by
  decide

/-- unresolvable host (lookup error, or no address): exactly the 503 bytes are handed to the client
    connection, nothing is relayed, no connect is started -/
theorem C18_503_on_lookup_failure (lit : Bytes → Option Bool) (s : PS) (h : PSInv s) (ec : Ec)
    (ips : List (Bytes × Nat × Bool)) (hok : s.ok (.lookup ec ips)) (hfail : ec ≠ .ok ∨ ips = []) :
    let s' := s.step lit (.lookup ec ips)
    s'.errResp = s.errResp ++ [resp503Lookup] ∧ s'.clientWrite = some (.closeConn, s.p.session) ∧
      s'.toClient = s.toClient ∧ s'.connectingOp = s.connectingOp ∧ s'.sessions = s.sessions := by
  obtain ⟨hsome, hna⟩ := hok
  match hr : s.resolving with
  | none => simp [hr] at hsome
  | some ses =>
    obtain rfl := h.ses_res ses hr
    simp only [PS.step, hr, onDomainLookup, stale_false _ _ hna, Bool.false_eq_true, if_false]
    match ips with
    | [] =>
      simp only []
      rw [error_eq _ _ _ resp503Lookup_len]
      simp [PS.apply, PS.act, resp503Lookup]
    | (a, port, v4) :: rest =>
      have hec : ec ≠ .ok := by rcases hfail with h | h; exact h; cases h
      simp only [ne_eq, hec, not_false_eq_true, if_true]
      rw [error_eq _ _ _ resp503Lookup_len]
      simp [PS.apply, PS.act, resp503Lookup]

/-- refused / failed connect: the origin socket is closed and exactly the 503 bytes are handed to the
    client connection -/
theorem C18_503_on_connect_failure (lit : Bytes → Option Bool) (s : PS) (h : PSInv s) (ec : Ec)
    (hok : s.ok (.connected ec)) (hfail : ec ≠ .ok) :
    let s' := s.step lit (.connected ec)
    s'.errResp = s.errResp ++ [resp503Connect] ∧ s'.clientWrite = some (.closeConn, s.p.session) ∧
      s'.toClient = s.toClient ∧ s'.serverRead = none ∧ s'.serverWrite = none ∧ s'.p.srvOpen = false ∧
      s'.sessions = s.sessions := by
  obtain ⟨hsome, hna⟩ := hok
  match hr : s.connectingOp with
  | none => simp [hr] at hsome
  | some ses =>
    obtain rfl := h.ses_conn ses hr
    simp only [PS.step, hr, onConnected, stale_false _ _ hna, Bool.false_eq_true, if_false, ne_eq, hfail,
      not_false_eq_true, if_true]
    rw [error_eq _ _ _ resp503Connect_len]
    simp [PS.apply, PS.act, resp503Connect]

/-- … and when that write has completed (or failed), the client connection is closed, and the next
    client is accepted unless `stop()` was called -/
theorem C18_503_then_close (lit : Bytes → Option Bool) (s : PS) (h : PSInv s) (ec : Ec) (hok : s.ok (.errWritten ec)) :
    let s' := s.step lit (.errWritten ec)
    s'.sessions = s.sessions + 1 ∧ s'.clientRead = none ∧ s'.accepting = (if s.p.close = true then s.accepting else true) := by
  obtain ⟨⟨ses, hr⟩, hna⟩ := hok
  obtain rfl := h.ses_cw _ ses hr
  simp only [PS.step, hr, onErrorWritten, stale_false _ _ hna, Bool.false_eq_true, if_false]
  exact closeConnection_sessions _ _

/-- C18_503_on_failure, in one statement: whichever way the origin turns out to be unreachable —
    the lookup fails or yields no address, or the connect fails — the next thing handed to the client
    connection is the 503 response (`C18_503_bytes`), nothing else is relayed, and the completion of
    that write closes the client connection and re-arms the accept (unless stopped). -/
theorem C18_503_on_failure (lit : Bytes → Option Bool) (s : PS) (h : PSInv s) :
    (∀ ec ips, s.ok (.lookup ec ips) → (ec ≠ .ok ∨ ips = []) →
        (s.step lit (.lookup ec ips)).errResp = s.errResp ++ [resp503Lookup] ∧
        (s.step lit (.lookup ec ips)).toClient = s.toClient ∧
        (s.step lit (.lookup ec ips)).clientWrite = some (.closeConn, s.p.session)) ∧
    (∀ ec, s.ok (.connected ec) → ec ≠ .ok →
        (s.step lit (.connected ec)).errResp = s.errResp ++ [resp503Connect] ∧
        (s.step lit (.connected ec)).toClient = s.toClient ∧
        (s.step lit (.connected ec)).clientWrite = some (.closeConn, s.p.session)) ∧
    (∀ ec, s.ok (.errWritten ec) →
        (s.step lit (.errWritten ec)).sessions = s.sessions + 1 ∧
        (s.p.close = false → (s.step lit (.errWritten ec)).accepting = true)) := by
  refine ⟨?_, ?_, ?_⟩
  · intro ec ips hok hf
    have := C18_503_on_lookup_failure lit s h ec ips hok hf
    exact ⟨this.1, this.2.2.1, this.2.1⟩
  · intro ec hok hf
    have := C18_503_on_connect_failure lit s h ec hok hf
    exact ⟨this.1, this.2.2.1, this.2.1⟩
  · intro ec hok
    have := C18_503_then_close lit s h ec hok
    refine ⟨this.1, ?_⟩
    intro hc
    rw [this.2.2]; simp [hc]

/-- whom the proxy dials: the FIRST request of a session (no connection open, none being made)
    starts a lookup of exactly `rewrite`'s host with `rewrite`'s port as service when the host is no
    address literal, and otherwise opens a socket of the literal's family and connects to
    (host, port) — the port itself, which lies in [0, 65535]: no truncation; a successful lookup connects
    to the FIRST address it returned. -/
theorem C18_dials (lit : Bytes → Option Bool) (p : Px) (req : Request) (rw : Rewritten)
    (hrw : rewrite req = .ok rw) (hfit : p.nSout + rw.out.length ≤ BUF) (hc : p.connecting = false) (ho : p.srvOpen = false) :
    (lit rw.host = none →
      ∃ p', forwardRequest lit p req = .ok (p', [.queued rw.out, .resolve rw.host (portStr rw.port) p.session]) ∧ p'.connecting = true) ∧
    (∀ v4, lit rw.host = some v4 →
      ∃ p', forwardRequest lit p req = .ok (p', [.queued rw.out, .openServer v4, .connect rw.host rw.port.toNat p.session]) ∧ p'.connecting = true) ∧
    (∀ a port v4 rest,
      onDomainLookup p p.session .ok ((a, port, v4) :: rest) = ({ p with srvOpen := true }, [.openServer v4, .connect a port p.session])) ∧
    (0 ≤ rw.port ∧ rw.port ≤ 65535) := by
  have hnb : ¬ (p.nSout + rw.out.length > BUF) := by omega
  have hrange := (C18_rewrite_port_range req rw hrw).2
  refine ⟨?_, ?_, ?_, hrange⟩
  · intro hl
    unfold forwardRequest
    simp only [hrw, hnb, if_false]
    rw [memWrite_ok _ _ _ hfit]
    simp [hc, ho, hl]
  · intro v4 hl
    unfold forwardRequest
    simp only [hrw, hnb, if_false]
    rw [memWrite_ok _ _ _ hfit]
    simp [hc, ho, hl, openForward, toU16_of_range _ hrange.1 hrange.2]
  · intro a port v4 rest
    simp [onDomainLookup, stale, openForward]

/-! ### C18_malformed_or_relative_closes -/

/-- If the bytes received so far, together with the chunk `d` that arrives now, contain a complete
    request that does not parse or is not an `http://` absolute URI (`scan … = none`), this very
    completion closes the client connection (and the origin connection): no read is re-armed. Holds
    for every cut: the offending request may be completed by `d` or lie entirely in it, after any
    number of good ones. -/
theorem C18_malformed_or_relative_closes (lit : Bytes → Option Bool) (s : PS) (h : PSInv s) (d : Bytes)
    (hok : s.ok (.clientData d))
    (hbad : (scan ((s.fromClient ++ d).length + 1) (s.fromClient ++ d)).2 = none) :
    (s.step lit (.clientData d)).sessions = s.sessions + 1 ∧ (s.step lit (.clientData d)).clientRead = none := by
  obtain ⟨off, cap, ses, hcr, hpos, hdc⟩ := hok
  obtain ⟨rfl, rfl, hlt, rfl⟩ := h.read_at off cap ses hcr
  have hfit : s.p.nCin + d.length ≤ BUF := by omega
  simp only [PS.step, hcr, onReadRequest]
  rw [memWrite_ok _ _ _ hfit]
  simp only [stale_false _ _ (by decide : Ec.ok ≠ Ec.aborted), Bool.false_eq_true, if_false, ne_eq, not_true_eq_false]
  let p' : Px := { s.p with cin := written s.p.cin s.p.nCin d, nCin := s.p.nCin + d.length }
  let s0 : PS := { s with clientRead := none, fromClient := s.fromClient ++ d, p := p' }
  have hs0 : ({ s with clientRead := none, fromClient := s.fromClient ++ d } : PS).apply (requestLoop lit (p'.nCin + 1) p' [])
      = s0.apply (requestLoop lit (s0.p.nCin + 1) s0.p []) := by
    simp only [PS.apply, s0]
  show (({ s with clientRead := none, fromClient := s.fromClient ++ d } : PS).apply (requestLoop lit (p'.nCin + 1) p' [])).sessions = s.sessions + 1 ∧
       (({ s with clientRead := none, fromClient := s.fromClient ++ d } : PS).apply (requestLoop lit (p'.nCin + 1) p' [])).clientRead = none
  rw [hs0]
  obtain ⟨l, hl1, hl2⟩ := h.scanned
  have hv : view (written s.p.cin s.p.nCin d) (s.p.nCin + d.length) = view s.p.cin s.p.nCin ++ d := view_written _ _ _
  have hsa := scan_append s.fromClient d (view s.p.cin s.p.nCin) l hl1
  have hl3 : s.p.nCin + d.length = (view s.p.cin s.p.nCin ++ d).length := by simp
  have hacc : s.accepting = false := by
    cases ha : s.accepting with
    | false => rfl
    | true => have := h.acc_idle ha; rw [hcr] at this; cases this
  have hL : LoopInv s0 := by
    refine ⟨?_, ?_, rfl, hacc, ?_⟩
    · exact ⟨h.no_ub, h.nSout_le, h.ses_res, h.ses_conn, h.ses_sw, h.ses_sr, h.ses_cw, h.fifo, h.write_buf, h.relay, h.stopped⟩
    · simpa [s0, p'] using hfit
    · refine ⟨l, hl2, ?_⟩
      simp only [s0, p', hv]
      rw [hl3]
      exact hsa
  have := loop_closes lit (s0.p.nCin + 1) s0 hL (Nat.le_refl _) (by
    simp only [s0, p', hv]
    rw [hl3]
    rw [hsa] at hbad
    exact hbad)
  simpa [s0] using this

/-- which requests those are: the first complete request of the pending bytes fails to parse
    (`parse_request` throws) or its target does not start with `http://` or names a port outside
    [0, 65535] (`forward_request` throws) -/
theorem C18_scan_bad_first (b : Bytes) (n : Nat) (hn : findRequestLen b b.length = .ok (n : Int)) :
    ((∀ req, parseRequest b n ≠ .ok req) → scan (b.length + 1) b = ([], none)) ∧
    (∀ req, parseRequest b n = .ok req →
      (req.req.take 7 ≠ HTTP_PFX ∨ reqPort req.req < 0 ∨ reqPort req.req > 65535) → scan (b.length + 1) b = ([], none)) :=
  ⟨fun h => scan_step_bad_parse b n hn h,
   fun req h1 h2 => scan_step_bad_rewrite b n req hn h1 ((C18_rewrite_rejects_iff req).2 h2)⟩

/-! ### C18_accepts_next_until_stop -/

/-- At every moment: as long as `stop()` has not been called the proxy is either accepting or has a
    client connection with a read outstanding (so every way a session can end re-arms the accept:
    end of stream, reset, malformed request, 503 written, origin closed, write error, full buffer);
    once `stop()` was called it never accepts again. -/
theorem C18_accepts_next_until_stop (lit : Bytes → Option Bool) (port : Nat) (s : PS) (h : Reach lit port s) :
    (s.p.close = false → s.accepting = true ∨ s.clientRead.isSome = true) ∧
    (s.p.close = true → s.accepting = false) :=
  let i := C18_invariant lit port s h
  ⟨i.live, i.stopped⟩

theorem PS.apply_p (s : PS) (r : Px × List Act) : (s.apply r).p = r.1 := by
  simp [PS.apply, PS.acts_setP]

/-- `m_close` is set by `stop()` and by nothing else -/
theorem C18_close_only_by_stop (lit : Bytes → Option Bool) (s : PS) (e : Ev) :
    (s.step lit e).p.close = (s.p.close || (match e with | .stop => true | _ => false)) := by
  cases e with
  | accepted ec =>
    simp only [PS.step, PS.apply_p, onAccept]
    split
    · simp
    · split <;> simp [closeConnection]
  | clientData d =>
    simp only [PS.step]
    split
    · simp
    · simp only [PS.apply_p, onReadRequest]
      split
      · simp
      · split
        · simp
        · split
          · simp [closeConnection]
          · rw [requestLoop_close]; simp
  | clientErr ec =>
    simp only [PS.step]
    split
    · simp
    · simp only [PS.apply_p, onReadRequest]
      split
      · simp
      · split
        · simp
        · split
          · simp [closeConnection]
          · rw [requestLoop_close]; simp
  | lookup ec ips =>
    simp only [PS.step]
    split
    · simp
    · simp only [PS.apply_p, onDomainLookup]
      split
      · simp
      · split
        · simp only [error]; split <;> simp
        · split
          · simp only [error]; split <;> simp
          · simp [openForward]
  | connected ec =>
    simp only [PS.step]
    split
    · simp
    · simp only [PS.apply_p, onConnected]
      split
      · simp
      · split
        · simp only [error]; split <;> simp
        · simp only [writeServerSendBuffer]
          split
          · simp
          · split <;> simp
  | serverWritten n =>
    simp only [PS.step]
    split
    · simp
    · simp only [PS.apply_p, onServerWrite]
      split
      · simp
      · split
        · simp [closeConnection]
        · split
          · simp
          · split
            · simp
            · split
              · simp
              · split
                · simp only [writeServerSendBuffer]
                  split
                  · simp
                  · split <;> simp
                · simp
  | serverWriteErr ec =>
    simp only [PS.step]
    split
    · simp
    · simp only [PS.apply_p, onServerWrite]
      split
      · simp
      · split
        · simp [closeConnection]
        · split
          · simp
          · split
            · simp
            · split
              · simp
              · split
                · simp only [writeServerSendBuffer]
                  split
                  · simp
                  · split <;> simp
                · simp
  | serverData d =>
    simp only [PS.step]
    split
    · simp
    · simp only [PS.apply_p, onServerReceive]
      split
      · simp
      · split
        · simp
        · split
          · simp [closeConnection]
          · split <;> simp
  | serverErr ec =>
    simp only [PS.step]
    split
    · simp
    · simp only [PS.apply_p, onServerReceive]
      split
      · simp
      · split
        · simp
        · split
          · simp [closeConnection]
          · split <;> simp
  | clientWritten ec =>
    simp only [PS.step]
    split
    · simp only [PS.apply_p, onServerForward]
      split
      · simp
      · split <;> simp [closeConnection]
    · simp
  | errWritten ec =>
    simp only [PS.step]
    split
    · simp only [PS.apply_p, onErrorWritten]
      split <;> simp [closeConnection]
    · simp
  | stop => simp [PS.step, PS.apply_p, stop]

/-! ### stale completions (F26c/d/f/g) -/

/-- A completion bound with another session number than the current one — an operation of a
    connection that `close_connection()` has torn down meanwhile, whose completion was already
    posted — is ignored: no action, no member changed (for the two reads: the socket has already
    copied the bytes into the buffer, the byte COUNT is untouched). -/
theorem C18_stale_ignored (lit : Bytes → Option Bool) (p : Px) (ses : Nat) (hs : ses ≠ p.session) (ec : Ec) :
    onConnected p ses ec = (p, []) ∧
    (∀ n, onServerWrite p ses ec n = (p, [])) ∧
    onServerForward p ses ec = (p, []) ∧
    onErrorWritten p ses ec = (p, []) ∧
    (∀ ips, onDomainLookup p ses ec ips = (p, [])) ∧
    (∀ off d, off + d.length ≤ BUF → onReadRequest lit p ses ec off d = ({ p with cin := written p.cin off d }, [])) ∧
    (∀ d, d.length ≤ BUF → onServerReceive p ses ec d = ({ p with inb := written p.inb 0 d }, [])) := by
  have hst : ∀ q : Px, q.session = p.session → stale q ses ec = true := by
    intro q hq; simp [stale, hq, hs]
  refine ⟨?_, ?_, ?_, ?_, ?_, ?_, ?_⟩
  · simp [onConnected, hst p rfl]
  · intro n; simp [onServerWrite, hst p rfl]
  · simp [onServerForward, hst p rfl]
  · simp [onErrorWritten, hst p rfl]
  · intro ips; simp [onDomainLookup, hst p rfl]
  · intro off d hfit
    simp only [onReadRequest]
    rw [memWrite_ok _ _ _ hfit]
    simp [hst { p with cin := written p.cin off d } rfl]
  · intro d hfit
    simp only [onServerReceive]
    rw [memWrite_ok _ _ _ (by simpa using hfit)]
    simp [hst { p with inb := written p.inb 0 d } rfl]

/-- every `close_connection()` starts a new session number, cancels the resolver, and clears
    `m_writing_to_server` / `m_connecting` (F26f: a teardown while a write to the origin was parked
    used to leave the flag set for ever) -/
theorem C18_close_resets (p : Px) :
    (closeConnection p).1.session = p.session + 1 ∧ (closeConnection p).1.writing = false ∧
    (closeConnection p).1.connecting = false ∧ (closeConnection p).1.nCin = 0 ∧ (closeConnection p).1.nSout = 0 ∧
    Act.cancelResolver ∈ (closeConnection p).2 ∧ Act.closeClient ∈ (closeConnection p).2 ∧
    Act.closeServer ∈ (closeConnection p).2 ∧ (Act.accept ∈ (closeConnection p).2 ↔ p.close = false) := by
  cases hc : p.close <;> simp [closeConnection, hc]

/-! ### the pinned tree (what was wrong, stated on transcriptions of the ORIGINAL statements) -/

/-- `forward_request` of the pinned tree: `host_end = req.req.substr(0, path_start).find_last_of(':')`
    with no bracket rule (everything else as in `rewrite`) -/
def rewritePinned (r : Request) : Except Unit Rewritten :=
  if r.req.take 7 ≠ HTTP_PFX then .error ()
  else
    let pathStart := findFirstFrom r.req 47 7
    let pathPart := match pathStart with | none => [47] | some ps => r.req.drop ps
    let authority := match pathStart with | none => r.req | some ps => r.req.take ps
    let hostEnd := findLast authority 58
    let portAt : Option Nat := match hostEnd with | some he => if he > 7 then some he else none | none => none
    let host0 := match portAt with
      | some he => (r.req.drop 7).take (he - 7)
      | none => match pathStart with | some ps => (r.req.drop 7).take (ps - 7) | none => r.req.drop 7
    let host := stripBrackets host0
    let port : Int := match portAt with
      | none => 80
      | some he => atoi (match pathStart with | some ps => (r.req.drop (he + 1)).take ps | none => r.req.drop (he + 1))
    let foundHost := r.headers.any (fun h => h.1 == HOST_KEY)
    .ok { host := host, port := port, out := r.method ++ [32] ++ pathPart ++ HTTP11 ++ headerLines r.headers ++ (if foundHost then [] else HOST_HDR ++ host ++ CRLF) ++ CRLF }

/-- whom a rewritten request is for -/
def dials (e : Except Unit Rewritten) : Option (Bytes × Int) :=
  match e with
  | .ok r => some (r.host, r.port)
  | .error _ => none

/-- `http://[2001:db8::3]/a` -/
def exV6NoPort : Bytes := [104, 116, 116, 112, 58, 47, 47, 91, 50, 48, 48, 49, 58, 100, 98, 56, 58, 58, 51, 93, 47, 97]

/-- F26a: for a bracketed IPv6 literal WITHOUT port the pinned code took the last ':' inside the
    brackets for the port separator: it looked up the name `[2001:db8:` and would have dialled port 3;
    the repaired `rewrite` dials (`2001:db8::3`, 80). Confirmed on the real library
    (corpus/C18/f26a_ipv6_literal_without_port.scn: the lookup of name=5b323030313a6462383a). -/
theorem C18_pinned_ipv6_without_port :
    dials (rewritePinned { method := [71], req := exV6NoPort, path := [], headers := [] })
      = some ([91, 50, 48, 48, 49, 58, 100, 98, 56, 58], 3) ∧
    dials (rewrite { method := [71], req := exV6NoPort, path := [], headers := [] })
      = some ([50, 48, 48, 49, 58, 100, 98, 56, 58, 58, 51], 80) := by
  decide

/-- `on_server_write` of the pinned tree (no test at the top at all) -/
def onServerWritePinned (p : Px) (ec : Ec) (n : Nat) : Px × List Act :=
  let p := { p with writing := false }
  if ec ≠ .ok then closeConnection p
  else if n > p.nSout then (p, [.ub "memmove size underflow in on_server_write"])
  else (p, [])     -- (the rest is as in `onServerWrite`)

/-- F26d: a write completion that was already posted with success when `close_connection()` ran
    (one chunk holding a good request followed by a malformed one is enough) reached
    `memmove(buf, buf + n, size_t(0 - n))` in the pinned tree — undefined behaviour, an
    AddressSanitizer `negative-size-param` on the real library
    (corpus/C18/f26d_write_completion_after_close.scn). The repaired callback ignores it
    (`C18_stale_ignored`), and under `PS.ok` the repaired model never produces `ub` (`C18_no_ub`). -/
theorem C18_pinned_write_completion_after_close (p : Px) (n : Nat) (hn : 0 < n) :
    (onServerWritePinned (closeConnection p).1 .ok n).2 = [.ub "memmove size underflow in on_server_write"] ∧
    onServerWrite (closeConnection p).1 p.session .ok n = ((closeConnection p).1, []) := by
  constructor
  · simp [onServerWritePinned, closeConnection, hn]
  · simp [onServerWrite, stale, closeConnection]

/-! ## Non-vacuity -/

/-- a concrete well-behaved history: a client is accepted, sends "G" and then "E", the proxy is
    stopped, the client's stream ends: all side conditions hold, the proxy ends stopped and idle -/
def exRun : List Ev := [.accepted .ok, .clientData [71], .clientData [69], .stop, .clientErr .eof]

example : PS.okRun (fun _ => none) (PS.init 4444) exRun := by
  simp [exRun, PS.okRun, PS.ok, PS.step, PS.init, PS.apply, PS.act, construct, onAccept, onReadRequest, stale,
    memWrite, memRead, padTo, requestLoop, findRequestLen, find, findLoop, CRLFCRLF, BUF, stop]
  exact ⟨⟨0, 65536, ⟨rfl, rfl⟩, by omega⟩, ⟨1, 65535, ⟨rfl, rfl⟩, by omega⟩⟩

example : Reach (fun _ => none) 4444 ((PS.init 4444).run (fun _ => none) []) := ⟨[], trivial, rfl⟩

/-- a state of the invariant with the origin read outstanding (hypotheses of `C18_relay_chunks`) -/
def exRelay : PS := { serverRead := some 0, clientRead := some (0, 65536, 0) }

theorem exRelay_inv : PSInv exRelay := by
  constructor <;> simp [exRelay, view, padTo, scan_nil, outs, BUF]

/-- the relay of the chunks "ab", "c" from that state hands "abc" to the client -/
example : (exRelay.run (fun _ => none) (relayEvents [[97, 98], [99]])).toClient = [97, 98, 99] := by
  have := (C18_relay_chunks (fun _ => none) [[97, 98], [99]] _ exRelay_inv rfl (by simp [BUF])).1
  simpa [exRelay] using this

/-- `GET http://[::1]:8080/x HTTP/1.1` with header `X-A: 1`: well-formed, and what is queued for the
    origin is `GET /x HTTP/1.1␍␊x-a: 1␍␊host: ::1␍␊␍␊`, to be sent to (`::1`, 8080) -/
def exTarget : Target := { host := [91, 58, 58, 49, 93], port := some [56, 48, 56, 48], path := [47, 120] }
def exReq : RawRequest := { method := [71, 69, 84], target := exTarget.render, version := [72, 84, 84, 80, 47, 49, 46, 49], headers := [([88, 45, 65], [32, 49])] }

example : exTarget.wf := by decide
example : WellFormed exReq := by decide

def exOut : Rewritten := { host := [58, 58, 49], port := 8080, out := [71, 69, 84, 32, 47, 120, 32, 72, 84, 84, 80, 47, 49, 46, 49, 13, 10, 120, 45, 97, 58, 32, 49, 13, 10, 104, 111, 115, 116, 58, 32, 58, 58, 49, 13, 10, 13, 10] }

example : rewrite (canon exReq) = .ok exOut := by
  rw [(C18_rewrite_wire exReq exTarget (by decide) (by decide) rfl).2]
  congr 1

end SimVerif.HttpProxy
