/-
  SimVerif.Props.C16 — HTTP test server (`sim::http_server`): one response per request, in
  order, for any segmentation.

  Objects: the mechanism model `SimVerif/HttpServer.lean` (one function per callback of the
  C++ class), the connection-level system `SimVerif/HttpServerSys.lean` (`serve`/`run`: the
  callbacks driven by an environment that delivers the client's bytes in an ARBITRARY
  chunking, one chunk per read completion, clipped to the capacity `read()` offers), and the
  reference `specStream` (the statement on a plain byte stream).
-/
import SimVerif.HttpServerSys
import SimVerif.Lemmas.HttpServerBasic
import SimVerif.Lemmas.HttpServerCb

namespace SimVerif.HttpServer

open SimVerif.Http

/-! ## keep-alive -/

/-- After a response has been written the connection is kept (the server re-enters `on_read`
    through `post`, with nothing else changed) IFF keep-alive is enabled and the request did
    not ask for close; otherwise — and only otherwise — `close_connection()` runs. The `close`
    flag bound into `on_write` is `lower_case(headers["connection"]) == "close"` of the request
    that was answered. -/
theorem C16_keepalive_iff (s : Srv) (close : Bool) :
    (s.onWrite .ok close = (s, [.postOnRead]) ↔ (s.keepAlive = true ∧ close = false)) ∧
    (¬(s.keepAlive = true ∧ close = false) →
        s.onWrite .ok close = ({ s with buf := [], used := 0 }, closeActs s)) ∧
    (∀ (req : Request) (r : Bytes) (c : Bool), answer s req = .respond r c →
        c = (lowerCase ((mapLookup CONNECTION req.headers).getD []) == CLOSE)) := by
  refine ⟨onWrite_keep s close, onWrite_close s close, ?_⟩
  intro req r c h
  unfold answer at h
  split at h
  · split at h
    · simp at h
    · simp at h; exact h.2.symm
  · split at h <;> simp at h
    exact h.2.symm

/-! ## errors close only this connection -/

/-- End-of-file or any error reported to `on_read`, an error reported to `on_write` or
    `on_accept`: the receive buffer is reset, the connection socket is closed, `async_accept`
    is re-armed (unless the server is stopping) — and NOTHING else changes (tables, flags, the
    send buffer are the same). -/
theorem C16_error_closes_only_this (s : Srv) (ec : Ec) (hec : ec ≠ .ok) :
    (∀ data, s.onRead ec data = ({ s with buf := [], used := 0 }, closeActs s)) ∧
    (∀ c, s.onWrite ec c = ({ s with buf := [], used := 0 }, closeActs s)) ∧
    s.onAccept ec = ({ s with buf := [], used := 0 }, closeActs s) ∧
    (s.closing = false → closeActs s = [.closeConn, .asyncAccept]) :=
  ⟨fun data => onRead_err s ec data hec, fun c => onWrite_err s ec c hec, onAccept_err s ec hec,
   fun h => by simp [closeActs, h]⟩

/-! ## stop -/

/-- `stop()` sets `m_close` and closes the listen socket (the acceptor's `close()`); from then
    on `m_close` stays set under every callback, no callback ever starts an `async_accept`
    again, and `close_connection()` only closes the connection. (That the acceptor's `close()`
    unbinds the port and refuses later connects is the acceptor's business — C07/C11; on
    implementation traces it is the monitor clause `stop_frees_port` / `stop_refuses`.) -/
theorem C16_stop (s : Srv) :
    s.stop = ({ s with closing := true }, [.closeListen]) ∧
    ∀ s' : Srv, s'.closing = true →
      (∀ ec, (s'.onAccept ec).1.closing = true ∧ Act.asyncAccept ∉ (s'.onAccept ec).2) ∧
      (∀ ec data, (s'.onRead ec data).1.closing = true ∧ Act.asyncAccept ∉ (s'.onRead ec data).2) ∧
      (∀ ec c, (s'.onWrite ec c).1.closing = true ∧ Act.asyncAccept ∉ (s'.onWrite ec c).2) ∧
      s'.closeConnection = ({ s' with buf := [], used := 0 }, [.closeConn]) := by
  refine ⟨rfl, ?_⟩
  intro s' hc
  refine ⟨fun ec => onAccept_closing s' hc ec, fun ec data => onRead_closing s' hc ec data,
    fun ec c => onWrite_closing s' hc ec c, ?_⟩
  rw [closeConnection_eq]
  simp [closeActs, hc]

end SimVerif.HttpServer
