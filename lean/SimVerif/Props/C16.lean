import SimVerif.HttpServer
namespace SimVerif.HttpServer
end SimVerif.HttpServer
