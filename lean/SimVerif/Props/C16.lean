/-
  SimVerif.Props.C16 — HTTP test server (`sim::http_server`): one response per request, in
  order, for any segmentation.

  Objects: the mechanism model `SimVerif/HttpServer.lean` (one function per callback of the
  C++ class), the connection-level system `SimVerif/HttpServerSys.lean` (`serve`/`run`: the
  callbacks driven by an environment that delivers the client's bytes in an ARBITRARY
  chunking, one chunk per read completion, clipped to the capacity `read()` offers), and the
  reference `specStream` (the statement on a plain byte stream).
-/
import SimVerif.HttpServerSys
import SimVerif.Lemmas.HttpServerBasic
import SimVerif.Lemmas.HttpServerCb
import SimVerif.Lemmas.HttpServerRun
import SimVerif.Lemmas.HttpServerReq
import SimVerif.Lemmas.HttpServerSafe
import SimVerif.Lemmas.HttpServerStop

namespace SimVerif.HttpServer

open SimVerif.Http

deriving instance DecidableEq for Except

/-! ## segmentation independence -/

/-- The mechanism refines the reference: serving a connection whose client bytes arrive in ANY
    chunking (any number of chunks of any sizes, empty ones included; a chunk larger than the
    capacity `read()` offers is delivered in pieces) yields exactly what the reference says about
    the concatenated stream — the same response byte strings in the same order and the same end
    (waiting / stalled / closed with or without re-arming accept). -/
theorem C16_run_eq_reference (cfg : Srv) (chunks : List Bytes) :
    run cfg chunks = specStream cfg chunks.flatten :=
  run_eq_spec cfg chunks

/-- For every request byte stream and every two ways of cutting it, the sequence of response
    byte strings and the close/keep decision are the same; both equal the result for the
    unsplit stream. -/
theorem C16_segmentation_independent (cfg : Srv) (cs₁ cs₂ : List Bytes)
    (h : cs₁.flatten = cs₂.flatten) :
    run cfg cs₁ = run cfg cs₂ ∧ run cfg cs₁ = run cfg [cs₁.flatten] := by
  refine ⟨?_, ?_⟩
  · rw [run_eq_spec, run_eq_spec, h]
  · rw [run_eq_spec, run_eq_spec]; simp

/-- The same in the middle of a connection: from ANY state in which a read is outstanding and
    no complete request is pending (what `on_read` leaves behind when it calls `read()`),
    whatever is in the receive buffer beyond `m_bytes_used` and whatever its size. -/
theorem C16_segmentation_independent_from (s : Srv) (cs₁ cs₂ : List Bytes) (f₁ f₂ : Nat)
    (hwf : s.wf) (hcap : s.used < s.buf.length) (hmore : reqStep s s.pend = .more)
    (h : cs₁.flatten = cs₂.flatten) (h₁ : need s.used cs₁ ≤ f₁) (h₂ : need s.used cs₂ ≤ f₂) :
    serve f₁ (s, [.asyncReadSome (s.buf.length - s.used)]) cs₁
      = serve f₂ (s, [.asyncReadSome (s.buf.length - s.used)]) cs₂ := by
  rw [serve_read_eq_spec cs₁ s f₁ hwf hcap hmore h₁, serve_read_eq_spec cs₂ s f₂ hwf hcap hmore h₂, h]

/-! ## one response per request, in order -/

/-- For a stream that is the concatenation of `k` well-formed requests (each ending at its
    first blank line), cut in any way: the responses are the answers to the requests, in request
    order, up to and including the first request that asks for close (or the first one at all
    when keep-alive is off), that stalls, or whose handler throws; the rest is not answered on
    this connection (`expectedOut`, SimVerif/Lemmas/HttpServerReq.lean). -/
theorem C16_one_per_request_in_order (cfg : Srv) (rs : List RawRequest)
    (h : ∀ r ∈ rs, WellFormed r ∧ Framed r) (cs : List Bytes)
    (hcs : cs.flatten = (rs.map render).flatten) :
    run cfg cs = expectedOut cfg rs := by
  rw [run_eq_spec, hcs, specStream_requests cfg rs h]

/-- … and a trailing incomplete request changes nothing (the server waits for its rest). -/
theorem C16_one_per_request_partial_tail (cfg : Srv) (rs : List RawRequest) (tail : Bytes)
    (h : ∀ r ∈ rs, WellFormed r ∧ Framed r) (ht : firstBlank tail = none) (cs : List Bytes)
    (hcs : cs.flatten = (rs.map render).flatten ++ tail) :
    run cfg cs = expectedOut cfg rs := by
  rw [run_eq_spec, hcs, specStream_requests_partial cfg rs tail h ht]

/-- the answer to one request, as a byte string (empty when there is none) -/
def respOf (cfg : Srv) (r : RawRequest) : Bytes :=
  match answer cfg (canon r) with
  | .respond x _ => x
  | _ => []

theorem expectedOut_all_keep (cfg : Srv) (hk : cfg.keepAlive = true) (rs : List RawRequest)
    (hall : ∀ r ∈ rs, ∃ x, answer cfg (canon r) = .respond x false) :
    expectedOut cfg rs = ⟨rs.map (respOf cfg), .waiting⟩ := by
  induction rs with
  | nil => rfl
  | cons r rs ih =>
    obtain ⟨x, hx⟩ := hall r (by simp)
    have ih' := ih (fun r' hr' => hall r' (by simp [hr']))
    unfold expectedOut
    rw [hx]
    simp only [hk, Bool.not_false, Bool.and_self, ↓reduceIte]
    rw [ih']
    simp [Out.cons, respOf, hx]

/-- EXACTLY `k` responses for `k` requests, in order, and the connection stays open, when
    keep-alive is on and no request asks for close. -/
theorem C16_exactly_k_responses (cfg : Srv) (hk : cfg.keepAlive = true) (rs : List RawRequest)
    (h : ∀ r ∈ rs, WellFormed r ∧ Framed r)
    (hall : ∀ r ∈ rs, ∃ x, answer cfg (canon r) = .respond x false)
    (cs : List Bytes) (hcs : cs.flatten = (rs.map render).flatten) :
    (run cfg cs).responses = rs.map (respOf cfg) ∧ (run cfg cs).responses.length = rs.length ∧
      (run cfg cs).fin = .waiting := by
  rw [C16_one_per_request_in_order cfg rs h cs hcs, expectedOut_all_keep cfg hk rs hall]
  simp

theorem expectedOut_until_close (cfg : Srv) (hk : cfg.keepAlive = true) (pre : List RawRequest)
    (r : RawRequest) (post : List RawRequest)
    (hpre : ∀ q ∈ pre, ∃ x, answer cfg (canon q) = .respond x false)
    (x : Bytes) (hr : answer cfg (canon r) = .respond x true) :
    expectedOut cfg (pre ++ r :: post) = ⟨pre.map (respOf cfg) ++ [x], .closed (!cfg.closing)⟩ := by
  induction pre with
  | nil =>
    simp only [List.nil_append, List.map_nil]
    unfold expectedOut
    rw [hr]
    simp
  | cons q pre ih =>
    obtain ⟨y, hy⟩ := hpre q (by simp)
    have ih' := ih (fun r' hr' => hpre r' (by simp [hr']))
    simp only [List.cons_append]
    unfold expectedOut
    rw [hy]
    simp only [hk, Bool.not_false, Bool.and_self, ↓reduceIte]
    rw [ih']
    simp [Out.cons, respOf, hy]

/-- The first request asking for close is the last one answered: whatever follows it on the
    connection (`post`) gets no response, the connection is closed and accept re-armed (unless
    stopping). -/
theorem C16_rest_not_answered_after_close (cfg : Srv) (hk : cfg.keepAlive = true)
    (pre : List RawRequest) (r : RawRequest) (post : List RawRequest)
    (h : ∀ q ∈ pre ++ r :: post, WellFormed q ∧ Framed q)
    (hpre : ∀ q ∈ pre, ∃ x, answer cfg (canon q) = .respond x false)
    (x : Bytes) (hr : answer cfg (canon r) = .respond x true)
    (cs : List Bytes) (hcs : cs.flatten = ((pre ++ r :: post).map render).flatten) :
    run cfg cs = ⟨pre.map (respOf cfg) ++ [x], .closed (!cfg.closing)⟩ := by
  rw [C16_one_per_request_in_order cfg _ h cs hcs, expectedOut_until_close cfg hk pre r post hpre x hr]

/-- With keep-alive off only the first request is answered. -/
theorem C16_keepalive_off_one_response (cfg : Srv) (hk : cfg.keepAlive = false) (r : RawRequest)
    (post : List RawRequest) (h : ∀ q ∈ r :: post, WellFormed q ∧ Framed q)
    (x : Bytes) (c : Bool) (hr : answer cfg (canon r) = .respond x c)
    (cs : List Bytes) (hcs : cs.flatten = ((r :: post).map render).flatten) :
    run cfg cs = ⟨[x], .closed (!cfg.closing)⟩ := by
  rw [C16_one_per_request_in_order cfg _ h cs hcs]
  unfold expectedOut
  rw [hr]
  simp [hk]

/-- What is answered: 404 for a path that is neither registered nor stalled, nothing for a
    stalled path, otherwise what the registered handler returns (its exception closes the
    connection). A handler wins over a stall entry for the same path. -/
theorem C16_answer_cases (cfg : Srv) (req : Request) :
    (findHandler req.path cfg.handlers = none → cfg.stalls.contains req.path = false →
      answer cfg req = .respond (sendResponse 404 (str "Not Found") 0 []) (wantsClose req.headers)) ∧
    (findHandler req.path cfg.handlers = none → cfg.stalls.contains req.path = true →
      answer cfg req = .stall) ∧
    (∀ h r, findHandler req.path cfg.handlers = some h → h.run req.headers = .ok r →
      answer cfg req = .respond r (wantsClose req.headers)) ∧
    (∀ h, findHandler req.path cfg.handlers = some h → h.run req.headers = .error .throw →
      answer cfg req = .fail) := by
  refine ⟨?_, ?_, ?_, ?_⟩
  · intro h1 h2; unfold answer; rw [h1]; simp only; rw [if_neg (by rw [h2]; simp)]
  · intro h1 h2; unfold answer; rw [h1]; simp only; rw [if_pos h2]
  · intro h r h1 h2; unfold answer; rw [h1]; simp [h2]
  · intro h h1 h2; unfold answer; rw [h1]; simp [h2]

/-! ## content-length, byte ranges -/

/-- Every response the server writes is `send_response(code, msg, len, extra)` — i.e.
    `HTTP/1.1 <code> <msg> CRLF content-length: <len> CRLF <extra> CRLF` — followed by EXACTLY `len`
    body bytes (fixed bodies shorter than 2^31 bytes: the harness passes `int(body.size())`). -/
theorem C16_content_length (cfg : Srv) (req : Request) (r : Bytes) (c : Bool)
    (hfix : ∀ p b, (p, Handler.fixed b) ∈ cfg.handlers → b.length < 2147483648)
    (h : answer cfg req = .respond r c) :
    ∃ code msg extra body, r = sendResponse code msg (body.length : Int) extra ++ body :=
  answer_content_length cfg req r c hfix h

/-- What `register_content` computes for `Range: bytes=<a>-<b>` (decimal digit strings, a ≤ b,
    at most 4 MiB, b < 2^63-1): status 206, `content-length: b-a+1`, then bytes `a..b` of the
    generator. ODDITIES (they do not contradict the property): the `Content-Range` header says
    `bytes a-b/<b-a+1>` — the LENGTH of the range where HTTP puts the total size; and the range is
    not clamped to the registered `size` (which is not even consulted). -/
theorem C16_ranged_content (size : Int) (hdrs : HMap) (da db : Bytes)
    (hda : da ≠ [] ∧ ∀ d ∈ da, isDigit d = true) (hdb : db ≠ [] ∧ ∀ d ∈ db, isDigit d = true)
    (hr : mapLookup (str "range") hdrs = some (str "bytes=" ++ da ++ [45] ++ db))
    (hle : digitsVal da ≤ digitsVal db) (hsz : digitsVal db - digitsVal da < 4194304)
    (hbig : digitsVal db < 9223372036854775807) :
    contentHandler size hdrs = .ok
      (sendResponse 206 (str "Partial Content") ((digitsVal db - digitsVal da + 1 : Nat) : Int)
          (str "Content-Range: bytes " ++ decI (digitsVal da) ++ [45] ++ decI (digitsVal db) ++ [47]
            ++ decI ((digitsVal db - digitsVal da + 1 : Nat) : Int) ++ CRLF)
        ++ (List.range (digitsVal db - digitsVal da + 1)).map (genByte (digitsVal da))) :=
  contentHandler_range size hdrs da db hda hdb hr hle hsz hbig

/-- Without a Range header: 200, `content-length: size`, the `size` bytes `0..size-1`. -/
theorem C16_whole_content (size : Nat) (hdrs : HMap) (hs : size ≤ 4194304)
    (hr : mapLookup (str "range") hdrs = none) :
    contentHandler size hdrs = .ok
      (sendResponse 200 (str "OK") (size : Int) [] ++ (List.range size).map (genByte 0)) :=
  contentHandler_whole size hdrs hs hr

/-! ## malformed input, stalled paths -/

/-- A request that does not parse, or whose handler throws (`reqStep … = .fail`): exactly
    `close_connection()` — buffer reset, connection closed, accept re-armed unless stopping;
    tables, flags and the send buffer unchanged, nothing written. -/
theorem C16_malformed_closes_only_this (s : Srv) (data : Bytes) (hwf : s.wf)
    (hfit : s.used + data.length ≤ s.buf.length) (h : reqStep s (s.pend ++ data) = .fail) :
    s.onRead .ok data = ({ s with buf := [], used := 0 }, closeActs s) :=
  onRead_fail s data hwf hfit h

/-- On the stream level: responses up to the malformed request, then closed, whatever follows. -/
theorem C16_malformed_stream (cfg : Srv) (bad rest : Bytes) (n : Nat)
    (hb : firstBlank bad = some n) (hp : parseRequest bad n = .parseFailed)
    (cs : List Bytes) (hcs : cs.flatten = bad ++ rest) :
    run cfg cs = ⟨[], .closed (!cfg.closing)⟩ := by
  rw [run_eq_spec, hcs]
  have h1 : reqStep cfg bad = .fail := by unfold reqStep; rw [hb]; simp [hp]
  have h2 := reqStep_append cfg bad rest
  rw [h1] at h2
  rw [specStream]
  split <;> simp_all

/-- A request for a stalled path: `on_read` returns without ANY action — no write, no read, no
    close — so nothing can ever happen on this connection again. -/
theorem C16_stall_never_answered (s : Srv) (data rest : Bytes) (hwf : s.wf)
    (hfit : s.used + data.length ≤ s.buf.length) (h : reqStep s (s.pend ++ data) = .stall rest) :
    ∃ s', s.onRead .ok data = (s', []) ∧
      ∀ fuel chunks, serve (fuel + 1) (s', []) chunks = ⟨[], .stalled⟩ := by
  obtain ⟨s', h1, _⟩ := onRead_stall s data rest hwf hfit h
  exact ⟨s', h1, fun _ _ => rfl⟩

/-- On the stream level: a stalled request is never answered, nor is anything behind it,
    however long the client keeps sending. -/
theorem C16_stall_stream (cfg : Srv) (r : RawRequest) (hwf : WellFormed r) (hfr : Framed r)
    (hst : answer cfg (canon r) = .stall) (rest : Bytes) (cs : List Bytes)
    (hcs : cs.flatten = render r ++ rest) :
    run cfg cs = ⟨[], .stalled⟩ := by
  rw [run_eq_spec, hcs]
  have h1 := reqStep_render cfg r hwf hfr rest
  rw [hst] at h1
  rw [specStream]
  split <;> simp_all

/-! ## no undefined behaviour -/

/-- For EVERY byte stream in EVERY chunking the run never performs an out-of-bounds access
    (`&m_recv_buffer[m_bytes_used]`, the transport's write into the buffer, the parser's raw
    pointer reads, `erase`, `m_bytes_used -= req_len`) and no handler overflows: the checked
    operations of the model never yield `Act.ub`. (The signed overflows of the pinned tree in
    `register_content` — `stoll(..) + 1`, `end - start` on hostile Range headers — were
    reported and fixed; the guard of the fix is what makes `contentHandler` overflow-free.) -/
theorem C16_no_undefined_behaviour (cfg : Srv) (chunks : List Bytes) :
    (run cfg chunks).fin ≠ .ub := by
  rw [run_eq_spec]
  exact specStream_no_ub cfg _

/-! ## keep-alive -/

/-- After a response has been written the connection is kept (the server re-enters `on_read`
    through `post`, with nothing else changed) IFF keep-alive is enabled and the request did
    not ask for close; otherwise — and only otherwise — `close_connection()` runs. The `close`
    flag bound into `on_write` is `lower_case(headers["connection"]) == "close"` of the request
    that was answered. -/
theorem C16_keepalive_iff (s : Srv) (close : Bool) :
    (s.onWrite .ok close = (s, [.postOnRead]) ↔ (s.keepAlive = true ∧ close = false)) ∧
    (¬(s.keepAlive = true ∧ close = false) →
        s.onWrite .ok close = ({ s with buf := [], used := 0 }, closeActs s)) ∧
    (∀ (req : Request) (r : Bytes) (c : Bool), answer s req = .respond r c →
        c = (lowerCase ((mapLookup CONNECTION req.headers).getD []) == CLOSE)) := by
  refine ⟨onWrite_keep s close, onWrite_close s close, ?_⟩
  intro req r c h
  unfold answer at h
  split at h
  · split at h
    · simp at h
    · simp at h; exact h.2.symm
  · split at h <;> simp at h
    exact h.2.symm

/-! ## errors close only this connection -/

/-- End-of-file or any error reported to `on_read`, an error reported to `on_write` or
    `on_accept`: the receive buffer is reset, the connection socket is closed, `async_accept`
    is re-armed (unless the server is stopping) — and NOTHING else changes (tables, flags, the
    send buffer are the same). -/
theorem C16_error_closes_only_this (s : Srv) (ec : Ec) (hec : ec ≠ .ok) :
    (∀ data, s.onRead ec data = ({ s with buf := [], used := 0 }, closeActs s)) ∧
    (∀ c, s.onWrite ec c = ({ s with buf := [], used := 0 }, closeActs s)) ∧
    s.onAccept ec = ({ s with buf := [], used := 0 }, closeActs s) ∧
    (s.closing = false → closeActs s = [.closeConn, .asyncAccept]) :=
  ⟨fun data => onRead_err s ec data hec, fun c => onWrite_err s ec c hec, onAccept_err s ec hec,
   fun h => by simp [closeActs, h]⟩

/-! ## stop -/

/-- `stop()` sets `m_close` and closes the listen socket (the acceptor's `close()`); from then
    on `m_close` stays set under every callback, no callback ever starts an `async_accept`
    again, and `close_connection()` only closes the connection. (That the acceptor's `close()`
    unbinds the port and refuses later connects is the acceptor's business — C07/C11; on
    implementation traces it is the monitor clause `stop_frees_port` / `stop_refuses`.) -/
theorem C16_stop (s : Srv) :
    s.stop = ({ s with closing := true }, [.closeListen]) ∧
    ∀ s' : Srv, s'.closing = true →
      (∀ ec, (s'.onAccept ec).1.closing = true ∧ Act.asyncAccept ∉ (s'.onAccept ec).2) ∧
      (∀ ec data, (s'.onRead ec data).1.closing = true ∧ Act.asyncAccept ∉ (s'.onRead ec data).2) ∧
      (∀ ec c, (s'.onWrite ec c).1.closing = true ∧ Act.asyncAccept ∉ (s'.onWrite ec c).2) ∧
      s'.closeConnection = ({ s' with buf := [], used := 0 }, [.closeConn]) := by
  refine ⟨rfl, ?_⟩
  intro s' hc
  refine ⟨fun ec => onAccept_closing s' hc ec, fun ec data => onRead_closing s' hc ec data,
    fun ec c => onWrite_closing s' hc ec c, ?_⟩
  rw [closeConnection_eq]
  simp [closeActs, hc]

/-- What the action `closeListen` of `stop()` does in the world (Drv/HttpSrv.lean maps it to the
    acceptor's `close()`, `NetSt.accClose` of SimVerif/Tcp.lean): the listen socket is closed,
    unbound and no longer listening; its registry entry is gone, so — the listen socket having
    been the only holder of its endpoint — a later connect to that endpoint finds no listener
    (`internal_connect` returns no channel: refused) and the port can be bound again. Side
    condition: the acceptor was bound (the constructor binds it before it listens). -/
theorem C16_stop_frees_port (n : NetSt) (now : Int) (name : String) (s : TcpSock)
    (hs : n.tcp? name = some s) (hb : s.bound.isDefault = false)
    (honly : ∀ e ∈ n.reg.tcp, e.1 = s.bound → e.2 = name) :
    (∃ s', (n.accClose now name).1.tcp? name = some s' ∧ s'.isOpen = false ∧
        s'.isListening = false ∧ s'.bound = {}) ∧
    (n.accClose now name).1.reg.tcp.lookup s.bound = none ∧
    (∀ c : String, ((n.accClose now name).1.internalConnect c s.bound).2.2 = none) ∧
    (∀ other : String, 1024 ≤ s.bound.port →
      (simBind (n.accClose now name).1.reg.tcp (n.accClose now name).1.reg.nextPort other s.bound).2.2
        = .ok s.bound) :=
  ⟨accClose_socket n now name s hs, accClose_port_free n now name s hs hb honly⟩

/-! ## non-vacuity: concrete instances -/

section examples

def exCfg : Srv :=
  { handlers := [(str "/h", .fixed (str "hello")), (str "/c", .content 300), (str "/r", .redirect (str "/c"))],
    stalls := [str "/s"] }

def exR1 : RawRequest :=
  { method := str "GET", target := str "/x/../h", version := str "HTTP/1.1", headers := [(str "Host", str " a")] }
def exR2 : RawRequest :=
  { method := str "GET", target := str "/c", version := str "HTTP/1.1", headers := [(str "Range", str " bytes=10-12")] }
def exR3 : RawRequest :=
  { method := str "GET", target := str "/nope", version := str "HTTP/1.1", headers := [(str "CONNECTION", str "  Close ")] }
def exR4 : RawRequest :=
  { method := str "GET", target := str "/h", version := str "HTTP/1.1", headers := [] }
def exStall : RawRequest :=
  { method := str "GET", target := str "/s", version := str "HTTP/1.1", headers := [] }

def exOut : Out :=
  ⟨[str "HTTP/1.1 200 OK\r\ncontent-length: 5\r\n\r\nhello",
    str "HTTP/1.1 206 Partial Content\r\ncontent-length: 3\r\nContent-Range: bytes 10-12/3\r\n\r\n" ++ [10, 11, 12],
    str "HTTP/1.1 404 Not Found\r\ncontent-length: 0\r\n\r\n"], .closed true⟩

theorem ex_wf : ∀ r ∈ [exR1, exR2, exR3, exR4], WellFormed r ∧ Framed r := by decide +kernel

/-- four pipelined requests: registered (through `..`), ranged, unknown + `CONNECTION:  Close`,
    and one more that must NOT be answered -/
theorem ex_expected : expectedOut exCfg [exR1, exR2, exR3, exR4] = exOut := by decide +kernel

/-- the hypotheses of `C16_one_per_request_in_order` are satisfiable, for very different cuts:
    the whole stream at once, and one byte per read completion -/
example : run exCfg [([exR1, exR2, exR3, exR4].map render).flatten] = exOut := by
  rw [C16_one_per_request_in_order exCfg _ ex_wf _ (by simp), ex_expected]

example : run exCfg ((([exR1, exR2, exR3, exR4].map render).flatten).map (fun b => [b])) = exOut := by
  rw [C16_one_per_request_in_order exCfg _ ex_wf _ (by decide +kernel), ex_expected]

/-- a cut in the middle of the first request line and one inside the blank line -/
example : run exCfg [render exR1 |>.take 5, (render exR1 |>.drop 5) ++ (render exR2).take 40,
      (render exR2).drop 40 ++ render exR3 ++ render exR4] = exOut := by
  rw [C16_one_per_request_in_order exCfg _ ex_wf _ (by decide +kernel), ex_expected]

/-- the mechanism itself, evaluated (not through the theorem): the buffer is 500 bytes, the
    stream is delivered in chunks of 7 bytes -/
example : run exCfg [(render exR1).take 7, ((render exR1).drop 7).take 7, (render exR1).drop 14] =
    ⟨[str "HTTP/1.1 200 OK\r\ncontent-length: 5\r\n\r\nhello"], .waiting⟩ := by decide +kernel

/-- keep-alive off: one response, closed -/
example : expectedOut { exCfg with keepAlive := false } [exR1, exR2] =
    ⟨[str "HTTP/1.1 200 OK\r\ncontent-length: 5\r\n\r\nhello"], .closed true⟩ := by decide +kernel

/-- stopping: closed without re-arming accept -/
example : expectedOut { exCfg with closing := true } [exR3] =
    ⟨[str "HTTP/1.1 404 Not Found\r\ncontent-length: 0\r\n\r\n"], .closed false⟩ := by decide +kernel

/-- a stalled path: no response, nothing after it either -/
example : WellFormed exStall ∧ Framed exStall ∧ answer exCfg (canon exStall) = .stall ∧
    expectedOut exCfg [exR4, exStall, exR4] =
      ⟨[str "HTTP/1.1 200 OK\r\ncontent-length: 5\r\n\r\nhello"], .stalled⟩ := by decide +kernel

/-- malformed: a header line without a colon -/
example : firstBlank (str "GET /h HTTP/1.1\r\nbad\r\n\r\n") = some 24 := by decide +kernel

/-- `Framed` is needed: `WellFormed` allows a blank line inside the target, and then the
    server (rightly) frames the bytes differently -/
example : WellFormed { method := str "GET", target := str "/a\r\n\r\nb", version := str "HTTP/1.1", headers := [] } ∧
    ¬ Framed { method := str "GET", target := str "/a\r\n\r\nb", version := str "HTTP/1.1", headers := [] } := by
  decide +kernel

/-- `C16_ranged_content` instantiated: bytes 250..259 wrap around modulo 256 -/
example : contentHandler 300 [(str "range", str "bytes=250-259")] = .ok
    (str "HTTP/1.1 206 Partial Content\r\ncontent-length: 10\r\nContent-Range: bytes 250-259/10\r\n\r\n"
      ++ [250, 251, 252, 253, 254, 255, 0, 1, 2, 3]) := by
  have h := C16_ranged_content 300 [(str "range", str "bytes=250-259")] (str "250") (str "259")
    (by decide +kernel) (by decide +kernel) (by decide +kernel) (by decide +kernel) (by decide +kernel)
    (by decide +kernel)
  rw [h]
  decide +kernel

/-- a hostile range: the handler throws, the connection is closed -/
example : contentHandler 300 [(str "range", str "bytes=0-9223372036854775807")] = .error .throw ∧
    contentHandler 300 [(str "range", str "bytes=x-y")] = .error .throw ∧
    contentHandler 300 [(str "range", str "bytes=5-2")] = .error .throw := by
  refine ⟨?_, ?_, ?_⟩ <;> decide +kernel

/-- `C16_stop_frees_port` on a concrete world: a listening acceptor with an accept outstanding;
    before the close a connect finds it, afterwards it does not and the port can be bound -/
def exEp : Ep := { addr := "10.0.1.1", port := 8080 }
def exSock : TcpSock :=
  { node := "n1", isOpen := true, bound := exEp, fwd := some 0, acc := some { queueLimit := 20, acceptOp := some (.into 3000000 "w0.c" true) } }
def exNet : NetSt :=
  { reg := { tcp := [(exEp, "w0.l")] }, fwds := [some "w0.l"], tcps := [("w0.l", exSock), ("w0.c", { node := "n1" })] }

example : exSock.isListening = true ∧ (exNet.internalConnect "w0.c" exEp).2.2 ≠ none ∧
    ((exNet.accClose 0 "w0.l").1.internalConnect "w0.c" exEp).2.2 = none ∧
    (simBind (exNet.accClose 0 "w0.l").1.reg.tcp (exNet.accClose 0 "w0.l").1.reg.nextPort "a0" exEp).2.2 = .ok exEp := by
  have h := C16_stop_frees_port exNet 0 "w0.l" exSock rfl (by decide +kernel) (by decide +kernel)
  refine ⟨by decide +kernel, by decide +kernel, h.2.2.1 "w0.c", ?_⟩
  exact h.2.2.2 "a0" (by decide +kernel)

end examples

end SimVerif.HttpServer
