/-
  C09 — a queue forwards in arrival order, and every departure obeys
        leave = max(departure of the previous packet, own arrival + latency) + size / rate.

  Property theorems only (mechanism model: SimVerif/Queue.lean; open system and the kernel's
  guarantees as side condition `QS.okRun`: SimVerif/QueueSys.lean; invariant:
  SimVerif/Lemmas/QueueInv.lean). All statements quantify over every well-timed history
  `ls` from the initial state — every arrival pattern (including re-entrant arrivals during
  a forward) and every admissible callback schedule — for a configuration `c` with
  non-negative latency / serialisation times and the re-entry guard present (`c.WF`).
-/
import SimVerif.Lemmas.QueueInv

namespace SimVerif

/-- **Stamps.** The accepted arrivals, each stamped arrival instant + latency, are exactly
    the forwarded packets (with the stamp they were forwarded under) followed by the queue
    content: same packets, same order, nothing skipped, nothing invented. -/
theorem C09_stamps (c : QCfg) (hc : c.WF) (ls : List QLbl) (h : QS.okRun c {} ls) :
    ((QS.run c {} ls).arrLog.filter (fun a => !a.2.2)).map (fun a => (a.1 + c.lat, a.2.1))
      = (QS.run c {} ls).fwdLog.map (fun f => (f.ts, f.pkt)) ++ (QS.run c {} ls).q.items :=
  (QInv.run_init hc ls h).stamps

/-- **FIFO.** Packets are forwarded in arrival order, none skipped. -/
theorem C09_fifo (c : QCfg) (hc : c.WF) (ls : List QLbl) (h : QS.okRun c {} ls) :
    ((QS.run c {} ls).arrLog.filter (fun a => !a.2.2)).map (fun a => a.2.1)
      = (QS.run c {} ls).fwdLog.map Fwd.pkt ++ (QS.run c {} ls).q.items.map Prod.snd := by
  have := congrArg (List.map Prod.snd) (C09_stamps c hc ls h)
  simpa [List.map_map, Function.comp_def] using this

/-- **Departure recurrence.** leave = max(previous departure, arrival + latency) + size/rate
    (`serEff` is 0 for bandwidth 0). -/
theorem C09_recurrence (c : QCfg) (hc : c.WF) (ls : List QLbl) (h : QS.okRun c {} ls) :
    ∀ f ∈ (QS.run c {} ls).fwdLog, f.dep = omax f.prev f.ts + c.serEff f.pkt.size :=
  (QInv.run_init hc ls h).recur

/-- **`prev` is the departure instant of the packet forwarded just before** (none for the first). -/
theorem C09_prev_chain (c : QCfg) (hc : c.WF) (ls : List QLbl) (h : QS.okRun c {} ls) :
    (QS.run c {} ls).fwdLog.map Fwd.prev
      = (none :: (QS.run c {} ls).fwdLog.map (fun f => some f.dep)).take (QS.run c {} ls).fwdLog.length :=
  Linked_take none _ (QInv.run_init hc ls h).linked

/-- **No packet crosses the hop faster than latency + serialisation.** -/
theorem C09_min_crossing (c : QCfg) (hc : c.WF) (ls : List QLbl) (h : QS.okRun c {} ls) :
    ∀ f ∈ (QS.run c {} ls).fwdLog, f.ts + c.serEff f.pkt.size ≤ f.dep := by
  intro f hf
  have h1 := C09_recurrence c hc ls h f hf
  have h2 := omax_ge f.prev f.ts
  omega

/-- **Departures are in non-decreasing time order.** -/
theorem C09_departures_monotone (c : QCfg) (hc : c.WF) (ls : List QLbl) (h : QS.okRun c {} ls) :
    ((QS.run c {} ls).fwdLog.map Fwd.dep).Pairwise (· ≤ ·) :=
  (QInv.run_init hc ls h).mono

/-- **Work conservation.** A backlogged hop always has its next callback pending. -/
theorem C09_work_conserving (c : QCfg) (hc : c.WF) (ls : List QLbl) (h : QS.okRun c {} ls) :
    (QS.run c {} ls).q.items ≠ [] → (QS.run c {} ls).q.forwarding = false →
      (QS.run c {} ls).timer.isSome ∨ (QS.run c {} ls).posted ≠ [] := by
  intro hne _
  have hI := QInv.run_init hc ls h
  cases hti : (QS.run c {} ls).timer with
  | some x => simp
  | none =>
    right; intro hpo
    exact hne (hI.idle hti hpo)

/-- between labels the queue is never inside a forward -/
theorem C09_not_forwarding (c : QCfg) (hc : c.WF) (ls : List QLbl) (h : QS.okRun c {} ls) :
    (QS.run c {} ls).q.forwarding = false :=
  (QInv.run_init hc ls h).nf

/-- … and conversely an empty hop has nothing pending; at most one callback is ever pending. -/
theorem C09_idle_quiet (c : QCfg) (hc : c.WF) (ls : List QLbl) (h : QS.okRun c {} ls) :
    ((QS.run c {} ls).q.items = [] → (QS.run c {} ls).timer = none ∧ (QS.run c {} ls).posted = [])
    ∧ ((QS.run c {} ls).timer ≠ none → (QS.run c {} ls).posted = []) :=
  ⟨(QInv.run_init hc ls h).toQCtl.empty_idle, (QInv.run_init hc ls h).excl⟩

/-- **What exactly is pending.**
    * timer armed for `next_packet_sent` at `e`: the link has a rate and `e` is
      max(previous departure, head stamp) + serialisation time of the head;
    * timer armed for `begin_send_next_packet` at `e`: `e` is the head's stamp and the previous
      departure is not later;
    * a posted callback: it is the single `next_packet_sent`, the link is infinitely fast and
      the current instant is max(previous departure, head stamp). -/
theorem C09_busy_kind (c : QCfg) (hc : c.WF) (ls : List QLbl) (h : QS.okRun c {} ls) :
    (∀ e, (QS.run c {} ls).timer = some (e, .sent) →
        c.bw ≠ 0 ∧ ∃ ts p rest, (QS.run c {} ls).q.items = (ts, p) :: rest
          ∧ e = omax (QS.run c {} ls).prevDep ts + c.ser p.size)
    ∧ (∀ e, (QS.run c {} ls).timer = some (e, .begin) →
        (∃ p rest, (QS.run c {} ls).q.items = (e, p) :: rest)
          ∧ ∀ d, (QS.run c {} ls).prevDep = some d → d ≤ e)
    ∧ ((QS.run c {} ls).posted ≠ [] →
        (QS.run c {} ls).posted = [.sent] ∧ c.bw = 0
          ∧ ∃ ts p rest, (QS.run c {} ls).q.items = (ts, p) :: rest
              ∧ (QS.run c {} ls).now = omax (QS.run c {} ls).prevDep ts) :=
  ⟨(QInv.run_init hc ls h).tsent, (QInv.run_init hc ls h).tbegin, (QInv.run_init hc ls h).post⟩

/-- **The link never emits faster than its rate**: consecutive departures are at least the
    serialisation time of the later packet apart. -/
theorem C09_rate_bound (c : QCfg) (hc : c.WF) (ls : List QLbl) (h : QS.okRun c {} ls)
    (hbw : c.bw ≠ 0) (A B : List Fwd) (f₁ f₂ : Fwd)
    (hs : (QS.run c {} ls).fwdLog = A ++ f₁ :: f₂ :: B) :
    f₂.dep - f₁.dep ≥ c.ser f₂.pkt.size := by
  have hI := QInv.run_init hc ls h
  have hl := hI.linked; rw [hs] at hl
  have hp := Linked_adjacent none A B f₁ f₂ hl
  have hr := hI.recur f₂ (by rw [hs]; simp)
  rw [hp] at hr
  have := omax_some_ge f₁.dep f₂.ts
  simp [QCfg.serEff, hbw] at hr
  omega

/-- **Every callback finds a packet**: whenever the kernel runs `begin_send_next_packet` or
    `next_packet_sent`, the queue is non-empty (the unconditional `m_queue.front()` is safe). -/
theorem C09_callbacks_find_packet (c : QCfg) (hc : c.WF) (pre post : List QLbl) (l : QLbl)
    (h : QS.okRun c {} (pre ++ l :: post))
    (hl : (∃ t, l = .cbBegin t) ∨ (∃ t re, l = .cbSent t re)) :
    (QS.run c {} pre).q.items ≠ [] :=
  beginSend_called_nonempty hc pre post l h hl


/-! ### routes of several hops

A packet crossing hops 1…n arrives at hop i+1 no earlier than it left hop i (`forward_packet`
is synchronous, sinks between queues add no time); each queue hop satisfies
`C09_min_crossing`: it leaves no earlier than `arrival + latency + serialisation`. The
end-to-end delay is therefore bounded below by the sum along the route — the UDP one-way
delay, each half of a TCP connect round trip, and every segment of a bulk transfer. -/

/-- one hop as seen by one packet: (arrival, departure, latency, serialisation time) -/
structure HopPass where
  arr : Int
  dep : Int
  lat : Int
  ser : Int

/-- every hop respects its minimum crossing time, and hops are traversed in order -/
def RouteOK : List HopPass → Prop
  | [] => True
  | [h] => h.arr + h.lat + h.ser ≤ h.dep
  | h :: h' :: rest => h.arr + h.lat + h.ser ≤ h.dep ∧ h.dep ≤ h'.arr ∧ RouteOK (h' :: rest)

theorem C09_route_lower_bound (h : HopPass) (rest : List HopPass) (hok : RouteOK (h :: rest)) :
    h.arr + ((h :: rest).map (fun x => x.lat + x.ser)).sum ≤ ((h :: rest).getLast (by simp)).dep := by
  induction rest generalizing h with
  | nil => simp only [RouteOK] at hok; simp; omega
  | cons h' rest ih =>
    obtain ⟨h1, h2, h3⟩ := hok
    have := ih h' h3
    simp only [List.map_cons, List.sum_cons] at this ⊢
    rw [List.getLast_cons (by simp)]
    omega

/-- a three-hop route: 10+5, 20+1, 0+7 -/
example : RouteOK [⟨0, 15, 10, 5⟩, ⟨15, 40, 20, 1⟩, ⟨40, 47, 0, 7⟩] := by simp [RouteOK]

/-! ### non-vacuity: a well-timed history exists, and the logs are what the recurrence says -/

example : QS.okRun QEx.cfg {} QEx.hist := by decide

/-- (id, stamp, prev, departure): p2's stamp is 15 but p1 leaves at 100010, so p2 leaves at
    max(100010, 15) + 50·1000; the over-capacity ACK p4 follows. p6 (re-entrant) is still queued
    and its `next_packet_sent` is armed for max(200010, 100020) + 50·1000. -/
example : (QS.run QEx.cfg {} QEx.hist).fwdLog.map (fun f => (f.pkt.id, f.ts, f.prev, f.dep))
    = [(1, 10, none, 100010), (2, 15, some 100010, 150010), (4, 17, some 150010, 200010)] := by decide

example : (QS.run QEx.cfg {} QEx.hist).q.items.map (fun x => (x.1, x.2.id)) = [(100020, 6)]
    ∧ (QS.run QEx.cfg {} QEx.hist).timer = some (250010, .sent) := by decide

example := C09_recurrence QEx.cfg QEx.cfg_wf QEx.hist (by decide)
example := C09_busy_kind QEx.cfg QEx.cfg_wf QEx.hist (by decide)

/-- the hypothesis `c.WF.guard` is needed: without the guard (pinned tree) a re-entrant arrival
    into the just-emptied queue starts the sender, `next_packet_sent` starts it again, the
    second `expires_at` aborts the first wait: two callbacks pending for one packet. -/
example : QS.okRun QEx.cfgPinned {} QEx.histPinned
    ∧ (QS.run QEx.cfgPinned {} QEx.histPinned).timer = some (100020, .begin)
    ∧ (QS.run QEx.cfgPinned {} QEx.histPinned).posted = [.begin]
    ∧ (QS.run QEx.cfgPinned {} QEx.histPinned).q.items.length = 1 := by decide

/-- bandwidth 0: both packets leave at the instant of arrival + latency, via `post` -/
example : QS.okRun QEx.cfg0 {} QEx.hist0 := by decide
example : (QS.run QEx.cfg0 {} QEx.hist0).fwdLog.map (fun f => (f.pkt.id, f.ts, f.prev, f.dep))
    = [(1, 3, none, 3), (2, 3, some 3, 3)] := by decide

end SimVerif
