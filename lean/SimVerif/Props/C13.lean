/-
  C13 — a NAT hop rewrites the visible source address and nothing else.

  The hop is `natApply` (SimVerif/Nat.lean): the pure function on (packet, channel table) that
  `forwardPkt` in Drv/Kernel.lean CALLS in its `.nat` case before handing the packet to the
  next hop — the world driver that reproduces the implementation's traces executes exactly
  the function these theorems are about. TCP views come from the open handshake system
  (SimVerif/AcceptSys.lean, Props/C07.lean), whose adversary may pass any packet in flight
  through any number of NAT hops (`natRewrite` label).
-/
import SimVerif.Props.C07
import SimVerif.Drv.Kernel

namespace SimVerif
open Hs

/-! ### the hop -/

/-- **`C13_only_source_address`.** The packet leaves the hop with its source address replaced
    by the external address and its source port kept; payload, type, sequence number, length,
    overhead, error code, remaining hops, drop callback, channel, byte counter are unchanged.
    In the channel table nothing but `visible_ep[0].address` of the packet's own channel can
    change (and it becomes the external address, on a SYN). -/
theorem C13_only_source_address (ext : String) (pk : Pkt) (chans : List Chan) :
    { (natApply ext pk chans).1 with src := pk.src } = pk
    ∧ (natApply ext pk chans).1.src = ext ++ ":" ++ portSuffix pk.src
    ∧ portSuffix (natApply ext pk chans).1.src = portSuffix pk.src
    ∧ (natApply ext pk chans).2.length = chans.length
    ∧ (∀ i : Nat, ((natApply ext pk chans).2[i]?).map (fun ch : Chan => { ch with vis0 := { ch.vis0 with addr := "" } })
            = (chans[i]?).map (fun ch : Chan => { ch with vis0 := { ch.vis0 with addr := "" } }))
    ∧ (∀ i : Nat, pk.chan ≠ some i → (natApply ext pk chans).2[i]? = chans[i]?)
    ∧ (∀ c ch, pk.ty = .syn → pk.chan = some c → chans[c]? = some ch →
          (natApply ext pk chans).2[c]? = some { ch with vis0 := { ch.vis0 with addr := ext } }) := by
  refine ⟨rfl, rfl, portSuffix_natRewrite _ _, ?_, ?_, ?_, ?_⟩
  · unfold natApply natApplyP
    cases hc : pk.chan.bind (fun c => chans[c]?) with
    | none => rfl
    | some ch => simp only; split <;> simp
  · intro i
    unfold natApply natApplyP
    cases hc : pk.chan.bind (fun c => chans[c]?) with
    | none => rfl
    | some ch =>
      simp only; split
      · simp only [List.getElem?_mapIdx]
        cases hpc : pk.chan with
        | none => simp [hpc] at hc
        | some c =>
          simp only [hpc, Option.bind_some] at hc
          by_cases hic : i = c
          · subst hic; simp [hc]
          · simp only [Option.getD_some, hic, if_false]
            cases chans[i]? <;> rfl
      · rfl
  · intro i hi
    unfold natApply natApplyP
    cases hc : pk.chan.bind (fun c => chans[c]?) with
    | none => rfl
    | some ch =>
      simp only; split
      · simp only [List.getElem?_mapIdx]
        cases hpc : pk.chan with
        | none => simp [hpc] at hc
        | some c =>
          have hic : i ≠ c := by intro h; subst h; exact hi hpc
          simp only [Option.getD_some, hic, if_false]
          cases chans[i]? <;> rfl
      · rfl
  · intro c ch hty hc hch
    rw [natApply_snd_syn ext pk chans c ch hty hc hch]
    simp [List.getElem?_mapIdx, hch]

/-- the world driver's NAT case IS this function: a packet whose next hop is a NAT is handed to
    the hop after it as `natApply` left it, with the channel table `natApply` returned -/
theorem C13_forwardPkt_is_natApply (p : KParams) (f : Nat) (name ext : String) (rest : List String) (pk : Pkt)
    (s : Drv.KSt) (hn : name.startsWith "@" = false) (hh : s.hops.lookup name = some (.nat ext)) :
    Drv.forwardPkt p (f + 1) { pk with hops := name :: rest } s
      = Drv.forwardPkt p f (natApply ext { pk with hops := rest } s.net.chans).1
          { s with net := { s.net with chans := (natApply ext { pk with hops := rest } s.net.chans).2 } } := by
  rw [Drv.forwardPkt]
  simp only [hn, hh]
  rfl

/-- **`C13_only_syn_rewrites`** (the repaired behaviour, fda8448): a packet that is not a SYN
    leaves the channel table untouched. -/
theorem C13_only_syn_rewrites (ext : String) (pk : Pkt) (chans : List Chan) (h : pk.ty ≠ .syn) :
    (natApply ext pk chans).2 = chans :=
  natApply_snd_nonsyn ext pk chans h

/-- **`C13_asis_synack_corrupts`**: the pinned tree rewrote on every packet carrying a channel.
    Witness: the connector sits behind NAT 99.0.0.1 (its SYN made `vis0 = 99.0.0.1:2000`); the
    SYN-ACK travelling back crosses the ACCEPTOR's NAT 99.0.0.2: as-is, the connector's visible
    address becomes the acceptor's external address; repaired, it stays. -/
theorem C13_asis_synack_corrupts :
    let ch : Chan := { ep0 := { addr := "10.0.0.1", port := 2000 }, vis0 := { addr := "99.0.0.1", port := 2000 },
                       ep1 := { addr := "10.0.1.1", port := 8000 }, vis1 := { addr := "10.0.1.1", port := 8000 } }
    let synack : Pkt := { id := 0, ty := .synack, chan := some 0, src := "10.0.1.1:8000" }
    ((natApplyP false "99.0.0.2" synack [ch]).2.map (·.vis0)) = [{ addr := "99.0.0.2", port := 2000 }]
    ∧ ((natApply "99.0.0.2" synack [ch]).2.map (·.vis0)) = [{ addr := "99.0.0.1", port := 2000 }] := by
  decide

/-! ### UDP: the sender endpoint a receiver is told -/

theorem natChain_cons (x : String) (xs : List String) (pk : Pkt) (chans : List Chan) :
    natChain (x :: xs) pk chans = natChain xs (natApply x pk chans).1 (natApply x pk chans).2 := rfl

/-- through `k` NAT hops: everything but the source is unchanged; channels of packets that
    carry none (datagrams) are untouched -/
theorem natChain_frame (exts : List String) (pk : Pkt) (chans : List Chan) :
    { (natChain exts pk chans).1 with src := pk.src } = pk
    ∧ (pk.chan = none → (natChain exts pk chans).2 = chans) := by
  induction exts generalizing pk chans with
  | nil => exact ⟨rfl, fun _ => rfl⟩
  | cons x xs ih =>
    rw [natChain_cons]
    obtain ⟨h1, h2⟩ := ih (natApply x pk chans).1 (natApply x pk chans).2
    constructor
    · exact congrArg (fun q : Pkt => { q with src := pk.src }) h1
    · intro hc
      rw [h2 hc]
      unfold natApply natApplyP
      simp [hc]

/-- … and the source is the printed endpoint with the address of the LAST hop, the original port -/
theorem natChain_src (exts : List String) (hv4 : ∀ e ∈ exts, addrIsV4 e = true) (e : Ep) (pk : Pkt) (chans : List Chan)
    (hsrc : pk.src = e.toString) :
    (natChain exts pk chans).1.src = ({ e with addr := exts.getLast?.getD e.addr } : Ep).toString := by
  induction exts generalizing pk chans e with
  | nil => simpa [natChain] using hsrc
  | cons x xs ih =>
    rw [natChain_cons]
    have hx := hv4 x List.mem_cons_self
    have h1 : (natApply x pk chans).1.src = ({ e with addr := x } : Ep).toString := by
      rw [natApply_fst]; simp only; rw [hsrc]; exact natRewrite_toString e x hx
    rw [ih (fun y hy => hv4 y (List.mem_cons_of_mem _ hy)) _ _ _ h1]
    cases xs with
    | nil => rfl
    | cons y ys =>
      cases hl : (y :: ys).getLast? with
      | none => simp at hl
      | some z => simp [List.getLast?_cons_cons, hl]

theorem abortSend_forwards (name : String) (u : UdpSock) : fwdPkts (u.abortSend name).2 = [] := by
  unfold UdpSock.abortSend
  cases u.waitSendH <;> simp [fwdPkts]

/-- what `send_to` fwdPkts: one datagram, from the socket's own bound endpoint, carrying the
    payload, no channel -/
theorem udpSendTo_forward (n : NetSt) (now : Int) (name : String) (dst : Ep) (payload : List UInt8) (q : Pkt)
    (hq : q ∈ fwdPkts (n.udpSendTo now name dst payload).2.1) :
    ∃ u, (n.udpSendTo now name dst payload).1.udp? name = some u ∧ q.src = u.bound.toString
      ∧ q.payload = payload ∧ q.ty = .payload ∧ q.chan = none ∧ q.len = payload.length := by
  unfold NetSt.udpSendTo at hq ⊢
  cases hu : n.udp? name with
  | none => simp [hu] at hq
  | some u0 =>
    simp only [hu] at hq ⊢
    have hab := abortSend_forwards name u0
    generalize u0.abortSend name = ab at *
    obtain ⟨u1, e0⟩ := ab
    simp only at hab hq ⊢
    generalize (if u1.bound.isDefault = true then (n.setUdp name u1).udpBind name { } else (n.setUdp name u1, Ec.ok)) = rb at *
    obtain ⟨n1, ecb⟩ := rb
    simp only at hq ⊢
    split at hq
    · simp [hab] at hq
    · split
      · rename_i hne; exact absurd hne (by assumption)
      · cases hu1 : n1.udp? name with
        | none => simp [hu1, hab] at hq
        | some u =>
          simp only [hu1] at hq ⊢
          split at hq
          · simp [hab] at hq
          · split
            · rename_i h1 h2; exact absurd h2 h1
            · split at hq
              · simp [hab] at hq
              · split
                · rename_i h1 h2; exact absurd h2 h1
                · split at hq
                  · simp [hab] at hq
                  · split
                    · rename_i h1 h2; exact absurd h2 h1
                    · split at hq
                      · simp [hab] at hq
                      · split
                        · rename_i h1 h2; exact absurd h2 h1
                        · cases hr : n1.udpRoute u.bound dst with
                          | none => simp [hr, hab] at hq
                          | some hops =>
                            simp only [hr] at hq ⊢
                            rw [fwdPkts_append, fwdPkts_append, hab, fwdPkts_ite_single _ _ (by intro c h; cases h)] at hq
                            simp [fwdPkts] at hq
                            subst hq
                            exact ⟨_, udp?_setUdp_same _ _ _, rfl, rfl, rfl, rfl, rfl⟩

/-- **`C13_udp_source`.** A datagram sent with `send_to` and carried through `k` NAT hops is
    queued at the receiver unchanged except for its source, and `receive_from` reports
    `(external address of the LAST hop, the sender's own port)` together with the payload; the
    sender's own local endpoint is not touched; no channel is touched. -/
theorem C13_udp_source (n : NetSt) (now : Int) (name : String) (dst : Ep) (payload : List UInt8) (q : Pkt)
    (hq : q ∈ fwdPkts (n.udpSendTo now name dst payload).2.1)
    (exts : List String) (hv4 : ∀ e ∈ exts, addrIsV4 e = true) (chans : List Chan) :
    ∃ u, (n.udpSendTo now name dst payload).1.udp? name = some u
      ∧ (natChain exts q chans).1.src = ({ u.bound with addr := exts.getLast?.getD u.bound.addr } : Ep).toString
      ∧ (natChain exts q chans).1.payload = payload
      ∧ { (natChain exts q chans).1 with src := q.src } = q
      ∧ (natChain exts q chans).2 = chans
      ∧ ∀ (r : UdpSock) (caps : List Nat), r.isOpen = true → r.bound.isDefault = false → r.queue = [] →
          r.queueSize + (natChain exts q chans).1.size ≤ 262144 → r.recvH = none → r.waitRecvH = none →
          ((r.incoming (natChain exts q chans).1).1.receiveFrom caps).2
            = .ok (payload.take (caps.foldl (· + ·) 0),
                   ({ u.bound with addr := exts.getLast?.getD u.bound.addr } : Ep).toString) := by
  obtain ⟨u, h1, h2, h3, _, h5, _⟩ := udpSendTo_forward n now name dst payload q hq
  obtain ⟨f1, f2⟩ := natChain_frame exts q chans
  have hsrc := natChain_src exts hv4 u.bound q chans h2
  have hpl : (natChain exts q chans).1.payload = payload := by
    have := congrArg Pkt.payload f1; simpa [h3] using this
  refine ⟨u, h1, hsrc, hpl, f1, f2 h5, ?_⟩
  intro r caps hop hb hqe hsz hr1 hr2
  unfold UdpSock.incoming
  have : ¬ (r.queueSize + ((natChain exts q chans).1.size : Int) > 262144) := by omega
  simp only [this, if_false]
  unfold UdpSock.maybeWakeup
  simp only [hqe, List.nil_append, List.length_singleton, hr1, hr2, Option.isNone_none, Bool.and_self, Bool.or_true, if_true]
  unfold UdpSock.receiveFrom
  simp [hop, hb, hpl, hsrc]

/-- **`C13_no_nat_real_address`** (UDP): no NAT on the route — the receiver is told the sender's
    real bound endpoint. -/
theorem C13_no_nat_real_address (n : NetSt) (now : Int) (name : String) (dst : Ep) (payload : List UInt8) (q : Pkt)
    (hq : q ∈ fwdPkts (n.udpSendTo now name dst payload).2.1) (chans : List Chan) :
    ∃ u, (n.udpSendTo now name dst payload).1.udp? name = some u ∧ (natChain [] q chans).1.src = u.bound.toString := by
  obtain ⟨u, h1, h2, _⟩ := udpSendTo_forward n now name dst payload q hq
  exact ⟨u, h1, h2⟩

/-- a `receive_from` posted BEFORE the datagram arrives completes with the same sender endpoint
    (the `ep=` the handler is given) -/
theorem C13_udp_source_pending (q : Pkt) (r : UdpSock) (op : RecvOp)
    (hop : r.isOpen = true) (hb : r.bound.isDefault = false) (hqe : r.queue = [])
    (hsz : r.queueSize + q.size ≤ 262144) (hr1 : r.recvH = some op) (hnull : r.recvNull = false) :
    (r.incoming q).2
      = [.post { h := op.h, ec := .ok, extra := recvExtra op.withEp (q.payload.take (op.caps.foldl (· + ·) 0)) q.src, data := q.payload.take (op.caps.foldl (· + ·) 0), src := q.src }] := by
  unfold UdpSock.incoming
  have : ¬ (r.queueSize + (q.size : Int) > 262144) := by omega
  simp only [this, if_false]
  unfold UdpSock.maybeWakeup
  simp only [hqe, List.nil_append, List.length_singleton, hr1, hnull]
  unfold UdpSock.asyncReceive UdpSock.receiveFrom
  simp [hop, hb]

/-! ### TCP: the views of a connection established through NAT hops -/

theorem natView_eq (log : List (Nat × String)) (c : Nat) (e : Ep) :
    natView log c e = { e with addr := (((log.filter (fun x => x.1 == c)).getLast?).map (·.2)).getD e.addr } := by
  unfold natView
  cases (log.filter (fun x => x.1 == c)).getLast? <;> rfl

section system
variable (cfg : NetCfg) (accs clients : List (String × String)) (tp : TParams)

/-- **`C13_tcp_views`.** In every reachable state of the open handshake system (any number of
    acceptors, re-opened at will; user cancel / close) — the adversary passes SYNs, SYN-ACKs and
    anything else in flight through NAT hops at will — for every completed accept `e` of an
    acceptor listening on `e.lep`:
    * the endpoint reported by accept = the accepted socket's remote endpoint = the connector's
      bound endpoint with the address of the LAST NAT hop its SYN crossed, the original port;
    * the connector's own local endpoint, the endpoint it dialled and its view of the acceptor
      (`remote_endpoint()`) are NOT altered, whatever the SYN-ACK crossed on its way back. -/
theorem C13_tcp_views (ls : List HLbl) (hok : HS.okRun tp (HS.init cfg accs clients) ls) :
    let s := HS.run tp (HS.init cfg accs clients) ls
    ∀ e ∈ s.accLog, ∃ op c ch d,
      e.op = some op ∧ e.cid = some c ∧ s.net.chans[c]? = some ch ∧ s.dialLog[c]? = some d
      ∧ ch.vis0 = { d.ep0 with addr := (((s.natLog.filter (fun x => x.1 == c)).getLast?).map (·.2)).getD d.ep0.addr }
      ∧ e.compl.extra = (if op.withEp then "ep=" ++ ch.vis0.toString else "")
      ∧ (∀ sk, s.net.tcp? op.peer = some sk → sk.chan = some c → ch.vis (ch.remoteIdx sk.bound) = ch.vis0)
      ∧ ch.ep0 = d.ep0 ∧ ch.vis1 = e.lep ∧ d.target = e.lep
      ∧ (∀ o sk, s.net.tcp? o = some sk → sk.chan = some c → sk.bound = ch.ep0 →
            sk.bound = d.ep0 ∧ ch.vis (ch.remoteIdx sk.bound) = e.lep) := by
  intro s e he
  obtain ⟨op, c, ch, d, q1, q2, q3, q4, _, _, _, q8, q9, _, q10, _, q12, q13, q14, q15, _⟩ :=
    C07_views cfg accs clients tp ls hok e he
  refine ⟨op, c, ch, d, q1, q2, q3, q4, by rw [q15, natView_eq], q8, fun sk h1 h2 => (q14 sk h1 h2).2, q10,
    by rw [q12, q9], q9, ?_⟩
  intro o sk h1 h2 h3
  exact ⟨h3.trans q10, by rw [q13 o sk h1 h2 h3, q9]⟩

/-- **`C13_no_nat_real_address`** (TCP): a connector whose SYN crossed no NAT is seen with its
    real bound endpoint. -/
theorem C13_tcp_no_nat_real_address (ls : List HLbl) (hok : HS.okRun tp (HS.init cfg accs clients) ls) :
    let s := HS.run tp (HS.init cfg accs clients) ls
    ∀ e ∈ s.accLog, ∀ c ch d, e.cid = some c → s.net.chans[c]? = some ch → s.dialLog[c]? = some d →
      (∀ x ∈ s.natLog, x.1 ≠ c) → ch.vis0 = d.ep0 := by
  intro s e he c ch d hc hch hd hno
  obtain ⟨op, c', ch', d', _, q2, q3, q4, q5, _⟩ := C13_tcp_views cfg accs clients tp ls hok e he
  rw [hc] at q2; cases q2
  rw [hch] at q3; cases q3
  rw [hd] at q4; cases q4
  rw [q5]
  have : s.natLog.filter (fun x => x.1 == c) = [] := by
    rw [List.filter_eq_nil_iff]; intro x hx; simpa using hno x hx
  rw [this]; rfl

end system

set_option maxRecDepth 100000 in
/-- the example history of Props/C07 (s2's SYN crosses NAT 99.0.0.9, the others none): accept
    reports `99.0.0.9:2002` for s2 and the accepted socket for s1 sees the real `10.0.1.1:2001`;
    the connectors see the acceptors as `10.0.0.1:8000` / `10.0.0.2:9000` -/
example : HEx.fin.net.chans.map (fun c => (c.ep0.toString, c.vis0.toString, c.vis1.toString))
    = [("10.0.1.1:2001", "10.0.1.1:2001", "10.0.0.1:8000"), ("10.0.1.1:2002", "99.0.0.9:2002", "10.0.0.1:8000"),
       ("10.0.1.1:2003", "10.0.1.1:2003", "10.0.0.2:9000"), ("10.0.1.1:7000", "10.0.1.1:7000", "10.0.0.2:9000")] := by
  decide

set_option maxRecDepth 100000 in
/-- the SYN-ACK of channel 0 crossing a NAT on the acceptor's side changes no view (repaired
    behaviour), and the theorems above cover such histories -/
example : ((HS.run {} HEx.init
      [.openAcc "a0" true, .bind "a0" HEx.aep, .listen "a0" 5, .connect "s1" HEx.aep 1, .natRewrite 0 "99.0.0.9",
       .deliverSyn 0 "a0", .accept "a0" (.into 10 "s0" true),
       .natRewrite 0 "99.0.0.2", .deliverSynAck 0 "s1"]).net.chans.map (fun c => (c.vis0.toString, c.vis1.toString)))
    = [("99.0.0.9:2000", "10.0.0.1:8000")] := by decide

example := C13_tcp_views HEx.cfg HEx.accs HEx.clients {} HEx.hist HEx.hist_ok

/-- a datagram through two NAT hops: the receiver is told the LAST external address, port 6000 -/
example : (natChain ["99.0.0.1", "99.0.0.7"] { id := 0, src := "10.0.0.1:6000", payload := [1, 2, 3], len := 3 } []).1.src
    = "99.0.0.7:6000" := by decide

end SimVerif
