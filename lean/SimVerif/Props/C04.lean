/-
  C04 — Completion handlers: never inline, at most once, aborted on cancel / close.

  Property theorems only. Mechanism models: timers `SimVerif/Kernel.lean`, UDP sockets
  `SimVerif/Net.lean`, TCP sockets and acceptors `SimVerif/Tcp.lean`, resolver
  `SimVerif/Resolver.lean`. In these models a completion is an *effect*: `NEff.post c` (the
  C++ `post(ioc, bind(handler, …))`; the kernel model appends it to `ready`, C02 runs it later)
  or `NEff.invoke c` (the handler is called on the spot — only internal timer callbacks do
  that). A handler slot is an `Option` field of the socket. Open systems with ghost logs
  (`started`, `log`, `parked`): `SimVerif/HandlerSys.lean`.

  Vocabulary: `noInvoke effs` — no `.invoke` in the list; `h4_postsOf effs` — the posted
  completions in order; `effIds effs` — handler ids of all completions (posted or invoked);
  `udpAbortRecvEffs u`, `udpAbortSendEffs u`, `tcpAbortRecvEffs s`, `tcpAbortSendEffs s`,
  `tcpAbortConnEffs s`, `tcpAbortAcceptEffs s`, `tcpCancelEffs s` — the `operation_aborted`
  posts of the occupied slots, as explicit expressions of the slots;
  `UdpSock.slotIds` / `TcpSock.slotIds` — the handler ids a socket holds, in abort order.
-/
import SimVerif.Props.C03
import SimVerif.Props.C14
import SimVerif.Lemmas.HandlersKernel
import SimVerif.Lemmas.HandlersTcpSys
import SimVerif.Lemmas.HandlersWire

namespace SimVerif

open HL

/-! ## 1. Never inline: an initiating call only ever *posts* -/

/-- **Timers.** `async_wait`, `cancel`, `expires_at`, `expires_after` run no handler (`ran`, the log
    of executed completions, is untouched): whatever they complete is appended to the ready
    queue, behind everything already there. -/
theorem C04_never_inline_timer (p : KParams) (k : K) (i h : Nat) (e : Int) :
    ((asyncWait p k i h).ran = k.ran ∧ ∃ l, (asyncWait p k i h).ready = k.ready ++ l)
    ∧ ((cancel k i).1.ran = k.ran ∧ ∃ l, (cancel k i).1.ready = k.ready ++ l)
    ∧ ((expiresAt k i e).1.ran = k.ran ∧ ∃ l, (expiresAt k i e).1.ready = k.ready ++ l)
    ∧ ((expiresAfter k i e).1.ran = k.ran ∧ ∃ l, (expiresAfter k i e).1.ready = k.ready ++ l) :=
  ⟨⟨asyncWait_ran p k i h, asyncWait_ready_ext p k i h⟩, ⟨cancel_ran k i, cancel_ready_ext k i⟩,
   ⟨expiresAt_ran k i e, expiresAt_ready_ext k i e⟩,
   ⟨expiresAt_ran k i _, expiresAt_ready_ext k i _⟩⟩

/-- **UDP sockets.** Every entry point the program can call (and the packet-arrival path) returns
    an effect list without `.invoke`. -/
theorem C04_never_inline_udp (n : NetSt) (name : String) (u : UdpSock) (now : Int) (op : RecvOp) (h : Nat)
    (caps : List Nat) (dst : Ep) (pl : List UInt8) (v4 : Bool) (p : Pkt) :
    noInvoke (n.udpAsyncRecv name op).2
    ∧ noInvoke (n.udpWaitRead name h).2
    ∧ noInvoke (n.udpWaitWrite now name h).2
    ∧ noInvoke (n.udpRecvNb name caps).2.1
    ∧ noInvoke (n.udpSendTo now name dst pl).2.1
    ∧ noInvoke (n.udpCancel name).2
    ∧ noInvoke (n.udpClose name).2
    ∧ noInvoke (n.udpOpen name v4).2
    ∧ noInvoke (u.cancel name).2 ∧ noInvoke u.abortRecv.2 ∧ noInvoke (u.abortSend name).2
    ∧ noInvoke (u.asyncReceive op).2 ∧ noInvoke (u.asyncWaitReceive h).2
    ∧ noInvoke u.maybeWakeup.2 ∧ noInvoke (u.incoming p).2 :=
  ⟨ni_udpAsyncRecv _ _ _, ni_udpWaitRead _ _ _, ni_udpWaitWrite _ _ _ _, ni_udpRecvNb _ _ _,
   ni_udpSendTo _ _ _ _ _, ni_udpCancel _ _, ni_udpClose _ _, ni_udpOpen _ _ _, ni_udp_cancel _ _,
   ni_udp_abortRecv _, ni_udp_abortSend _ _, ni_udp_asyncReceive _ _, ni_udp_asyncWaitReceive _ _,
   ni_udp_maybeWakeup _, ni_udp_incoming _ _⟩

/-- **TCP sockets**: the API entry points, the functions behind the control-flow effects
    `.tcpWrite` / `.tcpWake` (`tcpSendSeg`, `tcpSendPacket`, `tcpWriteFinish`), `.tcpResend`
    (`tcpResendOne`) — `tcpWritePrep`, `tcpAckPost`, `tcpPacketDropped`, `tcpBind`, `tcpReadNb`
    return no effects at all — and the packet-arrival path. -/
theorem C04_never_inline_tcp (tp : TParams) (n : NetSt) (name : String) (s : TcpSock) (now : Int) (target : Ep)
    (h : Nat) (rop : ReadOp) (wop : WriteOp) (v4 : Bool) (p : Pkt) (hops : List String) (seg : List UInt8)
    (r : Except Ec Nat) :
    noInvoke (n.tcpConnect now name target h).2
    ∧ noInvoke (n.tcpAsyncRead name rop).2
    ∧ noInvoke (n.tcpWaitRead name h).2
    ∧ noInvoke (n.tcpAsyncWrite name wop).2
    ∧ noInvoke (n.tcpCancel name).2
    ∧ noInvoke (n.tcpClose now name).2
    ∧ noInvoke (n.tcpOpen now name v4).2
    ∧ noInvoke (n.tcpWriteFinish name wop r).2
    ∧ noInvoke (n.tcpSendSeg now name hops seg).2
    ∧ noInvoke (n.tcpSendPacket now name p).2
    ∧ (∀ x, n.tcpResendOne now name = some x → noInvoke x.2)
    ∧ noInvoke (n.tcpIncoming tp now name p).2
    ∧ noInvoke s.cancel.2 ∧ noInvoke s.abortRecv.2 ∧ noInvoke s.abortSend.2
    ∧ noInvoke (s.asyncReadImpl rop).2 ∧ noInvoke (s.asyncWaitReadImpl h).2
    ∧ noInvoke (s.maybeWakeupReader tp).2 :=
  ⟨ni_tcpConnect _ _ _ _ _, ni_tcpAsyncRead _ _ _, ni_tcpWaitRead _ _ _, ni_tcpAsyncWrite _ _ _,
   ni_tcpCancel _ _, ni_tcpClose _ _ _, ni_tcpOpen _ _ _ _, ni_tcpWriteFinish _ _ _ _,
   silent_noInvoke (silent_tcpSendSeg _ _ _ _ _), silent_noInvoke (silent_tcpSendPacket _ _ _ _),
   fun x hx => silent_noInvoke (silent_tcpResendOne _ _ _ x hx), ni_tcpIncoming _ _ _ _ _,
   ni_tcp_cancel _, ni_tcp_abortRecv _, ni_tcp_abortSend _, ni_tcp_asyncReadImpl _ _,
   ni_tcp_asyncWaitReadImpl _ _, ni_tcp_maybeWakeupReader _ _⟩

/-- **Acceptors**: the three `async_accept` overloads, `cancel`, `close`, and the SYN-arrival path
    (`check_accept_queue`, attaching the connection to the peer socket). -/
theorem C04_never_inline_acceptor (n : NetSt) (name peer : String) (s : TcpSock) (now : Int) (op : AcceptOp)
    (p : Pkt) (ep : Ep) (cid : Nat) :
    noInvoke (n.accAsyncAccept now name op).2
    ∧ noInvoke (n.accCancel name).2
    ∧ noInvoke (n.accClose now name).2
    ∧ noInvoke (n.accCheckQueue now name).2
    ∧ noInvoke (n.accIncoming now name p).2
    ∧ noInvoke (n.tcpAttach now peer ep cid).2
    ∧ noInvoke s.abortAccept.2 :=
  ⟨ni_accAsyncAccept _ _ _ _, ni_accCancel _ _, ni_accClose _ _ _, ni_accCheckQueue _ _ _,
   ni_accIncoming _ _ _ _, ni_tcpAttach _ _ _ _ _, ni_tcp_abortAccept _⟩

/-- **Resolver**: `async_resolve` (literal or host name) and `cancel` produce no `REff.invoke`. -/
theorem C04_never_inline_resolver (p : RParams) (r : R) (now : Int) (addr : String) (err : Ec)
    (ips : List String) (lat : Int) (port h : Nat) :
    noInvokeR (r.resolveLiteral now addr port h).2
    ∧ noInvokeR (r.resolveName p now err ips lat port h).2
    ∧ noInvokeR r.cancel.2 :=
  ⟨niR_resolveLiteral _ _ _ _ _, niR_resolveName _ _ _ _ _ _ _ _, niR_cancel _⟩

/-- **Summary.** In the open systems of SimVerif/HandlerSys.lean every label other than the two
    internal timer callbacks (the UDP deferred wait-for-write's timer, the refused connect's
    timer) yields an effect list without `.invoke`: API calls, packet arrivals, drop
    notifications, the write / retransmission loops only post. (`on_lookup` of the resolver is
    the third internal callback: C14.) -/
theorem C04_never_inline (tp : TParams) (n : NetSt) (name : String) :
    (∀ l : ULbl, (∀ ab, l ≠ .sendTimer ab) → noInvoke (l.eff name n).2)
    ∧ (∀ l : h4_HLbl, (∀ h, l ≠ .refusedFired h) → noInvoke (l.eff tp n).2) := by
  constructor
  · intro l hl
    cases l with
    | recv op => exact ni_udpAsyncRecv _ _ _
    | waitRead h => exact ni_udpWaitRead _ _ _
    | waitWrite now h => exact ni_udpWaitWrite _ _ _ _
    | recvNb caps => exact ni_udpRecvNb _ _ _
    | sendTo now dst pl => exact ni_udpSendTo _ _ _ _ _
    | cancel => exact ni_udpCancel _ _
    | close => exact ni_udpClose _ _
    | reopen v4 => exact ni_udpOpen _ _ _
    | bind ep => simp [ULbl.eff]
    | incoming p =>
      simp only [ULbl.eff]
      split
      · simp
      · exact ni_udp_incoming _ _
    | sendTimer ab => exact absurd rfl (hl ab)
  · intro l hl
    cases l with
    | newSock nm node isAcc => simp [h4_HLbl.eff]
    | connect now nm target h => exact ni_tcpConnect _ _ _ _ _
    | read nm op => exact ni_tcpAsyncRead _ _ _
    | waitRead nm h => exact ni_tcpWaitRead _ _ _
    | write nm op => exact ni_tcpAsyncWrite _ _ _
    | runWrite nm h? mid r =>
      simp only [h4_HLbl.eff]
      splits <;> first | simp | exact ni_tcpWriteFinish _ _ _ _
    | readNb nm caps => simp [h4_HLbl.eff]
    | cancel nm => exact ni_tcpCancel _ _
    | close now nm => exact ni_tcpClose _ _ _
    | reopen now nm v4 => exact ni_tcpOpen _ _ _ _
    | bind nm ep => simp [h4_HLbl.eff]
    | accept now nm op => exact ni_accAsyncAccept _ _ _ _
    | listen nm qs => simp [h4_HLbl.eff]
    | accCancel nm => exact ni_accCancel _ _
    | accClose now nm => exact ni_accClose _ _ _
    | incoming now nm p =>
      simp only [h4_HLbl.eff]
      splits <;> first | simp | exact ni_accIncoming _ _ _ _ | exact ni_tcpIncoming _ _ _ _ _
    | dropped nm p => simp [h4_HLbl.eff]
    | resendOne now nm =>
      simp only [h4_HLbl.eff]
      split
      · rename_i r hr; exact silent_noInvoke (silent_tcpResendOne _ _ _ r hr)
      · simp
    | ackPost nm wb acked => simp [h4_HLbl.eff]
    | refusedFired h => exact absurd rfl (hl h)

/-- The inline invocations that do exist come from internal timer callbacks, and each takes
    the handler out of its slot in the same step: the UDP deferred wait-for-write. -/
theorem C04_inline_only_from_callbacks (n : NetSt) (name : String) (u : UdpSock) (hu : n.udp? name = some u) :
    (∀ h, u.waitSendH = some h →
        (n.udpSendWaitFired name false).2 = [.invoke { h := h, ec := .ok }]
        ∧ ∃ u', (n.udpSendWaitFired name false).1.udp? name = some u' ∧ u'.waitSendH = none)
    ∧ (u.waitSendH = none → n.udpSendWaitFired name false = (n, []))
    ∧ n.udpSendWaitFired name true = (n, []) := by
  unfold NetSt.udpSendWaitFired
  rw [hu]; dsimp only
  refine ⟨fun h hh => ?_, fun hh => ?_, by simp⟩
  · rw [hh]; exact ⟨by simp, _, setUdp_udp_same _ _ _, rfl⟩
  · rw [hh]; simp

/-! ## 2. cancel / close / destroy: every occupied slot is aborted exactly once -/

/-- **Timer**: `cancel()` / destructor (reused from C03): a pending wait is posted exactly once with
    `operation_aborted`, the slot is empty afterwards, nothing else is posted. -/
theorem C04_abort_exactly_once_timer (k : K) (i : Nat) (hk : KInv k) :
    (∀ h, (k.timers i).handler = some h →
        (cancel k i).1.ready = k.ready ++
            [{ h := h, ec := .aborted, tm := true, exp := (k.timers i).expiry, st := (k.timers i).startedAt }]
        ∧ ((cancel k i).1.timers i).handler = none)
    ∧ ((k.timers i).handler = none → (cancel k i).1.ready = k.ready) :=
  ⟨fun h hh => ⟨((C03_cancel k i hk).1 h hh).2.1, ((C03_cancel k i hk).1 h hh).2.2.1⟩,
   fun hn => ((C03_cancel k i hk).2 hn).2⟩

/-- **UDP `cancel()`**: the effect list is exactly — in this order — the abort of the receive slot,
    of the wait-for-read slot, of the wait-for-write slot (then the send timer's cancels); all
    three slots are empty afterwards. -/
theorem C04_abort_exactly_once_udp_cancel (name : String) (u : UdpSock) :
    (u.cancel name).2
      = udpAbortRecvEffs u ++ (udpAbortSendEffs u ++ [.cancelTimer name 0]) ++ [.cancelTimer name 0]
    ∧ (u.cancel name).1 = { u with recvH := none, waitRecvH := none, waitSendH := none }
    ∧ (h4_postsOf (u.cancel name).2).map (·.h) = u.slotIds
    ∧ (∀ c ∈ h4_postsOf (u.cancel name).2, c.ec = .aborted)
    ∧ invokesOf (u.cancel name).2 = [] := by
  rw [udp_cancel_eq]
  refine ⟨rfl, rfl, ?_, ?_, ?_⟩
  · simp only [postsOf_append, List.map_append, (postsOf_udpAbortRecvEffs u).1, (postsOf_udpAbortSendEffs u).1,
      h4_postsOf, List.append_nil]
    rfl
  · intro c hc
    simp only [postsOf_append, h4_postsOf, List.append_nil, List.mem_append] at hc
    rcases hc with hc | hc
    · exact (postsOf_udpAbortRecvEffs u).2.1 c hc
    · exact (postsOf_udpAbortSendEffs u).2.1 c hc
  · exact invokesOf_noInvoke (by rw [← udp_cancel_eq]; exact ni_udp_cancel _ _)

/-- **UDP `close()` / destructor**: the same aborts, computed from the slots the socket had; the
    socket is left closed, unbound, detached, queue dropped, slots empty. `udpCancel` likewise. -/
theorem C04_abort_exactly_once_udp_close (n : NetSt) (name : String) (u : UdpSock) (h : n.udp? name = some u) :
    (n.udpClose name).2 = (u.cancel name).2
    ∧ (n.udpCancel name).2 = (u.cancel name).2
    ∧ (n.udpClose name).1.udp? name = some { u with bound := {}, isOpen := false, fwd := none, queue := [],
                                                    queueSize := 0, recvH := none, waitRecvH := none,
                                                    waitSendH := none }
    ∧ (n.udpCancel name).1.udp? name = some { u with recvH := none, waitRecvH := none, waitSendH := none } := by
  rw [udp_cancel_eq]
  exact ⟨(udpClose_some n name u h).2, (udpCancel_some n name u h).2, (udpClose_some n name u h).1,
    (udpCancel_some n name u h).1⟩

/-- **TCP `cancel()`**: aborts, in this order, of the read slot, the wait-for-read slot, the write
    slot, the connect slot; all four are empty afterwards. -/
theorem C04_abort_exactly_once_tcp_cancel (s : TcpSock) :
    s.cancel.2 = tcpAbortRecvEffs s ++ tcpAbortSendEffs s ++ tcpAbortConnEffs s
    ∧ s.cancel.1 = { s with recvH := none, waitRecvH := none, recvNull := false, sendH := none, connectH := none }
    ∧ (h4_postsOf s.cancel.2).map (·.h)
        = (s.recvH.map (·.h)).toList ++ s.waitRecvH.toList ++ (s.sendH.map (·.h)).toList ++ s.connectH.toList
    ∧ (∀ c ∈ h4_postsOf s.cancel.2, c.ec = .aborted)
    ∧ invokesOf s.cancel.2 = [] := by
  rw [tcp_cancel_eq]
  refine ⟨rfl, rfl, ?_, ?_, ?_⟩
  · simp only [postsOf_append, List.map_append, (posts_tcpAbortRecvEffs s).1, (posts_tcpAbortSendEffs s).1,
      (posts_tcpAbortConnEffs s).1]
  · intro c hc
    simp only [postsOf_append, List.mem_append] at hc
    rcases hc with (hc | hc) | hc
    · exact (posts_tcpAbortRecvEffs s).2.1 c hc
    · exact (posts_tcpAbortSendEffs s).2.1 c hc
    · exact (posts_tcpAbortConnEffs s).2.1 c hc
  · exact invokesOf_noInvoke (by rw [← tcp_cancel_eq]; exact ni_tcp_cancel _)

/-- **TCP `close()` / destructor**: the (completion-free) EOF announcement `tcpCloseEof`, then the
    aborts of the four slots the socket had, in slot order; the socket is left closed, unbound,
    detached, unconnected, with all four slots empty. -/
theorem C04_abort_exactly_once_tcp_close (n : NetSt) (now : Int) (name : String) (s : TcpSock)
    (h : n.tcp? name = some s) :
    (n.tcpClose now name).2 = (tcpCloseEof n now name s).2 ++ tcpCancelEffs s
    ∧ silent (tcpCloseEof n now name s).2
    ∧ h4_postsOf (n.tcpClose now name).2 = h4_postsOf s.cancel.2
    ∧ ∃ s', (n.tcpClose now name).1.tcp? name = some s'
        ∧ s'.recvH = none ∧ s'.waitRecvH = none ∧ s'.sendH = none ∧ s'.connectH = none
        ∧ s'.isOpen = false ∧ s'.fwd = none ∧ s'.chan = none := by
  obtain ⟨he, s', hs', a1, a2, a3, a4, _, a6, a7, a8, _⟩ := tcpClose_some n now name s h
  refine ⟨he, silent_tcpCloseEof n now name s, ?_, s', hs', a1, a2, a3, a4, a6, a7, a8⟩
  rw [he, postsOf_append, postsOf_silent (silent_tcpCloseEof n now name s), tcp_cancel_eq]
  rfl

/-- **Acceptor `cancel()`** (and the abort every `async_accept` / a closed `check_accept_queue`
    starts with): exactly the abort of the outstanding accept, carrying its handler; the accept
    slot is empty afterwards, the other slots untouched. -/
theorem C04_abort_exactly_once_acceptor_cancel (n : NetSt) (name : String) (s : TcpSock) (h : n.tcp? name = some s) :
    s.abortAccept.2 = tcpAbortAcceptEffs s
    ∧ (n.accCancel name).2 = tcpAbortAcceptEffs s
    ∧ (h4_postsOf (tcpAbortAcceptEffs s)).map (·.h) = (s.acceptOp.map AcceptOp.h).toList
    ∧ (∀ c ∈ h4_postsOf (tcpAbortAcceptEffs s), c.ec = .aborted)
    ∧ ∃ s', (n.accCancel name).1.tcp? name = some s' ∧ s'.acceptOp = none ∧ s'.recvH = s.recvH
        ∧ s'.waitRecvH = s.waitRecvH ∧ s'.sendH = s.sendH ∧ s'.connectH = s.connectH := by
  refine ⟨tcp_abortAccept_effs s, ?_, (posts_tcpAbortAcceptEffs s).1, (posts_tcpAbortAcceptEffs s).2.1, ?_⟩
  · unfold NetSt.accCancel; rw [h]; exact tcp_abortAccept_effs s
  · unfold NetSt.accCancel; rw [h]; dsimp only
    obtain ⟨g0, g1, g2, g3, g4⟩ := tcp_abortAccept_slots s
    exact ⟨_, setTcp_tcp_same _ _ _, g0, g1, g2, g3, g4⟩

/-- **Acceptor `close()` / destructor**: the completions posted are exactly the abort of the
    outstanding accept followed by the aborts of the acceptor's (normally empty) socket slots —
    the resets sent to queued connections and the EOF logic carry no completion; afterwards every
    slot is empty, the acceptor is closed and detached, its connection queue is empty. -/
theorem C04_abort_exactly_once_acceptor_close (n : NetSt) (now : Int) (name : String) (s : TcpSock) (a : AccState)
    (hs : n.tcp? name = some s) (ha : s.acc = some a) :
    h4_postsOf (n.accClose now name).2 = h4_postsOf (tcpAbortAcceptEffs s) ++ h4_postsOf (tcpCancelEffs s)
    ∧ invokesOf (n.accClose now name).2 = []
    ∧ ∃ s', (n.accClose now name).1.tcp? name = some s'
        ∧ s'.acceptOp = none ∧ s'.recvH = none ∧ s'.waitRecvH = none ∧ s'.sendH = none ∧ s'.connectH = none
        ∧ s'.isOpen = false ∧ s'.fwd = none ∧ s'.acc.map (·.conns) = some [] :=
  have ⟨h1, s', hs', a1, a2, a3, a4, a5, a6, a7, a8, _⟩ := accClose_posts n now name s a hs ha
  ⟨h1, invokesOf_noInvoke (ni_accClose n now name), s', hs', a1, a2, a3, a4, a5, a6, a7, a8⟩

/-- **Resolver `cancel()`**: one `operation_aborted` post per queued lookup, in queue order, carrying
    that lookup's handler; the queue is empty afterwards (`C14_cancel` adds: never completed again). -/
theorem C04_abort_exactly_once_resolver (r : R) :
    r.cancel.2 = r.queue.map (fun e => REff.post e.h .aborted e.res) ∧ r.cancel.1.queue = [] := ⟨rfl, rfl⟩

/-! ## 3. A new operation of the same kind supersedes the outstanding one -/

/-- **UDP receive**: `abort_recv_handlers()` first (both the receive and the wait-for-read slot are
    aborted), then the new operation is parked — or completed at once with one post. -/
theorem C04_supersede_udp_recv (n : NetSt) (name : String) (op : RecvOp) (u : UdpSock) (h : n.udp? name = some u) :
    ∃ e2 u', (n.udpAsyncRecv name op).2 = udpAbortRecvEffs u ++ e2
      ∧ (n.udpAsyncRecv name op).1.udp? name = some u' ∧ u'.waitRecvH = none ∧ u'.waitSendH = u.waitSendH
      ∧ ((u'.recvH = some op ∧ e2 = []) ∨ (u'.recvH = none ∧ ∃ c, e2 = [.post c] ∧ c.h = op.h)) := by
  unfold NetSt.udpAsyncRecv
  rw [h]; dsimp only
  rw [udp_abortRecv_eq]; dsimp only
  refine ⟨_, _, rfl, setUdp_udp_same _ _ _, ?_, ?_, udp_asyncReceive_cases _ op⟩
  · rw [(udp_asyncReceive_other _ op).1]
  · rw [(udp_asyncReceive_other _ op).2]

/-- **UDP wait-for-read**: same abort, then parked in the wait slot or posted at once. -/
theorem C04_supersede_udp_wait_read (n : NetSt) (name : String) (hd : Nat) (u : UdpSock) (h : n.udp? name = some u) :
    ∃ e2 u', (n.udpWaitRead name hd).2 = udpAbortRecvEffs u ++ e2
      ∧ (n.udpWaitRead name hd).1.udp? name = some u' ∧ u'.recvH = none ∧ u'.waitSendH = u.waitSendH
      ∧ ((u'.waitRecvH = some hd ∧ e2 = []) ∨ (u'.waitRecvH = none ∧ ∃ c, e2 = [.post c] ∧ c.h = hd)) := by
  unfold NetSt.udpWaitRead
  rw [h]; dsimp only
  rw [udp_abortRecv_eq]; dsimp only
  refine ⟨_, _, rfl, setUdp_udp_same _ _ _, ?_, ?_, ?_⟩
  · rw [(udp_asyncWaitReceive_other _ hd).1]
  · rw [(udp_asyncWaitReceive_other _ hd).2]
  · rcases udp_asyncWaitReceive_cases { u with recvH := none, waitRecvH := none } hd with ⟨a, b⟩ | ⟨a, b⟩
    · exact Or.inl ⟨a, b⟩
    · exact Or.inr ⟨by rw [a], b⟩

/-- **UDP wait-for-write** (also `send_to`): `abort_send_handlers()` first, then the new wait is
    deferred (slot occupied, timer armed) or posted at once. -/
theorem C04_supersede_udp_wait_write (n : NetSt) (now : Int) (name : String) (hd : Nat) (u : UdpSock)
    (h : n.udp? name = some u) :
    ∃ e2 u', (n.udpWaitWrite now name hd).2 = udpAbortSendEffs u ++ [.cancelTimer name 0] ++ e2
      ∧ (n.udpWaitWrite now name hd).1.udp? name = some u' ∧ u'.recvH = u.recvH ∧ u'.waitRecvH = u.waitRecvH
      ∧ ((u'.waitSendH = some hd ∧ h4_postsOf e2 = []) ∨ (u'.waitSendH = none ∧ e2 = [.post { h := hd, ec := .ok }])) := by
  unfold NetSt.udpWaitWrite
  rw [h]; dsimp only
  rw [udp_abortSend_eq]; dsimp only
  split
  · exact ⟨_, _, rfl, setUdp_udp_same _ _ _, rfl, rfl, Or.inl ⟨rfl, rfl⟩⟩
  · exact ⟨_, _, rfl, setUdp_udp_same _ _ _, rfl, rfl, Or.inr ⟨rfl, rfl⟩⟩

/-- **TCP read**: `abort_recv_handlers()` (read and wait-for-read slots), then parked or posted. -/
theorem C04_supersede_tcp_read (n : NetSt) (name : String) (op : ReadOp) (s : TcpSock) (h : n.tcp? name = some s) :
    ∃ e2 s', (n.tcpAsyncRead name op).2 = tcpAbortRecvEffs s ++ e2
      ∧ (n.tcpAsyncRead name op).1.tcp? name = some s' ∧ s'.waitRecvH = none
      ∧ s'.sendH = s.sendH ∧ s'.connectH = s.connectH
      ∧ ((s'.recvH = some op ∧ e2 = []) ∨ (s'.recvH = none ∧ ∃ c, e2 = [.post c] ∧ c.h = op.h)) := by
  unfold NetSt.tcpAsyncRead
  rw [h]; dsimp only
  rw [tcp_abortRecv_eq]; dsimp only
  obtain ⟨o1, o2, o3, _⟩ := tcp_asyncReadImpl_other { s with recvH := none, waitRecvH := none, recvNull := false } op
  exact ⟨_, _, rfl, setTcp_tcp_same _ _ _, by rw [o1], by rw [o2], by rw [o3], tcp_asyncReadImpl_cases _ op⟩

/-- **TCP wait-for-read**: same abort, then parked in the wait slot or posted. -/
theorem C04_supersede_tcp_wait_read (n : NetSt) (name : String) (hd : Nat) (s : TcpSock) (h : n.tcp? name = some s) :
    ∃ e2 s', (n.tcpWaitRead name hd).2 = tcpAbortRecvEffs s ++ e2
      ∧ (n.tcpWaitRead name hd).1.tcp? name = some s' ∧ s'.recvH = none
      ∧ s'.sendH = s.sendH ∧ s'.connectH = s.connectH
      ∧ ((s'.waitRecvH = some hd ∧ e2 = []) ∨ (s'.waitRecvH = none ∧ ∃ c, e2 = [.post c] ∧ c.h = hd)) := by
  unfold NetSt.tcpWaitRead
  rw [h]; dsimp only
  rw [tcp_abortRecv_eq]; dsimp only
  obtain ⟨o2, o3, _⟩ := tcp_asyncWaitReadImpl_other { s with recvH := none, waitRecvH := none, recvNull := false } hd
  refine ⟨_, _, rfl, setTcp_tcp_same _ _ _, ?_, by rw [o2], by rw [o3], ?_⟩
  · rcases tcp_asyncWaitReadImpl_cases { s with recvH := none, waitRecvH := none, recvNull := false } hd with
      ⟨_, b, _⟩ | ⟨_, b, _⟩
    · rw [b]
    · exact b
  · rcases tcp_asyncWaitReadImpl_cases { s with recvH := none, waitRecvH := none, recvNull := false } hd with
      ⟨a, _, c⟩ | ⟨a, _, c⟩
    · exact Or.inl ⟨a, c⟩
    · exact Or.inr ⟨by rw [a], c⟩

/-- **TCP write**: `abort_send_handlers()`, then the new write occupies the slot and the
    segmentation loop is scheduled (`.tcpWrite`), which takes it out again and ends in
    `tcpWriteFinish` (`C04_completed_once_tcp_write`). -/
theorem C04_supersede_tcp_write (n : NetSt) (name : String) (op : WriteOp) (s : TcpSock) (h : n.tcp? name = some s) :
    (n.tcpAsyncWrite name op).2 = tcpAbortSendEffs s ++ [.tcpWrite name op.h]
    ∧ (n.tcpAsyncWrite name op).1.tcp? name = some { s with sendH := some op } := by
  unfold NetSt.tcpAsyncWrite
  rw [h]; dsimp only
  rw [tcp_abortSend_eq]
  exact ⟨rfl, setTcp_tcp_same _ _ _⟩

/-- **Accept**: after the preparation of the peer / returned socket (`accAcceptPrep`, which leaves
    the acceptor `s'` with its accept state), the outstanding accept is aborted, the new one
    occupies the slot, and `check_accept_queue()` runs on that state. -/
theorem C04_supersede_accept (n : NetSt) (now : Int) (name : String) (op : AcceptOp) (s' : TcpSock) (a : AccState)
    (hs' : (accAcceptPrep n now name op).1.tcp? name = some s') (ha : s'.abortAccept.1.acc = some a) :
    n.accAsyncAccept now name op =
      ((((accAcceptPrep n now name op).1.setTcp name
            { s'.abortAccept.1 with acc := some { a with acceptOp := some op } }).accCheckQueue now name).1,
        (accAcceptPrep n now name op).2 ++ tcpAbortAcceptEffs s' ++
        (((accAcceptPrep n now name op).1.setTcp name
            { s'.abortAccept.1 with acc := some { a with acceptOp := some op } }).accCheckQueue now name).2) := by
  rw [accAsyncAccept_eq, hs']; dsimp only
  rw [ha, tcp_abortAccept_effs]

/-! ## 4. A completing function takes the handler out of its slot in the same step -/

/-- UDP: `async_receive_from_impl` either parks the operation (nothing posted) or posts exactly
    one completion for it and leaves the slot empty; `async_wait_receive_impl` likewise. -/
theorem C04_completed_once_udp (u : UdpSock) (op : RecvOp) (h : Nat) :
    (((u.asyncReceive op).1.recvH = some op ∧ (u.asyncReceive op).2 = [])
      ∨ ((u.asyncReceive op).1.recvH = none ∧ ∃ c, (u.asyncReceive op).2 = [.post c] ∧ c.h = op.h))
    ∧ (((u.asyncWaitReceive h).1.waitRecvH = some h ∧ (u.asyncWaitReceive h).2 = [])
      ∨ ((u.asyncWaitReceive h).1 = u ∧ ∃ c, (u.asyncWaitReceive h).2 = [.post c] ∧ c.h = h)) :=
  ⟨udp_asyncReceive_cases u op, udp_asyncWaitReceive_cases u h⟩

/-- UDP `maybe_wakeup_reader()` (packet arrival): it first takes the handler OUT of its slot and
    then calls the function above on the socket with that slot empty. -/
theorem C04_completed_once_udp_wakeup (u : UdpSock) :
    u.maybeWakeup = (u, [])
    ∨ (∃ h, u.waitRecvH = some h ∧ u.maybeWakeup = ({ u with waitRecvH := none }).asyncWaitReceive h)
    ∨ (∃ op, u.recvH = some op ∧ u.maybeWakeup = ({ u with recvH := none }).asyncReceive op) := by
  unfold UdpSock.maybeWakeup
  splits
  · exact Or.inl rfl
  · rename_i h hw; exact Or.inr (Or.inl ⟨h, hw, rfl⟩)
  · exact Or.inl rfl
  · rename_i op hr; exact Or.inr (Or.inr ⟨op, hr, rfl⟩)
  · exact Or.inl rfl

/-- TCP reads: `async_read_some_impl` parks or posts once and empties the slot;
    `async_wait_read_impl` parks or posts once; `maybe_wakeup_reader()` takes the handler out
    of its slot before calling them. -/
theorem C04_completed_once_tcp_read (tp : TParams) (s : TcpSock) (op : ReadOp) (h : Nat) :
    (((s.asyncReadImpl op).1.recvH = some op ∧ (s.asyncReadImpl op).2 = [])
      ∨ ((s.asyncReadImpl op).1.recvH = none ∧ ∃ c, (s.asyncReadImpl op).2 = [.post c] ∧ c.h = op.h))
    ∧ (((s.asyncWaitReadImpl h).1.waitRecvH = some h ∧ (s.asyncWaitReadImpl h).1.recvH = s.recvH
          ∧ (s.asyncWaitReadImpl h).2 = [])
      ∨ ((s.asyncWaitReadImpl h).1.waitRecvH = s.waitRecvH ∧ (s.asyncWaitReadImpl h).1.recvH = none
          ∧ ∃ c, (s.asyncWaitReadImpl h).2 = [.post c] ∧ c.h = h))
    ∧ (s.maybeWakeupReader tp = (s, [])
      ∨ (∃ h, s.waitRecvH = some h ∧ s.maybeWakeupReader tp = ({ s with waitRecvH := none }).asyncWaitReadImpl h)
      ∨ (∃ op, s.recvH = some op ∧ s.maybeWakeupReader tp = ({ s with recvH := none }).asyncReadImpl op)) := by
  refine ⟨tcp_asyncReadImpl_cases s op, tcp_asyncWaitReadImpl_cases s h, ?_⟩
  unfold TcpSock.maybeWakeupReader
  extract_lets skip
  splits
  · exact Or.inl rfl
  · rename_i h hw; exact Or.inr (Or.inl ⟨h, hw, rfl⟩)
  · exact Or.inl rfl
  · rename_i op hr; exact Or.inr (Or.inr ⟨op, hr, rfl⟩)
  · exact Or.inl rfl

/-- TCP write: `tcpWriteFinish` parks the operation again (`would_block`, nothing posted) or posts
    exactly one completion for it and leaves the slot empty. -/
theorem C04_completed_once_tcp_write (n : NetSt) (name : String) (op : WriteOp) (r : Except Ec Nat) (s : TcpSock)
    (hs : n.tcp? name = some s) :
    (∃ s', (n.tcpWriteFinish name op r).1.tcp? name = some s' ∧ s'.sendH = some op
        ∧ (n.tcpWriteFinish name op r).2 = [])
    ∨ (∃ s' c, (n.tcpWriteFinish name op r).1.tcp? name = some s' ∧ s'.sendH = none
        ∧ (n.tcpWriteFinish name op r).2 = [.post c] ∧ c.h = op.h) :=
  tcpWriteFinish_cases n name op r s hs

/-- TCP connect: the SYN-ACK posts the connect handler and empties the connect slot in the same
    step; a SYN-ACK that arrives with no connect outstanding (cancelled meanwhile) does nothing. -/
theorem C04_completed_once_tcp_connect (tp : TParams) (n : NetSt) (now : Int) (name : String) (p : Pkt) (s : TcpSock)
    (hs : n.tcp? name = some s) (hp : p.ty = .synack) :
    (∀ h, s.connectH = some h →
        (n.tcpIncoming tp now name p).2 = [.post { h := h, ec := .ok }, .tcpWake name]
        ∧ ∃ s', (n.tcpIncoming tp now name p).1.tcp? name = some s' ∧ s'.connectH = none)
    ∧ (s.connectH = none → n.tcpIncoming tp now name p = (n, [])) :=
  tcpIncoming_synack tp n now name p s hs hp

/-- Accept: `check_accept_queue()` hands over a connection only by first taking the accept out of
    its slot (`acceptOp := none`); with no accept outstanding or no connection queued it does
    nothing. -/
theorem C04_completed_once_accept (n : NetSt) (now : Int) (name : String) (s : TcpSock) (a : AccState)
    (hs : n.tcp? name = some s) (ha : s.acc = some a) :
    ((a.acceptOp = none ∨ a.conns = []) → accTryAccept n now name = (n, []))
    ∧ (∀ op c rest, a.acceptOp = some op → a.conns = c :: rest →
        ∃ peer, accTryAccept n now name =
          (let x := (n.setTcp name { s with acc := some { a with conns := rest, acceptOp := none } }).tcpAttach
                      now peer s.bound c
           match x.1.chan? c with
           | none => x
           | some ch => (x.1, x.2 ++ [.forward { id := 0, ty := .synack, len := 0, ovh := 28, hops := ch.hops0,
                                                   src := s.bound.toString, chan := some c },
                (match op with
                  | .into h _ withEp => NEff.post { h := h, ec := .ok, extra := if withEp then "ep=" ++
                      ((((n.setTcp name { s with acc := some { a with conns := rest, acceptOp := none } }).chan? c).map
                        (fun (ch : Chan) => ch.vis0)).getD {}).toString else "" }
                  | .fresh h _ => NEff.post { h := h, ec := .ok })]))) := by
  unfold accTryAccept
  rw [hs]; dsimp only; rw [ha]; dsimp only
  constructor
  · rintro (h | h)
    · rw [h]
    · rw [h]; cases a.acceptOp <;> rfl
  · intro op c rest hop hc
    rw [hop, hc]
    exact ⟨_, rfl⟩

/-! ## 5. At most once, none discarded: invariants over ALL label sequences -/

/-- **One UDP socket, none discarded.** In every state reachable by API calls with arbitrary
    arguments, datagram arrivals and send-timer callbacks, in any order, the ids in the socket's
    three slots together with the ids of all completions produced so far (posted or invoked) are
    exactly — as multisets — the ids given to initiating calls: no handler is dropped, none is
    completed that was not started. No precondition beyond the socket's existence. -/
theorem C04_none_discarded_udp (name : String) (n0 : NetSt) (hex : (n0.udp? name).isSome) (ls : List ULbl) :
    let s := US.run name { n := n0, started := udpIds n0 name } ls
    (udpIds s.n name ++ s.ids).Perm s.started :=
  (UInv_run name ls _ ⟨hex, by simp [HdS.ids]⟩).perm

/-- **One UDP socket, at most once.** With pairwise distinct handler ids (those in the slots at
    the start, those of the initiating calls) no id is completed twice, and an id still in a slot
    has not been completed. -/
theorem C04_at_most_once_udp (name : String) (n0 : NetSt) (hex : (n0.udp? name).isSome) (ls : List ULbl)
    (hf : (udpIds n0 name ++ ls.filterMap ULbl.newId?).Nodup) :
    let s := US.run name { n := n0, started := udpIds n0 name } ls
    (udpIds s.n name ++ s.ids).Nodup := by
  intro s
  have hp := C04_none_discarded_udp name n0 hex ls
  have hs : s.started = udpIds n0 name ++ ls.filterMap ULbl.newId? := US_run_started name ls _
  exact (List.Perm.nodup_iff hp).mpr (by rw [hs]; exact hf)

/-- **All TCP sockets and acceptors, none discarded.** From any well-formed table (unique names, no
    socket with both a read and a wait-for-read outstanding, accept queues holding valid channel
    ids — `ConnsOk n0`, trivially true of a table without queued connections), after any sequence
    of labels satisfying the preconditions `HTS.ok` (see SimVerif/HandlerSys.lean): the ids in all
    slots of all sockets and acceptors, the ids bound into connect timers (refused connects) and
    the ids of all completions produced are exactly the ids given to initiating calls. Includes
    accepts into a peer socket that still has operations outstanding (they are aborted),
    supersession, close, cancel, destruction, packets for closed sockets, the write and
    retransmission loops.

    That accept queues hold valid channel ids is NOT a side condition on the labels: it is an
    invariant (third conjunct), preserved by every label (`HL.cok_label`) — a channel id enters a
    queue only from the `chan` field of a SYN the environment hands in, `internal_connect`
    allocates ids as `chans.length` before growing the table, and the table never shrinks. The
    only thing `HTS.ok` asks about channels is that the packet handed to `.incoming` carries no
    channel or a valid one. -/
theorem C04_none_discarded_tcp (tp : TParams) (n0 : NetSt) (hw : TWf n0) (hc : ConnsOk n0) (ls : List h4_HLbl)
    (hok : HTS.okRun tp { n := n0, started := allTcpIds n0 } ls) :
    let s := HTS.run tp { n := n0, started := allTcpIds n0 } ls
    (allTcpIds s.n ++ s.parked ++ s.ids).Perm s.started ∧ TWf s.n ∧ ConnsOk s.n :=
  have h := TInv_run tp ls _ ⟨hw, by simp [HdS.ids], hc⟩ hok
  ⟨h.perm, h.wf, h.conns⟩

/-- **Accept queues hold valid channel ids** in every reachable state: for every acceptor, every
    queued connection is an index into the channel table (so `check_accept_queue()` never finds
    a dangling connection and never drops the accept handler it took out of its slot). -/
theorem C04_accept_queues_valid (tp : TParams) (n0 : NetSt) (hw : TWf n0) (hc : ConnsOk n0) (ls : List h4_HLbl)
    (hok : HTS.okRun tp { n := n0, started := allTcpIds n0 } ls) (name : String) (s : TcpSock) (a : AccState)
    (hs : (HTS.run tp { n := n0, started := allTcpIds n0 } ls).n.tcp? name = some s) (ha : s.acc = some a) :
    ∀ c ∈ a.conns, c < (HTS.run tp { n := n0, started := allTcpIds n0 } ls).n.chans.length :=
  (C04_none_discarded_tcp tp n0 hw hc ls hok).2.2.ok name s a hs ha

/-- **All TCP sockets and acceptors, at most once.** With pairwise distinct handler ids nothing is
    completed twice; an id in a slot or bound into a connect timer has not been completed. -/
theorem C04_at_most_once_tcp (tp : TParams) (n0 : NetSt) (hw : TWf n0) (hc : ConnsOk n0) (ls : List h4_HLbl)
    (hok : HTS.okRun tp { n := n0, started := allTcpIds n0 } ls)
    (hf : (allTcpIds n0 ++ ls.filterMap h4_HLbl.newId?).Nodup) :
    let s := HTS.run tp { n := n0, started := allTcpIds n0 } ls
    (allTcpIds s.n ++ s.parked ++ s.ids).Nodup := by
  intro s
  have hp := (C04_none_discarded_tcp tp n0 hw hc ls hok).1
  have hs : s.started = allTcpIds n0 ++ ls.filterMap h4_HLbl.newId? := TS_run_started tp ls _
  exact (List.Perm.nodup_iff hp).mpr (by rw [hs]; exact hf)

/-- **Acceptors** are objects of the same table: an accept handler sitting in an acceptor's slot has
    not been completed, and is never completed twice (instance of the theorem above). -/
theorem C04_at_most_once_acceptor (tp : TParams) (n0 : NetSt) (hw : TWf n0) (hc : ConnsOk n0) (ls : List h4_HLbl)
    (hok : HTS.okRun tp { n := n0, started := allTcpIds n0 } ls)
    (hf : (allTcpIds n0 ++ ls.filterMap h4_HLbl.newId?).Nodup) (name : String) (s : TcpSock) (op : AcceptOp)
    (hs : (HTS.run tp { n := n0, started := allTcpIds n0 } ls).n.tcp? name = some s)
    (hop : s.acceptOp = some op) :
    op.h ∉ (HTS.run tp { n := n0, started := allTcpIds n0 } ls).ids
    ∧ (HTS.run tp { n := n0, started := allTcpIds n0 } ls).ids.Nodup := by
  have hn := C04_at_most_once_tcp tp n0 hw hc ls hok hf
  dsimp only at hn
  rw [List.nodup_append] at hn
  refine ⟨fun hmem => ?_, hn.2.1⟩
  have hin : op.h ∈ allTcpIds (HTS.run tp { n := n0, started := allTcpIds n0 } ls).n := by
    unfold allTcpIds
    rw [List.mem_flatten]
    refine ⟨s.slotIds, List.mem_map.mpr ⟨(name, s), tcp_lookup_mem hs, rfl⟩, ?_⟩
    unfold TcpSock.slotIds; rw [hop]; simp
  exact hn.2.2 op.h (List.mem_append_left _ hin) op.h hmem rfl

/-- **The packet clause derived from a promise of the environment.** `HTS.ok` keeps one clause
    about channels: the packet handed to `.incoming` carries no channel id or a valid one. It
    follows from a promise that does not mention the channel table at all (`HTS.okRunSent`): the
    network hands in — delivers, or reports as dropped (label `.dropped`, tail-drops inside a
    write) — only packets whose channel id was carried by some packet forwarded before (ghost
    list `w`, starting from the ids `w0` in flight initially). Invariant (`WireInv`): accept
    queues, retransmission queues and the wire hold valid ids only — `internal_connect` puts the
    id it has just allocated into the SYN, `check_accept_queue` puts an id it has just looked up
    into the SYN-ACK, every other packet the sockets build carries none, and a retransmitted
    packet is one the environment reported as dropped. -/
theorem C04_packet_clause_derived (tp : TParams) (n0 : NetSt) (w0 : List Nat) (hc : ConnsOk n0) (hr : ResendOk n0)
    (hw0 : ∀ c ∈ w0, c < n0.chans.length) (ls : List h4_HLbl)
    (h : HTS.okRunSent tp { n := n0, started := allTcpIds n0 } w0 ls) :
    HTS.okRun tp { n := n0, started := allTcpIds n0 } ls :=
  okRun_of_okRunSent tp ls _ w0 ⟨hc, hr, hw0⟩ h

/-- none discarded / at most once under the environment's promise instead of the packet clause -/
theorem C04_none_discarded_tcp_sent (tp : TParams) (n0 : NetSt) (w0 : List Nat) (hw : TWf n0) (hc : ConnsOk n0)
    (hr : ResendOk n0) (hw0 : ∀ c ∈ w0, c < n0.chans.length) (ls : List h4_HLbl)
    (hok : HTS.okRunSent tp { n := n0, started := allTcpIds n0 } w0 ls) :
    let s := HTS.run tp { n := n0, started := allTcpIds n0 } ls
    (allTcpIds s.n ++ s.parked ++ s.ids).Perm s.started ∧ TWf s.n ∧ ConnsOk s.n :=
  C04_none_discarded_tcp tp n0 hw hc ls (C04_packet_clause_derived tp n0 w0 hc hr hw0 ls hok)

theorem C04_at_most_once_tcp_sent (tp : TParams) (n0 : NetSt) (w0 : List Nat) (hw : TWf n0) (hc : ConnsOk n0)
    (hr : ResendOk n0) (hw0 : ∀ c ∈ w0, c < n0.chans.length) (ls : List h4_HLbl)
    (hok : HTS.okRunSent tp { n := n0, started := allTcpIds n0 } w0 ls)
    (hf : (allTcpIds n0 ++ ls.filterMap h4_HLbl.newId?).Nodup) :
    let s := HTS.run tp { n := n0, started := allTcpIds n0 } ls
    (allTcpIds s.n ++ s.parked ++ s.ids).Nodup :=
  C04_at_most_once_tcp tp n0 hw hc ls (C04_packet_clause_derived tp n0 w0 hc hr hw0 ls hok) hf

/-- **Timers**: every wait completes at most once (C03). -/
theorem C04_at_most_once_timer (ls : List Lbl) (hf : FreshWaits [] ls) :
    (((runLbls repaired {} ls).ran.filter (fun x => x.1.tm)).map (fun x => x.1.h)).Nodup :=
  C03_at_most_once ls hf

/-- **Timers**: a wait completed with `operation_aborted` never also completes successfully (C03). -/
theorem C04_timer_abort_excludes_success (ls : List Lbl) (hf : FreshWaits [] ls)
    (t₁ t₂ : Task) (c₁ c₂ : Int)
    (h₁ : (t₁, c₁) ∈ (runLbls repaired {} ls).ran) (h₂ : (t₂, c₂) ∈ (runLbls repaired {} ls).ran)
    (m₁ : t₁.tm = true) (m₂ : t₂.tm = true) (hh : t₁.h = t₂.h) : t₁.ec = t₂.ec :=
  C03_abort_excludes_success ls hf t₁ t₂ c₁ c₂ h₁ h₂ m₁ m₂ hh

/-- **Timers**: no wait is lost (C03, under `assert(!m_handler)`). -/
theorem C04_none_discarded_timer (ls : List Lbl) (hp : WaitPre repaired {} ls) (h : Nat)
    (hs : h ∈ (runLbls repaired {} ls).started) :
    (∃ i, ((runLbls repaired {} ls).timers i).handler = some h) ∨ h ∈ (runLbls repaired {} ls).posted :=
  C03_no_lost_wait ls hp h hs

/-- **Resolver**: completed ++ still queued is a permutation of requested; with fresh ids no
    duplicates (C14). -/
theorem C04_exactly_once_resolver (ls : List RLbl) (h : RS.okRun .fixed {} ls) :
    ((RS.run .fixed {} ls).compLog.map RComp.h ++ (RS.run .fixed {} ls).r.queue.map REntry.h).Perm
        ((RS.run .fixed {} ls).reqLog.map RReq.h)
    ∧ ((RS.run .fixed {} ls).fresh →
        ((RS.run .fixed {} ls).compLog.map RComp.h ++ (RS.run .fixed {} ls).r.queue.map REntry.h).Nodup) :=
  ⟨(C14_exactly_once ls h).1, (C14_exactly_once ls h).2.1⟩

/-! ## 6. The pinned tree violated the property (regression witness)

`abort_send_handlers()` of the pinned tree posted a completion holding a *reference* to the
wait-for-write slot and then cleared the slot: when the completion ran it found the slot empty
and called a null `aux::function` (UBSan abort, function.hpp:162). Modelled as: what the posted
completion finds in the slot when it runs. Repaired: the handler is *moved* into the completion. -/

/-- pinned tree: the slot content the posted abort sees when it runs (the slot after the call) -/
def udpAbortSendAsIs (name : String) (u : UdpSock) : List (Option Nat) :=
  match u.waitSendH with
  | some _ => [(u.abortSend name).1.waitSendH]
  | none => []

/-- repaired tree: the handler travels inside the completion -/
def udpAbortSendFixed (name : String) (u : UdpSock) : List (Option Nat) :=
  (h4_postsOf (u.abortSend name).2).map (fun c => some c.h)

theorem C04_asis_udp_abort_calls_empty_handler (name : String) (u : UdpSock) (h : Nat) (hh : u.waitSendH = some h) :
    udpAbortSendAsIs name u = [none] ∧ udpAbortSendFixed name u = [some h] := by
  unfold udpAbortSendAsIs udpAbortSendFixed
  rw [udp_abortSend_eq, hh]
  simp [h4_postsOf, udpAbortSendEffs, hh]

/-! ## 7. Non-vacuity: concrete histories satisfying the hypotheses -/

namespace C04Ex

/-- a bound, open UDP socket whose send queue is 0.5 s deep (so a wait-for-write is deferred) -/
def udp0 : NetSt :=
  ({ fwds := [some "u1"], reg := { udp := [({ addr := "10.0.0.1", port := 4000 }, "u1")] } } : NetSt).setUdp "u1"
    { node := "n0", isOpen := true, bound := { addr := "10.0.0.1", port := 4000 }, fwd := some 0, nextSend := 500000000 }

def dgram : Pkt := { id := 1, ty := .payload, len := 3, ovh := 28, src := "10.0.0.2:7", payload := [1, 2, 3] }

/-- receive superseded by a wait, a datagram completing the wait, a receive completing at once, a
    wait aborted by cancel together with a deferred wait-for-write, a deferred wait-for-write
    completed inline by its timer, a receive aborted by close -/
def udpHist : List ULbl :=
  [.recv { h := 1, caps := [10], withEp := true }, .waitRead 2, .incoming dgram,
   .recv { h := 3, caps := [2], withEp := false }, .waitRead 4, .waitWrite 0 5, .cancel,
   .waitWrite 0 6, .sendTimer false, .recv { h := 7, caps := [2], withEp := false }, .close]

example : (US.run "u1" { n := udp0, started := udpIds udp0 "u1" } udpHist).log.map (fun x => (x.1, x.2.h, x.2.ec))
    = [(false, 1, .aborted), (false, 2, .ok), (false, 3, .ok), (false, 4, .aborted), (false, 5, .aborted),
       (true, 6, .ok), (false, 7, .aborted)] := by decide

example : (udpIds udp0 "u1" ++ udpHist.filterMap ULbl.newId?).Nodup := by decide
example := C04_at_most_once_udp "u1" udp0 (by decide) udpHist (by decide)
example := C04_none_discarded_udp "u1" udp0 (by decide) udpHist

def ch0 : Chan := { hops0 := ["q0", "@0"], hops1 := ["q1", "@1"], ep0 := { addr := "10.0.0.1", port := 2000 },
                    ep1 := { addr := "10.0.0.2", port := 80 } }

/-- a connecting socket `s1` (connect handler 1 outstanding), a listening acceptor `a0`, and an
    open socket `s3` with a read (handler 2) outstanding that is about to be used as accept peer -/
def tcp0 : NetSt :=
  ((({ fwds := [some "s1", some "a0"], chans := [ch0],
       reg := { tcp := [({ addr := "10.0.0.2", port := 80 }, "a0")] } } : NetSt).setTcp "s1"
    { node := "n0", isOpen := true, bound := { addr := "10.0.0.1", port := 2000 }, fwd := some 0, chan := some 0,
      connectH := some 1 }).setTcp "a0"
    { node := "n1", isOpen := true, bound := { addr := "10.0.0.2", port := 80 }, fwd := some 1,
      acc := some { queueLimit := 20 } }).setTcp "s3"
    { node := "n1", isOpen := true, recvH := some { h := 2, caps := [4] } }

def syn : Pkt := { id := 0, ty := .syn, len := 0, ovh := 28, src := "10.0.0.1:2000", chan := some 0 }
def synack : Pkt := { id := 0, ty := .synack, len := 0, ovh := 28, src := "10.0.0.2:80", chan := some 0 }
def wr (h : Nat) : WriteOp := { h := h, bufs := [[1, 2, 3]], stream := 0, off := 0 }

/-- accept into an open peer with a read outstanding (aborted), a superseding accept, the SYN
    completing it, the SYN-ACK completing the connect, a socket-returning accept, a write that
    blocks, is superseded and aborted, a write that completes after one segment, reads aborted by
    cancel, a stale SYN-ACK after cancel, the acceptor closed with its accept outstanding -/
def tcpHist : List h4_HLbl :=
  [.accept 0 "a0" (.into 7 "s3" false), .accept 0 "a0" (.into 8 "s3" true), .incoming 5 "a0" syn,
   .incoming 9 "s1" synack, .accept 9 "a0" (.fresh 10 "s4"),
   .write "s1" (wr 11), .runWrite "s1" (some 11) [] (.error .wouldBlock), .write "s1" (wr 12),
   .runWrite "s1" (some 12) [.seg 9 ["q1", "@1"] [1, 2, 3]] (.ok 3),
   .read "s1" { h := 13, caps := [8] }, .waitRead "s1" 14, .cancel "s1", .incoming 9 "s1" synack,
   .accClose 20 "a0"]

example : (HTS.run {} { n := tcp0, started := allTcpIds tcp0 } tcpHist).log.map (fun x => (x.1, x.2.h, x.2.ec))
    = [(false, 2, .aborted), (false, 7, .aborted), (false, 8, .ok), (false, 1, .ok), (false, 11, .aborted),
       (false, 12, .ok), (false, 13, .aborted), (false, 14, .aborted), (false, 10, .aborted)] := by decide

example : TWfb tcp0 = true := by decide
example : ConnsOkb tcp0 = true := by decide
example : HTS.okRunb {} { n := tcp0, started := allTcpIds tcp0 } tcpHist = true := by decide
example := C04_at_most_once_tcp {} tcp0 (TWfb_sound (by decide)) (ConnsOkb_sound (by decide)) tcpHist
  (HTS.okRunb_sound _ _ _ (by decide)) (by decide)
example := C04_none_discarded_tcp {} tcp0 (TWfb_sound (by decide)) (ConnsOkb_sound (by decide)) tcpHist
  (HTS.okRunb_sound _ _ _ (by decide))

/-- the same history under the environment's promise: initially the SYN of `s1`'s connect
    (channel 0) is in flight, `w0 = [0]`; the SYN-ACK the acceptor sends carries channel 0 again -/
example : HTS.okRunSentb {} { n := tcp0, started := allTcpIds tcp0 } [0] tcpHist = true := by decide
example : ResendOkb tcp0 = true := by decide
example := C04_at_most_once_tcp_sent {} tcp0 [0] (TWfb_sound (by decide)) (ConnsOkb_sound (by decide))
  (ResendOkb_sound (by decide)) (by decide) tcpHist (HTS.okRunSentb_sound _ _ _ _ (by decide)) (by decide)
/-- a history with a first-hop tail-drop inside the write loop, a retransmission, a drop
    notification through the forwarder and a second retransmission: the dropped segment carries
    no channel id, so the environment's promise holds for the drop labels too -/
def seg0 : Pkt := { id := 0, ty := .payload, len := 3, ovh := 40, payload := [1, 2, 3], hasDrop := true, dropFwd := some 0 }
def tcpHist3 : List h4_HLbl :=
  [.accept 0 "a0" (.into 8 "s3" true), .incoming 5 "a0" syn, .incoming 9 "s1" synack,
   .write "s1" (wr 12), .runWrite "s1" (some 12) [.seg 9 ["q1", "@1"] [1, 2, 3], .drop seg0] (.ok 3),
   .resendOne 10 "s1", .dropped "s1" seg0, .resendOne 11 "s1"]

example : HTS.okRunSentb {} { n := tcp0, started := allTcpIds tcp0 } [0] tcpHist3 = true := by decide
example : ((HTS.run {} { n := tcp0, started := allTcpIds tcp0 } (tcpHist3.take 7)).n.tcp? "s1").map (·.resend.length)
    = some 1 := by decide
example := C04_none_discarded_tcp_sent {} tcp0 [0] (TWfb_sound (by decide)) (ConnsOkb_sound (by decide))
  (ResendOkb_sound (by decide)) (by decide) tcpHist3 (HTS.okRunSentb_sound _ _ _ _ (by decide))

/-- a SYN whose channel id was never on the wire is NOT something the environment may hand in -/
example : HTS.okRunSentb {} { n := tcp0, started := allTcpIds tcp0 } [] [.incoming 5 "a0" syn] = false := by decide

/-- the invariant is not vacuous: while the accept `.into 8` is being completed by the SYN the
    queue held channel 0; a second SYN with no accept outstanding stays queued, and the queue
    is valid without any assumption on it -/
def tcpHist2 : List h4_HLbl := [.incoming 5 "a0" syn, .incoming 6 "a0" syn]

example : ((HTS.run {} { n := tcp0, started := allTcpIds tcp0 } tcpHist2).n.tcp? "a0").bind (·.acc.map (·.conns))
    = some [0, 0] := by decide
example : HTS.okRunb {} { n := tcp0, started := allTcpIds tcp0 } tcpHist2 = true := by decide
example := C04_accept_queues_valid {} tcp0 (TWfb_sound (by decide)) (ConnsOkb_sound (by decide)) tcpHist2
  (HTS.okRunb_sound _ _ _ (by decide)) "a0"

end C04Ex

end SimVerif
