/-
  C17 — the SOCKS4/5 test proxy (`sim::socks_server`, src/socks_server.cpp) relays
        transparently and survives malformed clients.

  Property theorems only. Mechanism model: SimVerif/Socks.lean (member functions over checked
  memory, parameters for the repaired defects); open system with ghost logs and the lower
  layers' guarantees as side condition: SimVerif/SocksSys.lean; specification vocabulary
  (well-formed request, decision table, reply messages, UDP wrap/unwrap): SimVerif/SocksSpec.lean;
  proofs: SimVerif/Lemmas/Socks{Safe,Neg,Relay}.lean.

  Run-level theorems quantify over EVERY history `ls` of the open system from the initial
  state: any number of clients, any interleaving of completions, every result the I/O layer
  can deliver — in particular every client byte stream in every segmentation (a read
  completion carries any bytes, any number of them up to the region's size), every datagram
  from every source, every error at every point.
-/
import SimVerif.Lemmas.SocksSafe
import SimVerif.Lemmas.SocksNeg
import SimVerif.Lemmas.SocksRelay
import SimVerif.Lemmas.SocksStreamSeg

namespace SimVerif

open Socks

/-! ### 1. memory safety -/

/-- **No out-of-bounds access, ever**: for all client byte streams (any segmentation), all
    client and target datagrams, all outcomes of resolve/connect/accept/bind, any number of
    connections — no member function of the repaired tree accesses `m_out_buffer[65536]`,
    `m_in_buffer[65536]`, `m_udp_buffer[1500]` or `m_cmd_counts[3]` outside its bounds, and
    every region handed to the I/O layer lies inside its array. -/
theorem C17_no_oob (ver : Int) (flags : Nat) (ls : List SLbl) :
    ∃ s, (SS.init ver flags).run {} ls = .ok s :=
  no_oob_run ver flags ls

/-- the pinned tree (bb9bed4) violates it in four ways (each run is a possible history:
    every label passes the side condition): F21 command byte 0, F22 host name of length 0,
    F37 NMETHODS = 0x80, F23 a 4-byte UDP datagram -/
theorem C17_asis_oob :
    faulted ((SS.init 5 0).run Params.asIs witF21) = true ∧ faulted ((SS.init 5 0).run Params.asIs witF22) = true
    ∧ faulted ((SS.init 5 0).run Params.asIs witF37) = true ∧ faulted ((SS.init 5 0).run Params.asIs witF23) = true :=
  ⟨asis_F21, asis_F22, asis_F37, asis_F23⟩

/-- … and the same four histories are harmless on the repaired tree -/
theorem C17_fixed_witnesses :
    faulted ((SS.init 5 0).run {} witF21) = false ∧ faulted ((SS.init 5 0).run {} witF22) = false
    ∧ faulted ((SS.init 5 0).run {} witF37) = false ∧ faulted ((SS.init 5 0).run {} witF23) = false :=
  fixed_wits

/-- **No damage to other connections**: whatever completes on connection `ci` (malformed
    input included) leaves every other connection's state, pending operations and logs as they
    were; accepting a client only appends a connection. (The actions a member function returns
    name only its own connection's sockets: `Act` has no connection parameter.) -/
theorem C17_isolated (p : Params) (s s' : SS) (ci i : Nat) (r : Res) (cj : Nat)
    (h : s.step p (.complete ci i r) = .ok s') (hne : cj ≠ ci) : s'.conns[cj]? = s.conns[cj]? :=
  step_isolated p s s' ci i r cj h hne

theorem C17_accept_keeps (p : Params) (s s' : SS) (h : s.step p .accept = .ok s') (cj : Nat)
    (hlt : cj < s.conns.length) : s'.conns[cj]? = s.conns[cj]? :=
  step_accept_keeps p s s' h cj hlt

/-! ### 2. malformed input closes this connection; decision table; reply codes; counters -/

/-- **Early end of file / any error** on a read of the negotiation (greeting, method list,
    request, rest of a host name) closes the connection (client, target and BIND sockets) and
    does nothing else. -/
theorem C17_malformed_closes_error (c : Conn) (cnt : List Int) (k : Kind) (ec : Ec) (total : Nat)
    (hk : k = .hs1 ∨ k = .hs2 ∨ k = .req1 ∨ k = .dom) (hec : ec ≠ .ok) :
    exactDone {} c cnt k ec total = .ok (c, cnt, closeActs) :=
  exactDone_error_closes c cnt k ec total hk hec

/-- **Malformed greeting** (short, or version byte neither 4 nor 5) / **method list without
    "no authentication"** / failed method reply: closed, nothing else. -/
theorem C17_malformed_closes_greeting (c : Conn) (cnt : List Int) (hs : c.Sized) :
    (∀ n, (n ≠ 2 ∨ (c.outBuf.byte 0 ≠ 4 ∧ c.outBuf.byte 0 ≠ 5)) → onHandshake1 {} c cnt .ok n = .ok (c, cnt, closeActs))
    ∧ (∀ n, n ≤ 65536 → (0 : UInt8) ∉ c.outPrefix n → onHandshake2 c cnt .ok n = .ok (c, cnt, closeActs))
    ∧ (∀ ec n, (ec ≠ .ok ∨ n ≠ 2) → onHandshake3 c cnt ec n = .ok (c, cnt, closeActs)) :=
  ⟨fun n h => hs1_bad_closes c cnt n hs h, fun n hn h => hs2_no_noauth_closes c cnt n hs hn h,
   fun ec n h => hs3_bad_closes c cnt ec n h⟩

/-- **Malformed request** — error, short read, wrong version, unknown command, non-zero reserved
    byte, unknown / unsupported address type, BIND by host name, SOCKS4 user id — closes this
    connection: no connect, no bind, no UDP socket, no lookup. -/
theorem C17_malformed_closes (c : Conn) (cnt : List Int) (ec : Ec) (n : Nat) (hs : c.Sized) (hc : cnt.length = 3)
    (h : ec ≠ .ok ∨ n ≠ expectedLen c.ver ∨ ¬ validReq c.ver (c.outPrefix (expectedLen c.ver))) :
    ∃ c' cnt', onRequest1 {} c cnt ec n = .ok (c', cnt', closeActs) ∧ cnt'.length = 3 :=
  req1_malformed_closes c cnt ec n hs hc h

/-- **Well-formed request**: exactly the action of the decision table (`SocksSpec.decision`):
    connect / bind / UDP relay to the address in the header, or look the host name up (reading
    the rest of it first when it is longer than 3 bytes). -/
theorem C17_request_decision (c : Conn) (cnt : List Int) (hs : c.Sized) (hc : cnt.length = 3)
    (h : validReq c.ver (c.outPrefix (expectedLen c.ver))) :
    ∃ c' cnt' a, onRequest1 {} c cnt .ok (expectedLen c.ver) = .ok (c', cnt', [a]) ∧ cnt'.length = 3
      ∧ (match decision c.ver (c.outPrefix (expectedLen c.ver)) with
         | .connect ad pt => a = .connect ad pt .connect
         | .bind ad pt => a = .bindSock ad pt .bound
         | .udp ad pt => a = .udpOpen (.udpBound ad pt)
         | .name len =>
           if len ≤ 3 then
             a = .resolve ((List.range len).map (fun j => c.outBuf.byte (5 + j)))
                   (be16 (c.outBuf.byte (5 + len)) (c.outBuf.byte (6 + len))) .resolve
           else a = .read .client (len - 3) (.exact 10 (len - 3) 0 .dom)) :=
  req1_valid c cnt hs hc h

/-- **Reply codes** after connect (CONNECT) / accept (BIND): success → 0 in v5, 90 in v4, then
    the relay starts; refused (any error) → 5 in v5, 91 in v4, then the connection is closed. -/
theorem C17_reply_codes (c : Conn) (cnt : List Int) (ec : Ec) (rem : Option (Nat × Nat)) (hs : c.Sized)
    (hab : ec ≠ .aborted ∧ ec ≠ .badDesc) :
    ∃ c', onConnected c cnt ec rem
        = .ok (c', cnt, [.write .client (replyMsg c.ver (connCode c.ver ec) (rem.getD (0, 0)).1 (rem.getD (0, 0)).2)
                          (.write .client (replyMsg c.ver (connCode c.ver ec) (rem.getD (0, 0)).1 (rem.getD (0, 0)).2).length
                             (if ec = .ok then .relayStart else .closeAfter))])
      ∧ c'.outBuf = c.outBuf ∧ c'.Sized :=
  reply_connected c cnt ec rem hs hab

/-- **Unresolvable name** → reply code 4, then close; resolvable → connect to the first address. -/
theorem C17_reply_codes_name (c : Conn) (cnt : List Int) (hs : c.Sized) :
    (∀ ec ips, (ec ≠ .ok ∨ ips = []) → ∃ c', onRequestDomainLookup c cnt ec ips
        = .ok (c', cnt, [.write .client [u8 c.ver.toNat, 4, 0, 1, 0, 0, 0, 0, 0, 0] (.write .client 10 .closeAfter)]))
    ∧ (∀ a pt rest, onRequestDomainLookup c cnt .ok ((a, pt) :: rest) = .ok (c, cnt, [.connect a pt .connect])) :=
  ⟨fun ec ips h => reply_unresolvable c cnt ec ips hs h, fun a pt rest => lookup_connects c cnt a pt rest⟩

/-- BIND's first reply: bound → 0 / 90 then accept; failure → 1 / 91 then close; and the
    handler of every failure reply closes the connection. -/
theorem C17_reply_codes_bind (c : Conn) (cnt : List Int) (ec : Ec) (loc : Nat × Nat) (hs : c.Sized) :
    (∃ c', bindConnection2 c cnt ec loc
        = .ok (c', cnt, [.write .client (replyMsg c.ver (bindCode c.ver ec) loc.1 loc.2)
                          (.write .client (replyMsg c.ver (bindCode c.ver ec) loc.1 loc.2).length
                             (if ec = .ok then .startAccept else .closeAfter))]) ∧ c'.Sized)
    ∧ (∀ s len ec' n, complete {} c cnt (.write s len .closeAfter) (.wr ec' n) = .ok (c, cnt, closeActs)) :=
  ⟨reply_bound c cnt ec loc hs, fun s len ec' n => closeAfter_closes c cnt s len ec' n⟩

/-- **Counters over all histories**: `cmd_counts()` = the numbers of connections that received
    a (complete) request whose command byte is 1 (CONNECT), 2 (BIND), 3 (UDP ASSOCIATE) — as
    repaired in a5d21cc: requests RECEIVED, whatever their version byte or validity. -/
theorem C17_counters (ver : Int) (flags : Nat) (ls : List SLbl) (s : SS)
    (h : (SS.init ver flags).run {} ls = .ok s) :
    s.cnt = [s.countCmd 1, s.countCmd 2, s.countCmd 3] :=
  counters_run ver flags ls s h

/-- **Segmentation independence** of the negotiation: however the bytes of a composed
    exact-size read (greeting, method list, request, rest of a host name) are cut into read
    completions (at least one: `chunks ≠ []`), the handler is called on the same connection
    state with the same byte count as for one completion carrying all of them; it is called
    exactly when the region is full. -/
theorem C17_segmentation_independent (c : Conn) (off need got : Nat) (chunks : List Bytes) (hne : chunks ≠ [])
    (h : off + got + chunks.flatten.length ≤ c.outBuf.cap) :
    feedExact c off need got chunks
      = (match exactStep c off need got .ok chunks.flatten with
         | .error e => .error e
         | .ok (c', total, _) => .ok (c', total)) :=
  exact_fusion c off need got chunks hne h

theorem C17_read_ends_when_full (c : Conn) (off need got : Nat) (d : Bytes) (c' : Conn) (total : Nat) (done : Bool)
    (h : exactStep c off need got .ok d = .ok (c', total, done)) :
    total = got + d.length ∧ (done = true ↔ (d.length = 0 ∨ got + d.length ≥ need)) :=
  exact_done_iff c off need got d c' total done h


/-- **Segmentation independence of the WHOLE negotiation over an abstract client byte stream**
    (`SimVerif/SocksStream.lean`; given C05): the client's bytes `bs` reach the proxy in order,
    one read completion at a time, each completion carrying ANY non-empty piece of what is unread
    (the schedule `ks`: completion j carries `min (ks[j]+1) (region left) (unread)` bytes). After
    any such schedule, letting the negotiation run to its end gives exactly the state that
    running it to its end directly gives: same buffers, same counters, same unread rest of the
    stream (the payload the relay will carry), same actions (method reply; then close, connect,
    bind, UDP relay or lookup). The outcome of a negotiation is a function of the byte stream,
    not of its segmentation. -/
theorem C17_stream_segmentation (ver : Int) (flags : Nat) (cnt : List Int) (hc : cnt.length = 3)
    (bs : Bytes) (ks : List Nat) (s0 : NS) (h0 : NS.init {} ver flags cnt bs = .ok s0) :
    (match s0.feed {} ks with
     | .error e => .error e
     | .ok s1 => s1.settle {} s1.fuel) = s0.settle {} s0.fuel :=
  stream_segmentation ver flags cnt hc bs ks s0 h0

/-- … no schedule makes the negotiation fault, and the settled state is final: no read in
    progress, or nothing left to read (the fuel `|unread| + 1` suffices) -/
theorem C17_stream_no_fault (ver : Int) (flags : Nat) (cnt : List Int) (hc : cnt.length = 3)
    (bs : Bytes) (ks : List Nat) :
    ∃ s0, NS.init {} ver flags cnt bs = .ok s0 ∧ ∃ s1, s0.feed {} ks = .ok s1 :=
  stream_no_fault ver flags cnt hc bs ks

theorem C17_stream_settles (ver : Int) (flags : Nat) (cnt : List Int) (hc : cnt.length = 3)
    (bs : Bytes) (s0 : NS) (h0 : NS.init {} ver flags cnt bs = .ok s0) :
    ∃ t, s0.settle {} s0.fuel = .ok t ∧ (t.rd = none ∨ t.rest = []) :=
  stream_settles ver flags cnt hc bs s0 h0

/-- non-vacuity: SOCKS5 CONNECT 10.0.2.1:8080 + 2 payload bytes, fed byte by byte and all at
    once: counted once, payload left unread, last action = connect -/
example : demoSettled [0, 0, 0, 0, 0, 0, 0, 0, 0, 0, 0, 0, 0] = true ∧ demoSettled [] = true := by decide

/-! ### 3. relay transparency, UDP ASSOCIATE -/

/-- **Relay transparency over all histories** (given C05: the successive read completions of a
    socket carry the peer's stream in order; bytes handed to `async_write` reach the peer in
    order): on every connection the bytes written to the target are exactly the bytes the relay
    read from the client, and the bytes the relay wrote to the client are exactly the bytes it
    read from the target — every byte, unchanged, in order, for any segmentation. -/
theorem C17_relay_transparent (ver : Int) (flags : Nat) (ls : List SLbl) (s : SS)
    (h : (SS.init ver flags).run {} ls = .ok s) :
    ∀ cs ∈ s.conns, toServer cs.acts = fromClient cs.hist ∧ toClientRelay cs.acts = fromServer cs.hist :=
  relay_run ver flags ls s h

/-- `unwrap (wrap t d) = (t, d)` for every target (IPv4 or host name up to 255 bytes) -/
theorem C17_udp_unwrap_wrap (t : UTarget) (d : Bytes) (ht : t.WF) : udpUnwrap (udpWrap t d) = some (t, d) :=
  udp_unwrap_wrap t d ht

/-- **UDP forwarding strips exactly the header**: a client datagram `wrap (ip a p) payload`
    is sent to `a:p` as `payload`; one whose header does not fit is ignored; the relay keeps
    receiving in every case. -/
theorem C17_udp_forward (c : Conn) (cnt : List Int) (dg : Bytes) (hs : c.Sized) (hl : dg.length ≤ 1500) :
    (∀ a pt payload, udpUnwrap dg = some (.ip a pt, payload) →
       ∃ c', complete {} c cnt .udpRecv (.dgram .ok dg c.assoc) = .ok (c', cnt, [.udpSend payload a pt, .udpRecv .udpRecv]) ∧ c'.Sized)
    ∧ (∀ host pt payload, udpUnwrap dg = some (.name host pt, payload) →
       ∃ c', complete {} c cnt .udpRecv (.dgram .ok dg c.assoc)
          = .ok (c', cnt, [match c.nameMap.find? (fun e => e.2 == host) with
                           | some (a, _) => .udpSend payload a pt
                           | none => .udpResolve host pt (.udpResolve payload host),
                           .udpRecv .udpRecv]) ∧ c'.Sized)
    ∧ (udpUnwrap dg = none →
       ∃ c', complete {} c cnt .udpRecv (.dgram .ok dg c.assoc) = .ok (c', cnt, [.udpRecv .udpRecv]) ∧ c'.Sized) :=
  ⟨fun a pt payload hu => udp_forward_ip c cnt dg a pt payload hs hl hu,
   fun host pt payload hu => udp_forward_name c cnt dg host pt payload hs hl hu,
   fun hu => udp_truncated_ignored c cnt dg hs hl hu⟩

/-- **Replies are wrapped in a header naming their source** and sent to the client. -/
theorem C17_udp_reply_wrapped (c : Conn) (cnt : List Int) (dg : Bytes) (src : Nat × Nat)
    (hs : c.Sized) (hl : dg.length ≤ 1500) (hsrc : src ≠ c.assoc) (hfix : ¬ (c.assoc.2 = 0 ∧ src.1 = c.assoc.1)) :
    ∃ c', complete {} c cnt .udpRecv (.dgram .ok dg src)
        = .ok (c', cnt, [.udpSend (udpWrap (match (c.nameMap.find? (fun e => e.1 == src.1)).map Prod.snd with
                                            | some host => .name host src.2
                                            | none => .ip src.1 src.2) dg) c.assoc.1 c.assoc.2,
                         .udpRecv .udpRecv]) ∧ c'.Sized :=
  udp_reply_wrapped c cnt dg src hs hl hsrc hfix

/-! ### non-vacuity -/

/-- a complete SOCKS5 CONNECT in awkward segmentation (request cut 1 + 9), target reachable,
    payload both ways: the history is accepted label by label and ends relaying -/
def demoRun : List SLbl :=
  hs5 ++ [.complete 0 0 (.rd .ok [5]), .complete 0 0 (.rd .ok [1, 0, 1, 10, 0, 2, 1, 31, 144]),
          .complete 0 0 (.conn .ok (some (167772673, 8080))), .complete 0 0 (.wr .ok 10),
          .complete 0 1 (.rd .ok [104, 105]), .complete 0 0 (.rd .ok [111, 107]),
          .complete 0 0 (.wr .ok 2), .complete 0 0 (.wr .ok 2)]

def demoCheck : Bool :=
  match (SS.init 5 0).run {} demoRun with
  | .ok s => decide (s.cnt = [1, 0, 0]
      ∧ (s.conns.map (fun cs => (toServer cs.acts, fromClient cs.hist, toClientRelay cs.acts, fromServer cs.hist)))
          = [([104, 105], [104, 105], [111, 107], [111, 107])]
      ∧ (s.conns.map (fun cs => replies cs.acts)) = [[[5, 0], [5, 0, 0, 1, 10, 0, 2, 1, 31, 144]]])
  | .error _ => false

example : demoCheck = true := by decide

example : validReq 5 [5, 1, 0, 1, 10, 0, 2, 1, 31, 144] ∧ ¬ validReq 5 [5, 9, 0, 1, 10, 0, 2, 1, 31, 144]
    ∧ validReq 4 [4, 1, 31, 144, 10, 0, 2, 1, 0] ∧ ¬ validReq 4 [4, 1, 31, 144, 10, 0, 2, 1, 65] := by decide

example : udpUnwrap (udpWrap (.ip 167772673 5300) [170, 187]) = some (.ip 167772673 5300, [170, 187]) := by decide
example : udpUnwrap [0, 0, 0, 1, 10, 0] = none := by decide

end SimVerif
