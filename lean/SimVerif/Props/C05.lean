/-
  C05 — TCP delivers an exact in-order prefix of what was written; EOF comes last; a socket
        object that is closed and reused starts with an empty stream.

  Property theorems only. Mechanism model: SimVerif/Tcp.lean (unchanged). Open system
  (SimVerif/StreamSys.lean): ONE direction — writer `c.a`, reader `c.b` — of one established
  connection, with an adversarial network: a bag of in-flight packets from which the adversary
  delivers ANY element at ANY time (arbitrary delay and reordering) and drops any packet that
  carries a drop callback (which calls the writer's `packet_dropped`, as queues and droppers
  do); it never duplicates or alters a packet (the simulated network never does: C10). The
  writer's synchronous sections (segmentation loop; ACK path: retransmission loop, window
  growth, wake-up of a blocked writer) run one iteration per `run` label, so that the drop of a
  just-sent packet by the first hop can be interleaved anywhere. Labels: `write` (any buffer
  layout), `run`, `deliver i`, `drop i`, `read` (any buffer sizes; completed at once or later by
  `maybe_wakeup_reader`), `readNb`, `waitRead`, `closeA`.

  All theorems quantify over EVERY label sequence `ls` from ANY initial network state `n` in
  which the two sockets exist and have not sent / received anything yet (`TcpStart`;
  `established` builds one explicitly for arbitrary routes, and the last section shows that the
  real handshake functions produce one). The invariant (SimVerif/Lemmas/TcpSysInv.lean, after
  DESIGN.md A.3) never mentions the congestion window, in-flight account or MSS: whatever
  those do, what reaches the reader is right. The reorder buffer's stale entries (numbers below
  the expected one: first insertion wins, never erased) are tolerated by only requiring every
  entry to be genuine.

  Ghost logs: `segs` (payload of sequence number k, appended when `tcpSendSeg` creates the
  packet), `written` (their concatenation), `accepted` (for every completed write: the first `n`
  bytes of its buffers, `n` = the count its handler is posted with), `delivered` (bytes returned
  by completed reads — `readSome` results — in order), `eofAt` (length of `delivered` when
  end-of-file was first reported to the reader, by a read or by a wait).
-/
import SimVerif.Lemmas.TcpSysInv
import SimVerif.Lemmas.TcpReuse
import SimVerif.TcpAsIs
import SimVerif.TcpEx
import SimVerif.Lemmas.TcpGhost

namespace SimVerif

/-! ### the stream -/

/-- **Prefix.** The bytes handed to the reader so far are exactly a prefix of the bytes
    written: nothing missing inside the prefix, duplicated, reordered or altered — whatever the
    write sizes, scatter/gather layouts, read-buffer sizes, waits plus non-blocking reads,
    drops, delays, reorderings and retransmissions. -/
theorem C05_prefix (c : TcpCfg) (n : NetSt) (h : TcpStart c n) (ls : List TLbl) :
    (TS.run c (TS.init c n) ls).delivered <+: (TS.run c (TS.init c n) ls).written := by
  have hI := (TInv.reach h ls).core
  obtain ⟨sb, _, hq⟩ := hI.exB
  exact hI.flat ▸ hq.isPrefix

/-- **"Written" is what completed writes reported.** Outside a segmentation loop the bytes
    written are exactly the concatenation, over all completed writes in order, of the first `n`
    bytes of each write's buffers, `n` being the count its handler got; during a loop the
    segments sent so far by the write in progress come on top (they are a prefix of its buffers
    and will be reported when the loop ends). -/
theorem C05_written_is_accepted (c : TcpCfg) (n : NetSt) (h : TcpStart c n) (ls : List TLbl) :
    match (TS.run c (TS.init c n) ls).ctl with
    | .segs op _ rest acc =>
      ∃ cur, (TS.run c (TS.init c n) ls).written = (TS.run c (TS.init c n) ls).accepted ++ cur
        ∧ cur ++ rest.flatten = op.bufs.flatten ∧ acc = cur.length
    | _ => (TS.run c (TS.init c n) ls).written = (TS.run c (TS.init c n) ls).accepted := by
  have hI := (TInv.reach h ls).ctl
  cases hc : (TS.run c (TS.init c n) ls).ctl with
  | idle => rw [hc] at hI; exact hI
  | resend a b d => rw [hc] at hI; exact hI
  | segs op hops rest acc => rw [hc] at hI; exact hI.2.1

/-- … so between API calls the reader has a prefix of what write handlers reported. -/
theorem C05_prefix_accepted (c : TcpCfg) (n : NetSt) (h : TcpStart c n) (ls : List TLbl)
    (hidle : (TS.run c (TS.init c n) ls).ctl = .idle) :
    (TS.run c (TS.init c n) ls).delivered <+: (TS.run c (TS.init c n) ls).accepted := by
  have h1 := C05_prefix c n h ls
  have h2 := C05_written_is_accepted c n h ls
  rw [hidle] at h2
  exact h2 ▸ h1

/-- **Every data packet anywhere is genuine** (in flight, waiting for retransmission, in the
    reorder buffer): sequence number k carries exactly `segs[k]`, and the segments concatenate
    to what was written; what is queued for the reader continues what was delivered:
    `delivered ++ queued = segs[0] ++ … ++ segs[nextIn-1]`. -/
theorem C05_packets_genuine (c : TcpCfg) (n : NetSt) (h : TcpStart c n) (ls : List TLbl) :
    let s := TS.run c (TS.init c n) ls
    s.segs.flatten = s.written
    ∧ (∀ p ∈ s.bag, p.ty = .payload → s.segs[p.id]? = some p.payload)
    ∧ (∃ sa, s.net.tcp? c.a = some sa ∧ ∀ p ∈ sa.resend, p.ty = .payload ∧ s.segs[p.id]? = some p.payload)
    ∧ (∃ sb, s.net.tcp? c.b = some sb
        ∧ (∀ e ∈ sb.reorder, e.2.ty = .payload → s.segs[e.1]? = some e.2.payload)
        ∧ s.delivered ++ bytesOf sb.inq = (s.segs.take sb.nextIn).flatten) := by
  intro s
  have hI := (TInv.reach h ls).core
  refine ⟨hI.flat, ?_, ?_, ?_⟩
  · intro p hp hty
    rcases hI.bag p hp with (⟨_, h2⟩ | ⟨h1, _⟩) | ⟨h1, _⟩
    · exact h2
    · rw [h1] at hty; cases hty
    · rw [h1] at hty; cases hty
  · obtain ⟨sa, hsa, hao⟩ := hI.exA
    exact ⟨sa, hsa, hao.resend⟩
  · obtain ⟨sb, hsb, hq⟩ := hI.exB
    refine ⟨sb, hsb, ?_, hq.bytes⟩
    intro e he hty
    obtain ⟨hk, hd⟩ := hq.ro e he
    rcases hd with ⟨_, h2⟩ | ⟨h1, _⟩
    · rw [hk]; exact h2
    · rw [h1] at hty; cases hty

/-! ### one read -/

/-- **A read is `take`.** On an open, connected socket whose queue is non-empty and does not
    start with an error packet, a read with buffers of total capacity `c` returns exactly the
    first `min c available` bytes queued before the next error packet, leaves exactly the rest
    queued (a partially read packet keeps its remainder), and does not touch anything from the
    error packet on. -/
theorem C05_read_is_take (s : TcpSock) (caps : List Nat) (p : Pkt) (rest : List Pkt)
    (hopen : s.isOpen = true) (hconn : s.connectH = none) (hq : s.inq = p :: rest) (hp : p.ty ≠ .err) :
    ∃ d, (s.readSome true caps).2 = .ok d
      ∧ d = (availBytes s.inq).take (caps.foldl (· + ·) 0)
      ∧ availBytes (s.readSome true caps).1.inq = (availBytes s.inq).drop (caps.foldl (· + ·) 0)
      ∧ (s.readSome true caps).1.inq.dropWhile (fun p => p.ty != .err) = s.inq.dropWhile (fun p => p.ty != .err)
      ∧ (s.readSome true caps).1.nextIn = s.nextIn ∧ (s.readSome true caps).1.reorder = s.reorder := by
  have hne : (p.ty == .err) = false := by simpa using hp
  obtain ⟨h1, h2, h3⟩ := takeQueued_is_take (s.inq.length + 1) (caps.foldl (· + ·) 0) s.inq (by omega)
  have hr : s.readSome true caps =
      ({ s with inq := (takeQueued (s.inq.length + 1) (caps.foldl (· + ·) 0) s.inq).2 },
        .ok (takeQueued (s.inq.length + 1) (caps.foldl (· + ·) 0) s.inq).1) := by
    unfold TcpSock.readSome
    simp [hopen, hconn, hq, hne]
  rw [hr]
  exact ⟨_, rfl, h1, h2, h3, rfl, rfl⟩

/-! ### end of file -/

/-- **EOF comes last.** If end-of-file has been reported to the reader — at a moment when `k`
    bytes had been delivered — then at that moment (take `ls` up to there) and at every later
    moment the bytes delivered are ALL the bytes ever written (`delivered = written`), still
    exactly `k` of them: everything written before the close had been delivered, and nothing
    is delivered afterwards. (The writer had closed: `closed = true`.) -/
theorem C05_eof_last (c : TcpCfg) (n : NetSt) (h : TcpStart c n) (ls : List TLbl) (k : Nat)
    (he : (TS.run c (TS.init c n) ls).eofAt = some k) :
    (TS.run c (TS.init c n) ls).delivered = (TS.run c (TS.init c n) ls).written
    ∧ (TS.run c (TS.init c n) ls).delivered.length = k
    ∧ (TS.run c (TS.init c n) ls).closed = true := by
  obtain ⟨h1, h2, h3⟩ := (TInv.reach h ls).core.eof k he
  exact ⟨h2, h1.symm, h3⟩

/-- the EOF mark, once set, stays (so `C05_eof_last` applied to a prefix of the history and to
    the whole history speaks about the same `k`) -/
theorem C05_eof_stable (c : TcpCfg) (s : TS) (l : TLbl) (k : Nat) (he : s.eofAt = some k) :
    (s.step c l).eofAt = some k := by
  have hn : ∀ (s : TS) ev, s.eofAt = some k → (s.note ev).eofAt = some k := by
    intro s ev h
    rw [TS.note_eofAt]
    cases ev with
    | none => exact h
    | some x => cases x with
      | data d => exact h
      | err e => cases e <;> simp [eofNote, h]
  have hf : ∀ (s : TS) op r, s.eofAt = some k → (s.finish c op r).eofAt = some k := fun s op r h => h
  have hs : ∀ (s : TS) t op, s.eofAt = some k → (s.startWrite c t op).eofAt = some k := by
    intro s t op h
    unfold TS.startWrite
    split
    · exact hf _ _ _ h
    · exact hf _ _ _ h
    · exact h
  have hw : ∀ (s : TS) t, s.eofAt = some k → (s.wake c t).eofAt = some k := by
    intro s t h
    unfold TS.wake
    split
    · split
      · exact hs _ _ _ h
      · exact h
    · exact h
  cases l with
  | write t op =>
    simp only [TS.step]
    split
    · exact hw _ _ he
    · exact he
  | run t =>
    simp only [TS.step, TS.runCtl]
    split
    · exact he
    · split <;> exact he
    · split
      · exact hw _ _ he
      · exact he
    · split
      · exact hf _ _ _ he
      · split
        · exact hf _ _ _ he
        · exact he
  | deliver t i tr =>
    simp only [TS.step]
    split
    · exact he
    · split
      · split <;> exact he
      · exact hn _ _ he
      · exact hn _ _ he
      · exact he
  | drop i tr =>
    simp only [TS.step]
    split
    · exact he
    · split <;> exact he
  | read op => simp only [TS.step]; exact hn _ _ he
  | readNb caps => simp only [TS.step]; exact hn _ _ he
  | waitRead hh => simp only [TS.step]; exact hn _ _ he
  | closeA t =>
    simp only [TS.step]
    split <;> exact he

/-! ### reuse -/

/-- **close() leaves an empty stream state**: incoming queue, reorder buffer and retransmission
    list empty, sequence counters, in-flight account and last-drop mark zero; the socket is
    closed and detached from its channel — so a reused socket object starts its next connection
    with nothing of the previous one. -/
theorem C05_reuse_empty (n : NetSt) (now : Int) (name : String) (s0 : TcpSock) (hs : n.tcp? name = some s0) :
    ∃ s', (n.tcpClose now name).1.tcp? name = some s'
      ∧ s'.inq = [] ∧ s'.reorder = [] ∧ s'.resend = []
      ∧ s'.nextIn = 0 ∧ s'.nextOut = 0 ∧ s'.inFlight = 0 ∧ s'.outstanding = [] ∧ s'.lastDrop = 0
      ∧ s'.isOpen = false ∧ s'.chan = none := by
  obtain ⟨s', h1, h2, h3, h4⟩ := tcpClose_streamEmpty n now name s0 hs
  exact ⟨s', h1, h2.inq, h2.reorder, h2.resend, h2.nextIn, h2.nextOut, h2.inFlight, h2.outstanding,
    h2.lastDrop, h3, h4⟩

/-- … and so does every way into the next connection: `open()` (used by `async_connect` on a
    closed socket) and the acceptor's `internal_connect` (accept-into an existing socket object)
    both go through `close()`; whatever the object held, the new connection starts empty. Such
    a state is a `TcpStart` state, so all theorems above apply to the new connection. -/
theorem C05_reuse_attach_empty (n : NetSt) (now : Int) (peer : String) (ep : Ep) (cid : Nat) (p0 : TcpSock)
    (hs : n.tcp? peer = some p0) :
    (∃ s', (n.tcpAttach now peer ep cid).1.tcp? peer = some s' ∧ s'.StreamEmpty)
    ∧ (∀ v4, ∃ s', (n.tcpOpen now peer v4).1.tcp? peer = some s' ∧ s'.StreamEmpty) :=
  ⟨tcpAttach_streamEmpty n now peer ep cid p0 hs,
   fun v4 => (tcpOpen_streamEmpty n now peer v4 p0 hs).imp (fun _ h => ⟨h.1, h.2.1⟩)⟩

/-- **The pinned tree's close() (queues kept) violates the property**: in the scenario of
    SimVerif/TcpAsIs.lean — 3 bytes of connection 1 left unread in `s2`, `s2` closed and
    accepted into for connection 2, on which nothing is ever written — the first read on the
    new connection returns the previous connection's bytes. With the repaired close() the same
    read finds nothing (`would_block`). -/
theorem C05_asis_stale :
    rdEvOf (Reuse.reusedAsIs.tcpReadNb "s2" [10]).2 = some (.data [1, 2, 3])
    ∧ rdEvOf (Reuse.reusedFixed.tcpReadNb "s2" [10]).2 = none := by
  decide

/-! ### the ghost logs are what the handlers are told

  `TS.step` records `rdEvOf r` for the `readSome` result `r` of `async_read_some` / `read_some`,
  the error of `available` for `async_wait`, and `wakeRead` of the socket state just before
  `maybe_wakeup_reader()` for an arrival. The completions the mechanism posts are functions of
  the very same results (`readCompl`, `waitCompl`, `wakeCompl` in Lemmas/TcpGhost.lean). -/

/-- `async_read_some`: after aborting whatever was pending, the handler is posted with
    `readCompl` of the `readSome` result whose `rdEvOf` the ghost records — for `.ok d` the
    completion's `data` field is `d` itself, the bytes appended to `delivered` -/
theorem C05_ghost_read (n : NetSt) (name : String) (op : ReadOp) (s : TcpSock) (hs : n.tcp? name = some s) :
    postsOf (n.tcpAsyncRead name op).2
      = postsOf s.abortRecv.2 ++ readCompl op.h (s.readSome s.chan.isSome op.caps).2 :=
  tcpAsyncRead_posts n name op s hs

/-- `async_wait(wait_read)`: the handler gets the error of `available` the ghost records, or
    success without data when bytes are available -/
theorem C05_ghost_wait (n : NetSt) (name : String) (h : Nat) (s : TcpSock) (hs : n.tcp? name = some s) :
    postsOf (n.tcpWaitRead name h).2 = postsOf s.abortRecv.2 ++ waitCompl h (s.available s.chan.isSome) :=
  tcpWaitRead_posts n name h s hs

/-- an arriving segment / end-of-stream marker: completions are posted only on the in-order
    path, by `maybe_wakeup_reader()` on the state `tcpPreWake` computes, and the ghost event
    `wakeRead` records exactly the data / error those completions carry (a completion not
    recorded is a wait completing with success: no data) -/
theorem C05_ghost_arrival (tp : TParams) (n : NetSt) (now : Int) (name : String) (p : Pkt)
    (hty : p.ty = .payload ∨ p.ty = .err) :
    postsOf (n.tcpIncoming tp now name p).2
      = (match n.tcpPreWake name p with | some s1 => s1.wakeCompl tp | none => [])
    ∧ ∀ s1, n.tcpPreWake name p = some s1 →
        (∀ d, s1.wakeRead tp = some (.data d) → ∃ h, s1.wakeCompl tp = [{ h := h, ec := .ok, extra := readExtra d, data := d }])
        ∧ (∀ e, s1.wakeRead tp = some (.err e) → ∃ h x, s1.wakeCompl tp = [{ h := h, ec := e, extra := x }])
        ∧ (s1.wakeRead tp = none → ∀ c ∈ s1.wakeCompl tp, c.ec = .ok ∧ c.extra = "") :=
  ⟨tcpIncoming_posts tp n now name p hty, fun s1 _ => wakeRead_wakeCompl tp s1⟩

/-! ### non-vacuity -/

/-- the explicitly built established connection is a start state in both directions -/
example (cfg : NetCfg) (c : TcpCfg) (epA epB : Ep) (hAB hBA : List String) (h : c.a ≠ c.b) :
    TcpStart c (established cfg c epA epB hAB hBA) := (established_start cfg c epA epB hAB hBA h).1

/-- **the real handshake produces a start state** (both directions): `c` on A connects to the
    acceptor `a` on B, which has an accept into `p` outstanding; the SYN reaches `a`
    (`accIncoming` → `accCheckQueue` → `tcpAttach p`), the SYN-ACK reaches `c`. -/
example : TcpStart { a := "c", b := "p" } Hs.r3.1 ∧ TcpStart { a := "p", b := "c" } Hs.r3.1 := by
  rw [Hs.r3_eq]
  exact ⟨tcpStart_of_check _ _ (by decide) (by decide) (by decide),
         tcpStart_of_check _ _ (by decide) (by decide) (by decide)⟩

/-- … with both sockets open on channel 0, the connector's handler completed -/
example : (Hs.r3.1.tcp? "c").map (fun s => (s.isOpen, s.chan, s.connectH, s.mss)) = some (true, some 0, none, 100)
    ∧ (Hs.r3.1.tcp? "p").map (fun s => (s.isOpen, s.chan, s.connectH, s.mss)) = some (true, some 0, none, 3000)
    ∧ postsOf Hs.r3.2 = [{ h := 7, ec := .ok }] := by
  rw [Hs.r3_eq]; decide

/-- the history of SimVerif/TcpEx.lean: segment 0 dropped by the first hop, segment 1 arrives
    first (reorder buffer), its ACK triggers the retransmission of segment 0, whose arrival
    completes the pending 2-byte read with half of it; the rest is read non-blocking; a second
    write blocks on the halved window and is aborted by close; EOF is reported after all 4
    accepted bytes -/
example : TcpEx.final.delivered = [1, 2, 3, 4] ∧ TcpEx.final.accepted = [1, 2, 3, 4]
    ∧ TcpEx.final.segs = [[1, 2, 3], [4]] ∧ TcpEx.final.eofAt = some 4 ∧ TcpEx.final.closed = true
    ∧ TcpEx.final.posts.map (fun x => (x.h, x.ec, x.extra))
      = [(1, .ok, "n=4 stream=0 off=0"), (7, .ok, "n=2 data=0102"), (2, .aborted, "n=0 stream=0 off=4"),
         (9, .aborted, ""), (8, .eof, "n=0 data=-")] := by decide

example := C05_prefix TcpEx.c TcpEx.n0 (established_start _ _ _ _ _ _ (by decide)).1 TcpEx.hist
example := C05_eof_last TcpEx.c TcpEx.n0 (established_start _ _ _ _ _ _ (by decide)).1 TcpEx.hist 4 (by decide)

end SimVerif
