/-
  C14 — resolver: serial FIFO lookups with compounding latency, literals at once.

  Property theorems only (mechanism model: SimVerif/Resolver.lean; open system and the
  kernel's guarantees as side condition `RS.okRun`: SimVerif/ResolverSys.lean; invariant:
  SimVerif/Lemmas/ResolverInv.lean). All statements quantify over every well-timed history
  `ls` of the repaired tree (`RParams.fixed`) from the initial state: every sequence of
  `async_resolve` of host names (arbitrary oracle answers: error, addresses, latency ≥ 0),
  of IPv4/IPv6 literals, and of `cancel()`, at arbitrary instants — including calls made by a
  lookup handler while `on_lookup` is invoking it (`timerFires t re`), and calls made between
  the instant the kernel posts `on_lookup` (`timerExpires t`) and the moment it runs.

  Vocabulary of the ghost logs: a request `q : RReq` has `q.t` (instant), `q.h` (handler),
  `q.literal`, the oracle's `q.err/q.ips/q.lat` and `q.nominal` — C14's recurrence
  `max (q.t) (nominal of the previous host-name request) + q.lat`, restarted by `cancel()`
  (`C14_nominal_is_recurrence`); for a literal `q.nominal = q.t + 1000`. A completion
  `c : RComp` has `c.t`, `c.h`, `c.ec`, `c.res`, `c.inline` (invoked by `on_lookup`, as
  opposed to posted by `cancel()`), and the ghosts `c.literal`, `c.sched` (the
  `completion_time` the queue entry carried). Times are ns; 1000 = one microsecond.
-/
import SimVerif.Lemmas.ResolverInv

namespace SimVerif

/-! ### exactly once -/

/-- **None lost, none invented.** At every state the handlers completed so far together with
    the handlers still queued are exactly the handlers requested (as multisets). With fresh
    handler ids nothing is completed twice nor completed while still queued; once the queue
    has drained everything requested has completed. -/
theorem C14_exactly_once (ls : List RLbl) (h : RS.okRun .fixed {} ls) :
    ((RS.run .fixed {} ls).compLog.map RComp.h ++ (RS.run .fixed {} ls).r.queue.map REntry.h).Perm
        ((RS.run .fixed {} ls).reqLog.map RReq.h)
    ∧ ((RS.run .fixed {} ls).fresh →
        ((RS.run .fixed {} ls).compLog.map RComp.h
          ++ (RS.run .fixed {} ls).r.queue.map REntry.h).Nodup)
    ∧ ((RS.run .fixed {} ls).r.queue = [] →
        ((RS.run .fixed {} ls).compLog.map RComp.h).Perm ((RS.run .fixed {} ls).reqLog.map RReq.h)) := by
  have hI := (RInv.run_init ls h).core
  have hperm : ((RS.run .fixed {} ls).compLog.map RComp.h
      ++ (RS.run .fixed {} ls).r.queue.map REntry.h).Perm ((RS.run .fixed {} ls).reqLog.map RReq.h) := by
    rw [List.perm_iff_count]
    intro a
    have := hI.cnt a
    rw [List.count_append]; omega
  refine ⟨hperm, fun hf => (List.Perm.nodup_iff hperm).mpr hf, fun hq => ?_⟩
  rw [hq] at hperm
  simpa using hperm

/-- a non-empty queue always has the timer armed for its front entry, or `on_lookup` posted
    (nothing is stranded); the unconditional `m_queue.front()` of `on_lookup` is never
    evaluated on an empty vector -/
theorem C14_pending_has_timer (ls : List RLbl) (h : RS.okRun .fixed {} ls) :
    (∀ z, (RS.run .fixed {} ls).r.queue.head? = some z →
        (∃ a, (RS.run .fixed {} ls).timer = some (z.completion, a))
        ∨ (RS.run .fixed {} ls).posted = true)
    ∧ (RS.run .fixed {} ls).ub = false :=
  ⟨(RInv.run_init ls h).armed, (RInv.run_init ls h).core.ub⟩

/-! ### results -/

/-- **Results.** Every completion belongs to a request with the same handler; a completion
    made by `on_lookup` carries exactly the oracle's error and the oracle's addresses, in
    order, each paired with the port; for a literal that is success and the literal itself;
    a completion posted by `cancel()` carries `operation_aborted`. -/
theorem C14_results (ls : List RLbl) (h : RS.okRun .fixed {} ls) :
    ∀ c ∈ (RS.run .fixed {} ls).compLog, ∃ q ∈ (RS.run .fixed {} ls).reqLog,
      q.h = c.h ∧ q.literal = c.literal
      ∧ (c.inline = false → c.ec = .aborted)
      ∧ (c.inline = true → c.ec = q.err ∧ c.res = q.ips.map (fun a => (a, q.port)))
      ∧ (c.inline = true → c.literal = true →
          c.ec = .ok ∧ ∃ addr, q.ips = [addr] ∧ c.res = [(addr, q.port)]) := by
  intro c hc
  have hI := (RInv.run_init ls h).core
  obtain ⟨q, hq, h1, h2, h3, h4⟩ := hI.match_c c hc
  refine ⟨q, hq, h1, h2, h3, fun hi => ?_, fun hi hl => ?_⟩
  · have := (h4 hi).1
    simp only [RReq.expected, Prod.mk.injEq] at this
    exact this
  · have := (h4 hi).1
    simp only [RReq.expected, Prod.mk.injEq] at this
    obtain ⟨he, addr, ha⟩ := hI.reqwf q hq (by rw [h2]; exact hl)
    exact ⟨by rw [this.1, he], addr, ha, by rw [this.2, ha]; rfl⟩

/-- … in particular any completion whose error code is not `operation_aborted` was made by
    `on_lookup` and carries the oracle's answer. -/
theorem C14_results_not_aborted (ls : List RLbl) (h : RS.okRun .fixed {} ls) :
    ∀ c ∈ (RS.run .fixed {} ls).compLog, c.ec ≠ .aborted →
      ∃ q ∈ (RS.run .fixed {} ls).reqLog, q.h = c.h
        ∧ c.ec = q.err ∧ c.res = q.ips.map (fun a => (a, q.port)) := by
  intro c hc hne
  obtain ⟨q, hq, h1, _, h3, h4, _⟩ := C14_results ls h c hc
  cases hi : c.inline with
  | false => exact absurd (h3 hi) hne
  | true => exact ⟨q, hq, h1, h4 hi⟩

/-! ### serial FIFO with compounding latency -/

/-- **Request order.** Host-name lookups complete (successfully or aborted) in the order they
    were requested, none skipped: requested = completed ++ still queued. (A completion posted
    by `cancel()` is logged when it is posted; C02 runs it later at that same instant, after
    anything posted before it — e.g. an `on_lookup` the kernel had already posted.) -/
theorem C14_serial_fifo (ls : List RLbl) (h : RS.okRun .fixed {} ls) :
    ((RS.run .fixed {} ls).reqLog.filter (fun q => !q.literal)).map RReq.h
      = ((RS.run .fixed {} ls).compLog.filter (fun c => !c.literal)).map RComp.h
        ++ ((RS.run .fixed {} ls).r.queue.filter (fun e => !e.literal)).map REntry.h :=
  (RInv.run_init ls h).core.fifo

/-- the `nominal` field of a host-name request is C14's recurrence on the requests alone:
    max(request instant, nominal completion of the previous host-name request) + latency;
    `cancel()` restarts the chain -/
theorem C14_nominal_is_recurrence (p : RParams) (s : RS) (err : Ec) (ips : List String)
    (lat : Int) (port h : Nat) :
    (s.doName p err ips lat port h).reqLog
        = s.reqLog ++ [RReq.ofName s.now err ips lat port h (max s.now (s.lastNom.getD s.now) + lat)]
    ∧ (s.doName p err ips lat port h).lastNom = some (max s.now (s.lastNom.getD s.now) + lat)
    ∧ s.doCancel.lastNom = none := by
  refine ⟨?_, ?_, by rw [doCancel_eq]⟩
  · cases hq : s.r.queue with
    | nil => rw [doName_eq p s err ips lat port h _ (by rw [hq]; rfl)]; rfl
    | cons f rest => rw [doName_eq p s err ips lat port h f (by rw [hq]; rfl)]; rfl
  · cases hq : s.r.queue with
    | nil => rw [doName_eq p s err ips lat port h _ (by rw [hq]; rfl)]; rfl
    | cons f rest => rw [doName_eq p s err ips lat port h f (by rw [hq]; rfl)]; rfl

/-- **Timing, the tight statement.** A host-name lookup completed by `on_lookup` at `c.t`:
    * its entry was scheduled (`c.sched`) at its nominal completion, or up to 1 µs later
      (`litSlack` is 0 until some literal has been requested, 1000 afterwards: the extra comes
      from chaining off a pending literal's deadline);
    * it never completes before its schedule;
    * it completes exactly on schedule, or exactly at the deadline (request + 1 µs) of some
      literal. -/
theorem C14_serial_timing (ls : List RLbl) (h : RS.okRun .fixed {} ls) :
    ∀ c ∈ (RS.run .fixed {} ls).compLog, c.inline = true → c.literal = false →
      ∃ q ∈ (RS.run .fixed {} ls).reqLog, q.h = c.h ∧ q.literal = false
        ∧ q.nominal ≤ c.sched ∧ c.sched ≤ q.nominal + litSlack (RS.run .fixed {} ls).reqLog
        ∧ c.sched ≤ c.t
        ∧ (c.t = c.sched ∨ LitDl (RS.run .fixed {} ls).reqLog c.t) := by
  intro c hc hi hl
  obtain ⟨q, hq, h1, h2, _, h4⟩ := (RInv.run_init ls h).core.match_c c hc
  obtain ⟨_, _, h5, h6, h7⟩ := h4 hi
  exact ⟨q, hq, h1, by rw [h2]; exact hl, (h5 hl).1, (h5 hl).2, h6, h7⟩

/-- **Timing, as bounds on the completion instant**: never before the nominal completion;
    at most 1 µs after it, unless it is exactly 1 µs after the request of some literal. -/
theorem C14_serial_bounds (ls : List RLbl) (h : RS.okRun .fixed {} ls) :
    ∀ c ∈ (RS.run .fixed {} ls).compLog, c.inline = true → c.literal = false →
      ∃ q ∈ (RS.run .fixed {} ls).reqLog, q.h = c.h ∧ q.literal = false
        ∧ q.nominal ≤ c.t
        ∧ (c.t ≤ q.nominal + 1000
            ∨ ∃ l ∈ (RS.run .fixed {} ls).reqLog, l.literal = true ∧ c.t = l.t + 1000) := by
  intro c hc hi hl
  obtain ⟨q, hq, h1, h2, h3, h4, h5, h6⟩ := C14_serial_timing ls h c hc hi hl
  have := litSlack_le (RS.run .fixed {} ls).reqLog
  refine ⟨q, hq, h1, h2, by omega, ?_⟩
  rcases h6 with h6 | h6
  · left; omega
  · exact Or.inr h6

/-- **Exact compounding.** In a history without literals every host-name lookup that is not
    aborted completes at exactly max(request, nominal of the previous one) + latency. -/
theorem C14_serial_exact_without_literals (ls : List RLbl) (h : RS.okRun .fixed {} ls)
    (hnl : ∀ q ∈ (RS.run .fixed {} ls).reqLog, q.literal = false) :
    ∀ c ∈ (RS.run .fixed {} ls).compLog, c.inline = true →
      ∃ q ∈ (RS.run .fixed {} ls).reqLog, q.h = c.h ∧ c.t = q.nominal := by
  intro c hc hi
  obtain ⟨q, hq, h1, h2, _, _⟩ := (RInv.run_init ls h).core.match_c c hc
  have hl : c.literal = false := by rw [← h2]; exact hnl q hq
  obtain ⟨q, hq, h1, h2, h3, h4, h5, h6⟩ := C14_serial_timing ls h c hc hi hl
  rw [litSlack_nolit hnl] at h4
  refine ⟨q, hq, h1, ?_⟩
  rcases h6 with h6 | ⟨l, hl', hll, _⟩
  · omega
  · rw [hnl l hl'] at hll; cases hll

/-- **When the 1 µs clause does hold.** A lookup (host name or literal) completes exactly on
    its schedule unless some literal was requested in the window that opens 1 µs before that
    schedule and closes at the completion. -/
theorem C14_on_schedule_unless_literal_in_window (ls : List RLbl) (h : RS.okRun .fixed {} ls) :
    ∀ c ∈ (RS.run .fixed {} ls).compLog, c.inline = true →
      (∀ l ∈ (RS.run .fixed {} ls).reqLog, l.literal = true → ¬ (c.sched - 1000 < l.t ∧ l.t < c.t)) →
      c.t = c.sched := by
  intro c hc hi hw
  obtain ⟨q, hq, _, _, _, h4⟩ := (RInv.run_init ls h).core.match_c c hc
  obtain ⟨_, _, _, h6, h7⟩ := h4 hi
  rcases h7 with h7 | ⟨l, hl, hll, hlt⟩
  · exact h7
  · have := hw l hl hll
    omega

/-! ### literals -/

/-- **Literals.** A literal requested at `q.t` is scheduled for `q.t + 1 µs`, never completes
    before that, and completes exactly 1 µs after the request of some literal requested no
    earlier than itself (itself, unless a later literal took the timer over). The transcription
    of a literal's `async_resolve` (`R.resolveLiteral`, label `resolveLit`) has no oracle input. -/
theorem C14_literal_fast (ls : List RLbl) (h : RS.okRun .fixed {} ls) :
    ∀ c ∈ (RS.run .fixed {} ls).compLog, c.inline = true → c.literal = true →
      ∃ q ∈ (RS.run .fixed {} ls).reqLog, q.h = c.h ∧ q.literal = true
        ∧ c.sched = q.t + 1000 ∧ q.t + 1000 ≤ c.t
        ∧ ∃ l ∈ (RS.run .fixed {} ls).reqLog, l.literal = true ∧ q.t ≤ l.t ∧ c.t = l.t + 1000 := by
  intro c hc hi hl
  obtain ⟨q, hq, h1, h2, _, h4⟩ := (RInv.run_init ls h).core.match_c c hc
  obtain ⟨_, h5, _, h6, h7⟩ := h4 hi
  have hs := h5 hl
  have hql : q.literal = true := by rw [h2]; exact hl
  refine ⟨q, hq, h1, hql, hs, by omega, ?_⟩
  rcases h7 with h7 | ⟨l, hl', hll, hlt⟩
  · exact ⟨q, hq, hql, Int.le_refl _, by omega⟩
  · exact ⟨l, hl', hll, by omega, hlt⟩

/-! ### cancel -/

/-- **cancel().** At a `cancel()` every queued entry is posted once with `operation_aborted`,
    in queue order, and the queue is left empty; with fresh handler ids none of them is ever
    completed again, whatever happens afterwards. -/
theorem C14_cancel (pre post : List RLbl) (t : Int)
    (h : RS.okRun .fixed {} (pre ++ .cancel t :: post)) :
    (RS.run .fixed {} (pre ++ [.cancel t])).compLog
        = (RS.run .fixed {} pre).compLog
          ++ (RS.run .fixed {} pre).r.queue.map (RComp.ofEntry t false .aborted)
    ∧ (RS.run .fixed {} (pre ++ [.cancel t])).r.queue = []
    ∧ ((RS.run .fixed {} (pre ++ .cancel t :: post)).fresh →
        ∀ e ∈ (RS.run .fixed {} pre).r.queue,
          ((RS.run .fixed {} (pre ++ .cancel t :: post)).compLog.map RComp.h).count e.h = 1) := by
  have hstep : RS.run .fixed {} (pre ++ [.cancel t])
      = ({ (RS.run .fixed {} pre) with now := t }).doCancel := by
    rw [rs_run_append]; rfl
  refine ⟨by rw [hstep, doCancel_eq], by rw [hstep, doCancel_eq], ?_⟩
  intro hf e he
  have hnd := (C14_exactly_once _ h).2.1 hf
  have hsplit : pre ++ .cancel t :: post = (pre ++ [.cancel t]) ++ post := by simp
  obtain ⟨ext, hext⟩ := rs_run_compLog .fixed post (RS.run .fixed {} (pre ++ [.cancel t]))
  rw [← rs_run_append, ← hsplit] at hext
  have hmem : e.h ∈ (RS.run .fixed {} (pre ++ .cancel t :: post)).compLog.map RComp.h := by
    rw [hext, hstep, doCancel_eq]
    simp only [List.map_append, List.mem_append, List.mem_map]
    left; right
    exact ⟨RComp.ofEntry t false .aborted e, ⟨e, he, rfl⟩, rfl⟩
  have hle := List.nodup_iff_count.mp (List.nodup_append.mp hnd).1 e.h
  have hpos := List.count_pos_iff.mpr hmem
  omega

/-! ### the pinned tree, the naive repair, and the corner cases of the "1 µs" clauses -/

/-- **As-is chaining defect** (`start = m_queue.front().completion_time`): three host-name
    lookups requested at 0 with latencies 100 ms, 100 ms, 10 ms. The third is *scheduled* for
    110 ms; `on_lookup` pops in queue order, so (on the repaired kernel, where an overdue timer
    fires at the current instant) it completes at 200 ms, together with the second one —
    10 ms early. The repaired chaining completes them at 100, 200, 210 ms. -/
theorem C14_asis_overlap :
    RS.okRun .pinned {} REx.overlapPinned
    ∧ (RS.run .pinned {} REx.overlapPinned).compLog.map (fun c => (c.h, c.sched, c.t))
        = [(0, 100000000, 100000000), (1, 200000000, 200000000), (2, 110000000, 200000000)]
    ∧ RS.okRun .fixed {} REx.overlapFixed
    ∧ (RS.run .fixed {} REx.overlapFixed).compLog.map (fun c => (c.h, c.sched, c.t))
        = [(0, 100000000, 100000000), (1, 200000000, 200000000), (2, 210000000, 210000000)]
    ∧ (RS.run .fixed {} REx.overlapFixed).reqLog.map (fun q => (q.h, q.nominal))
        = [(0, 100000000), (1, 200000000), (2, 210000000)] := by decide

/-- **As-is re-entrancy defect**: a handler that calls `cancel()` while another lookup is
    queued makes `on_lookup` read `m_queue.front()` of the empty vector (the `empty` flag was
    read before the handler ran). Repaired: the second lookup is aborted, nothing else. -/
theorem C14_asis_cancel_in_handler :
    RS.okRun .pinned {} REx.recancel ∧ (RS.run .pinned {} REx.recancel).ub = true
    ∧ RS.okRun .fixed {} REx.recancel ∧ (RS.run .fixed {} REx.recancel).ub = false
    ∧ (RS.run .fixed {} REx.recancel).compLog.map (fun c => (c.h, c.t, c.ec, c.inline))
        = [(0, 1000, .ok, true), (1, 1000, .aborted, false)] := by decide

/-- **As-is stale-completion defect** (`on_lookup` pops the front whatever its time; everything
    else repaired). (a) A literal is cancelled at 500 ns, `cancel()` leaves the timer armed for
    1000; it expires at the instant another handler requests a host name with latency 50 ms:
    the posted `on_lookup` completes that lookup at 1000 ns, 50 ms early. (b) The timer expires
    for a due host name; a handler due at the same instant requests a literal first: it
    completes 0 ns after the request (harmless for C14, but not what was scheduled). Repaired
    (`on_lookup` re-arms when the front is not due): 50 ms + 1 µs; literal at 2500, the host
    name after it. -/
theorem C14_asis_stale_completion :
    RS.okRun .noDueCheck {} REx.stale
    ∧ (RS.run .noDueCheck {} REx.stale).compLog.map (fun c => (c.h, c.ec, c.sched, c.t))
        = [(0, .aborted, 1000, 500), (1, .ok, 50001000, 1000)]
    ∧ RS.okRun .fixed {} REx.staleFixed
    ∧ (RS.run .fixed {} REx.staleFixed).compLog.map (fun c => (c.h, c.ec, c.sched, c.t))
        = [(0, .aborted, 1000, 500), (1, .ok, 50001000, 50001000)]
    ∧ RS.okRun .noDueCheck {} REx.race
    ∧ (RS.run .noDueCheck {} REx.race).compLog.map (fun c => (c.h, c.sched, c.t)) = [(1, 2500, 1500)]
    ∧ RS.okRun .fixed {} REx.raceFixed
    ∧ (RS.run .fixed {} REx.raceFixed).compLog.map (fun c => (c.h, c.sched, c.t))
        = [(1, 2500, 2500), (0, 1500, 2500)] := by decide

/-- **Why `back()` alone is not the repair**: literals at 0 and 999 ns keep the timer until
    1999; a host name with latency 600 ns requested at 1500 chains off the overdue literal
    (1000) and completes at 1999 — 499 ns after the request. With `max(now, ·)`: 2100. -/
theorem C14_naive_back_early :
    RS.okRun .naiveBack {} REx.early
    ∧ (RS.run .naiveBack {} REx.early).compLog.map (fun c => (c.h, c.t)) = [(1, 1999), (0, 1999), (2, 1999)]
    ∧ (RS.run .naiveBack {} REx.early).reqLog.map (fun q => (q.h, q.t, q.nominal))
        = [(0, 0, 1000), (1, 999, 1999), (2, 1500, 2100)]
    ∧ RS.okRun .fixed {} REx.earlyFixed
    ∧ (RS.run .fixed {} REx.earlyFixed).compLog.map (fun c => (c.h, c.t)) = [(1, 1999), (0, 1999), (2, 2100)] := by
  decide

/-- **"Literals complete within a microsecond" fails when literals follow each other closely**
    (repaired tree): literals requested at 0, 999, 1998 ns all complete at 2998 ns, newest
    first, and so does the host name (latency 500 ns) queued behind them. Each further literal
    requested within 1 µs of the previous one postpones everything again: no bound. -/
theorem C14_literal_chain_corner :
    RS.okRun .fixed {} REx.chain
    ∧ (RS.run .fixed {} REx.chain).compLog.map (fun c => (c.h, c.literal, c.sched, c.t))
        = [(3, true, 2998, 2998), (2, true, 1999, 2998), (1, true, 1000, 2998), (0, false, 500, 2998)] := by
  decide

/-- **"A pending literal delays a host name by at most 1 µs" fails with two literals that are
    never pending together** (repaired tree): a literal pending at the request moves the
    schedule to nominal + 1 µs, a second one requested 1 ns before that schedule holds the
    timer 999 ns longer: nominal 5000, completion 6999. -/
theorem C14_two_literals_corner :
    RS.okRun .fixed {} REx.two
    ∧ (RS.run .fixed {} REx.two).compLog.map (fun c => (c.h, c.literal, c.sched, c.t))
        = [(0, true, 1000, 1000), (2, true, 6999, 6999), (1, false, 6000, 6999)]
    ∧ (RS.run .fixed {} REx.two).reqLog.map (fun q => (q.h, q.nominal))
        = [(0, 1000), (1, 5000), (2, 6999)] := by decide

/-! ### non-vacuity: a well-timed history with results, errors, literals (v4 and v6), a later
    request, and a handler that cancels and requests from inside `on_lookup` -/

example : RS.okRun .fixed {} REx.mixed := by decide

example : (RS.run .fixed {} REx.mixed).compLog.map (fun c => (c.h, c.t, c.ec, c.inline))
    = [(1, 1000, .ok, true), (0, 100000000, .ok, true), (3, 100000000, .aborted, false),
       (4, 100001000, .ok, true), (5, 150001000, .ok, true)] := by decide

example : (RS.run .fixed {} REx.mixed).compLog.map (fun c => c.res)
    = [[("10.9.8.7", 8080)], [("1.2.3.4", 80), ("5.6.7.8", 80)], [], [("::1", 0)],
       [("9.9.9.9", 65535)]] := by decide

example : (RS.run .fixed {} REx.mixed).fresh := by decide
example : (RS.run .fixed {} REx.mixed).r.queue = [] := by decide

example := C14_exactly_once REx.mixed (by decide)
example := C14_results REx.mixed (by decide)
example := C14_serial_timing REx.mixed (by decide)
example := C14_literal_fast REx.mixed (by decide)
example := C14_cancel [.resolveLit 0 "127.0.0.1" 0 0] [.timerExpires 1000] 500 (by decide)
example := C14_exactly_once REx.staleFixed (by decide)
example := C14_serial_bounds REx.raceFixed (by decide)

end SimVerif
