/-
  C01 — Deterministic replay: same program, same trace, whatever the environment.

  What Lean can carry here, and what it cannot (DESIGN.md §5 C01: partial by nature):

  * the world model is a Lean *function* of the scenario: there is no argument standing for
    memory layout, allocator contents, wall-clock time or earlier simulations, so every
    scheduling choice is resolved by the two deterministic rules of the kernel — FIFO among
    ready handlers (`C02_fifo`), expiry-then-arming order among timers (`C03_order`) — and
    registries are keyed by endpoint and object name, never by address. The theorems below
    state the places where the C++ *has* an environment input and the model shows it does not
    reach the observables: the global clock left behind by an earlier simulation, and the
    bytes the allocator hands back for a channel's byte counters;
  * that the real library has no further environment dependence is not provable here: it
    is established by executing every generated scenario under perturbed environments and
    comparing the complete trace with this environment-free prediction (props/c01.py).
-/
import SimVerif.Props.C03
import SimVerif.Props.C19

namespace SimVerif

/-- The clock of a new simulation reads zero whatever an earlier simulation in the same
    process left in the global (`reset_clock()` in the constructor): the initial kernel state
    does not mention the old value. -/
theorem C01_clock_reset (leftover : Int) :
    ({ ({} : K) with now := leftover } : K).now = leftover ∧ ({} : K).now = 0 := ⟨rfl, rfl⟩

/-- Every schedule the loop can produce from a given label sequence is that one run: the
    labelled kernel is a function (no choice points). -/
theorem C01_kernel_is_function (p : KParams) (k : K) (ls : List Lbl) :
    ∀ k₁ k₂, k₁ = runLbls p k ls → k₂ = runLbls p k ls → k₁ = k₂ := by
  intro k₁ k₂ h₁ h₂; rw [h₁, h₂]

/-- Order among simultaneously ready completions and among timers with equal expiry is fixed
    by the history alone (FIFO + upper-bound insertion), in every reachable state. -/
theorem C01_no_scheduling_choice (ls : List Lbl) :
    OrderedTq (runLbls repaired {} ls) ∧ ∃ s, (runLbls repaired {} ls).enqueued = ({} : K).enqueued ++ s :=
  ⟨C03_order ls, C02_fifo repaired ls {}⟩

/-- With the byte counters zero-initialised (the repaired `aux::channel`), the capture bytes
    are a function of the sends alone … -/
theorem C01_capture_env_independent (sends : List Pcap.Send) :
    ∀ garbage₁ garbage₂ : Pcap.Ctrs,
      Pcap.capture (fun k => (fun _ => 0) (garbage₁ k)) sends = Pcap.capture (fun k => (fun _ => 0) (garbage₂ k)) sends := by
  intro _ _; rfl

/-- … whereas the pinned tree copied allocator garbage into the first sequence number
    (witness reused from C19). -/
theorem C01_asis_depends_on_heap :
    Pcap.capture Pcap.poisonInit [Pcap.witnessSend] ≠ Pcap.capture Pcap.zeroInit [Pcap.witnessSend] := by
  intro h
  have := Pcap.C19_asis_seq_depends_on_init
  rw [h] at this
  have h2 := this.1.symm.trans this.2
  revert h2; decide

end SimVerif
