/-
  C07 — TCP connect/accept pairing, refusal and endpoint views are consistent.

  Property theorems only. Mechanism model: SimVerif/Tcp.lean (`tcpConnect`, `internalConnect`,
  `accIncoming`, `accCheckQueue`, `tcpAttach`, `accAsyncAccept`, `accClose`, `tcpIncoming`),
  unchanged. Open system (one acceptor, any number of other sockets, the network as an
  adversary that delivers SYNs / SYN-ACKs in any order, at any later time or never, through
  any NAT hops): SimVerif/AcceptSys.lean; its invariant: SimVerif/Lemmas/AcceptInv.lean,
  AcceptStep.lean. All system theorems quantify over every history `ls` admitted by `HS.ok`
  from the initial state `HS.init cfg a anode aep clients` (any configuration, any clients,
  any listening endpoint `aep` other than the default-constructed one).
-/
import SimVerif.Lemmas.AcceptStep

namespace SimVerif
open Hs

/-! ### a connect needs a listener; otherwise: refused after 50 ms -/

/-- for a socket that is open and bound, `async_connect` is the family check followed by
    `internal_connect` -/
theorem tcpConnect_bound (n : NetSt) (now : Int) (name : String) (target : Ep) (h : Nat) (s : TcpSock)
    (hs : n.tcp? name = some s) (hopen : s.isOpen = true) (hbound : s.bound.addr ≠ "0.0.0.0") :
    n.tcpConnect now name target h = connDial n name target h [] := by
  rw [tcpConnect_eq n now name target h s hs]
  have hb : (s.bound.addr == "0.0.0.0") = false := by simp [hbound]
  simp only [hopen, Bool.not_true, Bool.false_eq_true, if_false, hs, connBind, hb]
  rfl

/-- **`C07_connect_needs_listener`.** `async_connect` on an open, bound socket of the right
    family yields a channel and a SYN (and parks the handler) iff the registry maps the
    dialled endpoint to a socket that is listening (an acceptor with `m_queue_size_limit > 0`). -/
theorem C07_connect_needs_listener (n : NetSt) (now : Int) (name : String) (target : Ep) (h : Nat) (s : TcpSock)
    (hs : n.tcp? name = some s) (hopen : s.isOpen = true) (hbound : s.bound.addr ≠ "0.0.0.0")
    (hfam : s.bound.isV4 = target.isV4) :
    n.Listening target ↔
      ∃ syn, (n.tcpConnect now name target h).2 = [.forward syn] ∧ syn.ty = .syn
        ∧ syn.chan = some n.chans.length
        ∧ ((n.tcpConnect now name target h).1.tcp? name).bind (·.chan) = some n.chans.length
        ∧ ((n.tcpConnect now name target h).1.tcp? name).bind (·.connectH) = some h
        ∧ (n.tcpConnect now name target h).1.chans.length = n.chans.length + 1 := by
  rw [tcpConnect_bound n now name target h s hs hopen hbound]
  rcases connDial_sum n name target h [] s hs with ⟨hf, _, _⟩ | ⟨hnl, d1, d2⟩ | ⟨hl, d1, d2⟩
  · exact absurd hfam hf
  · constructor
    · intro hl; exact absurd hl hnl
    · rintro ⟨syn, he, _⟩
      rw [d2] at he; simp at he
  · constructor
    · intro _
      obtain ⟨rname, rs, l1, l2, l3⟩ := hl
      obtain ⟨_, _, _, _, _, c6, _, syn, c8, c9, c10, _⟩ := internalConnect_ok n name target s.hview rname rs.hview
        (by simp [NetSt.sv, hs]) l1 (by simp [NetSt.sv, l2]) (by rw [← isListening_view]; exact l3)
      refine ⟨syn, by rw [d2, c8]; rfl, c9, c10, ?_, ?_, ?_⟩
      · rw [d1]; simp
      · rw [d1]; simp
      · rw [d1]; exact c6
    · intro _; exact hl

/-- **`C07_refused`.** Nobody listening on the dialled endpoint: the effects are exactly the
    50 ms connect timer carrying `connection_refused` for the handler — a positive delay —,
    no packet is forwarded, no channel is created and the socket's channel stays empty. -/
theorem C07_refused (n : NetSt) (now : Int) (name : String) (target : Ep) (h : Nat) (s : TcpSock)
    (hs : n.tcp? name = some s) (hopen : s.isOpen = true) (hbound : s.bound.addr ≠ "0.0.0.0")
    (hfam : s.bound.isV4 = target.isV4) (hnl : ¬ n.Listening target) :
    (n.tcpConnect now name target h).2 = [.armAfter name 0 50000000 (.tcpConnectRefused name h)]
    ∧ (0 : Int) < 50000000
    ∧ fwdPkts (n.tcpConnect now name target h).2 = []
    ∧ ((n.tcpConnect now name target h).1.tcp? name).bind (·.chan) = none
    ∧ ((n.tcpConnect now name target h).1.tcp? name).bind (·.connectH) = s.connectH
    ∧ (n.tcpConnect now name target h).1.chans = n.chans
    ∧ (n.tcpConnect now name target h).1.reg = n.reg := by
  rw [tcpConnect_bound n now name target h s hs hopen hbound]
  rcases connDial_sum n name target h [] s hs with ⟨hf, _, _⟩ | ⟨_, d1, d2⟩ | ⟨hl, _, _⟩
  · exact absurd hfam hf
  · rw [d1, d2]
    refine ⟨rfl, by decide, rfl, by simp, by simp, rfl, rfl⟩
  · exact absurd hl hnl

/-! ### the open system -/

section system
variable (cfg : NetCfg) (a anode : String) (aep : Ep) (clients : List (String × String)) (tp : TParams)

/-- **Invariant of every reachable state** (all 33 clauses of `HInv` + work conservation). -/
theorem C07_invariant (hae : aep ≠ {}) (ls : List HLbl)
    (hok : HS.okRun a tp (HS.init cfg a anode aep clients) ls) :
    HFull a aep (HS.run a tp (HS.init cfg a anode aep clients) ls) :=
  HFull.run hae tp ls _ (HFull.init cfg a anode aep clients hae) hok

theorem accLog_cids {s : HS} (h : HInv a aep s) :
    s.accLog.map (·.cid) = (s.accLog.filterMap (·.cid)).map some := by
  have : ∀ l : List AccDone, (∀ e ∈ l, ∃ c, e.cid = some c) → l.map (·.cid) = (l.filterMap (·.cid)).map some := by
    intro l
    induction l with
    | nil => intro _; rfl
    | cons e es ih =>
      intro hl
      obtain ⟨c, hc⟩ := hl e List.mem_cons_self
      rw [List.map_cons, List.filterMap_cons, hc]
      simp only [List.map_cons]
      rw [ih (fun e' he' => hl e' (List.mem_cons_of_mem _ he'))]
  apply this
  intro e he
  obtain ⟨_, c, _, _, q2, _⟩ := h.a_log e he
  exact ⟨c, q2⟩

/-- **`C07_pairing_fifo`.** The i-th SYN to ARRIVE at the acceptor is matched with the i-th
    accept to COMPLETE — for all three overloads and any interleaving of arrivals and accept
    calls. While the acceptor is open nothing is skipped: the arrivals are exactly the accepted
    channels followed by the queue, and no SYN waits while an accept is outstanding. -/
theorem C07_pairing_fifo (hae : aep ≠ {}) (ls : List HLbl)
    (hok : HS.okRun a tp (HS.init cfg a anode aep clients) ls) :
    let s := HS.run a tp (HS.init cfg a anode aep clients) ls
    s.accLog.map (·.cid) = (s.synLog.take s.accLog.length).map some
    ∧ (∀ sa ac, s.net.tcp? a = some sa → sa.acc = some ac → sa.isOpen = true →
         s.synLog = s.accLog.filterMap (·.cid) ++ ac.conns ∧ (ac.acceptOp.isSome → ac.conns = [])) := by
  intro s
  have h := C07_invariant cfg a anode aep clients tp hae ls hok
  obtain ⟨va, ac, hva, hac, _⟩ := h.inv.a_ex
  obtain ⟨dropped, hf, hdr⟩ := h.inv.fifo va ac hva hac
  have hc := accLog_cids a aep h.inv
  have hlen : (s.accLog.filterMap (·.cid)).length = s.accLog.length := by
    have := congrArg List.length hc; simp at this; exact this.symm
  refine ⟨?_, ?_⟩
  · rw [hc, hf, List.append_assoc, ← hlen, List.take_left']
    rfl
  · intro sa ac' hsa hac' hop
    have hva' : s.net.sv a = some sa.hview := by simp [NetSt.sv, hsa]
    rw [hva] at hva'; cases hva'
    have : ac' = ac := by
      have h1 : sa.hview.acc = some ac' := hac'
      rw [hac] at h1; exact (Option.some.inj h1).symm
    subst this
    have := hdr hop; subst this
    exact ⟨by simpa using hf, fun hpe => h.work _ ac' hva hac hop hpe⟩

/-- **`C07_one_to_one`.** No channel is handed to two accepts; no `accept` call completes
    twice (completions carry strictly increasing call numbers, all of calls actually made). -/
theorem C07_one_to_one (hae : aep ≠ {}) (ls : List HLbl)
    (hok : HS.okRun a tp (HS.init cfg a anode aep clients) ls) :
    let s := HS.run a tp (HS.init cfg a anode aep clients) ls
    (s.accLog.filterMap (·.cid)).Nodup
    ∧ s.accLog.Pairwise (fun e e' => e.serial < e'.serial)
    ∧ (∀ e ∈ s.accLog, e.serial < s.accCalls)
    ∧ s.synLog.Nodup := by
  intro s
  have h := C07_invariant cfg a anode aep clients tp hae ls hok
  obtain ⟨va, ac, hva, hac, _⟩ := h.inv.a_ex
  obtain ⟨dropped, hf, _⟩ := h.inv.fifo va ac hva hac
  have hnd := h.inv.syn_nd
  rw [hf, List.append_assoc] at hnd
  exact ⟨(List.nodup_append.mp hnd).1, h.inv.ser_mono, h.inv.ser_lt, h.inv.syn_nd⟩

/-- **Every successful connect is matched with exactly one accept.** A connect completion on
    socket `k.sock` is for the channel that very socket dialled, the endpoint dialled was the
    acceptor's, and exactly one accept completion carries that channel. -/
theorem C07_connect_matched (hae : aep ≠ {}) (ls : List HLbl)
    (hok : HS.okRun a tp (HS.init cfg a anode aep clients) ls) :
    let s := HS.run a tp (HS.init cfg a anode aep clients) ls
    ∀ k ∈ s.conLog, ∃ c d, k.cid = some c ∧ s.dialLog[c]? = some d ∧ d.cid = c ∧ d.sock = k.sock ∧ d.target = aep
      ∧ (∃ e ∈ s.accLog, e.cid = some c)
      ∧ (s.accLog.filter (fun e => e.cid == some c)).length = 1 := by
  intro s k hk
  have h := C07_invariant cfg a anode aep clients tp hae ls hok
  obtain ⟨c, d, q1, q2, q3, e, he, q4⟩ := h.inv.con_ok k hk
  have hlt : c < s.net.chans.length := h.inv.acc_cid_lt e he c q4
  obtain ⟨cv, hcv⟩ := cv_of_lt hlt
  obtain ⟨r1, r2, _⟩ := h.inv.chan_ok c cv d hcv q2
  refine ⟨c, d, q1, q2, r1, q3, r2, ⟨e, he, q4⟩, ?_⟩
  -- exactly one: the accepted channels are pairwise distinct
  have hnd := (C07_one_to_one cfg a anode aep clients tp hae ls hok).1
  have key : ∀ l : List AccDone, (l.filterMap (·.cid)).Nodup → (∃ e ∈ l, e.cid = some c) →
      (l.filter (fun e => e.cid == some c)).length = 1 := by
    intro l
    induction l with
    | nil => intro _ ⟨e, he, _⟩; cases he
    | cons x xs ih =>
      intro hnd ⟨e, he, hec⟩
      rw [List.filterMap_cons] at hnd
      by_cases hx : x.cid = some c
      · have hb : (x.cid == some c) = true := by simp [hx]
        rw [List.filter_cons_of_pos (p := fun e : AccDone => e.cid == some c) hb]
        rw [hx] at hnd
        simp only [List.nodup_cons] at hnd
        have : xs.filter (fun e => e.cid == some c) = [] := by
          rw [List.filter_eq_nil_iff]
          intro y hy hyc
          exact hnd.1 (List.mem_filterMap.mpr ⟨y, hy, by simpa using hyc⟩)
        rw [this]; rfl
      · have hb : ¬ ((x.cid == some c) = true) := by simpa using hx
        rw [List.filter_cons_of_neg (p := fun e : AccDone => e.cid == some c) hb]
        apply ih
        · cases hxc : x.cid with
          | none => rw [hxc] at hnd; exact hnd
          | some c' => rw [hxc] at hnd; exact (List.nodup_cons.mp hnd).2
        · rcases List.mem_cons.mp he with he | he
          · subst he; exact absurd hec hx
          · exact ⟨e, he, hec⟩
  exact key _ hnd ⟨e, he, q4⟩

theorem cv_of_chan {n : NetSt} {c : Nat} {ch : Chan} (h : n.chans[c]? = some ch) : n.cv c = some ch.hview := by
  simp [NetSt.cv, NetSt.chan?, h]

/-- **`C07_views`.** For every completed accept, with `ch` its channel and `d` the dial that
    created it:
    * the accept completed its own handler with success and — for the overload with an endpoint
      out-parameter — reported `ch.vis0`;
    * the connector dialled the acceptor's endpoint `aep`, and that is what it sees as its
      remote endpoint (`remote_endpoint()` = `visible_ep[remote_idx]`);
    * the accepted socket is bound to the listening endpoint and sees `ch.vis0` as its remote
      endpoint — the endpoint accept reported;
    * `ch.vis0` is the connector's bound endpoint with its address replaced by the external
      address of the LAST NAT hop its SYN crossed (none: its real address), port unchanged. -/
theorem C07_views (hae : aep ≠ {}) (ls : List HLbl)
    (hok : HS.okRun a tp (HS.init cfg a anode aep clients) ls) :
    let s := HS.run a tp (HS.init cfg a anode aep clients) ls
    ∀ e ∈ s.accLog, ∃ op c ch d,
      e.op = some op ∧ e.cid = some c ∧ s.net.chans[c]? = some ch ∧ s.dialLog[c]? = some d ∧ d.cid = c
      ∧ e.compl.h = op.h ∧ e.compl.ec = .ok
      ∧ e.compl.extra = (if op.withEp then "ep=" ++ ch.vis0.toString else "")
      ∧ d.target = aep ∧ ch.ep0 = d.ep0 ∧ ch.ep1 = aep ∧ ch.vis1 = d.target
      ∧ (∀ o sk, s.net.tcp? o = some sk → sk.chan = some c → sk.bound = ch.ep0 →
            ch.vis (ch.remoteIdx sk.bound) = d.target)
      ∧ (∀ sk, s.net.tcp? op.peer = some sk → sk.chan = some c →
            sk.bound = aep ∧ ch.vis (ch.remoteIdx sk.bound) = ch.vis0)
      ∧ ch.vis0 = natView s.natLog c d.ep0 ∧ ch.vis0.port = d.ep0.port := by
  intro s e he
  have h := C07_invariant cfg a anode aep clients tp hae ls hok
  obtain ⟨op, c, g, q1, q2, q3, _, _, q6, q7, _, q9⟩ := h.inv.a_log e he
  have hlt : c < s.net.chans.length := h.inv.acc_cid_lt e he c q2
  have hch : s.net.chans[c]? = some s.net.chans[c] := List.getElem?_eq_getElem hlt
  have hcv := cv_of_chan hch
  have hdl : c < s.dialLog.length := by rw [h.inv.dial_len]; exact hlt
  have hd : s.dialLog[c]? = some s.dialLog[c] := List.getElem?_eq_getElem hdl
  obtain ⟨r1, r2, r3, r4, r5, r6, r7, _⟩ := h.inv.chan_ok c _ _ hcv hd
  have x1 : s.net.chans[c].vis1 = s.dialLog[c].target := by rw [r2]; exact r5
  have x2 : s.net.chans[c].vis0 = natView s.natLog c s.dialLog[c].ep0 := by
    have := r7; rw [r3] at this; exact this
  have x3 : s.net.chans[c].vis0.port = s.dialLog[c].ep0.port := by rw [x2]; exact natView_port _ _ _
  have x4 := q9 _ hcv
  refine ⟨op, c, s.net.chans[c], s.dialLog[c], q1, q2, hch, hd, r1, q6, q7, x4, r2, r3, r4, x1, ?_, ?_, x2, x3⟩
  · intro o sk _ _ hb
    have : (s.net.chans[c].ep0 == sk.bound) = true := by rw [hb]; simp
    simp only [Chan.remoteIdx, this, if_true, Chan.vis]
    rw [r2]; exact r5
  · intro sk hsk hskc
    have hv : s.net.sv op.peer = some sk.hview := by simp [NetSt.sv, hsk]
    obtain ⟨p1, _⟩ := h.inv.peer_b e he op c sk.hview q1 q2 hv hskc
    have hb : sk.bound = aep := p1
    refine ⟨hb, ?_⟩
    have : (s.net.chans[c].ep0 == sk.bound) = false := by
      rw [hb]; simp; exact r6
    simp [Chan.remoteIdx, this, Chan.vis]

/-- **`C07_no_crosstalk`.** After the hand-over the route towards side 1 ends in the ACCEPTED
    socket's forwarder `g` (never forwarder 0, the acceptor's) and the route towards side 0 in
    the connector's forwarder `f0`; the routes are the outgoing route of the sender's address,
    the network route of the pair, the incoming route of the receiver's address. While the
    two sockets are attached to the channel those forwarders point at them — and at nothing else:
    what either socket writes (`hops[remote_idx]`) is delivered to the other socket of the pair. -/
theorem C07_no_crosstalk (hae : aep ≠ {}) (ls : List HLbl)
    (hok : HS.okRun a tp (HS.init cfg a anode aep clients) ls) :
    let s := HS.run a tp (HS.init cfg a anode aep clients) ls
    ∀ e ∈ s.accLog, ∃ op c ch d f0 g,
      e.op = some op ∧ e.cid = some c ∧ s.net.chans[c]? = some ch ∧ s.dialLog[c]? = some d
      ∧ d.fwd = some f0 ∧ e.fwd = some g ∧ g ≠ 0 ∧ f0 ≠ 0
      ∧ ch.hops0 = s.net.cfg.outRoute aep.addr ++ s.net.cfg.netRoute ch.ep0.addr aep.addr
                    ++ s.net.cfg.inRoute ch.ep0.addr ++ [fwdHop f0]
      ∧ ch.hops1 = s.net.cfg.outRoute ch.ep0.addr ++ s.net.cfg.netRoute ch.ep0.addr aep.addr
                    ++ s.net.cfg.inRoute aep.addr ++ [fwdHop g]
      ∧ (∀ sk, s.net.tcp? op.peer = some sk → sk.chan = some c →
            sk.fwd = some g ∧ s.net.fwdTarget g = some op.peer ∧ ch.hops (ch.remoteIdx sk.bound) = ch.hops0)
      ∧ (∀ o sk, s.net.tcp? o = some sk → sk.chan = some c → sk.bound = ch.ep0 →
            sk.fwd = some f0 ∧ s.net.fwdTarget f0 = some o ∧ ch.hops (ch.remoteIdx sk.bound) = ch.hops1) := by
  intro s e he
  have h := C07_invariant cfg a anode aep clients tp hae ls hok
  obtain ⟨op, c, g, q1, q2, q3, q4, q5, _, _, q8, _⟩ := h.inv.a_log e he
  have hlt : c < s.net.chans.length := h.inv.acc_cid_lt e he c q2
  have hch : s.net.chans[c]? = some s.net.chans[c] := List.getElem?_eq_getElem hlt
  have hcv := cv_of_chan hch
  have hdl : c < s.dialLog.length := by rw [h.inv.dial_len]; exact hlt
  have hd : s.dialLog[c]? = some s.dialLog[c] := List.getElem?_eq_getElem hdl
  obtain ⟨_, _, r3, _, _, r6, _, f0, s1, s2, s3, s4⟩ := h.inv.chan_ok c _ _ hcv hd
  obtain ⟨g', t1, t2⟩ := h.inv.hops1_a c _ e hcv he q2
  rw [q3] at t1; cases t1
  have hpeer : ∀ sk, s.net.tcp? op.peer = some sk → sk.chan = some c → sk.bound = aep ∧ sk.fwd = some g := by
    intro sk hsk hskc
    have hv : s.net.sv op.peer = some sk.hview := by simp [NetSt.sv, hsk]
    obtain ⟨p1, p2⟩ := h.inv.peer_b e he op c sk.hview q1 q2 hv hskc
    exact ⟨p1, by rw [← q3]; exact p2⟩
  refine ⟨op, c, s.net.chans[c], s.dialLog[c], f0, g, q1, q2, hch, hd, s1, q3, q4, s3, ?_, ?_, ?_, ?_⟩
  · have := s4; simp only [route0] at this; exact this
  · have := t2; simp only [route1] at this; exact this
  · intro sk hsk hskc
    obtain ⟨hb, hf⟩ := hpeer sk hsk hskc
    have hv : s.net.sv op.peer = some sk.hview := by simp [NetSt.sv, hsk]
    refine ⟨hf, (h.inv.s_fwd op.peer sk.hview g hv hf).2, ?_⟩
    have : (s.net.chans[c].ep0 == sk.bound) = false := by rw [hb]; simp; exact r6
    simp [Chan.remoteIdx, this, Chan.hops]
  · intro o sk hsk hskc hb
    have hv : s.net.sv o = some sk.hview := by simp [NetSt.sv, hsk]
    have hoa : o ≠ a := by
      intro hoa; subst hoa
      obtain ⟨va, _, w1, _, w3⟩ := h.inv.a_ex
      rw [hv] at w1; cases w1
      have : sk.chan = none := w3
      rw [this] at hskc; cases hskc
    obtain ⟨cv', d', p1, p2, p3⟩ := h.inv.conn o sk.hview c hoa hv hskc
    rw [hcv] at p1; cases p1
    rw [hd] at p2; cases p2
    have hf : sk.fwd = some f0 := by
      rcases p3 with ⟨_, _, p6⟩ | ⟨p4, _⟩
      · rw [← s1]; exact p6
      · exact absurd (hb.symm.trans p4) r6
    refine ⟨hf, (h.inv.s_fwd o sk.hview f0 hv hf).2, ?_⟩
    have : (s.net.chans[c].ep0 == sk.bound) = true := by rw [hb]; simp
    simp [Chan.remoteIdx, this, Chan.hops]

end system

/-! ### data follows the channel's route (what `C07_no_crosstalk` is about) -/

/-- `write_some` sends along `hops[remote_idx(m_bound_to)]` of the socket's channel -/
theorem C07_write_route (n : NetSt) (name : String) (bufs : List (List UInt8)) (hops : List String)
    (segs : List (List UInt8)) (h : n.tcpWritePrep name bufs = .ok (hops, segs)) :
    ∃ s ch, n.tcp? name = some s ∧ s.chan.bind n.chan? = some ch ∧ hops = ch.hops (ch.remoteIdx s.bound) := by
  unfold NetSt.tcpWritePrep at h
  cases hs : n.tcp? name with
  | none => simp [hs] at h
  | some s =>
    simp only [hs] at h
    split at h
    · cases h
    · cases hc : s.chan.bind n.chan? with
      | none => simp [hc] at h
      | some ch =>
        simp only [hc] at h
        split at h
        · cases h
        · split at h
          · cases h
          · split at h
            · cases h
            · simp only [Except.ok.injEq, Prod.mk.injEq] at h
              exact ⟨s, ch, rfl, hc, h.1.symm⟩

/-- every segment the loop fwdPkts carries exactly that route -/
theorem C07_segment_route (n : NetSt) (now : Int) (name : String) (hops : List String) (seg : List UInt8) :
    ∀ q ∈ fwdPkts (n.tcpSendSeg now name hops seg).2, q.hops = hops ∧ q.ty = .payload ∧ q.payload = seg := by
  unfold NetSt.tcpSendSeg
  cases hs : n.tcp? name with
  | none => simp
  | some s =>
    simp only
    intro q hq
    obtain ⟨_, _, _, _, _, _, _, t8⟩ := tcpSendPacket_sum (n.setTcp name { s with nextOut := s.nextOut + 1 }) now name
      { id := s.nextOut, ty := .payload, len := seg.length, ovh := 40, hops := hops,
        src := s.bound.toString, payload := seg, hasDrop := true, dropFwd := s.fwd }
    have := t8 q hq
    refine ⟨this.2.2, this.1, ?_⟩
    -- the payload is not touched by `send_packet`
    unfold NetSt.tcpSendPacket at hq
    simp only [tcp?_setTcp_same] at hq
    split at hq
    · simp at hq
    · rename_i ch _
      simp only [fwdPkts_append] at hq
      rw [fwdPkts_ite_single _ _ (by intro c h; cases h)] at hq
      simp [fwdPkts] at hq; rw [hq]

/-! ### non-vacuity: a concrete history (decidable form of the side condition) -/

/-- `HS.ok` as a Boolean check -/
def NetSt.routedToB (n : NetSt) (pk : Pkt) (name : String) : Bool :=
  match pk.hops.getLast? with
  | some hop => (List.range n.fwds.length).any (fun f => fwdHop f == hop && n.fwdTarget f == some name)
  | none => false

theorem routedTo_of_routedToB {n : NetSt} {pk : Pkt} {name : String} (h : n.routedToB pk name = true) :
    n.routedTo pk name := by
  unfold NetSt.routedToB at h
  cases hl : pk.hops.getLast? with
  | none => simp [hl] at h
  | some hop =>
    simp only [hl, List.any_eq_true, Bool.and_eq_true, beq_iff_eq] at h
    obtain ⟨f, _, h1, h2⟩ := h
    exact ⟨f, by rw [h1]; exact hl, h2⟩

def HS.okB (a : String) (s : HS) : HLbl → Bool
  | .connect c _ _ => c != a && ((s.net.tcp? c).map (fun sk => sk.chan.isNone)).getD false
  | .accept (.into _ p _) => p != a && (s.net.tcp? p).isSome
  | .accept (.fresh _ nn) => (s.net.tcp? nn).isNone
  | .deliverSyn i => ((s.bag[i]?).map (fun pk => pk.ty == .syn && s.net.routedToB pk a)).getD false
  | .deliverSynAck i c => c != a && ((s.bag[i]?).map (fun pk => pk.ty == .synack && s.net.routedToB pk c)).getD false
  | _ => true

theorem HS.ok_of_okB {a : String} {s : HS} {l : HLbl} (h : s.okB a l = true) : s.ok a l := by
  cases l with
  | connect c t hh =>
    simp only [HS.okB, Bool.and_eq_true, bne_iff_ne] at h
    cases hs : s.net.tcp? c with
    | none => simp [hs] at h
    | some sk =>
      simp only [hs, Option.map_some, Option.getD_some, Option.isNone_iff_eq_none] at h
      exact ⟨h.1, sk, hs, h.2⟩
  | accept op =>
    cases op with
    | into hh p w =>
      simp only [HS.okB, Bool.and_eq_true, bne_iff_ne] at h
      exact ⟨h.1, h.2⟩
    | fresh hh nn =>
      simp only [HS.okB, Option.isNone_iff_eq_none] at h
      exact h
  | deliverSyn i =>
    simp only [HS.okB] at h
    cases hb : s.bag[i]? with
    | none => simp [hb] at h
    | some pk =>
      simp only [hb, Option.map_some, Option.getD_some, Bool.and_eq_true, beq_iff_eq] at h
      exact ⟨pk, hb, h.1, routedTo_of_routedToB h.2⟩
  | deliverSynAck i c =>
    simp only [HS.okB, Bool.and_eq_true, bne_iff_ne] at h
    cases hb : s.bag[i]? with
    | none => simp [hb] at h
    | some pk =>
      simp only [hb, Option.map_some, Option.getD_some, Bool.and_eq_true, beq_iff_eq] at h
      exact ⟨h.1, pk, hb, h.2.1, routedTo_of_routedToB h.2.2⟩
  | tick t => trivial
  | listen q => trivial
  | natRewrite i e => trivial
  | closeAcceptor => trivial

def HS.okRunB (a : String) (tp : TParams) : HS → List HLbl → Bool
  | _, [] => true
  | s, l :: rest => s.okB a l && HS.okRunB a tp (s.step a tp l) rest

theorem HS.okRun_of_okRunB {a : String} {tp : TParams} : ∀ (ls : List HLbl) (s : HS),
    HS.okRunB a tp s ls = true → HS.okRun a tp s ls
  | [], _, _ => trivial
  | l :: rest, s, h => by
    simp only [HS.okRunB, Bool.and_eq_true] at h
    exact ⟨HS.ok_of_okB h.1, HS.okRun_of_okRunB rest _ h.2⟩

namespace HEx

/-- two nodes; the clients' node sits behind a NAT-capable route (the adversary's
    `natRewrite` label plays the NAT hop) -/
def cfg : NetCfg :=
  { nodes := [("n0", ["10.0.0.1"]), ("n1", ["10.0.1.1"])],
    routeIn := [("*", ["qi"])], routeOut := [("10.0.1.1", ["nat", "qo"]), ("*", ["qo"])], routeNet := [("*", ["net"])] }

def aep : Ep := { addr := "10.0.0.1", port := 8000 }

def clients : List (String × String) := [("s0", "n0"), ("s1", "n1"), ("s2", "n1"), ("s3", "n1")]

def init : HS := HS.init cfg "a0" "n0" aep clients

/-- s1 and s2 dial; s2's SYN crosses a NAT and ARRIVES FIRST; an accept with endpoint
    out-parameter is posted after the arrival, the socket-returning one before the second
    arrival; s3 dials before anybody listens … and after the acceptor was closed -/
def hist : List HLbl :=
  [ .connect "s3" aep 3, .listen 5, .connect "s1" aep 1, .connect "s2" aep 2, .natRewrite 1 "99.0.0.9",
    .deliverSyn 1, .accept (.into 10 "s0" true), .accept (.fresh 11 "s9"), .deliverSyn 0,
    .deliverSynAck 0 "s2", .deliverSynAck 0 "s1", .tick 7, .closeAcceptor, .connect "s3" aep 4 ]

def fin : HS := HS.run "a0" {} init hist

end HEx

example : HEx.aep ≠ {} := by decide
example : HS.okRun "a0" {} HEx.init HEx.hist := HS.okRun_of_okRunB _ _ (by decide)

/-- arrival order: channel 1 (s2) before channel 0 (s1); the first accept call (serial 0, into
    `s0`, with endpoint) got channel 1 and reports s2's endpoint as seen through the NAT; the
    second (serial 1, a new socket) got channel 0 -/
example : HEx.fin.synLog = [1, 0] := by decide
example : HEx.fin.accLog.map (fun e => (e.serial, e.compl.h, e.compl.extra, e.cid, e.fwd))
    = [(0, 10, "ep=99.0.0.9:2002", some 1, some 4), (1, 11, "", some 0, some 5)] := by decide
example : HEx.fin.conLog.map (fun e => (e.sock, e.h, e.cid)) = [("s2", 2, some 1), ("s1", 1, some 0)] := by decide
example : HEx.fin.dialLog.map (fun e => (e.cid, e.sock, e.ep0.toString, e.fwd))
    = [(0, "s1", "10.0.1.1:2001", some 2), (1, "s2", "10.0.1.1:2002", some 3)] := by decide
example : HEx.fin.net.chans.map (fun c => (c.hops0, c.hops1, c.vis0.toString, c.vis1.toString))
    = [(["qo", "net", "qi", "@2"], ["nat", "qo", "net", "qi", "@5"], "10.0.1.1:2001", "10.0.0.1:8000"),
       (["qo", "net", "qi", "@3"], ["nat", "qo", "net", "qi", "@4"], "99.0.0.9:2002", "10.0.0.1:8000")] := by decide

example := C07_pairing_fifo HEx.cfg "a0" "n0" HEx.aep HEx.clients {} (by decide) HEx.hist (HS.okRun_of_okRunB _ _ (by decide))
example := C07_views HEx.cfg "a0" "n0" HEx.aep HEx.clients {} (by decide) HEx.hist (HS.okRun_of_okRunB _ _ (by decide))
example := C07_no_crosstalk HEx.cfg "a0" "n0" HEx.aep HEx.clients {} (by decide) HEx.hist (HS.okRun_of_okRunB _ _ (by decide))
example := C07_connect_matched HEx.cfg "a0" "n0" HEx.aep HEx.clients {} (by decide) HEx.hist (HS.okRun_of_okRunB _ _ (by decide))

/-- the connect before `listen` and the one after `close` were refused: no channel, no SYN -/
example : HEx.fin.dialLog.length = 2 ∧ HEx.fin.net.chans.length = 2
    ∧ ((HEx.fin.net.tcp? "s3").map (fun s => (s.chan, s.connectH))) = some (none, none) := by decide

/-- without the side condition `HS.ok` the statements fail: a SYN-ACK handed to the wrong
    socket completes THAT socket's connect (the network never does this: `routedTo`) -/
example : ((HS.run "a0" {} HEx.init
      [.listen 5, .connect "s1" HEx.aep 1, .connect "s2" HEx.aep 2, .deliverSyn 0, .accept (.into 10 "s0" false),
       .deliverSynAck 1 "s2"]).conLog.map (fun e => (e.sock, e.cid))) = [("s2", some 1)]
    ∧ (HS.run "a0" {} HEx.init
      [.listen 5, .connect "s1" HEx.aep 1, .connect "s2" HEx.aep 2, .deliverSyn 0, .accept (.into 10 "s0" false),
       .deliverSynAck 1 "s2"]).accLog.map (·.cid) = [some 0] := by decide

end SimVerif
