/-
  C07 — TCP connect/accept pairing, refusal and endpoint views are consistent.

  Property theorems only. Mechanism model: SimVerif/Tcp.lean (`tcpConnect`, `internalConnect`,
  `accIncoming`, `accCheckQueue`, `tcpAttach`, `accAsyncAccept`, `accClose`, `tcpOpen`, `tcpBind`,
  `accListen`, `accCancel`, `tcpCancel`, `tcpClose`, `tcpIncoming`), unchanged. Open system: ANY
  number of acceptors and of other sockets; acceptors are opened, bound (to any endpoint),
  made to listen, closed and RE-OPENED (on the same or another endpoint) in any order — each
  open..close period is a LISTENING EPOCH, identified by the forwarder id that `open`
  allocates; connectors and accepted sockets may be cancelled / closed by the user at any
  time; the network is an adversary that delivers SYNs / SYN-ACKs in any order, at any later
  time or never, through any NAT hops: SimVerif/AcceptSys.lean; its invariant:
  SimVerif/Lemmas/AcceptInv.lean, AcceptStep.lean. All system theorems quantify over every
  history `ls` admitted by `HS.ok` from the initial state `HS.init cfg accs clients` (any
  configuration, any acceptor objects, any socket objects, all freshly constructed).

  Not in the pinned/as-is form: `accClose` has no `TParams` switch for the unrepaired
  `acceptor::close` (which left `m_incoming_conns` alone), so only the repaired behaviour is
  proved (`C07_close_resets_queue`, third part of `C07_pairing_fifo`, `C07_reopen_fresh_epoch`).
-/
import SimVerif.Lemmas.AcceptStep

namespace SimVerif
open Hs

/-! ### a connect needs a listener; otherwise: refused after 50 ms -/

/-- for a socket that is open and bound, `async_connect` is the family check followed by
    `internal_connect` -/
theorem tcpConnect_bound (n : NetSt) (now : Int) (name : String) (target : Ep) (h : Nat) (s : TcpSock)
    (hs : n.tcp? name = some s) (hopen : s.isOpen = true) (hbound : s.bound.addr ≠ "0.0.0.0") :
    n.tcpConnect now name target h = connDial n name target h [] := by
  rw [tcpConnect_eq n now name target h s hs]
  have hb : (s.bound.addr == "0.0.0.0") = false := by simp [hbound]
  simp only [hopen, Bool.not_true, Bool.false_eq_true, if_false, hs, connBind, hb]
  rfl

/-- **`C07_connect_needs_listener`.** `async_connect` on an open, bound socket of the right
    family yields a channel and a SYN (and parks the handler) iff the registry maps the
    dialled endpoint to a socket that is listening (an acceptor with `m_queue_size_limit > 0`). -/
theorem C07_connect_needs_listener (n : NetSt) (now : Int) (name : String) (target : Ep) (h : Nat) (s : TcpSock)
    (hs : n.tcp? name = some s) (hopen : s.isOpen = true) (hbound : s.bound.addr ≠ "0.0.0.0")
    (hfam : s.bound.isV4 = target.isV4) :
    n.Listening target ↔
      ∃ syn, (n.tcpConnect now name target h).2 = [.forward syn] ∧ syn.ty = .syn
        ∧ syn.chan = some n.chans.length
        ∧ ((n.tcpConnect now name target h).1.tcp? name).bind (·.chan) = some n.chans.length
        ∧ ((n.tcpConnect now name target h).1.tcp? name).bind (·.connectH) = some h
        ∧ (n.tcpConnect now name target h).1.chans.length = n.chans.length + 1 := by
  rw [tcpConnect_bound n now name target h s hs hopen hbound]
  rcases connDial_sum n name target h [] s hs with ⟨hf, _, _⟩ | ⟨hnl, d1, d2⟩ | ⟨hl, d1, d2⟩
  · exact absurd hfam hf
  · constructor
    · intro hl; exact absurd hl hnl
    · rintro ⟨syn, he, _⟩
      rw [d2] at he; simp at he
  · constructor
    · intro _
      obtain ⟨rname, rs, l1, l2, l3⟩ := hl
      obtain ⟨_, _, _, _, _, c6, _, syn, c8, c9, c10, _⟩ := internalConnect_ok n name target s.hview rname rs.hview
        (by simp [NetSt.sv, hs]) l1 (by simp [NetSt.sv, l2]) (by rw [← isListening_view]; exact l3)
      refine ⟨syn, by rw [d2, c8]; rfl, c9, c10, ?_, ?_, ?_⟩
      · rw [d1]; simp
      · rw [d1]; simp
      · rw [d1]; exact c6
    · intro _; exact hl

/-- **`C07_refused`.** Nobody listening on the dialled endpoint: the effects are exactly the
    50 ms connect timer carrying `connection_refused` for the handler — a positive delay —,
    no packet is forwarded, no channel is created and the socket's channel stays empty. -/
theorem C07_refused (n : NetSt) (now : Int) (name : String) (target : Ep) (h : Nat) (s : TcpSock)
    (hs : n.tcp? name = some s) (hopen : s.isOpen = true) (hbound : s.bound.addr ≠ "0.0.0.0")
    (hfam : s.bound.isV4 = target.isV4) (hnl : ¬ n.Listening target) :
    (n.tcpConnect now name target h).2 = [.armAfter name 0 50000000 (.tcpConnectRefused name h)]
    ∧ (0 : Int) < 50000000
    ∧ fwdPkts (n.tcpConnect now name target h).2 = []
    ∧ ((n.tcpConnect now name target h).1.tcp? name).bind (·.chan) = none
    ∧ ((n.tcpConnect now name target h).1.tcp? name).bind (·.connectH) = s.connectH
    ∧ (n.tcpConnect now name target h).1.chans = n.chans
    ∧ (n.tcpConnect now name target h).1.reg = n.reg := by
  rw [tcpConnect_bound n now name target h s hs hopen hbound]
  rcases connDial_sum n name target h [] s hs with ⟨hf, _, _⟩ | ⟨_, d1, d2⟩ | ⟨hl, _, _⟩
  · exact absurd hfam hf
  · rw [d1, d2]
    refine ⟨rfl, by decide, rfl, by simp, by simp, rfl, rfl⟩
  · exact absurd hl hnl

/-! ### the open system -/

section system
variable (cfg : NetCfg) (accs clients : List (String × String)) (tp : TParams)

/-- **Invariant of every reachable state** (all clauses of `HInv` + work conservation). -/
theorem C07_invariant (ls : List HLbl) (hok : HS.okRun tp (HS.init cfg accs clients) ls) :
    HFull (HS.run tp (HS.init cfg accs clients) ls) :=
  HFull.run tp ls _ (HFull.init cfg accs clients) hok

theorem map_cid_eq (l : List AccDone) (hl : ∀ e ∈ l, ∃ c, e.cid = some c) :
    l.map (·.cid) = (l.filterMap (·.cid)).map some := by
  induction l with
  | nil => rfl
  | cons e es ih =>
    obtain ⟨c, hc⟩ := hl e List.mem_cons_self
    rw [List.map_cons, List.filterMap_cons, hc]
    simp only [List.map_cons]
    rw [ih (fun e' he' => hl e' (List.mem_cons_of_mem _ he'))]

theorem accLog_some {s : HS} (h : HInv s) : ∀ e ∈ s.accLog, ∃ c, e.cid = some c := by
  intro e he
  obtain ⟨_, c, _, _, _, q2, _⟩ := h.a_log e he
  exact ⟨c, q2⟩

/-- **`C07_pairing_fifo`.** In EVERY listening epoch `f` (of any acceptor) the i-th SYN to
    ARRIVE in that epoch is matched with the i-th accept to COMPLETE in that epoch — for all
    three overloads and any interleaving of arrivals and accept calls. While the epoch is open
    (the acceptor holds forwarder `f`) nothing is skipped: the arrivals are exactly the accepted
    channels followed by the queue, and no SYN waits while an accept is outstanding. And an
    accept completing in epoch `f` of acceptor `e.acc` hands out only a connection that was
    DIALLED TO that acceptor IN that epoch (at the endpoint it is listening on) and whose SYN
    ARRIVED in that epoch: connections queued before a `close` are never handed out by a later
    epoch (`accClose` resets the queue — `C07_close_resets_queue` — and the epoch's forwarder is
    never attached again). -/
theorem C07_pairing_fifo (ls : List HLbl) (hok : HS.okRun tp (HS.init cfg accs clients) ls) :
    let s := HS.run tp (HS.init cfg accs clients) ls
    (∀ f, (s.accAt f).map (·.cid) = ((s.synAt f).take (s.accAt f).length).map some)
    ∧ (∀ a sa ac f, s.net.tcp? a = some sa → sa.acc = some ac → sa.fwd = some f →
         s.synAt f = (s.accAt f).filterMap (·.cid) ++ ac.conns ∧ (ac.acceptOp.isSome → ac.conns = []))
    ∧ (∀ e ∈ s.accLog, ∃ c d, e.cid = some c ∧ s.dialLog[c]? = some d
         ∧ d.epoch = e.epoch ∧ d.lsock = e.acc ∧ d.target = e.lep ∧ (e.epoch, c) ∈ s.synLog) := by
  intro s
  have h := C07_invariant cfg accs clients tp ls hok
  refine ⟨?_, ?_, ?_⟩
  · intro f
    obtain ⟨dropped, hf⟩ := h.inv.fifo_all f
    have hc := map_cid_eq (accAtL s.accLog f) (fun e he => accLog_some h.inv e (mem_accAtL.mp he).1)
    have hlen : ((accAtL s.accLog f).filterMap (·.cid)).length = (accAtL s.accLog f).length := by
      have := congrArg List.length hc; simp at this; exact this.symm
    show (accAtL s.accLog f).map (·.cid) = ((synAtL s.synLog f).take (accAtL s.accLog f).length).map some
    rw [hc, hf, ← hlen, List.take_left']
    rfl
  · intro a sa ac f hsa hac hvf
    have hva : s.net.sv a = some sa.hview := by simp [NetSt.sv, hsa]
    have hfifo := h.inv.fifo a sa.hview ac f hva hac hvf
    refine ⟨hfifo, fun hpe => ?_⟩
    have hopen : sa.hview.isOpen = true := by
      cases ho : sa.hview.isOpen with
      | true => rfl
      | false =>
        have := (h.inv.a_closed a sa.hview ac hva hac ho).2
        have hvf' : sa.hview.fwd = some f := hvf
        rw [hvf'] at this; cases this
    exact h.work a sa.hview ac hva hac hopen hpe
  · intro e he
    obtain ⟨_, c, _, d, _, q2, _, _, _, _, _, _, q9, q10, q11, q12, _⟩ := h.inv.a_log e he
    exact ⟨c, d, q2, q9, q10, q11, q12, h.inv.acc_syn e he c q2⟩

/-- **`C07_one_to_one`.** No channel is handed to two accepts — over all acceptors and all
    epochs —; no `accept` call completes twice (per acceptor, completions carry strictly
    increasing call numbers, all of calls actually made on that acceptor); no SYN arrives twice. -/
theorem C07_one_to_one (ls : List HLbl) (hok : HS.okRun tp (HS.init cfg accs clients) ls) :
    let s := HS.run tp (HS.init cfg accs clients) ls
    (s.accLog.filterMap (·.cid)).Nodup
    ∧ (s.accLog.map (·.cid)).Nodup
    ∧ s.accLog.Pairwise (fun e e' => e.acc = e'.acc → e.serial < e'.serial)
    ∧ (∀ e ∈ s.accLog, e.serial < s.accCalls e.acc)
    ∧ (s.synLog.map (·.2)).Nodup := by
  intro s
  have h := C07_invariant cfg accs clients tp ls hok
  refine ⟨?_, h.inv.acc_nd, h.inv.ser_mono, h.inv.ser_lt, h.inv.syn_nd⟩
  have hc := map_cid_eq s.accLog (accLog_some h.inv)
  have := h.inv.acc_nd
  rw [hc] at this
  exact (List.pairwise_map.mp this).imp (fun hne heq => hne (congrArg some heq))

theorem filter_one_of_nodup {α β : Type} [BEq β] [LawfulBEq β] (g : α → β) (l : List α) (hnd : (l.map g).Nodup)
    (x : α) (hx : x ∈ l) : (l.filter (fun y => g y == g x)).length = 1 := by
  induction l with
  | nil => cases hx
  | cons y ys ih =>
    rw [List.map_cons, List.nodup_cons] at hnd
    by_cases hy : g y = g x
    · have hb : (g y == g x) = true := by simp [hy]
      rw [List.filter_cons_of_pos (p := fun y => g y == g x) hb]
      have : ys.filter (fun y => g y == g x) = [] := by
        rw [List.filter_eq_nil_iff]
        intro z hz hzc
        have : g z = g y := by rw [hy]; simpa using hzc
        exact hnd.1 (List.mem_map.mpr ⟨z, hz, this⟩)
      rw [this]; rfl
    · have hb : ¬ ((g y == g x) = true) := by simpa using hy
      rw [List.filter_cons_of_neg (p := fun y => g y == g x) hb]
      apply ih hnd.2
      rcases List.mem_cons.mp hx with he | he
      · subst he; exact absurd rfl hy
      · exact he

/-- **Every successful connect is matched with exactly one accept; every connect completes at
    most once.** A connect completion `k` — with success (its SYN-ACK arrived) or with
    operation_aborted (the user's `cancel` / `close`) — is for the channel that very socket
    dialled, and it is the ONLY completion logged for that channel: a cancelled / closed connect
    never also succeeds, a successful one is never also aborted. A SUCCESSFUL one was accepted by
    exactly one accept completion, by the acceptor that was dialled, in the epoch that was dialled,
    at the endpoint that was dialled. (An aborted connect may still have been — or later be —
    matched with an accept: its SYN is queued at the acceptor; see the example below.) -/
theorem C07_connect_matched (ls : List HLbl) (hok : HS.okRun tp (HS.init cfg accs clients) ls) :
    let s := HS.run tp (HS.init cfg accs clients) ls
    ∀ k ∈ s.conLog, ∃ c d, k.cid = some c ∧ s.dialLog[c]? = some d ∧ d.cid = c ∧ d.sock = k.sock
      ∧ (s.conLog.filter (fun k' => k'.cid == some c)).length = 1
      ∧ (k.ec = .ok →
          (∃ e ∈ s.accLog, e.cid = some c ∧ e.acc = d.lsock ∧ e.epoch = d.epoch ∧ e.lep = d.target)
          ∧ (s.accLog.filter (fun e => e.cid == some c)).length = 1) := by
  intro s k hk
  have h := C07_invariant cfg accs clients tp ls hok
  obtain ⟨c, d, q1, q2, q3, q4⟩ := h.inv.con_ok k hk
  have hlt : c < s.net.chans.length := by
    rw [← h.inv.dial_len]; exact (List.getElem?_eq_some_iff.mp q2).1
  obtain ⟨cv, hcv⟩ := cv_of_lt hlt
  obtain ⟨r1, _⟩ := h.inv.chan_ok c cv d hcv q2
  have h1 := filter_one_of_nodup (fun k' : ConDone => k'.cid) s.conLog h.inv.con_nd k hk
  rw [q1] at h1
  refine ⟨c, d, q1, q2, r1, q3, h1, ?_⟩
  intro hke
  obtain ⟨e, he, q5⟩ := q4 hke
  obtain ⟨_, c', _, d', _, t2, _, _, _, _, _, _, t9, t10, t11, t12, _⟩ := h.inv.a_log e he
  rw [q5] at t2; cases t2
  rw [q2] at t9; cases t9
  have h2 := filter_one_of_nodup (fun e' : AccDone => e'.cid) s.accLog h.inv.acc_nd e he
  rw [q5] at h2
  exact ⟨⟨e, he, q5, t11.symm, t10.symm, t12.symm⟩, h2⟩

theorem cv_of_chan {n : NetSt} {c : Nat} {ch : Chan} (h : n.chans[c]? = some ch) : n.cv c = some ch.hview := by
  simp [NetSt.cv, NetSt.chan?, h]

/-- **`C07_views`.** For every completed accept `e` (of acceptor `e.acc`, listening on `e.lep`),
    with `ch` its channel and `d` the dial that created it:
    * the accept completed its own handler with success and — for the overload with an endpoint
      out-parameter — reported `ch.vis0`;
    * the connector dialled the endpoint that acceptor was listening on, and that is what it
      sees as its remote endpoint (`remote_endpoint()` = `visible_ep[remote_idx]`);
    * the accepted socket is bound to the listening endpoint and sees `ch.vis0` as its remote
      endpoint — the endpoint accept reported;
    * `ch.vis0` is the connector's bound endpoint with its address replaced by the external
      address of the LAST NAT hop its SYN crossed (none: its real address), port unchanged.
    The clauses about sockets hold while they are still on the channel (the user may have
    cancelled or closed them since). -/
theorem C07_views (ls : List HLbl) (hok : HS.okRun tp (HS.init cfg accs clients) ls) :
    let s := HS.run tp (HS.init cfg accs clients) ls
    ∀ e ∈ s.accLog, ∃ op c ch d,
      e.op = some op ∧ e.cid = some c ∧ s.net.chans[c]? = some ch ∧ s.dialLog[c]? = some d ∧ d.cid = c
      ∧ e.compl.h = op.h ∧ e.compl.ec = .ok
      ∧ e.compl.extra = (if op.withEp then "ep=" ++ ch.vis0.toString else "")
      ∧ d.target = e.lep ∧ d.lsock = e.acc ∧ ch.ep0 = d.ep0 ∧ ch.ep1 = e.lep ∧ ch.vis1 = d.target
      ∧ (∀ o sk, s.net.tcp? o = some sk → sk.chan = some c → sk.bound = ch.ep0 →
            ch.vis (ch.remoteIdx sk.bound) = d.target)
      ∧ (∀ sk, s.net.tcp? op.peer = some sk → sk.chan = some c →
            sk.bound = e.lep ∧ ch.vis (ch.remoteIdx sk.bound) = ch.vis0)
      ∧ ch.vis0 = natView s.natLog c d.ep0 ∧ ch.vis0.port = d.ep0.port := by
  intro s e he
  have h := C07_invariant cfg accs clients tp ls hok
  obtain ⟨op, c, g, d, q1, q2, q3, _, _, _, q6, q7, q9, _, q11, q12, q13⟩ := h.inv.a_log e he
  have hlt : c < s.net.chans.length := h.inv.acc_cid_lt e he c q2
  have hch : s.net.chans[c]? = some s.net.chans[c] := List.getElem?_eq_getElem hlt
  have hcv := cv_of_chan hch
  obtain ⟨r1, r2, r3, r4, r5, _, r7, _⟩ := h.inv.chan_ok c _ d hcv q9
  have x2 : s.net.chans[c].vis0 = natView s.natLog c d.ep0 := by
    have := r7; rw [r2] at this; exact this
  have x3 : s.net.chans[c].vis0.port = d.ep0.port := by rw [x2]; exact natView_port _ _ _
  have x4 := q13 _ hcv
  refine ⟨op, c, s.net.chans[c], d, q1, q2, hch, q9, r1, q6, q7, x4, q12, q11, r2, r3.trans q12, r4, ?_, ?_, x2, x3⟩
  · intro o sk _ _ hb
    have : (s.net.chans[c].ep0 == sk.bound) = true := by rw [hb]; simp
    simp only [Chan.remoteIdx, this, if_true, Chan.vis]
    exact r4
  · intro sk hsk hskc
    have hv : s.net.sv op.peer = some sk.hview := by simp [NetSt.sv, hsk]
    obtain ⟨p1, _⟩ := h.inv.peer_b e he op c sk.hview q1 q2 hv hskc
    have hb : sk.bound = e.lep := p1
    refine ⟨hb, ?_⟩
    have : (s.net.chans[c].ep0 == sk.bound) = false := by
      rw [hb, ← q12]; simp; exact r5
    simp [Chan.remoteIdx, this, Chan.vis]

/-- **`C07_no_crosstalk`.** After the hand-over the route towards side 1 ends in the ACCEPTED
    socket's forwarder `g` (never the forwarder of the listening epoch, the acceptor's) and the
    route towards side 0 in the connector's forwarder `f0`; the routes are the outgoing route of
    the sender's address, the network route of the pair, the incoming route of the receiver's
    address. While the two sockets are attached to the channel those forwarders point at them —
    and at nothing else: what either socket writes (`hops[remote_idx]`) is delivered to the
    other socket of the pair. Between acceptors: the channel was dialled to THIS acceptor
    (`d.lsock = e.acc`), in THIS epoch, at the endpoint it listens on. -/
theorem C07_no_crosstalk (ls : List HLbl) (hok : HS.okRun tp (HS.init cfg accs clients) ls) :
    let s := HS.run tp (HS.init cfg accs clients) ls
    ∀ e ∈ s.accLog, ∃ op c ch d f0 g,
      e.op = some op ∧ e.cid = some c ∧ s.net.chans[c]? = some ch ∧ s.dialLog[c]? = some d
      ∧ d.lsock = e.acc ∧ d.epoch = e.epoch ∧ d.target = e.lep
      ∧ d.fwd = some f0 ∧ e.fwd = some g ∧ g ≠ e.epoch ∧ f0 ≠ e.epoch
      ∧ ch.hops0 = s.net.cfg.outRoute e.lep.addr ++ s.net.cfg.netRoute ch.ep0.addr e.lep.addr
                    ++ s.net.cfg.inRoute ch.ep0.addr ++ [fwdHop f0]
      ∧ ch.hops1 = s.net.cfg.outRoute ch.ep0.addr ++ s.net.cfg.netRoute ch.ep0.addr e.lep.addr
                    ++ s.net.cfg.inRoute e.lep.addr ++ [fwdHop g]
      ∧ (∀ sk, s.net.tcp? op.peer = some sk → sk.chan = some c →
            sk.fwd = some g ∧ s.net.fwdTarget g = some op.peer ∧ ch.hops (ch.remoteIdx sk.bound) = ch.hops0)
      ∧ (∀ o sk, s.net.tcp? o = some sk → sk.chan = some c → sk.bound = ch.ep0 →
            sk.fwd = some f0 ∧ s.net.fwdTarget f0 = some o ∧ ch.hops (ch.remoteIdx sk.bound) = ch.hops1) := by
  intro s e he
  have h := C07_invariant cfg accs clients tp ls hok
  obtain ⟨op, c, g, d, q1, q2, q3, q4, _, _, _, _, q9, q10, q11, q12, _⟩ := h.inv.a_log e he
  have hlt : c < s.net.chans.length := h.inv.acc_cid_lt e he c q2
  have hch : s.net.chans[c]? = some s.net.chans[c] := List.getElem?_eq_getElem hlt
  have hcv := cv_of_chan hch
  obtain ⟨_, _, r3, _, r5, _, _, _, f0, s1, _, s3, s4⟩ := h.inv.chan_ok c _ d hcv q9
  have r3' : s.net.chans[c].hview.ep1 = e.lep := r3.trans q12
  obtain ⟨g', t1, t2⟩ := h.inv.hops1_a c _ e hcv he q2
  rw [q3] at t1; cases t1
  have hpeer : ∀ sk, s.net.tcp? op.peer = some sk → sk.chan = some c → sk.bound = e.lep ∧ sk.fwd = some g := by
    intro sk hsk hskc
    have hv : s.net.sv op.peer = some sk.hview := by simp [NetSt.sv, hsk]
    obtain ⟨p1, p2⟩ := h.inv.peer_b e he op c sk.hview q1 q2 hv hskc
    exact ⟨p1, by rw [← q3]; exact p2⟩
  refine ⟨op, c, s.net.chans[c], d, f0, g, q1, q2, hch, q9, q11, q10, q12, s1, q3, q4, by rw [← q10]; exact s3,
    ?_, ?_, ?_, ?_⟩
  · have := s4; simp only [route0, r3'] at this; exact this
  · have := t2; simp only [route1, r3'] at this; exact this
  · intro sk hsk hskc
    obtain ⟨hb, hf⟩ := hpeer sk hsk hskc
    have hv : s.net.sv op.peer = some sk.hview := by simp [NetSt.sv, hsk]
    refine ⟨hf, (h.inv.s_fwd op.peer sk.hview g hv hf).2, ?_⟩
    have : (s.net.chans[c].ep0 == sk.bound) = false := by rw [hb, ← q12]; simp; exact r5
    simp [Chan.remoteIdx, this, Chan.hops]
  · intro o sk hsk hskc hb
    have hv : s.net.sv o = some sk.hview := by simp [NetSt.sv, hsk]
    obtain ⟨cv', d', p1, p2, p3⟩ := h.inv.conn o sk.hview c hv hskc
    rw [hcv] at p1; cases p1
    rw [q9] at p2; cases p2
    have hf : sk.fwd = some f0 := by
      rcases p3 with ⟨_, _, p6⟩ | ⟨p4, _⟩
      · rw [← s1]; exact p6
      · exact absurd (hb.symm.trans p4) r5
    refine ⟨hf, (h.inv.s_fwd o sk.hview f0 hv hf).2, ?_⟩
    have : (s.net.chans[c].ep0 == sk.bound) = true := by rw [hb]; simp
    simp [Chan.remoteIdx, this, Chan.hops]

/-- **`C07_syn_routing`** (no cross-talk between acceptors and between epochs, before the
    hand-over). A SYN in flight can only ever be handed — by a network that respects routes —
    to the acceptor it was dialled to, while that acceptor is still in the listening epoch that
    was dialled and bound to the endpoint that was dialled: never to another acceptor (on
    another endpoint of the same node or elsewhere), never to the same acceptor after a close
    and re-open. And every arrival logged for epoch `f` is of a channel dialled to epoch `f`. -/
theorem C07_syn_routing (ls : List HLbl) (hok : HS.okRun tp (HS.init cfg accs clients) ls) :
    let s := HS.run tp (HS.init cfg accs clients) ls
    (∀ pk ∈ s.bag, pk.ty = .syn → ∀ a, s.net.routedTo pk a →
        ∃ c d sa, pk.chan = some c ∧ s.dialLog[c]? = some d ∧ a = d.lsock ∧ s.net.tcp? a = some sa
          ∧ sa.acc.isSome ∧ sa.bound = d.target ∧ sa.fwd = some d.epoch ∧ (∀ x ∈ s.synLog, x.2 ≠ c))
    ∧ (∀ x ∈ s.synLog, ∃ d, s.dialLog[x.2]? = some d ∧ d.epoch = x.1) := by
  intro s
  have h := C07_invariant cfg accs clients tp ls hok
  refine ⟨?_, ?_⟩
  · intro pk hpk hty a ⟨f, hlast, hft0⟩
    obtain ⟨c, cv, q1, q2, q3, q4⟩ := h.inv.b_syn pk hpk hty
    obtain ⟨va, hva, hvf⟩ := h.inv.f_own f a hft0
    have hlt : c < s.dialLog.length := by rw [h.inv.dial_len]; exact cv_lt q2
    have hd : s.dialLog[c]? = some s.dialLog[c] := List.getElem?_eq_getElem hlt
    have hq1 := h.inv.hops1_q c cv _ q2 hd (h.inv.not_acc_of_not_syn c q3)
    have hfe : s.dialLog[c].epoch = f := by
      rw [q4, hq1, List.getLast?_append, List.getLast?_singleton] at hlast
      simp at hlast; exact fwdHop_inj hlast
    obtain ⟨r1, r2, r3⟩ := h.inv.d_acc _ (List.getElem_mem hlt) a va hva (by rw [hfe]; exact hvf)
    obtain ⟨sa, hsa, hsav⟩ := sv_some hva
    refine ⟨c, _, sa, q1, hd, r1, hsa, ?_, ?_, ?_, ?_⟩
    · rw [← hsav] at r3; exact r3
    · rw [← hsav] at r2; exact r2
    · rw [← hsav, ← hfe] at hvf; exact hvf
    · intro x hx hxc; exact q3 (List.mem_map.mpr ⟨x, hx, hxc⟩)
  · intro x hx
    have hlt : x.2 < s.dialLog.length := by rw [h.inv.dial_len]; exact (h.inv.syn_lt x hx).1
    exact ⟨_, List.getElem?_eq_getElem hlt, h.inv.syn_ep x hx _ (List.getElem?_eq_getElem hlt)⟩

/-- **`C07_reopen_fresh_epoch`.** `acceptor::open` in any reachable state — after a close, or
    on an acceptor that is still listening with connections queued and an accept outstanding —
    starts a NEW epoch: the acceptor is open with a forwarder `f` that no earlier epoch (of any
    acceptor) had; nothing has arrived or been accepted in `f`; the queue is empty, no accept is
    outstanding, it does not listen yet and is unbound. With the third part of
    `C07_pairing_fifo`: nothing queued before is ever handed out after. -/
theorem C07_reopen_fresh_epoch (ls : List HLbl) (hok : HS.okRun tp (HS.init cfg accs clients) ls)
    (a : String) (v4 : Bool) :
    let s := HS.run tp (HS.init cfg accs clients) ls
    s.ok (.openAcc a v4) →
    let s' := s.step tp (.openAcc a v4)
    ∃ sa ac, s'.net.tcp? a = some sa ∧ sa.acc = some ac ∧ sa.isOpen = true ∧ sa.fwd = some s.net.fwds.length
      ∧ sa.bound = {} ∧ ac.conns = [] ∧ ac.acceptOp = none ∧ ac.queueLimit = -1
      ∧ s'.synAt s.net.fwds.length = [] ∧ s'.accAt s.net.fwds.length = []
      ∧ (∀ x ∈ s'.synLog, x.1 < s.net.fwds.length) ∧ (∀ e ∈ s'.accLog, e.epoch < s.net.fwds.length) := by
  intro s hacc s'
  have h := C07_invariant cfg accs clients tp ls hok
  obtain ⟨va, ac, hva, hac⟩ := isAcc_view hacc
  obtain ⟨_, c2, _, _, c5, _⟩ := accClose_sum s.net s.now a va ac hva hac
  have hv1 : (s.net.accClose s.now a).1.sv a
      = some ⟨false, {}, none, none, none, some { ac with queueLimit := -1, conns := [], acceptOp := none }⟩ := by
    rw [c5 a, if_pos rfl]
  obtain ⟨_, _, _, _, d5, _⟩ := tcpOpen_sum (s.net.accClose s.now a).1 s.now a v4 _ hv1
  have hv2 : s'.net.sv a = some ⟨true, {}, some s.net.fwds.length, none, none,
      some { ac with queueLimit := -1, conns := [], acceptOp := none }⟩ := by
    show ((s.net.accClose s.now a).1.tcpOpen s.now a v4).1.sv a = _
    rw [d5 a, if_pos rfl, c2]
  obtain ⟨sa, hsa, hsav⟩ := sv_some hv2
  have hs1 : ∀ x ∈ s.synLog, x.1 < s.net.fwds.length := fun x hx => (h.inv.syn_lt x hx).2
  have hs2 : ∀ e ∈ s.accLog, e.epoch < s.net.fwds.length := by
    intro e he
    obtain ⟨_, _, _, _, _, _, _, _, _, r6, _⟩ := h.inv.a_log e he
    exact r6
  refine ⟨sa, { ac with queueLimit := -1, conns := [], acceptOp := none }, hsa, ?_, ?_, ?_, ?_, rfl, rfl, rfl, ?_, ?_, hs1, hs2⟩
  · exact congrArg SockV.acc hsav
  · exact congrArg SockV.isOpen hsav
  · exact congrArg SockV.fwd hsav
  · exact congrArg SockV.bound hsav
  · show synAtL s.synLog s.net.fwds.length = []
    unfold synAtL
    rw [List.map_eq_nil_iff, List.filter_eq_nil_iff]
    intro x hx; have := hs1 x hx; simp; omega
  · show accAtL s.accLog s.net.fwds.length = []
    unfold accAtL
    rw [List.filter_eq_nil_iff]
    intro e he; have := hs2 e he; simp; omega

end system

/-! ### `acceptor::close`, user `cancel` / `close` of a connect in progress -/

/-- **`C07_close_resets_queue`** (the repaired `acceptor::close`): whatever was queued and
    whatever accept was outstanding, afterwards the acceptor is closed, unbound, unregistered,
    its forwarder detached, the queue EMPTY, no accept outstanding, not listening; no handler
    completes with success; everything it sends is an error (reset) packet. -/
theorem C07_close_resets_queue (n : NetSt) (now : Int) (a : String) (sa : TcpSock) (ac : AccState)
    (hs : n.tcp? a = some sa) (hac : sa.acc = some ac) :
    (∃ sa', (n.accClose now a).1.tcp? a = some sa' ∧ sa'.isOpen = false ∧ sa'.bound = {} ∧ sa'.fwd = none
        ∧ sa'.acc = some { ac with queueLimit := -1, conns := [], acceptOp := none })
    ∧ (∀ g, sa.fwd = some g → (n.accClose now a).1.fwdTarget g = none)
    ∧ okPosts (n.accClose now a).2 = []
    ∧ (∀ q ∈ fwdPkts (n.accClose now a).2, q.ty = .err) := by
  have hva : n.sv a = some sa.hview := by simp [NetSt.sv, hs]
  obtain ⟨_, _, _, _, c5, _, c7, c8, c9⟩ := accClose_sum n now a sa.hview ac hva hac
  have h1 := c5 a
  rw [if_pos rfl] at h1
  obtain ⟨sa', hsa', hv'⟩ := sv_some h1
  refine ⟨⟨sa', hsa', congrArg SockV.isOpen hv', congrArg SockV.bound hv', congrArg SockV.fwd hv',
    congrArg SockV.acc hv'⟩, ?_, c8, c9⟩
  intro g hg
  rw [c7 g, if_pos (show sa.hview.fwd = some g from hg)]

/-- **`C07_cancel_aborts`.** `cancel` on a socket whose connect is in progress (before its
    SYN-ACK arrived) completes the connect handler with operation_aborted — and with nothing
    else: no handler completes with success, no packet is sent —; the socket stays on its
    channel with no connect pending, so the SYN-ACK, when it arrives, completes nothing
    (`tcpIncoming`: `m_connect_handler` is empty). -/
theorem C07_cancel_aborts (tp : TParams) (n : NetSt) (now : Int) (o : String) (sk : TcpSock) (h : Nat)
    (hs : n.tcp? o = some sk) (hc : sk.connectH = some h) :
    NEff.post { h := h, ec := .aborted } ∈ (n.tcpCancel o).2
    ∧ okPosts (n.tcpCancel o).2 = [] ∧ fwdPkts (n.tcpCancel o).2 = []
    ∧ (∃ sk', (n.tcpCancel o).1.tcp? o = some sk' ∧ sk'.connectH = none ∧ sk'.chan = sk.chan
         ∧ sk'.bound = sk.bound ∧ sk'.fwd = sk.fwd ∧ sk'.isOpen = sk.isOpen)
    ∧ (∀ pk, pk.ty = .synack → (n.tcpCancel o).1.tcpIncoming tp now o pk = ((n.tcpCancel o).1, [])) := by
  rw [tcpCancel_eq n o sk hs]
  obtain ⟨c1, c2, c3⟩ := cancel_sum sk
  obtain ⟨p1, _⟩ := cancel_posts_aborted sk h hc
  have hv : (n.setTcp o sk.cancel.1).sv o = some { sk.hview with connectH := none } := by
    rw [sv_setTcp, if_pos rfl, c1]
  refine ⟨p1, c2, c3, ⟨sk.cancel.1, tcp?_setTcp_same _ _ _, congrArg SockV.connectH c1, congrArg SockV.chan c1,
    congrArg SockV.bound c1, congrArg SockV.fwd c1, congrArg SockV.isOpen c1⟩, ?_⟩
  intro pk hty
  exact (tcpIncoming_synack tp _ now o pk _ hv hty).1 rfl

/-- **`C07_close_aborts`.** `close` on a socket whose connect is in progress completes the
    connect handler with operation_aborted, no handler with success; the socket leaves its
    channel (closed, unbound, forwarder detached): the SYN-ACK can no longer be delivered to it
    (`routedTo` needs an attached forwarder). No end-of-stream is announced (everything sent is
    an error packet, and none is sent while the connect is pending: see `tcpClose`). -/
theorem C07_close_aborts (n : NetSt) (now : Int) (o : String) (sk : TcpSock) (h : Nat)
    (hs : n.tcp? o = some sk) (hc : sk.connectH = some h) :
    NEff.post { h := h, ec := .aborted } ∈ (n.tcpClose now o).2
    ∧ okPosts (n.tcpClose now o).2 = []
    ∧ fwdPkts (n.tcpClose now o).2 = []
    ∧ (∃ sk', (n.tcpClose now o).1.tcp? o = some sk' ∧ sk'.connectH = none ∧ sk'.chan = none
         ∧ sk'.isOpen = false ∧ sk'.fwd = none ∧ sk'.bound = {})
    ∧ (∀ g, sk.fwd = some g → (n.tcpClose now o).1.fwdTarget g = none) := by
  have hv : n.sv o = some sk.hview := by simp [NetSt.sv, hs]
  obtain ⟨_, _, _, _, c5, _, c7, c8, _⟩ := tcpClose_sum n now o sk.hview hv
  have h1 := c5 o
  rw [if_pos rfl] at h1
  obtain ⟨sk', hsk', hv'⟩ := sv_some h1
  have heof : tcpCloseEof n now o sk = (n, []) := by
    unfold tcpCloseEof
    cases sk.chan.bind n.chan? with
    | none => rfl
    | some ch => simp [hc]
  have hmem : NEff.post { h := h, ec := .aborted } ∈ (n.tcpClose now o).2 ∧ fwdPkts (n.tcpClose now o).2 = [] := by
    rw [tcpClose_eq]
    simp only [hs, heof]
    unfold tcpCloseTail
    simp only [hs, List.nil_append]
    obtain ⟨p1, _⟩ := cancel_posts_aborted { sk with chan := none, bound := {}, isOpen := false, fwd := none, mss := 1475, cwnd := 2950, inFlight := 0, outstanding := [], inq := [], reorder := [], resend := [], recvNull := false, nextIn := 0, nextOut := 0, lastDrop := 0 } h hc
    exact ⟨p1, (cancel_sum _).2.2⟩
  refine ⟨hmem.1, c8, hmem.2, ⟨sk', hsk', congrArg SockV.connectH hv', congrArg SockV.chan hv', congrArg SockV.isOpen hv',
    congrArg SockV.fwd hv', congrArg SockV.bound hv'⟩, ?_⟩
  intro g hg
  rw [c7 g, if_pos (show sk.hview.fwd = some g from hg)]

/-! ### data follows the channel's route (what `C07_no_crosstalk` is about) -/

/-- `write_some` sends along `hops[remote_idx(m_bound_to)]` of the socket's channel -/
theorem C07_write_route (n : NetSt) (name : String) (bufs : List (List UInt8)) (hops : List String)
    (segs : List (List UInt8)) (h : n.tcpWritePrep name bufs = .ok (hops, segs)) :
    ∃ s ch, n.tcp? name = some s ∧ s.chan.bind n.chan? = some ch ∧ hops = ch.hops (ch.remoteIdx s.bound) := by
  unfold NetSt.tcpWritePrep at h
  cases hs : n.tcp? name with
  | none => simp [hs] at h
  | some s =>
    simp only [hs] at h
    split at h
    · cases h
    · cases hc : s.chan.bind n.chan? with
      | none => simp [hc] at h
      | some ch =>
        simp only [hc] at h
        split at h
        · cases h
        · split at h
          · cases h
          · split at h
            · cases h
            · simp only [Except.ok.injEq, Prod.mk.injEq] at h
              exact ⟨s, ch, rfl, hc, h.1.symm⟩

/-- every segment the loop fwdPkts carries exactly that route -/
theorem C07_segment_route (n : NetSt) (now : Int) (name : String) (hops : List String) (seg : List UInt8) :
    ∀ q ∈ fwdPkts (n.tcpSendSeg now name hops seg).2, q.hops = hops ∧ q.ty = .payload ∧ q.payload = seg := by
  unfold NetSt.tcpSendSeg
  cases hs : n.tcp? name with
  | none => simp
  | some s =>
    simp only
    intro q hq
    obtain ⟨_, _, _, _, _, _, _, t8⟩ := tcpSendPacket_sum (n.setTcp name { s with nextOut := s.nextOut + 1 }) now name
      { id := s.nextOut, ty := .payload, len := seg.length, ovh := 40, hops := hops,
        src := s.bound.toString, payload := seg, hasDrop := true, dropFwd := s.fwd }
    have := t8 q hq
    refine ⟨this.2.2, this.1, ?_⟩
    -- the payload is not touched by `send_packet`
    unfold NetSt.tcpSendPacket at hq
    simp only [tcp?_setTcp_same] at hq
    split at hq
    · simp at hq
    · rename_i ch _
      simp only [fwdPkts_append] at hq
      rw [fwdPkts_ite_single _ _ (by intro c h; cases h)] at hq
      simp [fwdPkts] at hq; rw [hq]

/-! ### non-vacuity: a concrete history (decidable form of the side condition) -/

/-- `HS.ok` as a Boolean check -/
def NetSt.routedToB (n : NetSt) (pk : Pkt) (name : String) : Bool :=
  match pk.hops.getLast? with
  | some hop => (List.range n.fwds.length).any (fun f => fwdHop f == hop && n.fwdTarget f == some name)
  | none => false

theorem routedTo_of_routedToB {n : NetSt} {pk : Pkt} {name : String} (h : n.routedToB pk name = true) :
    n.routedTo pk name := by
  unfold NetSt.routedToB at h
  cases hl : pk.hops.getLast? with
  | none => simp [hl] at h
  | some hop =>
    simp only [hl, List.any_eq_true, Bool.and_eq_true, beq_iff_eq] at h
    obtain ⟨f, _, h1, h2⟩ := h
    exact ⟨f, by rw [h1]; exact hl, h2⟩

def NetSt.isAccB (n : NetSt) (a : String) : Bool := ((n.tcp? a).map (fun sk => sk.acc.isSome)).getD false
def NetSt.isSockB (n : NetSt) (o : String) : Bool := ((n.tcp? o).map (fun sk => sk.acc.isNone)).getD false

theorem isAcc_of_isAccB {n : NetSt} {a : String} (h : n.isAccB a = true) : n.isAcc a := by
  unfold NetSt.isAccB at h
  cases hs : n.tcp? a with
  | none => simp [hs] at h
  | some sk => simp [hs] at h; exact ⟨sk, hs, h⟩

theorem isSock_of_isSockB {n : NetSt} {o : String} (h : n.isSockB o = true) : n.isSock o := by
  unfold NetSt.isSockB at h
  cases hs : n.tcp? o with
  | none => simp [hs] at h
  | some sk => simp [hs] at h; exact ⟨sk, hs, h⟩

def HS.okB (s : HS) : HLbl → Bool
  | .openAcc a _ => s.net.isAccB a
  | .bind o _ => ((s.net.tcp? o).map (fun sk => sk.chan.isNone)).getD false
  | .openSock o _ => s.net.isSockB o
  | .listen a _ => s.net.isAccB a
  | .cancelAcc a => s.net.isAccB a
  | .closeAcceptor a => s.net.isAccB a
  | .accept a (.into _ p _) => s.net.isAccB a && s.net.isSockB p
  | .accept a (.fresh _ nn) => s.net.isAccB a && (s.net.tcp? nn).isNone
  | .deliverSyn i a => ((s.bag[i]?).map (fun pk => pk.ty == .syn && s.net.routedToB pk a)).getD false
  | .deliverErr i a => s.net.isAccB a && ((s.bag[i]?).map (fun pk => pk.ty == .err && s.net.routedToB pk a)).getD false
  | .connect c _ _ => ((s.net.tcp? c).map (fun sk => sk.acc.isNone && sk.chan.isNone)).getD false
  | .cancel o => s.net.isSockB o
  | .close o => s.net.isSockB o
  | .deliverSynAck i c => ((s.bag[i]?).map (fun pk => pk.ty == .synack && s.net.routedToB pk c)).getD false
  | _ => true

theorem HS.ok_of_okB {s : HS} {l : HLbl} (h : s.okB l = true) : s.ok l := by
  cases l with
  | tick t => trivial
  | natRewrite i e => trivial
  | openAcc a v4 => exact isAcc_of_isAccB h
  | openSock o v4 => exact isSock_of_isSockB h
  | bind o ep =>
    simp only [HS.okB] at h
    cases hs : s.net.tcp? o with
    | none => simp [hs] at h
    | some sk =>
      simp only [hs, Option.map_some, Option.getD_some, Option.isNone_iff_eq_none] at h
      exact ⟨sk, hs, h⟩
  | listen a q => exact isAcc_of_isAccB h
  | cancelAcc a => exact isAcc_of_isAccB h
  | closeAcceptor a => exact isAcc_of_isAccB h
  | cancel o => exact isSock_of_isSockB h
  | close o => exact isSock_of_isSockB h
  | accept a op =>
    cases op with
    | into hh p w =>
      simp only [HS.okB, Bool.and_eq_true] at h
      exact ⟨isAcc_of_isAccB h.1, isSock_of_isSockB h.2⟩
    | fresh hh nn =>
      simp only [HS.okB, Bool.and_eq_true, Option.isNone_iff_eq_none] at h
      exact ⟨isAcc_of_isAccB h.1, h.2⟩
  | connect c t hh =>
    simp only [HS.okB] at h
    cases hs : s.net.tcp? c with
    | none => simp [hs] at h
    | some sk =>
      simp only [hs, Option.map_some, Option.getD_some, Bool.and_eq_true, Option.isNone_iff_eq_none] at h
      exact ⟨sk, hs, h.1, h.2⟩
  | deliverSyn i a =>
    simp only [HS.okB] at h
    cases hb : s.bag[i]? with
    | none => simp [hb] at h
    | some pk =>
      simp only [hb, Option.map_some, Option.getD_some, Bool.and_eq_true, beq_iff_eq] at h
      exact ⟨pk, hb, h.1, routedTo_of_routedToB h.2⟩
  | deliverErr i a =>
    simp only [HS.okB, Bool.and_eq_true] at h
    cases hb : s.bag[i]? with
    | none => simp [hb] at h
    | some pk =>
      simp only [hb, Option.map_some, Option.getD_some, Bool.and_eq_true, beq_iff_eq] at h
      exact ⟨isAcc_of_isAccB h.1, pk, hb, h.2.1, routedTo_of_routedToB h.2.2⟩
  | deliverSynAck i c =>
    simp only [HS.okB] at h
    cases hb : s.bag[i]? with
    | none => simp [hb] at h
    | some pk =>
      simp only [hb, Option.map_some, Option.getD_some, Bool.and_eq_true, beq_iff_eq] at h
      exact ⟨pk, hb, h.1, routedTo_of_routedToB h.2⟩

def HS.okRunB (tp : TParams) : HS → List HLbl → Bool
  | _, [] => true
  | s, l :: rest => s.okB l && HS.okRunB tp (s.step tp l) rest

theorem HS.okRun_of_okRunB {tp : TParams} : ∀ (ls : List HLbl) (s : HS),
    HS.okRunB tp s ls = true → HS.okRun tp s ls
  | [], _, _ => trivial
  | l :: rest, s, h => by
    simp only [HS.okRunB, Bool.and_eq_true] at h
    exact ⟨HS.ok_of_okB h.1, HS.okRun_of_okRunB rest _ h.2⟩

namespace HEx

/-- two nodes; `n0` is multi-homed; the clients' node sits behind a NAT-capable route (the
    adversary's `natRewrite` label plays the NAT hop) -/
def cfg : NetCfg :=
  { nodes := [("n0", ["10.0.0.1", "10.0.0.2"]), ("n1", ["10.0.1.1"])],
    routeIn := [("*", ["qi"])], routeOut := [("10.0.1.1", ["nat", "qo"]), ("*", ["qo"])], routeNet := [("*", ["net"])] }

def aep : Ep := { addr := "10.0.0.1", port := 8000 }
/-- a second acceptor listens on another endpoint of the same node -/
def bep : Ep := { addr := "10.0.0.2", port := 9000 }

def accs : List (String × String) := [("a0", "n0"), ("a1", "n0")]
def clients : List (String × String) :=
  [("s0", "n0"), ("s1", "n1"), ("s2", "n1"), ("s3", "n1"), ("s4", "n1"), ("s5", "n1")]

def init : HS := HS.init cfg accs clients

/-- s3 dials before anybody listens; `a0` and `a1` are opened, bound, made to listen (epochs 1
    and 2); s1 and s2 dial `a0`; s2's SYN crosses a NAT and ARRIVES FIRST; s4 dials `a1`; an accept
    with endpoint out-parameter is posted on `a0` after the first arrival, the socket-returning
    one before the second arrival; s2's SYN-ACK arrives; s1 CANCELS its connect — the SYN-ACK that
    arrives afterwards completes nothing, yet its channel was accepted —; s4's SYN is queued at
    `a1` (no accept), s4 cancels and closes (its end-of-stream reaches `a1`); `a1` is RE-OPENED
    (epoch 8; the queued connection is reset), bound and listens again, an accept is posted: the
    stale connection is NOT handed out; s5 — opened and bound explicitly to port 7000 — dials, is
    accepted, and CLOSES before its SYN-ACK arrives; `a0` is closed and s3 dials again; the accepted socket s9 is closed -/
def hist : List HLbl :=
  [ .connect "s3" aep 3,
    .openAcc "a0" true, .bind "a0" aep, .listen "a0" 5,
    .openAcc "a1" true, .bind "a1" bep, .listen "a1" 5,
    .connect "s1" aep 1, .connect "s2" aep 2, .natRewrite 1 "99.0.0.9", .connect "s4" bep 4,
    .deliverSyn 1 "a0", .accept "a0" (.into 10 "s0" true), .accept "a0" (.fresh 11 "s9"), .deliverSyn 0 "a0",
    .deliverSynAck 1 "s2", .cancel "s1", .deliverSynAck 1 "s1",
    .deliverSyn 0 "a1", .cancel "s4", .close "s4", .deliverErr 0 "a1",
    .openAcc "a1" true, .bind "a1" bep, .listen "a1" 5, .accept "a1" (.fresh 12 "s8"),
    .openSock "s5" true, .bind "s5" { addr := "10.0.1.1", port := 7000 },
    .connect "s5" bep 5, .deliverSyn 1 "a1", .close "s5",
    .tick 7, .closeAcceptor "a0", .connect "s3" aep 6, .close "s9" ]

def fin : HS := HS.run {} init hist

end HEx

set_option maxRecDepth 100000

theorem HEx.hist_ok : HS.okRun {} HEx.init HEx.hist := HS.okRun_of_okRunB _ _ (by decide)

/-- arrivals per epoch: in epoch 1 (of `a0`) channel 1 (s2) before channel 0 (s1); channel 2 in
    epoch 2 of `a1`, channel 3 in epoch 8 of `a1` (after the re-open) -/
example : HEx.fin.synLog = [(1, 1), (1, 0), (2, 2), (8, 3)] := by decide

/-- the first accept call on `a0` (serial 0, into `s0`, with endpoint) got channel 1 and reports
    s2's endpoint as seen through the NAT; the second (serial 1, a new socket) got channel 0 —
    the channel of the connect that s1 cancelled —; the accept on `a1` after the re-open (epoch 8)
    got channel 3, NOT channel 2 which was queued in epoch 2 -/
example : HEx.fin.accLog.map (fun e => (e.acc, e.epoch, e.serial, e.compl.h, e.compl.extra))
    = [("a0", 1, 0, 10, "ep=99.0.0.9:2002"), ("a0", 1, 1, 11, ""), ("a1", 8, 0, 12, "")]
    ∧ HEx.fin.accLog.map (fun e => (e.lep.toString, e.cid, e.fwd))
    = [("10.0.0.1:8000", some 1, some 6), ("10.0.0.1:8000", some 0, some 7), ("10.0.0.2:9000", some 3, some 10)] := by
  decide

/-- one success (s2); the cancelled connect of s1, the cancelled-then-closed one of s4 and the
    closed one of s5 completed with operation_aborted, each exactly once -/
example : HEx.fin.conLog.map (fun e => (e.sock, e.h, e.ec, e.cid))
    = [("s2", 2, .ok, some 1), ("s1", 1, .aborted, some 0), ("s4", 4, .aborted, some 2), ("s5", 5, .aborted, some 3)] := by
  decide

example : HEx.fin.dialLog.map (fun e => (e.cid, e.sock, e.ep0.toString, e.fwd))
    = [(0, "s1", "10.0.1.1:2001", some 3), (1, "s2", "10.0.1.1:2002", some 4),
       (2, "s4", "10.0.1.1:2003", some 5), (3, "s5", "10.0.1.1:7000", some 9)]
    ∧ HEx.fin.dialLog.map (fun e => (e.target.toString, e.lsock, e.epoch))
    = [("10.0.0.1:8000", "a0", 1), ("10.0.0.1:8000", "a0", 1), ("10.0.0.2:9000", "a1", 2), ("10.0.0.2:9000", "a1", 8)] := by
  decide

/-- channel 2 was never handed out: its route towards side 1 still ends in forwarder 2, the
    forwarder of `a1`'s FIRST epoch, detached for good -/
example : HEx.fin.net.chans.map (fun c => (c.hops0, c.hops1, c.vis0.toString, c.vis1.toString))
    = [(["qo", "net", "qi", "@3"], ["nat", "qo", "net", "qi", "@7"], "10.0.1.1:2001", "10.0.0.1:8000"),
       (["qo", "net", "qi", "@4"], ["nat", "qo", "net", "qi", "@6"], "99.0.0.9:2002", "10.0.0.1:8000"),
       (["qo", "net", "qi", "@5"], ["nat", "qo", "net", "qi", "@2"], "10.0.1.1:2003", "10.0.0.2:9000"),
       (["qo", "net", "qi", "@9"], ["nat", "qo", "net", "qi", "@10"], "10.0.1.1:7000", "10.0.0.2:9000")]
    ∧ HEx.fin.net.fwdTarget 2 = none ∧ (HEx.fin.net.tcp? "a1").bind (·.fwd) = some 8 := by decide

example : (HEx.fin.accCalls "a0", HEx.fin.accCalls "a1") = (2, 1) := by decide

example := C07_pairing_fifo HEx.cfg HEx.accs HEx.clients {} HEx.hist HEx.hist_ok
example := C07_one_to_one HEx.cfg HEx.accs HEx.clients {} HEx.hist HEx.hist_ok
example := C07_views HEx.cfg HEx.accs HEx.clients {} HEx.hist HEx.hist_ok
example := C07_no_crosstalk HEx.cfg HEx.accs HEx.clients {} HEx.hist HEx.hist_ok
example := C07_connect_matched HEx.cfg HEx.accs HEx.clients {} HEx.hist HEx.hist_ok
example := C07_syn_routing HEx.cfg HEx.accs HEx.clients {} HEx.hist HEx.hist_ok

/-- the connect before `listen` and the one after `close` were refused: no channel, no SYN -/
example : HEx.fin.dialLog.length = 4 ∧ HEx.fin.net.chans.length = 4
    ∧ ((HEx.fin.net.tcp? "s3").map (fun s => (s.chan, s.connectH))) = some (none, none) := by decide

/-- the re-open of `a1` while channel 2 was queued (`C07_reopen_fresh_epoch` applies to that
    prefix of the history): the acceptor comes out with an empty queue in a fresh epoch -/
example : (HS.run {} HEx.init (HEx.hist.take 22)).ok (.openAcc "a1" true)
    ∧ (((HS.run {} HEx.init (HEx.hist.take 22)).net.tcp? "a1").bind (·.acc)).map (·.conns) = some [2]
    ∧ (((HS.run {} HEx.init (HEx.hist.take 23)).net.tcp? "a1").bind (·.acc)).map (·.conns) = some []
    ∧ (HS.run {} HEx.init (HEx.hist.take 22)).net.fwds.length = 8 :=
  ⟨HS.ok_of_okB (by decide), by decide, by decide, by decide⟩

/-- without the side condition `HS.ok` the statements fail: a SYN-ACK handed to the wrong
    socket completes THAT socket's connect (the network never does this: `routedTo`) -/
example : ((HS.run {} HEx.init
      [.openAcc "a0" true, .bind "a0" HEx.aep, .listen "a0" 5, .connect "s1" HEx.aep 1, .connect "s2" HEx.aep 2,
       .deliverSyn 0 "a0", .accept "a0" (.into 10 "s0" false),
       .deliverSynAck 1 "s2"]).conLog.map (fun e => (e.sock, e.cid))) = [("s2", some 1)]
    ∧ (HS.run {} HEx.init
      [.openAcc "a0" true, .bind "a0" HEx.aep, .listen "a0" 5, .connect "s1" HEx.aep 1, .connect "s2" HEx.aep 2,
       .deliverSyn 0 "a0", .accept "a0" (.into 10 "s0" false),
       .deliverSynAck 1 "s2"]).accLog.map (·.cid) = [some 0] := by decide

end SimVerif
