/-
  C19 — Packet capture is a well-formed, complete, time-ordered record of sends.

  Encoder model: `SimVerif.Pcap` (byte-exact `pcap.cpp` + the `bytes_sent` counter of
  `tcp::socket::send_packet`). Reader: `SimVerif.PcapDecode` (independent; libpcap-style).
  The theorems below say: for EVERY list of sends (within the stated size bounds) the independent
  reader decodes the model's output to exactly the expected records.

  `zeroInit` = the repaired tree (channel::bytes_sent zero-initialised);
  an arbitrary `init : Ctrs` = the pinned tree bb9bed4 (bytes_sent uninitialised).
-/
import SimVerif.Pcap
import SimVerif.PcapDecode

namespace SimVerif.Pcap
open SimVerif.PcapDecode

/-! ### Byte round-trips -/

theorem b_toNat (n : Nat) : (b n).toNat = n % 256 := by simp [b]

theorem u32le_le32 (n : Nat) :
    u32le (b n) (b (n / 256)) (b (n / 65536)) (b (n / 16777216)) = n % 4294967296 := by
  simp only [u32le, b_toNat]; omega

theorem u32be_be32 (n : Nat) :
    u32be (b (n / 16777216)) (b (n / 65536)) (b (n / 256)) (b n) = n % 4294967296 := by
  simp only [u32be, b_toNat]; omega

theorem u16be_be16 (n : Nat) : u16be (b (n / 256)) (b n) = n % 65536 := by
  simp only [u16be, b_toNat]; omega

theorem u16le_le16 (n : Nat) : u16le (b n) (b (n / 256)) = n % 65536 := by
  simp only [u16le, b_toNat]; omega

/-! ### Packet level -/

theorem parsePkt_tcp (sip dip sp dp seq : Nat) (pl : List UInt8) :
    parsePkt (pktTcp sip dip sp dp seq pl) =
      some { verIhl := 0x45, ipLen := (40 + pl.length) % 65536, ttl := 200, proto := 6,
             src := sip % 4294967296, dst := dip % 4294967296,
             sport := sp % 65536, dport := dp % 65536, seq := seq % 4294967296,
             udpLen := 0, payload := pl } := by
  simp [pktTcp, ipHdr, tcpHdr, be16, be32, le16, le32, parsePkt, parseTransport,
    u32be_be32, u16be_be16, b_toNat]

theorem parsePkt_udp (sip dip sp dp : Nat) (pl : List UInt8) :
    parsePkt (pktUdp sip dip sp dp pl) =
      some { verIhl := 0x45, ipLen := (28 + pl.length) % 65536, ttl := 200, proto := 17,
             src := sip % 4294967296, dst := dip % 4294967296,
             sport := sp % 65536, dport := dp % 65536, seq := 0,
             udpLen := (8 + pl.length) % 65536, payload := pl } := by
  simp [pktUdp, ipHdr, udpHdr, be16, be32, le16, parsePkt, parseTransport,
    u32be_be32, u16be_be16, b_toNat]

theorem pktTcp_length (sip dip sp dp seq : Nat) (pl : List UInt8) :
    (pktTcp sip dip sp dp seq pl).length = 40 + pl.length := by
  simp [pktTcp, ipHdr, tcpHdr, be16, be32, le16, le32]; omega

theorem pktUdp_length (sip dip sp dp : Nat) (pl : List UInt8) :
    (pktUdp sip dip sp dp pl).length = 28 + pl.length := by
  simp [pktUdp, ipHdr, udpHdr, be16, be32, le16]; omega

/-! ### Record level -/

theorem tsSec_lt (t : Nat) : tsSec t < 4294967296 := by unfold tsSec; omega
theorem tsUsec_lt (t : Nat) : tsUsec t < 4294967296 := by unfold tsUsec; omega

/-- A record header announcing `size` followed by a packet of exactly that many bytes
    (`size ≤ snaplen`, `size < 2^32`) decodes to that packet and leaves the rest. -/
theorem decodeRec_recHdr (snap t size : Nat) (pkt rest : List UInt8) (p : Pkt)
    (hlen : pkt.length = size) (hsz : size < 4294967296) (hsnap : size ≤ snap)
    (hp : parsePkt pkt = some p) :
    decodeRec snap (recHdr t size ++ (pkt ++ rest)) =
      some ({ tsSec := tsSec t, tsUsec := tsUsec t, inclLen := size, origLen := size, pkt := p },
            rest) := by
  have hts : tsSec t % 4294967296 = tsSec t := Nat.mod_eq_of_lt (tsSec_lt t)
  have htu : tsUsec t % 4294967296 = tsUsec t := Nat.mod_eq_of_lt (tsUsec_lt t)
  have hs : size % 4294967296 = size := Nat.mod_eq_of_lt hsz
  simp only [recHdr, le32, List.cons_append, List.nil_append, decodeRec, u32le_le32, hts, htu, hs]
  rw [List.take_left' hlen, List.drop_left' hlen, hp]
  simp [hlen, hsnap]

/-- The reader rejects a record whose announced size exceeds the snap length. -/
theorem decodeRec_recHdr_oversize (snap t size : Nat) (tail : List UInt8)
    (hsz : size < 4294967296) (hsnap : snap < size) :
    decodeRec snap (recHdr t size ++ tail) = none := by
  have hs : size % 4294967296 = size := Nat.mod_eq_of_lt hsz
  simp only [recHdr, le32, List.cons_append, List.nil_append, decodeRec, u32le_le32, hs]
  have : ¬ size ≤ snap := by omega
  simp [this]

/-! ### Specification side -/

/-- Payload bytes transmitted earlier (in `pre`) by TCP sends of direction `key`. -/
def priorBytes (key : Nat × Nat) : List Send → Nat
  | [] => 0
  | s :: rest =>
    (if s.kind = .tcp ∧ s.key = key then s.payload.length else 0) + priorBytes key rest

/-- The record the property demands for send `s` whose TCP sequence number should be `seq`. -/
def expRec (seq : Nat) (s : Send) : Rec :=
  match s.kind with
  | .tcp =>
    { tsSec := (441794304 + s.t / 1000000000) % 4294967296
      tsUsec := (s.t % 1000000000) / 1000
      inclLen := 40 + s.payload.length
      origLen := 40 + s.payload.length
      pkt := { verIhl := 0x45, ipLen := 40 + s.payload.length, ttl := 200, proto := 6,
               src := s.srcIp, dst := s.dstIp, sport := s.srcPort, dport := s.dstPort,
               seq := seq, udpLen := 0, payload := s.payload } }
  | .udp =>
    { tsSec := (441794304 + s.t / 1000000000) % 4294967296
      tsUsec := (s.t % 1000000000) / 1000
      inclLen := 28 + s.payload.length
      origLen := 28 + s.payload.length
      pkt := { verIhl := 0x45, ipLen := 28 + s.payload.length, ttl := 200, proto := 17,
               src := s.srcIp, dst := s.dstIp, sport := s.srcPort, dport := s.dstPort,
               seq := 0, udpLen := 8 + s.payload.length, payload := s.payload } }

/-- Expected records for `sends` given that `pre` was sent before them: the sequence number of a
    TCP record is the initial counter of its direction plus the payload bytes previously
    transmitted in that direction, modulo 2^32. -/
def expectedFrom (init : Ctrs) (pre : List Send) : List Send → List Rec
  | [] => []
  | s :: rest =>
    expRec ((init s.key + priorBytes s.key pre) % 4294967296) s
      :: expectedFrom init (pre ++ [s]) rest

/-- Expected decode of a whole capture. -/
def expected (init : Ctrs) (sends : List Send) : List Rec := expectedFrom init [] sends

/-- Hypotheses on one send: addresses/ports in range and the packet fits an IPv4 total-length
    field. (No bound on the send time is needed: see `tsUsec_spec`.) -/
structure SendOk (s : Send) : Prop where
  srcIp : s.srcIp < 4294967296
  dstIp : s.dstIp < 4294967296
  srcPort : s.srcPort < 65536
  dstPort : s.dstPort < 65536
  tcpSize : s.kind = .tcp → s.payload.length + 40 ≤ 65535
  udpSize : s.kind = .udp → s.payload.length + 28 ≤ 65535

/-! ### Mechanism vs specification, one send -/

theorem tsSec_spec (t : Nat) : tsSec t = (441794304 + t / 1000000000) % 4294967296 := by
  unfold tsSec secs32 epoch; omega

/-- The `uint32` truncation of the seconds before they are subtracted is harmless: 2^32 s is a
    multiple of 2^32 µs, so the final `uint32` cast of the microseconds undoes it. -/
theorem tsUsec_spec (t : Nat) : tsUsec t = (t % 1000000000) / 1000 := by
  unfold tsUsec secs32; omega

theorem decodeRec_emit (c : Ctrs) (s : Send) (h : SendOk s) (rest : List UInt8) :
    decodeRec 65535 ((emit c s).1 ++ rest) = some (expRec (c s.key % 4294967296) s, rest) := by
  have ⟨h1, h2, h3, h4, h6, h7⟩ := h
  cases hk : s.kind with
  | tcp =>
    have hsz := h6 hk
    simp only [emit, hk, nextSeq, recordTcp, List.append_assoc]
    rw [decodeRec_recHdr 65535 s.t (40 + s.payload.length) _ rest _ (pktTcp_length ..)
      (by omega) (by omega) (parsePkt_tcp ..)]
    simp only [expRec, hk, tsSec_spec, tsUsec_spec s.t]
    congr 3
    simp only [Pkt.mk.injEq, and_true, true_and]
    refine ⟨?_, ?_, ?_, ?_, ?_⟩ <;> omega
  | udp =>
    have hsz := h7 hk
    simp only [emit, hk, recordUdp, List.append_assoc]
    rw [decodeRec_recHdr 65535 s.t (28 + s.payload.length) _ rest _ (pktUdp_length ..)
      (by omega) (by omega) (parsePkt_udp ..)]
    simp only [expRec, hk, tsSec_spec, tsUsec_spec s.t]
    congr 3
    simp only [Pkt.mk.injEq, and_true, true_and]
    refine ⟨?_, ?_, ?_, ?_, ?_, ?_⟩ <;> omega

theorem emit_ne_nil (c : Ctrs) (s : Send) : (emit c s).1 ≠ [] := by
  cases hk : s.kind <;> simp [emit, hk, recordTcp, recordUdp, recHdr, le32]

theorem decodeRecs_step (snap fuel : Nat) (bs rest : List UInt8) (r : Rec) (rs : List Rec)
    (hne : bs ≠ []) (h1 : decodeRec snap bs = some (r, rest))
    (h2 : decodeRecs snap fuel rest = some rs) :
    decodeRecs snap (fuel + 1) bs = some (r :: rs) := by
  cases bs with
  | nil => exact absurd rfl hne
  | cons x xs => simp [decodeRecs, h1, h2]

theorem priorBytes_append (key : Nat × Nat) (pre : List Send) (s : Send) :
    priorBytes key (pre ++ [s]) =
      priorBytes key pre + (if s.kind = .tcp ∧ s.key = key then s.payload.length else 0) := by
  induction pre with
  | nil => simp [priorBytes]
  | cons a l ih => simp only [List.cons_append, priorBytes, ih]; omega

/-- Counter invariant: every direction counter is congruent to its initial value plus the bytes
    transmitted so far in that direction. Preserved by `emit`. -/
theorem emit_inv (init c : Ctrs) (pre : List Send) (s : Send)
    (hinv : ∀ k, c k % 4294967296 = (init k + priorBytes k pre) % 4294967296) :
    ∀ k, (emit c s).2 k % 4294967296 = (init k + priorBytes k (pre ++ [s])) % 4294967296 := by
  intro k
  rw [priorBytes_append]
  cases hk : s.kind with
  | tcp =>
    simp only [emit, hk, nextSeq, Ctrs.set, true_and]
    by_cases hkey : k = s.key
    · subst hkey; simp only [if_true]; have := hinv s.key; omega
    · have hne : ¬ s.key = k := fun h => hkey h.symm
      simp only [hkey, hne, if_false]; have := hinv k; omega
  | udp =>
    simp only [emit, hk]
    have := hinv k
    simp [this]

theorem decodeRecs_body (init : Ctrs) (sends : List Send) :
    ∀ (c : Ctrs) (pre : List Send) (fuel : Nat),
      (∀ s ∈ sends, SendOk s) →
      (∀ k, c k % 4294967296 = (init k + priorBytes k pre) % 4294967296) →
      sends.length ≤ fuel →
      decodeRecs 65535 fuel (captureBody c sends) = some (expectedFrom init pre sends) := by
  induction sends with
  | nil => intro c pre fuel _ _ _; cases fuel <;> simp [captureBody, expectedFrom, decodeRecs]
  | cons s rest ih =>
    intro c pre fuel hok hinv hfuel
    cases fuel with
    | zero => simp at hfuel
    | succ fuel =>
      have hs : SendOk s := hok s (List.mem_cons_self ..)
      have hrest : ∀ s' ∈ rest, SendOk s' := fun s' h => hok s' (List.mem_cons_of_mem _ h)
      simp only [captureBody, expectedFrom]
      apply decodeRecs_step
      · intro h; exact emit_ne_nil c s (List.append_eq_nil_iff.mp h).1
      · rw [decodeRec_emit c s hs, hinv s.key]
      · exact ih (emit c s).2 (pre ++ [s]) fuel hrest (emit_inv init c pre s hinv)
          (by simp at hfuel; omega)

theorem captureBody_length_ge (c : Ctrs) (sends : List Send) :
    sends.length ≤ (captureBody c sends).length := by
  induction sends generalizing c with
  | nil => simp [captureBody]
  | cons s rest ih =>
    simp only [captureBody, List.length_cons, List.length_append]
    have h1 := ih (emit c s).2
    have h2 : 0 < (emit c s).1.length := List.length_pos_iff.mpr (emit_ne_nil c s)
    omega

theorem decodeFile_capture_eq (init : Ctrs) (sends : List Send) :
    decodeFile (capture init sends) =
      decodeRecs 65535 (captureBody init sends).length (captureBody init sends) := by
  simp [capture, fileHeader, le32, le16, decodeFile, u32le, u16le, b]

/-! ## Property theorems -/

/-- **C19 (well-formedness, completeness, order; round trip).** For every initial counter
    assignment and every list of sends within the size bounds, the capture file is a valid pcap
    file (raw-IP link type) that an independent reader decodes to exactly one record per send, in
    transmission order, with the expected timestamps, lengths, addresses, ports, payload and TCP
    sequence numbers. -/
theorem C19_wellformed (init : Ctrs) (sends : List Send) (hok : ∀ s ∈ sends, SendOk s) :
    decodeFile (capture init sends) = some (expected init sends) := by
  rw [decodeFile_capture_eq]
  exact decodeRecs_body init sends init [] _ hok (by simp [priorBytes])
    (captureBody_length_ge init sends)

/-! ### Corollaries about `expected` (hence, by `C19_wellformed`, about every decoded capture) -/

theorem expectedFrom_length (init : Ctrs) (pre sends : List Send) :
    (expectedFrom init pre sends).length = sends.length := by
  induction sends generalizing pre with
  | nil => rfl
  | cons s rest ih => simp [expectedFrom, ih]

/-- Exactly one record per send. -/
theorem C19_one_record_per_send (init : Ctrs) (sends : List Send) (hok : ∀ s ∈ sends, SendOk s)
    (recs : List Rec) (h : decodeFile (capture init sends) = some recs) :
    recs.length = sends.length := by
  rw [C19_wellformed init sends hok] at h
  cases h; exact expectedFrom_length ..

theorem expRec_lengths (seq : Nat) (s : Send) :
    let r := expRec seq s
    r.inclLen = r.origLen ∧ r.pkt.ipLen = r.inclLen ∧
    (r.pkt.proto = 6 → r.inclLen = 40 + r.pkt.payload.length) ∧
    (r.pkt.proto = 17 → r.inclLen = 28 + r.pkt.payload.length ∧
      r.pkt.udpLen = 8 + r.pkt.payload.length) ∧
    (r.pkt.proto = 6 ∨ r.pkt.proto = 17) := by
  cases hk : s.kind <;> simp [expRec, hk]

theorem mem_expectedFrom (init : Ctrs) (pre sends : List Send) (r : Rec)
    (h : r ∈ expectedFrom init pre sends) : ∃ seq s, s ∈ sends ∧ r = expRec seq s := by
  induction sends generalizing pre with
  | nil => simp [expectedFrom] at h
  | cons s rest ih =>
    simp only [expectedFrom, List.mem_cons] at h
    rcases h with h | h
    · exact ⟨_, s, List.mem_cons_self .., h⟩
    · obtain ⟨q, s', hs', hr⟩ := ih _ h
      exact ⟨q, s', List.mem_cons_of_mem _ hs', hr⟩

/-- **C19 (lengths match content).** In every decoded record the captured and original lengths
    agree, equal the IP total-length field, and equal header size plus payload length; the UDP
    length field is 8 + payload length. Only TCP (6) and UDP (17) records occur. -/
theorem C19_lengths (init : Ctrs) (sends : List Send) (hok : ∀ s ∈ sends, SendOk s)
    (recs : List Rec) (h : decodeFile (capture init sends) = some recs) :
    ∀ r ∈ recs,
      r.inclLen = r.origLen ∧ r.pkt.ipLen = r.inclLen ∧
      (r.pkt.proto = 6 → r.inclLen = 40 + r.pkt.payload.length) ∧
      (r.pkt.proto = 17 → r.inclLen = 28 + r.pkt.payload.length ∧
        r.pkt.udpLen = 8 + r.pkt.payload.length) ∧
      (r.pkt.proto = 6 ∨ r.pkt.proto = 17) := by
  rw [C19_wellformed init sends hok] at h
  cases h
  intro r hr
  obtain ⟨q, s, _, rfl⟩ := mem_expectedFrom _ _ _ _ hr
  exact expRec_lengths q s

theorem expectedFrom_map_of_expRec {α : Type} (f : Rec → α) (g : Send → α)
    (hfg : ∀ q s, f (expRec q s) = g s) (init : Ctrs) (pre sends : List Send) :
    (expectedFrom init pre sends).map f = sends.map g := by
  induction sends generalizing pre with
  | nil => rfl
  | cons s rest ih => simp [expectedFrom, hfg, ih]

/-- **C19 (true addresses and ports, protocol).** Record by record, in order, the IP header carries
    the send's source and destination address, the transport header its source and destination
    port, and the protocol field its kind. -/
theorem C19_addresses_ports (init : Ctrs) (sends : List Send) (hok : ∀ s ∈ sends, SendOk s)
    (recs : List Rec) (h : decodeFile (capture init sends) = some recs) :
    recs.map (fun r => (r.pkt.proto, r.pkt.src, r.pkt.dst, r.pkt.sport, r.pkt.dport)) =
      sends.map (fun s => ((match s.kind with | .tcp => 6 | .udp => 17),
        s.srcIp, s.dstIp, s.srcPort, s.dstPort)) := by
  rw [C19_wellformed init sends hok] at h
  cases h
  apply expectedFrom_map_of_expRec
  intro q s; cases hk : s.kind <;> simp [expRec, hk]

/-- **C19 (payload).** Record by record, in order, the payload bytes equal what was sent. -/
theorem C19_payload (init : Ctrs) (sends : List Send) (hok : ∀ s ∈ sends, SendOk s)
    (recs : List Rec) (h : decodeFile (capture init sends) = some recs) :
    recs.map (fun r => r.pkt.payload) = sends.map (fun s => s.payload) := by
  rw [C19_wellformed init sends hok] at h
  cases h
  apply expectedFrom_map_of_expRec
  intro q s; cases hk : s.kind <;> simp [expRec, hk]

/-- **C19 (timestamps are the virtual send times from the fixed epoch).** -/
theorem C19_timestamps (init : Ctrs) (sends : List Send) (hok : ∀ s ∈ sends, SendOk s)
    (recs : List Rec) (h : decodeFile (capture init sends) = some recs) :
    recs.map (fun r => (r.tsSec, r.tsUsec)) =
      sends.map (fun s => ((441794304 + s.t / 1000000000) % 4294967296,
        (s.t % 1000000000) / 1000)) := by
  rw [C19_wellformed init sends hok] at h
  cases h
  apply expectedFrom_map_of_expRec
  intro q s; cases hk : s.kind <;> simp [expRec, hk]

/-- Lexicographic order on (seconds, microseconds). -/
def tsLe (a b : Nat × Nat) : Prop := a.1 < b.1 ∨ (a.1 = b.1 ∧ a.2 ≤ b.2)

/-- **C19 (time-ordered).** If send times are non-decreasing and every send happens before the
    32-bit pcap seconds field wraps (`441794304 + t/10^9 < 2^32`, about 122 years of virtual
    time), the decoded (ts_sec, ts_usec) pairs are lexicographically non-decreasing (for every
    pair of records, hence in particular for adjacent ones). -/
theorem C19_time_monotone (init : Ctrs) (sends : List Send) (hok : ∀ s ∈ sends, SendOk s)
    (hmono : sends.Pairwise (fun a b => a.t ≤ b.t))
    (hnowrap : ∀ s ∈ sends, 441794304 + s.t / 1000000000 < 4294967296)
    (recs : List Rec) (h : decodeFile (capture init sends) = some recs) :
    (recs.map (fun r => (r.tsSec, r.tsUsec))).Pairwise tsLe := by
  rw [C19_timestamps init sends hok recs h, List.pairwise_map]
  have hmono' : sends.Pairwise (fun a b => a.t ≤ b.t ∧
      441794304 + a.t / 1000000000 < 4294967296 ∧ 441794304 + b.t / 1000000000 < 4294967296) := by
    rw [List.pairwise_iff_forall_sublist] at hmono ⊢
    intro a b hab
    have hsub := hab.subset
    exact ⟨hmono hab, hnowrap a (hsub (by simp)), hnowrap b (hsub (by simp))⟩
  refine hmono'.imp ?_
  intro a b ⟨hab, ha, hb⟩
  simp only [tsLe]
  omega

/-! ### Sequence numbers -/

theorem expectedFrom_getElem (init : Ctrs) (pre sends : List Send) (i : Nat)
    (hi : i < sends.length) :
    (expectedFrom init pre sends)[i]'(by rw [expectedFrom_length]; exact hi) =
      expRec ((init sends[i].key + priorBytes sends[i].key (pre ++ sends.take i)) % 4294967296)
        sends[i] := by
  induction sends generalizing pre i with
  | nil => simp at hi
  | cons s rest ih =>
    cases i with
    | zero => simp [expectedFrom]
    | succ j =>
      simp only [expectedFrom, List.getElem_cons_succ, List.take_succ_cons]
      rw [ih (pre ++ [s]) j (by simpa using hi)]
      simp

theorem expRec_seq_tcp (q : Nat) (s : Send) (hk : s.kind = .tcp) : (expRec q s).pkt.seq = q := by
  simp [expRec, hk]

/-- Sequence numbers for an arbitrary initial counter assignment (covers the pinned tree). -/
theorem C19_seq_general (init : Ctrs) (sends : List Send) (hok : ∀ s ∈ sends, SendOk s)
    (recs : List Rec) (h : decodeFile (capture init sends) = some recs)
    (i : Nat) (hi : i < sends.length) (htcp : sends[i].kind = .tcp) :
    ∃ hr : i < recs.length,
      recs[i].pkt.seq =
        (init sends[i].key + priorBytes sends[i].key (sends.take i)) % 4294967296 := by
  rw [C19_wellformed init sends hok] at h
  cases h
  refine ⟨by rw [expected, expectedFrom_length]; exact hi, ?_⟩
  simp only [expected]
  rw [expectedFrom_getElem init [] sends i hi, expRec_seq_tcp _ _ htcp]
  simp

/-- **C19 (sequence numbers; repaired tree).** With zero-initialised counters, the sequence number
    of the i-th record, if it is TCP, equals the payload bytes previously transmitted (by earlier
    TCP sends) in the same direction of the same connection, modulo 2^32. -/
theorem C19_seq (sends : List Send) (hok : ∀ s ∈ sends, SendOk s)
    (recs : List Rec) (h : decodeFile (capture zeroInit sends) = some recs)
    (i : Nat) (hi : i < sends.length) (htcp : sends[i].kind = .tcp) :
    ∃ hr : i < recs.length,
      recs[i].pkt.seq = priorBytes sends[i].key (sends.take i) % 4294967296 := by
  obtain ⟨hr, hseq⟩ := C19_seq_general zeroInit sends hok recs h i hi htcp
  exact ⟨hr, by rw [hseq]; simp [zeroInit]⟩

theorem priorBytes_eq_zero (key : Nat × Nat) (l : List Send)
    (h : ∀ s ∈ l, ¬ (s.kind = .tcp ∧ s.key = key)) : priorBytes key l = 0 := by
  induction l with
  | nil => rfl
  | cons a l ih =>
    have ha := h a (List.mem_cons_self ..)
    simp only [priorBytes, ha, if_false, Nat.zero_add]
    exact ih (fun s hs => h s (List.mem_cons_of_mem _ hs))

/-- **C19 (sequence numbers start at zero; repaired tree).** The first TCP record of each
    direction of each connection has sequence number 0. -/
theorem C19_seq_starts_at_zero (sends : List Send) (hok : ∀ s ∈ sends, SendOk s)
    (recs : List Rec) (h : decodeFile (capture zeroInit sends) = some recs)
    (i : Nat) (hi : i < sends.length) (htcp : sends[i].kind = .tcp)
    (hfirst : ∀ s ∈ sends.take i, ¬ (s.kind = .tcp ∧ s.key = sends[i].key)) :
    ∃ hr : i < recs.length, recs[i].pkt.seq = 0 := by
  obtain ⟨hr, hseq⟩ := C19_seq sends hok recs h i hi htcp
  exact ⟨hr, by rw [hseq, priorBytes_eq_zero _ _ hfirst]⟩

/-! ### The pinned tree's defect: `channel::bytes_sent` is uninitialised -/

/-- The value ASan's malloc fill leaves in the uninitialised `bytes_sent` slots. -/
def poisonInit : Ctrs := fun _ => 0xbebebebe

def witnessSend : Send :=
  { kind := .tcp, t := 0, srcIp := 0x0a000001, dstIp := 0x0a000002, srcPort := 1000,
    dstPort := 2000, conn := 0, dir := 0, payload := [1, 2, 3] }

/-- **As-is (pinned tree).** The first sequence number of a direction is whatever the counter
    happened to contain: with a non-zero initial counter the first record's sequence number is
    not 0, so `C19_seq_starts_at_zero` fails for the pinned tree. -/
theorem C19_asis_seq_depends_on_init :
    (decodeFile (capture poisonInit [witnessSend])).map (fun rs => rs.map (fun r => r.pkt.seq))
      = some [0xbebebebe] ∧
    (decodeFile (capture zeroInit [witnessSend])).map (fun rs => rs.map (fun r => r.pkt.seq))
      = some [0] := by
  decide

/-! ### Boundaries of the hypotheses -/

/-- **Boundary (oversize datagram).** `udp::socket::send_to` accepts payloads up to 65535 bytes,
    but an IPv4 datagram with a UDP header can carry at most 65507. For larger payloads the model
    (and the code) truncates the 16-bit IP total-length and UDP length fields … -/
theorem C19_oversize_length_fields_wrap (sip dip sp dp : Nat) (pl : List UInt8)
    (h : 65507 < pl.length) (h2 : pl.length ≤ 65535) :
    ∃ p, parsePkt (pktUdp sip dip sp dp pl) = some p ∧
      p.ipLen = pl.length - 65508 ∧ p.udpLen = (8 + pl.length) % 65536 ∧
      p.ipLen ≠ 28 + p.payload.length := by
  refine ⟨_, parsePkt_udp .., ?_, ?_, ?_⟩ <;> simp only <;> omega

/-- … and the record's captured length exceeds the file's snap length (65535), so the capture is
    not a valid pcap file: the reader rejects it. -/
theorem C19_oversize_udp_rejected (init : Ctrs) (s : Send) (rest : List Send)
    (hk : s.kind = .udp) (h : 65507 < s.payload.length) (h2 : s.payload.length ≤ 65535) :
    decodeFile (capture init (s :: rest)) = none := by
  rw [decodeFile_capture_eq]
  have hne : captureBody init (s :: rest) ≠ [] := by
    simp only [captureBody]
    intro h; exact emit_ne_nil init s (List.append_eq_nil_iff.mp h).1
  have hrec : decodeRec 65535 (captureBody init (s :: rest)) = none := by
    simp only [captureBody, emit, hk, recordUdp, List.append_assoc]
    exact decodeRec_recHdr_oversize 65535 s.t _ _ (by omega) (by omega)
  cases hb : captureBody init (s :: rest) with
  | nil => exact absurd hb hne
  | cons x xs =>
    rw [hb] at hrec
    simp [decodeRecs, hrec]

/-- **Boundary (time).** The microsecond field is always below 10^6, for every send time, even
    beyond 2^32 seconds of virtual time where the seconds field has wrapped. -/
theorem C19_usec_lt (t : Nat) : tsUsec t < 1000000 := by
  rw [tsUsec_spec]; omega

/-- **Boundary (time order).** The `hnowrap` hypothesis of `C19_time_monotone` is needed: one
    second after virtual time `2^32 - 441794304 - 1` s the 32-bit seconds field wraps to 0. -/
theorem C19_time_wraps_after_epoch_range :
    tsSec (3853172991 * 1000000000) = 4294967295 ∧ tsSec (3853172992 * 1000000000) = 0 := by
  decide

/-! ### Non-vacuity: a concrete capture decoded by evaluation -/

def exSends : List Send :=
  [ { kind := .tcp, t := 1500000000, srcIp := 0x0a000001, dstIp := 0x0a000002, srcPort := 1000,
      dstPort := 2000, conn := 7, dir := 0, payload := [0xde, 0xad, 0xbe] },
    { kind := .udp, t := 1500001999, srcIp := 0xc0a80001, dstIp := 0x08080808, srcPort := 53,
      dstPort := 5353, payload := [0x42] },
    { kind := .tcp, t := 2000000000, srcIp := 0x0a000002, dstIp := 0x0a000001, srcPort := 2000,
      dstPort := 1000, conn := 7, dir := 1, payload := [0x01, 0x02] },
    { kind := .tcp, t := 2000000000, srcIp := 0x0a000001, dstIp := 0x0a000002, srcPort := 1000,
      dstPort := 2000, conn := 7, dir := 0, payload := [] } ]

set_option maxRecDepth 100000 in
example :
    decodeFile (capture zeroInit exSends) = some
      [ { tsSec := 441794305, tsUsec := 500000, inclLen := 43, origLen := 43,
          pkt := { verIhl := 0x45, ipLen := 43, ttl := 200, proto := 6, src := 0x0a000001,
                   dst := 0x0a000002, sport := 1000, dport := 2000, seq := 0, udpLen := 0,
                   payload := [0xde, 0xad, 0xbe] } },
        { tsSec := 441794305, tsUsec := 500001, inclLen := 29, origLen := 29,
          pkt := { verIhl := 0x45, ipLen := 29, ttl := 200, proto := 17, src := 0xc0a80001,
                   dst := 0x08080808, sport := 53, dport := 5353, seq := 0, udpLen := 9,
                   payload := [0x42] } },
        { tsSec := 441794306, tsUsec := 0, inclLen := 42, origLen := 42,
          pkt := { verIhl := 0x45, ipLen := 42, ttl := 200, proto := 6, src := 0x0a000002,
                   dst := 0x0a000001, sport := 2000, dport := 1000, seq := 0, udpLen := 0,
                   payload := [0x01, 0x02] } },
        { tsSec := 441794306, tsUsec := 0, inclLen := 40, origLen := 40,
          pkt := { verIhl := 0x45, ipLen := 40, ttl := 200, proto := 6, src := 0x0a000001,
                   dst := 0x0a000002, sport := 1000, dport := 2000, seq := 3, udpLen := 0,
                   payload := [] } } ] := by
  decide

/-- The hypotheses of the theorems are satisfiable by that capture. -/
example : ∀ s ∈ exSends, SendOk s := by
  intro s hs
  simp only [exSends, List.mem_cons, List.not_mem_nil, or_false] at hs
  rcases hs with rfl | rfl | rfl | rfl <;> constructor <;> simp

/-- The file header is 24 bytes and the reader accepts an empty capture. -/
example : fileHeader.length = 24 ∧ decodeFile (capture zeroInit []) = some [] := by decide

end SimVerif.Pcap
