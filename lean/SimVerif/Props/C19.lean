/-
  C19 — Packet capture is a well-formed, complete, time-ordered record of sends.

  Encoder model: `SimVerif.Pcap` (byte-exact `pcap.cpp` + the `bytes_sent` counter of
  `tcp::socket::send_packet`). Reader: `SimVerif.PcapDecode` (independent; libpcap-style).
  The theorems below say: for EVERY list of sends (within the stated size bounds) the independent
  reader decodes the model's output to exactly the expected records.

  `zeroInit` = the repaired tree (channel::bytes_sent zero-initialised);
  an arbitrary `init : Ctrs` = the pinned tree bb9bed4 (bytes_sent uninitialised).
-/
import SimVerif.Pcap
import SimVerif.PcapDecode
import SimVerif.Lemmas.PcapSites
import SimVerif.Lemmas.PcapBlocks
import SimVerif.TcpEx

namespace SimVerif.Pcap
open SimVerif.PcapDecode

/-! ### Byte round-trips -/

theorem b_toNat (n : Nat) : (b n).toNat = n % 256 := by simp [b]

theorem u32le_le32 (n : Nat) :
    u32le (b n) (b (n / 256)) (b (n / 65536)) (b (n / 16777216)) = n % 4294967296 := by
  simp only [u32le, b_toNat]; omega

theorem u32be_be32 (n : Nat) :
    u32be (b (n / 16777216)) (b (n / 65536)) (b (n / 256)) (b n) = n % 4294967296 := by
  simp only [u32be, b_toNat]; omega

theorem u16be_be16 (n : Nat) : u16be (b (n / 256)) (b n) = n % 65536 := by
  simp only [u16be, b_toNat]; omega

theorem u16le_le16 (n : Nat) : u16le (b n) (b (n / 256)) = n % 65536 := by
  simp only [u16le, b_toNat]; omega

/-! ### Packet level -/

theorem parsePkt_tcp (sip dip sp dp seq : Nat) (pl : List UInt8) :
    parsePkt (pktTcp sip dip sp dp seq pl) =
      some { verIhl := 0x45, ipLen := (40 + pl.length) % 65536, ttl := 200, proto := 6,
             src := sip % 4294967296, dst := dip % 4294967296,
             sport := sp % 65536, dport := dp % 65536, seq := seq % 4294967296,
             udpLen := 0, payload := pl } := by
  simp [pktTcp, ipHdr, tcpHdr, be16, be32, le16, le32, parsePkt, parseTransport,
    u32be_be32, u16be_be16, b_toNat]

theorem parsePkt_udp (sip dip sp dp : Nat) (pl : List UInt8) :
    parsePkt (pktUdp sip dip sp dp pl) =
      some { verIhl := 0x45, ipLen := (28 + pl.length) % 65536, ttl := 200, proto := 17,
             src := sip % 4294967296, dst := dip % 4294967296,
             sport := sp % 65536, dport := dp % 65536, seq := 0,
             udpLen := (8 + pl.length) % 65536, payload := pl } := by
  simp [pktUdp, ipHdr, udpHdr, be16, be32, le16, parsePkt, parseTransport,
    u32be_be32, u16be_be16, b_toNat]

theorem pktTcp_length (sip dip sp dp seq : Nat) (pl : List UInt8) :
    (pktTcp sip dip sp dp seq pl).length = 40 + pl.length := by
  simp [pktTcp, ipHdr, tcpHdr, be16, be32, le16, le32]; omega

theorem pktUdp_length (sip dip sp dp : Nat) (pl : List UInt8) :
    (pktUdp sip dip sp dp pl).length = 28 + pl.length := by
  simp [pktUdp, ipHdr, udpHdr, be16, be32, le16]; omega

/-! ### Record level -/

theorem tsSec_lt (t : Nat) : tsSec t < 4294967296 := by unfold tsSec; omega
theorem tsUsec_lt (t : Nat) : tsUsec t < 4294967296 := by unfold tsUsec; omega

/-- A record header announcing `size` followed by a packet of exactly that many bytes
    (`size ≤ snaplen`, `size < 2^32`) decodes to that packet and leaves the rest. -/
theorem decodeRec_recHdr (snap t size : Nat) (pkt rest : List UInt8) (p : PcapDecode.Pkt)
    (hlen : pkt.length = size) (hsz : size < 4294967296) (hsnap : size ≤ snap)
    (hp : parsePkt pkt = some p) :
    decodeRec snap (recHdr t size ++ (pkt ++ rest)) =
      some ({ tsSec := tsSec t, tsUsec := tsUsec t, inclLen := size, origLen := size, pkt := p },
            rest) := by
  have hts : tsSec t % 4294967296 = tsSec t := Nat.mod_eq_of_lt (tsSec_lt t)
  have htu : tsUsec t % 4294967296 = tsUsec t := Nat.mod_eq_of_lt (tsUsec_lt t)
  have hs : size % 4294967296 = size := Nat.mod_eq_of_lt hsz
  simp only [recHdr, le32, List.cons_append, List.nil_append, decodeRec, u32le_le32, hts, htu, hs]
  rw [List.take_left' hlen, List.drop_left' hlen, hp]
  simp [hlen, hsnap]

/-- The reader rejects a record whose announced size exceeds the snap length. -/
theorem decodeRec_recHdr_oversize (snap t size : Nat) (tail : List UInt8)
    (hsz : size < 4294967296) (hsnap : snap < size) :
    decodeRec snap (recHdr t size ++ tail) = none := by
  have hs : size % 4294967296 = size := Nat.mod_eq_of_lt hsz
  simp only [recHdr, le32, List.cons_append, List.nil_append, decodeRec, u32le_le32, hs]
  have : ¬ size ≤ snap := by omega
  simp [this]

/-! ### Specification side -/

/-- Payload bytes transmitted earlier (in `pre`) by TCP sends of direction `key`. -/
def priorBytes (key : Nat × Nat) : List Send → Nat
  | [] => 0
  | s :: rest =>
    (if s.kind = .tcp ∧ s.key = key then s.payload.length else 0) + priorBytes key rest

/-- The record the property demands for send `s` whose TCP sequence number should be `seq`. -/
def expRec (seq : Nat) (s : Send) : Rec :=
  match s.kind with
  | .tcp =>
    { tsSec := (441794304 + s.t / 1000000000) % 4294967296
      tsUsec := (s.t % 1000000000) / 1000
      inclLen := 40 + s.payload.length
      origLen := 40 + s.payload.length
      pkt := { verIhl := 0x45, ipLen := 40 + s.payload.length, ttl := 200, proto := 6,
               src := s.srcIp, dst := s.dstIp, sport := s.srcPort, dport := s.dstPort,
               seq := seq, udpLen := 0, payload := s.payload } }
  | .udp =>
    { tsSec := (441794304 + s.t / 1000000000) % 4294967296
      tsUsec := (s.t % 1000000000) / 1000
      inclLen := 28 + s.payload.length
      origLen := 28 + s.payload.length
      pkt := { verIhl := 0x45, ipLen := 28 + s.payload.length, ttl := 200, proto := 17,
               src := s.srcIp, dst := s.dstIp, sport := s.srcPort, dport := s.dstPort,
               seq := 0, udpLen := 8 + s.payload.length, payload := s.payload } }

/-- Expected records for `sends` given that `pre` was sent before them: the sequence number of a
    TCP record is the initial counter of its direction plus the payload bytes previously
    transmitted in that direction, modulo 2^32. -/
def expectedFrom (init : Ctrs) (pre : List Send) : List Send → List Rec
  | [] => []
  | s :: rest =>
    expRec ((init s.key + priorBytes s.key pre) % 4294967296) s
      :: expectedFrom init (pre ++ [s]) rest

/-- Expected decode of a whole capture. -/
def expected (init : Ctrs) (sends : List Send) : List Rec := expectedFrom init [] sends

/-- Hypotheses on one send: addresses/ports in range and the packet fits an IPv4 total-length
    field. (No bound on the send time is needed: see `tsUsec_spec`.) -/
structure SendOk (s : Send) : Prop where
  srcIp : s.srcIp < 4294967296
  dstIp : s.dstIp < 4294967296
  srcPort : s.srcPort < 65536
  dstPort : s.dstPort < 65536
  tcpSize : s.kind = .tcp → s.payload.length + 40 ≤ 65535
  udpSize : s.kind = .udp → s.payload.length + 28 ≤ 65535

/-! ### Mechanism vs specification, one send -/

theorem tsSec_spec (t : Nat) : tsSec t = (441794304 + t / 1000000000) % 4294967296 := by
  unfold tsSec secs32 epoch; omega

/-- The `uint32` truncation of the seconds before they are subtracted is harmless: 2^32 s is a
    multiple of 2^32 µs, so the final `uint32` cast of the microseconds undoes it. -/
theorem tsUsec_spec (t : Nat) : tsUsec t = (t % 1000000000) / 1000 := by
  unfold tsUsec secs32; omega

theorem decodeRec_emit (c : Ctrs) (s : Send) (h : SendOk s) (rest : List UInt8) :
    decodeRec 65535 ((emit c s).1 ++ rest) = some (expRec (c s.key % 4294967296) s, rest) := by
  have ⟨h1, h2, h3, h4, h6, h7⟩ := h
  cases hk : s.kind with
  | tcp =>
    have hsz := h6 hk
    simp only [emit, hk, nextSeq, recordTcp, List.append_assoc]
    rw [decodeRec_recHdr 65535 s.t (40 + s.payload.length) _ rest _ (pktTcp_length ..)
      (by omega) (by omega) (parsePkt_tcp ..)]
    simp only [expRec, hk, tsSec_spec, tsUsec_spec s.t]
    congr 3
    simp only [PcapDecode.Pkt.mk.injEq, and_true, true_and]
    refine ⟨?_, ?_, ?_, ?_, ?_⟩ <;> omega
  | udp =>
    have hsz := h7 hk
    simp only [emit, hk, recordUdp, List.append_assoc]
    rw [decodeRec_recHdr 65535 s.t (28 + s.payload.length) _ rest _ (pktUdp_length ..)
      (by omega) (by omega) (parsePkt_udp ..)]
    simp only [expRec, hk, tsSec_spec, tsUsec_spec s.t]
    congr 3
    simp only [PcapDecode.Pkt.mk.injEq, and_true, true_and]
    refine ⟨?_, ?_, ?_, ?_, ?_, ?_⟩ <;> omega

theorem emit_ne_nil (c : Ctrs) (s : Send) : (emit c s).1 ≠ [] := by
  cases hk : s.kind <;> simp [emit, hk, recordTcp, recordUdp, recHdr, le32]

theorem decodeRecs_step (snap fuel : Nat) (bs rest : List UInt8) (r : Rec) (rs : List Rec)
    (hne : bs ≠ []) (h1 : decodeRec snap bs = some (r, rest))
    (h2 : decodeRecs snap fuel rest = some rs) :
    decodeRecs snap (fuel + 1) bs = some (r :: rs) := by
  cases bs with
  | nil => exact absurd rfl hne
  | cons x xs => simp [decodeRecs, h1, h2]

theorem priorBytes_append (key : Nat × Nat) (pre : List Send) (s : Send) :
    priorBytes key (pre ++ [s]) =
      priorBytes key pre + (if s.kind = .tcp ∧ s.key = key then s.payload.length else 0) := by
  induction pre with
  | nil => simp [priorBytes]
  | cons a l ih => simp only [List.cons_append, priorBytes, ih]; omega

/-- Counter invariant: every direction counter is congruent to its initial value plus the bytes
    transmitted so far in that direction. Preserved by `emit`. -/
theorem emit_inv (init c : Ctrs) (pre : List Send) (s : Send)
    (hinv : ∀ k, c k % 4294967296 = (init k + priorBytes k pre) % 4294967296) :
    ∀ k, (emit c s).2 k % 4294967296 = (init k + priorBytes k (pre ++ [s])) % 4294967296 := by
  intro k
  rw [priorBytes_append]
  cases hk : s.kind with
  | tcp =>
    simp only [emit, hk, nextSeq, Ctrs.set, true_and]
    by_cases hkey : k = s.key
    · subst hkey; simp only [if_true]; have := hinv s.key; omega
    · have hne : ¬ s.key = k := fun h => hkey h.symm
      simp only [hkey, hne, if_false]; have := hinv k; omega
  | udp =>
    simp only [emit, hk]
    have := hinv k
    simp [this]

theorem decodeRecs_body (init : Ctrs) (sends : List Send) :
    ∀ (c : Ctrs) (pre : List Send) (fuel : Nat),
      (∀ s ∈ sends, SendOk s) →
      (∀ k, c k % 4294967296 = (init k + priorBytes k pre) % 4294967296) →
      sends.length ≤ fuel →
      decodeRecs 65535 fuel (captureBody c sends) = some (expectedFrom init pre sends) := by
  induction sends with
  | nil => intro c pre fuel _ _ _; cases fuel <;> simp [captureBody, expectedFrom, decodeRecs]
  | cons s rest ih =>
    intro c pre fuel hok hinv hfuel
    cases fuel with
    | zero => simp at hfuel
    | succ fuel =>
      have hs : SendOk s := hok s (List.mem_cons_self ..)
      have hrest : ∀ s' ∈ rest, SendOk s' := fun s' h => hok s' (List.mem_cons_of_mem _ h)
      simp only [captureBody, expectedFrom]
      apply decodeRecs_step
      · intro h; exact emit_ne_nil c s (List.append_eq_nil_iff.mp h).1
      · rw [decodeRec_emit c s hs, hinv s.key]
      · exact ih (emit c s).2 (pre ++ [s]) fuel hrest (emit_inv init c pre s hinv)
          (by simp at hfuel; omega)

theorem captureBody_length_ge (c : Ctrs) (sends : List Send) :
    sends.length ≤ (captureBody c sends).length := by
  induction sends generalizing c with
  | nil => simp [captureBody]
  | cons s rest ih =>
    simp only [captureBody, List.length_cons, List.length_append]
    have h1 := ih (emit c s).2
    have h2 : 0 < (emit c s).1.length := List.length_pos_iff.mpr (emit_ne_nil c s)
    omega

theorem decodeFile_capture_eq (init : Ctrs) (sends : List Send) :
    decodeFile (capture init sends) =
      decodeRecs 65535 (captureBody init sends).length (captureBody init sends) := by
  simp [capture, fileHeader, le32, le16, decodeFile, u32le, u16le, b]

/-! ## Property theorems -/

/-- **C19 (well-formedness, completeness, order; round trip).** For every initial counter
    assignment and every list of sends within the size bounds, the capture file is a valid pcap
    file (raw-IP link type) that an independent reader decodes to exactly one record per send, in
    transmission order, with the expected timestamps, lengths, addresses, ports, payload and TCP
    sequence numbers. -/
theorem C19_wellformed (init : Ctrs) (sends : List Send) (hok : ∀ s ∈ sends, SendOk s) :
    decodeFile (capture init sends) = some (expected init sends) := by
  rw [decodeFile_capture_eq]
  exact decodeRecs_body init sends init [] _ hok (by simp [priorBytes])
    (captureBody_length_ge init sends)

/-! ### Corollaries about `expected` (hence, by `C19_wellformed`, about every decoded capture) -/

theorem expectedFrom_length (init : Ctrs) (pre sends : List Send) :
    (expectedFrom init pre sends).length = sends.length := by
  induction sends generalizing pre with
  | nil => rfl
  | cons s rest ih => simp [expectedFrom, ih]

/-- Exactly one record per send. -/
theorem C19_one_record_per_send (init : Ctrs) (sends : List Send) (hok : ∀ s ∈ sends, SendOk s)
    (recs : List Rec) (h : decodeFile (capture init sends) = some recs) :
    recs.length = sends.length := by
  rw [C19_wellformed init sends hok] at h
  cases h; exact expectedFrom_length ..

theorem expRec_lengths (seq : Nat) (s : Send) :
    let r := expRec seq s
    r.inclLen = r.origLen ∧ r.pkt.ipLen = r.inclLen ∧
    (r.pkt.proto = 6 → r.inclLen = 40 + r.pkt.payload.length) ∧
    (r.pkt.proto = 17 → r.inclLen = 28 + r.pkt.payload.length ∧
      r.pkt.udpLen = 8 + r.pkt.payload.length) ∧
    (r.pkt.proto = 6 ∨ r.pkt.proto = 17) := by
  cases hk : s.kind <;> simp [expRec, hk]

theorem mem_expectedFrom (init : Ctrs) (pre sends : List Send) (r : Rec)
    (h : r ∈ expectedFrom init pre sends) : ∃ seq s, s ∈ sends ∧ r = expRec seq s := by
  induction sends generalizing pre with
  | nil => simp [expectedFrom] at h
  | cons s rest ih =>
    simp only [expectedFrom, List.mem_cons] at h
    rcases h with h | h
    · exact ⟨_, s, List.mem_cons_self .., h⟩
    · obtain ⟨q, s', hs', hr⟩ := ih _ h
      exact ⟨q, s', List.mem_cons_of_mem _ hs', hr⟩

/-- **C19 (lengths match content).** In every decoded record the captured and original lengths
    agree, equal the IP total-length field, and equal header size plus payload length; the UDP
    length field is 8 + payload length. Only TCP (6) and UDP (17) records occur. -/
theorem C19_lengths (init : Ctrs) (sends : List Send) (hok : ∀ s ∈ sends, SendOk s)
    (recs : List Rec) (h : decodeFile (capture init sends) = some recs) :
    ∀ r ∈ recs,
      r.inclLen = r.origLen ∧ r.pkt.ipLen = r.inclLen ∧
      (r.pkt.proto = 6 → r.inclLen = 40 + r.pkt.payload.length) ∧
      (r.pkt.proto = 17 → r.inclLen = 28 + r.pkt.payload.length ∧
        r.pkt.udpLen = 8 + r.pkt.payload.length) ∧
      (r.pkt.proto = 6 ∨ r.pkt.proto = 17) := by
  rw [C19_wellformed init sends hok] at h
  cases h
  intro r hr
  obtain ⟨q, s, _, rfl⟩ := mem_expectedFrom _ _ _ _ hr
  exact expRec_lengths q s

theorem expectedFrom_map_of_expRec {α : Type} (f : Rec → α) (g : Send → α)
    (hfg : ∀ q s, f (expRec q s) = g s) (init : Ctrs) (pre sends : List Send) :
    (expectedFrom init pre sends).map f = sends.map g := by
  induction sends generalizing pre with
  | nil => rfl
  | cons s rest ih => simp [expectedFrom, hfg, ih]

/-- **C19 (true addresses and ports, protocol).** Record by record, in order, the IP header carries
    the send's source and destination address, the transport header its source and destination
    port, and the protocol field its kind. -/
theorem C19_addresses_ports (init : Ctrs) (sends : List Send) (hok : ∀ s ∈ sends, SendOk s)
    (recs : List Rec) (h : decodeFile (capture init sends) = some recs) :
    recs.map (fun r => (r.pkt.proto, r.pkt.src, r.pkt.dst, r.pkt.sport, r.pkt.dport)) =
      sends.map (fun s => ((match s.kind with | .tcp => 6 | .udp => 17),
        s.srcIp, s.dstIp, s.srcPort, s.dstPort)) := by
  rw [C19_wellformed init sends hok] at h
  cases h
  apply expectedFrom_map_of_expRec
  intro q s; cases hk : s.kind <;> simp [expRec, hk]

/-- **C19 (payload).** Record by record, in order, the payload bytes equal what was sent. -/
theorem C19_payload (init : Ctrs) (sends : List Send) (hok : ∀ s ∈ sends, SendOk s)
    (recs : List Rec) (h : decodeFile (capture init sends) = some recs) :
    recs.map (fun r => r.pkt.payload) = sends.map (fun s => s.payload) := by
  rw [C19_wellformed init sends hok] at h
  cases h
  apply expectedFrom_map_of_expRec
  intro q s; cases hk : s.kind <;> simp [expRec, hk]

/-- **C19 (timestamps are the virtual send times from the fixed epoch).** -/
theorem C19_timestamps (init : Ctrs) (sends : List Send) (hok : ∀ s ∈ sends, SendOk s)
    (recs : List Rec) (h : decodeFile (capture init sends) = some recs) :
    recs.map (fun r => (r.tsSec, r.tsUsec)) =
      sends.map (fun s => ((441794304 + s.t / 1000000000) % 4294967296,
        (s.t % 1000000000) / 1000)) := by
  rw [C19_wellformed init sends hok] at h
  cases h
  apply expectedFrom_map_of_expRec
  intro q s; cases hk : s.kind <;> simp [expRec, hk]

/-- Lexicographic order on (seconds, microseconds). -/
def tsLe (a b : Nat × Nat) : Prop := a.1 < b.1 ∨ (a.1 = b.1 ∧ a.2 ≤ b.2)

/-- **C19 (time-ordered).** If send times are non-decreasing and every send happens before the
    32-bit pcap seconds field wraps (`441794304 + t/10^9 < 2^32`, about 122 years of virtual
    time), the decoded (ts_sec, ts_usec) pairs are lexicographically non-decreasing (for every
    pair of records, hence in particular for adjacent ones). -/
theorem C19_time_monotone (init : Ctrs) (sends : List Send) (hok : ∀ s ∈ sends, SendOk s)
    (hmono : sends.Pairwise (fun a b => a.t ≤ b.t))
    (hnowrap : ∀ s ∈ sends, 441794304 + s.t / 1000000000 < 4294967296)
    (recs : List Rec) (h : decodeFile (capture init sends) = some recs) :
    (recs.map (fun r => (r.tsSec, r.tsUsec))).Pairwise tsLe := by
  rw [C19_timestamps init sends hok recs h, List.pairwise_map]
  have hmono' : sends.Pairwise (fun a b => a.t ≤ b.t ∧
      441794304 + a.t / 1000000000 < 4294967296 ∧ 441794304 + b.t / 1000000000 < 4294967296) := by
    rw [List.pairwise_iff_forall_sublist] at hmono ⊢
    intro a b hab
    have hsub := hab.subset
    exact ⟨hmono hab, hnowrap a (hsub (by simp)), hnowrap b (hsub (by simp))⟩
  refine hmono'.imp ?_
  intro a b ⟨hab, ha, hb⟩
  simp only [tsLe]
  omega

/-! ### Sequence numbers -/

theorem expectedFrom_getElem (init : Ctrs) (pre sends : List Send) (i : Nat)
    (hi : i < sends.length) :
    (expectedFrom init pre sends)[i]'(by rw [expectedFrom_length]; exact hi) =
      expRec ((init sends[i].key + priorBytes sends[i].key (pre ++ sends.take i)) % 4294967296)
        sends[i] := by
  induction sends generalizing pre i with
  | nil => simp at hi
  | cons s rest ih =>
    cases i with
    | zero => simp [expectedFrom]
    | succ j =>
      simp only [expectedFrom, List.getElem_cons_succ, List.take_succ_cons]
      rw [ih (pre ++ [s]) j (by simpa using hi)]
      simp

theorem expRec_seq_tcp (q : Nat) (s : Send) (hk : s.kind = .tcp) : (expRec q s).pkt.seq = q := by
  simp [expRec, hk]

/-- Sequence numbers for an arbitrary initial counter assignment (covers the pinned tree). -/
theorem C19_seq_general (init : Ctrs) (sends : List Send) (hok : ∀ s ∈ sends, SendOk s)
    (recs : List Rec) (h : decodeFile (capture init sends) = some recs)
    (i : Nat) (hi : i < sends.length) (htcp : sends[i].kind = .tcp) :
    ∃ hr : i < recs.length,
      recs[i].pkt.seq =
        (init sends[i].key + priorBytes sends[i].key (sends.take i)) % 4294967296 := by
  rw [C19_wellformed init sends hok] at h
  cases h
  refine ⟨by rw [expected, expectedFrom_length]; exact hi, ?_⟩
  simp only [expected]
  rw [expectedFrom_getElem init [] sends i hi, expRec_seq_tcp _ _ htcp]
  simp

/-- **C19 (sequence numbers; repaired tree).** With zero-initialised counters, the sequence number
    of the i-th record, if it is TCP, equals the payload bytes previously transmitted (by earlier
    TCP sends) in the same direction of the same connection, modulo 2^32. -/
theorem C19_seq (sends : List Send) (hok : ∀ s ∈ sends, SendOk s)
    (recs : List Rec) (h : decodeFile (capture zeroInit sends) = some recs)
    (i : Nat) (hi : i < sends.length) (htcp : sends[i].kind = .tcp) :
    ∃ hr : i < recs.length,
      recs[i].pkt.seq = priorBytes sends[i].key (sends.take i) % 4294967296 := by
  obtain ⟨hr, hseq⟩ := C19_seq_general zeroInit sends hok recs h i hi htcp
  exact ⟨hr, by rw [hseq]; simp [zeroInit]⟩

theorem priorBytes_eq_zero (key : Nat × Nat) (l : List Send)
    (h : ∀ s ∈ l, ¬ (s.kind = .tcp ∧ s.key = key)) : priorBytes key l = 0 := by
  induction l with
  | nil => rfl
  | cons a l ih =>
    have ha := h a (List.mem_cons_self ..)
    simp only [priorBytes, ha, if_false, Nat.zero_add]
    exact ih (fun s hs => h s (List.mem_cons_of_mem _ hs))

/-- **C19 (sequence numbers start at zero; repaired tree).** The first TCP record of each
    direction of each connection has sequence number 0. -/
theorem C19_seq_starts_at_zero (sends : List Send) (hok : ∀ s ∈ sends, SendOk s)
    (recs : List Rec) (h : decodeFile (capture zeroInit sends) = some recs)
    (i : Nat) (hi : i < sends.length) (htcp : sends[i].kind = .tcp)
    (hfirst : ∀ s ∈ sends.take i, ¬ (s.kind = .tcp ∧ s.key = sends[i].key)) :
    ∃ hr : i < recs.length, recs[i].pkt.seq = 0 := by
  obtain ⟨hr, hseq⟩ := C19_seq sends hok recs h i hi htcp
  exact ⟨hr, by rw [hseq, priorBytes_eq_zero _ _ hfirst]⟩

/-! ### The pinned tree's defect: `channel::bytes_sent` is uninitialised -/

/-- The value ASan's malloc fill leaves in the uninitialised `bytes_sent` slots. -/
def poisonInit : Ctrs := fun _ => 0xbebebebe

def witnessSend : Send :=
  { kind := .tcp, t := 0, srcIp := 0x0a000001, dstIp := 0x0a000002, srcPort := 1000,
    dstPort := 2000, conn := 0, dir := 0, payload := [1, 2, 3] }

/-- **As-is (pinned tree).** The first sequence number of a direction is whatever the counter
    happened to contain: with a non-zero initial counter the first record's sequence number is
    not 0, so `C19_seq_starts_at_zero` fails for the pinned tree. -/
theorem C19_asis_seq_depends_on_init :
    (decodeFile (capture poisonInit [witnessSend])).map (fun rs => rs.map (fun r => r.pkt.seq))
      = some [0xbebebebe] ∧
    (decodeFile (capture zeroInit [witnessSend])).map (fun rs => rs.map (fun r => r.pkt.seq))
      = some [0] := by
  decide

/-! ### Boundaries of the hypotheses -/

/-- **Boundary (oversize datagram).** `udp::socket::send_to` accepts payloads up to 65535 bytes,
    but an IPv4 datagram with a UDP header can carry at most 65507. For larger payloads the model
    (and the code) truncates the 16-bit IP total-length and UDP length fields … -/
theorem C19_oversize_length_fields_wrap (sip dip sp dp : Nat) (pl : List UInt8)
    (h : 65507 < pl.length) (h2 : pl.length ≤ 65535) :
    ∃ p, parsePkt (pktUdp sip dip sp dp pl) = some p ∧
      p.ipLen = pl.length - 65508 ∧ p.udpLen = (8 + pl.length) % 65536 ∧
      p.ipLen ≠ 28 + p.payload.length := by
  refine ⟨_, parsePkt_udp .., ?_, ?_, ?_⟩ <;> simp only <;> omega

/-- … and the record's captured length exceeds the file's snap length (65535), so the capture is
    not a valid pcap file: the reader rejects it. -/
theorem C19_oversize_udp_rejected (init : Ctrs) (s : Send) (rest : List Send)
    (hk : s.kind = .udp) (h : 65507 < s.payload.length) (h2 : s.payload.length ≤ 65535) :
    decodeFile (capture init (s :: rest)) = none := by
  rw [decodeFile_capture_eq]
  have hne : captureBody init (s :: rest) ≠ [] := by
    simp only [captureBody]
    intro h; exact emit_ne_nil init s (List.append_eq_nil_iff.mp h).1
  have hrec : decodeRec 65535 (captureBody init (s :: rest)) = none := by
    simp only [captureBody, emit, hk, recordUdp, List.append_assoc]
    exact decodeRec_recHdr_oversize 65535 s.t _ _ (by omega) (by omega)
  cases hb : captureBody init (s :: rest) with
  | nil => exact absurd hb hne
  | cons x xs =>
    rw [hb] at hrec
    simp [decodeRecs, hrec]

/-- **Boundary (time).** The microsecond field is always below 10^6, for every send time, even
    beyond 2^32 seconds of virtual time where the seconds field has wrapped. -/
theorem C19_usec_lt (t : Nat) : tsUsec t < 1000000 := by
  rw [tsUsec_spec]; omega

/-- **Boundary (time order).** The `hnowrap` hypothesis of `C19_time_monotone` is needed: one
    second after virtual time `2^32 - 441794304 - 1` s the 32-bit seconds field wraps to 0. -/
theorem C19_time_wraps_after_epoch_range :
    tsSec (3853172991 * 1000000000) = 4294967295 ∧ tsSec (3853172992 * 1000000000) = 0 := by
  decide

/-! ### Non-vacuity: a concrete capture decoded by evaluation -/

def exSends : List Send :=
  [ { kind := .tcp, t := 1500000000, srcIp := 0x0a000001, dstIp := 0x0a000002, srcPort := 1000,
      dstPort := 2000, conn := 7, dir := 0, payload := [0xde, 0xad, 0xbe] },
    { kind := .udp, t := 1500001999, srcIp := 0xc0a80001, dstIp := 0x08080808, srcPort := 53,
      dstPort := 5353, payload := [0x42] },
    { kind := .tcp, t := 2000000000, srcIp := 0x0a000002, dstIp := 0x0a000001, srcPort := 2000,
      dstPort := 1000, conn := 7, dir := 1, payload := [0x01, 0x02] },
    { kind := .tcp, t := 2000000000, srcIp := 0x0a000001, dstIp := 0x0a000002, srcPort := 1000,
      dstPort := 2000, conn := 7, dir := 0, payload := [] } ]

set_option maxRecDepth 100000 in
example :
    decodeFile (capture zeroInit exSends) = some
      [ { tsSec := 441794305, tsUsec := 500000, inclLen := 43, origLen := 43,
          pkt := { verIhl := 0x45, ipLen := 43, ttl := 200, proto := 6, src := 0x0a000001,
                   dst := 0x0a000002, sport := 1000, dport := 2000, seq := 0, udpLen := 0,
                   payload := [0xde, 0xad, 0xbe] } },
        { tsSec := 441794305, tsUsec := 500001, inclLen := 29, origLen := 29,
          pkt := { verIhl := 0x45, ipLen := 29, ttl := 200, proto := 17, src := 0xc0a80001,
                   dst := 0x08080808, sport := 53, dport := 5353, seq := 0, udpLen := 9,
                   payload := [0x42] } },
        { tsSec := 441794306, tsUsec := 0, inclLen := 42, origLen := 42,
          pkt := { verIhl := 0x45, ipLen := 42, ttl := 200, proto := 6, src := 0x0a000002,
                   dst := 0x0a000001, sport := 2000, dport := 1000, seq := 0, udpLen := 0,
                   payload := [0x01, 0x02] } },
        { tsSec := 441794306, tsUsec := 0, inclLen := 40, origLen := 40,
          pkt := { verIhl := 0x45, ipLen := 40, ttl := 200, proto := 6, src := 0x0a000001,
                   dst := 0x0a000002, sport := 1000, dport := 2000, seq := 3, udpLen := 0,
                   payload := [] } } ] := by
  decide

/-- The hypotheses of the theorems are satisfiable by that capture. -/
example : ∀ s ∈ exSends, SendOk s := by
  intro s hs
  simp only [exSends, List.mem_cons, List.not_mem_nil, or_false] at hs
  rcases hs with rfl | rfl | rfl | rfl <;> constructor <;> simp

/-- The file header is 24 bytes and the reader accepts an empty capture. -/
example : fileHeader.length = 24 ∧ decodeFile (capture zeroInit []) = some [] := by decide

end SimVerif.Pcap

/-! # Which sends reach the capture: the socket models' capture sites

  Above, the capture is a function of a list of *sends*. Below: that the mechanism models of
  the sockets (SimVerif/Tcp.lean, SimVerif/Net.lean) emit exactly one capture record
  (`NEff.pcapTcp` / `NEff.pcapUdp`; the world driver turns it into `Pcap.recordTcp/recordUdp`
  bytes, Drv/Kernel.lean) per packet they put on the wire through `send_packet` / `send_to`,
  with the right fields — function by function, and then over every history of the open
  stream system `TS` (SimVerif/StreamSys.lean).

  Captured in the C++ (`log_tcp` is called only in `tcp::socket::send_packet`,
  tcp_socket.cpp:762-779; `log_udp` only in `udp::socket::send_to_impl`, udp_socket.cpp:474):
    * payload segments (`write_some_impl`, tcp_socket.cpp:543),
    * retransmissions (the ACK path's loop, tcp_socket.cpp:854),
    * the end-of-stream marker of `close()` (tcp_socket.cpp:225),
    * UDP datagrams that are actually forwarded.
  NOT captured (they go through `forward_packet` directly): SYN (simulation.cpp:338), SYN-ACK
  (acceptor.cpp:359), the RST of a closed acceptor's queue (acceptor.cpp:301), ACKs
  (tcp_socket.cpp:900). The model does the same: those are bare `.forward` effects of
  `internalConnect`, `accCheckQueue`, `tcpIncoming`.
  Record fields, C++ vs model: time = `now` of the call; source address = `m_bound_to`
  (= `s.bound`); source port = `p.from.port()` in the C++, `s.bound.port` in the model — equal,
  because `from` is set from `m_bound_to` when the packet is built and a NAT hop rewrites only
  its address (nat.cpp:33); destination = `m_channel->ep[remote]`, the peer's REAL endpoint as
  stored in the channel, not `visible_ep` (= `ch.ep (ch.remoteIdx s.bound)`); sequence number =
  `p.byte_counter` = `bytes_sent[self_idx]` BEFORE this send; the counter then grows by the
  payload size in `uint32` arithmetic, for every transmission — a retransmitted segment gets a
  NEW, larger sequence number and its bytes count again. -/

namespace SimVerif

/-! ## 1. TCP, function level -/

/-- **`send_packet(p)` on a connected socket** (every state, every packet). The effect list is
    exactly: the capture record iff capturing, immediately followed by the forward of `p`
    stamped with the byte counter. Record: `t = now`, `src = s.bound`, `dst` = the peer's
    channel endpoint, `seq` = the direction's byte counter before the send, `payload` = the
    packet's. The direction's counter grows by the payload length (mod 2^32); the other
    direction's counter and the channel's endpoints are untouched. With `pcap = false` the same
    forward, no record. -/
theorem C19_tcp_send_packet (n : NetSt) (now : Int) (name : String) (p : Pkt) (s : TcpSock) (cid : Nat) (ch : Chan)
    (hs : n.tcp? name = some s) (hc : s.chan = some cid) (hch : n.chan? cid = some ch) :
    (n.tcpSendPacket now name p).2 =
      (if n.cfg.pcap then [NEff.pcapTcp now s.bound (ch.ep (ch.remoteIdx s.bound))
                            (ch.sent (ch.selfIdx s.bound)) p.payload] else [])
        ++ [.forward { p with bc := ch.sent (ch.selfIdx s.bound) }]
    ∧ ∃ ch', (n.tcpSendPacket now name p).1.chan? cid = some ch'
        ∧ ch'.sent (ch.selfIdx s.bound) = (ch.sent (ch.selfIdx s.bound) + p.payload.length) % 4294967296
        ∧ ch'.sent (1 - ch.selfIdx s.bound) = ch.sent (1 - ch.selfIdx s.bound)
        ∧ ch'.ep0 = ch.ep0 ∧ ch'.ep1 = ch.ep1 := by
  rw [tcpSendPacket_conn n now name p s cid ch hs hc hch]
  refine ⟨rfl, ch.bump (ch.selfIdx s.bound) p.payload.length, ?_, Chan.bump_sent_same _ _ _, ?_,
    Chan.bump_ep0 _ _ _, Chan.bump_ep1 _ _ _⟩
  · show (n.setChan cid (ch.bump (ch.selfIdx s.bound) p.payload.length)).chan? cid = _
    unfold NetSt.chan? NetSt.setChan
    unfold NetSt.chan? at hch
    simp [List.getElem?_mapIdx, hch]
  · rcases Chan.selfIdx_le ch s.bound with h | h <;> rw [h] <;>
      exact Chan.bump_sent_other _ _ _ _ (by simp) (by simp) (by simp)

/-- … and without a socket object, a channel, or with a dangling channel id `send_packet` does
    nothing at all: no record, no packet (in the C++ a null `m_channel` here is a crash,
    Props/C12) -/
theorem C19_tcp_send_packet_detached (n : NetSt) (now : Int) (name : String) (p : Pkt)
    (h : ((n.tcp? name).bind (·.chan)).bind n.chan? = none) : n.tcpSendPacket now name p = (n, []) :=
  tcpSendPacket_detached n now name p h

/-- **Payload segments** (`write_some_impl`'s loop body): one record right before the one
    packet, whose payload is the segment. -/
theorem C19_tcp_segment (n : NetSt) (now : Int) (name : String) (hops : List String) (seg : List UInt8)
    (s : TcpSock) (cid : Nat) (ch : Chan)
    (hs : n.tcp? name = some s) (hc : s.chan = some cid) (hch : n.chan? cid = some ch) :
    (n.tcpSendSeg now name hops seg).2 =
      (if n.cfg.pcap then [NEff.pcapTcp now s.bound (ch.ep (ch.remoteIdx s.bound))
                            (ch.sent (ch.selfIdx s.bound)) seg] else [])
        ++ [.forward { id := s.nextOut, ty := .payload, len := seg.length, ovh := 40, hops := hops,
                       src := s.bound.toString, payload := seg, hasDrop := true, dropFwd := s.fwd,
                       bc := ch.sent (ch.selfIdx s.bound) }] := by
  rw [tcpSendSeg_eq n now name hops seg s hs,
    tcpSendPacket_conn (n.setTcp name { s with nextOut := s.nextOut + 1 }) now name (segPkt s hops seg)
      { s with nextOut := s.nextOut + 1 } cid ch (tcp?_setTcp_same _ _ _) hc hch]
  rfl

/-- **Retransmissions** (the ACK path's loop): when the head of the retransmission list is
    sent, one record right before the one packet; the record carries the CURRENT byte counter
    (not the one of the first transmission) and the packet's bytes. -/
theorem C19_tcp_retransmission (n : NetSt) (now : Int) (name : String) (s : TcpSock) (cid : Nat) (ch : Chan)
    (r : NetSt × List NEff)
    (hs : n.tcp? name = some s) (hc : s.chan = some cid) (hch : n.chan? cid = some ch)
    (h : n.tcpResendOne now name = some r) :
    ∃ p rest, s.resend = p :: rest ∧
      r.2 = (if n.cfg.pcap then [NEff.pcapTcp now s.bound (ch.ep (ch.remoteIdx s.bound))
                                  (ch.sent (ch.selfIdx s.bound)) p.payload] else [])
              ++ [.forward { p with bc := ch.sent (ch.selfIdx s.bound) }] := by
  rw [tcpResendOne_eq n now name s hs] at h
  split at h
  · cases h
  · rename_i p rest hr
    split at h
    · cases h
    · split at h
      · cases h
        refine ⟨p, rest, hr, ?_⟩
        rw [tcpSendPacket_conn (n.setTcp name { s with resend := rest }) now name p
          { s with resend := rest } cid ch (tcp?_setTcp_same _ _ _) hc hch]
        rfl
      · cases h

/-- **The closing segment** (`close()` on an established connection): the end-of-stream marker
    goes through `send_packet`, so: one record with an empty payload right before it, then
    only completions (the aborted operations). No route / connect still pending: nothing. -/
theorem C19_tcp_close (n : NetSt) (now : Int) (name : String) (s : TcpSock) (cid : Nat) (ch : Chan)
    (hs : n.tcp? name = some s) (hc : s.chan = some cid) (hch : n.chan? cid = some ch) :
    ∃ e1, capsTcp e1 = [] ∧ capsUdp e1 = [] ∧ s5_fwdsOf e1 = [] ∧
      (n.tcpClose now name).2 =
        (if !(ch.hops (ch.remoteIdx s.bound)).isEmpty && s.connectH.isNone then
          (if n.cfg.pcap then [NEff.pcapTcp now s.bound (ch.ep (ch.remoteIdx s.bound))
                                (ch.sent (ch.selfIdx s.bound)) []] else [])
            ++ [.forward { id := s.nextOut, ty := .err, ec := .eof, len := 0, ovh := 40,
                           hops := ch.hops (ch.remoteIdx s.bound), src := s.bound.toString,
                           bc := ch.sent (ch.selfIdx s.bound) }]
         else []) ++ e1 := by
  rw [tcpClose_eq n now name s hs]
  obtain ⟨⟨s1, hs1⟩, _⟩ := closeHead_spec n now name s hs
  obtain ⟨n2, s', e1, he, hq, _⟩ := closeTail_eq (closeHead n now name s).1 name (closeHead n now name s).2 s1 hs1
  refine ⟨e1, hq.1, hq.2.1, hq.2.2, ?_⟩
  rw [he, closeHead_eq n now name s cid ch hc hch]
  dsimp only
  congr 1
  split
  · rw [tcpSendPacket_conn (n.setTcp name { s with nextOut := s.nextOut + 1 }) now name
      (eofPkt s (ch.hops (ch.remoteIdx s.bound))) { s with nextOut := s.nextOut + 1 } cid ch
      (tcp?_setTcp_same _ _ _) hc hch]
    rfl
  · rfl

/-- **Not captured**: `incoming_packet` (whatever arrives, in whatever state) emits no record —
    its ACKs go out through `forward_packet` directly —, nor do the reader's API functions and
    the rest of the writer's. -/
theorem C19_tcp_not_captured (tp : TParams) (n : NetSt) (now : Int) (name : String) :
    (∀ p, capsTcp (n.tcpIncoming tp now name p).2 = [])
    ∧ (∀ op, capsTcp (n.tcpAsyncRead name op).2 = [])
    ∧ (∀ h, capsTcp (n.tcpWaitRead name h).2 = [])
    ∧ (∀ op, capsTcp (n.tcpAsyncWrite name op).2 = [])
    ∧ (∀ op r, capsTcp (n.tcpWriteFinish name op r).2 = [])
    ∧ (∀ target, capsTcp (n.internalConnect name target).2.1 = []) := by
  refine ⟨fun p => (noCap_tcpIncoming tp n now name p).1, fun op => (noCap_tcpAsyncRead n name op).1,
    fun h => (noCap_tcpWaitRead n name h).1, fun op => (noCap_tcpAsyncWrite n name op).1.1,
    fun op r => (quiet_tcpWriteFinish n name op r).1, ?_⟩
  intro target
  unfold NetSt.internalConnect
  repeat' split
  all_goals rfl

/-- **Every TCP function through which a packet can reach `send_packet`** — `send_packet`
    itself, the segmentation step, the retransmission step, `close()`, and everything that
    calls `close()`: `open()`, `async_connect` (opens a closed socket first), the acceptor's
    `internal_connect` (`tcpAttach`: re-opens the socket accepted into), `check_accept_queue`,
    the acceptor's `incoming_packet`, `async_accept` (closes an open peer socket first),
    `acceptor::close` — and `incoming_packet` of a socket: in EVERY state the effect list is a
    sequence of blocks (`CapBlocks`, SimVerif/Lemmas/PcapBlocks.lean), each of which is a
    non-packet effect, or a packet forwarded directly that is a SYN / SYN-ACK / ACK / RST, or
    a `send_packet` block = the record iff capturing, immediately followed by its packet.
    (The direct forwards are exactly the C++ `forward_packet` call sites outside
    `send_packet`: simulation.cpp:338, acceptor.cpp:301, acceptor.cpp:359, tcp_socket.cpp:900.) -/
theorem C19_tcp_effect_shape (n : NetSt) (now : Int) (name : String) :
    (∀ p, CapBlocks n.cfg.pcap now (n.tcpSendPacket now name p).2)
    ∧ (∀ hops seg, CapBlocks n.cfg.pcap now (n.tcpSendSeg now name hops seg).2)
    ∧ (∀ r, n.tcpResendOne now name = some r → CapBlocks n.cfg.pcap now r.2)
    ∧ CapBlocks n.cfg.pcap now (n.tcpClose now name).2
    ∧ (∀ v4, CapBlocks n.cfg.pcap now (n.tcpOpen now name v4).2)
    ∧ (∀ target h, CapBlocks n.cfg.pcap now (n.tcpConnect now name target h).2)
    ∧ (∀ ep cid, CapBlocks n.cfg.pcap now (n.tcpAttach now name ep cid).2)
    ∧ CapBlocks n.cfg.pcap now (n.accCheckQueue now name).2
    ∧ (∀ p, CapBlocks n.cfg.pcap now (n.accIncoming now name p).2)
    ∧ (∀ op, CapBlocks n.cfg.pcap now (n.accAsyncAccept now name op).2)
    ∧ CapBlocks n.cfg.pcap now (n.accClose now name).2
    ∧ (∀ tp p, CapBlocks n.cfg.pcap now (n.tcpIncoming tp now name p).2) :=
  ⟨fun p => capBlocks_sendPacket n _ rfl now name p,
   fun hops seg => capBlocks_sendSeg n _ rfl now name hops seg,
   fun r h => capBlocks_resendOne n _ rfl now name r h,
   capBlocks_close n _ rfl now name,
   fun v4 => capBlocks_open n _ rfl now name v4,
   fun target h => capBlocks_connect n _ rfl now name target h,
   fun ep cid => capBlocks_attach n _ rfl now name ep cid,
   capBlocks_accCheckQueue n _ rfl now name,
   fun p => capBlocks_accIncoming n _ rfl now name p,
   fun op => capBlocks_accAsyncAccept n _ rfl now name op,
   capBlocks_accClose n _ rfl now name,
   fun tp p => capBlocks_tcpIncoming _ tp n now name p⟩

/-- **What the block shape says**, for any effect list of that shape: (i) every record is
    immediately followed by a packet, carries the time of the call, that packet's payload, and
    the sequence number the packet is stamped with, and occurs only when capturing; (ii) when
    capturing, every packet NOT immediately preceded by a record is a SYN, SYN-ACK, ACK or RST;
    (iii) with capture off there is no record; (iv) never more records than packets. So: exactly
    one record per packet that is not one of those four kinds, right before it. -/
theorem C19_tcp_shape_meaning (pcap : Bool) (now : Int) (l : List NEff) (h : CapBlocks pcap now l) :
    RecThenPkt pcap now l ∧ BarePkts pcap false l ∧ (pcap = false → capsTcp l = [])
    ∧ (capsTcp l).length ≤ (s5_fwdsOf l).length :=
  ⟨h.recThenPkt, h.barePkts, fun hp => by subst hp; exact h.no_record_when_off, h.records_le_packets⟩

/-! ## 2. UDP, function level -/

/-- **`send_to`** (every state, every argument): either nothing is forwarded and nothing is
    captured (no such socket, failed implicit bind, empty datagram, more than 65535 bytes,
    don't-fragment above the path MTU, pacing queue full, nothing bound at the destination —
    the rows of `C08_send_errors`), or the effect list is: completions/timer effects of
    `abort_send_handlers()` (`e0`: no record, no packet), then the capture record iff capturing,
    immediately followed by the forward of the one datagram. Record: `t = now`, `src` = the
    sender's bound endpoint (after the implicit bind), `dst` = the destination the caller gave
    (UDP has no channel: the C++ logs `dst` as passed), `payload` = the caller's bytes = the
    packet's payload; the packet's source is the same endpoint. -/
theorem C19_udp_send_to (n : NetSt) (now : Int) (name : String) (dst : Ep) (payload : List UInt8) :
    (fwdsOf (n.udpSendTo now name dst payload).2.1 = [] ∧ capsUdp (n.udpSendTo now name dst payload).2.1 = []
      ∧ capsTcp (n.udpSendTo now name dst payload).2.1 = [])
    ∨ ∃ (u : UdpSock) (hops : List String) (e0 : List NEff),
        fwdsOf e0 = [] ∧ capsUdp e0 = [] ∧ capsTcp e0 = []
        ∧ (n.udpSendTo now name dst payload).2.1 =
            e0 ++ (if n.cfg.pcap then [NEff.pcapUdp now u.bound dst payload] else [])
               ++ [.forward (sendPkt u.bound hops payload)]
        ∧ (sendPkt u.bound hops payload).payload = payload
        ∧ (sendPkt u.bound hops payload).src = u.bound.toString
        ∧ 0 < payload.length ∧ payload.length ≤ 65535
        ∧ (n.udpSendTo now name dst payload).2.2 = (.ok, payload.length) := by
  have hab : ∀ u0 : UdpSock, fwdsOf (u0.abortSend name).2 = [] ∧ capsUdp (u0.abortSend name).2 = []
      ∧ capsTcp (u0.abortSend name).2 = [] := by
    intro u0; unfold UdpSock.abortSend; cases u0.waitSendH <;> exact ⟨rfl, rfl, rfl⟩
  cases hu : n.udp? name with
  | none => left; rw [udpSendTo_none n now name dst payload hu]; exact ⟨rfl, rfl, rfl⟩
  | some u0 =>
    rw [udpSendTo_eq n now name dst payload u0 hu]
    have hcfg : (if u0.bound.isDefault then (n.setUdp name { u0 with waitSendH := none }).udpBind name {}
          else (n.setUdp name { u0 with waitSendH := none }, Ec.ok)).1.cfg = n.cfg := by
      split
      · exact (udpBind_ctlStep _ name {}).cfg
      · rfl
    generalize (if u0.bound.isDefault then (n.setUdp name { u0 with waitSendH := none }).udpBind name {}
          else (n.setUdp name { u0 with waitSendH := none }, Ec.ok)) = rb at hcfg ⊢
    rcases udpSendTail_total rb.1 (u0.abortSend name).2 rb.2 now name dst payload
      with ⟨e, _⟩ | ⟨u, hops, hu1, _, h0, h1, hr, e⟩
    · left; rw [e]; exact hab u0
    · right
      refine ⟨u, hops, (u0.abortSend name).2, (hab u0).1, (hab u0).2.1, (hab u0).2.2, ?_, rfl, rfl, h0, h1, ?_⟩
      · rw [e, hcfg]
      · rw [e]

/-! ## 3. System level: every history of the open stream system

  `TS` (SimVerif/StreamSys.lean; one direction of one established connection, adversarial
  network: any delay, reordering, drops with retransmission, any API interleaving) discards the
  capture effects. `CS` (SimVerif/Lemmas/PcapSites.lean) wraps it WITHOUT changing it
  (`C19_stream_same_system`): `CS.step` runs `TS.step` and appends to two ghost logs —
  `log`: the `pcapTcp` effects of all effect lists of the step, in emission order (the capture
  log), `wire`: the packets forwarded by the writer's functions in that step, with the step's
  time. The effect lists are re-collected by `TS.effs = TS.effsA ++ TS.effsB`, which follow
  `TS.step` case by case and call the same mechanism functions on the same states;
  `C19_stream_effects_are_the_steps` ties them to what `TS.step` does: the bag grows by exactly
  their forwards (so `wire` is exactly what the writer put into the bag, in order) and the
  completion log by exactly their completions.

  Start state: ANY network state `n` in which the writer is connected (`ConnAt`: it holds an
  existing channel `k.cid`, is bound to `k.src`, sits at index `k.idx`, the peer's channel
  endpoint is `k.dst`, its direction's byte counter is `k.init`) and the capture switch is
  `k.pcap`. `k.init` is arbitrary: 0 is the repaired tree (`bytes_sent{0,0}`), any other value
  the pinned tree's uninitialised counter (F1). -/

theorem C19_stream_same_system (c : TcpCfg) (n : NetSt) (ls : List TLbl) :
    (CS.run c (CS.init c n) ls).ts = TS.run c (TS.init c n) ls := CS.init_run_ts c n ls

/-- **The re-collected effect lists are the ones `TS.step` interprets.** For every state and
    label: the bag after the step is the bag before minus the element delivered / dropped (if
    any) plus exactly the forwards of `effsA` (the writer's: these are the step's `wire`
    entries) then of `effsB` (the reader's), in order; the completion log grows by exactly the
    completions of `effs`. -/
theorem C19_stream_effects_are_the_steps (c : TcpCfg) (s : CS) (l : TLbl) :
    ∃ b0, (b0 = s.ts.bag ∨ ∃ i, b0 = s.ts.bag.eraseIdx i)
      ∧ (s.step c l).ts.bag = b0 ++ ((s.step c l).wire.drop s.wire.length).map (·.2) ++ s5_fwdsOf (s.ts.effsB c l)
      ∧ (s.step c l).ts.posts = s.ts.posts ++ postsOf (s.ts.effs c l)
      ∧ (s.step c l).log = s.log ++ capsTcp (s.ts.effs c l)
      ∧ capsTcp (s.ts.effsB c l) = [] := by
  obtain ⟨b0, h0, h1, h2⟩ := TS.step_emits c s.ts l
  refine ⟨b0, h0, ?_, h2, rfl, (TS.noCap_effsB c s.ts l).1⟩
  show (s.ts.step c l).bag = b0 ++ ((s.wire ++ _).drop s.wire.length).map (·.2) ++ _
  rw [List.drop_left, List.map_map, h1, TS.effs, s5_fwdsOf_append, List.append_assoc]
  congr 2
  simp [Function.comp_def]

/-- **(a) One record per packet the writer puts on the wire, in the same order —
    retransmissions and the closing segment included —, with the right fields.** Over every
    history: with capture on, the capture log is the wire log mapped record by record:
    `t` = the time of the step that sent the packet, `src` = the writer's bound endpoint,
    `dst` = the peer's endpoint in the channel (real, not NAT-visible), `seq` = the byte counter
    the packet was stamped with (`bc`), `payload` = the packet's payload. With capture off the
    log is empty (and the wire log — hence the bag — is what it is with capture on: the switch
    is not an input of anything but the record, `C19_tcp_send_packet`). -/
theorem C19_stream_one_record_per_packet (c : TcpCfg) (n : NetSt) (hne : c.a ≠ c.b) (k : CapKey)
    (hk : ConnAt n c.a k.cid k.idx k.src k.dst k.init) (hp : n.cfg.pcap = k.pcap) (ls : List TLbl) :
    (CS.run c (CS.init c n) ls).log =
      if k.pcap then (CS.run c (CS.init c n) ls).wire.map
        (fun e => ({ t := e.1, src := k.src, dst := k.dst, seq := e.2.bc, payload := e.2.payload } : CapT))
      else [] :=
  (CS.capOk_run c hne k ls _ (capOk_init c n k hk hp)).log

/-- **(b) Sequence numbers.** Over every history: every packet on the wire is stamped with the
    value the direction's byte counter had when it was sent (`WireSeq`), so record `i`'s
    sequence number is the start value plus the payload bytes of ALL records before it in that
    direction, modulo 2^32. Retransmitted bytes count again, as in the C++ (`bytes_sent[idx] +=
    size` runs in `send_packet` for every transmission): a retransmission carries a new, larger
    number, not the one of the first transmission. -/
theorem C19_stream_seq_general (c : TcpCfg) (n : NetSt) (hne : c.a ≠ c.b) (k : CapKey)
    (hk : ConnAt n c.a k.cid k.idx k.src k.dst k.init) (hp : n.cfg.pcap = k.pcap) (hpc : k.pcap = true)
    (hinit : k.init < 4294967296) (ls : List TLbl)
    (i : Nat) (hi : i < (CS.run c (CS.init c n) ls).log.length) :
    (CS.run c (CS.init c n) ls).log[i].seq =
      (k.init + (((CS.run c (CS.init c n) ls).log.take i).map (fun r => r.payload.length)).sum) % 4294967296 := by
  have hI := CS.capOk_run c hne k ls _ (capOk_init c n k hk hp)
  have hs : CapSeq k.init (CS.run c (CS.init c n) ls).log := by
    rw [hI.log, hpc]; exact capSeq_of_wireSeq k _ _ hI.seq
  exact capSeq_getElem k.init hinit _ hs i hi

/-- **(b), repaired tree**: counters start at 0, so the first record of the direction has
    sequence number 0 and record `i` the payload bytes previously transmitted, mod 2^32. -/
theorem C19_stream_seq (c : TcpCfg) (n : NetSt) (hne : c.a ≠ c.b) (k : CapKey)
    (hk : ConnAt n c.a k.cid k.idx k.src k.dst k.init) (hp : n.cfg.pcap = k.pcap) (hpc : k.pcap = true)
    (hinit : k.init = 0) (ls : List TLbl)
    (i : Nat) (hi : i < (CS.run c (CS.init c n) ls).log.length) :
    (CS.run c (CS.init c n) ls).log[i].seq =
      ((((CS.run c (CS.init c n) ls).log.take i).map (fun r => r.payload.length)).sum) % 4294967296 := by
  have := C19_stream_seq_general c n hne k hk hp hpc (by omega) ls i hi
  rw [this, hinit, Nat.zero_add]

/-- … and the packets themselves carry the same numbers (`bc`, the model's `p.byte_counter`). -/
theorem C19_stream_packets_stamped (c : TcpCfg) (n : NetSt) (hne : c.a ≠ c.b) (k : CapKey)
    (hk : ConnAt n c.a k.cid k.idx k.src k.dst k.init) (hp : n.cfg.pcap = k.pcap) (ls : List TLbl) :
    WireSeq k.init (CS.run c (CS.init c n) ls).wire :=
  (CS.capOk_run c hne k ls _ (capOk_init c n k hk hp)).seq

/-- **(c) Payload.** From a start state of the stream theorems (`TcpStart`: nothing sent or
    received yet on the connection): every packet the writer ever put on the wire is a segment
    carrying exactly `segs[id]` — the bytes the ghost log of C05 holds for its sequence number,
    first transmission or retransmission — or the empty end-of-stream marker; by (a) the
    record's payload is that packet's payload. -/
theorem C19_stream_payload_genuine (c : TcpCfg) (n : NetSt) (h : TcpStart c n) (ls : List TLbl) :
    ∀ e ∈ (CS.run c (CS.init c n) ls).wire,
      (e.2.ty = .payload ∧ (TS.run c (TS.init c n) ls).segs[e.2.id]? = some e.2.payload)
      ∨ (e.2.ty = .err ∧ e.2.payload = []) := by
  have := CS.genuine_run c ls (CS.init c n) (TInv.init h) (by intro e he; cases he)
  rw [CS.init_run_ts] at this
  exact this

/-- … hence no record is larger than the writer's segment size -/
theorem C19_stream_payload_bound (c : TcpCfg) (n : NetSt) (h : TcpStart c n) (ls : List TLbl)
    (hm : 0 < (TS.init c n).mss0) :
    ∀ e ∈ (CS.run c (CS.init c n) ls).wire, e.2.payload.length ≤ (TS.init c n).mss0 := by
  intro e he
  have hI := (TInv.reach h ls).core
  have hm0 : (TS.run c (TS.init c n) ls).mss0 = (TS.init c n).mss0 := TS.run_mss0 c ls _
  rcases C19_stream_payload_genuine c n h ls e he with ⟨_, h2⟩ | ⟨_, h2⟩
  · have hmem : e.2.payload ∈ (TS.run c (TS.init c n) ls).segs := List.mem_of_getElem? h2
    have := (hI.segsB (by rw [hm0]; exact hm) _ hmem).2
    rw [hm0] at this; exact this
  · rw [h2]; simp

/-- **Composition with the round trip.** The capture file the world driver writes for the log
    (header, then `Pcap.recordTcp` of every record in emission order; `ip` = the driver's
    dotted-quad parser, any function here) is decoded by the independent reader to exactly the
    expected records (`Pcap.expected`, whose sequence numbers are recomputed from the payload
    lengths alone) of the list of sends read off the history: one TCP send per packet the writer
    put on the wire, at the step's time, from the writer's endpoint to the peer's, with the
    packet's payload — for every history, every initial counter value `k.init` (0 = repaired
    tree), every labelling `(conn, dir)` of the direction. Hence all corollaries of
    `C19_wellformed` (`C19_one_record_per_send`, `C19_lengths`, `C19_addresses_ports`,
    `C19_payload`, `C19_timestamps`, `C19_time_monotone`, `C19_seq_general`) hold of the decoded
    file with `sends` := these. -/
theorem C19_stream_file (c : TcpCfg) (n : NetSt) (hne : c.a ≠ c.b) (k : CapKey)
    (hk : ConnAt n c.a k.cid k.idx k.src k.dst k.init) (hp : n.cfg.pcap = k.pcap) (hpc : k.pcap = true)
    (ls : List TLbl) (ip : String → Nat) (conn dir : Nat)
    (hsrc : ip k.src.addr < 4294967296) (hdst : ip k.dst.addr < 4294967296)
    (hsp : k.src.port < 65536) (hdp : k.dst.port < 65536)
    (hsz : ∀ e ∈ (CS.run c (CS.init c n) ls).wire, e.2.payload.length + 40 ≤ 65535) :
    PcapDecode.decodeFile (capFile ip (CS.run c (CS.init c n) ls).log) =
      some (Pcap.expected (fun _ => k.init)
        ((CS.run c (CS.init c n) ls).wire.map (fun e =>
          ({ kind := .tcp, t := e.1.toNat, srcIp := ip k.src.addr, dstIp := ip k.dst.addr,
             srcPort := k.src.port, dstPort := k.dst.port, conn := conn, dir := dir,
             payload := e.2.payload } : Pcap.Send)))) := by
  have hI := CS.capOk_run c hne k ls _ (capOk_init c n k hk hp)
  have hlog := hI.log
  rw [hpc] at hlog
  simp only [if_true] at hlog
  have hs : CapSeq k.init (CS.run c (CS.init c n) ls).log := by
    rw [hlog]; exact capSeq_of_wireSeq k _ _ hI.seq
  rw [capFile_eq_capture ip conn dir _ k.init hs, hlog, List.map_map]
  apply Pcap.C19_wellformed
  intro s hs
  rw [List.mem_map] at hs
  obtain ⟨e, he, rfl⟩ := hs
  exact ⟨hsrc, hdst, hsp, hdp, fun _ => by have := hsz e he; simp [CapT.toSend, recOf]; omega,
    fun hk => by simp [CapT.toSend] at hk⟩

/-- **As-is (pinned tree, F1).** `channel::bytes_sent` was uninitialised: the direction starts
    with whatever the allocator left (`k.init` arbitrary). The same theorems hold with that start
    value — the first record's sequence number is `k.init`, not 0 (`C19_stream_seq_general` at
    `i = 0`); with ASan's fill pattern: -/
theorem C19_stream_asis_first_seq (c : TcpCfg) (n : NetSt) (hne : c.a ≠ c.b) (k : CapKey)
    (hk : ConnAt n c.a k.cid k.idx k.src k.dst k.init) (hp : n.cfg.pcap = k.pcap) (hpc : k.pcap = true)
    (hinit : k.init = 0xbebebebe) (ls : List TLbl) (h0 : 0 < (CS.run c (CS.init c n) ls).log.length) :
    (CS.run c (CS.init c n) ls).log[0].seq = 0xbebebebe := by
  have := C19_stream_seq_general c n hne k hk hp hpc (by omega) ls 0 h0
  rw [this, hinit]; simp

/-! ## Non-vacuity: the history of SimVerif/TcpEx.lean with capture on

  Segment 0 `[1,2,3]` is sent and dropped by the first hop, segment 1 `[4]` is sent, the ACK of
  segment 1 triggers the retransmission of segment 0, the writer closes. Step `i` of the
  history happens at 1 s + i · 1.5 ms. -/
namespace C19Ex

def cfg : NetCfg := { mtu := [("*", 3)], pcap := true }
def epA : Ep := { addr := "10.0.0.1", port := 2000 }
def epB : Ep := { addr := "10.0.0.2", port := 80 }
def n0 : NetSt := established cfg TcpEx.c epA epB ["q1"] ["q2"]
def key : CapKey := { cid := 0, idx := 0, src := epA, dst := epB, init := 0, pcap := true }
def hist : List TLbl := TcpEx.hist.zipIdx.map (fun x => x.1.atTime (1000000000 + x.2 * 1500000))
def final : CS := CS.run TcpEx.c (CS.init TcpEx.c n0) hist
def ip (a : String) : Nat := if a = "10.0.0.1" then 0x0a000001 else 0x0a000002

theorem start : ConnAt n0 TcpEx.c.a key.cid key.idx key.src key.dst key.init :=
  connAt_of_check _ _ _ _ _ _ _ (by decide)

/-- the capture log: first transmissions at sequence numbers 0 and 3, the retransmission of
    `[1,2,3]` at 4 (its bytes count again), the closing segment at 7 with no payload -/
example : final.log =
    [ { t := 1001500000, src := epA, dst := epB, seq := 0, payload := [1, 2, 3] },
      { t := 1004500000, src := epA, dst := epB, seq := 3, payload := [4] },
      { t := 1010500000, src := epA, dst := epB, seq := 4, payload := [1, 2, 3] },
      { t := 1021000000, src := epA, dst := epB, seq := 7, payload := [] } ] := by decide

/-- the packets the writer put into the bag: sequence numbers 0, 1, 0 (retransmission), 2 (EOF) -/
example : final.wire.map (fun e => (e.1, e.2.id, e.2.ty, e.2.bc, e.2.payload)) =
    [ (1001500000, 0, .payload, 0, [1, 2, 3]), (1004500000, 1, .payload, 3, [4]),
      (1010500000, 0, .payload, 4, [1, 2, 3]), (1021000000, 2, .err, 7, []) ]
    ∧ final.ts.segs = [[1, 2, 3], [4]] := by decide

/-- with capture off: same packets, no record -/
example : (CS.run TcpEx.c (CS.init TcpEx.c (established { mtu := [("*", 3)] } TcpEx.c epA epB ["q1"] ["q2"])) hist).log = []
    ∧ (CS.run TcpEx.c (CS.init TcpEx.c (established { mtu := [("*", 3)] } TcpEx.c epA epB ["q1"] ["q2"])) hist).wire
        = final.wire := by decide

/-- the hypotheses of the system-level theorems hold of this history; the theorems instantiated -/
example := C19_stream_one_record_per_packet TcpEx.c n0 (by decide) key start rfl hist
example := C19_stream_seq TcpEx.c n0 (by decide) key start rfl rfl rfl hist 2 (by decide)
example := C19_stream_payload_genuine TcpEx.c n0 (established_start _ _ _ _ _ _ (by decide)).1 hist
example := C19_stream_file TcpEx.c n0 (by decide) key start rfl rfl hist ip 0 0
  (by decide) (by decide) (by decide) (by decide) (by decide)

-- the capture file of the log, read back by the independent decoder
set_option maxRecDepth 100000 in
example : PcapDecode.decodeFile (capFile ip final.log) = some
    [ { tsSec := 441794305, tsUsec := 1500, inclLen := 43, origLen := 43,
        pkt := { verIhl := 0x45, ipLen := 43, ttl := 200, proto := 6, src := 0x0a000001,
                 dst := 0x0a000002, sport := 2000, dport := 80, seq := 0, udpLen := 0,
                 payload := [1, 2, 3] } },
      { tsSec := 441794305, tsUsec := 4500, inclLen := 41, origLen := 41,
        pkt := { verIhl := 0x45, ipLen := 41, ttl := 200, proto := 6, src := 0x0a000001,
                 dst := 0x0a000002, sport := 2000, dport := 80, seq := 3, udpLen := 0,
                 payload := [4] } },
      { tsSec := 441794305, tsUsec := 10500, inclLen := 43, origLen := 43,
        pkt := { verIhl := 0x45, ipLen := 43, ttl := 200, proto := 6, src := 0x0a000001,
                 dst := 0x0a000002, sport := 2000, dport := 80, seq := 4, udpLen := 0,
                 payload := [1, 2, 3] } },
      { tsSec := 441794305, tsUsec := 21000, inclLen := 40, origLen := 40,
        pkt := { verIhl := 0x45, ipLen := 40, ttl := 200, proto := 6, src := 0x0a000001,
                 dst := 0x0a000002, sport := 2000, dport := 80, seq := 7, udpLen := 0,
                 payload := [] } } ] := by decide

/-- `close()` of the connected writer at time 5: the record of the (empty) closing segment right
    before it; the handshake with capture on: the SYN-ACK goes out bare -/
example :
    capsTcp (n0.tcpClose 5 "s1").2 = [{ t := 5, src := epA, dst := epB, seq := 0, payload := [] }]
    ∧ (s5_fwdsOf (n0.tcpClose 5 "s1").2).map (fun p => (p.ty, p.ec, p.bc)) = [(.err, .eof, 0)]
    ∧ capsTcp (({ Hs.nA with cfg := { Hs.cfg with pcap := true } } : NetSt).accIncoming 0 "a" Hs.synA).2 = []
    ∧ (s5_fwdsOf (({ Hs.nA with cfg := { Hs.cfg with pcap := true } } : NetSt).accIncoming 0 "a" Hs.synA).2).map (·.ty)
        = [.synack] := by decide

example := C19_tcp_shape_meaning _ 5 _ (C19_tcp_effect_shape n0 5 "s1").2.2.2.1

/-- UDP: a bound sender, a bound receiver: one record right before the one datagram -/
def nU : NetSt :=
  { cfg := { pcap := true }, reg := { udp := [({ addr := "10.0.0.2", port := 5000 }, "b")] }, fwds := [some "b"],
    udps := [("a", { node := "A", isOpen := true, bound := { addr := "10.0.0.1", port := 4000 } }),
             ("b", { node := "B", isOpen := true, bound := { addr := "10.0.0.2", port := 5000 }, fwd := some 0 })] }

example :
    capsUdp (nU.udpSendTo 7000 "a" { addr := "10.0.0.2", port := 5000 } [9, 8]).2.1
      = [{ t := 7000, src := { addr := "10.0.0.1", port := 4000 }, dst := { addr := "10.0.0.2", port := 5000 }, payload := [9, 8] }]
    ∧ (fwdsOf (nU.udpSendTo 7000 "a" { addr := "10.0.0.2", port := 5000 } [9, 8]).2.1).map
        (fun p => (p.ty, p.src, p.hops, p.payload)) = [(.payload, "10.0.0.1:4000", ["@0"], [9, 8])]
    ∧ (nU.udpSendTo 7000 "a" { addr := "10.0.0.2", port := 5000 } [9, 8]).2.1.length = 3
    -- empty datagram / nothing bound at the destination: no packet, no record
    ∧ capsUdp (nU.udpSendTo 7000 "a" { addr := "10.0.0.2", port := 5000 } []).2.1 = []
    ∧ (fwdsOf (nU.udpSendTo 7000 "a" { addr := "10.0.0.2", port := 5000 } []).2.1).length = 0
    ∧ capsUdp (nU.udpSendTo 7000 "a" { addr := "10.0.0.9", port := 1 } [9, 8]).2.1 = []
    ∧ (fwdsOf (nU.udpSendTo 7000 "a" { addr := "10.0.0.9", port := 1 } [9, 8]).2.1).length = 0 := by
  decide

end C19Ex

end SimVerif
