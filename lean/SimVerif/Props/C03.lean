/-
  C03 — Timers fire exactly at expiry, in expiry-then-arming order; cancel aborts.

  Property theorems only. All statements are about the mechanism model of
  `high_resolution_timer` + `simulation::run()` in SimVerif/Kernel.lean and quantify over
  every label sequence (every program, every schedule). Precondition of the code (an
  `assert` compiled out under NDEBUG): at most one outstanding wait per timer — `WaitPre`;
  only `C03_no_lost_wait` needs it. The at-most-once theorems need only that handler ids
  name distinct `async_wait` calls (`FreshWaits`).
-/
import SimVerif.Props.C02
import SimVerif.Lemmas.KernelOrder
import SimVerif.Lemmas.KernelOnce

namespace SimVerif

/-- **A successful wait completes at exactly `max(expiry, time the wait was started)`.**
    `t.exp`/`t.st` are the ghosts recorded by `fire` when the completion is posted:
    the timer's expiry and the clock at `async_wait`. `c` is the clock when it ran. -/
theorem C03_fires_exactly (ls : List Lbl) (t : Task) (c : Int)
    (h : (t, c) ∈ (runLbls repaired {} ls).ran) (htm : t.tm = true) (hok : t.ec = .ok) :
    c = imax t.exp t.st :=
  (KInv_run repaired rfl rfl ls {} KInv_init).ranT t c h htm hok

/-- **… never earlier than the expiry** (and never earlier than the wait was started). -/
theorem C03_never_early (ls : List Lbl) (t : Task) (c : Int)
    (h : (t, c) ∈ (runLbls repaired {} ls).ran) (htm : t.tm = true) (hok : t.ec = .ok) :
    t.exp ≤ c ∧ t.st ≤ c := by
  have := C03_fires_exactly ls t c h htm hok
  unfold imax at this; split at this <;> omega

/-- **cancel() / cancel_one() / destructor:** returns 1 exactly when a wait was pending,
    and then posts that wait's handler exactly once, with `operation_aborted`; returns 0
    and posts nothing otherwise. The timer is left expired with an empty handler slot, so
    nothing can complete that wait a second time. -/
theorem C03_cancel (k : K) (i : Nat) (hk : KInv k) :
    (∀ h, (k.timers i).handler = some h →
        (cancel k i).2 = 1
        ∧ (cancel k i).1.ready = k.ready ++
            [{ h := h, ec := .aborted, tm := true, exp := (k.timers i).expiry,
               st := (k.timers i).startedAt }]
        ∧ ((cancel k i).1.timers i).handler = none
        ∧ ((cancel k i).1.timers i).expired = true)
    ∧ ((k.timers i).handler = none → (cancel k i).2 = 0 ∧ (cancel k i).1.ready = k.ready) := by
  constructor
  · intro h hh
    have hne := (hk.pend i h hh).1
    have h5 := cancel_timers_same k i
    refine ⟨?_, ?_, ?_, h5.1⟩
    · rw [cancel_ret]; simp [hne, hh]
    · rw [cancel_ready]; simp [hne, hh]
    · rw [h5.2.2.2.2]; simp [hne]
  · intro hn
    constructor
    · rw [cancel_ret]; split <;> simp [hn]
    · rw [cancel_ready]; split <;> simp [hn]

/-- **Re-arming (expires_at / expires_after) cancels first**: same return value and same
    abort as `cancel`, then the new expiry is queued. -/
theorem C03_rearm (k : K) (i : Nat) (e : Int) :
    (expiresAt k i e).2 = (cancel k i).2
    ∧ (expiresAt k i e).1.ready = (cancel k i).1.ready
    ∧ ((expiresAt k i e).1.timers i).expiry = e
    ∧ ((expiresAt k i e).1.timers i).expired = false
    ∧ (e, i) ∈ (expiresAt k i e).1.tq := by
  refine ⟨rfl, rfl, ?_, ?_, ?_⟩
  · simp [expiresAt, arm]
  · simp [expiresAt, arm]
  · simp [expiresAt, arm, mem_insertUB]

/-- **A wait started on a timer whose expiry has already passed completes at once, at the
    current time, with success** (posted, never invoked inline). -/
theorem C03_expired_wait_immediate (k : K) (i h : Nat)
    (hexp : (k.timers i).expired = true) (hdue : (k.timers i).expiry ≤ k.now) :
    (asyncWait repaired k i h).ready =
      k.ready ++ [{ h := h, ec := .ok, tm := true, exp := (k.timers i).expiry, st := k.now }]
    ∧ (asyncWait repaired k i h).now = k.now
    ∧ ((asyncWait repaired k i h).timers i).handler = none := by
  have hnlt : ¬ (k.now < (k.timers i).expiry) := by omega
  unfold asyncWait
  simp only [hexp, if_true, repaired, Bool.true_and, decide_eq_true_eq, hnlt, if_false]
  refine ⟨?_, ?_, ?_⟩
  · rw [fire_ready]; simp [setHandler]
  · rw [fire_now]; simp [setHandler]
  · rw [fire_timers_same]

/-- **A wait on a cancelled timer whose expiry is still in the future does not complete
    now**: the timer is put back into the queue and nothing is posted (repair F3). -/
theorem C03_wait_after_cancel_requeues (k : K) (i h : Nat)
    (hexp : (k.timers i).expired = true) (hfut : k.now < (k.timers i).expiry) :
    (asyncWait repaired k i h).ready = k.ready
    ∧ ((k.timers i).expiry, i) ∈ (asyncWait repaired k i h).tq
    ∧ ((asyncWait repaired k i h).timers i).handler = some h := by
  unfold asyncWait
  simp only [hexp, if_true, repaired, Bool.true_and, decide_eq_true_eq, hfut]
  refine ⟨?_, ?_, ?_⟩
  · simp [setHandler, arm]
  · simp [setHandler, arm, mem_insertUB]
  · simp [setHandler]

/-- **Order.** The loop fires due timers in queue order, and the queue is ordered by
    expiry, and among equal expiries by arming order (`upper_bound` insertion is stable):
    for any two queued entries, the earlier one has the smaller expiry, or the same expiry
    and the smaller arming serial number. Holds in every reachable state. -/
theorem C03_order (ls : List Lbl) :
    OrderedTq (runLbls repaired {} ls) :=
  (OInv_run repaired rfl rfl ls {} KInv_init OInv_init).ordered

/-- … and the timer loop of `run()` consumes the queue from the front: what is left is the
    queue minus the first `n` entries, `n` being the number of timers it fired. -/
theorem C03_fire_in_queue_order (l : List (Int × Nat)) (k : K) (h : k.tq = l) :
    (fireDue l k).1.tq = l.drop (fireDue l k).2 :=
  fireDue_tq l k h

/-- … and it posts the completions in exactly that order: what it appends to `ready` is, in
    queue order, the pending handlers (where there is one) of the `n` entries it popped,
    each bound with success. -/
theorem C03_fire_posts_in_queue_order (l : List (Int × Nat)) (k : K) (hk : KInv k) (h : k.tq = l) :
    (fireDue l k).1.ready = k.ready ++ (l.take (fireDue l k).2).filterMap (fun x =>
      ((k.timers x.2).handler).map (fun h =>
        { h := h, ec := .ok, tm := true, exp := (k.timers x.2).expiry,
          st := (k.timers x.2).startedAt })) :=
  fireDue_ready l k (h ▸ hk.nodup)

/-! #### Every wait completes at most once

A wait is named by the handler id passed to `async_wait`; `FreshWaits [] ls` says the
`wait` labels of `ls` carry pairwise distinct ids (`freshWaits_iff`). -/

/-- **No completion is posted twice, and a wait still pending in its timer has not been
    posted**: the handler ids of all timer completions posted so far (executed or still
    queued) are pairwise distinct, and disjoint from the ids stored in timers. -/
theorem C03_posted_at_most_once (ls : List Lbl) (hf : FreshWaits [] ls) :
    (runLbls repaired {} ls).posted.Nodup
    ∧ ∀ i h, ((runLbls repaired {} ls).timers i).handler = some h →
        h ∉ (runLbls repaired {} ls).posted :=
  have ho := OnceInv_run repaired ls {} hf OnceInv_init
  ⟨ho.nodup, ho.slotExcl⟩

/-- **Every wait completes at most once**: the timer completions that were executed carry
    pairwise distinct handler ids. -/
theorem C03_at_most_once (ls : List Lbl) (hf : FreshWaits [] ls) :
    (((runLbls repaired {} ls).ran.filter (fun x => x.1.tm)).map (fun x => x.1.h)).Nodup :=
  (OnceInv_run repaired ls {} hf OnceInv_init).ran_nodup

/-- Two executed timer completions with the same handler id are the same execution. -/
theorem C03_completion_unique (ls : List Lbl) (hf : FreshWaits [] ls)
    (t₁ t₂ : Task) (c₁ c₂ : Int)
    (h₁ : (t₁, c₁) ∈ (runLbls repaired {} ls).ran) (h₂ : (t₂, c₂) ∈ (runLbls repaired {} ls).ran)
    (m₁ : t₁.tm = true) (m₂ : t₂.tm = true) (hh : t₁.h = t₂.h) : (t₁, c₁) = (t₂, c₂) :=
  eq_of_nodup_map (fun x : Task × Int => x.1.h) _ (C03_at_most_once ls hf) (t₁, c₁) (t₂, c₂)
    (List.mem_filter.mpr ⟨h₁, by simpa using m₁⟩) (List.mem_filter.mpr ⟨h₂, by simpa using m₂⟩) hh

/-- **A wait completed with `operation_aborted` never also completes successfully** (nor the
    other way round). -/
theorem C03_abort_excludes_success (ls : List Lbl) (hf : FreshWaits [] ls)
    (t₁ t₂ : Task) (c₁ c₂ : Int)
    (h₁ : (t₁, c₁) ∈ (runLbls repaired {} ls).ran) (h₂ : (t₂, c₂) ∈ (runLbls repaired {} ls).ran)
    (m₁ : t₁.tm = true) (m₂ : t₂.tm = true) (hh : t₁.h = t₂.h) : t₁.ec = t₂.ec := by
  have := C03_completion_unique ls hf t₁ t₂ c₁ c₂ h₁ h₂ m₁ m₂ hh
  simp only [Prod.mk.injEq] at this
  rw [this.1]

/-- **No wait is lost**, provided the program respects the precondition of `async_wait`
    (`assert(!m_handler)`: no second wait while one is outstanding on the same timer,
    `WaitPre`): every wait ever started is still pending in its timer or its completion
    has been posted. -/
theorem C03_no_lost_wait (ls : List Lbl) (hp : WaitPre repaired {} ls) (h : Nat)
    (hs : h ∈ (runLbls repaired {} ls).started) :
    (∃ i, ((runLbls repaired {} ls).timers i).handler = some h)
    ∨ h ∈ (runLbls repaired {} ls).posted :=
  Held_run repaired ls {} hp Held_init h hs

/-! #### The pinned tree violated the property (regression witness)

`expires_after(5000); async_wait(h0); cancel(); async_wait(h1)`: `cancel()` sets
`m_expired`, so the second wait completed at once, at time 0, with success. -/
def c03Witness : List Lbl :=
  [.expiresAfter 0 5000, .wait 0 0, .cancel 0, .wait 0 1, .exec, .exec]

theorem C03_asis_early :
    ((runLbls asIs {} c03Witness).ran.map (fun x => (x.1.h, x.1.ec, x.2)))
      = [(0, .aborted, 0), (1, .ok, 0)] := by decide

theorem C03_witness_repaired :
    ((runLbls repaired {} (c03Witness ++ [.advance, .exec])).ran.map (fun x => (x.1.h, x.1.ec, x.2)))
      = [(0, .aborted, 0), (1, .ok, 5000)] := by decide

/-- Non-vacuity: a reachable state with a pending wait, a cancelled-and-rewaited timer and
    two timers with equal expiries queued in arming order. -/
def c03Example : List Lbl :=
  [.expiresAt 0 50, .wait 0 0, .expiresAt 1 50, .wait 1 1, .expiresAt 2 20, .wait 2 2,
   .cancel 2, .wait 2 3]

example : (runLbls repaired {} c03Example).tq = [(20, 2), (50, 0), (50, 1)]
    ∧ ((runLbls repaired {} c03Example).timers 2).handler = some 3
    ∧ (runLbls repaired {} c03Example).ready.length = 1 := by decide

/-- The hypotheses of the at-most-once / no-lost-wait theorems hold for that run (it
    contains a wait, a cancel and a second wait on the same timer). -/
example : FreshWaits [] c03Example ∧ WaitPre repaired {} c03Example := by
  constructor
  · simp [FreshWaits, c03Example, Lbl.waitId?]
  · simp [WaitPre, c03Example]; decide

end SimVerif
