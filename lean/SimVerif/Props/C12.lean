/-
  C12 — Closing or destroying endpoints at any moment is memory-safe and silent.

  Property theorems only. What Lean carries: in the mechanism models (SimVerif/Net.lean,
  SimVerif/Tcp.lean, SimVerif/Kernel.lean) every raw pointer / by-reference capture of the C++
  is an explicit reference resolved by name or id — the forwarder a route ends in
  (`NetSt.fwds`, `fwdTarget`), the channel of a socket (`TcpSock.chan`), the registry entry of a
  bound socket, the timer queue — and the world driver (SimVerif/Drv/Kernel.lean) resolves them
  on every use. The theorems say that after `close` / `cancel` / destruction none of these
  references leads anywhere (packets, ACKs and drop notifications addressed to the object
  vanish), that the functions which dereference `m_channel` do nothing when it is null, that an
  operation on one object leaves every other object as it was, and that the catch-all of
  `run()` leaves the kernel with no timer queued and every pending wait aborted exactly once.
  Memory safety of the real library itself is *observed* (ASan/UBSan runs of props/c12.py) and
  tied to these models by the trace correspondence.

  Destruction = `close` in the models (`udpClose`, `tcpClose` with the channel reset first,
  `accClose`), followed by removal of the object from the table (driver).
-/
import SimVerif.Props.C04
import SimVerif.Lemmas.LifetimeNet
import SimVerif.Lemmas.LifetimeDrv

namespace SimVerif

open HL Drv

/-! ## 1. The forwarder is detached; a new one is never a reused one -/

/-- **Close detaches.** After `close()` (UDP socket, TCP socket, acceptor) the forwarder the object
    had points nowhere, and the object no longer refers to a forwarder. -/
theorem C12_detached_forwarder (n : NetSt) (now : Int) (name : String) (f : Nat) :
    (∀ u, n.udp? name = some u → u.fwd = some f →
        (n.udpClose name).1.fwdTarget f = none
        ∧ ∃ u', (n.udpClose name).1.udp? name = some u' ∧ u'.fwd = none ∧ u'.isOpen = false)
    ∧ (∀ s, n.tcp? name = some s → s.fwd = some f →
        (n.tcpClose now name).1.fwdTarget f = none
        ∧ ∃ s', (n.tcpClose now name).1.tcp? name = some s' ∧ s'.fwd = none ∧ s'.isOpen = false ∧ s'.chan = none)
    ∧ (∀ s a, n.tcp? name = some s → s.acc = some a → s.fwd = some f →
        (n.accClose now name).1.fwdTarget f = none
        ∧ ∃ s', (n.accClose now name).1.tcp? name = some s' ∧ s'.fwd = none ∧ s'.isOpen = false) := by
  refine ⟨fun u hu hf => ⟨udpClose_detached n name u f hu hf, _, (udpClose_some n name u hu).1, rfl, rfl⟩,
    fun s hs hf => ?_, fun s a hs ha hf => ?_⟩
  · obtain ⟨_, s', hs', _, _, _, _, _, a6, a7, a8, _⟩ := tcpClose_some n now name s hs
    exact ⟨tcpClose_detached n now name s f hs hf, s', hs', a7, a6, a8⟩
  · obtain ⟨_, s', hs', _, _, _, _, _, a6, a7, _⟩ := accClose_posts n now name s a hs ha
    exact ⟨accClose_detached n now name s a f hs ha hf, s', hs', a7, a6⟩

/-- **Open never reuses a forwarder.** `open()` closes first (detaching the old forwarder) and then
    creates forwarder number `n.fwds.length` — an id no route built so far can mention; every
    older forwarder keeps its target, except the socket's previous one, which stays detached. -/
theorem C12_fresh_forwarder (n : NetSt) (now : Int) (name : String) (v4 : Bool) :
    (∀ u, n.udp? name = some u →
        (∃ u', (n.udpOpen name v4).1.udp? name = some u' ∧ u'.fwd = some n.fwds.length)
        ∧ (n.udpOpen name v4).1.fwdTarget n.fwds.length = some name
        ∧ n.fwdTarget n.fwds.length = none
        ∧ (∀ g, g < n.fwds.length →
            (n.udpOpen name v4).1.fwdTarget g = if some g = u.fwd then none else n.fwdTarget g))
    ∧ (∀ s, n.tcp? name = some s →
        (∃ s', (n.tcpOpen now name v4).1.tcp? name = some s' ∧ s'.fwd = some n.fwds.length)
        ∧ (n.tcpOpen now name v4).1.fwdTarget n.fwds.length = some name
        ∧ n.fwdTarget n.fwds.length = none
        ∧ (∀ g, g < n.fwds.length →
            (n.tcpOpen now name v4).1.fwdTarget g = if some g = s.fwd then none else n.fwdTarget g)) := by
  have hnone : n.fwdTarget n.fwds.length = none := by
    unfold NetSt.fwdTarget; rw [List.getElem?_eq_none (Nat.le_refl _)]; rfl
  constructor
  · intro u hu
    obtain ⟨hs, _⟩ := udpOpen_some n name v4 u hu
    have hlen := udpClose_fwds_length n name
    have hopen : ∀ g, (n.udpOpen name v4).1.fwdTarget g
        = if g = n.fwds.length then some name else (n.udpClose name).1.fwdTarget g := by
      intro g
      unfold NetSt.udpOpen; dsimp only
      rw [(udpClose_some n name u hu).1]; dsimp only
      rw [setUdp_fwdTarget, newFwd_fwdTarget, hlen]
    refine ⟨⟨_, hs, by rw [hlen]⟩, by rw [hopen]; simp, hnone, fun g hg => ?_⟩
    rw [hopen]
    have : g ≠ n.fwds.length := by omega
    simp only [this, if_false]
    by_cases hgf : some g = u.fwd
    · simp only [hgf, if_true]
      exact udpClose_detached n name u g hu hgf.symm
    · simp only [hgf, if_false]
      exact udpClose_fwd_other n name u g hu hgf
  · intro s hs
    obtain ⟨_, s', hs', b⟩ := tcpOpen_some n now name v4 s hs
    have hlen := tcpClose_fwds_length n now name
    have hopen : ∀ g, (n.tcpOpen now name v4).1.fwdTarget g
        = if g = n.fwds.length then some name else (n.tcpClose now name).1.fwdTarget g := by
      intro g
      obtain ⟨_, s1, hs1, _⟩ := tcpClose_some n now name s hs
      unfold NetSt.tcpOpen; dsimp only
      rw [hs1]; dsimp only
      rw [setTcp_fwdTarget, newFwd_fwdTarget, hlen]
    refine ⟨⟨s', hs', by rw [b.2.2.2.2.2.2.1, hlen]⟩, by rw [hopen]; simp, hnone, fun g hg => ?_⟩
    rw [hopen]
    have : g ≠ n.fwds.length := by omega
    simp only [this, if_false]
    by_cases hgf : some g = s.fwd
    · simp only [hgf, if_true]
      exact tcpClose_detached n now name s g hs hgf.symm
    · simp only [hgf, if_false]
      exact (tframe_tcpClose n now name s hs).fwd g hg hgf

/-- **Hop names of forwarders decode back** (for every forwarder id, not only those a scenario
    reaches): forwarder `f`'s hop name is `fwdHop f = "@" ++ toString f`; the world driver
    (`forwardPkt`) recognises it by `startsWith "@"` and decodes it by `(hop.drop 1).toNat?`, which
    yields `f` again; and distinct forwarders have distinct hop names. -/
theorem C12_fwdHop_decodes (f : Nat) :
    (fwdHop f).startsWith "@" = true
    ∧ ((fwdHop f).drop 1).toString.toNat? = some f
    ∧ ∀ g, fwdHop g = fwdHop f → g = f :=
  ⟨Hs.fwdHop_startsWith f, Hs.fwdHop_decode f, fun _ h => Hs.fwdHop_inj h⟩

/-- **Packets, ACKs and drop notifications for a detached forwarder vanish** (world driver): a
    packet whose next hop is the hop name `fwdHop f` of a forwarder `f` that is detached (or does
    not exist) leaves the whole world state unchanged; a queue's or dropper's drop notification
    for a segment whose sender's forwarder is detached changes nothing (the dropper still prints
    its own `D` line). No hypothesis about the decoding of hop names: `C12_fwdHop_decodes`. -/
theorem C12_packets_for_detached_vanish (p : KParams) (fuel : Nat) (pk : Pkt) (s : KSt) :
    (∀ f rest, pk.hops = fwdHop f :: rest → s.net.fwdTarget f = none → forwardPkt p (fuel + 1) pk s = s)
    ∧ (∀ qi fid, pk.dropFwd = some fid → s.net.fwdTarget fid = none → applyQEffs p qi [.dropCb pk] s = s)
    ∧ (∀ name fid, pk.dropFwd = some fid → s.net.fwdTarget fid = none →
        dropNotify s name pk = s.emit (describePkt "D" name s.k.now pk pk.hasDrop)) :=
  ⟨fun f rest hh h2 => forwardPkt_detached_fwdHop p fuel pk s f rest hh h2,
   fun qi fid h1 h2 => applyQEffs_dropCb_detached p qi pk s fid h1 h2,
   fun name fid h1 h2 => dropNotify_detached s name pk fid h1 h2⟩

/-! ## 2. A null channel is never dereferenced -/

/-- **Repaired behaviour** of the places where the C++ dereferences `m_channel` (the
    `match s.chan.bind n.chan?` sites of the model): on a socket without a channel
    `packet_dropped`, `send_packet`, the ACK path's retransmission, and an arriving payload /
    error packet change nothing and emit nothing; `write_some_impl` refuses before the
    segmentation loop (so `tcpSendSeg` is never reached). -/
theorem C12_null_channel_guarded (tp : TParams) (n : NetSt) (now : Int) (name : String) (s : TcpSock) (p : Pkt)
    (bufs : List (List UInt8)) (hs : n.tcp? name = some s) (hc : s.chan = none) :
    n.tcpPacketDropped tp name p = n
    ∧ n.tcpSendPacket now name p = (n, [])
    ∧ n.tcpResendOne now name = none
    ∧ ((p.ty = .payload ∨ p.ty = .err) → n.tcpIncoming tp now name p = (n, []))
    ∧ n.tcpWritePrep name bufs = .error (if s.isOpen then .notConn else .badDesc) :=
  ⟨tcpPacketDropped_null tp n name p s hs hc, tcpSendPacket_null n now name p s hs hc,
   tcpResendOne_null n now name s hs hc, tcpIncoming_null tp n now name p s hs hc,
   tcpWritePrep_null n name bufs s hs hc⟩

/-- … and `close()` is what makes the channel null: the states the guards are for are reachable
    at every event boundary. -/
theorem C12_close_resets_channel (n : NetSt) (now : Int) (name : String) (s : TcpSock) (hs : n.tcp? name = some s) :
    ∃ s', (n.tcpClose now name).1.tcp? name = some s' ∧ s'.chan = none ∧ s'.resend = [] ∧ s'.outstanding = [] := by
  rw [tcpClose_eq, hs]; dsimp only
  obtain ⟨t', ht', _⟩ := tcpCloseEof_slots n now name s hs name s hs
  unfold tcpCloseFin
  rw [ht']; dsimp only
  rw [tcp_cancel_eq]
  exact ⟨_, setTcp_tcp_same _ _ _, rfl, rfl, rfl⟩

/-! ### the pinned tree (regression witnesses) -/

/-- `packet_dropped` as the pinned tree ran it: `m_channel->hops(…)` without a test; `none` = null
    dereference (tcp_socket.cpp:756 under ASan). -/
def NetSt.tcpPacketDroppedAsIs (tp : TParams) (n : NetSt) (name : String) (p : Pkt) : Option NetSt :=
  match n.tcp? name with
  | none => some n
  | some s =>
    match s.chan.bind n.chan? with
    | none => none
    | some _ => some (n.tcpPacketDropped tp name p)

/-- **As-is defect.** The pinned tree bound the segment's drop callback to the raw socket pointer,
    so a segment dropped after `close()` reached `packet_dropped` of the closed socket: null
    dereference. Repaired: the notification travels through the forwarder, which `close()`
    detached (`C12_packets_for_detached_vanish`), and the function is guarded as well. -/
theorem C12_asis_drop_after_close (tp : TParams) (n : NetSt) (now : Int) (name : String) (s : TcpSock) (p : Pkt)
    (hs : n.tcp? name = some s) :
    (n.tcpClose now name).1.tcpPacketDroppedAsIs tp name p = none
    ∧ (n.tcpClose now name).1.tcpPacketDropped tp name p = (n.tcpClose now name).1 := by
  obtain ⟨s', hs', hc, _⟩ := C12_close_resets_channel n now name s hs
  constructor
  · unfold NetSt.tcpPacketDroppedAsIs; rw [hs']; simp [hc]
  · exact tcpPacketDropped_null tp _ name p s' hs' hc

/-! ## 3. Every other object keeps behaving according to its own properties (frame) -/

/-- **UDP.** Every operation on UDP socket `a` — each label of the one-socket system: receive, the
    waits, non-blocking receive, `send_to`, `cancel`, `close`/destroy, `open`, `bind`, a datagram
    arriving, the send timer firing — leaves every other UDP socket, all TCP objects, all
    channels, the configuration and the TCP registry exactly as they were; in the UDP registry
    only entries that map to `a` change; only `a`'s own forwarder changes (new ones are appended). -/
theorem C12_others_unaffected_udp (n : NetSt) (a : String) (l : ULbl) (u : UdpSock) (h : n.udp? a = some u) :
    UdpFrame a u.fwd n (l.eff a n).1 :=
  uframe_label n a l u h

/-- **TCP socket / acceptor** `a` with forwarder `s.fwd` and channel `s.chan`: `close`/destroy,
    `open`, `bind`, `cancel`, read, wait-for-read, write (and its verdict), non-blocking read,
    acceptor `cancel` / `listen` / `close`, and `async_connect` leave every other TCP object, all
    UDP sockets, the configuration and the UDP registry as they were; in the TCP registry only
    entries that map to `a` change; only `a`'s own forwarder and `a`'s own channel (its byte
    counters) change; forwarders and channels are only ever appended (`async_connect` appends
    exactly the new connection's channel). -/
theorem C12_others_unaffected_tcp (tp : TParams) (n : NetSt) (now : Int) (a : String) (s : TcpSock)
    (hs : n.tcp? a = some s) (v4 : Bool) (ep target : Ep) (rop : ReadOp) (wop : WriteOp) (h : Nat)
    (caps : List Nat) (qs : Int) (r : Except Ec Nat) :
    TcpFrame a s.fwd s.chan n (n.tcpClose now a).1
    ∧ TcpFrame a s.fwd s.chan n (n.tcpOpen now a v4).1
    ∧ TcpFrame a s.fwd s.chan n (n.tcpBind a ep).1
    ∧ TcpFrame a s.fwd s.chan n (n.tcpCancel a).1
    ∧ TcpFrame a s.fwd s.chan n (n.tcpAsyncRead a rop).1
    ∧ TcpFrame a s.fwd s.chan n (n.tcpWaitRead a h).1
    ∧ TcpFrame a s.fwd s.chan n (n.tcpAsyncWrite a wop).1
    ∧ TcpFrame a s.fwd s.chan n (n.tcpWriteFinish a wop r).1
    ∧ TcpFrame a s.fwd s.chan n (n.tcpReadNb a caps).1
    ∧ TcpFrame a s.fwd s.chan n (n.accCancel a).1
    ∧ TcpFrame a s.fwd s.chan n (n.accListen a qs).1
    ∧ (∀ acc, s.acc = some acc → TcpFrame a s.fwd s.chan n (n.accClose now a).1)
    ∧ TcpFrame a s.fwd s.chan n (n.tcpConnect now a target h).1 := by
  obtain ⟨f1, f2, f3, f4, f5, f6, f7, f8, _⟩ := tframe_simple tp n a s.fwd s.chan rop wop h caps qs r
  exact ⟨tframe_tcpClose n now a s hs, tframe_tcpOpen n now a v4 s hs, tframe_tcpBind n a ep _ _, f1, f2, f3, f4, f8,
    f5, f6, f7, fun acc ha => tframe_accClose n now a s acc hs ha, tframe_tcpConnect n now a target h s hs⟩

/-- … in particular another socket's handler slots, queues and connection state are untouched, so
    everything C04 / C05 / C06 / C08 say about that socket keeps holding. -/
theorem C12_other_socket_untouched (n : NetSt) (now : Int) (a b : String) (s : TcpSock) (u : UdpSock)
    (hs : n.tcp? a = some s) (hu : n.udp? a = some u) (hne : b ≠ a) :
    (n.tcpClose now a).1.tcp? b = n.tcp? b ∧ (n.tcpClose now a).1.udp? b = n.udp? b
    ∧ (n.udpClose a).1.udp? b = n.udp? b ∧ (n.udpClose a).1.tcp? b = n.tcp? b := by
  have h1 := tframe_tcpClose n now a s hs
  have h2 := uframe_udpClose n a u hu
  refine ⟨h1.tcp b hne, ?_, h2.udp b hne, ?_⟩
  · unfold NetSt.udp?; rw [h1.udps]
  · unfold NetSt.tcp?; rw [h2.tcps]

/-- **`async_accept`** additionally touches its peer: accept-into closes the peer socket first
    (everything said about `tcpClose peer` applies), the socket-returning form creates the new
    object; every object other than the acceptor, the peer and the created socket is unchanged by
    that preparation. -/
theorem C12_accept_prep_touches_peer_only (n : NetSt) (now : Int) (name : String) (op : AcceptOp) (b : String)
    (hb : b ≠ (match op with | .into _ peer _ => peer | .fresh _ nn => nn)) :
    (accAcceptPrep n now name op).1.tcp? b = n.tcp? b ∧ (accAcceptPrep n now name op).1.udps = n.udps := by
  unfold accAcceptPrep
  cases op with
  | into h peer we =>
    dsimp only at hb ⊢
    cases hp : n.tcp? peer with
    | none => exact ⟨rfl, rfl⟩
    | some p =>
      dsimp only
      split
      · have := tframe_tcpClose n now peer p hp
        exact ⟨this.tcp b hb, this.udps⟩
      · exact ⟨rfl, rfl⟩
  | fresh h nn =>
    dsimp only at hb ⊢
    split
    · exact ⟨setTcp_tcp_other _ _ _ _ hb, rfl⟩
    · exact ⟨rfl, rfl⟩

/-! ## 4. An exception thrown by a handler: the catch-all of `run()` -/

/-- **`catch (...)` of `simulation::run()`** (world driver `runCatch`), entered in any state whose
    kernel satisfies the kernel invariant (C02/C03: every reachable state does): afterwards
    * the timer queue is empty and every timer is in the expired state with no wait pending — the
      destruction of the simulation, or of any timer, finds nothing queued;
    * the simulation is stopped;
    * every wait that was pending was posted exactly once with `operation_aborted`, in queue
      order (`abortCompletion`), right behind what was already ready; whatever else was appended
      is a plain posted completion of a cancelled socket (`tm = false`), never a second timer
      completion. -/
theorem C12_throw (p : KParams) (s : KSt) (hk : KInv s.k) :
    (runCatch p s).k.tq = []
    ∧ (runCatch p s).k.stopped = true
    ∧ (∀ i, ((runCatch p s).k.timers i).expired = true ∧ ((runCatch p s).k.timers i).handler = none)
    ∧ (∃ extra, (runCatch p s).k.ready = s.k.ready ++ s.k.tq.filterMap (abortCompletion s.k) ++ extra
        ∧ ∀ t ∈ extra, t.tm = false)
    ∧ (runCatch p s).thrown = false ∧ (runCatch p s).threw = true :=
  runCatch_spec p s hk

/-- the kernel part on its own: cancelling every queued timer keeps the kernel invariant, empties
    the queue, and appends exactly the aborted completions of the pending waits -/
theorem C12_throw_cancels_all_timers (k : K) (hk : KInv k) :
    KInv (cancelAllL k.tq k)
    ∧ (cancelAllL k.tq k).tq = []
    ∧ (cancelAllL k.tq k).ready = k.ready ++ k.tq.filterMap (abortCompletion k)
    ∧ (∀ i, ((cancelAllL k.tq k).timers i).handler = none) := by
  obtain ⟨a, b, c, _⟩ := cancelAllL_spec k.tq k hk rfl
  exact ⟨a, b, c, (cancelAllL_dead k hk).2⟩

/-- every pending wait is among those completions exactly once: a timer with a wait pending is
    queued exactly once (kernel invariant), and its entry yields its handler -/
theorem C12_throw_each_wait_once (k : K) (hk : KInv k) (i h : Nat) (hh : (k.timers i).handler = some h) :
    (k.tq.filter (fun x => x.2 == i)).length = 1
    ∧ abortCompletion k ((k.timers i).expiry, i)
        = some { h := h, ec := .aborted, tm := true, exp := (k.timers i).expiry, st := (k.timers i).startedAt } := by
  have hq := hk.queued i (hk.pend i h hh).1
  refine ⟨?_, by simp [abortCompletion, hh]⟩
  have hnd := hk.nodup
  have hcount : (k.tq.map Prod.snd).count i = 1 := by
    have h1 := List.nodup_iff_count.mp hnd i
    have h2 : 0 < (k.tq.map Prod.snd).count i :=
      List.count_pos_iff.mpr (List.mem_map.mpr ⟨_, hq, rfl⟩)
    omega
  rw [List.count_eq_length_filter, List.filter_map] at hcount
  simpa [Function.comp_def] using hcount

/-! ## 5. Non-vacuity -/

namespace C12Ex

/-- a kernel with two timers pending (one with a wait) and one completion ready -/
def k0 : K := runLbls repaired {} [.expiresAt 0 50, .wait 0 7, .expiresAt 1 20, .post 9]

example : (cancelAllL k0.tq k0).tq = [] ∧ (cancelAllL k0.tq k0).ready.map (fun t => (t.h, t.ec, t.tm))
    = [(9, .ok, false), (7, .aborted, true)] := by decide

example := C12_throw_cancels_all_timers k0 (KInv_run repaired rfl rfl _ {} KInv_init)

/-- the TCP example state of C04: closing `s1` detaches forwarder 0 and leaves `a0`, `s3` alone -/
example : (C04Ex.tcp0.tcpClose 0 "s1").1.fwdTarget 0 = none
    ∧ (C04Ex.tcp0.tcpClose 0 "s1").1.fwdTarget 1 = some "a0" := by decide

/-- a payload segment on its last hop towards `s1`'s forwarder 0, after `s1` closed: it vanishes -/
example (p : KParams) (s : KSt) (hs : s.net = (C04Ex.tcp0.tcpClose 0 "s1").1) :
    forwardPkt p 1 { id := 3, ty := .payload, len := 1, ovh := 40, hops := [fwdHop 0], src := "10.0.0.2:80" } s = s :=
  (C12_packets_for_detached_vanish p 0 _ s).1 0 [] rfl (by rw [hs]; decide)

example := (C12_others_unaffected_tcp {} C04Ex.tcp0 0 "s1" _ rfl true {} {} { h := 1, caps := [] }
  { h := 2, bufs := [], stream := 0, off := 0 } 3 [] 5 (.ok 0)).1

end C12Ex

end SimVerif
