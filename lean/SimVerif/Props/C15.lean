/-
  C15 — HTTP request parser is total, stays in bounds and round-trips requests.

  "For every byte string and length, request parsing either returns a request or throws its
   parse-failure error, never reads outside the given range and always terminates;
   request-length detection returns the offset just past the first blank line (CRLFCRLF), or -1
   when there is none.  For every well-formed request (method, target, header lines, blank line)
   the result carries exactly that method and target and every header under its lower-cased name
   with surrounding whitespace trimmed (the last duplicate wins).  For methods other than CONNECT
   the path is the target up to '?', with a leading '/' ensured and every 'segment/../' detour
   removed."

  Property theorems only.  The mechanism model (`parseRequest`, `findRequestLen`, `normalize`,
  `trim`, `lowerCase`: a statement-level transcription of `src/http_server.cpp` over checked
  memory) is in `SimVerif/Http.lean`; the independent specification-level definitions
  (`trimSpec`, `normSpec`, `RawRequest`, `render`, `WellFormed`, `canon`) are in
  `SimVerif/HttpSpec.lean`; helper lemmas are in `SimVerif/Lemmas/Http*.lean`.

  * Termination: every model function is a total Lean function (structural or well-founded
    recursion, no `partial`, no fuel), so "always terminates" is discharged by Lean's
    termination checker on the transcribed loops.
  * In bounds: every raw-pointer read of the C++ is a checked read in the model that produces
    the value `oob` when it leaves the allocation `bs`; `C15_in_bounds*` exclude that value and
    `C15_reads_only_prefix` shows that bytes at offsets `≥ len` do not influence the result.
  * Domain: `len` is a `Nat` for `parse_request` (for a negative `int len` the *diagnostic*
    `std::string(start, len)` of the failure path throws `std::length_error`, which is neither
    outcome of the property; no caller in the library passes a negative length) and an `Int`
    for `find_request_len`; `len < 2^31` (no `int` overflow).
-/
import SimVerif.Lemmas.HttpPrefix
import SimVerif.Lemmas.HttpMap

namespace SimVerif.Http

/-! ## In bounds, total -/

/-- `parse_request(start, len)` never reads outside the allocation when `len` bytes are
    available.  Instantiated with an exactly-sized buffer (`bs.length = len`) this is
    "never reads outside `[0, len)`". -/
theorem C15_in_bounds (bs : Bytes) (len : Nat) (h : len ≤ bs.length) :
    parseRequest bs len ≠ .oob :=
  parseRequest_ne_oob bs len h

/-- The result is a function of the first `len` bytes only: whatever follows them in a larger
    allocation is never looked at (and, by `C15_in_bounds` on `bs.take len`, nothing is read
    past them). -/
theorem C15_reads_only_prefix (bs : Bytes) (len : Nat) (h : len ≤ bs.length) :
    parseRequest bs len = parseRequest (bs.take len) len ∧ parseRequest (bs.take len) len ≠ .oob :=
  ⟨(parseRequest_take bs len h).symm, parseRequest_ne_oob _ _ (by simp; omega)⟩

/-- Either a request is returned or `std::runtime_error("parse failed")` is thrown. -/
theorem C15_total (bs : Bytes) (len : Nat) (h : len ≤ bs.length) :
    (∃ r, parseRequest bs len = .ok r) ∨ parseRequest bs len = .parseFailed := by
  have := C15_in_bounds bs len h
  cases hp : parseRequest bs len with
  | ok r => exact Or.inl ⟨r, rfl⟩
  | parseFailed => exact Or.inr rfl
  | oob => exact absurd hp this

/-- `find_request_len(buf, len)` never reads outside `[0, len)` and returns an integer
    (`len` may be negative or zero). -/
theorem C15_find_request_len_in_bounds (bs : Bytes) (len : Int) (h : len ≤ bs.length) :
    ∃ v : Int, findRequestLen bs len = .ok v := by
  unfold findRequestLen
  rcases find_spec bs 0 len CRLFCRLF (by omega) with ⟨hf, _⟩ | ⟨p, hf, _⟩ <;> rw [hf] <;>
    exact ⟨_, rfl⟩

theorem C15_find_request_len_ne_oob (bs : Bytes) (len : Int) (h : len ≤ bs.length) :
    findRequestLen bs len ≠ .error .oob := by
  obtain ⟨v, hv⟩ := C15_find_request_len_in_bounds bs len h
  rw [hv]; simp

/-- `find_request_len` only depends on the first `len` bytes. -/
theorem C15_find_request_len_reads_only_prefix (bs : Bytes) (len : Nat) (h : len ≤ bs.length) :
    findRequestLen bs len = findRequestLen (bs.take len) len := by
  unfold findRequestLen
  rw [find_take bs len 0 (len : Int) CRLFCRLF h (by omega)]

/-! ## `find_request_len` -/

/-- Request-length detection against an independent specification:
    * it returns `n + 4` iff the four bytes at offset `n` are CR LF CR LF, they lie within the
      first `len` bytes, and no smaller offset has them;
    * it returns `-1` iff no offset within the first `len` bytes has them;
    * it returns nothing else. -/
theorem C15_find_request_len (bs : Bytes) (len : Int) (h : len ≤ bs.length) :
    (∀ n : Nat, findRequestLen bs len = .ok ((n : Int) + 4) ↔
        ((n : Int) + 4 ≤ len ∧ (bs.drop n).take 4 = [13, 10, 13, 10] ∧
          ∀ k : Nat, k < n → (bs.drop k).take 4 ≠ [13, 10, 13, 10])) ∧
    (findRequestLen bs len = .ok (-1) ↔
        ∀ k : Nat, (k : Int) + 4 ≤ len → (bs.drop k).take 4 ≠ [13, 10, 13, 10]) ∧
    (∃ v : Int, findRequestLen bs len = .ok v ∧ (v = -1 ∨ (4 ≤ v ∧ v ≤ len))) := by
  unfold findRequestLen
  rcases find_spec bs 0 len CRLFCRLF (by omega) with ⟨hf, hno⟩ | ⟨p, hf, _, hp2, hp3, hp4⟩
  · rw [hf]
    simp only [CRLFCRLF, List.length_cons, List.length_nil, win] at hno
    refine ⟨?_, ?_, ⟨-1, rfl, Or.inl rfl⟩⟩
    · intro n
      constructor
      · intro he
        simp at he
        omega
      · intro ⟨h1, h2, _⟩
        exact absurd h2 (hno n (by omega) (by omega))
    · constructor
      · intro _ k hk
        exact hno k (by omega) (by omega)
      · intro _; rfl
  · rw [hf]
    simp only [CRLFCRLF, List.length_cons, List.length_nil, win] at hp2 hp3 hp4
    refine ⟨?_, ?_, ⟨(p : Int) - 0 + 4, rfl, Or.inr (by omega)⟩⟩
    · intro n
      constructor
      · intro he
        simp at he
        have : p = n := by omega
        subst this
        exact ⟨by omega, hp3, fun k hk => hp4 k (by omega) hk⟩
      · intro ⟨h1, h2, h3⟩
        have : p = n := by
          rcases Nat.lt_trichotomy p n with hlt | heq | hgt
          · exact absurd hp3 (h3 p hlt)
          · exact heq
          · exact absurd h2 (hp4 n (by omega) hgt)
        subst this
        simp
    · constructor
      · intro he
        simp at he
        omega
      · intro hall
        exact absurd hp3 (hall p (by omega))

/-! ## `trim`, `normalize` -/

/-- `trim` never indexes its string outside `[0, size()]` and drops exactly the white space
    (`' '`, CR, LF, TAB and NUL — `strchr` matches the terminator) at both ends. -/
theorem C15_trim_spec (s : Bytes) : trim s = .ok (trimSpec s) :=
  trim_eq_spec s

/-- `normalize` stays inside its C string and equals the functional specification `normSpec`
    (cut at the first NUL, drop one leading '/', split at '/', fold all segments but the last
    over a stack where ".." pops, append the last segment, put '/' in front of every element).
    The output always starts with '/'.  For NUL-free input the NUL cut disappears. -/
theorem C15_normalize_spec (s : Bytes) :
    normalize s = .ok (normSpec s) ∧
    (normSpec s).head? = some 47 ∧
    (0 ∉ s →
      normSpec s =
        let u := match s with
          | 47 :: r => r
          | _ => s
        let segs := splitOn 47 u
        47 :: [47].intercalate (segs.dropLast.foldl stackStep [] ++ [segs.getLastD []])) := by
  refine ⟨normalize_eq_spec s, rfl, ?_⟩
  intro h0
  have : s.takeWhile (· != 0) = s := takeWhile_ne_zero_self s h0
  unfold normSpec
  rw [this]
  rfl

/-! ## Path of a successfully parsed request -/

/-- For *every* successful parse: for methods other than CONNECT the path is the normalised
    target up to the first '?'; for CONNECT it is the target itself. -/
theorem C15_path (bs : Bytes) (len : Nat) (r : Request) (h : parseRequest bs len = .ok r) :
    (r.method ≠ CONNECT → r.path = normSpec (r.req.takeWhile (· != 63))) ∧
    (r.method = CONNECT → r.path = r.req) := by
  have he : parseRequestE bs len = .ok r := by
    unfold parseRequest at h
    split at h
    · rename_i r' he; simp at h; rw [he, h]
    · simp at h
    · simp at h
  have hp := parseRequestE_path bs len r he
  constructor
  · intro hm
    rw [if_pos hm, normalize_eq_spec] at hp
    simp at hp
    exact hp.symm
  · intro hm
    rw [if_neg (by simp [hm])] at hp
    simp at hp
    exact hp.symm

/-! ## Round trip

  `WellFormed r` (decidable, `SimVerif/HttpSpec.lean`) is

      32 ∉ r.method ∧ 32 ∉ r.target ∧ hasCRLF r.version = false ∧
      ∀ h ∈ r.headers, 58 ∉ h.1 ∧ hasCRLF h.1 = false ∧ hasCRLF h.2 = false

  Nothing else is needed: the method may be empty and, like the target, may contain CR, LF,
  NUL, ':' and bytes ≥ 0x80; version, names and values may contain lone CR / LF, NUL and spaces;
  names and values may be empty.  Each conjunct is necessary — the `C15_wf_needs_*` theorems
  below exhibit, for every conjunct, a request violating only that conjunct on which the parser
  does not return `canon r`:

  1. `32 ∉ method`      : the method ends at the first SP.  "G T / V" parses as method "G",
                          target "T".
  2. `32 ∉ target`      : the target ends at the second SP.  "G /a b V" gives target "/a".
  3. no CRLF in version : the header block starts at the first CRLF after the second SP.
                          version "H\r\na:b" makes the parser see a header a ↦ b that `r` does
                          not have (and e.g. version "H\r\nX" is rejected: line without ':').
  4. `':' ∉ name`       : the name ends at the first ':'.  ("a:b","c") is stored as a ↦ "b:c".
  5. no CRLF in name    : the line ends at the first CRLF, the first ':' then lies behind the
                          end of the line → `value > next` → parse failure.
  6. no CRLF in value   : the value ends at the first CRLF.  ("a","b\r\nc:d") is stored as two
                          headers a ↦ b, c ↦ d.
-/

/-- Every well-formed request, rendered as
    `method SP target SP version CRLF (name ":" value CRLF)* CRLF`, parses to exactly that method
    and target, the specified path, and the headers folded left-to-right into the map under
    `lowerCase (trim name) ↦ trim value`. -/
theorem C15_roundtrip (r : RawRequest) (h : WellFormed r) :
    parseRequest (render r) (render r).length = .ok (canon r) :=
  parseRequest_render r h

/-- What `canon r` says about the headers: looking a key up yields the trimmed value of the
    *last* header line whose lower-cased trimmed name is that key (`none` if there is none), and
    the association list is strictly sorted by unsigned byte-wise order (`std::map` iteration
    order; in particular keys are unique). -/
theorem C15_roundtrip_headers (r : RawRequest) (h : WellFormed r) :
    ∃ q, parseRequest (render r) (render r).length = .ok q ∧
      q.method = r.method ∧ q.req = r.target ∧
      sortedKeys q.headers ∧
      ∀ k : Bytes, mapLookup k q.headers =
        r.headers.foldl
          (fun acc h => if k = lowerCase (trimSpec h.1) then some (trimSpec h.2) else acc) none :=
  ⟨canon r, C15_roundtrip r h, rfl, rfl, canonHeaders_sorted r.headers,
    fun k => canonHeaders_lookup r.headers k⟩

/-! ### necessity of the conjuncts of `WellFormed` (concrete counter-examples) -/

section cex
-- evaluation of the model on a concrete buffer by rewriting with its defining equations
local macro "eval_parse" : tactic => `(tactic|
  simp [parseRequest, parseRequestE, find, findLoop, readN, readRange, CONNECT, CRLF,
    normalize_eq_spec, trim_eq_spec, headerLoop, memchr, failParse, render, renderHeaders, canon,
    canonHeaders, canonPath, trimSpec, isWs, lowerCase, lowerByte, mapInsert, bytesLt])

/-- 1. SP in the method: "G T / V\r\n\r\n" is parsed with method "G". -/
theorem C15_wf_needs_method_no_space :
    let r : RawRequest := { method := [71, 32, 84], target := [47], version := [86], headers := [] }
    ¬ WellFormed r ∧ parseRequest (render r) (render r).length ≠ .ok (canon r) := by
  refine ⟨by decide, ?_⟩
  eval_parse

/-- 2. SP in the target: "G /a b V\r\n\r\n" is parsed with target "/a". -/
theorem C15_wf_needs_target_no_space :
    let r : RawRequest := { method := [71], target := [47, 97, 32, 98], version := [86], headers := [] }
    ¬ WellFormed r ∧ parseRequest (render r) (render r).length ≠ .ok (canon r) := by
  refine ⟨by decide, ?_⟩
  eval_parse

/-- 3. CRLF in the version: "G / H\r\na:b\r\n\r\n" yields a header `a ↦ b` the request does not
    have. -/
theorem C15_wf_needs_version_no_crlf :
    let r : RawRequest := { method := [71], target := [47], version := [72, 13, 10, 97, 58, 98],
                            headers := [] }
    ¬ WellFormed r ∧ parseRequest (render r) (render r).length ≠ .ok (canon r) := by
  refine ⟨by decide, ?_⟩
  eval_parse

/-- 4. ':' in a header name: ("a:b", "c") is stored as `a ↦ "b:c"`. -/
theorem C15_wf_needs_name_no_colon :
    let r : RawRequest := { method := [71], target := [47], version := [86],
                            headers := [([97, 58, 98], [99])] }
    ¬ WellFormed r ∧ parseRequest (render r) (render r).length ≠ .ok (canon r) := by
  refine ⟨by decide, ?_⟩
  eval_parse

/-- 5. CRLF in a header name: ("x\r\ny", "v") is rejected. -/
theorem C15_wf_needs_name_no_crlf :
    let r : RawRequest := { method := [71], target := [47], version := [86],
                            headers := [([120, 13, 10, 121], [118])] }
    ¬ WellFormed r ∧ parseRequest (render r) (render r).length = .parseFailed := by
  refine ⟨by decide, ?_⟩
  eval_parse

/-- 6. CRLF in a header value: ("a", "b\r\nc:d") is stored as two headers. -/
theorem C15_wf_needs_value_no_crlf :
    let r : RawRequest := { method := [71], target := [47], version := [86],
                            headers := [([97], [98, 13, 10, 99, 58, 100])] }
    ¬ WellFormed r ∧ parseRequest (render r) (render r).length ≠ .ok (canon r) := by
  refine ⟨by decide, ?_⟩
  eval_parse

end cex

/-! ## Non-vacuity -/

/-- `GET /x/a/../b?q=1 HTTP/1.1` with headers `Host: " ex "`, `X-A: "1"`, `"hOST ": "two\t"`
    (a duplicate of `Host` in another case with trailing white space). -/
def exRaw : RawRequest :=
  { method := [71, 69, 84],
    target := [47, 120, 47, 97, 47, 46, 46, 47, 98, 63, 113, 61, 49],
    version := [72, 84, 84, 80, 47, 49, 46, 49],
    headers := [([72, 111, 115, 116], [32, 101, 120, 32]), ([88, 45, 65], [49]),
                ([104, 79, 83, 84, 32], [116, 119, 111, 9])] }

/-- method `GET`, target unchanged, path `/x/b`, headers `host ↦ two`, `x-a ↦ 1`. -/
def exParsed : Request :=
  { method := [71, 69, 84],
    req := [47, 120, 47, 97, 47, 46, 46, 47, 98, 63, 113, 61, 49],
    path := [47, 120, 47, 98],
    headers := [([104, 111, 115, 116], [116, 119, 111]), ([120, 45, 97], [49])] }

example : WellFormed exRaw := by decide

example : canon exRaw = exParsed := by decide

example : parseRequest (render exRaw) (render exRaw).length = .ok exParsed := by
  rw [C15_roundtrip exRaw (by decide)]
  decide

/-- CONNECT keeps the target as path; an empty method, an empty version, empty names/values,
    NUL / lone CR / lone LF / ':' in the target are all well-formed. -/
def exConnect : RawRequest :=
  { method := [67, 79, 78, 78, 69, 67, 84], target := [97, 47, 46, 46, 47, 98, 63, 120],
    version := [], headers := [([], [])] }

example : WellFormed exConnect := by decide

example : parseRequest (render exConnect) (render exConnect).length
    = .ok { method := [67, 79, 78, 78, 69, 67, 84], req := [97, 47, 46, 46, 47, 98, 63, 120],
            path := [97, 47, 46, 46, 47, 98, 63, 120], headers := [([], [])] } := by
  rw [C15_roundtrip exConnect (by decide)]
  decide

example : WellFormed { method := [], target := [0, 13, 58, 10], version := [13], headers := [] } := by
  decide

/-- `find_request_len`: "ab\r\n\r\ncd" → 6; "ab\r\n\r" → -1; `parse_request` of a buffer without
    a space fails; the empty buffer fails. -/
example : findRequestLen [97, 98, 13, 10, 13, 10, 99, 100] 8 = .ok 6 := by
  simp [findRequestLen, find, findLoop, readN, CRLFCRLF]

example : findRequestLen [97, 98, 13, 10, 13] 5 = .ok (-1) := by
  simp [findRequestLen, find, findLoop, readN, CRLFCRLF]

example : parseRequest [] 0 = .parseFailed := by
  simp [parseRequest, parseRequestE, find, findLoop, failParse, readN]

/-- `normalize`: "a/../../b//c/.." → "/b//c/.." (".." on the empty stack is dropped, the last
    segment is kept verbatim), and an embedded NUL truncates: "/a\0/b" → "/a". -/
example : normSpec [97, 47, 46, 46, 47, 46, 46, 47, 98, 47, 47, 99, 47, 46, 46]
    = [47, 98, 47, 47, 99, 47, 46, 46] := by decide

example : normSpec [47, 97, 0, 47, 98] = [47, 97] := by decide

/-- `trim`: NUL counts as white space. -/
example : trimSpec [32, 0, 9, 97, 32, 98, 13, 10, 0] = [97, 32, 98] := by decide

end SimVerif.Http
