/-
  C10 — tail-drop exactly on overflow; byte/packet conservation; control packets spared;
        every drop reported once, at once, iff the packet carries a drop callback.

  Property theorems only (see the header of Props/C09.lean for the setting). `TailDrop c held p`
  is the proposition `p.okToDrop ∧ 0 < c.cap ∧ c.cap < held + p.size`.
-/
import SimVerif.Lemmas.QueueInv
import SimVerif.Props.C09

namespace SimVerif

/-- **Byte account**: `m_queue_size` is the sum of the sizes of the queued packets. -/
theorem C10_account (c : QCfg) (hc : c.WF) (ls : List QLbl) (h : QS.okRun c {} ls) :
    (QS.run c {} ls).q.held = ((QS.run c {} ls).q.items.map (fun x => (x.2.size : Int))).sum :=
  (QInv.run_init hc ls h).held

/-- **… which is the bytes accepted minus the bytes forwarded.** -/
theorem C10_held_is_arrived_minus_forwarded (c : QCfg) (hc : c.WF) (ls : List QLbl)
    (h : QS.okRun c {} ls) :
    (QS.run c {} ls).q.held
      = (((QS.run c {} ls).arrLog.filter (fun a => !a.2.2)).map (fun a => (a.2.1.size : Int))).sum
        - ((QS.run c {} ls).fwdLog.map (fun f => (f.pkt.size : Int))).sum := by
  have h1 := C10_account c hc ls h
  have h2 := congrArg (fun l => (l.map (fun x : Int × Pkt => (x.2.size : Int))).sum)
    (C09_stamps c hc ls h)
  simp only [List.map_map, List.map_append, List.sum_append, Function.comp_def] at h2
  omega

/-- **Tail-drop exactly on overflow** (the mechanism function, any queue state):
    if the condition holds the queue is untouched and the only effect is the drop callback
    (iff the packet has one); otherwise the packet is appended with stamp now + latency,
    accounted, and no drop callback is invoked. -/
theorem C10_drop_iff (c : QCfg) (q : Q) (now : Int) (p : Pkt) :
    (TailDrop c q.held p → q.incoming c now p = (q, if p.hasDrop then [.dropCb p] else []))
    ∧ (¬ TailDrop c q.held p →
        (q.incoming c now p).1.items = q.items ++ [(now + c.lat, p)]
        ∧ (q.incoming c now p).1.held = q.held + p.size
        ∧ ∀ x, QEff.dropCb x ∉ (q.incoming c now p).2) := by
  constructor
  · intro hD
    exact incoming_of_drops c now q p ((drops_iff c q p).mpr hD)
  · intro hD
    have hd : q.drops c p = false := by
      cases hx : q.drops c p with
      | false => rfl
      | true => exact absurd ((drops_iff c q p).mp hx) hD
    refine ⟨?_, ?_, incoming_nodrop c now q p hd⟩
    · rw [incoming_items, hd]; rfl
    · rw [incoming_held, hd]; rfl

/-- **One arrival, as logged** (any state, so also a re-entrant arrival during a forward):
    the flag is the tail-drop condition on the bytes held at that moment. -/
theorem C10_arrival_logged (c : QCfg) (s : QS) (p : Pkt) :
    (s.doArrive c p).arrLog = s.arrLog ++ [(s.now, p, decide (TailDrop c s.q.held p))] := by
  rw [doArrive_arrLog, drops_eq_decide]

/-- **Every top-level arrival of a history is logged as dropped iff it overflowed**, where
    the bytes held are those accepted and not yet forwarded in the history before it. -/
theorem C10_logged_drop_iff (c : QCfg) (hc : c.WF) (pre post : List QLbl) (t : Int) (p : Pkt)
    (h : QS.okRun c {} (pre ++ [.arrive t p] ++ post)) :
    ∃ rest, (QS.run c {} (pre ++ [.arrive t p] ++ post)).arrLog
      = (QS.run c {} pre).arrLog ++
          (t, p, decide (TailDrop c
            ((((QS.run c {} pre).arrLog.filter (fun a => !a.2.2)).map (fun a => (a.2.1.size : Int))).sum
              - ((QS.run c {} pre).fwdLog.map (fun f => (f.pkt.size : Int))).sum) p)) :: rest := by
  obtain ⟨h12, h3⟩ := (okRun_append c {} _ post).mp h
  obtain ⟨h1, h2⟩ := (okRun_append c {} pre _).mp h12
  have hI := QInv.run_init hc _ h12
  obtain ⟨r, hr⟩ := run_arrLog_prefix hc post _ hI h3
  refine ⟨r, ?_⟩
  rw [run_append, hr, run_append, ← C10_held_is_arrived_minus_forwarded c hc pre h1]
  show ((({ (QS.run c {} pre) with now := t }).doArrive c p).arrLog) ++ r = _
  rw [C10_arrival_logged]; simp

/-- **SYN-ACK, ACK and error packets are never dropped**, whatever the occupancy. -/
theorem C10_control_never_dropped (c : QCfg) (q : Q) (now : Int) (p : Pkt)
    (hty : p.ty = .synack ∨ p.ty = .ack ∨ p.ty = .err) :
    (q.incoming c now p).1.items = q.items ++ [(now + c.lat, p)]
    ∧ (q.incoming c now p).1.held = q.held + p.size
    ∧ ∀ x, QEff.dropCb x ∉ (q.incoming c now p).2 := by
  apply (C10_drop_iff c q now p).2
  intro hD
  have := hD.1
  rcases hty with h | h | h <;> simp [Pkt.okToDrop, h] at this

/-- **Capacity 0 means unlimited.** -/
theorem C10_cap0_unlimited (c : QCfg) (q : Q) (now : Int) (p : Pkt) (hcap : c.cap = 0) :
    (q.incoming c now p).1.items = q.items ++ [(now + c.lat, p)]
    ∧ (q.incoming c now p).1.held = q.held + p.size
    ∧ ∀ x, QEff.dropCb x ∉ (q.incoming c now p).2 := by
  apply (C10_drop_iff c q now p).2
  intro hD
  have := hD.2.1
  omega

/-- **Conservation**: every arrival is forwarded, or dropped, or still queued — exactly one
    of these — and the accepted ones appear unaltered and in order (`C09_fifo`). -/
theorem C10_conservation (c : QCfg) (hc : c.WF) (ls : List QLbl) (h : QS.okRun c {} ls) :
    (QS.run c {} ls).arrLog.length
      = (QS.run c {} ls).fwdLog.length + (QS.run c {} ls).q.items.length
        + ((QS.run c {} ls).arrLog.filter (fun a => a.2.2)).length
    ∧ ((QS.run c {} ls).arrLog.filter (fun a => !a.2.2)).map (fun a => a.2.1)
        = (QS.run c {} ls).fwdLog.map Fwd.pkt ++ (QS.run c {} ls).q.items.map Prod.snd := by
  refine ⟨?_, C09_fifo c hc ls h⟩
  have h1 := length_filter_split (fun a : Int × Pkt × Bool => a.2.2) (QS.run c {} ls).arrLog
  have h2 := congrArg List.length (C09_fifo c hc ls h)
  simp only [List.length_map, List.length_append] at h2
  omega

/-- **Each drop is reported exactly once, at the instant of the drop, packet intact, iff the
    packet carries a drop callback.** -/
theorem C10_drop_reported_once_at_once (c : QCfg) (hc : c.WF) (ls : List QLbl)
    (h : QS.okRun c {} ls) :
    (QS.run c {} ls).dropLog
      = ((QS.run c {} ls).arrLog.filter (fun a => a.2.2 && a.2.1.hasDrop)).map (fun a => (a.1, a.2.1)) :=
  (QInv.run_init hc ls h).drops

/-! ### non-vacuity -/

example : QS.okRun QEx.cfg {} QEx.hist := by decide

/-- (instant, id, dropped): p2 fills the queue exactly (150 ≤ 150: accepted); payload p3 and p5
    overflow and are dropped; the ACKs p4 (held 150 → 200 > cap) and p6 are accepted. -/
example : (QS.run QEx.cfg {} QEx.hist).arrLog.map (fun a => (a.1, a.2.1.id, a.2.2))
    = [(0, 1, false), (5, 2, false), (6, 3, true), (7, 4, false), (8, 5, true), (100010, 6, false)] := by
  decide

/-- only p3 has a drop callback: reported once, at instant 6 -/
example : (QS.run QEx.cfg {} QEx.hist).dropLog.map (fun a => (a.1, a.2.id)) = [(6, 3)] := by decide

example : (QS.run QEx.cfg {} QEx.hist).fwdLog.map (fun f => (f.pkt.id, f.dep))
    = [(1, 100010), (2, 150010), (4, 200010)] := by decide

example : (QS.run QEx.cfg {} QEx.hist).q.held = 50 := by decide

example := C10_conservation QEx.cfg QEx.cfg_wf QEx.hist (by decide)
example := C10_logged_drop_iff QEx.cfg QEx.cfg_wf (QEx.hist.take 2) (QEx.hist.drop 3) 6 QEx.p3 (by decide)

end SimVerif
