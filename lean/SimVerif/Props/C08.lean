/-
  C08 — UDP datagrams: at most once, intact, to the right socket, in order.

  Property theorems only. Mechanism model: SimVerif/Net.lean (`UdpSock.*`, `NetSt.udp*`,
  transcribed from src/udp_socket.cpp). Open system: SimVerif/NetSys.lean (`NS`, labels `NLbl`:
  the environment picks every API call on every object, every packet arrival at every
  forwarder, every TCP-side change; ghost logs `acc` = datagrams `incoming_packet` accepted,
  `out` = datagrams that left a queue, flag `true` = handed to a reader, `false` = discarded by
  close / re-open / destroy). Invariants: `RegInv` (registries and forwarders,
  Lemmas/NetRun.lean) and `DInv` (data path, Lemmas/UdpData.lean).

  System-level statements quantify over ALL label sequences `ls` from `NS.init c` for a
  configuration without wildcard node addresses (`c.WF`); function-level statements hold for
  every state, reachable or not.
-/
import SimVerif.Lemmas.UdpData

namespace SimVerif

/-! ## 1. Receive-buffer account, queue of a closed socket -/

/-- **Account.** The receive-buffer account of an open socket is exactly the payload bytes it
    has queued: nothing leaks, whatever mix of full / truncating / aborted reads, closes and
    re-opens came before. (A moved-from object keeps a stale account — but it is closed, and
    `open` resets it.) -/
theorem C08_account (c : NetCfg) (hc : c.WF) (ls : List NLbl) (name : String) (u : UdpSock)
    (hu : ((NS.init c).run ls).n.udp? name = some u) (ho : u.isOpen = true) :
    u.queueSize = paySum u.queue :=
  (DInv.run c hc ls).account name u hu ho

/-- **A closed socket has nothing queued** (so nothing can surface after a re-open). -/
theorem C08_closed_empty (c : NetCfg) (hc : c.WF) (ls : List NLbl) (name : String) (u : UdpSock)
    (hu : ((NS.init c).run ls).n.udp? name = some u) (ho : u.isOpen = false) : u.queue = [] :=
  (DInv.run c hc ls).closed_empty name u hu ho

/-! ## 2. Exactly once, in arrival order -/

/-- **FIFO / exactly once.** The datagrams a socket accepted are exactly those that left its
    queue (in that order) followed by those still queued: none duplicated, none skipped, none
    reordered, none invented. -/
theorem C08_fifo (c : NetCfg) (hc : c.WF) (ls : List NLbl) (name : String) :
    ((NS.init c).run ls).acc name
      = (((NS.init c).run ls).out name).map Prod.fst ++ ((NS.init c).run ls).n.uqueue name :=
  (DInv.run c hc ls).fifo name

/-- the datagrams handed to readers are a subsequence of the accepted ones, in arrival order -/
theorem C08_fifo_handed_sublist (c : NetCfg) (hc : c.WF) (ls : List NLbl) (name : String) :
    List.Sublist (((((NS.init c).run ls).out name).filter (·.2)).map (·.1)) (((NS.init c).run ls).acc name) := by
  rw [C08_fifo c hc ls name]
  exact List.Sublist.trans (List.Sublist.map _ List.filter_sublist) (List.sublist_append_left _ _)

/-- each accepted datagram leaves the queue at most once (by position) -/
theorem C08_fifo_at_most_once (c : NetCfg) (hc : c.WF) (ls : List NLbl) (name : String) :
    (((NS.init c).run ls).out name).length + (((NS.init c).run ls).n.uqueue name).length
      = (((NS.init c).run ls).acc name).length
    ∧ (((NS.init c).run ls).out name).length ≤ (((NS.init c).run ls).acc name).length := by
  have := congrArg List.length (C08_fifo c hc ls name)
  simp at this
  omega

/-- The logs only grow (under every label except move construction, which carries them to the
    new object): what was once logged as discarded (`false`) is never handed to a reader later. -/
theorem C08_logs_append_only (s : NS) (l : NLbl) (hm : ∀ a b, l ≠ .uMove a b) (x : String) :
    (∃ e, (s.step l).acc x = s.acc x ++ e) ∧ (∃ e, (s.step l).out x = s.out x ++ e) :=
  logs_append_only s l hm x

/-! ## 3. The wake-up never calls an empty handler; no lost wake-up -/

/-- **`maybe_wakeup_reader` always finds the handler it is about to call.** Whenever a receive
    or a wait is parked, `m_recv_null_buffers` says which one: the two branches of
    `UdpSock.maybeWakeup` that would invoke an empty `aux::function` are unreachable. -/
theorem C08_wakeup_handler_present (c : NetCfg) (hc : c.WF) (ls : List NLbl) (name : String) (u : UdpSock)
    (hu : ((NS.init c).run ls).n.udp? name = some u) :
    ((u.recvH.isSome = true ∨ u.waitRecvH.isSome = true) →
      (u.recvNull = true → u.waitRecvH.isSome = true) ∧ (u.recvNull = false → u.recvH.isSome = true))
    ∧ ¬ (u.recvNull = true ∧ u.waitRecvH = none ∧ u.recvH ≠ none)
    ∧ ¬ (u.recvNull = false ∧ u.recvH = none ∧ u.waitRecvH ≠ none) := by
  have hd := (DInv.run c hc ls).dok hu
  refine ⟨hd.wakeup_handler_present, ?_, ?_⟩
  · rintro ⟨a, b, c'⟩
    cases hr : u.recvH with
    | none => exact c' hr
    | some op => have := hd.h1 (by simp [hr]); simp [a] at this
  · rintro ⟨a, b, c'⟩
    cases hw : u.waitRecvH with
    | none => exact c' hw
    | some h => have := hd.h2 (by simp [hw]); simp [a] at this

/-- **No lost wake-up.** A receive or wait is parked only on an open, bound socket whose queue
    is empty: a datagram is never left queued next to a parked reader. -/
theorem C08_parked_reader_queue_empty (c : NetCfg) (hc : c.WF) (ls : List NLbl) (name : String) (u : UdpSock)
    (hu : ((NS.init c).run ls).n.udp? name = some u)
    (hp : u.recvH.isSome = true ∨ u.waitRecvH.isSome = true) :
    u.queue = [] ∧ u.isOpen = true ∧ u.bound.isDefault = false :=
  (DInv.run c hc ls).pend name u hu hp

/-- … and a datagram arriving while a receive is parked is handed to it at once: one
    completion, `ok`, the payload cut to the buffers, the sender's endpoint; the queue stays
    empty and the account unchanged. -/
theorem C08_parked_receive_gets_datagram (c : NetCfg) (hc : c.WF) (ls : List NLbl) (name : String)
    (u : UdpSock) (op : RecvOp) (p : Pkt)
    (hu : ((NS.init c).run ls).n.udp? name = some u) (hr : u.recvH = some op) (hs : p.size ≤ 262144) :
    (u.incoming p).2 =
      [.post { h := op.h, ec := .ok,
               extra := recvExtra op.withEp (p.payload.take (op.caps.foldl (· + ·) 0)) p.src,
                    data := p.payload.take (op.caps.foldl (· + ·) 0), src := p.src }]
    ∧ (u.incoming p).1.queue = [] ∧ (u.incoming p).1.queueSize = u.queueSize
    ∧ (u.incoming p).1.recvH = none ∧ (u.incoming p).1.waitRecvH = none := by
  have hd := (DInv.run c hc ls).dok hu
  obtain ⟨hq, ho, hb⟩ := hd.pend (Or.inl (by simp [hr]))
  have hn := hd.h1 (by simp [hr])
  have hw : u.waitRecvH = none := by
    cases hw : u.waitRecvH with
    | none => rfl
    | some h => have := hd.h2 (by simp [hw]); simp [hn] at this
  have hacc := UdpSock.incoming_accepts_drained p hd ho hq hs
  rcases u.incoming_cases p with ⟨hc', _⟩ | ⟨_, e, _⟩
  · exact absurd hc' hacc
  · generalize hv : ({ u with queueSize := u.queueSize + p.payload.length, queue := u.queue ++ [p] } : UdpSock) = v at e
    have v1 : v.isOpen = true := by rw [← hv]; exact ho
    have v2 : v.bound.isDefault = false := by rw [← hv]; exact hb
    have v3 : v.queue = [p] := by rw [← hv]; simp [hq]
    have v4 : v.recvH = some op := by rw [← hv]; exact hr
    have v5 : v.recvNull = false := by rw [← hv]; exact hn
    have v6 : v.waitRecvH = none := by rw [← hv]; exact hw
    have v7 : v.queueSize = u.queueSize + p.payload.length := by rw [← hv]
    rw [e]
    rcases v.maybeWakeup_cases
      with ⟨hcc, _⟩ | ⟨h, _, hnn, _, _⟩ | ⟨op', _, _, hr', e2⟩ | ⟨_, hnn, _, _, _⟩ | ⟨_, _, hr', _, _⟩
    · rcases hcc with hcc | hcc
      · simp [v3] at hcc
      · simp [v4] at hcc
    · simp [v5] at hnn
    · have : op' = op := by simpa [v4] using hr'.symm
      subst this
      rw [e2, UdpSock.asyncReceive_cons { v with recvH := none } op' p [] v1 v2 v3]
      refine ⟨rfl, rfl, ?_, rfl, v6⟩
      show v.queueSize - (p.payload.length : Int) = u.queueSize
      omega
    · simp [v5] at hnn
    · simp [v4] at hr'

/-! ## 4. A reader that keeps its queue drained loses nothing at the socket -/

/-- function level: an open socket whose account is right and whose queue is empty accepts
    every datagram of at most 256 kB (payload + overhead): it is enqueued and the wake-up runs;
    afterwards it is the only queued datagram, or a parked reader took it -/
theorem C08_drained_accepts (u : UdpSock) (p : Pkt) (hacct : u.queueSize = paySum u.queue)
    (hq : u.queue = []) (hs : p.size ≤ 262144) :
    u.incoming p = ({ u with queueSize := u.queueSize + p.payload.length, queue := u.queue ++ [p] }).maybeWakeup
    ∧ ((u.incoming p).1.queue = [p] ∨ (u.incoming p).1.queue = []) := by
  have h0 : u.queueSize = 0 := by rw [hacct, hq]; rfl
  rcases u.incoming_cases p with ⟨hc, _⟩ | ⟨_, e, hqt⟩
  · omega
  · refine ⟨e, ?_⟩
    rw [hq] at hqt
    rcases hqt with e' | ⟨q, e'⟩
    · left; exact e'
    · right; simp at e'; exact e'.2

/-- **Drained reader loses nothing.** In every reachable state, a datagram of at most 256 kB
    arriving at the forwarder of a socket whose queue is empty is accepted (it is appended to
    `acc`, hence by `C08_fifo` queued or handed to a reader — never dropped). -/
theorem C08_drained_reader_loses_nothing (c : NetCfg) (hc : c.WF) (ls : List NLbl) (f : Nat) (name : String)
    (u : UdpSock) (p : Pkt)
    (hf : ((NS.init c).run ls).n.fwdTarget f = some name)
    (hu : ((NS.init c).run ls).n.udp? name = some u) (hq : u.queue = []) (hs : p.size ≤ 262144) :
    (((NS.init c).run ls).step (.deliver f p)).acc name = ((NS.init c).run ls).acc name ++ [p] := by
  have hd := (DInv.run c hc ls).dok hu
  have ho := ((RegInv.run c hc ls).deliver_open hf hu).1
  have hacc := UdpSock.incoming_accepts_drained p hd ho hq hs
  rw [(NS.step_deliver_some _ f p name u hf hu).2.1]
  simp [hacc]

/-- what `send_to` forwards: nothing, or exactly one datagram carrying the caller's bytes, of
    at most 65535 + 28 bytes -/
theorem C08_send_forwards_at_most_one (n : NetSt) (now : Int) (name : String) (dst : Ep) (payload : List UInt8) :
    fwdsOf (n.udpSendTo now name dst payload).2.1 = []
    ∨ ∃ p, fwdsOf (n.udpSendTo now name dst payload).2.1 = [p] ∧ p.payload = payload
        ∧ p.len = payload.length ∧ p.ovh = 28 ∧ p.ty = .payload ∧ 0 < payload.length
        ∧ payload.length ≤ 65535 ∧ p.size ≤ 262144
        ∧ (n.udpSendTo now name dst payload).2.2 = (.ok, payload.length) := by
  cases hu : n.udp? name with
  | none => left; rw [udpSendTo_none n now name dst payload hu]; rfl
  | some u0 =>
    rw [udpSendTo_eq n now name dst payload u0 hu]
    rcases udpSendTail_total
        (if u0.bound.isDefault then (n.setUdp name { u0 with waitSendH := none }).udpBind name {}
          else (n.setUdp name { u0 with waitSendH := none }, Ec.ok)).1 (u0.abortSend name).2
        (if u0.bound.isDefault then (n.setUdp name { u0 with waitSendH := none }).udpBind name {}
          else (n.setUdp name { u0 with waitSendH := none }, Ec.ok)).2 now name dst payload
      with ⟨e, _⟩ | ⟨u, hops, _, _, h0, h1, _, e⟩
    · left; rw [e]; exact fwdsOf_abortSend name u0
    · right
      refine ⟨sendPkt u.bound hops payload, ?_, rfl, rfl, rfl, rfl, h0, h1, ?_, ?_⟩
      · rw [e]; simp only [fwdsOf_append, fwdsOf_abortSend, fwdsOf_pcap]; rfl
      · show payload.length + 28 ≤ 262144; omega
      · rw [e]

/-- corollary: every datagram built by `send_to` that reaches a drained socket is accepted -/
theorem C08_drained_reader_loses_no_sent_datagram (c : NetCfg) (hc : c.WF) (ls : List NLbl) (f : Nat)
    (name : String) (u : UdpSock) (n : NetSt) (now : Int) (sender : String) (dst : Ep) (payload : List UInt8) (p : Pkt)
    (hp : p ∈ fwdsOf (n.udpSendTo now sender dst payload).2.1)
    (hf : ((NS.init c).run ls).n.fwdTarget f = some name)
    (hu : ((NS.init c).run ls).n.udp? name = some u) (hq : u.queue = []) :
    (((NS.init c).run ls).step (.deliver f p)).acc name = ((NS.init c).run ls).acc name ++ [p] := by
  apply C08_drained_reader_loses_nothing c hc ls f name u p hf hu hq
  rcases C08_send_forwards_at_most_one n now sender dst payload with e | ⟨q, e, _, _, _, _, _, _, hs, _⟩
  · rw [e] at hp; simp at hp
  · rw [e] at hp; simp at hp; subst hp; exact hs

/-! ## 5. Intact payload, cut to the buffers; one datagram per call -/

/-- **`receive_from`, the decision table.** Closed → `bad_descriptor`; unbound →
    `invalid_argument`; empty queue → `would_block` (state unchanged in all three); otherwise
    exactly the head datagram is removed, its payload cut to the total buffer space is returned
    with the sender's endpoint, and the WHOLE payload length is released from the account. -/
theorem C08_payload (u : UdpSock) (caps : List Nat) :
    (u.isOpen = false → u.receiveFrom caps = (u, .error .badDesc))
    ∧ (u.isOpen = true → u.bound.isDefault = true → u.receiveFrom caps = (u, .error .invalid))
    ∧ (u.isOpen = true → u.bound.isDefault = false → u.queue = [] → u.receiveFrom caps = (u, .error .wouldBlock))
    ∧ (∀ p rest, u.isOpen = true → u.bound.isDefault = false → u.queue = p :: rest →
        u.receiveFrom caps = ({ u with queue := rest, queueSize := u.queueSize - p.payload.length },
          .ok (p.payload.take (caps.foldl (· + ·) 0), p.src))) :=
  ⟨u.receiveFrom_closed caps, u.receiveFrom_unbound caps, u.receiveFrom_empty caps,
   fun p rest => u.receiveFrom_cons caps p rest⟩

/-- the bytes handed over are a prefix of the datagram, as long as the buffers allow, and all of
    it when they are large enough -/
theorem C08_payload_prefix (payload : List UInt8) (caps : List Nat) :
    (payload.take (caps.foldl (· + ·) 0)).length = min (caps.foldl (· + ·) 0) payload.length
    ∧ (payload.take (caps.foldl (· + ·) 0)) <+: payload
    ∧ (payload.length ≤ caps.foldl (· + ·) 0 → payload.take (caps.foldl (· + ·) 0) = payload) :=
  ⟨List.length_take, List.take_prefix _ _, fun h => List.take_of_length_le h⟩

/-- **`async_receive[_from]`** with a datagram queued: one completion, `ok`, carrying the head
    datagram's payload cut to the buffers and (for `_from`) its sender; with nothing queued the
    operation is parked; on a closed / unbound socket it completes with the error. -/
theorem C08_payload_async (u : UdpSock) (op : RecvOp) :
    (∀ p rest, u.isOpen = true → u.bound.isDefault = false → u.queue = p :: rest →
      u.asyncReceive op =
        ({ u with queue := rest, queueSize := u.queueSize - p.payload.length, recvH := none, recvNull := false },
         [.post { h := op.h, ec := .ok,
                  extra := recvExtra op.withEp (p.payload.take (op.caps.foldl (· + ·) 0)) p.src,
                    data := p.payload.take (op.caps.foldl (· + ·) 0), src := p.src }]))
    ∧ (u.isOpen = true → u.bound.isDefault = false → u.queue = [] →
        u.asyncReceive op = ({ u with recvH := some op, recvNull := false }, []))
    ∧ (u.isOpen = false →
        u.asyncReceive op = ({ u with recvH := none, recvNull := false }, [recvErrCompl op .badDesc]))
    ∧ (u.isOpen = true → u.bound.isDefault = true →
        u.asyncReceive op = ({ u with recvH := none, recvNull := false }, [recvErrCompl op .invalid])) :=
  ⟨fun p rest => u.asyncReceive_cons op p rest, u.asyncReceive_empty op, u.asyncReceive_closed op,
   u.asyncReceive_unbound op⟩

/-- **One datagram per call** (system level, every state): a receive call on `name` leaves its
    queue as it was or removes exactly the head; no other socket is touched. -/
theorem C08_one_datagram_per_call (s : NS) (name : String) (l : NLbl)
    (hl : (∃ op, l = .uRecv name op) ∨ (∃ caps, l = .uRecvNb name caps)) :
    QTail (s.n.uqueue name) ((s.step l).n.uqueue name)
    ∧ (popped (s.n.uqueue name) ((s.step l).n.uqueue name)).length ≤ 1
    ∧ (s.step l).out name = s.out name ++ (popped (s.n.uqueue name) ((s.step l).n.uqueue name)).map (·, true)
    ∧ (s.step l).acc = s.acc
    ∧ ∀ x, x ≠ name → (s.step l).n.udp? x = s.n.udp? x ∧ (s.step l).out x = s.out x := by
  have key : ∀ g : UdpSock → UdpSock, (∀ v : UdpSock, QTail v.queue (g v).queue) →
      QTail (s.n.uqueue name) ((s.n.mapUdp name g).uqueue name) := by
    intro g hg
    cases hu : s.n.udp? name with
    | none => rw [uqueue_none hu, uqueue_none (by rw [udp?_mapUdp]; simp [hu])]; exact QTail.refl _
    | some u => rw [uqueue_some hu, uqueue_some (u := g u) (by rw [udp?_mapUdp]; simp [hu])]; exact hg u
  have fin : ∀ n' : NetSt, QTail (s.n.uqueue name) (n'.uqueue name) → (∀ x, x ≠ name → n'.udp? x = s.n.udp? x) →
      QTail (s.n.uqueue name) ((s.readStep name n').n.uqueue name)
      ∧ (popped (s.n.uqueue name) ((s.readStep name n').n.uqueue name)).length ≤ 1
      ∧ (s.readStep name n').out name
          = s.out name ++ (popped (s.n.uqueue name) ((s.readStep name n').n.uqueue name)).map (·, true)
      ∧ (s.readStep name n').acc = s.acc
      ∧ ∀ x, x ≠ name → (s.readStep name n').n.udp? x = s.n.udp? x ∧ (s.readStep name n').out x = s.out x := by
    intro n' hq ho
    refine ⟨hq, hq.popped_length, by simp [NS.readStep], rfl, fun x hx => ⟨ho x hx, by simp [NS.readStep, setS_other _ _ _ _ hx]⟩⟩
  rcases hl with ⟨op, e⟩ | ⟨caps, e⟩ <;> subst e
  · have hs : s.step (.uRecv name op)
        = s.readStep name (s.n.mapUdp name (fun u => (u.abortRecv.1.asyncReceive op).1)) := by
      show s.readStep name (s.n.udpAsyncRecv name op).1 = _
      rw [udpAsyncRecv_fst]
    rw [hs]
    exact fin _ (key _ (fun v => UdpSock.asyncReceive_qtail v.abortRecv.1 op))
      (fun x hx => by rw [udp?_mapUdp]; simp [hx])
  · have hs : s.step (.uRecvNb name caps)
        = s.readStep name (s.n.mapUdp name (fun u => (u.abortRecv.1.receiveFrom caps).1)) := by
      show s.readStep name (s.n.udpRecvNb name caps).1 = _
      rw [udpRecvNb_fst]
    rw [hs]
    exact fin _ (key _ (fun v => UdpSock.receiveFrom_qtail v.abortRecv.1 caps))
      (fun x hx => by rw [udp?_mapUdp]; simp [hx])

/-! ## 6. The pinned tree's truncating read leaks receive-buffer account -/

/-- `receive_from_impl` AS IT IS in the pinned tree: only the bytes copied into the caller's
    buffers are released from `m_queue_size`; the discarded remainder of the datagram stays
    accounted for ever. -/
def UdpSock.receiveFromAsIs (u : UdpSock) (caps : List Nat) : UdpSock × Except Ec (List UInt8 × String) :=
  if !u.isOpen then (u, .error .badDesc)
  else if u.bound.isDefault then (u, .error .invalid)
  else match u.queue with
    | [] => (u, .error .wouldBlock)
    | p :: rest =>
      let total := caps.foldl (· + ·) 0
      (({ u with queue := rest, queueSize := u.queueSize - min total p.payload.length }),
        .ok (p.payload.take total, p.src))

namespace C08Ex
def leakSock : UdpSock := { node := "B", isOpen := true, bound := { addr := "10.0.0.2", port := 5000 }, fwd := some 1 }
def leakPkt : Pkt := { id := 7, len := 5, ovh := 28, src := "10.0.0.1:2000", payload := [1, 2, 3, 4, 5] }
end C08Ex

/-- **The leak, concretely.** A 5-byte datagram read with a 2-byte buffer: the pinned tree's
    function returns the same 2 bytes and leaves the queue empty, but 3 bytes stay on the
    account; the repaired function (the one modelled in SimVerif/Net.lean) returns to 0. -/
theorem C08_asis_truncation_leaks :
    (((C08Ex.leakSock.incoming C08Ex.leakPkt).1.receiveFromAsIs [2]).1.queue = []
      ∧ ((C08Ex.leakSock.incoming C08Ex.leakPkt).1.receiveFromAsIs [2]).1.queueSize = 3
      ∧ ((C08Ex.leakSock.incoming C08Ex.leakPkt).1.receiveFromAsIs [2]).2.toOption = some ([1, 2], "10.0.0.1:2000"))
    ∧ (((C08Ex.leakSock.incoming C08Ex.leakPkt).1.receiveFrom [2]).1.queue = []
      ∧ ((C08Ex.leakSock.incoming C08Ex.leakPkt).1.receiveFrom [2]).1.queueSize = 0
      ∧ ((C08Ex.leakSock.incoming C08Ex.leakPkt).1.receiveFrom [2]).2.toOption = some ([1, 2], "10.0.0.1:2000")) := by
  decide

/-- one round of "datagram arrives, reader takes it with too small a buffer" in the pinned tree:
    the queue is empty again, the account grew by the part that did not fit -/
theorem C08_asis_round (u : UdpSock) (p : Pkt) (caps : List Nat) (ho : u.isOpen = true)
    (hb : u.bound.isDefault = false) (hq : u.queue = []) (hr : u.recvH = none) (hw : u.waitRecvH = none)
    (hs : ¬ u.queueSize + p.size > 262144) :
    ((u.incoming p).1.receiveFromAsIs caps).1 =
      { u with queueSize := u.queueSize + p.payload.length - min (caps.foldl (· + ·) 0) p.payload.length } := by
  have e1 : u.incoming p = ({ u with queueSize := u.queueSize + p.payload.length, queue := [p] }, []) := by
    unfold UdpSock.incoming UdpSock.maybeWakeup
    simp [hs, hq, hr, hw]
  rw [e1]
  unfold UdpSock.receiveFromAsIs
  simp [ho, hb]
  cases u; simp_all

/-- `k` rounds of "datagram `p` arrives, the reader takes it with buffers `caps`" in the pinned tree -/
def UdpSock.asisRounds (p : Pkt) (caps : List Nat) : Nat → UdpSock → UdpSock
  | 0, u => u
  | k + 1, u => (((UdpSock.asisRounds p caps k u).incoming p).1.receiveFromAsIs caps).1

/-- **The leak accumulates.** The 5-byte datagram read with a 2-byte buffer, `k` times over: the
    queue is empty after every round and the account stands at `3·k` — as long as the datagram
    is still let in. -/
theorem C08_asis_rounds_accumulate (k : Nat) (hk : 3 * k ≤ 262113) :
    UdpSock.asisRounds C08Ex.leakPkt [2] k C08Ex.leakSock = { C08Ex.leakSock with queueSize := 3 * k } := by
  induction k with
  | zero => rfl
  | succ k ih =>
    unfold UdpSock.asisRounds
    rw [ih (by omega)]
    rw [C08_asis_round _ C08Ex.leakPkt [2] rfl rfl rfl rfl rfl
      (by show ¬ (3 * (k : Int)) + ((33 : Nat) : Int) > 262144; omega)]
    show ({ C08Ex.leakSock with queueSize := 3 * (k : Int) + ((5 : Nat) : Int) - ((2 : Nat) : Int) } : UdpSock)
      = { C08Ex.leakSock with queueSize := 3 * ((k + 1 : Nat) : Int) }
    have : 3 * (k : Int) + ((5 : Nat) : Int) - ((2 : Nat) : Int) = 3 * ((k + 1 : Nat) : Int) := by omega
    rw [this]

/-- … and after 87371 such rounds the very same datagram is refused although the queue is empty:
    in the pinned tree a reader that drains its queue with a short buffer eventually receives
    nothing at all. -/
theorem C08_asis_leak_starves_concrete :
    (UdpSock.asisRounds C08Ex.leakPkt [2] 87371 C08Ex.leakSock).queue = []
    ∧ (UdpSock.asisRounds C08Ex.leakPkt [2] 87371 C08Ex.leakSock).incoming C08Ex.leakPkt
        = (UdpSock.asisRounds C08Ex.leakPkt [2] 87371 C08Ex.leakSock, []) := by
  rw [C08_asis_rounds_accumulate 87371 (by decide)]
  refine ⟨rfl, ?_⟩
  unfold UdpSock.incoming
  rw [if_pos (by decide)]

/-- **… until a datagram is refused by a socket whose queue is empty.** With an account that
    has leaked up to the limit, `incoming_packet` drops a datagram although nothing is queued —
    in the pinned tree such states are reachable by `C08_asis_round`; in the repaired model
    `C08_drained_reader_loses_nothing` excludes them. -/
theorem C08_asis_leak_starves (u : UdpSock) (p : Pkt) (hq : u.queue = [])
    (hleak : u.queueSize + p.size > 262144) : u.incoming p = (u, []) ∧ (u.incoming p).1.queue = [] := by
  have : u.incoming p = (u, []) := by unfold UdpSock.incoming; simp [hleak]
  exact ⟨this, by rw [this]; exact hq⟩

/-! ## 7. `send_to`: what is rejected, what is silently dropped, what is sent and where to -/

/-- **Decision table of `send_to` on a bound socket** (every state `n`). `n1` is the state
    after `abort_send_handlers()`, `e0` its effects (they contain no forward). In order:
    empty → `invalid_argument`; more than 65535 bytes → `message_size`; don't-fragment and
    larger than the path MTU → reported as sent, silently dropped; NIC send queue more than
    `m_send_queue_time` ahead → `would_block`; nothing bound at the destination → reported as
    sent, silently dropped; otherwise exactly one packet is forwarded: the caller's bytes as one
    unit, the sender's bound endpoint as source, 28 bytes of overhead, along the route found at
    this instant. In the five rows that do not send, nothing else changes. -/
theorem C08_send_errors (n : NetSt) (now : Int) (name : String) (dst : Ep) (payload : List UInt8) (u0 : UdpSock)
    (hu : n.udp? name = some u0) (hb : u0.bound.isDefault = false) :
    fwdsOf (u0.abortSend name).2 = []
    ∧ (payload.length = 0 → n.udpSendTo now name dst payload
        = (n.setUdp name { u0 with waitSendH := none }, (u0.abortSend name).2, .invalid, 0))
    ∧ (payload.length > 65535 → n.udpSendTo now name dst payload
        = (n.setUdp name { u0 with waitSendH := none }, (u0.abortSend name).2, .msgSize, 0))
    ∧ (0 < payload.length → payload.length ≤ 65535 → u0.df = true →
        payload.length > n.cfg.pathMtu u0.bound.addr dst.addr → n.udpSendTo now name dst payload
        = (n.setUdp name { u0 with waitSendH := none }, (u0.abortSend name).2, .ok, payload.length))
    ∧ (0 < payload.length → payload.length ≤ 65535 →
        ¬ (u0.df = true ∧ payload.length > n.cfg.pathMtu u0.bound.addr dst.addr) →
        u0.nextSend - now > u0.sendQueueTime → n.udpSendTo now name dst payload
        = (n.setUdp name { u0 with waitSendH := none }, (u0.abortSend name).2, .wouldBlock, 0))
    ∧ (0 < payload.length → payload.length ≤ 65535 →
        ¬ (u0.df = true ∧ payload.length > n.cfg.pathMtu u0.bound.addr dst.addr) →
        ¬ u0.nextSend - now > u0.sendQueueTime →
        (n.setUdp name { u0 with waitSendH := none }).udpRoute u0.bound dst = none →
        n.udpSendTo now name dst payload
        = (n.setUdp name { u0 with waitSendH := none }, (u0.abortSend name).2, .ok, payload.length))
    ∧ (∀ hops, 0 < payload.length → payload.length ≤ 65535 →
        ¬ (u0.df = true ∧ payload.length > n.cfg.pathMtu u0.bound.addr dst.addr) →
        ¬ u0.nextSend - now > u0.sendQueueTime →
        (n.setUdp name { u0 with waitSendH := none }).udpRoute u0.bound dst = some hops →
        n.udpSendTo now name dst payload
        = ((n.setUdp name { u0 with waitSendH := none }).setUdp name
             { u0 with waitSendH := none,
                       nextSend := (if now ≤ u0.nextSend then u0.nextSend else now) + 10 * (payload.length + 28) },
           (u0.abortSend name).2 ++ (if n.cfg.pcap then [NEff.pcapUdp now u0.bound dst payload] else [])
             ++ [.forward (sendPkt u0.bound hops payload)], .ok, payload.length)
        ∧ fwdsOf (n.udpSendTo now name dst payload).2.1 = [sendPkt u0.bound hops payload]) := by
  have h1 : (n.setUdp name { u0 with waitSendH := none }).udp? name = some { u0 with waitSendH := none } := by simp
  rw [udpSendTo_bound n now name dst payload u0 hu hb]
  refine ⟨fwdsOf_abortSend name u0, ?_, ?_, ?_, ?_, ?_, ?_⟩
  · intro h0; exact udpSendTail_invalid _ _ _ _ _ _ _ h1 h0
  · intro h0; exact udpSendTail_msgSize _ _ _ _ _ _ _ h1 h0
  · intro h0 h2 h3 h4; exact udpSendTail_dfDrop _ _ _ _ _ _ _ h1 (by omega) h2 h3 h4
  · intro h0 h2 h3 h4; exact udpSendTail_paced _ _ _ _ _ _ _ h1 (by omega) h2 h3 h4
  · intro h0 h2 h3 h4 h5; exact udpSendTail_noRoute _ _ _ _ _ _ _ h1 (by omega) h2 h3 h4 h5
  · intro hops h0 h2 h3 h4 h5
    have := udpSendTail_sent _ (u0.abortSend name).2 now _ dst payload _ h1 (by omega) h2 h3 h4 hops h5
    refine ⟨this, ?_⟩
    rw [this]
    simp only [fwdsOf_append, fwdsOf_abortSend]
    show fwdsOf (if n.cfg.pcap = true then [NEff.pcapUdp now u0.bound dst payload] else []) ++ _ = _
    rw [fwdsOf_pcap]; rfl

/-- the datagram `send_to` builds -/
theorem C08_send_packet_shape (src : Ep) (hops : List String) (payload : List UInt8) :
    (sendPkt src hops payload).payload = payload ∧ (sendPkt src hops payload).src = src.toString
    ∧ (sendPkt src hops payload).len = payload.length ∧ (sendPkt src hops payload).ovh = 28
    ∧ (sendPkt src hops payload).hops = hops ∧ (sendPkt src hops payload).ty = .payload :=
  ⟨rfl, rfl, rfl, rfl, rfl, rfl⟩

/-- **The route is the one of the socket bound at the destination at this instant.** In every
    reachable state: no route ⇔ nothing is bound at `dst`; otherwise the registered socket `t`
    exists, is open, is bound to exactly `dst`, holds an attached forwarder `f` that reaches
    it, and the route is sender-out ++ network ++ receiver-in ++ [that forwarder]. -/
theorem C08_send_route (c : NetCfg) (hc : c.WF) (ls : List NLbl) (name : String) (u0 : UdpSock) (dst : Ep)
    (hu : ((NS.init c).run ls).n.udp? name = some u0) :
    ((((NS.init c).run ls).n.setUdp name { u0 with waitSendH := none }).udpRoute u0.bound dst = none
      ↔ ((NS.init c).run ls).n.reg.udp.lookup dst = none)
    ∧ ∀ tgt, ((NS.init c).run ls).n.reg.udp.lookup dst = some tgt →
        ∃ t f, ((NS.init c).run ls).n.udp? tgt = some t ∧ t.isOpen = true ∧ t.bound = dst ∧ t.fwd = some f
          ∧ ((NS.init c).run ls).n.fwdTarget f = some tgt
          ∧ (((NS.init c).run ls).n.setUdp name { u0 with waitSendH := none }).udpRoute u0.bound dst
              = some (c.outRoute u0.bound.addr ++ c.netRoute u0.bound.addr dst.addr
                        ++ c.inRoute dst.addr ++ [fwdHop f]) := by
  have hr := RegInv.run c hc ls
  have hcfg : ((NS.init c).run ls).n.cfg = c := NS.run_cfg _ ls
  have tgtSock : ∀ tgt, ((NS.init c).run ls).n.reg.udp.lookup dst = some tgt →
      ∃ t f, ((NS.init c).run ls).n.udp? tgt = some t ∧ t.isOpen = true ∧ t.bound = dst ∧ t.fwd = some f
        ∧ ((NS.init c).run ls).n.fwdTarget f = some tgt
        ∧ ∃ t', (((NS.init c).run ls).n.setUdp name { u0 with waitSendH := none }).udp? tgt = some t'
            ∧ t'.bound = dst ∧ t'.fwd = some f := by
    intro tgt hl
    obtain ⟨t, f, h1, h2, h3, h4, h5⟩ := hr.reg_target hl
    refine ⟨t, f, h1, h2, h3, h4, h5, ?_⟩
    by_cases hx : tgt = name
    · subst hx
      rw [hu] at h1; simp at h1; subst h1
      exact ⟨{ u0 with waitSendH := none }, by simp, h3, h4⟩
    · exact ⟨t, by simp [hx, h1], h3, h4⟩
  constructor
  · rw [udpRoute_none_iff]
    constructor
    · rintro (h | ⟨tgt, hl, hn⟩)
      · exact h
      · obtain ⟨_, _, _, _, _, _, _, t', ht', _⟩ := tgtSock tgt hl
        rw [hn] at ht'; simp at ht'
    · intro h; exact Or.inl h
  · intro tgt hl
    obtain ⟨t, f, h1, h2, h3, h4, h5, t', ht', hb', hf'⟩ := tgtSock tgt hl
    refine ⟨t, f, h1, h2, h3, h4, h5, ?_⟩
    rw [udpRoute_some _ _ _ tgt t' (by simpa using hl) ht']
    simp only [NetSt.incomingRoute, hb', hf', cfg_setUdp, hcfg, List.append_assoc]

/-- **What is sent, and to whom** (system level). In every reachable state, a bound sender
    whose datagram passes the checks and finds `tgt` registered at `dst`: exactly one packet is
    forwarded; it carries the caller's bytes unchanged, the sender's bound endpoint, and its
    last hop is the forwarder `f` currently held by `tgt` — the socket that is open and bound
    to `dst` at this instant. -/
theorem C08_send_forward (c : NetCfg) (hc : c.WF) (ls : List NLbl) (now : Int) (name : String) (u0 : UdpSock)
    (dst : Ep) (payload : List UInt8) (tgt : String)
    (hu : ((NS.init c).run ls).n.udp? name = some u0) (hb : u0.bound.isDefault = false)
    (h0 : 0 < payload.length) (h1 : payload.length ≤ 65535)
    (h2 : ¬ (u0.df = true ∧ payload.length > c.pathMtu u0.bound.addr dst.addr))
    (h3 : ¬ u0.nextSend - now > u0.sendQueueTime)
    (hl : ((NS.init c).run ls).n.reg.udp.lookup dst = some tgt) :
    ∃ t f, ((NS.init c).run ls).n.udp? tgt = some t ∧ t.isOpen = true ∧ t.bound = dst ∧ t.fwd = some f
      ∧ ((NS.init c).run ls).n.fwdTarget f = some tgt
      ∧ fwdsOf (((NS.init c).run ls).n.udpSendTo now name dst payload).2.1
          = [sendPkt u0.bound (c.outRoute u0.bound.addr ++ c.netRoute u0.bound.addr dst.addr
                                ++ c.inRoute dst.addr ++ [fwdHop f]) payload]
      ∧ (((NS.init c).run ls).n.udpSendTo now name dst payload).2.2 = (.ok, payload.length) := by
  have hcfg : ((NS.init c).run ls).n.cfg = c := NS.run_cfg _ ls
  obtain ⟨t, f, a1, a2, a3, a4, a5, a6⟩ := (C08_send_route c hc ls name u0 dst hu).2 tgt hl
  refine ⟨t, f, a1, a2, a3, a4, a5, ?_⟩
  have := (C08_send_errors ((NS.init c).run ls).n now name dst payload u0 hu hb).2.2.2.2.2.2 _ h0 h1
    (by rw [hcfg]; exact h2) h3 a6
  exact ⟨this.2, by rw [this.1]⟩

/-- **Unbound sender**: `send_to` first binds to the wildcard with an ephemeral port; when that
    fails the error of `bind` is returned, 0 bytes, nothing is sent; when it succeeds the
    checks of `C08_send_errors` run in the state after the bind. -/
theorem C08_send_unbound (n : NetSt) (now : Int) (name : String) (dst : Ep) (payload : List UInt8) (u0 : UdpSock)
    (hu : n.udp? name = some u0) (hb : u0.bound.isDefault = true) :
    (((n.setUdp name { u0 with waitSendH := none }).udpBind name {}).2 ≠ .ok →
      n.udpSendTo now name dst payload
        = (((n.setUdp name { u0 with waitSendH := none }).udpBind name {}).1, (u0.abortSend name).2,
           ((n.setUdp name { u0 with waitSendH := none }).udpBind name {}).2, 0)
      ∧ fwdsOf (n.udpSendTo now name dst payload).2.1 = [])
    ∧ (((n.setUdp name { u0 with waitSendH := none }).udpBind name {}).2 = .ok →
      n.udpSendTo now name dst payload
        = ((n.setUdp name { u0 with waitSendH := none }).udpBind name {}).1.udpSendTail (u0.abortSend name).2 .ok
            now name dst payload) := by
  rw [udpSendTo_unbound n now name dst payload u0 hu hb]
  constructor
  · intro h
    rw [udpSendTail_bindFailed _ _ _ _ _ _ _ h]
    exact ⟨rfl, fwdsOf_abortSend name u0⟩
  · intro h; rw [h]

/-- **Totality.** Whatever the state and the arguments, `send_to` reports one of: `other`
    (no such socket object — the model's stand-in for a call on a dead object), `invalid_argument`,
    `message_size`, `would_block`, success with the full length, or — only for an unbound sender —
    an error of the implicit `bind` (`bad_descriptor`, `address_family_not_supported`,
    `address_not_available`, `address_in_use`); bytes are reported only with success. -/
theorem C08_send_total (n : NetSt) (now : Int) (name : String) (dst : Ep) (payload : List UInt8) :
    ((n.udpSendTo now name dst payload).2.2.1 = .ok ∧ (n.udpSendTo now name dst payload).2.2.2 = payload.length)
    ∨ ((n.udpSendTo now name dst payload).2.2.1 ∈
          [Ec.other, .invalid, .msgSize, .wouldBlock, .badDesc, .afNoSupport, .notAvail, .inUse, .denied]
        ∧ (n.udpSendTo now name dst payload).2.2.2 = 0
        ∧ fwdsOf (n.udpSendTo now name dst payload).2.1 = []) := by
  cases hu : n.udp? name with
  | none => right; rw [udpSendTo_none n now name dst payload hu]; simp [fwdsOf]
  | some u0 =>
    rw [udpSendTo_eq n now name dst payload u0 hu]
    have hcodes : (if u0.bound.isDefault then (n.setUdp name { u0 with waitSendH := none }).udpBind name {}
          else (n.setUdp name { u0 with waitSendH := none }, Ec.ok)).2
        ∈ [Ec.other, .badDesc, .afNoSupport, .invalid, .notAvail, .inUse, .denied, .ok] := by
      split
      · exact udpBind_codes _ _ _
      · simp
    rcases udpSendTail_total
        (if u0.bound.isDefault then (n.setUdp name { u0 with waitSendH := none }).udpBind name {}
          else (n.setUdp name { u0 with waitSendH := none }, Ec.ok)).1 (u0.abortSend name).2
        (if u0.bound.isDefault then (n.setUdp name { u0 with waitSendH := none }).udpBind name {}
          else (n.setUdp name { u0 with waitSendH := none }, Ec.ok)).2 now name dst payload
      with ⟨e, hr⟩ | ⟨u, hops, _, _, _, _, _, e⟩
    · have hf := fwdsOf_abortSend name u0
      rcases hr with ⟨hne, hr⟩ | hr | hr | hr | hr | hr
      · right
        rw [e, hr]
        refine ⟨?_, rfl, hf⟩
        generalize (if u0.bound.isDefault then (n.setUdp name { u0 with waitSendH := none }).udpBind name {}
          else (n.setUdp name { u0 with waitSendH := none }, Ec.ok)).2 = ecb at hcodes hne
        simp only [List.mem_cons, List.not_mem_nil, or_false] at hcodes ⊢
        rcases hcodes with h | h | h | h | h | h | h | h <;> simp [h] at hne ⊢
      · right; rw [e, hr]; exact ⟨by simp, rfl, hf⟩
      · right; rw [e, hr]; exact ⟨by simp, rfl, hf⟩
      · right; rw [e, hr]; exact ⟨by simp, rfl, hf⟩
      · right; rw [e, hr]; exact ⟨by simp, rfl, hf⟩
      · left; rw [hr]; exact ⟨rfl, rfl⟩
    · left; rw [e]; exact ⟨rfl, rfl⟩

/-! ## 8. Close, destroy, re-open: the unread datagrams are discarded and never surface -/

/-- **Close / re-open discard the queue; the forwarder is cut for good.** In every reachable
    state, for an existing socket `name` holding forwarder `f`, after `close` (resp. `open`,
    resp. the destructor):
    * the socket has no queue and a zero account (resp. the object is gone);
    * every datagram it had queued is logged as discarded (`false`), `acc` is unchanged;
    * `f` points nowhere and stays so under every later history `ls'`, so a datagram still in
      flight towards `f` changes nothing when it arrives, however late — even after the socket
      was re-opened and re-bound to the same endpoint. -/
theorem C08_close_discards (c : NetCfg) (hc : c.WF) (ls : List NLbl) (name : String) (u : UdpSock) (l : NLbl)
    (hu : ((NS.init c).run ls).n.udp? name = some u)
    (hl : l = .uClose name ∨ l = .uDestroy name ∨ ∃ v4, l = .uOpen name v4) :
    (∀ u', (((NS.init c).run ls).step l).n.udp? name = some u' → u'.queue = [] ∧ u'.queueSize = 0)
    ∧ (l = .uDestroy name → (((NS.init c).run ls).step l).n.udp? name = none)
    ∧ (l ≠ .uDestroy name → ∃ u', (((NS.init c).run ls).step l).n.udp? name = some u')
    ∧ (((NS.init c).run ls).step l).out name = ((NS.init c).run ls).out name ++ u.queue.map (·, false)
    ∧ (((NS.init c).run ls).step l).acc = ((NS.init c).run ls).acc
    ∧ ∀ f, u.fwd = some f → ∀ (ls' : List NLbl) (p : Pkt),
        ((((NS.init c).run ls).step l).run ls').n.fwdTarget f = none
        ∧ ((((NS.init c).run ls).step l).run ls').step (.deliver f p) = (((NS.init c).run ls).step l).run ls' := by
  have hr := RegInv.run c hc ls
  have hq : ((NS.init c).run ls).n.uqueue name = u.queue := uqueue_some hu
  refine ⟨?_, ?_, ?_, ?_, ?_, ?_⟩
  · intro u' hu'
    rcases hl with e | e | ⟨v4, e⟩ <;> subst e
    · have : (((NS.init c).run ls).n.udpClose name).1.udp? name = some u' := hu'
      rw [udpClose_udp?] at this; simp [hu] at this; subst this; exact ⟨rfl, rfl⟩
    · have : (((NS.init c).run ls).n.udpDestroy name).1.udp? name = some u' := hu'
      rw [udpDestroy_udp?] at this; simp at this
    · have : (((NS.init c).run ls).n.udpOpen name v4).1.udp? name = some u' := hu'
      rw [udpOpen_udp?] at this; simp [hu] at this; subst this; exact ⟨rfl, rfl⟩
  · intro e; subst e
    show (((NS.init c).run ls).n.udpDestroy name).1.udp? name = none
    rw [udpDestroy_udp?]; simp
  · intro hne
    rcases hl with e | e | ⟨v4, e⟩
    · subst e
      exact ⟨u.closed, by show (((NS.init c).run ls).n.udpClose name).1.udp? name = _; rw [udpClose_udp?]; simp [hu]⟩
    · exact absurd e hne
    · subst e
      exact ⟨u.opened v4 ((NS.init c).run ls).n.fwds.length,
        by show (((NS.init c).run ls).n.udpOpen name v4).1.udp? name = _; rw [udpOpen_udp?]; simp [hu]⟩
  · rcases hl with e | e | ⟨v4, e⟩ <;> subst e <;> simp [NS.step, NS.discardStep, hq]
  · rcases hl with e | e | ⟨v4, e⟩ <;> subst e <;> rfl
  · intro f hf ls' p
    obtain ⟨d1, d2⟩ := close_like_detaches hr hu hf l hl
    have := detached_run (hr.step l) d1 d2 ls'
    exact ⟨this.1, NS.step_deliver_none _ f p this.1⟩

/-! ## 9. Only to the right socket -/

/-- **(a) A delivery touches exactly the socket its forwarder points at** (every state): all
    other UDP sockets, every TCP object, both registries and the forwarder table are unchanged;
    a detached forwarder swallows the packet. -/
theorem C08_right_socket (s : NS) (f : Nat) (p : Pkt) :
    (∀ x, s.n.fwdTarget f ≠ some x → (s.step (.deliver f p)).n.udp? x = s.n.udp? x
        ∧ (s.step (.deliver f p)).acc x = s.acc x ∧ (s.step (.deliver f p)).out x = s.out x)
    ∧ (s.step (.deliver f p)).n.reg = s.n.reg ∧ (s.step (.deliver f p)).n.fwds = s.n.fwds
    ∧ (s.step (.deliver f p)).n.tcps = s.n.tcps
    ∧ (s.n.fwdTarget f = none → s.step (.deliver f p) = s) := by
  cases hf : s.n.fwdTarget f with
  | none => rw [NS.step_deliver_none s f p hf]; simp
  | some name =>
    cases hu : s.n.udp? name with
    | none => rw [NS.step_deliver_tcp s f p name hf hu]; simp
    | some u =>
      obtain ⟨e1, e2, e3, _⟩ := NS.step_deliver_some s f p name u hf hu
      rw [e1, e2, e3]
      refine ⟨fun x hx => ?_, rfl, rfl, rfl, by simp⟩
      have hx' : x ≠ name := fun e => hx (by rw [e])
      refine ⟨by simp [hx'], ?_, by simp [setS_other _ _ _ _ hx']⟩
      split
      · rfl
      · simp [setS_other _ _ _ _ hx']

/-- **(b) `open` gives the socket a brand-new forwarder and cuts the old one** (reachable
    states): the new id is one no packet in flight can carry, the old one points nowhere. -/
theorem C08_right_socket_reopen (c : NetCfg) (hc : c.WF) (ls : List NLbl) (name : String) (u : UdpSock) (v4 : Bool)
    (hu : ((NS.init c).run ls).n.udp? name = some u) :
    (((NS.init c).run ls).step (.uOpen name v4)).n.fwdTarget ((NS.init c).run ls).n.fwds.length = some name
    ∧ ((NS.init c).run ls).n.fwdTarget ((NS.init c).run ls).n.fwds.length = none
    ∧ (∃ u', (((NS.init c).run ls).step (.uOpen name v4)).n.udp? name = some u'
          ∧ u'.fwd = some ((NS.init c).run ls).n.fwds.length ∧ u'.isOpen = true ∧ u'.bound = {} ∧ u'.queue = [])
    ∧ (∀ f, u.fwd = some f → (((NS.init c).run ls).step (.uOpen name v4)).n.fwdTarget f = none) := by
  have hr := RegInv.run c hc ls
  refine ⟨?_, fwdTarget_ge _ _ (Nat.le_refl _), ?_, ?_⟩
  · show (((NS.init c).run ls).n.udpOpen name v4).1.fwdTarget _ = _
    rw [udpOpen_fwdTarget]; simp [hu]
  · refine ⟨u.opened v4 ((NS.init c).run ls).n.fwds.length, ?_, rfl, rfl, rfl, rfl⟩
    show (((NS.init c).run ls).n.udpOpen name v4).1.udp? name = _
    rw [udpOpen_udp?]; simp [hu]
  · intro f hf
    exact (close_like_detaches hr hu hf (.uOpen name v4) (Or.inr (Or.inr ⟨v4, rfl⟩))).1

/-- **(c) A forwarder keeps reaching its socket** (reachable states) under every label except
    close / destroy / re-open of that socket and move construction from it — whatever happens
    to other sockets, to TCP objects (even of the same name: names of live UDP and TCP objects
    are disjoint), to the registries. Move construction re-points it to the new object. -/
theorem C08_right_socket_kept (c : NetCfg) (hc : c.WF) (ls : List NLbl) (f : Nat) (name : String) (u : UdpSock)
    (hu : ((NS.init c).run ls).n.udp? name = some u)
    (hf : ((NS.init c).run ls).n.fwdTarget f = some name) :
    (∀ l, l.detaches name = false → (((NS.init c).run ls).step l).n.fwdTarget f = some name)
    ∧ (∀ dst, ((NS.init c).run ls).n.fresh dst = true →
        (((NS.init c).run ls).step (.uMove name dst)).n.fwdTarget f = some dst
        ∧ (((NS.init c).run ls).step (.uMove name dst)).n.udp? dst = some u) := by
  have hr := RegInv.run c hc ls
  refine ⟨fun l hl => fwd_kept_step hr hu hf l hl, fun dst hfr => ?_⟩
  have hg : (((NS.init c).run ls).n.fresh dst && (((NS.init c).run ls).n.udp? name).isSome) = true := by
    simp [hfr, hu]
  have hdn : ((NS.init c).run ls).n.udp? dst = none := ((fresh_iff _ _).mp hfr).1
  have hne : dst ≠ name := by intro e; rw [e, hu] at hdn; simp at hdn
  simp only [NS.step, hg, if_true]
  constructor
  · rw [udpMove_fwdTarget _ name dst u hu f (fun g hg => hr.udp_fwd_lt hu hg)]
    simp [(hr.deliver_open hf hu).2]
  · rw [udpMove_udp? _ name dst dst u hu]; simp [hne]

/-! ## 10. Non-vacuity: a concrete history -/

namespace C08Ex
def cfg : NetCfg := { nodes := [("A", ["10.0.0.1"]), ("B", ["10.0.0.2"])], routeIn := [("*", ["qin"])],
                      routeOut := [("*", ["qout"])] }
theorem cfg_wf : cfg.WF := by
  intro node
  unfold NetCfg.ipsOf cfg
  simp only [List.lookup_cons, List.lookup_nil]
  repeat' split
  all_goals decide

def epA : Ep := { addr := "10.0.0.1", port := 4000 }
def epB : Ep := { addr := "10.0.0.2", port := 5000 }
def pre1 : List NLbl := [.uNew "a" "A", .uNew "b" "B", .uOpen "a" true, .uOpen "b" true]
def s4 : NS := (NS.init cfg).run pre1
def s6 : NS := { s4 with n := (s4.n.bindOk "b" epB).bindOk "a" epA }

theorem s6_eq : (NS.init cfg).run (pre1 ++ [.uBind "b" epB, .uBind "a" epA]) = s6 := by
  rw [NS.run_append]
  show ({ ({ s4 with n := (s4.n.udpBind "b" epB).1 } : NS) with
          n := (({ s4 with n := (s4.n.udpBind "b" epB).1 } : NS).n.udpBind "a" epA).1 } : NS) = s6
  have e1 : s4.n.udpBind "b" epB = (s4.n.bindOk "b" epB, .ok) :=
    udpBind_explicit s4.n "b" epB { node := "B", isOpen := true, fwd := some 1 } rfl rfl
      (by rw [Ep.isV4_eq]; decide) (by decide) rfl (by decide) (by decide)
  rw [e1]
  have e2 : (s4.n.bindOk "b" epB).udpBind "a" epA = ((s4.n.bindOk "b" epB).bindOk "a" epA, .ok) :=
    udpBind_explicit _ "a" epA { node := "A", isOpen := true, fwd := some 0 } rfl rfl
      (by rw [Ep.isV4_eq]; decide) (by decide) rfl (by decide) (by decide)
  show ({ s4 with n := ((s4.n.bindOk "b" epB).udpBind "a" epA).1 } : NS) = s6
  rw [e2]
  rfl

def pk (i : Nat) (payload : List UInt8) : Pkt :=
  { id := i, len := payload.length, ovh := 28, src := "10.0.0.1:4000", payload := payload }

/-- `b` parks a 2-byte receive; `a` sends 5 bytes to `b`; three datagrams arrive at `b`'s
    forwarder (the first goes straight to the parked receive, truncated); `b` reads one, closes
    with one unread; a late datagram arrives at the cut forwarder; `b` re-opens (new forwarder
    2); one more late datagram at the old forwarder, one at the new. -/
def post : List NLbl :=
  [.uRecv "b" { h := 9, caps := [2], withEp := true }, .uSendTo 0 "a" epB [1, 2, 3, 4, 5],
   .deliver 1 (pk 1 [1, 2, 3, 4, 5]), .deliver 1 (pk 2 [6, 7]), .deliver 1 (pk 3 [8]),
   .uRecvNb "b" [100], .uClose "b", .deliver 1 (pk 4 [9]), .uOpen "b" true,
   .deliver 1 (pk 5 [10]), .deliver 2 (pk 6 [11, 12])]

def hist : List NLbl := pre1 ++ [.uBind "b" epB, .uBind "a" epA] ++ post

theorem hist_eq : (NS.init cfg).run hist = s6.run post := by
  unfold hist; rw [NS.run_append, s6_eq]

theorem hist_take_eq (k : Nat) : (NS.init cfg).run (pre1 ++ [.uBind "b" epB, .uBind "a" epA] ++ post.take k)
    = s6.run (post.take k) := by
  rw [NS.run_append, s6_eq]

/-- the logs of `b` at the end: accepted 1, 2, 3 (before the close) and 6 (after the re-open);
    1 and 2 handed to the reader, 3 discarded by the close, 6 still queued; 4 and 5 (late, at
    the cut forwarder) never accepted. -/
example : ((s6.run post).acc "b").map (·.id) = [1, 2, 3, 6]
    ∧ ((s6.run post).out "b").map (fun e => (e.1.id, e.2)) = [(1, true), (2, true), (3, false)]
    ∧ ((s6.run post).n.uqueue "b").map (·.id) = [6] := by decide

/-- `C08_fifo` on this history -/
example := C08_fifo cfg cfg_wf hist "b"

/-- the account of `b` at the end is the 2 payload bytes of datagram 6; after the truncating
    hand-over of datagram 1 (5 bytes into a 2-byte buffer) the account was back to 0 -/
example : ((s6.run post).n.udp? "b").map (fun u => (u.isOpen, u.queueSize, u.fwd)) = some (true, 2, some 2)
    ∧ ((s6.run (post.take 3)).n.udp? "b").map (fun u => (u.queueSize, u.queue.length, u.recvH.isSome))
        = some (0, 0, false)
    ∧ ((s6.run (post.take 1)).n.udp? "b").map (fun u => (u.recvH.isSome, u.recvNull)) = some (true, false) := by
  decide

/-- what `send_to` forwarded: one packet, the five bytes, 28 bytes overhead, route
    sender-out, receiver-in, `b`'s forwarder -/
example : (fwdsOf ((s6.run (post.take 1)).n.udpSendTo 0 "a" epB [1, 2, 3, 4, 5]).2.1).map
      (fun p => (p.hops, p.payload, p.len, p.ovh))
    = [(["qout", "qin", "@1"], [1, 2, 3, 4, 5], 5, 28)] := by decide

/-- the hypotheses of `C08_send_forward` hold there -/
example := C08_send_forward cfg cfg_wf (pre1 ++ [.uBind "b" epB, .uBind "a" epA] ++ post.take 1) 0 "a"
  { node := "A", isOpen := true, bound := epA, fwd := some 0 } epB [1, 2, 3, 4, 5] "b"
  (by rw [hist_take_eq 1]; rfl) (by decide) (by decide) (by decide) (by decide) (by decide)
  (by rw [hist_take_eq 1]; decide)

/-- the hypotheses of `C08_parked_receive_gets_datagram` hold after the first two labels -/
example := C08_parked_receive_gets_datagram cfg cfg_wf (pre1 ++ [.uBind "b" epB, .uBind "a" epA] ++ post.take 2) "b"
  { node := "B", isOpen := true, bound := epB, fwd := some 1, recvH := some { h := 9, caps := [2], withEp := true } }
  { h := 9, caps := [2], withEp := true } (pk 1 [1, 2, 3, 4, 5])
  (by rw [hist_take_eq 2]; rfl) rfl (by decide)

/-- the hypotheses of `C08_close_discards` hold before the close (one datagram unread) -/
example := C08_close_discards cfg cfg_wf (pre1 ++ [.uBind "b" epB, .uBind "a" epA] ++ post.take 6) "b"
  { node := "B", isOpen := true, bound := epB, fwd := some 1, queue := [pk 3 [8]], queueSize := 1 }
  (.uClose "b") (by rw [hist_take_eq 6]; rfl) (Or.inl rfl)

/-- the hypotheses of `C08_drained_reader_loses_nothing` hold after the re-open -/
example := C08_drained_reader_loses_nothing cfg cfg_wf (pre1 ++ [.uBind "b" epB, .uBind "a" epA] ++ post.take 10) 2 "b"
  { node := "B", isOpen := true, fwd := some 2 } (pk 6 [11, 12])
  (by rw [hist_take_eq 10]; decide) (by rw [hist_take_eq 10]; rfl) rfl (by decide)

/-- the hypotheses of `C08_right_socket_kept` hold (forwarder 0 reaches `a` throughout) -/
example := C08_right_socket_kept cfg cfg_wf hist 0 "a"
  { node := "A", isOpen := true, bound := epA, fwd := some 0, nextSend := 330 }
  (by rw [hist_eq]; rfl) (by rw [hist_eq]; decide)

end C08Ex

end SimVerif
