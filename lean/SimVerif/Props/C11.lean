/-
  C11 — Endpoint registry: exclusive binds, ephemeral ports, release on close.

  Property theorems only. Mechanism model: SimVerif/Net.lean (registries, `simBind`,
  `ioResolve`, `simUnbind`, UDP sockets), SimVerif/Tcp.lean (TCP sockets, acceptors,
  `internalConnect`). Open system: SimVerif/NetSys.lean — the environment picks any sequence
  `ls` of API calls (labels `NLbl`) on any objects by name, from the empty state
  `NS.init c` of a configuration `c` whose nodes carry no wildcard address (`c.WF`).
  Invariant and its preservation: SimVerif/Lemmas/NetInv.lean, NetRun.lean.
-/
import SimVerif.Lemmas.NetIndep
import SimVerif.Lemmas.UdpData
set_option linter.unusedVariables false

namespace SimVerif

/-! ## exclusive bindings and what an entry means -/

/-- **Exclusive.** Neither table ever holds two entries for one endpoint. -/
theorem C11_exclusive (c : NetCfg) (hc : c.WF) (ls : List NLbl) :
    (((NS.init c).run ls).n.reg.udp.map Prod.fst).Nodup
    ∧ (((NS.init c).run ls).n.reg.tcp.map Prod.fst).Nodup :=
  ⟨(RegInv.run c hc ls).udp.nodup, (RegInv.run c hc ls).tcp.nodup⟩

/-- **UDP entries are exactly the open, bound sockets.** -/
theorem C11_inv_udp (c : NetCfg) (hc : c.WF) (ls : List NLbl) (ep : Ep) (name : String) :
    (ep, name) ∈ ((NS.init c).run ls).n.reg.udp ↔
      ∃ u, ((NS.init c).run ls).n.udp? name = some u ∧ u.isOpen = true ∧ u.bound = ep ∧ ep.isDefault = false := by
  have h := RegInv.run c hc ls
  constructor
  · intro hm
    obtain ⟨h1, h2⟩ := h.udp.sound ep name hm
    cases hu : ((NS.init c).run ls).n.udp? name with
    | none => simp [NetSt.ub, hu] at h1
    | some u =>
      simp only [NetSt.ub, hu, Option.map_some, Option.some.injEq, Prod.mk.injEq] at h1
      exact ⟨u, rfl, h1.1, h1.2, h2⟩
  · rintro ⟨u, hu, ho, hb, hd⟩
    exact h.udp.complete name ep (by simp [NetSt.ub, hu, ho, hb]) hd (by simp)

/-- **TCP entries belong to open sockets bound to that endpoint** … -/
theorem C11_inv_tcp_sound (c : NetCfg) (hc : c.WF) (ls : List NLbl) (ep : Ep) (name : String)
    (hm : (ep, name) ∈ ((NS.init c).run ls).n.reg.tcp) :
    ∃ t, ((NS.init c).run ls).n.tcp? name = some t ∧ t.isOpen = true ∧ t.bound = ep ∧ ep.isDefault = false := by
  have h := RegInv.run c hc ls
  obtain ⟨h1, h2⟩ := h.tcp.sound ep name hm
  cases hu : ((NS.init c).run ls).n.tcp? name with
  | none => simp [NetSt.tb, hu] at h1
  | some t =>
    simp only [NetSt.tb, hu, Option.map_some, Option.some.injEq, Prod.mk.injEq] at h1
    exact ⟨t, rfl, h1.1, h1.2, h2⟩

/-- … and every open TCP object whose endpoint did not come from an accept (`attached`)
    holds the entry for it. -/
theorem C11_inv_tcp_complete (c : NetCfg) (hc : c.WF) (ls : List NLbl) (name : String) (t : TcpSock)
    (ht : ((NS.init c).run ls).n.tcp? name = some t) (ho : t.isOpen = true)
    (hd : t.bound.isDefault = false) (hna : name ∉ ((NS.init c).run ls).attached) :
    (t.bound, name) ∈ ((NS.init c).run ls).n.reg.tcp :=
  (RegInv.run c hc ls).tcp.complete name t.bound (by simp [NetSt.tb, ht, ho]) hd hna

/-- An accepted socket is open, carries an endpoint, and holds NO entry of the table. -/
theorem C11_inv_tcp_attached (c : NetCfg) (hc : c.WF) (ls : List NLbl) (name : String)
    (ha : name ∈ ((NS.init c).run ls).attached) :
    (∃ t, ((NS.init c).run ls).n.tcp? name = some t ∧ t.isOpen = true ∧ t.bound.isDefault = false)
    ∧ ∀ ep, (ep, name) ∉ ((NS.init c).run ls).n.reg.tcp := by
  have h := RegInv.run c hc ls
  refine ⟨?_, h.tcp.att_none name ha⟩
  obtain ⟨ep, h1, h2⟩ := h.tcp.att_bound name ha
  cases hu : ((NS.init c).run ls).n.tcp? name with
  | none => simp [NetSt.tb, hu] at h1
  | some t =>
    simp only [NetSt.tb, hu, Option.map_some, Option.some.injEq, Prod.mk.injEq] at h1
    exact ⟨t, rfl, h1.1, by rw [h1.2]; exact h2⟩

/-- **At most one open UDP socket per endpoint.** -/
theorem C11_one_owner_udp (c : NetCfg) (hc : c.WF) (ls : List NLbl) (a b : String) (ua ub : UdpSock)
    (ha : ((NS.init c).run ls).n.udp? a = some ua) (hb : ((NS.init c).run ls).n.udp? b = some ub)
    (hoa : ua.isOpen = true) (hob : ub.isOpen = true) (hd : ua.bound.isDefault = false)
    (he : ua.bound = ub.bound) : a = b := by
  have h1 := (C11_inv_udp c hc ls ua.bound a).mpr ⟨ua, ha, hoa, rfl, hd⟩
  have h2 := (C11_inv_udp c hc ls ua.bound b).mpr ⟨ub, hb, hob, he.symm, hd⟩
  exact keys_unique _ (C11_exclusive c hc ls).1 _ _ _ h1 h2

/-- … and per TCP endpoint at most one that was not handed its endpoint by an accept. -/
theorem C11_one_owner_tcp (c : NetCfg) (hc : c.WF) (ls : List NLbl) (a b : String) (ta tb : TcpSock)
    (ha : ((NS.init c).run ls).n.tcp? a = some ta) (hb : ((NS.init c).run ls).n.tcp? b = some tb)
    (hoa : ta.isOpen = true) (hob : tb.isOpen = true) (hd : ta.bound.isDefault = false)
    (he : ta.bound = tb.bound)
    (hna : a ∉ ((NS.init c).run ls).attached) (hnb : b ∉ ((NS.init c).run ls).attached) : a = b := by
  have h1 := C11_inv_tcp_complete c hc ls a ta ha hoa hd hna
  have h2 := C11_inv_tcp_complete c hc ls b tb hb hob (he ▸ hd) hnb
  rw [← he] at h2
  exact keys_unique _ (C11_exclusive c hc ls).2 _ _ _ h1 h2

/-- **The guard of `unbind_udp_socket` never fails.** Whatever entry exists for the endpoint a
    UDP socket believes it is bound to belongs to that very socket (UDP has no accepted
    sockets sharing an endpoint) — which is why making that erase unconditional cannot be
    observed, while the TCP twin can (`C11_accepted_close_keeps_acceptor`). -/
theorem C11_udp_entry_is_own (c : NetCfg) (hc : c.WF) (ls : List NLbl) (name x : String) (u : UdpSock)
    (hu : ((NS.init c).run ls).n.udp? name = some u) (hd : u.bound.isDefault = false)
    (hx : (u.bound, x) ∈ ((NS.init c).run ls).n.reg.udp) : x = name := by
  have h := RegInv.run c hc ls
  have ho : u.isOpen = true := by
    cases ho : u.isOpen with
    | true => rfl
    | false =>
      have := h.udp.closed name u.bound (by simp [NetSt.ub, hu, ho])
      rw [this] at hd; simp [Ep.default_isDefault] at hd
  have hm := h.udp.complete name u.bound (by simp [NetSt.ub, hu, ho]) hd (by simp)
  exact keys_unique _ h.udp.nodup _ _ _ hx hm

/-- A closed object is unbound; a bound one never carries the wildcard address. -/
theorem C11_closed_unbound (c : NetCfg) (hc : c.WF) (ls : List NLbl) (name : String) :
    (∀ u, ((NS.init c).run ls).n.udp? name = some u → u.isOpen = false → u.bound = {})
    ∧ (∀ t, ((NS.init c).run ls).n.tcp? name = some t → t.isOpen = false → t.bound = {}) := by
  have h := RegInv.run c hc ls
  exact ⟨fun u hu ho => h.udp.closed name u.bound (by simp [NetSt.ub, hu, ho]),
         fun t ht ho => h.tcp.closed name t.bound (by simp [NetSt.tb, ht, ho])⟩

/-! ## the decision table of `bind`

  Rows in the order the code tests them. `n` is ANY state (the table is a property of the
  functions); `u` the socket `name` denotes. Each row gives the error code AND the state. -/

/-- no such object (a harness artefact: the C++ cannot call a method of a missing object) -/
theorem C11_error_table_udp_missing (n : NetSt) (name : String) (ep : Ep) (h : n.udp? name = none) :
    n.udpBind name ep = (n, .other) := by simp [NetSt.udpBind, h]

/-- closed → bad_descriptor -/
theorem C11_error_table_udp_closed (n : NetSt) (name : String) (ep : Ep) (u : UdpSock)
    (h : n.udp? name = some u) (ho : u.isOpen = false) : n.udpBind name ep = (n, .badDesc) := by
  simp [NetSt.udpBind, h, ho]

/-- family mismatch → address_family_not_supported -/
theorem C11_error_table_udp_family (n : NetSt) (name : String) (ep : Ep) (u : UdpSock)
    (h : n.udp? name = some u) (ho : u.isOpen = true) (hf : ep.isV4 ≠ u.isV4) :
    n.udpBind name ep = (n, .afNoSupport) := by
  simp [NetSt.udpBind, h, ho, hf]

/-- already bound → invalid_argument (and the first binding stays: the state is unchanged) -/
theorem C11_error_table_udp_bound (n : NetSt) (name : String) (ep : Ep) (u : UdpSock)
    (h : n.udp? name = some u) (ho : u.isOpen = true) (hf : ep.isV4 = u.isV4)
    (hb : u.bound.isDefault = false) : n.udpBind name ep = (n, .invalid) := by
  simp [NetSt.udpBind, h, ho, hf, hb]

/-- address resolution: the wildcard becomes the node's FIRST address of the family,
    a concrete address must be one of the node's own -/
theorem C11_error_table_resolve (ips : List String) (ep : Ep) :
    (ep.addr = "0.0.0.0" → ioResolve ips ep =
        match ips.find? addrIsV4 with
        | some ip => .ok { ep with addr := ip }
        | none => .error .notAvail)
    ∧ (ep.addr = "::" → ioResolve ips ep =
        match ips.find? (fun a => !addrIsV4 a) with
        | some ip => .ok { ep with addr := ip }
        | none => .error .notAvail)
    ∧ (ep.addr ≠ "0.0.0.0" → ep.addr ≠ "::" → ep.addr ∈ ips → ioResolve ips ep = .ok ep)
    ∧ (ep.addr ≠ "0.0.0.0" → ep.addr ≠ "::" → ep.addr ∉ ips → ioResolve ips ep = .error .notAvail) := by
  refine ⟨fun h => ?_, fun h => ?_, fun h1 h2 h3 => ?_, fun h1 h2 h3 => ?_⟩
  · unfold ioResolve; simp only [h, beq_self_eq_true, if_true]; cases ips.find? addrIsV4 <;> rfl
  · unfold ioResolve; simp only [h, beq_self_eq_true, if_true]
    cases ips.find? (fun a => !addrIsV4 a) <;> rfl
  · unfold ioResolve; simp [h1, h2, h3]
  · unfold ioResolve; simp [h1, h2, h3]

/-- … the first v4 address found is an address of the node, before it no v4 address occurs -/
theorem C11_wildcard_first (ips : List String) (ip : String) (h : ips.find? addrIsV4 = some ip) :
    ∃ pre post, ips = pre ++ ip :: post ∧ addrIsV4 ip = true ∧ ∀ a ∈ pre, addrIsV4 a = false := by
  obtain ⟨h1, pre, post, h2, h3⟩ := List.find?_eq_some_iff_append.mp h
  exact ⟨pre, post, h2, h1, fun a ha => by simpa using h3 a ha⟩

/-- resolution failed → that error (address_not_available), state unchanged -/
theorem C11_error_table_udp_unresolved (n : NetSt) (name : String) (ep : Ep) (u : UdpSock) (e : Ec)
    (h : n.udp? name = some u) (ho : u.isOpen = true) (hf : ep.isV4 = u.isV4)
    (hb : u.bound.isDefault = true) (hr : ioResolve (n.cfg.ipsOf u.node) ep = .error e) :
    n.udpBind name ep = (n, e) := by
  simp [NetSt.udpBind, h, ho, hf, hb, hr]

/-- privileged port → access_denied, state unchanged -/
theorem C11_error_table_udp_denied (n : NetSt) (name : String) (ep ep1 : Ep) (u : UdpSock)
    (hpre : n.udpBindPre name ep u ep1) (hp : 0 < ep1.port ∧ ep1.port < 1024) :
    n.udpBind name ep = (n, .denied) := by
  rw [udpBind_pre n name ep u ep1 hpre]
  rcases simBind_cases n.reg.udp n.reg.nextPort name ep1 with ⟨_, _, e⟩ | ⟨h0, _, e⟩ | ⟨q, h0, _, e⟩ | ⟨hge, _, e⟩ | ⟨hge, _, e⟩
  · rw [e]
  all_goals omega

/-- explicit port ≥ 1024, endpoint taken → address_in_use, state unchanged -/
theorem C11_error_table_udp_in_use (n : NetSt) (name : String) (ep ep1 : Ep) (u : UdpSock)
    (hpre : n.udpBindPre name ep u ep1) (hp : 1024 ≤ ep1.port)
    (ht : (n.reg.udp.lookup ep1).isSome = true) : n.udpBind name ep = (n, .inUse) := by
  rw [udpBind_pre n name ep u ep1 hpre]
  rcases simBind_cases n.reg.udp n.reg.nextPort name ep1 with ⟨_, _, e⟩ | ⟨h0, _, e⟩ | ⟨q, h0, _, e⟩ | ⟨hge, _, e⟩ | ⟨hge, hl, e⟩
  · omega
  · omega
  · omega
  · rw [e]
  · rw [hl] at ht; simp at ht

/-- explicit port ≥ 1024, endpoint free → success: exactly this entry is added, the socket is
    bound to it, the ephemeral counter does not move -/
theorem C11_error_table_udp_ok (n : NetSt) (name : String) (ep ep1 : Ep) (u : UdpSock)
    (hpre : n.udpBindPre name ep u ep1) (hp : 1024 ≤ ep1.port)
    (ht : n.reg.udp.lookup ep1 = none) :
    n.udpBind name ep =
      (({ n with reg := { n.reg with udp := n.reg.udp ++ [(ep1, name)] } }).setUdp name { u with bound := ep1 }, .ok) := by
  rw [udpBind_pre n name ep u ep1 hpre]
  rcases simBind_cases n.reg.udp n.reg.nextPort name ep1 with ⟨_, _, e⟩ | ⟨h0, _, e⟩ | ⟨q, h0, _, e⟩ | ⟨hge, hl, e⟩ | ⟨hge, hl, e⟩
  · omega
  · omega
  · omega
  · rw [ht] at hl; simp at hl
  · rw [e]

/-- port 0: the probe starts at the counter; either it finds a free port `q` (success with
    that port) or gives up (address_in_use); the counter advances by one (wrapping
    65534 → 2000) in both cases -/
theorem C11_error_table_udp_ephemeral (n : NetSt) (name : String) (ep ep1 : Ep) (u : UdpSock)
    (hpre : n.udpBindPre name ep u ep1) (hp : ep1.port = 0) :
    (probePort n.reg.udp ep1.addr 65536 n.reg.nextPort = none ∧
      n.udpBind name ep = ({ n with reg := { n.reg with nextPort := if n.reg.nextPort + 1 > 65534 then 2000 else n.reg.nextPort + 1 } }, .inUse))
    ∨ (∃ q, probePort n.reg.udp ep1.addr 65536 n.reg.nextPort = some q ∧
      n.udpBind name ep =
        (({ n with reg := { n.reg with udp := n.reg.udp ++ [({ ep1 with port := q }, name)],
                                       nextPort := if n.reg.nextPort + 1 > 65534 then 2000 else n.reg.nextPort + 1 } }).setUdp
            name { u with bound := { ep1 with port := q } }, .ok)) := by
  rw [udpBind_pre n name ep u ep1 hpre]
  rcases simBind_cases n.reg.udp n.reg.nextPort name ep1 with ⟨_, _, e⟩ | ⟨h0, hq, e⟩ | ⟨q, h0, hq, e⟩ | ⟨hge, hl, e⟩ | ⟨hge, hl, e⟩
  · omega
  · left; exact ⟨hq, by rw [e]⟩
  · right; exact ⟨q, hq, by rw [e]⟩
  · omega
  · omega

/-- **Totality**: the code is one of the table's, and anything but success leaves the
    tables, the sockets and the forwarders alone (only the ephemeral counter may advance). -/
theorem C11_error_table_udp_total (n : NetSt) (name : String) (ep : Ep) :
    (n.udpBind name ep).2 ∈ [Ec.other, .badDesc, .afNoSupport, .invalid, .notAvail, .denied, .inUse, .ok]
    ∧ ((n.udpBind name ep).2 ≠ .ok →
        (n.udpBind name ep).1.reg.udp = n.reg.udp ∧ (n.udpBind name ep).1.reg.tcp = n.reg.tcp
        ∧ (n.udpBind name ep).1.udps = n.udps ∧ (n.udpBind name ep).1.tcps = n.tcps
        ∧ (n.udpBind name ep).1.fwds = n.fwds) := by
  by_cases hp : ∃ u ep1, n.udpBindPre name ep u ep1
  · obtain ⟨u, ep1, hpre⟩ := hp
    rw [udpBind_pre n name ep u ep1 hpre]
    rcases simBind_cases n.reg.udp n.reg.nextPort name ep1 with ⟨_, _, e⟩ | ⟨h0, hq, e⟩ | ⟨q, h0, hq, e⟩ | ⟨hge, hl, e⟩ | ⟨hge, hl, e⟩ <;>
      rw [e] <;> simp
  · have h1 := udpBind_nopre n name ep hp
    refine ⟨?_, fun _ => by rw [h1]; exact ⟨rfl, rfl, rfl, rfl, rfl⟩⟩
    unfold NetSt.udpBind
    cases hu : n.udp? name with
    | none => simp
    | some u =>
      dsimp only
      split
      · simp
      · split
        · simp
        · split
          · simp
          · cases hr : ioResolve (n.cfg.ipsOf u.node) ep with
            | error e =>
              have : e = .notAvail := by
                unfold ioResolve at hr
                split at hr
                · split at hr <;> simp at hr; exact hr.symm
                · split at hr
                  · split at hr <;> simp at hr; exact hr.symm
                  · split at hr <;> simp at hr; exact hr.symm
              simp [this]
            | ok ep1 =>
              exfalso; apply hp
              refine ⟨u, ep1, hu, ?_, ?_, ?_, hr⟩ <;> simp_all


/-! ### the same table for `tcp::socket::bind` / `tcp::acceptor::bind` -/

/-- no such object (a harness artefact: the C++ cannot call a method of a missing object) -/
theorem C11_error_table_tcp_missing (n : NetSt) (name : String) (ep : Ep) (h : n.tcp? name = none) :
    n.tcpBind name ep = (n, .other) := by simp [NetSt.tcpBind, h]

/-- closed → bad_descriptor -/
theorem C11_error_table_tcp_closed (n : NetSt) (name : String) (ep : Ep) (u : TcpSock)
    (h : n.tcp? name = some u) (ho : u.isOpen = false) : n.tcpBind name ep = (n, .badDesc) := by
  simp [NetSt.tcpBind, h, ho]

/-- family mismatch → address_family_not_supported -/
theorem C11_error_table_tcp_family (n : NetSt) (name : String) (ep : Ep) (u : TcpSock)
    (h : n.tcp? name = some u) (ho : u.isOpen = true) (hf : ep.isV4 ≠ u.isV4) :
    n.tcpBind name ep = (n, .afNoSupport) := by
  simp [NetSt.tcpBind, h, ho, hf]

/-- already bound → invalid_argument (and the first binding stays: the state is unchanged) -/
theorem C11_error_table_tcp_bound (n : NetSt) (name : String) (ep : Ep) (u : TcpSock)
    (h : n.tcp? name = some u) (ho : u.isOpen = true) (hf : ep.isV4 = u.isV4)
    (hb : u.bound.isDefault = false) : n.tcpBind name ep = (n, .invalid) := by
  simp [NetSt.tcpBind, h, ho, hf, hb]

/-- resolution failed → that error (address_not_available), state unchanged -/
theorem C11_error_table_tcp_unresolved (n : NetSt) (name : String) (ep : Ep) (u : TcpSock) (e : Ec)
    (h : n.tcp? name = some u) (ho : u.isOpen = true) (hf : ep.isV4 = u.isV4)
    (hb : u.bound.isDefault = true) (hr : ioResolve (n.cfg.ipsOf u.node) ep = .error e) :
    n.tcpBind name ep = (n, e) := by
  simp [NetSt.tcpBind, h, ho, hf, hb, hr]

/-- privileged port → access_denied, state unchanged -/
theorem C11_error_table_tcp_denied (n : NetSt) (name : String) (ep ep1 : Ep) (u : TcpSock)
    (hpre : n.tcpBindPre name ep u ep1) (hp : 0 < ep1.port ∧ ep1.port < 1024) :
    n.tcpBind name ep = (n, .denied) := by
  rw [tcpBind_pre n name ep u ep1 hpre]
  rcases simBind_cases n.reg.tcp n.reg.nextPort name ep1 with ⟨_, _, e⟩ | ⟨h0, _, e⟩ | ⟨q, h0, _, e⟩ | ⟨hge, _, e⟩ | ⟨hge, _, e⟩
  · rw [e]
  all_goals omega

/-- explicit port ≥ 1024, endpoint taken → address_in_use, state unchanged -/
theorem C11_error_table_tcp_in_use (n : NetSt) (name : String) (ep ep1 : Ep) (u : TcpSock)
    (hpre : n.tcpBindPre name ep u ep1) (hp : 1024 ≤ ep1.port)
    (ht : (n.reg.tcp.lookup ep1).isSome = true) : n.tcpBind name ep = (n, .inUse) := by
  rw [tcpBind_pre n name ep u ep1 hpre]
  rcases simBind_cases n.reg.tcp n.reg.nextPort name ep1 with ⟨_, _, e⟩ | ⟨h0, _, e⟩ | ⟨q, h0, _, e⟩ | ⟨hge, _, e⟩ | ⟨hge, hl, e⟩
  · omega
  · omega
  · omega
  · rw [e]
  · rw [hl] at ht; simp at ht

/-- explicit port ≥ 1024, endpoint free → success: exactly this entry is added, the socket is
    bound to it, the ephemeral counter does not move -/
theorem C11_error_table_tcp_ok (n : NetSt) (name : String) (ep ep1 : Ep) (u : TcpSock)
    (hpre : n.tcpBindPre name ep u ep1) (hp : 1024 ≤ ep1.port)
    (ht : n.reg.tcp.lookup ep1 = none) :
    n.tcpBind name ep =
      (({ n with reg := { n.reg with tcp := n.reg.tcp ++ [(ep1, name)] } }).setTcp name { u with bound := ep1 }, .ok) := by
  rw [tcpBind_pre n name ep u ep1 hpre]
  rcases simBind_cases n.reg.tcp n.reg.nextPort name ep1 with ⟨_, _, e⟩ | ⟨h0, _, e⟩ | ⟨q, h0, _, e⟩ | ⟨hge, hl, e⟩ | ⟨hge, hl, e⟩
  · omega
  · omega
  · omega
  · rw [ht] at hl; simp at hl
  · rw [e]

/-- port 0: the probe starts at the counter; either it finds a free port `q` (success with
    that port) or gives up (address_in_use); the counter advances by one (wrapping
    65534 → 2000) in both cases -/
theorem C11_error_table_tcp_ephemeral (n : NetSt) (name : String) (ep ep1 : Ep) (u : TcpSock)
    (hpre : n.tcpBindPre name ep u ep1) (hp : ep1.port = 0) :
    (probePort n.reg.tcp ep1.addr 65536 n.reg.nextPort = none ∧
      n.tcpBind name ep = ({ n with reg := { n.reg with nextPort := if n.reg.nextPort + 1 > 65534 then 2000 else n.reg.nextPort + 1 } }, .inUse))
    ∨ (∃ q, probePort n.reg.tcp ep1.addr 65536 n.reg.nextPort = some q ∧
      n.tcpBind name ep =
        (({ n with reg := { n.reg with tcp := n.reg.tcp ++ [({ ep1 with port := q }, name)],
                                       nextPort := if n.reg.nextPort + 1 > 65534 then 2000 else n.reg.nextPort + 1 } }).setTcp
            name { u with bound := { ep1 with port := q } }, .ok)) := by
  rw [tcpBind_pre n name ep u ep1 hpre]
  rcases simBind_cases n.reg.tcp n.reg.nextPort name ep1 with ⟨_, _, e⟩ | ⟨h0, hq, e⟩ | ⟨q, h0, hq, e⟩ | ⟨hge, hl, e⟩ | ⟨hge, hl, e⟩
  · omega
  · left; exact ⟨hq, by rw [e]⟩
  · right; exact ⟨q, hq, by rw [e]⟩
  · omega
  · omega

/-- **Totality**: the code is one of the table's, and anything but success leaves the
    tables, the sockets and the forwarders alone (only the ephemeral counter may advance). -/
theorem C11_error_table_tcp_total (n : NetSt) (name : String) (ep : Ep) :
    (n.tcpBind name ep).2 ∈ [Ec.other, .badDesc, .afNoSupport, .invalid, .notAvail, .denied, .inUse, .ok]
    ∧ ((n.tcpBind name ep).2 ≠ .ok →
        (n.tcpBind name ep).1.reg.tcp = n.reg.tcp ∧ (n.tcpBind name ep).1.reg.udp = n.reg.udp
        ∧ (n.tcpBind name ep).1.tcps = n.tcps ∧ (n.tcpBind name ep).1.udps = n.udps
        ∧ (n.tcpBind name ep).1.fwds = n.fwds) := by
  by_cases hp : ∃ u ep1, n.tcpBindPre name ep u ep1
  · obtain ⟨u, ep1, hpre⟩ := hp
    rw [tcpBind_pre n name ep u ep1 hpre]
    rcases simBind_cases n.reg.tcp n.reg.nextPort name ep1 with ⟨_, _, e⟩ | ⟨h0, hq, e⟩ | ⟨q, h0, hq, e⟩ | ⟨hge, hl, e⟩ | ⟨hge, hl, e⟩ <;>
      rw [e] <;> simp
  · have h1 := tcpBind_nopre n name ep hp
    refine ⟨?_, fun _ => by rw [h1]; exact ⟨rfl, rfl, rfl, rfl, rfl⟩⟩
    unfold NetSt.tcpBind
    cases hu : n.tcp? name with
    | none => simp
    | some u =>
      dsimp only
      split
      · simp
      · split
        · simp
        · split
          · simp
          · cases hr : ioResolve (n.cfg.ipsOf u.node) ep with
            | error e =>
              have : e = .notAvail := by
                unfold ioResolve at hr
                split at hr
                · split at hr <;> simp at hr; exact hr.symm
                · split at hr
                  · split at hr <;> simp at hr; exact hr.symm
                  · split at hr <;> simp at hr; exact hr.symm
              simp [this]
            | ok ep1 =>
              exfalso; apply hp
              refine ⟨u, ep1, hu, ?_, ?_, ?_, hr⟩ <;> simp_all

/-! ## ephemeral ports -/

theorem probePort_le (tbl : List (Ep × String)) (addr : String) (fuel port q : Nat)
    (h : probePort tbl addr fuel port = some q) (hp : port ≤ 65534) : q ≤ 65534 := by
  induction fuel generalizing port with
  | zero => simp [probePort] at h
  | succ f ih =>
    unfold probePort at h
    split at h
    · split at h
      · simp at h
      · exact ih _ h (by omega)
    · simp at h; omega

theorem ioResolve_error (ips : List String) (ep : Ep) (e : Ec) (h : ioResolve ips ep = .error e) :
    e = .notAvail := by
  unfold ioResolve at h
  split at h
  · split at h <;> simp at h; exact h.symm
  · split at h
    · split at h <;> simp at h; exact h.symm
    · split at h <;> simp at h; exact h.symm

theorem udpBind_ok_pre (n : NetSt) (name : String) (ep : Ep) (h : (n.udpBind name ep).2 = .ok) :
    ∃ u ep1, n.udpBindPre name ep u ep1 := by
  unfold NetSt.udpBind at h
  cases hu : n.udp? name with
  | none => simp [hu] at h
  | some u =>
    simp only [hu] at h
    split at h
    · simp at h
    · split at h
      · simp at h
      · split at h
        · simp at h
        · cases hr : ioResolve (n.cfg.ipsOf u.node) ep with
          | error e => rw [hr] at h; have := ioResolve_error _ _ _ hr; subst this; simp at h
          | ok ep1 => exact ⟨u, ep1, hu, by simp_all, by simp_all, by simp_all, hr⟩

theorem tcpBind_ok_pre (n : NetSt) (name : String) (ep : Ep) (h : (n.tcpBind name ep).2 = .ok) :
    ∃ s ep1, n.tcpBindPre name ep s ep1 := by
  unfold NetSt.tcpBind at h
  cases hu : n.tcp? name with
  | none => simp [hu] at h
  | some u =>
    simp only [hu] at h
    split at h
    · simp at h
    · split at h
      · simp at h
      · split at h
        · simp at h
        · cases hr : ioResolve (n.cfg.ipsOf u.node) ep with
          | error e => rw [hr] at h; have := ioResolve_error _ _ _ hr; subst this; simp at h
          | ok ep1 => exact ⟨u, ep1, hu, by simp_all, by simp_all, by simp_all, hr⟩

/-- **Counter invariant**: `m_next_bind_port` stays within [2000, 65534]. -/
theorem C11_counter (c : NetCfg) (hc : c.WF) (ls : List NLbl) :
    2000 ≤ ((NS.init c).run ls).n.reg.nextPort ∧ ((NS.init c).run ls).n.reg.nextPort ≤ 65534 :=
  (RegInv.run c hc ls).port

/-- **Ephemeral ports are free.** A successful UDP bind to port 0 in any reachable state binds
    the socket to an endpoint that NO entry of the UDP table had before, on the resolved
    address, with `counter ≤ port ≤ 65534` — so always ≥ 2000 (the counter never leaves
    [2000, 65534]; after wrapping it restarts at 2000, it never drops into the privileged
    or the low unprivileged range), and the entry is the socket's. -/
theorem C11_ephemeral_free_udp (c : NetCfg) (hc : c.WF) (ls : List NLbl) (name : String) (ep : Ep)
    (hp : ep.port = 0) (hok : (((NS.init c).run ls).n.udpBind name ep).2 = .ok) :
    ∃ u', (((NS.init c).run ls).n.udpBind name ep).1.udp? name = some u'
      ∧ (∀ nm, (u'.bound, nm) ∉ ((NS.init c).run ls).n.reg.udp)
      ∧ ((NS.init c).run ls).n.reg.nextPort ≤ u'.bound.port ∧ 2000 ≤ u'.bound.port ∧ u'.bound.port ≤ 65534
      ∧ (((NS.init c).run ls).n.udpBind name ep).1.reg.udp = ((NS.init c).run ls).n.reg.udp ++ [(u'.bound, name)] := by
  have hcnt := C11_counter c hc ls
  generalize ((NS.init c).run ls).n = n at hok hcnt ⊢
  obtain ⟨u, ep1, hpre⟩ := udpBind_ok_pre n name ep hok
  have hp1 : ep1.port = 0 := by rw [(ioResolve_ok _ _ _ hpre.2.2.2.2).1]; exact hp
  rcases C11_error_table_udp_ephemeral n name ep ep1 u hpre hp1 with ⟨_, e⟩ | ⟨q, hq, e⟩
  · rw [e] at hok; simp at hok
  · rw [e]
    have h1 := probePort_some _ _ _ _ _ hq
    have h2 := probePort_le _ _ _ _ _ hq hcnt.2
    refine ⟨{ u with bound := { ep1 with port := q } }, by simp, ?_, h1.2, by show 2000 ≤ q; omega, h2, rfl⟩
    exact (lookup_none_iff _ _).mp h1.1

theorem C11_ephemeral_free_tcp (c : NetCfg) (hc : c.WF) (ls : List NLbl) (name : String) (ep : Ep)
    (hp : ep.port = 0) (hok : (((NS.init c).run ls).n.tcpBind name ep).2 = .ok) :
    ∃ t', (((NS.init c).run ls).n.tcpBind name ep).1.tcp? name = some t'
      ∧ (∀ nm, (t'.bound, nm) ∉ ((NS.init c).run ls).n.reg.tcp)
      ∧ ((NS.init c).run ls).n.reg.nextPort ≤ t'.bound.port ∧ 2000 ≤ t'.bound.port ∧ t'.bound.port ≤ 65534
      ∧ (((NS.init c).run ls).n.tcpBind name ep).1.reg.tcp = ((NS.init c).run ls).n.reg.tcp ++ [(t'.bound, name)] := by
  have hcnt := C11_counter c hc ls
  generalize ((NS.init c).run ls).n = n at hok hcnt ⊢
  obtain ⟨u, ep1, hpre⟩ := tcpBind_ok_pre n name ep hok
  have hp1 : ep1.port = 0 := by rw [(ioResolve_ok _ _ _ hpre.2.2.2.2).1]; exact hp
  rcases C11_error_table_tcp_ephemeral n name ep ep1 u hpre hp1 with ⟨_, e⟩ | ⟨q, hq, e⟩
  · rw [e] at hok; simp at hok
  · rw [e]
    have h1 := probePort_some _ _ _ _ _ hq
    have h2 := probePort_le _ _ _ _ _ hq hcnt.2
    refine ⟨{ u with bound := { ep1 with port := q } }, by simp, ?_, h1.2, by show 2000 ≤ q; omega, h2, rfl⟩
    exact (lookup_none_iff _ _).mp h1.1

/-- every bound endpoint has a port ≥ 1024 -/
theorem C11_ports_unprivileged (c : NetCfg) (hc : c.WF) (ls : List NLbl) :
    (∀ ep nm, (ep, nm) ∈ ((NS.init c).run ls).n.reg.udp → 1024 ≤ ep.port)
    ∧ (∀ ep nm, (ep, nm) ∈ ((NS.init c).run ls).n.reg.tcp → 1024 ≤ ep.port) :=
  ⟨(RegInv.run c hc ls).udp.ports, (RegInv.run c hc ls).tcp.ports⟩

/-! ## TCP and UDP port spaces are independent -/

macro "triv" : tactic => `(tactic| first | rfl | trivial)

def NLbl.isUdp : NLbl → Bool
  | .uNew .. | .uOpen .. | .uBind .. | .uClose .. | .uDestroy .. | .uMove .. | .uSendTo .. | .uRecv ..
  | .uRecvNb .. | .uWaitRead .. | .uWaitWrite .. | .uSendWaitFired .. | .uCancel .. | .uSetDf .. | .deliver .. => true
  | _ => false

/-- the labels that can reach `simulation::bind_*` with port 0 -/
def NLbl.mayBind : NLbl → Bool
  | .uBind .. | .uSendTo .. | .tBind .. | .tConnect .. => true
  | _ => false

/-- **A UDP operation leaves the TCP table, every TCP object and the accepted-set alone.** -/
theorem C11_tcp_udp_independent_udp (s : NS) (l : NLbl) (hl : l.isUdp = true) :
    (s.step l).n.reg.tcp = s.n.reg.tcp ∧ (∀ x, (s.step l).n.tcp? x = s.n.tcp? x)
    ∧ (s.step l).attached = s.attached := by
  have mk : ∀ {n' : NetSt}, TcpSame s.n n' → n'.reg.tcp = s.n.reg.tcp ∧ (∀ x, n'.tcp? x = s.n.tcp? x) :=
    fun h => ⟨h.regT, h.tcps⟩
  cases l <;> simp only [NLbl.isUdp] at hl <;> (try contradiction) <;> simp only [NS.step, NS.readStep, NS.discardStep]
  case uNew name node =>
    split
    · exact ⟨by triv, fun _ => by triv, by triv⟩
    · exact ⟨by triv, fun _ => by triv, by triv⟩
  case uOpen name v4 => exact ⟨(udpOpen_tcpSame _ _ _).regT, (udpOpen_tcpSame _ _ _).tcps, by triv⟩
  case uBind name ep => exact ⟨(udpBind_tcpSame _ _ _).1.regT, (udpBind_tcpSame _ _ _).1.tcps, by triv⟩
  case uClose name => exact ⟨(udpClose_tcpSame _ _).regT, (udpClose_tcpSame _ _).tcps, by triv⟩
  case uDestroy name => exact ⟨(udpDestroy_tcpSame _ _).regT, (udpDestroy_tcpSame _ _).tcps, by triv⟩
  case uMove src dst =>
    split
    · exact ⟨(udpMove_tcpSame _ _ _).regT, (udpMove_tcpSame _ _ _).tcps, by triv⟩
    · exact ⟨by triv, fun _ => by triv, by triv⟩
  case uSendTo now name dst payload =>
    exact ⟨(udpSendTo_tcpSame _ _ _ _ _).1.regT, (udpSendTo_tcpSame _ _ _ _ _).1.tcps, by triv⟩
  case uRecv name op => exact ⟨(udpAsyncRecv_frame _ _ _).tcpSame.regT, (udpAsyncRecv_frame _ _ _).tcpSame.tcps, by triv⟩
  case uRecvNb name caps => exact ⟨(udpRecvNb_frame _ _ _).tcpSame.regT, (udpRecvNb_frame _ _ _).tcpSame.tcps, by triv⟩
  case uWaitRead name h => exact ⟨(udpWaitRead_frame _ _ _).tcpSame.regT, (udpWaitRead_frame _ _ _).tcpSame.tcps, by triv⟩
  case uWaitWrite now name h => exact ⟨(udpWaitWrite_frame _ _ _ _).tcpSame.regT, (udpWaitWrite_frame _ _ _ _).tcpSame.tcps, by triv⟩
  case uSendWaitFired name ab => exact ⟨(udpSendWaitFired_frame _ _ _).tcpSame.regT, (udpSendWaitFired_frame _ _ _).tcpSame.tcps, by triv⟩
  case uCancel name => exact ⟨(udpCancel_frame _ _).tcpSame.regT, (udpCancel_frame _ _).tcpSame.tcps, by triv⟩
  case uSetDf name df =>
    cases s.n.udp? name <;> exact ⟨by triv, fun _ => by triv, by triv⟩
  case deliver f p =>
    cases s.n.fwdTarget f with
    | none => exact ⟨by triv, fun _ => by triv, by triv⟩
    | some name =>
      dsimp only
      cases s.n.udp? name with
      | none => exact ⟨by triv, fun _ => by triv, by triv⟩
      | some u => dsimp only; split <;> exact ⟨by triv, fun _ => by triv, by triv⟩

/-- **A TCP operation leaves the UDP table, every UDP socket and the datagram logs alone.** -/
theorem C11_tcp_udp_independent_tcp (s : NS) (l : NLbl) (hl : l.isUdp = false) :
    (s.step l).n.reg.udp = s.n.reg.udp ∧ (∀ x, (s.step l).n.udp? x = s.n.udp? x)
    ∧ (s.step l).acc = s.acc ∧ (s.step l).out = s.out := by
  cases l <;> simp only [NLbl.isUdp] at hl <;> (try contradiction) <;> simp only [NS.step]
  case tNew name node isAcc =>
    split
    · exact ⟨by triv, fun _ => by triv, by triv, by triv⟩
    · exact ⟨by triv, fun _ => by triv, by triv, by triv⟩
  case tOpen now name v4 => exact ⟨(tcpOpen_udpSame _ _ _ _).1.regU, (tcpOpen_udpSame _ _ _ _).1.udps, by triv, by triv⟩
  case tBind name ep => exact ⟨(tcpBind_udpSame _ _ _).1.regU, (tcpBind_udpSame _ _ _).1.udps, by triv, by triv⟩
  case tClose now name => exact ⟨(tcpClose_eff _ _ _).udpSame.regU, (tcpClose_eff _ _ _).udpSame.udps, by triv, by triv⟩
  case tDestroy now name => exact ⟨(tcpDestroy_eff _ _ _).udpSame.regU, (tcpDestroy_eff _ _ _).udpSame.udps, by triv, by triv⟩
  case tMove src dst =>
    split
    · exact ⟨(tcpMove_udpSame _ _ _).1.regU, (tcpMove_udpSame _ _ _).1.udps, by triv, by triv⟩
    · exact ⟨by triv, fun _ => by triv, by triv, by triv⟩
  case tConnect now name target h =>
    exact ⟨(tcpConnect_udpSame _ _ _ _ _).1.regU, (tcpConnect_udpSame _ _ _ _ _).1.udps, by triv, by triv⟩
  case aListen name qs => exact ⟨(accListen_frame _ _ _).udpSame.regU, (accListen_frame _ _ _).udpSame.udps, by triv, by triv⟩
  case aClose now name => exact ⟨(accClose_eff _ _ _).udpSame.regU, (accClose_eff _ _ _).udpSame.udps, by triv, by triv⟩
  case tAttach now peer acceptor cid =>
    cases s.n.tcp? acceptor with
    | none => exact ⟨by triv, fun _ => by triv, by triv, by triv⟩
    | some a =>
      dsimp only
      split
      · exact ⟨(tcpAttach_udpSame _ _ _ _ _).1.regU, (tcpAttach_udpSame _ _ _ _ _).1.udps, by triv, by triv⟩
      · exact ⟨by triv, fun _ => by triv, by triv, by triv⟩
  case tPatch name t' chans' =>
    cases s.n.tcp? name with
    | none => exact ⟨by triv, fun _ => by triv, by triv, by triv⟩
    | some t => dsimp only; split <;> exact ⟨by triv, fun _ => by triv, by triv, by triv⟩


/-- **The shared counter.** Any label leaves `m_next_bind_port` where it is or advances it by
    one (65534 wraps to 2000); only the four operations that can reach `simulation::bind_*`
    with port 0 (bind, send_to's and connect's implicit bind) can move it — whichever protocol:
    this counter is the one thing the two port spaces share. -/
theorem C11_counter_moves (s : NS) (l : NLbl) :
    bumped s.n.reg.nextPort (s.step l).n.reg.nextPort
    ∧ (l.mayBind = false → (s.step l).n.reg.nextPort = s.n.reg.nextPort) := by
  have same : ∀ {a b : Nat} {P : Prop}, b = a → bumped a b ∧ (P → b = a) :=
    fun h => ⟨Or.inl h, fun _ => h⟩
  cases l <;> simp only [NS.step, NS.readStep, NS.discardStep, NLbl.mayBind]
  case uNew name node => split <;> exact same rfl
  case uOpen name v4 => (refine same ?_; rw [udpOpen_reg, udpClose_nextPort])
  case uBind name ep => exact ⟨(udpBind_tcpSame _ _ _).2, fun h => absurd h (by decide)⟩
  case uClose name => exact same (udpClose_nextPort _ _)
  case uDestroy name => (refine same ?_; rw [udpDestroy_reg, udpClose_nextPort])
  case uMove src dst =>
    split
    · rename_i hg
      cases hu : s.n.udp? src with
      | none => simp [hu] at hg
      | some u => exact same (udpMove_eff s.n src dst u hu).port
    · exact same rfl
  case uSendTo now name dst payload => exact ⟨(udpSendTo_tcpSame _ _ _ _ _).2, fun h => absurd h (by decide)⟩
  case uRecv name op => (refine same ?_; rw [(udpAsyncRecv_frame _ _ _).reg])
  case uRecvNb name caps => (refine same ?_; rw [(udpRecvNb_frame _ _ _).reg])
  case uWaitRead name h => (refine same ?_; rw [(udpWaitRead_frame _ _ _).reg])
  case uWaitWrite now name h => (refine same ?_; rw [(udpWaitWrite_frame _ _ _ _).reg])
  case uSendWaitFired name ab => (refine same ?_; rw [(udpSendWaitFired_frame _ _ _).reg])
  case uCancel name => (refine same ?_; rw [(udpCancel_frame _ _).reg])
  case uSetDf name df => cases s.n.udp? name <;> exact same rfl
  case deliver f p =>
    cases s.n.fwdTarget f with
    | none => exact same rfl
    | some name =>
      dsimp only
      cases s.n.udp? name with
      | none => exact same rfl
      | some u => exact same rfl
  case tNew name node isAcc => split <;> exact same rfl
  case tOpen now name v4 => exact same (tcpOpen_udpSame _ _ _ _).2
  case tBind name ep => exact ⟨(tcpBind_udpSame _ _ _).2, fun h => absurd h (by decide)⟩
  case tClose now name => exact same (tcpClose_eff _ _ _).port
  case tDestroy now name => exact same (tcpDestroy_eff _ _ _).port
  case tMove src dst =>
    split
    · exact same (tcpMove_udpSame _ _ _).2
    · exact same rfl
  case tConnect now name target h => exact ⟨(tcpConnect_udpSame _ _ _ _ _).2, fun h => absurd h (by decide)⟩
  case aListen name qs => (refine same ?_; rw [(accListen_frame _ _ _).reg])
  case aClose now name => exact same (accClose_eff _ _ _).port
  case tAttach now peer acceptor cid =>
    cases s.n.tcp? acceptor with
    | none => exact same rfl
    | some a =>
      dsimp only
      split
      · exact same (tcpAttach_udpSame _ _ _ _ _).2
      · exact same rfl
  case tPatch name t' chans' =>
    cases s.n.tcp? name with
    | none => exact same rfl
    | some t => dsimp only; split <;> exact same rfl

/-! ## release on close / destroy / re-open -/

/-- **Release.** After `close`, the destructor, or `open` on UDP socket `name`, no entry of
    the UDP table maps to `name` — in any state `s`, reachable or not. -/
theorem C11_release_udp (s : NS) (name : String) (l : NLbl)
    (hl : l = .uClose name ∨ l = .uDestroy name ∨ (∃ v4, l = .uOpen name v4)) (hr : RegInv s) :
    ∀ ep, (ep, name) ∉ (s.step l).n.reg.udp := by
  have hr' := hr.step l
  intro ep hm
  obtain ⟨h1, _⟩ := hr'.udp.sound ep name hm
  rcases hl with rfl | rfl | ⟨v4, rfl⟩
  · have e := (udpClose_eff s.n name).uv name
    have : (s.step (.uClose name)).n.ub name = ((s.n.udpClose name).1.uv name).map (fun v => (v.1, v.2.1)) :=
      NetSt.ub_eq _ _
    rw [this, e] at h1
    cases s.n.uv name <;> simp at h1
  · have e := (udpDestroy_eff s.n name).uv name
    have : (s.step (.uDestroy name)).n.ub name = ((s.n.udpDestroy name).1.uv name).map (fun v => (v.1, v.2.1)) :=
      NetSt.ub_eq _ _
    rw [this, e] at h1
    simp at h1
  · have e1 := (udpClose_eff s.n name).uv name
    have e2 := (udpOpen_eff s.n name v4).uv name
    have : (s.step (.uOpen name v4)).n.ub name = ((s.n.udpOpen name v4).1.uv name).map (fun v => (v.1, v.2.1)) :=
      NetSt.ub_eq _ _
    rw [this, e2, e1] at h1
    have h2 := (hr'.udp.sound ep name hm).2
    simp at h1
    obtain ⟨_, h1⟩ := h1
    subst h1; simp [Ep.default_isDefault] at h2

theorem C11_release_tcp (s : NS) (name : String) (l : NLbl)
    (hl : (∃ now, l = .tClose now name) ∨ (∃ now, l = .tDestroy now name) ∨ (∃ now, l = .aClose now name)
          ∨ (∃ now v4, l = .tOpen now name v4)) (hr : RegInv s) :
    ∀ ep, (ep, name) ∉ (s.step l).n.reg.tcp := by
  have hr' := hr.step l
  intro ep hm
  obtain ⟨h1, h2⟩ := hr'.tcp.sound ep name hm
  rw [NetSt.tb_eq] at h1
  rcases hl with ⟨now, rfl⟩ | ⟨now, rfl⟩ | ⟨now, rfl⟩ | ⟨now, v4, rfl⟩
  · have e := (tcpClose_eff s.n now name).tv name
    change Option.map _ ((s.n.tcpClose now name).1.tv name) = _ at h1
    rw [e] at h1
    cases s.n.tv name <;> simp at h1
  · have e := (tcpDestroy_eff s.n now name).tv name
    change Option.map _ ((s.n.tcpDestroy now name).1.tv name) = _ at h1
    rw [e] at h1
    simp at h1
  · have e := (accClose_eff s.n now name).tv name
    change Option.map _ ((s.n.accClose now name).1.tv name) = _ at h1
    rw [e] at h1
    cases s.n.tv name <;> simp at h1
  · change Option.map _ ((s.n.tcpOpen now name v4).1.tv name) = _ at h1
    rw [tcpOpen_nf, (tcpOpen2_eff _ name v4).tv, (tcpClose_eff s.n now name).tv] at h1
    simp at h1
    obtain ⟨_, h1⟩ := h1
    subst h1; simp [Ep.default_isDefault] at h2

/-- … over all histories -/
theorem C11_release (c : NetCfg) (hc : c.WF) (ls : List NLbl) (name : String) :
    (∀ ep, (ep, name) ∉ (((NS.init c).run ls).step (.uClose name)).n.reg.udp)
    ∧ (∀ ep, (ep, name) ∉ (((NS.init c).run ls).step (.uDestroy name)).n.reg.udp)
    ∧ (∀ v4 ep, (ep, name) ∉ (((NS.init c).run ls).step (.uOpen name v4)).n.reg.udp)
    ∧ (∀ now ep, (ep, name) ∉ (((NS.init c).run ls).step (.tClose now name)).n.reg.tcp)
    ∧ (∀ now ep, (ep, name) ∉ (((NS.init c).run ls).step (.tDestroy now name)).n.reg.tcp)
    ∧ (∀ now ep, (ep, name) ∉ (((NS.init c).run ls).step (.aClose now name)).n.reg.tcp)
    ∧ (∀ now v4 ep, (ep, name) ∉ (((NS.init c).run ls).step (.tOpen now name v4)).n.reg.tcp) := by
  have hr := RegInv.run c hc ls
  exact ⟨C11_release_udp _ name _ (Or.inl rfl) hr,
    C11_release_udp _ name _ (Or.inr (Or.inl rfl)) hr,
    fun v4 => C11_release_udp _ name _ (Or.inr (Or.inr ⟨v4, rfl⟩)) hr,
    fun now => C11_release_tcp _ name _ (Or.inl ⟨now, rfl⟩) hr,
    fun now => C11_release_tcp _ name _ (Or.inr (Or.inl ⟨now, rfl⟩)) hr,
    fun now => C11_release_tcp _ name _ (Or.inr (Or.inr (Or.inl ⟨now, rfl⟩))) hr,
    fun now v4 => C11_release_tcp _ name _ (Or.inr (Or.inr (Or.inr ⟨now, v4, rfl⟩))) hr⟩


/-- the configuration never changes -/
theorem C11_step_cfg (s : NS) (l : NLbl) : (s.step l).n.cfg = s.n.cfg := NS.step_cfg s l

theorem C11_cfg_constant (c : NetCfg) (ls : List NLbl) : ((NS.init c).run ls).n.cfg = c := by
  suffices ∀ s : NS, (s.run ls).n.cfg = s.n.cfg from this (NS.init c)
  induction ls with
  | nil => exact fun s => rfl
  | cons l ls ih => exact fun s => (ih _).trans (C11_step_cfg s l)

/-- closing the holder of `ep` frees `ep` -/
theorem closeEffU_frees {n n' : NetSt} {att : List String} (h : RegInvN n att) {name : String} {ep : Ep}
    (hreg : n'.reg.udp = match n.uv name with
          | some v => if v.2.1.isDefault then n.reg.udp else simUnbind n.reg.udp name v.2.1
          | none => n.reg.udp)
    (hheld : (ep, name) ∈ n.reg.udp) : n'.reg.udp.lookup ep = none := by
  rw [lookup_none_iff]
  intro x hx
  obtain ⟨h1, h2⟩ := h.udp.sound ep name hheld
  rw [NetSt.ub_eq] at h1
  cases hv : n.uv name with
  | none => rw [hv] at h1; simp at h1
  | some v =>
    rw [hv] at h1 hreg
    simp only [Option.map_some, Option.some.injEq, Prod.mk.injEq] at h1
    dsimp only at hreg
    rw [h1.2, h2] at hreg
    simp only [Bool.false_eq_true, if_false] at hreg
    rw [hreg, mem_simUnbind] at hx
    exact hx.2 ⟨rfl, keys_unique _ h.udp.nodup ep x name hx.1 hheld⟩

/-- **… so that it can be bound again.** If UDP socket `name` held `ep`, then right after its
    close / destruction / re-open ANY open, unbound socket `other` of the right family on a
    node that owns the address binds `ep` successfully. -/
theorem C11_release_rebind_udp (c : NetCfg) (hc : c.WF) (ls : List NLbl) (name other : String) (ep : Ep)
    (l : NLbl) (hl : l = .uClose name ∨ l = .uDestroy name ∨ (∃ v4, l = .uOpen name v4))
    (hheld : (ep, name) ∈ ((NS.init c).run ls).n.reg.udp)
    (v : UdpSock) (hv : (((NS.init c).run ls).step l).n.udp? other = some v)
    (ho : v.isOpen = true) (hfam : ep.isV4 = v.isV4) (hub : v.bound.isDefault = true)
    (hown : ep.addr ∈ c.ipsOf v.node) :
    ((((NS.init c).run ls).step l).n.udpBind other ep).2 = .ok := by
  have hr := RegInv.run c hc ls
  have hcfg : (((NS.init c).run ls).step l).n.cfg = c := by
    rw [C11_step_cfg, C11_cfg_constant]
  have hfree : (((NS.init c).run ls).step l).n.reg.udp.lookup ep = none := by
    rcases hl with rfl | rfl | ⟨v4, rfl⟩
    · exact closeEffU_frees hr.toN (udpClose_eff _ name).regU hheld
    · exact closeEffU_frees hr.toN (udpDestroy_eff _ name).regU hheld
    · exact closeEffU_frees hr.toN (by
        show (((NS.init c).run ls).n.udpOpen name v4).1.reg.udp = _
        rw [udpOpen_reg]; exact (udpClose_eff _ name).regU) hheld
  have hport := hr.udp.ports ep name hheld
  have hw := hc v.node
  have hres : ioResolve ((((NS.init c).run ls).step l).n.cfg.ipsOf v.node) ep = .ok ep := by
    rw [hcfg]
    exact (C11_error_table_resolve _ ep).2.2.1 (fun h => hw.1 (h ▸ hown)) (fun h => hw.2 (h ▸ hown)) hown
  rw [C11_error_table_udp_ok _ other ep ep v ⟨hv, ho, hfam, hub, hres⟩ hport hfree]


theorem closeEff_frees {n n' : NetSt} {att : List String} (h : RegInvN n att) {name : String} {ep : Ep}
    (hreg : n'.reg.tcp = match n.tv name with
          | some v => if v.2.1.isDefault then n.reg.tcp else simUnbind n.reg.tcp name v.2.1
          | none => n.reg.tcp)
    (hheld : (ep, name) ∈ n.reg.tcp) : n'.reg.tcp.lookup ep = none := by
  rw [lookup_none_iff]
  intro x hx
  obtain ⟨h1, h2⟩ := h.tcp.sound ep name hheld
  rw [NetSt.tb_eq] at h1
  cases hv : n.tv name with
  | none => rw [hv] at h1; simp at h1
  | some v =>
    rw [hv] at h1 hreg
    simp only [Option.map_some, Option.some.injEq, Prod.mk.injEq] at h1
    dsimp only at hreg
    rw [h1.2, h2] at hreg
    simp only [Bool.false_eq_true, if_false] at hreg
    rw [hreg, mem_simUnbind] at hx
    exact hx.2 ⟨rfl, keys_unique _ h.tcp.nodup ep x name hx.1 hheld⟩

/-- the same for TCP sockets and acceptors -/
theorem C11_release_rebind_tcp (c : NetCfg) (hc : c.WF) (ls : List NLbl) (name other : String) (ep : Ep)
    (l : NLbl)
    (hl : (∃ now, l = .tClose now name) ∨ (∃ now, l = .tDestroy now name) ∨ (∃ now, l = .aClose now name)
          ∨ (∃ now v4, l = .tOpen now name v4))
    (hheld : (ep, name) ∈ ((NS.init c).run ls).n.reg.tcp)
    (v : TcpSock) (hv : (((NS.init c).run ls).step l).n.tcp? other = some v)
    (ho : v.isOpen = true) (hfam : ep.isV4 = v.isV4) (hub : v.bound.isDefault = true)
    (hown : ep.addr ∈ c.ipsOf v.node) :
    ((((NS.init c).run ls).step l).n.tcpBind other ep).2 = .ok := by
  have hr := RegInv.run c hc ls
  have hcfg : (((NS.init c).run ls).step l).n.cfg = c := by
    rw [C11_step_cfg, C11_cfg_constant]
  have hfree : (((NS.init c).run ls).step l).n.reg.tcp.lookup ep = none := by
    rcases hl with ⟨now, rfl⟩ | ⟨now, rfl⟩ | ⟨now, rfl⟩ | ⟨now, v4, rfl⟩
    · exact closeEff_frees hr.toN (tcpClose_eff _ now name).regT hheld
    · exact closeEff_frees hr.toN (tcpDestroy_eff _ now name).regT hheld
    · exact closeEff_frees hr.toN (accClose_eff _ now name).regT hheld
    · exact closeEff_frees hr.toN (by
        show (((NS.init c).run ls).n.tcpOpen now name v4).1.reg.tcp = _
        rw [tcpOpen_nf, (tcpOpen2_eff _ name v4).reg]; exact (tcpClose_eff _ now name).regT) hheld
  have hport := hr.tcp.ports ep name hheld
  have hw := hc v.node
  have hres : ioResolve ((((NS.init c).run ls).step l).n.cfg.ipsOf v.node) ep = .ok ep := by
    rw [hcfg]
    exact (C11_error_table_resolve _ ep).2.2.1 (fun h => hw.1 (h ▸ hown)) (fun h => hw.2 (h ▸ hown)) hown
  rw [C11_error_table_tcp_ok _ other ep ep v ⟨hv, ho, hfam, hub, hres⟩ hport hfree]

/-! ## move construction transfers the binding -/

/-- **Move (UDP).** After `udp::socket(socket&&)` from `src` into the new object `dst`, every
    entry that pointed at `src` points at `dst`, `src` holds none and is closed, `dst` carries
    `src`'s endpoint. -/
theorem C11_move_transfers_udp (c : NetCfg) (hc : c.WF) (ls : List NLbl) (src dst : String) (u : UdpSock)
    (hfresh : ((NS.init c).run ls).n.fresh dst = true) (hu : ((NS.init c).run ls).n.udp? src = some u) :
    (∀ ep, (ep, src) ∈ ((NS.init c).run ls).n.reg.udp →
        (ep, dst) ∈ (((NS.init c).run ls).step (.uMove src dst)).n.reg.udp)
    ∧ (∀ ep, (ep, src) ∉ (((NS.init c).run ls).step (.uMove src dst)).n.reg.udp)
    ∧ (∃ u', (((NS.init c).run ls).step (.uMove src dst)).n.udp? src = some u' ∧ u'.isOpen = false ∧ u'.bound = {})
    ∧ (((NS.init c).run ls).step (.uMove src dst)).n.udp? dst = some u := by
  have hr := RegInv.run c hc ls
  have hr' := hr.step (.uMove src dst)
  have hstep : (((NS.init c).run ls).step (.uMove src dst)).n = ((NS.init c).run ls).n.udpMove src dst := by
    simp [NS.step, hfresh, hu]
  have e := udpMove_eff _ src dst u hu
  have hne : src ≠ dst := by
    intro hc'; subst hc'; rw [fresh_iff] at hfresh; rw [hfresh.1] at hu; simp at hu
  have hsrc : (((NS.init c).run ls).step (.uMove src dst)).n.uv src = some (false, {}, none) := by
    rw [hstep, e.uv]; simp
  have hdst : (((NS.init c).run ls).step (.uMove src dst)).n.uv dst = some u.view := by
    rw [hstep, e.uv]; simp [hne.symm]
  refine ⟨fun ep hm => ?_, fun ep hm => ?_, ?_, ?_⟩
  · obtain ⟨h1, h2⟩ := hr.udp.sound ep src hm
    simp only [NetSt.ub, hu, Option.map_some, Option.some.injEq, Prod.mk.injEq] at h1
    apply hr'.udp.complete dst ep _ h2 (by simp)
    rw [NetSt.ub_eq, hdst]; simp [UdpSock.view, h1.1, h1.2]
  · obtain ⟨h1, _⟩ := hr'.udp.sound ep src hm
    rw [NetSt.ub_eq, hsrc] at h1; simp at h1
  · cases hs : (((NS.init c).run ls).step (.uMove src dst)).n.udp? src with
    | none => simp [NetSt.uv, hs] at hsrc
    | some u' =>
      simp only [NetSt.uv, hs, Option.map_some, Option.some.injEq, UdpSock.view, Prod.mk.injEq] at hsrc
      exact ⟨u', rfl, hsrc.1, hsrc.2.1⟩
  · rw [hstep]
    obtain ⟨u', _, _, he⟩ := udpMove_some _ src dst u hu
    rw [he, udp?_setUdp, udp?_setUdp]; simp [hne.symm]

/-- **Move (TCP).** The same; an accepted socket (no entry of its own) stays one. -/
theorem C11_move_transfers_tcp (c : NetCfg) (hc : c.WF) (ls : List NLbl) (src dst : String) (t : TcpSock)
    (hfresh : ((NS.init c).run ls).n.fresh dst = true) (ht : ((NS.init c).run ls).n.tcp? src = some t) :
    (∀ ep, (ep, src) ∈ ((NS.init c).run ls).n.reg.tcp →
        (ep, dst) ∈ (((NS.init c).run ls).step (.tMove src dst)).n.reg.tcp)
    ∧ (∀ ep, (ep, src) ∉ (((NS.init c).run ls).step (.tMove src dst)).n.reg.tcp)
    ∧ (∃ t', (((NS.init c).run ls).step (.tMove src dst)).n.tcp? src = some t' ∧ t'.isOpen = false ∧ t'.bound = {})
    ∧ (((NS.init c).run ls).step (.tMove src dst)).n.tcp? dst = some t
    ∧ (src ∈ ((NS.init c).run ls).attached → dst ∈ (((NS.init c).run ls).step (.tMove src dst)).attached) := by
  have hr := RegInv.run c hc ls
  have hr' := hr.step (.tMove src dst)
  have hstep : (((NS.init c).run ls).step (.tMove src dst)).n = ((NS.init c).run ls).n.tcpMove src dst := by
    simp [NS.step, hfresh, ht]
  have hatt : (((NS.init c).run ls).step (.tMove src dst)).attached
      = ((NS.init c).run ls).attached.map (fun x => if x = src then dst else x) := by
    simp [NS.step, hfresh, ht]
  have e := tcpMove_eff _ src dst t ht
  have hne : src ≠ dst := by
    intro hc'; subst hc'; rw [fresh_iff] at hfresh; rw [hfresh.2] at ht; simp at ht
  have hsrc : (((NS.init c).run ls).step (.tMove src dst)).n.tv src = some (false, {}, none) := by
    rw [hstep, e.tv]; simp
  have hdst : (((NS.init c).run ls).step (.tMove src dst)).n.tv dst = some t.view := by
    rw [hstep, e.tv]; simp [hne.symm]
  refine ⟨fun ep hm => ?_, fun ep hm => ?_, ?_, ?_, fun hm => ?_⟩
  · obtain ⟨h1, h2⟩ := hr.tcp.sound ep src hm
    simp only [NetSt.tb, ht, Option.map_some, Option.some.injEq, Prod.mk.injEq] at h1
    apply hr'.tcp.complete dst ep _ h2
    · rw [hatt]
      intro hc'
      obtain ⟨y, hy, hyd⟩ := List.mem_map.mp hc'
      by_cases hys : y = src
      · subst hys; exact hr.tcp.att_none y hy ep hm
      · simp only [hys, if_false] at hyd
        subst hyd
        obtain ⟨e', he', _⟩ := hr.tcp.att_bound y hy
        rw [fresh_iff] at hfresh
        simp [NetSt.tb, hfresh.2] at he'
    · rw [NetSt.tb_eq, hdst]; simp [TcpSock.view, h1.1, h1.2]
  · obtain ⟨h1, _⟩ := hr'.tcp.sound ep src hm
    rw [NetSt.tb_eq, hsrc] at h1; simp at h1
  · cases hs : (((NS.init c).run ls).step (.tMove src dst)).n.tcp? src with
    | none => simp [NetSt.tv, hs] at hsrc
    | some t' =>
      simp only [NetSt.tv, hs, Option.map_some, Option.some.injEq, TcpSock.view, Prod.mk.injEq] at hsrc
      exact ⟨t', rfl, hsrc.1, hsrc.2.1⟩
  · rw [hstep]
    obtain ⟨t', _, he⟩ := tcpMove_some _ src dst t ht
    rw [he, tcp?_setTcp, tcp?_setTcp]; simp [hne.symm]
  · rw [hatt]; exact List.mem_map.mpr ⟨src, hm, by simp⟩

/-! ## closing an accepted socket never unbinds its acceptor -/

/-- `unbind_socket` erases only the caller's own entry -/
theorem C11_unbind_keeps_others (tbl : List (Ep × String)) (name other : String) (ep ep' : Ep)
    (h : (ep', other) ∈ tbl) (hne : other ≠ name) : (ep', other) ∈ simUnbind tbl name ep := by
  rw [mem_simUnbind]; exact ⟨h, fun hc => hne hc.2⟩

/-- **Accepted close.** Closing (or destroying, or re-opening) any TCP object `name` leaves
    every entry that belongs to ANOTHER name in place — in particular the acceptor's entry for
    the endpoint an accepted socket shares with it. -/
theorem C11_accepted_close_keeps_acceptor (s : NS) (name other : String) (ep : Ep)
    (h : (ep, other) ∈ s.n.reg.tcp) (hne : other ≠ name) (now : Int) :
    (ep, other) ∈ (s.step (.tClose now name)).n.reg.tcp
    ∧ (ep, other) ∈ (s.step (.tDestroy now name)).n.reg.tcp
    ∧ (∀ v4, (ep, other) ∈ (s.step (.tOpen now name v4)).n.reg.tcp) := by
  have key : ∀ n' : NetSt, (n'.reg.tcp = match s.n.tv name with
          | some v => if v.2.1.isDefault then s.n.reg.tcp else simUnbind s.n.reg.tcp name v.2.1
          | none => s.n.reg.tcp) → (ep, other) ∈ n'.reg.tcp := by
    intro n' hr
    rw [hr]
    cases s.n.tv name with
    | none => exact h
    | some v =>
      dsimp only
      split
      · exact h
      · exact C11_unbind_keeps_others _ _ _ _ _ h hne
  refine ⟨key _ (tcpClose_eff s.n now name).regT, key _ (tcpDestroy_eff s.n now name).regT, fun v4 => ?_⟩
  apply key
  show (s.n.tcpOpen now name v4).1.reg.tcp = _
  rw [tcpOpen_nf, (tcpOpen2_eff _ name v4).reg]; exact (tcpClose_eff s.n now name).regT

/-- … stated for accepted sockets over all histories: the socket `name` carries endpoint `ep`
    through an accept, `acc` holds the entry for `ep`; after `name.close()` it still does. -/
theorem C11_accepted_close (c : NetCfg) (hc : c.WF) (ls : List NLbl) (name acc : String) (ep : Ep)
    (ha : name ∈ ((NS.init c).run ls).attached) (h : (ep, acc) ∈ ((NS.init c).run ls).n.reg.tcp) (now : Int) :
    (ep, acc) ∈ (((NS.init c).run ls).step (.tClose now name)).n.reg.tcp := by
  have hne : acc ≠ name := by
    intro hc'; subst hc'
    exact (RegInv.run c hc ls).tcp.att_none acc ha ep h
  exact (C11_accepted_close_keeps_acceptor _ name acc ep h hne now).1


/-! ## connects and datagrams never reach a socket that no longer holds the binding -/

/-- no entry for the destination at this instant → the datagram has no route (it is dropped) -/
theorem C11_no_stale_delivery_udp_unbound (n : NetSt) (src dst : Ep)
    (h : ∀ nm, (dst, nm) ∉ n.reg.udp) : n.udpRoute src dst = none := by
  unfold NetSt.udpRoute
  rw [(lookup_none_iff _ _).mpr h]

/-- an entry exists → the route ends in the CURRENT forwarder of the socket that holds the
    entry now: that socket is open, bound to exactly `dst`, and the forwarder reaches it -/
theorem C11_no_stale_delivery_udp (c : NetCfg) (hc : c.WF) (ls : List NLbl) (src dst : Ep) (hops : List String)
    (h : ((NS.init c).run ls).n.udpRoute src dst = some hops) :
    ∃ tgt t f, (dst, tgt) ∈ ((NS.init c).run ls).n.reg.udp ∧ ((NS.init c).run ls).n.udp? tgt = some t
      ∧ t.isOpen = true ∧ t.bound = dst ∧ t.fwd = some f ∧ ((NS.init c).run ls).n.fwdTarget f = some tgt
      ∧ hops = c.outRoute src.addr ++ c.netRoute src.addr dst.addr ++ c.inRoute dst.addr ++ [fwdHop f] := by
  have hr := RegInv.run c hc ls
  have hcfg := C11_cfg_constant c ls
  unfold NetSt.udpRoute at h
  cases hl : ((NS.init c).run ls).n.reg.udp.lookup dst with
  | none => rw [hl] at h; simp at h
  | some tgt =>
    rw [hl] at h
    have hm := mem_of_lookup_some _ _ _ hl
    obtain ⟨t, ht, ho, hb, _⟩ := (C11_inv_udp c hc ls dst tgt).mp hm
    simp only [ht, Option.some.injEq] at h
    cases hf : t.fwd with
    | none =>
      have := hr.fwd.openU tgt t.isOpen t.fwd (by simp [NetSt.uf, ht])
      rw [hf, ho] at this; simp at this
    | some f =>
      refine ⟨tgt, t, f, hm, ht, ho, hb, hf, (hr.udp_fwd ht hf).2, ?_⟩
      rw [← h, hb]
      simp [NetSt.incomingRoute, hf, List.append_assoc, hcfg]

/-- a connect to an endpoint without entry is refused -/
theorem C11_no_stale_delivery_tcp_unbound (n : NetSt) (name : String) (target : Ep)
    (h : ∀ nm, (target, nm) ∉ n.reg.tcp) : n.internalConnect name target = (n, [], none) := by
  unfold NetSt.internalConnect
  rw [(lookup_none_iff _ _).mpr h]
  cases n.tcp? name <;> rfl

/-- a connect that is not refused sends its SYN to the object that holds the entry for
    `target` NOW: it is open, bound to exactly `target`, listening, and the SYN's route ends in
    its current forwarder -/
theorem C11_no_stale_delivery_tcp (c : NetCfg) (hc : c.WF) (ls : List NLbl) (name : String) (target : Ep)
    (cid : Nat) (h : (((NS.init c).run ls).n.internalConnect name target).2.2 = some cid) :
    ∃ s rname r f, ((NS.init c).run ls).n.tcp? name = some s
      ∧ (target, rname) ∈ ((NS.init c).run ls).n.reg.tcp ∧ ((NS.init c).run ls).n.tcp? rname = some r
      ∧ r.isOpen = true ∧ r.bound = target ∧ r.isListening = true ∧ r.fwd = some f
      ∧ ((NS.init c).run ls).n.fwdTarget f = some rname
      ∧ ∃ syn : Pkt, (((NS.init c).run ls).n.internalConnect name target).2.1 = [.forward syn] ∧ syn.ty = .syn
        ∧ syn.hops = c.outRoute s.bound.addr ++ c.netRoute s.bound.addr target.addr ++ c.inRoute target.addr ++ [fwdHop f] := by
  have hr := RegInv.run c hc ls
  have hcfg := C11_cfg_constant c ls
  unfold NetSt.internalConnect at h ⊢
  cases hs : ((NS.init c).run ls).n.tcp? name with
  | none => rw [hs] at h; simp at h
  | some s =>
    rw [hs] at h
    dsimp only at h ⊢
    cases hl : ((NS.init c).run ls).n.reg.tcp.lookup target with
    | none => rw [hl] at h; simp at h
    | some rname =>
      rw [hl] at h
      dsimp only at h ⊢
      have hm := mem_of_lookup_some _ _ _ hl
      obtain ⟨r, hrn, ho, hb, _⟩ := C11_inv_tcp_sound c hc ls target rname hm
      rw [hrn] at h
      dsimp only at h ⊢
      cases hli : r.isListening with
      | false => rw [hli] at h; simp at h
      | true =>
        cases hf : r.fwd with
        | none =>
          have := hr.fwd.openT rname r.isOpen r.fwd (by simp [NetSt.tf, hrn])
          rw [hf, ho] at this; simp at this
        | some f =>
          have hft := hr.fwd.ftc rname r.isOpen f (by simp [NetSt.tf, hrn, hf])
          refine ⟨s, rname, r, f, rfl, hm, hrn, ho, hb, hli, hf, hft, ?_⟩
          simp only [hrn, hli, Bool.not_true, Bool.false_eq_true, if_false]
          refine ⟨_, rfl, ?_, ?_⟩
          · rfl
          · simp [NetSt.incomingRoute, hf, hcfg, hb, List.append_assoc]

/-- a detached forwarder swallows whatever arrives: nothing changes -/
theorem C11_detached_swallows (s : NS) (f : Nat) (p : Pkt) (h : s.n.fwdTarget f = none) :
    (s.step (.deliver f p)).n = s.n ∧ (s.step (.deliver f p)).acc = s.acc ∧ (s.step (.deliver f p)).out = s.out := by
  simp [NS.step, h]

/-- `close` / the destructor / `open` detach the forwarder the socket held (datagrams and SYNs
    in flight towards it vanish) -/
theorem C11_close_detaches (s : NS) (name : String) (u : UdpSock) (f : Nat)
    (hu : s.n.udp? name = some u) (hf : u.fwd = some f) (hr : RegInv s) :
    (s.step (.uClose name)).n.fwdTarget f = none ∧ (s.step (.uDestroy name)).n.fwdTarget f = none
    ∧ ∀ v4, (s.step (.uOpen name v4)).n.fwdTarget f = none := by
  have hv : (s.n.uv name).bind (·.2.2) = some f := by simp [NetSt.uv, hu, UdpSock.view, hf]
  refine ⟨?_, ?_, fun v4 => ?_⟩
  · show (s.n.udpClose name).1.fwdTarget f = none
    rw [(udpClose_eff s.n name).ft, hv]; simp
  · show (s.n.udpDestroy name).1.fwdTarget f = none
    rw [(udpDestroy_eff s.n name).ft, hv]; simp
  · show (s.n.udpOpen name v4).1.fwdTarget f = none
    rw [(udpOpen_eff s.n name v4).ft, (udpClose_eff s.n name).ft, hv, udpClose_fwds_length]
    have hlt : f < s.n.fwds.length := fwdTarget_lt _ _ _ (hr.udp_fwd hu hf).2
    have : f ≠ s.n.fwds.length := by omega
    simp [this]

theorem C11_close_detaches_tcp (s : NS) (name : String) (t : TcpSock) (f : Nat) (now : Int)
    (ht : s.n.tcp? name = some t) (hf : t.fwd = some f) :
    (s.step (.tClose now name)).n.fwdTarget f = none ∧ (s.step (.tDestroy now name)).n.fwdTarget f = none
    ∧ (s.step (.aClose now name)).n.fwdTarget f = none := by
  have hv : (s.n.tv name).bind (·.2.2) = some f := by simp [NetSt.tv, ht, TcpSock.view, hf]
  refine ⟨?_, ?_, ?_⟩
  · show (s.n.tcpClose now name).1.fwdTarget f = none
    rw [(tcpClose_eff s.n now name).ft, hv]; simp
  · show (s.n.tcpDestroy now name).1.fwdTarget f = none
    rw [(tcpDestroy_eff s.n now name).ft, hv]; simp
  · show (s.n.accClose now name).1.fwdTarget f = none
    rw [(accClose_eff s.n now name).ft, hv]; simp


namespace C11Ex

/-! ## non-vacuity: a concrete history and every row of the table on it -/

def cfg : NetCfg := { nodes := [("n0", ["10.0.0.1", "10.0.0.2"]), ("n1", ["10.0.1.1"])] }

theorem cfg_wf : cfg.WF := by
  intro node
  unfold NetCfg.ipsOf cfg
  simp only [List.lookup_cons, List.lookup_nil]
  repeat' split
  all_goals decide

def ep5000 : Ep := { addr := "10.0.0.1", port := 5000 }

/-- two UDP sockets and an acceptor on the two-address node `n0`, all open, nothing bound -/
def pre : List NLbl :=
  [.uNew "u0" "n0", .uNew "u1" "n0", .uOpen "u0" true, .uOpen "u1" true, .tNew "a0" "n0" true, .tOpen 0 "a0" true]

def s0 : NS := (NS.init cfg).run pre
/-- … then `u0` binds 10.0.0.1:5000 -/
def s1 : NS := { s0 with n := s0.n.bindOk "u0" ep5000 }
def hist : List NLbl := pre ++ [.uBind "u0" ep5000]

def u1 : UdpSock := { node := "n0", isOpen := true, fwd := some 1 }
def a0 : TcpSock := { node := "n0", isOpen := true, fwd := some 2, acc := some {} }

theorem s1_eq : (NS.init cfg).run hist = s1 := by
  unfold hist
  rw [NS.run_append]
  show ({ s0 with n := (s0.n.udpBind "u0" ep5000).1 } : NS) = s1
  rw [udpBind_explicit s0.n "u0" ep5000 { node := "n0", isOpen := true, fwd := some 0 } rfl rfl
      (by rw [Ep.isV4_eq]; decide) (by decide) rfl (by decide) (by decide)]
  rfl

example : s1.n.reg.udp = [(ep5000, "u0")] ∧ s1.n.reg.tcp = [] ∧ s1.n.udp? "u1" = some u1 ∧ s1.n.tcp? "a0" = some a0 := by
  exact ⟨by decide, by decide, rfl, rfl⟩

theorem u1Pre (ep ep1 : Ep) (hv : ep.isV4 = true) (hr : ioResolve ["10.0.0.1", "10.0.0.2"] ep = .ok ep1) :
    s1.n.udpBindPre "u1" ep u1 ep1 := ⟨rfl, rfl, hv, by decide, hr⟩

/-- row "taken": a second socket asking for 10.0.0.1:5000 gets address_in_use, nothing changes -/
example : s1.n.udpBind "u1" ep5000 = (s1.n, .inUse) :=
  C11_error_table_udp_in_use s1.n "u1" ep5000 ep5000 u1
    (u1Pre _ _ (by rw [Ep.isV4_eq]; decide) rfl) (by decide) (by decide)

/-- row "privileged": port 1023 → access_denied; port 1024 is fine -/
example : s1.n.udpBind "u1" { addr := "10.0.0.1", port := 1023 } = (s1.n, .denied) :=
  C11_error_table_udp_denied s1.n "u1" _ { addr := "10.0.0.1", port := 1023 } u1
    (u1Pre _ _ (by rw [Ep.isV4_eq]; decide) rfl) (by decide)
example : (s1.n.udpBind "u1" { addr := "10.0.0.1", port := 1024 }).2 = .ok := by
  rw [C11_error_table_udp_ok s1.n "u1" _ { addr := "10.0.0.1", port := 1024 } u1
    (u1Pre _ _ (by rw [Ep.isV4_eq]; decide) rfl) (by decide) (by decide)]

/-- row "foreign address" -/
example : s1.n.udpBind "u1" { addr := "10.0.1.1", port := 5000 } = (s1.n, .notAvail) :=
  C11_error_table_udp_unresolved s1.n "u1" _ u1 .notAvail rfl rfl (by rw [Ep.isV4_eq]; decide) (by decide) rfl

/-- row "wrong family" -/
example : s1.n.udpBind "u1" { addr := "2001::1", port := 5000 } = (s1.n, .afNoSupport) :=
  C11_error_table_udp_family s1.n "u1" _ u1 rfl rfl (by rw [Ep.isV4_eq]; decide)

/-- row "already bound" -/
example : s1.n.udpBind "u0" { addr := "10.0.0.2", port := 6000 } = (s1.n, .invalid) :=
  C11_error_table_udp_bound s1.n "u0" _ { node := "n0", isOpen := true, fwd := some 0, bound := ep5000 } rfl rfl
    (by rw [Ep.isV4_eq]; decide) (by decide)

/-- the same port on the node's second address is a different endpoint -/
example : (s1.n.udpBind "u1" { addr := "10.0.0.2", port := 5000 }).2 = .ok := by
  rw [C11_error_table_udp_ok s1.n "u1" _ { addr := "10.0.0.2", port := 5000 } u1
    (u1Pre _ _ (by rw [Ep.isV4_eq]; decide) rfl) (by decide) (by decide)]

/-- row "ephemeral": port 0 yields 10.0.0.1:2000 (the counter's value), counter → 2001 -/
example : ∃ n', s1.n.udpBind "u1" { addr := "10.0.0.1", port := 0 } = (n', .ok)
    ∧ n'.reg.udp = [(ep5000, "u0"), ({ addr := "10.0.0.1", port := 2000 }, "u1")] ∧ n'.reg.nextPort = 2001 := by
  rcases C11_error_table_udp_ephemeral s1.n "u1" { addr := "10.0.0.1", port := 0 } { addr := "10.0.0.1", port := 0 } u1
    (u1Pre { addr := "10.0.0.1", port := 0 } { addr := "10.0.0.1", port := 0 } (by rw [Ep.isV4_eq]; decide) rfl) rfl with ⟨h, _⟩ | ⟨q, hq, e⟩
  · exact absurd h (by decide)
  · have : q = 2000 := by
      have : probePort s1.n.reg.udp "10.0.0.1" 65536 s1.n.reg.nextPort = some 2000 := by decide
      rw [this] at hq; exact (Option.some.inj hq).symm
    subst this
    exact ⟨_, e, rfl, rfl⟩

/-- TCP and UDP are independent: the acceptor binds the endpoint `u0` holds -/
example : (s1.n.tcpBind "a0" ep5000).2 = .ok := by
  rw [C11_error_table_tcp_ok s1.n "a0" ep5000 ep5000 a0
    ⟨rfl, rfl, by rw [Ep.isV4_eq]; decide, by decide, rfl⟩ (by decide) (by decide)]

/-- release and re-bind, instantiated: `u0` closes, `u1` takes 10.0.0.1:5000 -/
example : ((((NS.init cfg).run hist).step (.uClose "u0")).n.udpBind "u1" ep5000).2 = .ok :=
  C11_release_rebind_udp cfg cfg_wf hist "u0" "u1" ep5000 (.uClose "u0") (Or.inl rfl)
    (by rw [s1_eq]; decide) u1 (by rw [s1_eq]; rfl) rfl (by rw [Ep.isV4_eq]; decide) (by decide) (by decide)

/-- move, instantiated: the entry of `u0` follows it into `u9` -/
example : (ep5000, "u9") ∈ (((NS.init cfg).run hist).step (.uMove "u0" "u9")).n.reg.udp :=
  (C11_move_transfers_udp cfg cfg_wf hist "u0" "u9" { node := "n0", isOpen := true, fwd := some 0, bound := ep5000 }
    (by rw [s1_eq]; decide) (by rw [s1_eq]; rfl)).1 ep5000 (by rw [s1_eq]; decide)

example := C11_exclusive cfg cfg_wf hist
example : s1.n.udpRoute ep5000 { addr := "10.0.0.1", port := 7 } = none :=
  C11_no_stale_delivery_udp_unbound s1.n ep5000 { addr := "10.0.0.1", port := 7 } (fun nm hm => by
    have : s1.n.reg.udp = [(ep5000, "u0")] := by decide
    rw [this] at hm; simp [ep5000] at hm)

/-- row "wildcard": 0.0.0.0 resolves to the FIRST v4 address of the node -/
example : ioResolve ["10.0.0.1", "10.0.0.2"] { addr := "0.0.0.0", port := 6000 } = .ok { addr := "10.0.0.1", port := 6000 } := by
  rw [(C11_error_table_resolve _ _).1 rfl]
  have : addrIsV4 "10.0.0.1" = true := by decide
  simp [List.find?, this]

/-! an accepted socket: `a0` binds 10.0.0.1:5000 and listens, `s5` is attached to a connection
    of `a0` (no entry of its own), then closes: `a0` keeps its entry -/
def s2 : NS := { s1 with n := ({ s1.n with reg := { s1.n.reg with tcp := [(ep5000, "a0")] } }).setTcp "a0" { a0 with bound := ep5000 } }
def hist2 : List NLbl := hist ++ [.tBind "a0" ep5000]
def post2 : List NLbl := [.aListen "a0" (-1), .tNew "s5" "n0" false, .tPatch "a0" { a0 with bound := ep5000, acc := some { queueLimit := 20 } } [{}],
  .tAttach 0 "s5" "a0" 0]

theorem s2_eq : (NS.init cfg).run hist2 = s2 := by
  unfold hist2
  rw [NS.run_append, s1_eq]
  show ({ s1 with n := (s1.n.tcpBind "a0" ep5000).1 } : NS) = s2
  rw [C11_error_table_tcp_ok s1.n "a0" ep5000 ep5000 a0
    ⟨rfl, rfl, by rw [Ep.isV4_eq]; decide, by decide, rfl⟩ (by decide) (by decide)]
  rfl

example : (s2.run post2).attached = ["s5"] ∧ (s2.run post2).n.reg.tcp = [(ep5000, "a0")]
    ∧ ((s2.run post2).n.tcp? "s5").map (fun t => (t.isOpen, t.bound)) = some (true, ep5000) := by decide

example : (ep5000, "a0") ∈ (((NS.init cfg).run (hist2 ++ post2)).step (.tClose 7 "s5")).n.reg.tcp :=
  C11_accepted_close cfg cfg_wf (hist2 ++ post2) "s5" "a0" ep5000
    (by rw [NS.run_append, s2_eq]; decide) (by rw [NS.run_append, s2_eq]; decide) 7

end C11Ex

end SimVerif
