/- placeholder (being written) -/
import SimVerif.Tcp
namespace SimVerif
theorem C11_placeholder : (Registry.mk [] [] 2000).nextPort = 2000 := rfl
end SimVerif
