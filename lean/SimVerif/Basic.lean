/-
  SimVerif.Basic — shared vocabulary of all mechanism models.
  Core Lean only (no Mathlib) so that `simcheck` links as a `lean_exe`.
  Times are `Int` nanoseconds (written `Int`, never an `abbrev`: omega).
-/
namespace SimVerif

/-- Error codes the traces carry (mapped from boost error codes by the harness). -/
inductive Ec where
  | ok | aborted | eof | refused | inUse | denied | notAvail | afNoSupport
  | invalid | msgSize | wouldBlock | notConn | badDesc | hostNotFound | isConn
  | noBufs | reset | other
  deriving DecidableEq, Repr, Inhabited

def Ec.ofString : String → Option Ec
  | "ok" => some .ok | "aborted" => some .aborted | "eof" => some .eof
  | "refused" => some .refused | "in_use" => some .inUse | "denied" => some .denied
  | "not_avail" => some .notAvail | "af_no_support" => some .afNoSupport
  | "invalid" => some .invalid | "msg_size" => some .msgSize
  | "would_block" => some .wouldBlock | "not_conn" => some .notConn
  | "bad_desc" => some .badDesc | "host_not_found" => some .hostNotFound
  | "is_conn" => some .isConn | "no_bufs" => some .noBufs | "reset" => some .reset | "other" => some .other
  | _ => none

def Ec.toString : Ec → String
  | .ok => "ok" | .aborted => "aborted" | .eof => "eof" | .refused => "refused"
  | .inUse => "in_use" | .denied => "denied" | .notAvail => "not_avail"
  | .afNoSupport => "af_no_support" | .invalid => "invalid" | .msgSize => "msg_size"
  | .wouldBlock => "would_block" | .notConn => "not_conn" | .badDesc => "bad_desc"
  | .hostNotFound => "host_not_found" | .isConn => "is_conn" | .noBufs => "no_bufs" | .reset => "reset"
  | .other => "other"

instance : ToString Ec := ⟨Ec.toString⟩

/-- Functional update of a total map keyed by `Nat` (object tables). -/
def setF {α : Type} (f : Nat → α) (i : Nat) (v : α) : Nat → α :=
  fun j => if j = i then v else f j

@[simp] theorem setF_same {α : Type} (f : Nat → α) (i : Nat) (v : α) : setF f i v i = v := by
  simp [setF]

@[simp] theorem setF_other {α : Type} (f : Nat → α) (i j : Nat) (v : α) (h : j ≠ i) :
    setF f i v j = f j := by
  simp [setF, h]

/-- Parse helpers for the line protocol (`key=value` tokens). -/
def kv? (tok : String) (key : String) : Option String :=
  let pre := key ++ "="
  if tok.startsWith pre then some ((tok.drop pre.length).toString) else none

def findKv? (toks : List String) (key : String) : Option String :=
  toks.findSome? (fun t => kv? t key)

def findInt? (toks : List String) (key : String) : Option Int :=
  (findKv? toks key).bind String.toInt?

def findNat? (toks : List String) (key : String) : Option Nat :=
  (findKv? toks key).bind String.toNat?

/-- `h12` → 12 -/
def parseId? (pre : String) (s : String) : Option Nat :=
  if s.startsWith pre then ((s.drop pre.length).toString).toNat? else none

end SimVerif
