/-
  SimVerif.HttpServerSys — one connection of the HTTP test server as a state machine over an
  ABSTRACT reliable byte stream.

  * `serve` runs the mechanism functions of `SimVerif/HttpServer.lean` (`on_read`, `on_write`,
    `read`, `close_connection`, literally) against an environment that owns the client's byte
    stream as a list of chunks: every `async_read_some(cap)` is completed with the next chunk
    (at most `cap` bytes of it; what does not fit stays queued, as in a TCP receive queue),
    every `async_write` completes in full and is recorded, the posted re-entry runs. The
    chunking is the universally quantified input of the theorems (TCP's prefix property, C05,
    is the assumption: the bytes arrive in order, in *some* segmentation).
  * `specStream` is the reference: what the statement says about a byte stream, with no
    buffer, no capacities, no callbacks — cut the stream at the first blank line, parse, answer,
    go on with the rest.
-/
import SimVerif.HttpServer
import SimVerif.HttpSpec
import SimVerif.Props.C15

namespace SimVerif.HttpServer

open SimVerif.Http

/-! ### abstraction of the server state -/

/-- the bytes received and not yet consumed by a parsed request -/
def Srv.pend (s : Srv) : Bytes := s.buf.take s.used

/-- `m_bytes_used ≤ m_recv_buffer.size()` -/
def Srv.wf (s : Srv) : Prop := s.used ≤ s.buf.length

/-- the registered tables and flags are the same -/
def Srv.sameCfg (a b : Srv) : Prop :=
  a.closing = b.closing ∧ a.keepAlive = b.keepAlive ∧ a.handlers = b.handlers ∧ a.stalls = b.stalls

/-- what `close_connection()` does on the API when `m_connection.close` succeeds -/
def closeActs (s : Srv) : List Act := if s.closing then [.closeConn] else [.closeConn, .asyncAccept]

/-! ### the reference: requests in a byte stream -/

/-- offset just behind the first blank line (CR LF CR LF) of `b` -/
def firstBlank (b : Bytes) : Option Nat :=
  match findRequestLen b (b.length : Int) with
  | .ok v => if v < 0 then none else some v.toNat
  | .error _ => none

/-- what the next request of the stream `b` leads to -/
inductive Step where
  | more                                            -- no complete request yet
  | fail                                            -- parse failure or handler exception
  | stall (rest : Bytes)
  | respond (r : Bytes) (close : Bool) (rest : Bytes)
  | ub
  deriving DecidableEq, Repr

def reqStep (cfg : Srv) (b : Bytes) : Step :=
  match firstBlank b with
  | none => .more
  | some n =>
    match parseRequest b n with
    | .oob => .ub
    | .parseFailed => .fail
    | .ok req =>
      match answer cfg req with
      | .stall => .stall (b.drop n)
      | .fail => .fail
      | .ub => .ub
      | .respond r c => .respond r c (b.drop n)

/-- how serving a connection ends, as far as the given input goes -/
inductive End where
  | waiting                   -- a read is outstanding: the connection is open
  | stalled                   -- nothing outstanding, connection open, never answered
  | closed (rearmed : Bool)   -- close_connection(): closed; was async_accept re-armed?
  | ub
  deriving DecidableEq, Repr

structure Out where
  responses : List Bytes      -- what was written to the client, one entry per async_write
  fin : End
  deriving DecidableEq, Repr

def Out.cons (r : Bytes) (o : Out) : Out := ⟨r :: o.responses, o.fin⟩

theorem firstBlank_bounds (b : Bytes) (n : Nat) (h : firstBlank b = some n) : 4 ≤ n ∧ n ≤ b.length := by
  unfold firstBlank at h
  rcases (C15_find_request_len b (b.length : Int) (by omega)).2.2 with ⟨v, hv, hb⟩
  rw [hv] at h
  simp only at h
  split at h
  · simp at h
  · simp at h
    omega

theorem reqStep_respond_lt (cfg : Srv) (b : Bytes) (r : Bytes) (c : Bool) (rest : Bytes)
    (h : reqStep cfg b = .respond r c rest) : rest.length < b.length := by
  unfold reqStep at h
  split at h
  · simp at h
  · rename_i n hn
    have := firstBlank_bounds b n hn
    split at h
    · simp at h
    · simp at h
    · split at h <;> simp at h
      obtain ⟨_, _, rfl⟩ := h
      simp; omega

set_option linter.unusedVariables false in
/-- THE REFERENCE. The responses a byte stream calls for and how the connection ends:
    requests are delimited by the first blank line, answered one by one, in order; the
    connection is kept iff keep-alive is on and the request did not ask for close. -/
def specStream (cfg : Srv) (b : Bytes) : Out :=
  match h : reqStep cfg b with
  | .more => ⟨[], .waiting⟩
  | .fail => ⟨[], .closed (!cfg.closing)⟩
  | .stall _ => ⟨[], .stalled⟩
  | .ub => ⟨[], .ub⟩
  | .respond r close rest =>
    if !close && cfg.keepAlive then (specStream cfg rest).cons r
    else ⟨[r], .closed (!cfg.closing)⟩
termination_by b.length
decreasing_by exact reqStep_respond_lt cfg b r close rest h

/-! ### the mechanism run against a chunked stream -/

/-- Continue after a callback returned `(s, acts)`. `chunks`: the client's bytes still to be
    delivered, cut the way the network happens to cut them. -/
def serve : Nat → Srv × List Act → List Bytes → Out
  | 0, _, _ => ⟨[], .ub⟩
  | f + 1, (s, acts), chunks =>
    match acts with
    | [.asyncReadSome cap] =>
      match chunks with
      | [] => ⟨[], .waiting⟩
      | c :: rest =>
        if c = [] then serve f (s, acts) rest                 -- an empty chunk is no completion
        else if cap = 0 then ⟨[], .ub⟩
        else serve f (s.onRead .ok (c.take cap)) (if c.length ≤ cap then rest else c.drop cap :: rest)
    | [.asyncWrite data close] => (serve f (s.onWrite .ok close) chunks).cons data
    | [.postOnRead] => serve f (s.onRead .ok []) chunks
    | [] => ⟨[], .stalled⟩
    | [.closeConn] => ⟨[], .closed false⟩
    | [.closeConn, .asyncAccept] => ⟨[], .closed true⟩
    | _ => ⟨[], .ub⟩

/-- total number of bytes in a chunk list -/
def total (chunks : List Bytes) : Nat := (chunks.map List.length).sum

/-- fuel that is always enough (three callbacks per request, one per delivery) -/
def need (used : Nat) (chunks : List Bytes) : Nat := 4 * (used + total chunks) + 2 * chunks.length + 8

/-- the state of the server object when a connection has just been accepted -/
def Srv.fresh (cfg : Srv) : Srv := { cfg with buf := [], used := 0 }

/-- One whole connection: `on_accept(ok)`, then the client's bytes in the given chunking. -/
def run (cfg : Srv) (chunks : List Bytes) : Out :=
  serve (need 0 chunks) (cfg.fresh.onAccept .ok) chunks

end SimVerif.HttpServer
