/-
  SimVerif.HttpServer — mechanism model of the HTTP test server `sim::http_server`
  (src/http_server.cpp:103-393, include/simulator/http_server.hpp), transcribed at statement
  granularity: one pure function per callback of the C++ class (`on_accept`, `read`, `on_read`,
  `on_write`, `close_connection`, `stop`), each returning the new state and the list of
  *actions* it performs on the simulated asio API, in order.

  Memory model (as in SimVerif/Http.lean)
  ---------------------------------------
  * `m_recv_buffer` is `buf : Bytes` — all `size()` bytes of the `std::string`, not only the
    `m_bytes_used` meaningful ones; `resize` appends NULs / truncates, `erase(begin, begin+n)`
    drops a prefix, `clear()` empties it.
  * The parser works on the raw pointer `m_recv_buffer.data()`: `find_request_len` and
    `parse_request` are the checked-memory functions of `SimVerif/Http.lean` applied to `buf`;
    a read outside the allocation is the action `Act.ub`.
  * `&m_recv_buffer[m_bytes_used]` (`read()`), the transport's write of the received bytes into
    `[m_bytes_used, m_bytes_used + n)`, `erase(begin, begin + req_len)` and
    `m_bytes_used -= req_len` are checked the same way (`Act.ub` when out of bounds / negative).
  * `std::unordered_map` / `std::set` are association lists (only lookups are performed).

  The handlers are the ones the harness registers (harness/simdrv_http.cpp):
  `register_content` with the generator `gen(start, len)[i] = (start + i) mod 256`,
  `register_redirect`, `register_stall_handler`, and `register_handler` with a fixed body.
  An exception thrown by a handler (`std::stoll`, the generator) is `HErr.throw`: it is caught
  by `on_read`'s function-try-block.
-/
import SimVerif.Basic
import SimVerif.Http

namespace SimVerif.HttpServer

open SimVerif.Http

/-! ### strings and numbers -/

/-- an ASCII string literal as bytes -/
def str (s : String) : Bytes := s.toList.map (fun c => c.toNat.toUInt8)

/-- `std::to_string` of a non-negative integer -/
def decN (n : Nat) : Bytes := (Nat.toDigits 10 n).map (fun c => c.toNat.toUInt8)

/-- `std::to_string` of a signed integer -/
def decI (i : Int) : Bytes := if i < 0 then 45 :: decN i.natAbs else decN i.toNat

/-- `int(x)` for a 64-bit `x` (two's complement narrowing) -/
def int32 (i : Int) : Int := (i + 2147483648) % 4294967296 - 2147483648

def inI64 (i : Int) : Bool := decide (-9223372036854775808 ≤ i ∧ i ≤ 9223372036854775807)

/-- what a handler can do besides returning a string -/
inductive HErr where
  | throw      -- a `std::exception` (caught by `on_read`)
  | ub         -- signed overflow
  deriving DecidableEq, Repr

/-- `isspace` in the "C" locale -/
def isSpace (c : UInt8) : Bool := c == 32 || (9 ≤ c && c ≤ 13)

def isDigit (c : UInt8) : Bool := 48 ≤ c && c ≤ 57

/-- value of a digit string, most significant first -/
def digitsVal (ds : Bytes) : Nat := ds.foldl (fun a d => a * 10 + (d.toNat - 48)) 0

/-- `std::stoll(s)`: white space, an optional sign, decimal digits; whatever follows is ignored.
    `none` = `std::invalid_argument` (no digits) or `std::out_of_range`. -/
def stoll (s : Bytes) : Option Int :=
  let s := s.dropWhile isSpace
  let (neg, s) := match s with
    | 45 :: t => (true, t)
    | 43 :: t => (false, t)
    | _ => (false, s)
  let ds := s.takeWhile isDigit
  if ds.isEmpty then none
  else
    let v : Int := if neg then -(digitsVal ds : Int) else (digitsVal ds : Int)
    if inI64 v then some v else none

/-- `s.substr(s.find_first_of(c) + 1)`: `npos + 1 == 0`, so without a `c` this is all of `s` -/
def afterFirst (c : UInt8) (s : Bytes) : Bytes :=
  if c ∈ s then (s.dropWhile (· != c)).drop 1 else s

/-- `s.substr(0, s.find(c))` -/
def beforeFirst (c : UInt8) (s : Bytes) : Bytes := s.takeWhile (· != c)

/-! ### responses -/

/-- `send_response(code, status_message, len, extra_header)`; `extra` is the concatenation of the
    four extra header strings (empty for `nullptr`) -/
def sendResponse (code : Nat) (msg : Bytes) (len : Int) (extra : Bytes) : Bytes :=
  str "HTTP/1.1 " ++ decN code ++ [32] ++ msg ++ CRLF
    ++ str "content-length: " ++ decI len ++ CRLF ++ extra ++ CRLF

/-- byte `i` of the content: `(start + i) mod 256` -/
def genByte (start : Int) (i : Nat) : UInt8 := UInt8.ofNat ((start + (i : Int)) % 256).toNat

/-- the harness's generator `gen(start, len)`; a negative or absurd length throws
    `std::length_error` -/
def genContent (start len : Int) : Option Bytes :=
  if len < 0 ∨ len > 4194304 then none
  else some ((List.range len.toNat).map (genByte start))

/-- the lambda stored by `register_content(path, size, gen)` -/
def contentHandler (size : Int) (hdrs : HMap) : Except HErr Bytes :=
  match mapLookup (str "range") hdrs with
  | none =>
    -- start = 0, end = size
    match genContent 0 size with
    | none => .error .throw
    | some body => .ok (sendResponse 200 (str "OK") (int32 size) [] ++ body)
  | some range =>
    let range := afterFirst 61 range                       -- skip "bytes="
    match stoll (beforeFirst 45 range) with
    | none => .error .throw
    | some start =>
      match stoll (afterFirst 45 range) with
      | none => .error .throw
      | some e =>
        -- `if (start < 0 || last < start || last == INT64_MAX) throw std::out_of_range("range")`
        if start < 0 ∨ e < start ∨ e = 9223372036854775807 then .error .throw else
        let end_ := e + 1
        if !inI64 (end_ - start) then .error .ub else
        let header := str "Content-Range: bytes " ++ decI start ++ [45] ++ decI (end_ - 1) ++ [47]
          ++ decI (end_ - start) ++ CRLF
        match genContent start (end_ - start) with
        | none => .error .throw
        | some body =>
          .ok (sendResponse 206 (str "Partial Content") (int32 (end_ - start)) header ++ body)

inductive Handler where
  | content (size : Int)          -- register_content
  | redirect (target : Bytes)     -- register_redirect
  | fixed (body : Bytes)          -- register_handler with `send_response(200, "OK", len) + body`
  deriving DecidableEq, Repr

def Handler.run : Handler → HMap → Except HErr Bytes
  | .content size, hdrs => contentHandler size hdrs
  | .redirect target, _ =>
    .ok (sendResponse 301 (str "Moved Permanently") 0 (str "Location: " ++ target ++ CRLF))
  | .fixed body, _ => .ok (sendResponse 200 (str "OK") (int32 body.length) [] ++ body)

/-- `m_handlers.find(path)` -/
def findHandler (path : Bytes) : List (Bytes × Handler) → Option Handler
  | [] => none
  | (k, h) :: t => if k = path then some h else findHandler path t

/-- `m_handlers[path] = h` -/
def setHandler (path : Bytes) (h : Handler) (l : List (Bytes × Handler)) : List (Bytes × Handler) :=
  (path, h) :: l.filter (fun e => e.1 != path)

/-! ### the server object -/

structure Srv where
  buf       : Bytes := []                        -- m_recv_buffer
  used      : Nat := 0                           -- m_bytes_used
  sendBuf   : Bytes := []                        -- m_send_buffer
  closing   : Bool := false                      -- m_close
  keepAlive : Bool := true                       -- m_flags & keep_alive
  handlers  : List (Bytes × Handler) := []       -- m_handlers
  stalls    : List Bytes := []                   -- m_stall_handlers
  deriving Repr

/-- what the callbacks do on the simulated asio API -/
inductive Act where
  | asyncAccept                              -- m_listen_socket.async_accept(m_connection, m_ep, on_accept)
  | asyncReadSome (cap : Nat)                -- m_connection.async_read_some(buffer(&buf[used], size - used), on_read)
  | asyncWrite (data : Bytes) (close : Bool) -- async_write(m_connection, m_send_buffer, bind(on_write, _1, _2, close))
  | closeConn                                -- m_connection.close(err)
  | closeListen                              -- m_listen_socket.close()
  | postOnRead                               -- post(m_ios, bind(on_read, error_code(), 0))
  | ub                                       -- out-of-bounds access
  deriving DecidableEq, Repr

/-- `std::string::resize(n)` -/
def resize (b : Bytes) (n : Nat) : Bytes := b.take n ++ List.replicate (n - b.length) 0

/-- `http_server::read()` -/
def Srv.read (s : Srv) : Srv × List Act :=
  let s := if s.used ≥ s.buf.length / 2 then { s with buf := resize s.buf (max 500 (s.used * 2)) } else s
  -- `&m_recv_buffer[m_bytes_used]` is defined for an index ≤ size()
  if s.used > s.buf.length then (s, [.ub])
  else (s, [.asyncReadSome (s.buf.length - s.used)])

/-- `http_server::close_connection()`; `closeFailed` = `m_connection.close(err)` set `err` -/
def Srv.closeConnection (s : Srv) (closeFailed : Bool := false) : Srv × List Act :=
  let s := { s with buf := [], used := 0 }
  if closeFailed then (s, [.closeConn])
  else if s.closing then (s, [.closeConn])
  else (s, [.closeConn, .asyncAccept])

/-- `http_server::on_accept(ec)` -/
def Srv.onAccept (s : Srv) (ec : Ec) : Srv × List Act :=
  if ec != .ok then s.closeConnection else s.read

def CLOSE : Bytes := [99, 108, 111, 115, 101]
def CONNECTION : Bytes := [99, 111, 110, 110, 101, 99, 116, 105, 111, 110]

/-- `lower_case(req.headers["connection"]) == "close"` -/
def wantsClose (hdrs : HMap) : Bool :=
  lowerCase ((mapLookup CONNECTION hdrs).getD []) == CLOSE

/-- what `on_read` does with a parsed request: the part between `m_handlers.find(req.path)` and
    the `async_write` -/
inductive Answer where
  | stall                                  -- a stalled path: `return` without a response
  | fail                                   -- the handler threw a `std::exception`
  | ub
  | respond (r : Bytes) (close : Bool)     -- m_send_buffer, and `lower_case(headers["connection"]) == "close"`
  deriving DecidableEq, Repr

def answer (s : Srv) (req : Request) : Answer :=
  match findHandler req.path s.handlers with
  | none =>
    if s.stalls.contains req.path then .stall
    else .respond (sendResponse 404 (str "Not Found") 0 []) (wantsClose req.headers)   -- no handler found, 404
  | some h =>
    match h.run req.headers with
    | .error .throw => .fail
    | .error .ub => .ub
    | .ok r => .respond r (wantsClose req.headers)

/-- `http_server::on_read(ec, bytes_transferred)`; `data` = the bytes the transport stored at
    `&m_recv_buffer[m_bytes_used]` (`bytes_transferred = data.length`; empty for the re-entry
    posted by `on_write`) -/
def Srv.onRead (s : Srv) (ec : Ec) (data : Bytes) : Srv × List Act :=
  if ec != .ok then s.closeConnection else
  -- the received bytes lie in the buffer handed to async_read_some
  if s.used + data.length > s.buf.length then (s, [.ub]) else
  let s := { s with buf := s.buf.take s.used ++ data ++ s.buf.drop (s.used + data.length),
                    used := s.used + data.length }
  match findRequestLen s.buf (s.used : Int) with
  | .error _ => (s, [.ub])
  | .ok reqLen =>
    if reqLen < 0 then s.read else
    match parseRequest s.buf reqLen.toNat with
    | .oob => (s, [.ub])
    | .parseFailed => s.closeConnection              -- catch (std::exception&)
    | .ok req =>
      -- m_recv_buffer.erase(begin, begin + req_len); m_bytes_used -= req_len
      if reqLen.toNat > s.buf.length ∨ reqLen.toNat > s.used then (s, [.ub]) else
      let s := { s with buf := s.buf.drop reqLen.toNat, used := s.used - reqLen.toNat }
      -- handler lookup, stall test, 404; then `async_write(m_connection, m_send_buffer, on_write(close))`
      match answer s req with
      | .stall => (s, [])
      | .fail => s.closeConnection                    -- catch (std::exception&)
      | .ub => (s, [.ub])
      | .respond r close => ({ s with sendBuf := r }, [.asyncWrite r close])

/-- `http_server::on_write(ec, bytes_transferred, close)` -/
def Srv.onWrite (s : Srv) (ec : Ec) (close : Bool) : Srv × List Act :=
  if ec != .ok then s.closeConnection
  else if !close && s.keepAlive then (s, [.postOnRead])
  else s.closeConnection

/-- `http_server::stop()` -/
def Srv.stop (s : Srv) : Srv × List Act :=
  ({ s with closing := true }, [.closeListen])

end SimVerif.HttpServer
