/-
  SimVerif.AcceptSys — the TCP handshake as an OPEN system (C07, C13): ONE acceptor `a` and
  any number of other sockets on the shared network state `NetSt`, driven by the mechanism
  functions of SimVerif/Tcp.lean, unchanged:

      listen            → `accListen`
      connect c ep h    → `tcpConnect`          (async_connect on socket `c`)
      accept op         → `accAsyncAccept`      (the three overloads: `.into h peer false`,
                                                 `.into h peer true`, `.fresh h name`)
      closeAcceptor     → `accClose`
      deliverSyn i      → `accIncoming`         (the network hands packet `i` to the acceptor)
      deliverSynAck i c → `tcpIncoming`         (… to socket `c`)
      natRewrite i ext  → `natApply`            (packet `i` crosses a NAT hop while in flight)
      tick t            → the clock

  The network is the adversary: every packet a mechanism function fwdPkts goes into a bag;
  the adversary delivers SYNs and SYN-ACKs from the bag in ANY order, at any later time, or
  never, and may pass any packet through any number of NAT hops first. What the network
  guarantees is the side condition `HS.ok`: a packet is only ever handed to the socket its
  route ends at (`NetSt.routedTo`: the last hop is a forwarder that points at that socket —
  a detached forwarder swallows the packet, `forwardPkt` in Drv/Kernel.lean). The API
  preconditions are there too: `async_connect` on a socket that is not connected (the C++
  asserts `!m_connect_handler`), `async_accept` into a socket object other than the acceptor
  (the socket-returning overload creates a NEW object).

  Ghost logs: the order in which SYNs arrive at the acceptor (channel ids), accept
  completions (which accept call, overload, completion posted, channel and forwarder of the
  accepted socket), connect completions, dialled endpoints, NAT rewrites of SYNs.
-/
import SimVerif.Nat

namespace SimVerif

def AcceptOp.peer : AcceptOp → String
  | .into _ p _ => p
  | .fresh _ nn => nn

def AcceptOp.h : AcceptOp → Nat
  | .into h _ _ => h
  | .fresh h _ => h

def AcceptOp.withEp : AcceptOp → Bool
  | .into _ _ b => b
  | .fresh _ _ => false

inductive HLbl where
  | tick (t : Int)
  | listen (qs : Int)
  | connect (c : String) (target : Ep) (h : Nat)
  | natRewrite (i : Nat) (ext : String)
  | deliverSyn (i : Nat)
  | accept (op : AcceptOp)
  | deliverSynAck (i : Nat) (c : String)
  | closeAcceptor
  deriving Repr

/-- a connect that produced a channel and a SYN -/
structure Dial where
  cid    : Nat
  sock   : String
  target : Ep             -- the endpoint dialled
  ep0    : Ep             -- the connector's bound endpoint when it dialled
  fwd    : Option Nat     -- … and its forwarder
  deriving Repr

/-- an accept completing with success -/
structure AccDone where
  serial : Nat               -- which `accept` call (0-based)
  op     : Option AcceptOp   -- the overload that was outstanding
  compl  : Compl             -- the completion posted (handler, error code, text)
  cid    : Option Nat        -- the channel of the accepted socket right after
  fwd    : Option Nat        -- … and its forwarder
  deriving Repr

/-- a connect completing with success -/
structure ConDone where
  sock : String
  h    : Nat
  cid  : Option Nat          -- the socket's channel right after
  deriving Repr

structure HS where
  net  : NetSt
  now  : Int := 0
  bag  : List Pkt := []                  -- packets in flight
  -- ghosts
  synLog   : List Nat := []              -- channels in the order their SYN arrived at the acceptor
  accLog   : List AccDone := []
  conLog   : List ConDone := []
  dialLog  : List Dial := []
  natLog   : List (Nat × String) := []   -- (channel, external address) per NAT hop crossed by a SYN
  accCalls : Nat := 0
  deriving Repr

def fwdPkts (effs : List NEff) : List Pkt :=
  effs.filterMap (fun e => match e with | .forward p => some p | _ => none)

def okPosts (effs : List NEff) : List Compl :=
  effs.filterMap (fun e => match e with | .post c => if c.ec = .ok then some c else none | _ => none)

/-- the accept outstanding on the acceptor -/
def NetSt.pendingAccept (n : NetSt) (a : String) : Option AcceptOp :=
  ((n.tcp? a).bind (·.acc)).bind (·.acceptOp)

/-- the successful accept completions among the effects of an acceptor function -/
def accDones (serial : Nat) (pend : Option AcceptOp) (n' : NetSt) (effs : List NEff) : List AccDone :=
  (okPosts effs).map (fun c =>
    { serial := serial, op := pend, compl := c,
      cid := (pend.bind (fun op => n'.tcp? op.peer)).bind (·.chan),
      fwd := (pend.bind (fun op => n'.tcp? op.peer)).bind (·.fwd) })

/-- the SYNs among the effects of a connect -/
def dials (c : String) (target : Ep) (n' : NetSt) (effs : List NEff) : List Dial :=
  (fwdPkts effs).filterMap (fun p =>
    if p.ty = .syn then
      p.chan.map (fun cid => { cid := cid, sock := c, target := target,
                               ep0 := ((n'.tcp? c).map (·.bound)).getD {},
                               fwd := (n'.tcp? c).bind (·.fwd) })
    else none)

def HS.step (a : String) (tp : TParams) (s : HS) : HLbl → HS
  | .tick t => { s with now := t }
  | .listen qs => { s with net := (s.net.accListen a qs).1 }
  | .connect c target h =>
    let r := s.net.tcpConnect s.now c target h
    { s with net := r.1, bag := s.bag ++ fwdPkts r.2, dialLog := s.dialLog ++ dials c target r.1 r.2 }
  | .natRewrite i ext =>
    match s.bag[i]? with
    | none => s
    | some pk =>
      let r := natApply ext pk s.net.chans
      { s with bag := s.bag.set i r.1, net := { s.net with chans := r.2 },
               natLog := s.natLog ++ (if pk.ty = .syn then pk.chan.toList.map (fun c => (c, ext)) else []) }
  | .deliverSyn i =>
    match s.bag[i]? with
    | none => s
    | some pk =>
      let r := s.net.accIncoming s.now a pk
      { s with net := r.1, bag := s.bag.eraseIdx i ++ fwdPkts r.2,
               synLog := s.synLog ++ (if pk.ty = .syn then pk.chan.toList else []),
               accLog := s.accLog ++ accDones (s.accCalls - 1) (s.net.pendingAccept a) r.1 r.2 }
  | .accept op =>
    let r := s.net.accAsyncAccept s.now a op
    { s with net := r.1, bag := s.bag ++ fwdPkts r.2, accCalls := s.accCalls + 1,
             accLog := s.accLog ++ accDones s.accCalls (some op) r.1 r.2 }
  | .deliverSynAck i c =>
    match s.bag[i]? with
    | none => s
    | some pk =>
      let r := s.net.tcpIncoming tp s.now c pk
      { s with net := r.1, bag := s.bag.eraseIdx i ++ fwdPkts r.2,
               conLog := s.conLog ++ (okPosts r.2).map (fun k => { sock := c, h := k.h, cid := (r.1.tcp? c).bind (·.chan) }) }
  | .closeAcceptor =>
    let r := s.net.accClose s.now a
    { s with net := r.1, bag := s.bag ++ fwdPkts r.2 }

/-- the route of `pk` ends at socket `name`: its last hop is a forwarder that points there -/
def NetSt.routedTo (n : NetSt) (pk : Pkt) (name : String) : Prop :=
  ∃ f, pk.hops.getLast? = some (fwdHop f) ∧ n.fwdTarget f = some name

/-- what the network and the API preconditions guarantee about when a label can occur -/
def HS.ok (a : String) (s : HS) : HLbl → Prop
  | .connect c _ _ => c ≠ a ∧ ∃ sk, s.net.tcp? c = some sk ∧ sk.chan = none
  | .accept (.into _ p _) => p ≠ a ∧ (s.net.tcp? p).isSome
  | .accept (.fresh _ nn) => s.net.tcp? nn = none
  | .deliverSyn i => ∃ pk, s.bag[i]? = some pk ∧ pk.ty = .syn ∧ s.net.routedTo pk a
  | .deliverSynAck i c => c ≠ a ∧ ∃ pk, s.bag[i]? = some pk ∧ pk.ty = .synack ∧ s.net.routedTo pk c
  | _ => True

def HS.okRun (a : String) (tp : TParams) : HS → List HLbl → Prop
  | _, [] => True
  | s, l :: rest => s.ok a l ∧ HS.okRun a tp (s.step a tp l) rest

def HS.run (a : String) (tp : TParams) (s : HS) (ls : List HLbl) : HS := ls.foldl (HS.step a tp) s

/-- Initial state: the acceptor `a` (on node `anode`) is open and bound to `aep` — registered
    in `m_listen_sockets`, forwarder 0 — and not yet listening; the other sockets are fresh
    objects (closed, unbound) on their nodes; any configuration. -/
def HS.init (cfg : NetCfg) (a anode : String) (aep : Ep) (clients : List (String × String)) : HS :=
  { net := { cfg := cfg, reg := { tcp := [(aep, a)] }, fwds := [some a],
             tcps := (a, { node := anode, isOpen := true, isV4 := aep.isV4, bound := aep, fwd := some 0, acc := some {} })
                      :: (clients.filter (fun c => c.1 != a)).map (fun c => (c.1, ({ node := c.2 } : TcpSock))) } }

/-- how side 1 sees an endpoint of side 0 after the NAT hops its SYN crossed: the address
    of the LAST one (none → the real address), the original port -/
def natView (log : List (Nat × String)) (c : Nat) (e : Ep) : Ep :=
  match (log.filter (fun x => x.1 == c)).getLast? with
  | some x => { e with addr := x.2 }
  | none => e

end SimVerif
