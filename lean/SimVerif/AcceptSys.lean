/-
  SimVerif.AcceptSys — the TCP handshake as an OPEN system (C07, C13): ANY number of acceptors
  and ANY number of other sockets on the shared network state `NetSt`, driven by the mechanism
  functions of SimVerif/Tcp.lean, unchanged:

      openAcc a v4      → `accClose` then `tcpOpen`   (`acceptor::open`: closes first — stops
                                                       listening, resets the queue —, then a fresh
                                                       forwarder: a new LISTENING EPOCH begins)
      bind o ep         → `tcpBind`                   (an acceptor, or a socket that is not connected;
                                                       any endpoint: wildcard, one of the node's
                                                       addresses, a foreign one, port 0 …)
      openSock o v4     → `tcpOpen`                   (user `open` on a socket: closes it first)
      listen a qs       → `accListen`
      accept a op       → `accAsyncAccept`            (the three overloads: `.into h peer false`,
                                                       `.into h peer true`, `.fresh h name`)
      cancelAcc a       → `accCancel`
      closeAcceptor a   → `accClose`                  (the epoch ends; may be followed by openAcc)
      deliverSyn i a    → `accIncoming`               (the network hands SYN `i` to acceptor `a`)
      deliverErr i a    → `accIncoming`               (… an error packet: a connector that gave
                                                       up before being accepted)
      connect c ep h    → `tcpConnect`                (async_connect on socket `c`)
      cancel o          → `tcpCancel`                 (user cancel of a connector / accepted socket)
      close o           → `tcpClose`                  (user close of a connector / accepted socket)
      deliverSynAck i c → `tcpIncoming`               (… SYN-ACK `i` to socket `c`)
      natRewrite i ext  → `natApply`                  (packet `i` crosses a NAT hop while in flight)
      tick t            → the clock

  The network is the adversary: every packet a mechanism function forwards goes into a bag;
  the adversary delivers SYNs and SYN-ACKs from the bag in ANY order, at any later time, or
  never, and may pass any packet through any number of NAT hops first. What the network
  guarantees is the side condition `HS.ok`: a packet is only ever handed to the socket its
  route ends at (`NetSt.routedTo`: the last hop is a forwarder that points at that socket —
  a detached forwarder swallows the packet, `forwardPkt` in Drv/Kernel.lean). The API
  preconditions are there too: acceptor calls on acceptor objects, socket calls on socket
  objects, `async_connect` on a socket that is not connected (the C++ asserts
  `!m_connect_handler`), `async_accept` into a socket object that is not an acceptor (the
  socket-returning overload creates a NEW object).

  LISTENING EPOCHS. `open` gives the acceptor a fresh forwarder (`newFwd`: ids are never
  reused), `close` detaches it. The period between an `open` and the next `close` of an
  acceptor — in which it may bind, listen (several times) and accept — is one listening epoch,
  identified over the whole run (and across acceptors) by that forwarder id.

  Ghost logs: the SYNs that arrived at an acceptor (epoch, channel id) in arrival order, accept
  completions (acceptor, epoch, listening endpoint, which accept call, overload, completion
  posted, channel and forwarder of the accepted socket), connect completions (success by
  SYN-ACK, operation_aborted by the user's cancel / close), dials (socket, endpoint dialled,
  the acceptor found there and its epoch), NAT rewrites of SYNs.
-/
import SimVerif.Nat

namespace SimVerif

def AcceptOp.peer : AcceptOp → String
  | .into _ p _ => p
  | .fresh _ nn => nn

def AcceptOp.h : AcceptOp → Nat
  | .into h _ _ => h
  | .fresh h _ => h

def AcceptOp.withEp : AcceptOp → Bool
  | .into _ _ b => b
  | .fresh _ _ => false

inductive HLbl where
  | tick (t : Int)
  | openAcc (a : String) (v4 : Bool)
  | bind (o : String) (ep : Ep)
  | openSock (o : String) (v4 : Bool)
  | listen (a : String) (qs : Int)
  | accept (a : String) (op : AcceptOp)
  | cancelAcc (a : String)
  | closeAcceptor (a : String)
  | deliverSyn (i : Nat) (a : String)
  | deliverErr (i : Nat) (a : String)
  | connect (c : String) (target : Ep) (h : Nat)
  | cancel (o : String)
  | close (o : String)
  | deliverSynAck (i : Nat) (c : String)
  | natRewrite (i : Nat) (ext : String)
  deriving Repr

/-- a connect that produced a channel and a SYN -/
structure Dial where
  cid    : Nat
  sock   : String
  target : Ep             -- the endpoint dialled
  ep0    : Ep             -- the connector's bound endpoint when it dialled
  fwd    : Option Nat     -- … and its forwarder
  lsock  : String         -- the acceptor the registry had at `target`
  epoch  : Nat            -- … and its listening epoch (= its forwarder)
  deriving Repr

/-- an accept completing with success -/
structure AccDone where
  acc    : String            -- the acceptor
  epoch  : Nat               -- its listening epoch (= its forwarder)
  lep    : Ep                -- the endpoint it is bound to
  serial : Nat               -- which `accept` call on that acceptor (0-based)
  op     : Option AcceptOp   -- the overload that was outstanding
  compl  : Compl             -- the completion posted (handler, error code, text)
  cid    : Option Nat        -- the channel of the accepted socket right after
  fwd    : Option Nat        -- … and its forwarder
  deriving Repr

/-- a connect completing: with success (SYN-ACK) or operation_aborted (user cancel / close) -/
structure ConDone where
  sock : String
  h    : Nat
  ec   : Ec
  cid  : Option Nat          -- the socket's channel when the completion was posted
  deriving Repr

structure HS where
  net  : NetSt
  now  : Int := 0
  bag  : List Pkt := []                  -- packets in flight
  -- ghosts
  synLog   : List (Nat × Nat) := []      -- (epoch, channel) in the order the SYNs arrived at acceptors
  accLog   : List AccDone := []
  conLog   : List ConDone := []
  dialLog  : List Dial := []
  natLog   : List (Nat × String) := []   -- (channel, external address) per NAT hop crossed by a SYN
  accCalls : String → Nat := fun _ => 0  -- `async_accept` calls made so far, per acceptor

def fwdPkts (effs : List NEff) : List Pkt :=
  effs.filterMap (fun e => match e with | .forward p => some p | _ => none)

def okPosts (effs : List NEff) : List Compl :=
  effs.filterMap (fun e => match e with | .post c => if c.ec = .ok then some c else none | _ => none)

/-- the arrivals of epoch `f`, in order -/
def synAtL (l : List (Nat × Nat)) (f : Nat) : List Nat := (l.filter (fun x => x.1 == f)).map (·.2)
/-- the accept completions of epoch `f`, in order -/
def accAtL (l : List AccDone) (f : Nat) : List AccDone := l.filter (fun e => e.epoch == f)

def HS.synAt (s : HS) (f : Nat) : List Nat := synAtL s.synLog f
def HS.accAt (s : HS) (f : Nat) : List AccDone := accAtL s.accLog f

/-- the accept outstanding on the acceptor -/
def NetSt.pendingAccept (n : NetSt) (a : String) : Option AcceptOp :=
  ((n.tcp? a).bind (·.acc)).bind (·.acceptOp)

/-- the current listening epoch of acceptor `a`: its forwarder -/
def NetSt.epochOf (n : NetSt) (a : String) : Nat := ((n.tcp? a).bind (·.fwd)).getD 0
def NetSt.boundOf (n : NetSt) (a : String) : Ep := ((n.tcp? a).map (·.bound)).getD {}

/-- the successful accept completions among the effects of an acceptor function -/
def accDones (a : String) (epoch : Nat) (lep : Ep) (serial : Nat) (pend : Option AcceptOp) (n' : NetSt)
    (effs : List NEff) : List AccDone :=
  (okPosts effs).map (fun c =>
    { acc := a, epoch := epoch, lep := lep, serial := serial, op := pend, compl := c,
      cid := (pend.bind (fun op => n'.tcp? op.peer)).bind (·.chan),
      fwd := (pend.bind (fun op => n'.tcp? op.peer)).bind (·.fwd) })

/-- the SYNs among the effects of a connect -/
def dials (c : String) (target : Ep) (n' : NetSt) (effs : List NEff) : List Dial :=
  (fwdPkts effs).filterMap (fun p =>
    if p.ty = .syn then
      p.chan.map (fun cid => { cid := cid, sock := c, target := target,
                               ep0 := ((n'.tcp? c).map (·.bound)).getD {},
                               fwd := (n'.tcp? c).bind (·.fwd),
                               lsock := (n'.reg.tcp.lookup target).getD "",
                               epoch := n'.epochOf ((n'.reg.tcp.lookup target).getD "") })
    else none)

/-- the connect of `o` that a user `cancel` / `close` is about to abort -/
def pendAbort (n : NetSt) (o : String) : List ConDone :=
  match n.tcp? o with
  | some sk => (match sk.connectH with
                | some h => [{ sock := o, h := h, ec := .aborted, cid := sk.chan }]
                | none => [])
  | none => []

def HS.step (tp : TParams) (s : HS) : HLbl → HS
  | .tick t => { s with now := t }
  | .openAcc a v4 =>
    let r1 := s.net.accClose s.now a
    let r2 := r1.1.tcpOpen s.now a v4
    { s with net := r2.1, bag := s.bag ++ fwdPkts r1.2 ++ fwdPkts r2.2 }
  | .bind o ep => { s with net := (s.net.tcpBind o ep).1 }
  | .openSock o v4 =>
    let r := s.net.tcpOpen s.now o v4
    { s with net := r.1, bag := s.bag ++ fwdPkts r.2, conLog := s.conLog ++ pendAbort s.net o }
  | .listen a qs => { s with net := (s.net.accListen a qs).1 }
  | .accept a op =>
    let r := s.net.accAsyncAccept s.now a op
    { s with net := r.1, bag := s.bag ++ fwdPkts r.2,
             accCalls := fun x => if x = a then s.accCalls a + 1 else s.accCalls x,
             accLog := s.accLog ++ accDones a (s.net.epochOf a) (s.net.boundOf a) (s.accCalls a) (some op) r.1 r.2 }
  | .cancelAcc a =>
    let r := s.net.accCancel a
    { s with net := r.1, bag := s.bag ++ fwdPkts r.2 }
  | .closeAcceptor a =>
    let r := s.net.accClose s.now a
    { s with net := r.1, bag := s.bag ++ fwdPkts r.2 }
  | .deliverSyn i a =>
    match s.bag[i]? with
    | none => s
    | some pk =>
      let r := s.net.accIncoming s.now a pk
      { s with net := r.1, bag := s.bag.eraseIdx i ++ fwdPkts r.2,
               synLog := s.synLog ++ (if pk.ty = .syn then pk.chan.toList.map (fun c => (s.net.epochOf a, c)) else []),
               accLog := s.accLog ++ accDones a (s.net.epochOf a) (s.net.boundOf a) (s.accCalls a - 1)
                                        (s.net.pendingAccept a) r.1 r.2 }
  | .deliverErr i a =>
    match s.bag[i]? with
    | none => s
    | some pk =>
      let r := s.net.accIncoming s.now a pk
      { s with net := r.1, bag := s.bag.eraseIdx i ++ fwdPkts r.2 }
  | .connect c target h =>
    let r := s.net.tcpConnect s.now c target h
    { s with net := r.1, bag := s.bag ++ fwdPkts r.2, dialLog := s.dialLog ++ dials c target r.1 r.2 }
  | .cancel o =>
    let r := s.net.tcpCancel o
    { s with net := r.1, bag := s.bag ++ fwdPkts r.2, conLog := s.conLog ++ pendAbort s.net o }
  | .close o =>
    let r := s.net.tcpClose s.now o
    { s with net := r.1, bag := s.bag ++ fwdPkts r.2, conLog := s.conLog ++ pendAbort s.net o }
  | .deliverSynAck i c =>
    match s.bag[i]? with
    | none => s
    | some pk =>
      let r := s.net.tcpIncoming tp s.now c pk
      { s with net := r.1, bag := s.bag.eraseIdx i ++ fwdPkts r.2,
               conLog := s.conLog ++ (okPosts r.2).map (fun k =>
                 { sock := c, h := k.h, ec := .ok, cid := (s.net.tcp? c).bind (·.chan) }) }
  | .natRewrite i ext =>
    match s.bag[i]? with
    | none => s
    | some pk =>
      let r := natApply ext pk s.net.chans
      { s with bag := s.bag.set i r.1, net := { s.net with chans := r.2 },
               natLog := s.natLog ++ (if pk.ty = .syn then pk.chan.toList.map (fun c => (c, ext)) else []) }

/-- the route of `pk` ends at socket `name`: its last hop is a forwarder that points there -/
def NetSt.routedTo (n : NetSt) (pk : Pkt) (name : String) : Prop :=
  ∃ f, pk.hops.getLast? = some (fwdHop f) ∧ n.fwdTarget f = some name

/-- `a` names an acceptor object -/
def NetSt.isAcc (n : NetSt) (a : String) : Prop := ∃ sk, n.tcp? a = some sk ∧ sk.acc.isSome
/-- `o` names a socket object that is not an acceptor -/
def NetSt.isSock (n : NetSt) (o : String) : Prop := ∃ sk, n.tcp? o = some sk ∧ sk.acc = none

/-- what the network and the API preconditions guarantee about when a label can occur -/
def HS.ok (s : HS) : HLbl → Prop
  | .openAcc a _ => s.net.isAcc a
  | .bind o _ => ∃ sk, s.net.tcp? o = some sk ∧ sk.chan = none
  | .openSock o _ => s.net.isSock o
  | .listen a _ => s.net.isAcc a
  | .cancelAcc a => s.net.isAcc a
  | .closeAcceptor a => s.net.isAcc a
  | .accept a (.into _ p _) => s.net.isAcc a ∧ s.net.isSock p
  | .accept a (.fresh _ nn) => s.net.isAcc a ∧ s.net.tcp? nn = none
  | .deliverSyn i a => ∃ pk, s.bag[i]? = some pk ∧ pk.ty = .syn ∧ s.net.routedTo pk a
  | .deliverErr i a => s.net.isAcc a ∧ ∃ pk, s.bag[i]? = some pk ∧ pk.ty = .err ∧ s.net.routedTo pk a
  | .connect c _ _ => ∃ sk, s.net.tcp? c = some sk ∧ sk.acc = none ∧ sk.chan = none
  | .cancel o => s.net.isSock o
  | .close o => s.net.isSock o
  | .deliverSynAck i c => ∃ pk, s.bag[i]? = some pk ∧ pk.ty = .synack ∧ s.net.routedTo pk c
  | _ => True

def HS.okRun (tp : TParams) : HS → List HLbl → Prop
  | _, [] => True
  | s, l :: rest => s.ok l ∧ HS.okRun tp (s.step tp l) rest

def HS.run (tp : TParams) (s : HS) (ls : List HLbl) : HS := ls.foldl (HS.step tp) s

/-- Initial state: acceptor objects `accs` and socket objects `clients` (name, node), all
    freshly constructed — closed, unbound, no forwarder —; any configuration. -/
def HS.init (cfg : NetCfg) (accs clients : List (String × String)) : HS :=
  { net := { cfg := cfg,
             tcps := accs.map (fun c => (c.1, ({ node := c.2, acc := some {} } : TcpSock)))
                      ++ clients.map (fun c => (c.1, ({ node := c.2 } : TcpSock))) } }

/-- how side 1 sees an endpoint of side 0 after the NAT hops its SYN crossed: the address
    of the LAST one (none → the real address), the original port -/
def natView (log : List (Nat × String)) (c : Nat) (e : Ep) : Ep :=
  match (log.filter (fun x => x.1 == c)).getLast? with
  | some x => { e with addr := x.2 }
  | none => e

end SimVerif
