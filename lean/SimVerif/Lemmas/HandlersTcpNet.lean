/-
  Conservation of handler ids over ALL TCP sockets and acceptors of a network state: the
  relation `TCons n n' effs new` ("ids in all slots of n' + ids of the completions in effs =
  ids in all slots of n + new, and well-formedness is kept") and its closure properties.
  The per-function instances are in HandlersTcpFns.lean.
-/
import SimVerif.Lemmas.HandlersTcp

namespace SimVerif

/-- all handler ids held by TCP sockets and acceptors, in table order -/
def allTcpIds (n : NetSt) : List Nat := (n.tcps.map (fun e => e.2.slotIds)).flatten

/-- well-formedness of the TCP object table: names are unique; no socket has both a read and a
    wait-for-read outstanding -/
structure TWf (n : NetSt) : Prop where
  keys : (n.tcps.map (·.1)).Nodup
  excl : ∀ name s, n.tcp? name = some s → s.recvExcl

/-- `effs` and the step from `n` to `n'` conserve handler ids, `new` being the ids brought in -/
structure TCons (n n' : NetSt) (effs : List NEff) (new : List Nat) : Prop where
  wf  : TWf n → TWf n'
  cnt : TWf n → ∀ z, (allTcpIds n').count z + (effIds effs).count z = (allTcpIds n).count z + new.count z

namespace HL

/-! ### association lists -/

theorem lookup_none_iff_keys {α : Type} (l : List (String × α)) (k : String) :
    l.lookup k = none ↔ k ∉ l.map (·.1) := by
  induction l with
  | nil => simp [List.lookup]
  | cons e rest ih =>
    obtain ⟨k2, v2⟩ := e
    simp only [List.lookup, List.map_cons, List.mem_cons, not_or]
    by_cases hk : k = k2
    · subst hk; simp
    · have : (k == k2) = false := by simp [hk]
      simp [this, ih, hk]

theorem setAssoc_absent {α : Type} (l : List (String × α)) (k : String) (v : α) (h : l.lookup k = none) :
    setAssoc l k v = l ++ [(k, v)] := by
  unfold setAssoc; simp [h]

theorem setAssoc_keys_present {α : Type} (l : List (String × α)) (k : String) (v : α)
    (h : (l.lookup k).isSome) : (setAssoc l k v).map (·.1) = l.map (·.1) := by
  unfold setAssoc; simp only [h, if_true, List.map_map]
  apply List.map_congr_left
  intro e _
  simp only [Function.comp]
  split
  · rename_i he; simp only [beq_iff_eq] at he; exact he.symm
  · rfl

theorem map_upd_noop {α : Type} (l : List (String × α)) (k : String) (v : α) (h : k ∉ l.map (·.1)) :
    l.map (fun e => if e.1 == k then (k, v) else e) = l := by
  induction l with
  | nil => rfl
  | cons e rest ih =>
    simp only [List.map_cons, List.mem_cons, not_or] at h
    have : (e.1 == k) = false := by simp; exact fun hh => h.1 hh.symm
    simp only [List.map_cons, this, Bool.false_eq_true, if_false, ih h.2]

/-- replacing the value under a present key changes the flattened image by exactly the
    difference of the two values' images -/
theorem count_setAssoc_present {α : Type} (f : α → List Nat) (l : List (String × α)) (k : String) (v v' : α)
    (hn : (l.map (·.1)).Nodup) (h : l.lookup k = some v) (z : Nat) :
    (((setAssoc l k v').map (fun e => f e.2)).flatten).count z + (f v).count z
      = ((l.map (fun e => f e.2)).flatten).count z + (f v').count z := by
  unfold setAssoc
  simp only [h, Option.isSome_some, if_true]
  induction l with
  | nil => simp [List.lookup] at h
  | cons e rest ih =>
    obtain ⟨k2, v2⟩ := e
    simp only [List.map_cons, List.nodup_cons] at hn
    by_cases hk : k2 = k
    · subst hk
      simp only [List.lookup, beq_self_eq_true, Option.some.injEq] at h
      subst h
      simp only [List.map_cons, beq_self_eq_true, if_true, List.flatten_cons, List.count_append]
      rw [map_upd_noop rest k2 v' hn.1]
      omega
    · have hk2 : (k == k2) = false := by simp; exact fun hh => hk hh.symm
      have hk3 : (k2 == k) = false := by simp [hk]
      simp only [List.lookup, hk2] at h
      have := ih hn.2 h
      simp only [List.map_cons, hk3, Bool.false_eq_true, if_false, List.flatten_cons, List.count_append]
      omega

theorem tcp_lookup_mem {n : NetSt} {a : String} {s : TcpSock} (h : n.tcp? a = some s) : (a, s) ∈ n.tcps := by
  unfold NetSt.tcp? at h
  generalize n.tcps = l at h
  induction l with
  | nil => simp [List.lookup] at h
  | cons e rest ih =>
    obtain ⟨k2, v2⟩ := e
    by_cases hk : a = k2
    · subst hk
      simp only [List.lookup, beq_self_eq_true, Option.some.injEq] at h
      subst h; exact List.mem_cons_self
    · have : (a == k2) = false := by simp [hk]
      simp only [List.lookup, this] at h
      exact List.mem_cons_of_mem _ (ih h)

/-! ### the table-level facts about `setTcp` -/

theorem allTcpIds_setTcp_present (n : NetSt) (a : String) (s s' : TcpSock) (hw : (n.tcps.map (·.1)).Nodup)
    (h : n.tcp? a = some s) (z : Nat) :
    (allTcpIds (n.setTcp a s')).count z + s.slotIds.count z = (allTcpIds n).count z + s'.slotIds.count z :=
  count_setAssoc_present TcpSock.slotIds n.tcps a s s' hw h z

theorem allTcpIds_setTcp_absent (n : NetSt) (a : String) (s' : TcpSock) (h : n.tcp? a = none) :
    allTcpIds (n.setTcp a s') = allTcpIds n ++ s'.slotIds := by
  unfold allTcpIds NetSt.setTcp
  dsimp only
  rw [setAssoc_absent _ _ _ h]
  simp

theorem keys_setTcp_present (n : NetSt) (a : String) (s s' : TcpSock) (h : n.tcp? a = some s) :
    (n.setTcp a s').tcps.map (·.1) = n.tcps.map (·.1) :=
  setAssoc_keys_present n.tcps a s' (by unfold NetSt.tcp? at h; simp [h])

theorem TWf_setTcp (n : NetSt) (a : String) (s' : TcpSock) (hw : TWf n) (hx : s'.recvExcl) : TWf (n.setTcp a s') := by
  constructor
  · cases h : n.tcp? a with
    | some s => rw [keys_setTcp_present n a s s' h]; exact hw.keys
    | none =>
      unfold NetSt.setTcp; dsimp only
      rw [setAssoc_absent _ _ _ h, List.map_append]
      have := (lookup_none_iff_keys n.tcps a).mp h
      have hk := hw.keys
      rw [List.nodup_append]
      refine ⟨hk, by simp, ?_⟩
      intro x hx1 y hy
      simp only [List.map_cons, List.map_nil, List.mem_singleton] at hy
      subst hy
      intro hxy; subst hxy; exact this hx1
  · intro b t hb
    by_cases hba : b = a
    · subst hba; rw [setTcp_tcp_same] at hb; cases hb; exact hx
    · rw [setTcp_tcp_other _ _ _ _ hba] at hb; exact hw.excl b t hb

end HL

open HL

/-! ### closure properties of `TCons` -/

theorem TCons.refl (n : NetSt) : TCons n n [] [] := ⟨id, fun _ _ => rfl⟩

/-- a step that leaves the TCP object table alone and produces no completion -/
theorem TCons.of_tcps_eq {n n' : NetSt} {effs : List NEff} (h : n'.tcps = n.tcps) (he : effIds effs = []) :
    TCons n n' effs [] := by
  constructor
  · intro hw
    exact ⟨by rw [h]; exact hw.keys, fun b t hb => hw.excl b t (by unfold NetSt.tcp? at hb ⊢; rw [← h]; exact hb)⟩
  · intro _ z; unfold allTcpIds; rw [h, he]

theorem TCons.trans {n n1 n2 : NetSt} {e1 e2 : List NEff} {new1 new2 : List Nat}
    (h1 : TCons n n1 e1 new1) (h2 : TCons n1 n2 e2 new2) : TCons n n2 (e1 ++ e2) (new1 ++ new2) := by
  constructor
  · exact fun hw => h2.wf (h1.wf hw)
  · intro hw z
    have a := h1.cnt hw z
    have b := h2.cnt (h1.wf hw) z
    rw [effIds_append, List.count_append, List.count_append]
    omega

/-- weaken the shape of the effect list / new list (same ids) -/
theorem TCons.congr {n n' : NetSt} {e e' : List NEff} {new new' : List Nat} (h : TCons n n' e new)
    (he : effIds e' = effIds e) (hn : new' = new) : TCons n n' e' new' := by
  subst hn
  exact ⟨h.wf, fun hw z => by rw [he]; exact h.cnt hw z⟩

/-- the basic step: the object `a` is replaced by `s'`, whose slots plus the completions
    produced account for the old slots plus the ids brought in -/
theorem TCons.setTcp_present {n : NetSt} {a : String} {s s' : TcpSock} {effs : List NEff} {new : List Nat}
    (h : n.tcp? a = some s)
    (hs : s.recvExcl → (s'.slotIds ++ effIds effs).Perm (s.slotIds ++ new) ∧ s'.recvExcl) :
    TCons n (n.setTcp a s') effs new := by
  constructor
  · intro hw
    exact TWf_setTcp n a s' hw (hs (hw.excl a s h)).2
  · intro hw z
    have h1 := allTcpIds_setTcp_present n a s s' hw.keys h z
    have h2 := List.perm_iff_count.mp (hs (hw.excl a s h)).1 z
    simp only [List.count_append] at h2
    omega

/-- a new object with empty slots -/
theorem TCons.setTcp_absent {n : NetSt} {a : String} {s' : TcpSock} (h : n.tcp? a = none)
    (hs : s'.slotIds = []) (hx : s'.recvExcl) : TCons n (n.setTcp a s') [] [] := by
  constructor
  · exact fun hw => TWf_setTcp n a s' hw hx
  · intro _ z
    rw [allTcpIds_setTcp_absent n a s' h, hs]; simp

/-- slot-neutral replacement: the new value has the same slots -/
theorem TCons.setTcp_same_slots {n : NetSt} {a : String} {s s' : TcpSock} (h : n.tcp? a = some s)
    (h1 : s'.recvH = s.recvH) (h2 : s'.waitRecvH = s.waitRecvH) (h3 : s'.sendH = s.sendH)
    (h4 : s'.connectH = s.connectH) (h5 : s'.acceptOp = s.acceptOp) :
    TCons n (n.setTcp a s') [] [] :=
  TCons.setTcp_present h (fun hx => ⟨by rw [tcp_slotIds_congr h1 h2 h3 h4 h5]; simp,
    by unfold TcpSock.recvExcl at *; rw [h1, h2]; exact hx⟩)

/-- the effect list may be reordered -/
theorem TCons.congr_perm {n n' : NetSt} {e e' : List NEff} {new new' : List Nat} (h : TCons n n' e new)
    (he : (effIds e').Perm (effIds e)) (hn : new'.Perm new) : TCons n n' e' new' :=
  ⟨h.wf, fun hw z => by rw [he.count_eq z, hn.count_eq z]; exact h.cnt hw z⟩

/-- goal-directed form: first a slot-neutral update of object `a`, then the rest -/
theorem TCons.setTcp_then {n n2 : NetSt} {a : String} {s s' : TcpSock} {effs : List NEff} {new : List Nat}
    (h : n.tcp? a = some s) (hrest : TCons (n.setTcp a s') n2 effs new)
    (h1 : s'.recvH = s.recvH) (h2 : s'.waitRecvH = s.waitRecvH) (h3 : s'.sendH = s.sendH)
    (h4 : s'.connectH = s.connectH) (h5 : s'.acceptOp = s.acceptOp) : TCons n n2 effs new :=
  ((TCons.setTcp_same_slots h h1 h2 h3 h4 h5).trans hrest).congr rfl rfl

/-- goal-directed form: first a step that leaves the TCP table alone, then the rest -/
theorem TCons.tcps_eq_then {n n1 n2 : NetSt} {effs : List NEff} {new : List Nat}
    (h : n1.tcps = n.tcps) (hrest : TCons n1 n2 effs new) : TCons n n2 effs new :=
  ((TCons.of_tcps_eq (effs := []) h rfl).trans hrest).congr rfl rfl

/-- slot-neutral update of object `a` in a state that differs from `n` outside the TCP table -/
theorem TCons.setTcp_same_slots' {n n1 : NetSt} {a : String} {s s' : TcpSock} (h : n.tcp? a = some s)
    (htc : n1.tcps = n.tcps)
    (h1 : s'.recvH = s.recvH) (h2 : s'.waitRecvH = s.waitRecvH) (h3 : s'.sendH = s.sendH)
    (h4 : s'.connectH = s.connectH) (h5 : s'.acceptOp = s.acceptOp) : TCons n (n1.setTcp a s') [] [] :=
  TCons.tcps_eq_then htc (TCons.setTcp_same_slots (by unfold NetSt.tcp? at h ⊢; rw [htc]; exact h) h1 h2 h3 h4 h5)

/-- the basic step in a state that differs from `n` outside the TCP table -/
theorem TCons.setTcp_present' {n n1 : NetSt} {a : String} {s s' : TcpSock} {effs : List NEff} {new : List Nat}
    (h : n.tcp? a = some s) (htc : n1.tcps = n.tcps)
    (hs : s.recvExcl → (s'.slotIds ++ effIds effs).Perm (s.slotIds ++ new) ∧ s'.recvExcl) :
    TCons n (n1.setTcp a s') effs new :=
  TCons.tcps_eq_then htc (TCons.setTcp_present (by unfold NetSt.tcp? at h ⊢; rw [htc]; exact h) hs)

end SimVerif
