/-
  SimVerif.Lemmas.SocksCount — the command counters over all histories (helpers of SocksNeg):
  frame lemmas (which member functions leave version / counters alone and start only "late"
  operations), the per-connection negotiation invariant, and the global counting argument.
-/
import SimVerif.Lemmas.SocksBuf

namespace SimVerif.Socks

/-- operations of the negotiation before the request -/
def POp.pre : POp → Bool
  | .exact _ _ _ .hs1 | .exact _ _ _ .hs2 | .write _ _ .hs3 => true
  | _ => false
/-- a chunk of the request's composed read -/
def POp.isReq : POp → Bool
  | .exact _ _ _ .req1 => true
  | _ => false
/-- everything after the request -/
def POp.late (op : POp) : Bool := !op.pre && !op.isReq

def lateActs (acts : List Act) : Bool := acts.all (fun a => match a.op? with | some op => op.late | none => true)

/-- frame: version and counters untouched, only late operations started -/
def Fr (c : Conn) (cnt : List Int) (o : Out) : Prop :=
  ∀ c' cnt' acts, o = .ok (c', cnt', acts) → c'.ver = c.ver ∧ cnt' = cnt ∧ lateActs acts = true

macro "fr_tac" : tactic => `(tactic| (intro c' cnt' acts h; (try dsimp only at h); (repeat' (first | split at h | (dsimp only at h))) <;> (try cases h) <;> (try simp [lateActs, Act.op?, POp.late, POp.pre, POp.isReq, closeActs, readSomeAct])))

theorem closeConnection_fr (c : Conn) (cnt : List Int) : Fr c cnt (closeConnection c cnt) := by
  unfold closeConnection; fr_tac

theorem writeFrom_fr (c : Conn) (cnt : List Int) (s : Sock) (len : Int) (k : Kind) (hk : k ≠ .hs3) :
    Fr c cnt (writeFrom c cnt s len k) := by
  unfold writeFrom; fr_tac
  cases k <;> simp_all

theorem exactRead_fr (c : Conn) (cnt : List Int) (off : Nat) (n : Int) (k : Kind)
    (hk : k ≠ .hs1 ∧ k ≠ .hs2 ∧ k ≠ .req1) : Fr c cnt (exactRead c cnt off n k) := by
  unfold exactRead; fr_tac
  cases k <;> simp_all

theorem openForwardConnection_fr (c : Conn) (cnt : List Int) (a pt : Nat) : Fr c cnt (openForwardConnection c cnt a pt) := by
  unfold openForwardConnection; fr_tac
theorem bindConnection_fr (c : Conn) (cnt : List Int) (a pt : Nat) : Fr c cnt (bindConnection c cnt a pt) := by
  unfold bindConnection; fr_tac
theorem udpAssociate_fr (c : Conn) (cnt : List Int) (a pt : Nat) : Fr c cnt (udpAssociate c cnt a pt) := by
  unfold udpAssociate; fr_tac

theorem onRequestDomainName_fr (p : Params) (c : Conn) (cnt : List Int) (ec : Ec) (n : Nat) :
    Fr c cnt (onRequestDomainName p c cnt ec n) := by
  unfold onRequestDomainName closeConnection; fr_tac

theorem onRequestDomainLookup_fr (c : Conn) (cnt : List Int) (ec : Ec) (ips : List (Nat × Nat)) :
    Fr c cnt (onRequestDomainLookup c cnt ec ips) := by
  unfold onRequestDomainLookup openForwardConnection writeFrom; fr_tac

theorem formatResponse_ver (c : Conn) (a pt r : Nat) (c2 : Conn) (len : Nat)
    (h : formatResponse c a pt r = .ok (c2, len)) : c2.ver = c.ver := by
  unfold formatResponse at h
  dsimp only at h
  split at h <;> cases h
  rfl

theorem bindConnection2_fr (c : Conn) (cnt : List Int) (ec : Ec) (loc : Nat × Nat) :
    Fr c cnt (bindConnection2 c cnt ec loc) := by
  unfold bindConnection2 writeFrom; fr_tac
  all_goals exact formatResponse_ver _ _ _ _ _ _ (by assumption)

theorem waitForEof_fr (c : Conn) (cnt : List Int) (ec : Ec) : Fr c cnt (waitForEof c cnt ec) := by
  unfold waitForEof; fr_tac
theorem startAccept_fr (c : Conn) (cnt : List Int) (ec : Ec) : Fr c cnt (startAccept c cnt ec) := by
  unfold startAccept closeConnection; fr_tac
theorem onConnected_fr (c : Conn) (cnt : List Int) (ec : Ec) (r : Option (Nat × Nat)) : Fr c cnt (onConnected c cnt ec r) := by
  unfold onConnected writeFrom; fr_tac
  all_goals exact formatResponse_ver _ _ _ _ _ _ (by assumption)
theorem relayStart_fr (c : Conn) (cnt : List Int) (ec : Ec) : Fr c cnt (relayStart c cnt ec) := by
  unfold relayStart; fr_tac
theorem onClientReceive_fr (c : Conn) (cnt : List Int) (ec : Ec) (n : Nat) : Fr c cnt (onClientReceive c cnt ec n) := by
  unfold onClientReceive closeConnection writeFrom; fr_tac
theorem onClientForward_fr (c : Conn) (cnt : List Int) (ec : Ec) : Fr c cnt (onClientForward c cnt ec) := by
  unfold onClientForward closeConnection; fr_tac
theorem onServerReceive_fr (c : Conn) (cnt : List Int) (ec : Ec) (n : Nat) : Fr c cnt (onServerReceive c cnt ec n) := by
  unfold onServerReceive closeConnection writeFrom; fr_tac
theorem onServerForward_fr (c : Conn) (cnt : List Int) (ec : Ec) : Fr c cnt (onServerForward c cnt ec) := by
  unfold onServerForward closeConnection; fr_tac
theorem udpResolved_fr (c : Conn) (cnt : List Int) (pl host : Bytes) (ec : Ec) (ips : List (Nat × Nat)) :
    Fr c cnt (udpResolved c cnt pl host ec ips) := by
  unfold udpResolved; fr_tac

theorem formatHostnameResponse_ver (c : Conn) (pt r : Nat) (c2 : Conn) (len : Nat) (a : List Act)
    (h : formatHostnameResponse c pt r = .ok (c2, len, a)) : c2.ver = c.ver ∧ lateActs a = true := by
  unfold formatHostnameResponse at h
  dsimp only at h
  split at h
  · cases h; simp [lateActs, closeActs, Act.op?]
  · split at h <;> cases h
    simp [lateActs]

theorem lateActs_append (a b : List Act) : lateActs (a ++ b) = (lateActs a && lateActs b) := by
  simp [lateActs]

theorem udpAssociate2_fr (c : Conn) (cnt : List Int) (a pt : Nat) (ec : Ec) (loc : Nat × Nat) (cli : Nat) :
    Fr c cnt (udpAssociate2 c cnt a pt ec loc cli) := by
  unfold udpAssociate2 writeFrom
  intro c' cnt' acts h
  dsimp only at h
  split at h
  · cases h
  · rename_i c2 len a1 heq
    have hv : c2.ver = c.ver ∧ lateActs a1 = true := by
      split at heq
      · exact formatHostnameResponse_ver { c with assoc := (if a = 0 then cli else a, pt) } _ _ _ _ _ heq
      · split at heq
        · cases heq
        · rename_i heq2
          cases heq
          exact ⟨formatResponse_ver { c with assoc := (if a = 0 then cli else a, pt) } _ _ _ _ _ heq2, by simp [lateActs]⟩
    cases hr : c2.inBuf.readN 0 (len : Int) with
    | error e => rw [hr] at h; cases h
    | ok bytes =>
      rw [hr] at h
      cases h
      refine ⟨hv.1, rfl, ?_⟩
      rw [lateActs_append, lateActs_append, hv.2]
      by_cases he : ec = .ok <;> simp [he, lateActs, Act.op?, POp.late, POp.pre, POp.isReq]

theorem onReadUdp_fr (p : Params) (c : Conn) (cnt : List Int) (ec : Ec) (n : Nat) (src : Nat × Nat) :
    Fr c cnt (onReadUdp p c cnt ec n src) := by
  unfold onReadUdp; fr_tac

theorem Buf.write_eq_ok (b : Buf) (off : Int) (bytes : Bytes) (ob : Buf) (h : b.write off bytes = .ok ob) :
    ob = b.store off.toNat bytes := by
  unfold Buf.write at h; split at h <;> cases h; rfl

/-- what an intermediate completion of a composed read does -/
theorem onExactChunk_cases (p : Params) (c : Conn) (cnt : List Int) (off need got : Nat) (k : Kind) (ec : Ec) (data : Bytes)
    (c' : Conn) (cnt' : List Int) (acts : List Act)
    (h : onExactChunk p c cnt off need got k ec data = .ok (c', cnt', acts)) :
    (¬ (ec ≠ .ok ∨ data.length = 0 ∨ got + data.length ≥ need) ∧ c' = { c with outBuf := c.outBuf.store (off + got) data } ∧ cnt' = cnt
        ∧ acts = [.read .client (min (need - (got + data.length)) 65536) (.exact off need (got + data.length) k)])
    ∨ ((ec ≠ .ok ∨ data.length = 0 ∨ got + data.length ≥ need)
        ∧ exactDone p { c with outBuf := c.outBuf.store (off + got) data } cnt k ec (got + data.length) = .ok (c', cnt', acts)) := by
  unfold onExactChunk exactStep at h
  cases hw : c.outBuf.write ((off + got : Nat) : Int) data with
  | error e => rw [hw] at h; cases h
  | ok ob =>
    rw [hw] at h
    have := Buf.write_eq_ok _ _ _ _ hw
    rw [Int.toNat_natCast] at this
    subst this
    dsimp only at h
    by_cases hd : ec ≠ .ok ∨ data.length = 0 ∨ got + data.length ≥ need
    · right
      simp only [hd, decide_true, if_true] at h
      exact ⟨hd, h⟩
    · left
      simp only [hd, decide_false] at h
      cases h
      exact ⟨hd, rfl, rfl, rfl⟩

theorem Fr_of_ver (c c2 : Conn) (cnt : List Int) (o : Out) (hv : c2.ver = c.ver) (h : Fr c2 cnt o) : Fr c cnt o := by
  intro c' cnt' acts ho
  have := h c' cnt' acts ho
  rw [hv] at this
  exact this

theorem exactDone_fr (p : Params) (c : Conn) (cnt : List Int) (k : Kind) (ec : Ec) (total : Nat)
    (hk : k ≠ .hs1 ∧ k ≠ .hs2 ∧ k ≠ .req1) : Fr c cnt (exactDone p c cnt k ec total) := by
  cases k <;> simp at hk
  case dom => exact onRequestDomainName_fr p c cnt ec total
  all_goals (unfold exactDone; fr_tac)

theorem complete_late (p : Params) (c : Conn) (cnt : List Int) (op : POp) (r : Res) (hl : op.late = true) :
    Fr c cnt (complete p c cnt op r) := by
  cases op <;> cases r <;> (try (unfold complete; fr_tac; done))
  all_goals unfold complete
  all_goals dsimp only
  case exact.rd off need got k ec data =>
    have hk : k ≠ .hs1 ∧ k ≠ .hs2 ∧ k ≠ .req1 := by cases k <;> simp_all [POp.late, POp.pre, POp.isReq]
    intro c' cnt' acts h
    rcases onExactChunk_cases _ _ _ _ _ _ _ _ _ _ _ _ h with ⟨_, rfl, rfl, rfl⟩ | ⟨_, hd⟩
    · refine ⟨rfl, rfl, ?_⟩
      cases k <;> simp_all [lateActs, Act.op?, POp.late, POp.pre, POp.isReq]
    · exact exactDone_fr p { c with outBuf := c.outBuf.store (off + got) data } cnt k ec _ hk c' cnt' acts hd
  case readSome.rd s k ec data =>
    cases s
    · dsimp only
      cases hw : c.outBuf.write 0 data with
      | error e => intro c' cnt' acts h; cases h
      | ok ob =>
        dsimp only
        cases k
        case cliRecv => exact Fr_of_ver c { c with outBuf := ob } cnt _ rfl (onClientReceive_fr _ _ _ _)
        case waitEof => exact Fr_of_ver c { c with outBuf := ob } cnt _ rfl (waitForEof_fr _ _ _)
        all_goals fr_tac
    · dsimp only
      cases hw : c.inBuf.write 0 data with
      | error e => intro c' cnt' acts h; cases h
      | ok ob =>
        dsimp only
        cases k
        case srvRecv => exact Fr_of_ver c { c with inBuf := ob } cnt _ rfl (onServerReceive_fr _ _ _ _)
        all_goals fr_tac
  case write.wr s len k ec n =>
    cases k <;> simp [POp.late, POp.pre, POp.isReq] at hl <;> dsimp only
    case closeAfter => exact closeConnection_fr _ _
    case startAccept => exact startAccept_fr _ _ _
    case waitEof => exact waitForEof_fr _ _ _
    case relayStart => exact relayStart_fr _ _ _
    case cliFwd => exact onClientForward_fr _ _ _
    case srvFwd => exact onServerForward_fr _ _ _
    all_goals fr_tac
  case resolve.ips => exact onRequestDomainLookup_fr _ _ _ _
  case connect.conn => exact onConnected_fr _ _ _ _
  case accept.conn => exact onConnected_fr _ _ _ _
  case bound.bnd => exact bindConnection2_fr _ _ _ _
  case udpBound.bnd => exact udpAssociate2_fr _ _ _ _ _ _ _
  case udpRecv.dgram ec data src =>
    cases hw : c.udpBuf.write 0 data with
    | error e => intro c' cnt' acts h; cases h
    | ok ub => exact Fr_of_ver c { c with udpBuf := ub } cnt _ rfl (onReadUdp_fr _ _ _ _ _ _)
  case udpResolve.ips => exact udpResolved_fr _ _ _ _ _ _

/-! ### the negotiation functions -/

theorem exactRead_out (c : Conn) (cnt : List Int) (off : Nat) (n : Int) (k : Kind) (c' : Conn) (cnt' : List Int) (acts : List Act)
    (h : exactRead c cnt off n k = .ok (c', cnt', acts)) :
    c' = c ∧ cnt' = cnt ∧ acts = [.read .client (min n.toNat 65536) (.exact off n.toNat 0 k)] := by
  unfold exactRead at h; split at h <;> cases h; exact ⟨rfl, rfl, rfl⟩

theorem start_out_neg (c : Conn) (cnt : List Int) (c' : Conn) (cnt' : List Int) (acts : List Act)
    (h : start c cnt = .ok (c', cnt', acts)) :
    c' = c ∧ cnt' = cnt ∧ ((c.ver = 4 ∧ acts = [.read .client 9 (.exact 0 9 0 .req1)])
                          ∨ (c.ver ≠ 4 ∧ acts = [.read .client 2 (.exact 0 2 0 .hs1)])) := by
  unfold start at h
  split at h
  · obtain ⟨h1, h2, h3⟩ := exactRead_out _ _ _ _ _ _ _ _ h
    exact ⟨h1, h2, .inl ⟨by assumption, h3⟩⟩
  · obtain ⟨h1, h2, h3⟩ := exactRead_out _ _ _ _ _ _ _ _ h
    exact ⟨h1, h2, .inr ⟨by assumption, h3⟩⟩

theorem onHandshake1_out (p : Params) (c : Conn) (cnt : List Int) (ec : Ec) (n : Nat) (c' : Conn) (cnt' : List Int) (acts : List Act)
    (h : onHandshake1 p c cnt ec n = .ok (c', cnt', acts)) :
    c'.ver = c.ver ∧ cnt' = cnt ∧ (acts = closeActs ∨ ∃ cap need, acts = [.read .client cap (.exact 0 need 0 .hs2)]) := by
  unfold onHandshake1 closeConnection at h
  repeat' (first | split at h | (dsimp only at h))
  all_goals (try cases h)
  all_goals (try exact ⟨rfl, rfl, .inl rfl⟩)
  all_goals (obtain ⟨h1, h2, h3⟩ := exactRead_out _ _ _ _ _ _ _ _ h; subst h1 h2; exact ⟨rfl, rfl, .inr ⟨_, _, h3⟩⟩)

theorem onHandshake2_out (c : Conn) (cnt : List Int) (ec : Ec) (n : Nat) (c' : Conn) (cnt' : List Int) (acts : List Act)
    (h : onHandshake2 c cnt ec n = .ok (c', cnt', acts)) :
    c'.ver = c.ver ∧ cnt' = cnt ∧ (acts = closeActs ∨ ∃ bytes len, acts = [.write .client bytes (.write .client len .hs3)]) := by
  unfold onHandshake2 closeConnection writeFrom at h
  repeat' (first | split at h | (dsimp only at h))
  all_goals (try cases h)
  all_goals (try exact ⟨rfl, rfl, .inl rfl⟩)
  all_goals exact ⟨rfl, rfl, .inr ⟨_, _, rfl⟩⟩

theorem onHandshake3_out (c : Conn) (cnt : List Int) (ec : Ec) (n : Nat) (c' : Conn) (cnt' : List Int) (acts : List Act)
    (h : onHandshake3 c cnt ec n = .ok (c', cnt', acts)) :
    c' = c ∧ cnt' = cnt ∧ (acts = closeActs ∨ acts = [.read .client 10 (.exact 0 10 0 .req1)]) := by
  unfold onHandshake3 closeConnection at h
  split at h
  · cases h; exact ⟨rfl, rfl, .inl rfl⟩
  · obtain ⟨h1, h2, h3⟩ := exactRead_out _ _ _ _ _ _ _ _ h
    exact ⟨h1, h2, .inr h3⟩

/-- the counters after `on_request1` saw command byte `k` -/
def cntAfter (cnt : List Int) (k : Int) : List Int :=
  if 1 ≤ k ∧ k ≤ 3 then cnt.set (k - 1).toNat (cnt.getD (k - 1).toNat 0 + 1) else cnt

theorem cntAfter_length (cnt : List Int) (k : Int) : (cntAfter cnt k).length = cnt.length := by
  unfold cntAfter; split <;> simp

theorem guard_bump_neg (cnt : List Int) (hc : cnt.length = 3) (k : Int) :
    (if 1 ≤ k ∧ k ≤ 3 then bump cnt (k - 1) else .ok cnt) = .ok (cntAfter cnt k) := by
  unfold cntAfter bump
  by_cases h : 1 ≤ k ∧ k ≤ 3
  · have : 0 ≤ k - 1 ∧ k - 1 < (cnt.length : Int) := by omega
    simp [h, this]
  · simp [h]

theorem outPrefix_length_neg (c : Conn) (n : Nat) : (c.outPrefix n).length = n := by simp [Conn.outPrefix]
theorem outPrefix_getD_neg (c : Conn) (n i : Nat) (h : i < n) : (c.outPrefix n).getD i 0 = c.outBuf.byte i := by
  simp [Conn.outPrefix, h]

theorem expectedLen_le_neg (v : Int) : expectedLen v ≤ 10 := by unfold expectedLen; split <;> omega
theorem expectedLen_ge_neg (v : Int) : 9 ≤ expectedLen v := by unfold expectedLen; split <;> omega

theorem Buf.readN0_eq_ok (c : Conn) (n : Nat) (H : Bytes) (h : c.outBuf.readN 0 n = .ok H) : H = c.outPrefix n := by
  unfold Buf.readN at h
  split at h <;> cases h
  simp [Conn.outPrefix]

theorem onRequest1_out (c : Conn) (cnt : List Int) (ec : Ec) (n : Nat) (c' : Conn) (cnt' : List Int) (acts : List Act)
    (hc : cnt.length = 3) (h : onRequest1 {} c cnt ec n = .ok (c', cnt', acts)) :
    c'.ver = c.ver ∧ lateActs acts = true
      ∧ cnt' = (if ec = .ok ∧ n = expectedLen c.ver then cntAfter cnt (sx (c.outBuf.byte 1)) else cnt) := by
  unfold onRequest1 at h
  have he : (if c.ver = 4 then 9 else 10) = expectedLen c.ver := rfl
  simp only [he] at h
  by_cases h0 : ec ≠ .ok ∨ n ≠ expectedLen c.ver
  · simp only [h0, if_true, closeConnection] at h
    cases h
    have : ¬ (ec = .ok ∧ n = expectedLen c.ver) := by
      intro ⟨a, b⟩; rcases h0 with h0 | h0; exact h0 a; exact h0 b
    simp [this, lateActs, closeActs, Act.op?]
  · simp only [h0, if_false] at h
    have h0' : ec = .ok ∧ n = expectedLen c.ver := by
      constructor
      · exact Classical.byContradiction (fun a => h0 (.inl a))
      · exact Classical.byContradiction (fun a => h0 (.inr a))
    simp only [h0', and_self, if_true]
    cases hr : c.outBuf.readN 0 (expectedLen c.ver : Nat) with
    | error e => rw [hr] at h; cases h
    | ok H =>
      rw [hr] at h
      have hH := Buf.readN0_eq_ok c _ H hr
      have hb1 : H.getD 1 0 = c.outBuf.byte 1 := by
        rw [hH]; exact outPrefix_getD_neg c _ 1 (by have := expectedLen_ge_neg c.ver; omega)
      simp only [guard_bump_neg cnt hc, if_true] at h
      rw [hb1] at h
      generalize cntAfter cnt (sx (c.outBuf.byte 1)) = cnt2 at h ⊢
      have hF : ∀ o : Out, Fr { c with command := sx (c.outBuf.byte 1) } cnt2 o → o = .ok (c', cnt', acts) →
          c'.ver = c.ver ∧ lateActs acts = true ∧ cnt' = cnt2 := by
        intro o ho e
        obtain ⟨a1, a2, a3⟩ := ho c' cnt' acts e
        exact ⟨a1, a3, a2⟩
      refine hF _ ?_ h
      repeat' split
      all_goals first
        | exact closeConnection_fr _ _
        | exact openForwardConnection_fr _ _ _ _
        | exact bindConnection_fr _ _ _ _
        | exact udpAssociate_fr _ _ _ _
        | exact onRequestDomainName_fr _ _ _ _ _
        | exact exactRead_fr _ _ _ _ _ (by simp)

/-! ### ghosts -/

theorem reqBytes_append_other (hist : List (POp × Res)) (op : POp) (r : Res) (h : op.isReq = false) :
    reqBytes (hist ++ [(op, r)]) = reqBytes hist := by
  unfold reqBytes
  rw [List.flatMap_append]
  cases op <;> simp_all [POp.isReq]
  rename_i k; cases k <;> simp_all <;> cases r <;> simp

theorem reqOk_append_other (hist : List (POp × Res)) (op : POp) (r : Res) (h : op.isReq = false) :
    reqOk (hist ++ [(op, r)]) = reqOk hist := by
  unfold reqOk
  rw [List.all_append]
  cases op <;> simp_all [POp.isReq]
  rename_i k; cases k <;> simp_all <;> cases r <;> simp

theorem reqBytes_append_req (hist : List (POp × Res)) (a b g : Nat) (ec : Ec) (d : Bytes) :
    reqBytes (hist ++ [(.exact a b g .req1, .rd ec d)]) = reqBytes hist ++ d := by
  unfold reqBytes
  rw [List.flatMap_append]
  simp

theorem reqOk_append_req (hist : List (POp × Res)) (a b g : Nat) (ec : Ec) (d : Bytes) :
    reqOk (hist ++ [(.exact a b g .req1, .rd ec d)]) = (reqOk hist && (ec == .ok)) := by
  unfold reqOk
  rw [List.all_append]
  simp

theorem command?_congr (cs cs' : CS) (hv : cs'.c.ver = cs.c.ver) (hb : reqBytes cs'.hist = reqBytes cs.hist)
    (ho : reqOk cs'.hist = reqOk cs.hist) : cs'.command? = cs.command? := by
  unfold CS.command?; rw [hv, hb, ho]

theorem addOps_nil_closeActs : addOps [] closeActs = [] := by
  simp [addOps, closeActs, Act.op?]

theorem addOps_nil_single (a : Act) (op : POp) (h : a.op? = some op) : addOps [] [a] = [{ op := op }] := by
  simp [addOps, h]
  cases op.rdSock <;> rfl

theorem addOps_late (pend : List PEnt) (acts : List Act) (hp : ∀ e ∈ pend, e.op.late = true) (ha : lateActs acts = true) :
    ∀ e ∈ addOps pend acts, e.op.late = true := by
  induction acts generalizing pend with
  | nil => simpa [addOps] using hp
  | cons a rest ih =>
    simp only [lateActs, List.all_cons, Bool.and_eq_true] at ha
    unfold addOps
    cases ho : a.op? with
    | none => exact ih pend hp ha.2
    | some op =>
      dsimp only
      have hop : op.late = true := by have := ha.1; rw [ho] at this; exact this
      apply ih _ _ ha.2
      intro e he
      rw [List.mem_append] at he
      rcases he with he | he
      · cases hs : op.rdSock with
        | none => rw [hs] at he; exact hp e he
        | some sk =>
          rw [hs] at he
          dsimp only at he
          rw [List.mem_map] at he
          obtain ⟨e0, he0, rfl⟩ := he
          split
          · exact hp e0 he0
          · exact hp e0 he0
      · simp at he; subst he; exact hop

theorem valid_exact_neg (off need got : Nat) (k : Kind) (r : Res) (h : valid (.exact off need got k) r = true) :
    ∃ ec data, r = .rd ec data ∧ data.length ≤ need - got := by
  cases r <;> simp [valid] at h
  exact ⟨_, _, rfl, by omega⟩

theorem valid_write_neg (s : Sock) (len : Nat) (k : Kind) (r : Res) (h : valid (.write s len k) r = true) :
    ∃ ec n, r = .wr ec n := by
  cases r <;> simp [valid] at h
  exact ⟨_, _, rfl⟩

theorem outPrefix_store_neg (c : Conn) (got : Nat) (data : Bytes) :
    ({ c with outBuf := c.outBuf.store got data } : Conn).outPrefix (got + data.length) = c.outPrefix got ++ data := by
  unfold Conn.outPrefix
  apply List.ext_getElem
  · simp
  · intro i h1 h2
    simp only [List.length_map, List.length_range] at h1
    simp only [List.getElem_map, List.getElem_range, Buf.store_byte, List.getElem_append, List.length_map, List.length_range]
    by_cases hi : i < got
    · have : ¬ (got ≤ i ∧ i < got + data.length) := by omega
      simp [hi, this]
    · have : got ≤ i ∧ i < got + data.length := by omega
      simp [hi, this]
      rw [List.getElem?_eq_getElem (by omega)]; rfl

/-! ### the per-connection negotiation invariant -/

/-- before the request: at most one operation, of the greeting / method negotiation (SOCKS5 only) -/
def CPre (cs : CS) : Prop :=
  cs.c.ver ≠ 4 ∧ cs.pend.length ≤ 1 ∧ (∀ e ∈ cs.pend, e.op.pre = true) ∧ reqBytes cs.hist = [] ∧ reqOk cs.hist = true

/-- the request's composed read is in progress: `got` bytes so far, all stored at the start of `m_out_buffer` -/
def CReq (cs : CS) : Prop :=
  ∃ got ab, cs.pend = [{ op := .exact 0 (expectedLen cs.c.ver) got .req1, aborted := ab }] ∧ reqOk cs.hist = true
    ∧ (reqBytes cs.hist).length = got ∧ got < expectedLen cs.c.ver ∧ cs.c.outPrefix got = reqBytes cs.hist

/-- after the request: no operation of the negotiation is pending any more -/
def CPost (cs : CS) : Prop := ∀ e ∈ cs.pend, e.op.late = true

def CInv (cs : CS) : Prop := CPre cs ∨ CReq cs ∨ CPost cs

/-- the connection after the completion of its `i`-th pending operation -/
def CS.next (cs : CS) (i : Nat) (e : PEnt) (r : Res) (c : Conn) (acts : List Act) : CS :=
  { c := c, pend := addOps (cs.pend.eraseIdx i) acts, hist := cs.hist ++ [(e.op, r)], acts := cs.acts ++ acts }

/-- what a step does to the ghost command and to the counters -/
def StepEff (cs cs' : CS) (cnt cnt' : List Int) : Prop :=
  (cs'.command? = cs.command? ∧ cnt' = cnt) ∨ (cs.command? = none ∧ ∃ k, cs'.command? = some k ∧ cnt' = cntAfter cnt k)

theorem step_post (cs : CS) (cnt : List Int) (i : Nat) (e : PEnt) (r : Res) (c : Conn) (cnt' : List Int) (acts : List Act)
    (hI : CPost cs) (he : cs.pend[i]? = some e) (h : complete {} cs.c cnt e.op r = .ok (c, cnt', acts)) :
    CInv (cs.next i e r c acts) ∧ StepEff cs (cs.next i e r c acts) cnt cnt' := by
  have hmem : e ∈ cs.pend := List.mem_of_getElem? he
  have hl := hI e hmem
  obtain ⟨hv, hcnt, hla⟩ := complete_late {} cs.c cnt e.op r hl c cnt' acts h
  have hnr : e.op.isReq = false := by simp [POp.late] at hl; exact hl.2
  constructor
  · right; right
    apply addOps_late _ _ _ hla
    intro e' he'
    exact hI e' (List.mem_of_mem_eraseIdx he')
  · left
    refine ⟨command?_congr _ _ hv ?_ ?_, hcnt⟩
    · exact reqBytes_append_other _ _ _ hnr
    · exact reqOk_append_other _ _ _ hnr

theorem single_of_neg {α : Type} (l : List α) (i : Nat) (e : α) (hl : l.length ≤ 1) (he : l[i]? = some e) : l = [e] ∧ i = 0 := by
  match l, i with
  | [], _ => simp at he
  | [x], 0 => simp at he; simp [he]
  | [x], i + 1 => simp at he
  | _ :: _ :: _, _ => simp at hl

/-- the common part of a step before the request: nothing of the request's ghosts changes -/
theorem pre_eff (cs : CS) (cnt : List Int) (e : PEnt) (r : Res) (c : Conn) (acts : List Act)
    (hnr : e.op.isReq = false) (hv : c.ver = cs.c.ver) :
    StepEff cs (cs.next 0 e r c acts) cnt cnt :=
  .inl ⟨command?_congr _ _ hv (reqBytes_append_other _ _ _ hnr) (reqOk_append_other _ _ _ hnr), rfl⟩

theorem cpre_next (cs : CS) (e : PEnt) (r : Res) (c : Conn) (acts : List Act) (hI : CPre cs) (hp : cs.pend = [e])
    (hnr : e.op.isReq = false) (hv : c.ver = cs.c.ver)
    (ha : acts = closeActs ∨ ∃ a op, acts = [a] ∧ a.op? = some op ∧ op.pre = true) :
    CPre (cs.next 0 e r c acts) := by
  obtain ⟨hv4, _, _, hb, ho⟩ := hI
  refine ⟨by show c.ver ≠ 4; rw [hv]; exact hv4, ?_, ?_, ?_, ?_⟩
  · show (addOps (cs.pend.eraseIdx 0) acts).length ≤ 1
    rw [hp]
    rcases ha with rfl | ⟨a, op, rfl, hop, _⟩
    · simp [addOps_nil_closeActs]
    · simp [addOps_nil_single a op hop]
  · show ∀ e' ∈ addOps (cs.pend.eraseIdx 0) acts, e'.op.pre = true
    rw [hp]
    rcases ha with rfl | ⟨a, op, rfl, hop, hpre⟩
    · simp [addOps_nil_closeActs]
    · simp [addOps_nil_single a op hop, hpre]
  · show reqBytes (cs.hist ++ [(e.op, r)]) = []
    rw [reqBytes_append_other _ _ _ hnr, hb]
  · show reqOk (cs.hist ++ [(e.op, r)]) = true
    rw [reqOk_append_other _ _ _ hnr, ho]

theorem step_pre (cs : CS) (cnt : List Int) (i : Nat) (e : PEnt) (r : Res) (c : Conn) (cnt' : List Int) (acts : List Act)
    (hI : CPre cs) (he : cs.pend[i]? = some e) (hok : e.ok r = true)
    (h : complete {} cs.c cnt e.op r = .ok (c, cnt', acts)) :
    CInv (cs.next i e r c acts) ∧ StepEff cs (cs.next i e r c acts) cnt cnt' := by
  obtain ⟨hp, rfl⟩ := single_of_neg _ _ _ hI.2.1 he
  have hpre : e.op.pre = true := hI.2.2.1 e (by rw [hp]; simp)
  have hval : valid e.op r = true := by simp [PEnt.ok] at hok; exact hok.1
  -- the shape of the operation
  cases hop : e.op with
  | exact off need got k =>
    rw [hop] at hpre hval h
    have hnr : e.op.isReq = false := by rw [hop]; cases k <;> simp_all [POp.pre, POp.isReq]
    obtain ⟨ec, data, rfl, _⟩ := valid_exact_neg _ _ _ _ _ hval
    have hk : k = .hs1 ∨ k = .hs2 := by cases k <;> simp_all [POp.pre]
    unfold complete at h
    dsimp only at h
    rcases onExactChunk_cases _ _ _ _ _ _ _ _ _ _ _ _ h with ⟨_, rfl, rfl, rfl⟩ | ⟨_, hd⟩
    · exact ⟨.inl (cpre_next cs e _ _ _ hI hp hnr rfl (.inr ⟨_, _, rfl, rfl, by rcases hk with rfl | rfl <;> rfl⟩)),
        pre_eff cs _ e _ _ _ hnr rfl⟩
    · rcases hk with rfl | rfl
      · obtain ⟨hv, rfl, ha⟩ := onHandshake1_out _ _ _ _ _ _ _ _ hd
        refine ⟨.inl (cpre_next cs e _ _ _ hI hp hnr hv ?_), pre_eff cs _ e _ _ _ hnr hv⟩
        rcases ha with ha | ⟨cap, nd, ha⟩
        · exact .inl ha
        · exact .inr ⟨_, _, ha, rfl, rfl⟩
      · obtain ⟨hv, rfl, ha⟩ := onHandshake2_out _ _ _ _ _ _ _ hd
        refine ⟨.inl (cpre_next cs e _ _ _ hI hp hnr hv ?_), pre_eff cs _ e _ _ _ hnr hv⟩
        rcases ha with ha | ⟨bytes, len, ha⟩
        · exact .inl ha
        · exact .inr ⟨_, _, ha, rfl, rfl⟩
  | write sk len k =>
    rw [hop] at hpre hval h
    have hk : k = .hs3 := by cases k <;> simp_all [POp.pre]
    subst hk
    have hnr : e.op.isReq = false := by rw [hop]; rfl
    obtain ⟨ec, n, rfl⟩ := valid_write_neg _ _ _ _ hval
    unfold complete at h
    dsimp only at h
    obtain ⟨rfl, rfl, ha⟩ := onHandshake3_out _ _ _ _ _ _ _ h
    refine ⟨?_, pre_eff cs _ e _ _ _ hnr rfl⟩
    rcases ha with ha | ha
    · exact .inl (cpre_next cs e _ _ _ hI hp hnr rfl (.inl ha))
    · right; left
      obtain ⟨hv4, _, _, hb, ho⟩ := hI
      have hex : expectedLen cs.c.ver = 10 := by simp [expectedLen, hv4]
      refine ⟨0, false, ?_, ?_, ?_, ?_, ?_⟩
      · show addOps (cs.pend.eraseIdx 0) acts = _
        rw [hp, ha]
        show _ = [({ op := POp.exact 0 (expectedLen cs.c.ver) 0 Kind.req1, aborted := false } : PEnt)]
        rw [hex]; rfl
      · show reqOk (cs.hist ++ [(e.op, _)]) = true
        rw [reqOk_append_other _ _ _ hnr, ho]
      · show (reqBytes (cs.hist ++ [(e.op, _)])).length = 0
        rw [reqBytes_append_other _ _ _ hnr, hb]; rfl
      · show 0 < expectedLen cs.c.ver
        omega
      · show cs.c.outPrefix 0 = reqBytes (cs.hist ++ [(e.op, _)])
        rw [reqBytes_append_other _ _ _ hnr, hb]; rfl
  | _ => rw [hop] at hpre; simp [POp.pre] at hpre

theorem command?_none_of_short (cs : CS) (h : (reqBytes cs.hist).length < expectedLen cs.c.ver) : cs.command? = none := by
  unfold CS.command?
  have : ¬ (reqBytes cs.hist).length = expectedLen cs.c.ver := by omega
  simp [this]

theorem step_req (cs : CS) (cnt : List Int) (i : Nat) (e : PEnt) (r : Res) (c : Conn) (cnt' : List Int) (acts : List Act)
    (hI : CReq cs) (hc : cnt.length = 3) (he : cs.pend[i]? = some e) (hok : e.ok r = true)
    (h : complete {} cs.c cnt e.op r = .ok (c, cnt', acts)) :
    CInv (cs.next i e r c acts) ∧ StepEff cs (cs.next i e r c acts) cnt cnt' := by
  obtain ⟨got, ab, hp, ho, hlen, hlt, hpre⟩ := hI
  obtain ⟨hp', rfl⟩ := single_of_neg cs.pend i e (by rw [hp]; simp) he
  have hee : e = { op := .exact 0 (expectedLen cs.c.ver) got .req1, aborted := ab } := by
    rw [hp] at hp'; simpa using hp'.symm
  have hop : e.op = .exact 0 (expectedLen cs.c.ver) got .req1 := by rw [hee]
  have hval : valid e.op r = true := by simp [PEnt.ok] at hok; exact hok.1
  rw [hop] at hval h
  obtain ⟨ec, data, rfl, hdl⟩ := valid_exact_neg _ _ _ _ _ hval
  have hnone : cs.command? = none := command?_none_of_short cs (by omega)
  unfold complete at h
  dsimp only at h
  have hB : reqBytes (cs.hist ++ [(e.op, Res.rd ec data)]) = reqBytes cs.hist ++ data := by
    rw [hop]; exact reqBytes_append_req _ _ _ _ _ _
  have hO : reqOk (cs.hist ++ [(e.op, Res.rd ec data)]) = (reqOk cs.hist && (ec == .ok)) := by
    rw [hop]; exact reqOk_append_req _ _ _ _ _ _
  rcases onExactChunk_cases _ _ _ _ _ _ _ _ _ _ _ _ h with ⟨hnd, rfl, rfl, rfl⟩ | ⟨hdone, hd⟩
  · -- the read goes on
    have hec : ec = .ok := Classical.byContradiction (fun a => hnd (.inl a))
    have hlt' : got + data.length < expectedLen cs.c.ver := by
      have : ¬ got + data.length ≥ expectedLen cs.c.ver := fun a => hnd (.inr (.inr a))
      omega
    constructor
    · right; left
      refine ⟨got + data.length, false, ?_, ?_, ?_, hlt', ?_⟩
      · show addOps (cs.pend.eraseIdx 0) _ = _
        rw [hp]; rfl
      · show reqOk (cs.hist ++ [(e.op, _)]) = true
        rw [hO, ho, hec]; rfl
      · show (reqBytes (cs.hist ++ [(e.op, _)])).length = _
        rw [hB, List.length_append, hlen]
      · show Conn.outPrefix _ _ = reqBytes (cs.hist ++ [(e.op, _)])
        rw [hB, ← hpre, Nat.zero_add]
        exact outPrefix_store_neg cs.c got data
    · left
      refine ⟨?_, rfl⟩
      rw [hnone]
      apply command?_none_of_short
      show (reqBytes (cs.hist ++ [(e.op, _)])).length < expectedLen cs.c.ver
      rw [hB, List.length_append, hlen]; exact hlt'
  · -- the read is over: on_request1
    unfold exactDone at hd
    dsimp only at hd
    obtain ⟨hv, hla, hcnt⟩ := onRequest1_out _ _ _ _ _ _ _ hc hd
    have hv' : c.ver = cs.c.ver := hv
    constructor
    · right; right
      show ∀ e' ∈ addOps (cs.pend.eraseIdx 0) acts, e'.op.late = true
      rw [hp]
      exact addOps_late _ _ (by simp) hla
    · by_cases hfull : ec = .ok ∧ got + data.length = expectedLen cs.c.ver
      · right
        refine ⟨hnone, sx ((reqBytes cs.hist ++ data).getD 1 0), ?_, ?_⟩
        · have hB' : reqBytes (cs.next 0 e (Res.rd ec data) c acts).hist = reqBytes cs.hist ++ data := hB
          have hO' : reqOk (cs.next 0 e (Res.rd ec data) c acts).hist = (reqOk cs.hist && (ec == .ok)) := hO
          have hV' : (cs.next 0 e (Res.rd ec data) c acts).c.ver = cs.c.ver := hv'
          unfold CS.command?
          rw [hB', hO', hV', ho, hfull.1, List.length_append, hlen]
          simp [hfull.2]
        · rw [hcnt]
          have : (ec = .ok ∧ got + data.length = expectedLen cs.c.ver) := hfull
          simp only [this, and_self, if_true]
          congr 2
          have := outPrefix_store_neg cs.c got data
          rw [hpre] at this
          rw [← this, Nat.zero_add]
          rw [outPrefix_getD_neg _ _ 1 (by have := expectedLen_ge_neg cs.c.ver; omega)]
      · left
        constructor
        · rw [hnone]
          have hB' : reqBytes (cs.next 0 e (Res.rd ec data) c acts).hist = reqBytes cs.hist ++ data := hB
          have hO' : reqOk (cs.next 0 e (Res.rd ec data) c acts).hist = (reqOk cs.hist && (ec == .ok)) := hO
          have hV' : (cs.next 0 e (Res.rd ec data) c acts).c.ver = cs.c.ver := hv'
          unfold CS.command?
          rw [hB', hO', hV', ho, List.length_append, hlen]
          have : ¬ (((true && (ec == Ec.ok)) = true) ∧ got + data.length = expectedLen cs.c.ver) := by
            intro ⟨a, b⟩; exact hfull ⟨by simpa using a, b⟩
          simp only [this, if_false]
        · rw [hcnt]
          have : ¬ (ec = .ok ∧ got + data.length = expectedLen cs.c.ver) := hfull
          simp only [this, if_false]

theorem conn_step (cs : CS) (cnt : List Int) (i : Nat) (e : PEnt) (r : Res) (c : Conn) (cnt' : List Int) (acts : List Act)
    (hI : CInv cs) (hc : cnt.length = 3) (he : cs.pend[i]? = some e) (hok : e.ok r = true)
    (h : complete {} cs.c cnt e.op r = .ok (c, cnt', acts)) :
    CInv (cs.next i e r c acts) ∧ StepEff cs (cs.next i e r c acts) cnt cnt' := by
  rcases hI with h1 | h1 | h1
  · exact step_pre cs cnt i e r c cnt' acts h1 he hok h
  · exact step_req cs cnt i e r c cnt' acts h1 hc he hok h
  · exact step_post cs cnt i e r c cnt' acts h1 he h

/-! ### the global counting argument -/

theorem filter_set_length_neg {α : Type} (l : List α) (p : α → Bool) (i : Nat) (a x : α) (h : l[i]? = some a) :
    ((l.set i x).filter p).length + (if p a then 1 else 0) = (l.filter p).length + (if p x then 1 else 0) := by
  induction l generalizing i with
  | nil => simp at h
  | cons y ys ih =>
    cases i with
    | zero =>
      simp at h; subst h
      simp only [List.set_cons_zero, List.filter_cons]
      by_cases h1 : p y <;> by_cases h2 : p x <;> simp [h1, h2]
    | succ j =>
      simp at h
      have := ih j h
      simp only [List.set_cons_succ, List.filter_cons]
      by_cases h1 : p y <;> simp [h1] <;> omega

structure SInv (s : SS) : Prop where
  conns : ∀ cs ∈ s.conns, CInv cs
  cnt : s.cnt = [s.countCmd 1, s.countCmd 2, s.countCmd 3]

theorem SInv_init (ver : Int) (flags : Nat) : SInv (SS.init ver flags) :=
  ⟨by intro cs h; simp [SS.init] at h, by simp [SS.init, SS.countCmd]⟩

def countL (l : List CS) (k : Int) : Int := ((l.filter (fun cs => cs.command? = some k)).length : Int)

theorem countCmd_eq (s : SS) (k : Int) : s.countCmd k = countL s.conns k := rfl

theorem countL_set (l : List CS) (ci : Nat) (cs cs' : CS) (k : Int) (h : l[ci]? = some cs) :
    countL (l.set ci cs') k + (if cs.command? = some k then 1 else 0)
      = countL l k + (if cs'.command? = some k then 1 else 0) := by
  unfold countL
  have := filter_set_length_neg l (fun cs => decide (cs.command? = some k)) ci cs cs' h
  simp only [decide_eq_true_eq] at this
  by_cases h1 : cs.command? = some k <;> by_cases h2 : cs'.command? = some k <;> simp [h1, h2] at this ⊢ <;> omega

theorem cntAfter3 (a b c k : Int) :
    cntAfter [a, b, c] k = [a + (if k = 1 then 1 else 0), b + (if k = 2 then 1 else 0), c + (if k = 3 then 1 else 0)] := by
  unfold cntAfter
  by_cases h : 1 ≤ k ∧ k ≤ 3
  · have : k = 1 ∨ k = 2 ∨ k = 3 := by omega
    rcases this with rfl | rfl | rfl <;> simp
  · have h1 : k ≠ 1 := by omega
    have h2 : k ≠ 2 := by omega
    have h3 : k ≠ 3 := by omega
    simp [h, h1, h2, h3]

theorem command?_new (c : Conn) (pend : List PEnt) (acts : List Act) :
    ({ c := c, pend := pend, acts := acts } : CS).command? = none :=
  command?_none_of_short _ (by show ([] : Bytes).length < _; have := expectedLen_ge_neg c.ver; simp; omega)

theorem SInv_step (s s' : SS) (l : SLbl) (hI : SInv s) (h : s.step {} l = .ok s') : SInv s' := by
  cases l with
  | accept =>
    unfold SS.step at h
    dsimp only at h
    cases hst : start { ver := s.ver, flags := s.flags } s.cnt with
    | error f => rw [hst] at h; cases h
    | ok res =>
      obtain ⟨c, cnt, acts⟩ := res
      rw [hst] at h
      cases h
      obtain ⟨rfl, rfl, ha⟩ := start_out_neg _ _ _ _ _ hst
      constructor
      · intro cs hcs
        dsimp only at hcs
        rw [List.mem_append] at hcs
        rcases hcs with hcs | hcs
        · exact hI.conns cs hcs
        · simp only [List.mem_singleton] at hcs
          subst hcs
          rcases ha with ⟨hv, rfl⟩ | ⟨hv, rfl⟩
          · right; left
            have hv' : s.ver = 4 := hv
            refine ⟨0, false, ?_, rfl, rfl, ?_, rfl⟩
            · simp [expectedLen, hv']; rfl
            · simp [expectedLen, hv']
          · left
            refine ⟨hv, ?_, ?_, rfl, rfl⟩
            · simp [addOps, Act.op?, POp.rdSock]
            · simp [addOps, Act.op?, POp.rdSock, POp.pre]
      · have hk : ∀ k, SS.countCmd { s with cnt := s.cnt, conns := s.conns ++ [{ c := { ver := s.ver, flags := s.flags }, pend := addOps [] acts, acts := acts }] } k = s.countCmd k := by
          intro k
          unfold SS.countCmd
          simp [List.filter_append, command?_new]
        show s.cnt = _
        rw [hk 1, hk 2, hk 3]
        exact hI.cnt
  | complete ci i r =>
    unfold SS.step at h
    dsimp only at h
    cases hcs : s.conns[ci]? with
    | none => rw [hcs] at h; cases h; exact hI
    | some cs =>
      rw [hcs] at h
      dsimp only at h
      cases hpe : cs.pend[i]? with
      | none => rw [hpe] at h; cases h; exact hI
      | some e =>
        rw [hpe] at h
        dsimp only at h
        by_cases hok : e.ok r = true
        · simp only [hok, Bool.not_true, Bool.false_eq_true, if_false] at h
          cases hco : complete {} cs.c s.cnt e.op r with
          | error f => rw [hco] at h; cases h
          | ok res =>
            obtain ⟨c, cnt', acts⟩ := res
            rw [hco] at h
            cases h
            have hmem : cs ∈ s.conns := List.mem_of_getElem? hcs
            have hc3 : s.cnt.length = 3 := by rw [hI.cnt]; rfl
            obtain ⟨hci, heff⟩ := conn_step cs s.cnt i e r c cnt' acts (hI.conns cs hmem) hc3 hpe hok hco
            constructor
            · intro x hx
              rcases List.mem_or_eq_of_mem_set hx with hx | hx
              · exact hI.conns x hx
              · rw [hx]; exact hci
            · have hk := fun k => countL_set s.conns ci cs (cs.next i e r c acts) k hcs
              have hcnt : s.cnt = [countL s.conns 1, countL s.conns 2, countL s.conns 3] := hI.cnt
              show cnt' = [countL (s.conns.set ci (cs.next i e r c acts)) 1, countL (s.conns.set ci (cs.next i e r c acts)) 2, countL (s.conns.set ci (cs.next i e r c acts)) 3]
              rcases heff with ⟨hsame, rfl⟩ | ⟨hnone, k0, hsome, rfl⟩
              · have h1 := hk 1; have h2 := hk 2; have h3 := hk 3
                rw [hsame] at h1 h2 h3
                rw [hcnt]
                congr 1
                · omega
                · congr 1
                  · omega
                  · congr 1; omega
              · have h1 := hk 1; have h2 := hk 2; have h3 := hk 3
                rw [hnone, hsome] at h1 h2 h3
                simp only [Option.some.injEq, reduceCtorEq, if_false, Int.add_zero] at h1 h2 h3
                rw [hcnt, cntAfter3, h1, h2, h3]
        · simp only [hok, Bool.not_false, if_true] at h
          cases h; exact hI

theorem SInv_run (s s' : SS) (ls : List SLbl) (hI : SInv s) (h : s.run {} ls = .ok s') : SInv s' := by
  induction ls generalizing s with
  | nil => unfold SS.run at h; cases h; exact hI
  | cons l rest ih =>
    unfold SS.run at h
    cases hst : s.step {} l with
    | error f => rw [hst] at h; cases h
    | ok s1 => rw [hst] at h; exact ih s1 (SInv_step s s1 l hI hst) h

end SimVerif.Socks
