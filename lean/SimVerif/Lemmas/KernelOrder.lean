/-
  Order among queued timers: by expiry, and among equal expiries by arming order
  (`std::upper_bound` insertion is stable). `armSeq` is the ghost serial number `arm`
  assigns; `nextSeq` the ghost counter.
-/
import SimVerif.Lemmas.KernelInv

namespace SimVerif

/-- The timer queue is ordered by expiry, then by arming serial number. -/
def OrderedTq (k : K) : Prop :=
  k.tq.Pairwise (fun a b => a.1 < b.1 ∨ (a.1 = b.1 ∧ (k.timers a.2).armSeq < (k.timers b.2).armSeq))

structure OInv (k : K) : Prop where
  ordered : OrderedTq k
  seqLt   : ∀ e i, (e, i) ∈ k.tq → (k.timers i).armSeq < k.nextSeq

/-- `OrderedTq` with the serial-number map abstracted. -/
def OrdBy (f : Nat → Nat) (l : List (Int × Nat)) : Prop :=
  l.Pairwise (fun a b => a.1 < b.1 ∨ (a.1 = b.1 ∧ f a.2 < f b.2))

theorem orderedTq_iff (k : K) : OrderedTq k ↔ OrdBy (fun i => (k.timers i).armSeq) k.tq := Iff.rfl

theorem ordBy_congr (f g : Nat → Nat) (l : List (Int × Nat))
    (h : ∀ e j, (e, j) ∈ l → f j = g j) (ho : OrdBy f l) : OrdBy g l := by
  unfold OrdBy at *
  refine List.Pairwise.imp_of_mem ?_ ho
  intro a b ha hb hr
  obtain ⟨ea, ia⟩ := a
  obtain ⟨eb, ib⟩ := b
  rw [← h ea ia ha, ← h eb ib hb]
  exact hr

theorem ordBy_sublist (f : Nat → Nat) {l l' : List (Int × Nat)} (hs : l'.Sublist l)
    (ho : OrdBy f l) : OrdBy f l' :=
  List.Pairwise.sublist hs ho

/-- Stable insertion: the new entry carries the largest serial number, so it lands after
    every entry with an expiry `≤` its own and the order is kept. -/
theorem ordBy_insertUB (f : Nat → Nat) (e : Int) (i : Nat) (l : List (Int × Nat))
    (ho : OrdBy f l) (hlt : ∀ e' j, (e', j) ∈ l → f j < f i) : OrdBy f (insertUB e i l) := by
  induction l with
  | nil => simp [insertUB, OrdBy]
  | cons a rest ih =>
    obtain ⟨e', j⟩ := a
    unfold OrdBy at ho
    rw [List.pairwise_cons] at ho
    have hrest : OrdBy f (insertUB e i rest) :=
      ih ho.2 (fun e'' j' hm => hlt e'' j' (List.mem_cons_of_mem _ hm))
    unfold insertUB
    unfold OrdBy
    split
    · rename_i hlt'
      rw [List.pairwise_cons]
      refine ⟨?_, List.pairwise_cons.mpr ho⟩
      intro b hb
      rw [List.mem_cons] at hb
      rcases hb with hb | hb
      · subst hb; exact Or.inl hlt'
      · have := ho.1 b hb
        simp only at this ⊢
        left; omega
    · rename_i hnlt
      rw [List.pairwise_cons]
      refine ⟨?_, hrest⟩
      intro b hb
      rw [mem_insertUB] at hb
      rcases hb with hb | hb
      · subst hb
        have := hlt e' j (by simp)
        simp only
        by_cases heq : e' = e
        · exact Or.inr ⟨heq, this⟩
        · left; omega
      · exact ho.1 b hb

/-- A transition that only removes queue entries and touches neither serial numbers nor
    the counter keeps the order invariant. -/
theorem OInv_of_sub (k k' : K) (hs : k'.tq.Sublist k.tq)
    (hseq : ∀ j, (k'.timers j).armSeq = (k.timers j).armSeq) (hn : k'.nextSeq = k.nextSeq)
    (ho : OInv k) : OInv k' := by
  constructor
  · rw [orderedTq_iff]
    apply ordBy_sublist _ hs
    have := (orderedTq_iff k).mp ho.ordered
    exact ordBy_congr _ _ _ (fun e j _ => (hseq j).symm) this
  · intro e i hm
    rw [hseq, hn]
    exact ho.seqLt e i (hs.subset hm)

theorem OInv_init : OInv ({} : K) := by
  constructor
  · simp [OrderedTq]
  · intro e i hm; simp at hm

/-! #### projections of `armSeq` / `nextSeq` -/

theorem fire_nextSeq (k : K) (i : Nat) (ec : Ec) : (fire k i ec).nextSeq = k.nextSeq := by
  unfold fire; dsimp only; split <;> rfl

theorem fire_armSeq (k : K) (i j : Nat) (ec : Ec) :
    ((fire k i ec).timers j).armSeq = (k.timers j).armSeq := by
  by_cases hji : j = i
  · subst hji; rw [fire_timers_same]
  · rw [fire_timers_other _ _ _ _ hji]

theorem cancel_nextSeq (k : K) (i : Nat) : (cancel k i).1.nextSeq = k.nextSeq := by
  unfold cancel; dsimp only; split <;> (try split) <;> simp [fire_nextSeq]

theorem cancel_armSeq (k : K) (i j : Nat) :
    ((cancel k i).1.timers j).armSeq = (k.timers j).armSeq := by
  by_cases hji : j = i
  · subst hji
    unfold cancel; dsimp only; split <;> (try split) <;> simp [fire_timers_same]
  · rw [cancel_timers_other _ _ _ hji]

theorem cancel_tq_sublist (k : K) (i : Nat) : (cancel k i).1.tq.Sublist k.tq := by
  rw [cancel_tq]; split
  · exact List.Sublist.refl _
  · exact List.erase_sublist

theorem OInv_fire (k : K) (i : Nat) (ec : Ec) (ho : OInv k) : OInv (fire k i ec) :=
  OInv_of_sub k _ (by rw [fire_tq]; exact List.Sublist.refl _) (fun j => fire_armSeq k i j ec)
    (fire_nextSeq k i ec) ho

theorem OInv_cancel (k : K) (i : Nat) (ho : OInv k) : OInv (cancel k i).1 :=
  OInv_of_sub k _ (cancel_tq_sublist k i) (fun j => cancel_armSeq k i j) (cancel_nextSeq k i) ho

/-- Arming a timer that is not in the queue: it gets the largest serial number and is
    inserted after every entry with the same expiry. -/
theorem OInv_arm (k : K) (i : Nat) (e : Int) (ho : OInv k) (hnotin : ∀ e', (e', i) ∉ k.tq) :
    OInv (arm k i e) := by
  have hne : ∀ e' j, (e', j) ∈ k.tq → j ≠ i := by
    intro e' j hm hji; subst hji; exact hnotin e' hm
  have hoth : ∀ e' j, (e', j) ∈ k.tq → ((arm k i e).timers j).armSeq = (k.timers j).armSeq := by
    intro e' j hm
    have := hne e' j hm
    unfold arm; simp [this]
  have hsame : ((arm k i e).timers i).armSeq = k.nextSeq := by rw [arm_timers_same]
  have htq : (arm k i e).tq = insertUB e i k.tq := rfl
  have hnext : (arm k i e).nextSeq = k.nextSeq + 1 := rfl
  constructor
  · rw [orderedTq_iff, htq]
    apply ordBy_insertUB
    · exact ordBy_congr _ _ _ (fun e' j hm => (hoth e' j hm).symm) ((orderedTq_iff k).mp ho.ordered)
    · intro e' j hm
      simp only [hsame, hoth e' j hm]
      exact ho.seqLt e' j hm
  · intro e' j hm
    rw [htq, mem_insertUB] at hm
    rw [hnext]
    rcases hm with hm | hm
    · simp only [Prod.mk.injEq] at hm
      rw [hm.2, hsame]; omega
    · rw [hoth e' j hm]
      have := ho.seqLt e' j hm; omega

theorem not_mem_tq_of_expired (k : K) (i : Nat) (hk : KInv k) (hexp : (k.timers i).expired = true) :
    ∀ e', (e', i) ∉ k.tq := by
  intro e' hm; have := (hk.agree e' i hm).2; rw [hexp] at this; cases this

theorem OInv_expiresAt (k : K) (i : Nat) (e : Int) (hk : KInv k) (ho : OInv k) :
    OInv (expiresAt k i e).1 :=
  OInv_arm _ i e (OInv_cancel k i ho)
    (not_mem_tq_of_expired _ i (KInv_cancel k i hk) (cancel_timers_same k i).1)

theorem OInv_setHandler (k : K) (i h : Nat) (ho : OInv k) : OInv (setHandler k i h) := by
  refine OInv_of_sub k (setHandler k i h) (List.Sublist.refl _) ?_ rfl ho
  intro j
  by_cases hji : j = i
  · subst hji; simp [setHandler]
  · simp [setHandler, hji]

theorem OInv_asyncWait (p : KParams) (k : K) (i h : Nat) (hk : KInv k) (ho : OInv k) :
    OInv (asyncWait p k i h) := by
  unfold asyncWait
  split
  · rename_i hexp
    split
    · exact OInv_setHandler _ i h (OInv_arm k i _ ho (not_mem_tq_of_expired k i hk hexp))
    · exact OInv_fire _ i .ok (OInv_setHandler k i h ho)
  · exact OInv_setHandler k i h ho

/-- The timer loop pops exactly as many entries as it reports. -/
theorem fireDue_tq (l : List (Int × Nat)) (k : K) (h : k.tq = l) :
    (fireDue l k).1.tq = l.drop (fireDue l k).2 := by
  induction l generalizing k with
  | nil => simpa [fireDue] using h
  | cons a rest ih =>
    obtain ⟨e, i⟩ := a
    unfold fireDue
    split
    · simp only
      rw [ih _ (fire_tq _ _ _)]
      rfl
    · simpa using h

theorem fireDue_nextSeq (l : List (Int × Nat)) (k : K) : (fireDue l k).1.nextSeq = k.nextSeq := by
  induction l generalizing k with
  | nil => simp [fireDue]
  | cons a rest ih =>
    obtain ⟨e, i⟩ := a
    unfold fireDue
    split
    · simp only; rw [ih, fire_nextSeq]
    · rfl

theorem fireDue_armSeq (l : List (Int × Nat)) (k : K) (j : Nat) :
    ((fireDue l k).1.timers j).armSeq = (k.timers j).armSeq := by
  induction l generalizing k with
  | nil => simp [fireDue]
  | cons a rest ih =>
    obtain ⟨e, i⟩ := a
    unfold fireDue
    split
    · simp only; rw [ih, fire_armSeq]
    · rfl

/-! #### what the timer loop posts -/

/-- The completion the timer loop posts for queue entry `x` when the timers are as in `k`:
    the pending handler bound with success (nothing if no wait is pending). -/
def dueCompletion (k : K) (x : Int × Nat) : Option Task :=
  ((k.timers x.2).handler).map (fun h =>
    { h := h, ec := .ok, tm := true, exp := (k.timers x.2).expiry, st := (k.timers x.2).startedAt })

theorem filterMap_congr_mem {α β : Type} {f g : α → Option β} {l : List α}
    (h : ∀ x, x ∈ l → f x = g x) : l.filterMap f = l.filterMap g := by
  induction l with
  | nil => rfl
  | cons a rest ih =>
    rw [List.filterMap_cons, List.filterMap_cons, h a (by simp),
      ih (fun x hx => h x (List.mem_cons_of_mem _ hx))]

/-- The loop appends to `ready`, in queue order, the completions of the entries it popped
    (timer ids in the queue are distinct, so firing one entry does not disturb the others). -/
theorem fireDue_ready (l : List (Int × Nat)) (k : K) (hnd : (l.map Prod.snd).Nodup) :
    (fireDue l k).1.ready = k.ready ++ (l.take (fireDue l k).2).filterMap (dueCompletion k) := by
  induction l generalizing k with
  | nil => simp [fireDue]
  | cons a rest ih =>
    obtain ⟨e, i⟩ := a
    simp only [List.map_cons, List.nodup_cons, List.mem_map] at hnd
    unfold fireDue
    split
    · simp only
      rw [ih _ hnd.2, List.take_succ_cons, List.filterMap_cons]
      have hcongr : (rest.take (fireDue rest (fire { k with tq := rest } i .ok)).2).filterMap
            (dueCompletion (fire { k with tq := rest } i .ok))
          = (rest.take (fireDue rest (fire { k with tq := rest } i .ok)).2).filterMap
            (dueCompletion k) := by
        apply filterMap_congr_mem
        intro x hx
        have hx' := List.mem_of_mem_take hx
        have hne : x.2 ≠ i := by
          intro hxi; exact hnd.1 ⟨x, hx', hxi⟩
        unfold dueCompletion
        rw [fire_timers_other _ _ _ _ hne]
      rw [hcongr, fire_ready]
      cases hh : (k.timers i).handler with
      | none => simp [dueCompletion, hh]
      | some h => simp [dueCompletion, hh]
    · simp

theorem OInv_fireDue (l : List (Int × Nat)) (k : K) (h : k.tq = l) (ho : OInv k) :
    OInv (fireDue l k).1 := by
  apply OInv_of_sub k _ _ (fun j => fireDue_armSeq l k j) (fireDue_nextSeq l k) ho
  rw [fireDue_tq l k h, h]
  exact List.drop_sublist _ _

theorem OInv_advance (p : KParams) (k : K) (ho : OInv k) : OInv (advance p k).1 := by
  unfold advance
  split
  · exact ho
  · dsimp only
    refine OInv_fireDue k.tq _ rfl ?_
    exact OInv_of_sub k _ (List.Sublist.refl _) (fun _ => rfl) rfl ho

set_option linter.unusedVariables false in
theorem OInv_step (p : KParams) (hp1 : p.advanceGuard = true) (hp2 : p.waitRequeue = true)
    (k : K) (l : Lbl) (hk : KInv k) (ho : OInv k) : OInv (step p k l) := by
  cases l with
  | expiresAt i e => exact OInv_expiresAt k i e hk ho
  | expiresAfter i d => exact OInv_expiresAt k i _ hk ho
  | wait i h => exact OInv_asyncWait p k i h hk ho
  | cancel i => exact OInv_cancel k i ho
  | post h => exact OInv_of_sub k _ (List.Sublist.refl _) (fun _ => rfl) rfl ho
  | stop => exact OInv_of_sub k _ (List.Sublist.refl _) (fun _ => rfl) rfl ho
  | restart => exact OInv_of_sub k _ (List.Sublist.refl _) (fun _ => rfl) rfl ho
  | exec =>
    apply OInv_of_sub k _ _ _ _ ho
    · simp only [step, exec]; split <;> exact List.Sublist.refl _
    · intro j; simp only [step, exec]; split <;> rfl
    · simp only [step, exec]; split <;> rfl
  | advance =>
    simp only [step]
    split
    · exact OInv_advance p k ho
    · exact ho

theorem OInv_run (p : KParams) (hp1 : p.advanceGuard = true) (hp2 : p.waitRequeue = true)
    (ls : List Lbl) (k : K) (hk : KInv k) (ho : OInv k) : OInv (runLbls p k ls) := by
  induction ls generalizing k with
  | nil => exact ho
  | cons l rest ih =>
    exact ih _ (KInv_step p hp1 hp2 k l hk) (OInv_step p hp1 hp2 k l hk ho)

end SimVerif
