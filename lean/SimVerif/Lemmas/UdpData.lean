/-
  SimVerif.Lemmas.UdpData — the UDP data path of the network mechanism model
  (SimVerif/Net.lean: `UdpSock.receiveFrom / asyncReceive / asyncWaitReceive / maybeWakeup /
  incoming`, `NetSt.udpAsyncRecv / udpRecvNb / udpWaitRead / udpWaitWrite / udpSendWaitFired /
  udpCancel / udpSendTo / udpMove`): normal forms and projection lemmas, the per-socket data
  invariant `UdpSock.DOk`, the system invariant `DInv` of the open system `NS`
  (SimVerif/NetSys.lean) with its preservation by every label, and the frame facts (which
  label touches which socket / forwarder) the theorems of Props/C08.lean are made of.
-/
import SimVerif.Lemmas.NetRun

namespace SimVerif

/-! ### byte account of a queue -/

/-- the payload bytes a queue of datagrams holds -/
def paySum (q : List Pkt) : Int := (q.map (fun p => (p.payload.length : Int))).sum

@[simp] theorem paySum_nil : paySum [] = 0 := rfl
@[simp] theorem paySum_cons (p : Pkt) (q : List Pkt) : paySum (p :: q) = p.payload.length + paySum q := by
  simp [paySum]
theorem paySum_append (q r : List Pkt) : paySum (q ++ r) = paySum q + paySum r := by
  simp [paySum, List.sum_append]

/-! ### queues that lose at most their head -/

/-- `q'` is `q` or the tail of `q` -/
def QTail (q q' : List Pkt) : Prop := q' = q ∨ ∃ p, q = p :: q'

theorem QTail.refl (q : List Pkt) : QTail q q := Or.inl rfl

theorem popped_self (q : List Pkt) : popped q q = [] := by simp [popped]
theorem popped_tail (p : Pkt) (q : List Pkt) : popped (p :: q) q = [p] := by simp [popped]
theorem popped_nil' (q : List Pkt) : popped q [] = q := by simp [popped]

theorem QTail.popped_append {q q' : List Pkt} (h : QTail q q') : popped q q' ++ q' = q := by
  rcases h with h | ⟨p, h⟩
  · subst h; simp [popped_self]
  · subst h; simp [popped_tail]

theorem QTail.popped_length {q q' : List Pkt} (h : QTail q q') : (popped q q').length ≤ 1 := by
  rcases h with h | ⟨p, h⟩
  · subst h; simp [popped_self]
  · subst h; simp [popped_tail]

theorem QTail.popped_cases {q q' : List Pkt} (h : QTail q q') :
    (q' = q ∧ popped q q' = []) ∨ (∃ p, q = p :: q' ∧ popped q q' = [p]) := by
  rcases h with h | ⟨p, h⟩
  · subst h; exact Or.inl ⟨rfl, popped_self _⟩
  · subst h; exact Or.inr ⟨p, rfl, popped_tail _ _⟩

/-! ### socket-level normal forms -/

theorem UdpSock.abortRecv_fst (u : UdpSock) : u.abortRecv.1 = { u with recvH := none, waitRecvH := none } := rfl
theorem UdpSock.abortSend_fst (name : String) (u : UdpSock) :
    (u.abortSend name).1 = { u with waitSendH := none } := rfl

/-- the case distinction every receive operation starts with -/
theorem UdpSock.open_bound_queue_cases (u : UdpSock) :
    u.isOpen = false ∨ (u.isOpen = true ∧ u.bound.isDefault = true)
    ∨ (u.isOpen = true ∧ u.bound.isDefault = false ∧ u.queue = [])
    ∨ (∃ p rest, u.isOpen = true ∧ u.bound.isDefault = false ∧ u.queue = p :: rest) := by
  cases u.isOpen <;> cases u.bound.isDefault <;> cases u.queue <;> simp

/-- `receive_from_impl`, error rows: closed -/
theorem UdpSock.receiveFrom_closed (u : UdpSock) (caps : List Nat) (h : u.isOpen = false) :
    u.receiveFrom caps = (u, .error .badDesc) := by
  simp [UdpSock.receiveFrom, h]

theorem UdpSock.receiveFrom_unbound (u : UdpSock) (caps : List Nat) (ho : u.isOpen = true)
    (hb : u.bound.isDefault = true) : u.receiveFrom caps = (u, .error .invalid) := by
  simp [UdpSock.receiveFrom, ho, hb]

theorem UdpSock.receiveFrom_empty (u : UdpSock) (caps : List Nat) (ho : u.isOpen = true)
    (hb : u.bound.isDefault = false) (hq : u.queue = []) : u.receiveFrom caps = (u, .error .wouldBlock) := by
  simp [UdpSock.receiveFrom, ho, hb, hq]

theorem UdpSock.receiveFrom_cons (u : UdpSock) (caps : List Nat) (p : Pkt) (rest : List Pkt)
    (ho : u.isOpen = true) (hb : u.bound.isDefault = false) (hq : u.queue = p :: rest) :
    u.receiveFrom caps = ({ u with queue := rest, queueSize := u.queueSize - p.payload.length },
      .ok (p.payload.take (caps.foldl (· + ·) 0), p.src)) := by
  simp [UdpSock.receiveFrom, ho, hb, hq]

/-- the four rows of `receive_from_impl` -/
theorem UdpSock.receiveFrom_cases (u : UdpSock) (caps : List Nat) :
    (u.isOpen = false ∧ u.receiveFrom caps = (u, .error .badDesc))
    ∨ (u.isOpen = true ∧ u.bound.isDefault = true ∧ u.receiveFrom caps = (u, .error .invalid))
    ∨ (u.isOpen = true ∧ u.bound.isDefault = false ∧ u.queue = [] ∧ u.receiveFrom caps = (u, .error .wouldBlock))
    ∨ (∃ p rest, u.isOpen = true ∧ u.bound.isDefault = false ∧ u.queue = p :: rest ∧
        u.receiveFrom caps = ({ u with queue := rest, queueSize := u.queueSize - p.payload.length },
          .ok (p.payload.take (caps.foldl (· + ·) 0), p.src))) := by
  rcases u.open_bound_queue_cases with ho | ⟨ho, hb⟩ | ⟨ho, hb, hq⟩ | ⟨p, rest, ho, hb, hq⟩
  · exact Or.inl ⟨ho, u.receiveFrom_closed caps ho⟩
  · exact Or.inr (Or.inl ⟨ho, hb, u.receiveFrom_unbound caps ho hb⟩)
  · exact Or.inr (Or.inr (Or.inl ⟨ho, hb, hq, u.receiveFrom_empty caps ho hb hq⟩))
  · exact Or.inr (Or.inr (Or.inr ⟨p, rest, ho, hb, hq, u.receiveFrom_cons caps p rest ho hb hq⟩))

/-- the completion `async_receive[_from]` posts for an error -/
def recvErrCompl (op : RecvOp) (e : Ec) : NEff :=
  .post { h := op.h, ec := e, extra := "n=0" ++ (if op.withEp then " ep=0.0.0.0:0" else "") ++ " data=-" }

theorem UdpSock.asyncReceive_closed (u : UdpSock) (op : RecvOp) (h : u.isOpen = false) :
    u.asyncReceive op = ({ u with recvH := none, recvNull := false }, [recvErrCompl op .badDesc]) := by
  simp [UdpSock.asyncReceive, u.receiveFrom_closed op.caps h, recvErrCompl]

theorem UdpSock.asyncReceive_unbound (u : UdpSock) (op : RecvOp) (ho : u.isOpen = true)
    (hb : u.bound.isDefault = true) :
    u.asyncReceive op = ({ u with recvH := none, recvNull := false }, [recvErrCompl op .invalid]) := by
  simp [UdpSock.asyncReceive, u.receiveFrom_unbound op.caps ho hb, recvErrCompl]

theorem UdpSock.asyncReceive_empty (u : UdpSock) (op : RecvOp) (ho : u.isOpen = true)
    (hb : u.bound.isDefault = false) (hq : u.queue = []) :
    u.asyncReceive op = ({ u with recvH := some op, recvNull := false }, []) := by
  simp [UdpSock.asyncReceive, u.receiveFrom_empty op.caps ho hb hq]

theorem UdpSock.asyncReceive_cons (u : UdpSock) (op : RecvOp) (p : Pkt) (rest : List Pkt)
    (ho : u.isOpen = true) (hb : u.bound.isDefault = false) (hq : u.queue = p :: rest) :
    u.asyncReceive op =
      ({ u with queue := rest, queueSize := u.queueSize - p.payload.length, recvH := none, recvNull := false },
       [.post { h := op.h, ec := .ok,
                extra := recvExtra op.withEp (p.payload.take (op.caps.foldl (· + ·) 0)) p.src,
                data := p.payload.take (op.caps.foldl (· + ·) 0), src := p.src }]) := by
  simp [UdpSock.asyncReceive, u.receiveFrom_cons op.caps p rest ho hb hq]

theorem UdpSock.asyncReceive_cases (u : UdpSock) (op : RecvOp) :
    (u.isOpen = false ∧ u.asyncReceive op = ({ u with recvH := none, recvNull := false }, [recvErrCompl op .badDesc]))
    ∨ (u.isOpen = true ∧ u.bound.isDefault = true ∧
        u.asyncReceive op = ({ u with recvH := none, recvNull := false }, [recvErrCompl op .invalid]))
    ∨ (u.isOpen = true ∧ u.bound.isDefault = false ∧ u.queue = [] ∧
        u.asyncReceive op = ({ u with recvH := some op, recvNull := false }, []))
    ∨ (∃ p rest, u.isOpen = true ∧ u.bound.isDefault = false ∧ u.queue = p :: rest ∧
        u.asyncReceive op =
          ({ u with queue := rest, queueSize := u.queueSize - p.payload.length, recvH := none, recvNull := false },
           [.post { h := op.h, ec := .ok,
                    extra := recvExtra op.withEp (p.payload.take (op.caps.foldl (· + ·) 0)) p.src,
                    data := p.payload.take (op.caps.foldl (· + ·) 0), src := p.src }])) := by
  rcases u.open_bound_queue_cases with ho | ⟨ho, hb⟩ | ⟨ho, hb, hq⟩ | ⟨p, rest, ho, hb, hq⟩
  · exact Or.inl ⟨ho, u.asyncReceive_closed op ho⟩
  · exact Or.inr (Or.inl ⟨ho, hb, u.asyncReceive_unbound op ho hb⟩)
  · exact Or.inr (Or.inr (Or.inl ⟨ho, hb, hq, u.asyncReceive_empty op ho hb hq⟩))
  · exact Or.inr (Or.inr (Or.inr ⟨p, rest, ho, hb, hq, u.asyncReceive_cons op p rest ho hb hq⟩))

/-- `async_wait_receive_impl`: the socket changes only when the wait is parked -/
theorem UdpSock.asyncWaitReceive_fst (u : UdpSock) (h : Nat) :
    (u.asyncWaitReceive h).1 =
      if u.isOpen = true ∧ u.bound.isDefault = false ∧ u.queue = [] then
        { u with recvNull := true, waitRecvH := some h } else u := by
  unfold UdpSock.asyncWaitReceive
  rcases u.open_bound_queue_cases with ho | ⟨ho, hb⟩ | ⟨ho, hb, hq⟩ | ⟨p, rest, ho, hb, hq⟩ <;> simp [*]

/-- `maybe_wakeup_reader()` by case: nothing pending or the queue does not hold exactly one
    datagram; a parked wait; a parked receive; and the two branches in which the C++ would call
    an empty handler object -/
theorem UdpSock.maybeWakeup_cases (u : UdpSock) :
    ((u.queue.length ≠ 1 ∨ (u.recvH = none ∧ u.waitRecvH = none)) ∧ u.maybeWakeup = (u, []))
    ∨ (∃ h, u.queue.length = 1 ∧ u.recvNull = true ∧ u.waitRecvH = some h ∧
        u.maybeWakeup = ({ u with waitRecvH := none }).asyncWaitReceive h)
    ∨ (∃ op, u.queue.length = 1 ∧ u.recvNull = false ∧ u.recvH = some op ∧
        u.maybeWakeup = ({ u with recvH := none }).asyncReceive op)
    ∨ (u.queue.length = 1 ∧ u.recvNull = true ∧ u.waitRecvH = none ∧ u.recvH ≠ none ∧ u.maybeWakeup = (u, []))
    ∨ (u.queue.length = 1 ∧ u.recvNull = false ∧ u.recvH = none ∧ u.waitRecvH ≠ none ∧ u.maybeWakeup = (u, [])) := by
  unfold UdpSock.maybeWakeup
  by_cases hl : u.queue.length = 1
  · cases hn : u.recvNull <;> cases hr : u.recvH <;> cases hw : u.waitRecvH <;> simp [hl]
  · left; simp [hl]

/-! ### what the data-path functions leave alone -/

/-- open flag, forwarder, binding, node and family are the same -/
def UdpSock.sameCtl (u u' : UdpSock) : Prop :=
  u'.isOpen = u.isOpen ∧ u'.fwd = u.fwd ∧ u'.bound = u.bound ∧ u'.node = u.node ∧ u'.isV4 = u.isV4

theorem UdpSock.sameCtl.refl (u : UdpSock) : u.sameCtl u := ⟨rfl, rfl, rfl, rfl, rfl⟩
theorem UdpSock.sameCtl.trans {u v w : UdpSock} (h1 : u.sameCtl v) (h2 : v.sameCtl w) : u.sameCtl w := by
  obtain ⟨a1, a2, a3, a4, a5⟩ := h1; obtain ⟨b1, b2, b3, b4, b5⟩ := h2
  exact ⟨b1.trans a1, b2.trans a2, b3.trans a3, b4.trans a4, b5.trans a5⟩

theorem UdpSock.sameCtl_abortRecv (u : UdpSock) : u.sameCtl u.abortRecv.1 := ⟨rfl, rfl, rfl, rfl, rfl⟩
theorem UdpSock.sameCtl_abortSend (name : String) (u : UdpSock) : u.sameCtl (u.abortSend name).1 :=
  ⟨rfl, rfl, rfl, rfl, rfl⟩
theorem UdpSock.sameCtl_cancel (name : String) (u : UdpSock) : u.sameCtl (u.cancel name).1 := by
  rw [UdpSock.cancel_fst]; exact ⟨rfl, rfl, rfl, rfl, rfl⟩

theorem UdpSock.sameCtl_receiveFrom (u : UdpSock) (caps : List Nat) : u.sameCtl (u.receiveFrom caps).1 := by
  rcases u.receiveFrom_cases caps with ⟨_, e⟩ | ⟨_, _, e⟩ | ⟨_, _, _, e⟩ | ⟨p, rest, _, _, _, e⟩ <;>
    rw [e] <;> exact ⟨rfl, rfl, rfl, rfl, rfl⟩

theorem UdpSock.sameCtl_asyncReceive (u : UdpSock) (op : RecvOp) : u.sameCtl (u.asyncReceive op).1 := by
  rcases u.asyncReceive_cases op with ⟨_, e⟩ | ⟨_, _, e⟩ | ⟨_, _, _, e⟩ | ⟨p, rest, _, _, _, e⟩ <;>
    rw [e] <;> exact ⟨rfl, rfl, rfl, rfl, rfl⟩

theorem UdpSock.sameCtl_asyncWaitReceive (u : UdpSock) (h : Nat) : u.sameCtl (u.asyncWaitReceive h).1 := by
  rw [UdpSock.asyncWaitReceive_fst]; split <;> exact ⟨rfl, rfl, rfl, rfl, rfl⟩

theorem UdpSock.sameCtl_maybeWakeup (u : UdpSock) : u.sameCtl u.maybeWakeup.1 := by
  rcases u.maybeWakeup_cases with ⟨_, e⟩ | ⟨h, _, _, _, e⟩ | ⟨op, _, _, _, e⟩ | ⟨_, _, _, _, e⟩ | ⟨_, _, _, _, e⟩ <;> rw [e]
  · exact sameCtl.refl u
  · exact sameCtl.trans (v := { u with waitRecvH := none }) ⟨rfl, rfl, rfl, rfl, rfl⟩ (sameCtl_asyncWaitReceive _ h)
  · exact sameCtl.trans (v := { u with recvH := none }) ⟨rfl, rfl, rfl, rfl, rfl⟩ (sameCtl_asyncReceive _ op)
  · exact sameCtl.refl u
  · exact sameCtl.refl u

theorem UdpSock.sameCtl_incoming (u : UdpSock) (p : Pkt) : u.sameCtl (u.incoming p).1 := by
  unfold UdpSock.incoming
  split
  · exact sameCtl.refl u
  · exact sameCtl.trans (v := { u with queueSize := u.queueSize + p.payload.length, queue := u.queue ++ [p] })
      ⟨rfl, rfl, rfl, rfl, rfl⟩ (sameCtl_maybeWakeup _)

/-! ### queue projections -/

theorem UdpSock.receiveFrom_qtail (u : UdpSock) (caps : List Nat) : QTail u.queue (u.receiveFrom caps).1.queue := by
  rcases u.receiveFrom_cases caps with ⟨_, e⟩ | ⟨_, _, e⟩ | ⟨_, _, _, e⟩ | ⟨p, rest, _, _, hq, e⟩ <;> rw [e]
  · exact QTail.refl _
  · exact QTail.refl _
  · exact QTail.refl _
  · exact Or.inr ⟨p, hq⟩

theorem UdpSock.asyncReceive_qtail (u : UdpSock) (op : RecvOp) : QTail u.queue (u.asyncReceive op).1.queue := by
  rcases u.asyncReceive_cases op with ⟨_, e⟩ | ⟨_, _, e⟩ | ⟨_, _, _, e⟩ | ⟨p, rest, _, _, hq, e⟩ <;> rw [e]
  · exact QTail.refl _
  · exact QTail.refl _
  · exact QTail.refl _
  · exact Or.inr ⟨p, hq⟩

theorem UdpSock.asyncWaitReceive_queue (u : UdpSock) (h : Nat) : (u.asyncWaitReceive h).1.queue = u.queue := by
  rw [UdpSock.asyncWaitReceive_fst]; split <;> rfl

theorem UdpSock.maybeWakeup_qtail (u : UdpSock) : QTail u.queue u.maybeWakeup.1.queue := by
  rcases u.maybeWakeup_cases with ⟨_, e⟩ | ⟨h, _, _, _, e⟩ | ⟨op, _, _, _, e⟩ | ⟨_, _, _, _, e⟩ | ⟨_, _, _, _, e⟩ <;> rw [e]
  · exact QTail.refl _
  · rw [UdpSock.asyncWaitReceive_queue]; exact QTail.refl _
  · exact UdpSock.asyncReceive_qtail { u with recvH := none } op
  · exact QTail.refl _
  · exact QTail.refl _

/-- `incoming_packet`: rejected (nothing changes at all) or appended, after which the wake-up
    takes at most the head -/
theorem UdpSock.incoming_cases (u : UdpSock) (p : Pkt) :
    (u.queueSize + p.size > 262144 ∧ u.incoming p = (u, []))
    ∨ (¬ u.queueSize + p.size > 262144 ∧
        u.incoming p = ({ u with queueSize := u.queueSize + p.payload.length, queue := u.queue ++ [p] }).maybeWakeup
        ∧ QTail (u.queue ++ [p]) (u.incoming p).1.queue) := by
  unfold UdpSock.incoming
  split
  · left; exact ⟨by assumption, rfl⟩
  · right; refine ⟨by assumption, rfl, ?_⟩
    exact UdpSock.maybeWakeup_qtail { u with queueSize := u.queueSize + p.payload.length, queue := u.queue ++ [p] }

/-! ### the per-socket data invariant -/

/-- What holds of every UDP socket object between API calls:
    * `acct`  — an open socket's receive-buffer account is the payload bytes it has queued
      (a moved-from object keeps a stale account, but it is closed);
    * `cle`   — a closed socket has nothing queued;
    * `h1/h2` — the flag `m_recv_null_buffers` agrees with which handler is parked, so
      `maybe_wakeup_reader` never calls an empty handler object;
    * `pend`  — a receive or wait is parked only on an open, bound socket with an empty queue
      (no lost wake-up: a datagram is never left queued next to a parked reader). -/
structure UdpSock.DOk (u : UdpSock) : Prop where
  acct : u.isOpen = true → u.queueSize = paySum u.queue
  cle  : u.isOpen = false → u.queue = []
  h1   : u.recvH.isSome = true → u.recvNull = false
  h2   : u.waitRecvH.isSome = true → u.recvNull = true
  pend : (u.recvH.isSome = true ∨ u.waitRecvH.isSome = true) →
           u.queue = [] ∧ u.isOpen = true ∧ u.bound.isDefault = false

theorem UdpSock.DOk.fresh (node : String) : UdpSock.DOk { node := node } := by
  constructor <;> simp

theorem UdpSock.DOk.closed (u : UdpSock) : u.closed.DOk := by
  constructor <;> simp [UdpSock.closed]

theorem UdpSock.DOk.opened (u : UdpSock) (v4 : Bool) (fid : Nat) : (u.opened v4 fid).DOk := by
  constructor <;> simp [UdpSock.opened, UdpSock.closed]

theorem UdpSock.DOk.abortRecv {u : UdpSock} (h : u.DOk) : u.abortRecv.1.DOk := by
  rw [UdpSock.abortRecv_fst]
  exact ⟨h.acct, h.cle, by simp, by simp, by simp⟩

theorem UdpSock.DOk.abortSend {u : UdpSock} (name : String) (h : u.DOk) : (u.abortSend name).1.DOk := by
  rw [UdpSock.abortSend_fst]
  exact ⟨h.acct, h.cle, h.h1, h.h2, h.pend⟩

theorem UdpSock.DOk.cancel {u : UdpSock} (name : String) (h : u.DOk) : (u.cancel name).1.DOk := by
  rw [UdpSock.cancel_fst]
  exact ⟨h.acct, h.cle, by simp, by simp, by simp⟩

theorem UdpSock.DOk.receiveFrom {u : UdpSock} (caps : List Nat) (h : u.DOk) : (u.receiveFrom caps).1.DOk := by
  rcases u.receiveFrom_cases caps with ⟨_, e⟩ | ⟨_, _, e⟩ | ⟨_, _, _, e⟩ | ⟨p, rest, ho, hb, hq, e⟩ <;> rw [e]
  · exact h
  · exact h
  · exact h
  · have hp := h.pend; rw [hq] at hp
    have ha := h.acct ho; rw [hq, paySum_cons] at ha
    refine ⟨fun _ => by dsimp only; omega, fun hc => by simp [ho] at hc, h.h1, h.h2, fun hx => ?_⟩
    exact absurd (hp hx).1 (by simp)

theorem UdpSock.DOk.asyncReceive {u : UdpSock} (op : RecvOp) (h : u.DOk)
    (hw : u.waitRecvH = none) : (u.asyncReceive op).1.DOk := by
  rcases u.asyncReceive_cases op with ⟨_, e⟩ | ⟨_, _, e⟩ | ⟨ho, hb, hq, e⟩ | ⟨p, rest, ho, hb, hq, e⟩ <;> rw [e]
  · exact ⟨h.acct, h.cle, by simp, by simp [hw], by simp [hw]⟩
  · exact ⟨h.acct, h.cle, by simp, by simp [hw], by simp [hw]⟩
  · exact ⟨h.acct, h.cle, by simp, by simp [hw], fun _ => ⟨hq, ho, hb⟩⟩
  · have ha := h.acct ho; rw [hq, paySum_cons] at ha
    exact ⟨fun _ => by dsimp only; omega, fun hc => by simp [ho] at hc, by simp, by simp [hw], by simp [hw]⟩

theorem UdpSock.DOk.asyncWaitReceive {u : UdpSock} (hh : Nat) (h : u.DOk)
    (hr : u.recvH = none) : (u.asyncWaitReceive hh).1.DOk := by
  rw [UdpSock.asyncWaitReceive_fst]
  split
  · rename_i hc
    exact ⟨h.acct, h.cle, by simp [hr], by simp, fun _ => ⟨hc.2.2, hc.1, hc.2.1⟩⟩
  · exact h

/-- the two branches of `maybe_wakeup_reader` that would call an empty handler object are
    excluded by the invariant -/
theorem UdpSock.DOk.wakeup_handler_present {u : UdpSock} (h : u.DOk)
    (hp : u.recvH.isSome = true ∨ u.waitRecvH.isSome = true) :
    (u.recvNull = true → u.waitRecvH.isSome = true) ∧ (u.recvNull = false → u.recvH.isSome = true) := by
  constructor
  · intro hn
    rcases hp with hp | hp
    · have := h.h1 hp; simp [hn] at this
    · exact hp
  · intro hn
    rcases hp with hp | hp
    · exact hp
    · have := h.h2 hp; simp [hn] at this

theorem UdpSock.DOk.incoming {u : UdpSock} (p : Pkt) (h : u.DOk) (ho : u.isOpen = true) :
    (u.incoming p).1.DOk := by
  rcases u.incoming_cases p with ⟨_, e⟩ | ⟨_, e, _⟩ <;> rw [e]
  · exact h
  · have ha := h.acct ho
    have hacc : u.queueSize + (p.payload.length : Int) = paySum (u.queue ++ [p]) := by
      rw [paySum_append]; simp; omega
    rcases UdpSock.maybeWakeup_cases { u with queueSize := u.queueSize + p.payload.length, queue := u.queue ++ [p] }
      with ⟨hc, e⟩ | ⟨hh, _, hn, hw, e⟩ | ⟨op, _, hn, hr, e⟩ | ⟨_, hn, _, hr, _⟩ | ⟨_, hn, _, hw, _⟩
    · rw [e]
      refine ⟨fun _ => hacc, fun hc' => by simp [ho] at hc', h.h1, h.h2, fun hx => ?_⟩
      have hq := (h.pend hx).1
      dsimp only at hc
      rcases hc with hc | hc
      · simp [hq] at hc
      · rcases hx with hx | hx
        · simp [hc.1] at hx
        · simp [hc.2] at hx
    · rw [e]
      dsimp only at hn hw
      apply UdpSock.DOk.asyncWaitReceive
      · refine ⟨fun _ => hacc, fun hc' => by simp [ho] at hc', h.h1, by simp, fun hx => ?_⟩
        rcases hx with hx | hx
        · have := h.h1 hx; simp [hn] at this
        · simp at hx
      · cases hr : u.recvH with
        | none => rfl
        | some op => have := h.h1 (by simp [hr]); simp [hn] at this
    · rw [e]
      dsimp only at hn hr
      apply UdpSock.DOk.asyncReceive
      · refine ⟨fun _ => hacc, fun hc' => by simp [ho] at hc', by simp, h.h2, fun hx => ?_⟩
        rcases hx with hx | hx
        · simp at hx
        · have := h.h2 hx; simp [hn] at this
      · cases hw : u.waitRecvH with
        | none => rfl
        | some op => have := h.h2 (by simp [hw]); simp [hn] at this
    · dsimp only at hn hr
      cases hr' : u.recvH with
      | none => exact absurd hr' hr
      | some op => have := h.h1 (by simp [hr']); simp [hn] at this
    · dsimp only at hn hw
      cases hw' : u.waitRecvH with
      | none => exact absurd hw' hw
      | some op => have := h.h2 (by simp [hw']); simp [hn] at this

/-- an open socket with nothing queued accepts every datagram of at most 256 kB -/
theorem UdpSock.incoming_accepts_drained {u : UdpSock} (p : Pkt) (h : u.DOk) (ho : u.isOpen = true)
    (hq : u.queue = []) (hs : p.size ≤ 262144) : ¬ u.queueSize + p.size > 262144 := by
  have := h.acct ho
  rw [hq] at this; simp at this
  omega

/-! ### control-path changes: everything the data invariant speaks about is the same -/

/-- queue, account, open flag, parked handlers, forwarder the same; the binding too once set -/
def UdpSock.sameData (u u' : UdpSock) : Prop :=
  u'.queue = u.queue ∧ u'.queueSize = u.queueSize ∧ u'.isOpen = u.isOpen ∧ u'.recvH = u.recvH
  ∧ u'.waitRecvH = u.waitRecvH ∧ u'.recvNull = u.recvNull ∧ u'.fwd = u.fwd ∧ u'.node = u.node
  ∧ (u.bound.isDefault = false → u'.bound = u.bound)

theorem UdpSock.sameData.refl (u : UdpSock) : u.sameData u := ⟨rfl, rfl, rfl, rfl, rfl, rfl, rfl, rfl, fun _ => rfl⟩

theorem UdpSock.sameData.trans {u v w : UdpSock} (h1 : u.sameData v) (h2 : v.sameData w) : u.sameData w := by
  obtain ⟨a1, a2, a3, a4, a5, a6, a7, a8, a9⟩ := h1
  obtain ⟨b1, b2, b3, b4, b5, b6, b7, b8, b9⟩ := h2
  refine ⟨b1.trans a1, b2.trans a2, b3.trans a3, b4.trans a4, b5.trans a5, b6.trans a6, b7.trans a7, b8.trans a8, ?_⟩
  intro hd
  have := a9 hd
  rw [b9 (by rw [this]; exact hd), this]

theorem UdpSock.DOk.sameData {u u' : UdpSock} (h : u.DOk) (hs : u.sameData u') : u'.DOk := by
  obtain ⟨a1, a2, a3, a4, a5, a6, a7, a8, a9⟩ := hs
  constructor
  · rw [a1, a2, a3]; exact h.acct
  · rw [a1, a3]; exact h.cle
  · rw [a4, a6]; exact h.h1
  · rw [a5, a6]; exact h.h2
  · rw [a4, a5, a1, a3]
    intro hx
    obtain ⟨x1, x2, x3⟩ := h.pend hx
    exact ⟨x1, x2, by rw [a9 x3]; exact x3⟩

/-! ### one socket of the table changed: `mapUdp` -/

/-- apply `g` to the UDP socket `name` if it exists; everything else of the state stays -/
def NetSt.mapUdp (n : NetSt) (name : String) (g : UdpSock → UdpSock) : NetSt :=
  match n.udp? name with
  | none => n
  | some u => n.setUdp name (g u)

theorem udp?_mapUdp (n : NetSt) (name x : String) (g : UdpSock → UdpSock) :
    (n.mapUdp name g).udp? x = if x = name then (n.udp? name).map g else n.udp? x := by
  unfold NetSt.mapUdp
  cases h : n.udp? name with
  | none => by_cases hx : x = name <;> simp [hx, h]
  | some u => simp
@[simp] theorem tcp?_mapUdp (n : NetSt) (name x : String) (g : UdpSock → UdpSock) :
    (n.mapUdp name g).tcp? x = n.tcp? x := by unfold NetSt.mapUdp; split <;> rfl
@[simp] theorem reg_mapUdp (n : NetSt) (name : String) (g : UdpSock → UdpSock) :
    (n.mapUdp name g).reg = n.reg := by unfold NetSt.mapUdp; split <;> rfl
@[simp] theorem fwds_mapUdp (n : NetSt) (name : String) (g : UdpSock → UdpSock) :
    (n.mapUdp name g).fwds = n.fwds := by unfold NetSt.mapUdp; split <;> rfl
@[simp] theorem cfg_mapUdp (n : NetSt) (name : String) (g : UdpSock → UdpSock) :
    (n.mapUdp name g).cfg = n.cfg := by unfold NetSt.mapUdp; split <;> rfl
@[simp] theorem tcps_mapUdp (n : NetSt) (name : String) (g : UdpSock → UdpSock) :
    (n.mapUdp name g).tcps = n.tcps := by unfold NetSt.mapUdp; split <;> rfl
@[simp] theorem chans_mapUdp (n : NetSt) (name : String) (g : UdpSock → UdpSock) :
    (n.mapUdp name g).chans = n.chans := by unfold NetSt.mapUdp; split <;> rfl
theorem fwdTarget_mapUdp (n : NetSt) (name : String) (g : UdpSock → UdpSock) (f : Nat) :
    (n.mapUdp name g).fwdTarget f = n.fwdTarget f := fwdTarget_congr _ _ (fwds_mapUdp n name g) f

/-! ### normal forms of the receive / wait / cancel calls -/

theorem udpAsyncRecv_fst (n : NetSt) (name : String) (op : RecvOp) :
    (n.udpAsyncRecv name op).1 = n.mapUdp name (fun u => (u.abortRecv.1.asyncReceive op).1) := by
  unfold NetSt.udpAsyncRecv NetSt.mapUdp
  cases h : n.udp? name <;> rfl

theorem udpAsyncRecv_snd (n : NetSt) (name : String) (op : RecvOp) (u : UdpSock) (h : n.udp? name = some u) :
    (n.udpAsyncRecv name op).2 = u.abortRecv.2 ++ (u.abortRecv.1.asyncReceive op).2 := by
  unfold NetSt.udpAsyncRecv
  simp only [h]

theorem udpRecvNb_fst (n : NetSt) (name : String) (caps : List Nat) :
    (n.udpRecvNb name caps).1 = n.mapUdp name (fun u => (u.abortRecv.1.receiveFrom caps).1) := by
  unfold NetSt.udpRecvNb NetSt.mapUdp
  cases h : n.udp? name <;> rfl

theorem udpRecvNb_result (n : NetSt) (name : String) (caps : List Nat) (u : UdpSock) (h : n.udp? name = some u) :
    (n.udpRecvNb name caps).2.2 = (u.abortRecv.1.receiveFrom caps).2 := by
  unfold NetSt.udpRecvNb
  simp only [h]

theorem udpWaitRead_fst (n : NetSt) (name : String) (h : Nat) :
    (n.udpWaitRead name h).1 = n.mapUdp name (fun u => (u.abortRecv.1.asyncWaitReceive h).1) := by
  unfold NetSt.udpWaitRead NetSt.mapUdp
  cases h : n.udp? name <;> rfl

theorem udpCancel_fst (n : NetSt) (name : String) :
    (n.udpCancel name).1 = n.mapUdp name (fun u => (u.cancel name).1) := by
  unfold NetSt.udpCancel NetSt.mapUdp
  cases h : n.udp? name <;> rfl

theorem udpWaitWrite_fst (n : NetSt) (now : Int) (name : String) (h : Nat) :
    (n.udpWaitWrite now name h).1 = n.mapUdp name (fun u =>
      if u.nextSend - now > u.sendQueueTime / 2 then { u with waitSendH := some h } else { u with waitSendH := none }) := by
  unfold NetSt.udpWaitWrite NetSt.mapUdp
  cases hu : n.udp? name with
  | none => rfl
  | some u =>
    dsimp only [UdpSock.abortSend]
    split <;> rfl

theorem udpSendWaitFired_udp? (n : NetSt) (name x : String) (ab : Bool) :
    (n.udpSendWaitFired name ab).1.udp? x
      = if x = name then (n.udp? name).map (fun u => if ab then u else { u with waitSendH := none }) else n.udp? x := by
  unfold NetSt.udpSendWaitFired
  cases h : n.udp? name with
  | none => by_cases hx : x = name <;> simp [hx, h]
  | some u =>
    dsimp only
    cases ab with
    | true => by_cases hx : x = name <;> simp [hx, h]
    | false =>
      cases hw : u.waitSendH with
      | none =>
        have : ({ u with waitSendH := none } : UdpSock) = u := by cases u; simp_all
        by_cases hx : x = name <;> simp [hx, h, this]
      | some hh => simp

theorem udpSendWaitFired_frame_d (n : NetSt) (name : String) (ab : Bool) :
    (n.udpSendWaitFired name ab).1.fwds = n.fwds ∧ (n.udpSendWaitFired name ab).1.reg = n.reg
    ∧ (n.udpSendWaitFired name ab).1.tcps = n.tcps ∧ (n.udpSendWaitFired name ab).1.cfg = n.cfg := by
  unfold NetSt.udpSendWaitFired
  split
  · exact ⟨rfl, rfl, rfl, rfl⟩
  · split
    · exact ⟨rfl, rfl, rfl, rfl⟩
    · split <;> exact ⟨rfl, rfl, rfl, rfl⟩

/-! ### control-path steps on the socket table -/

/-- the same sockets exist and each has the same data-path state (`UdpSock.sameData`) -/
def NetSt.udpSame (n n' : NetSt) : Prop :=
  ∀ x, (n.udp? x = none ∧ n'.udp? x = none) ∨ ∃ u u', n.udp? x = some u ∧ n'.udp? x = some u' ∧ u.sameData u'

theorem NetSt.udpSame.of_udp? {n n' : NetSt} (h : ∀ x, n'.udp? x = n.udp? x) : n.udpSame n' := by
  intro x
  cases hu : n.udp? x with
  | none => left; exact ⟨rfl, by rw [h x, hu]⟩
  | some u => right; exact ⟨u, u, rfl, by rw [h x, hu], UdpSock.sameData.refl u⟩

theorem NetSt.udpSame.of_udps {n n' : NetSt} (h : n'.udps = n.udps) : n.udpSame n' :=
  NetSt.udpSame.of_udp? (fun x => by unfold NetSt.udp?; rw [h])

theorem NetSt.udpSame.refl (n : NetSt) : n.udpSame n := NetSt.udpSame.of_udp? (fun _ => rfl)

theorem NetSt.udpSame.trans {n m k : NetSt} (h1 : n.udpSame m) (h2 : m.udpSame k) : n.udpSame k := by
  intro x
  rcases h1 x with ⟨a, b⟩ | ⟨u, u', a, b, c⟩
  · rcases h2 x with ⟨a', b'⟩ | ⟨v, v', a', b', c'⟩
    · exact Or.inl ⟨a, b'⟩
    · rw [b] at a'; simp at a'
  · rcases h2 x with ⟨a', b'⟩ | ⟨v, v', a', b', c'⟩
    · rw [b] at a'; simp at a'
    · rw [b] at a'; simp at a'; subst a'
      exact Or.inr ⟨u, v', a, b', c.trans c'⟩

theorem NetSt.udpSame.setUdp {n : NetSt} {name : String} {u u' : UdpSock} (h : n.udp? name = some u)
    (hs : u.sameData u') : n.udpSame (n.setUdp name u') := by
  intro x
  by_cases hx : x = name
  · subst hx; right; exact ⟨u, u', h, by simp, hs⟩
  · cases hu : n.udp? x with
    | none => left; exact ⟨rfl, by simp [hx, hu]⟩
    | some v => right; exact ⟨v, v, rfl, by simp [hx, hu], UdpSock.sameData.refl v⟩

theorem NetSt.udpSame.mapUdp (n : NetSt) (name : String) (g : UdpSock → UdpSock) (hg : ∀ u : UdpSock, u.sameData (g u)) :
    n.udpSame (n.mapUdp name g) := by
  unfold NetSt.mapUdp
  cases h : n.udp? name with
  | none => exact NetSt.udpSame.refl n
  | some u => exact NetSt.udpSame.setUdp h (hg u)

/-- a control-path step: sockets keep their data-path state, forwarders / TCP objects / the
    configuration are untouched -/
structure NetSt.ctlStep (n n' : NetSt) : Prop where
  same : n.udpSame n'
  fwds : n'.fwds = n.fwds
  tcps : n'.tcps = n.tcps
  cfg  : n'.cfg = n.cfg

theorem NetSt.ctlStep.refl (n : NetSt) : n.ctlStep n := ⟨NetSt.udpSame.refl n, rfl, rfl, rfl⟩
theorem NetSt.ctlStep.trans {n m k : NetSt} (h1 : n.ctlStep m) (h2 : m.ctlStep k) : n.ctlStep k :=
  ⟨h1.same.trans h2.same, h2.fwds.trans h1.fwds, h2.tcps.trans h1.tcps, h2.cfg.trans h1.cfg⟩
theorem NetSt.ctlStep.setUdp {n : NetSt} {name : String} {u u' : UdpSock} (h : n.udp? name = some u)
    (hs : u.sameData u') : n.ctlStep (n.setUdp name u') := ⟨NetSt.udpSame.setUdp h hs, rfl, rfl, rfl⟩
theorem NetSt.ctlStep.mapUdp (n : NetSt) (name : String) (g : UdpSock → UdpSock) (hg : ∀ u : UdpSock, u.sameData (g u)) :
    n.ctlStep (n.mapUdp name g) := ⟨NetSt.udpSame.mapUdp n name g hg, by simp, by simp, by simp⟩

theorem udpBind_ctlStep (n : NetSt) (name : String) (ep : Ep) : n.ctlStep (n.udpBind name ep).1 := by
  by_cases h : ∃ u ep1, n.udpBindPre name ep u ep1
  · obtain ⟨u, ep1, hp⟩ := h
    rw [udpBind_pre n name ep u ep1 hp]
    rcases hs : simBind n.reg.udp n.reg.nextPort name ep1 with ⟨tbl, np, r⟩
    cases r with
    | error e => exact ⟨NetSt.udpSame.of_udps rfl, rfl, rfl, rfl⟩
    | ok ep2 =>
      dsimp only
      refine NetSt.ctlStep.trans (m := { n with reg := { n.reg with udp := tbl, nextPort := np } })
        ⟨NetSt.udpSame.of_udps rfl, rfl, rfl, rfl⟩ (NetSt.ctlStep.setUdp (u := u) hp.1 ?_)
      refine ⟨rfl, rfl, rfl, rfl, rfl, rfl, rfl, rfl, fun hd => ?_⟩
      rw [hp.2.2.2.1] at hd; simp at hd
  · rw [udpBind_nopre n name ep h]; exact NetSt.ctlStep.refl n

/-! ### `send_to` -/

/-- `send_to_impl` after the implicit bind: `n` the state, `e0` the effects so far, `ecb` the
    result of the bind (a copy of the tail of `NetSt.udpSendTo`, connected to it by
    `udpSendTo_eq`) -/
def NetSt.udpSendTail (n : NetSt) (e0 : List NEff) (ecb : Ec) (now : Int) (name : String) (dst : Ep)
    (payload : List UInt8) : NetSt × List NEff × Ec × Nat :=
  if ecb != .ok then (n, e0, ecb, 0) else
  match n.udp? name with
  | none => (n, e0, .other, 0)
  | some u =>
    if payload.length = 0 then (n, e0, .invalid, 0)
    else if payload.length > 65535 then (n, e0, .msgSize, 0)
    else if u.df && payload.length > n.cfg.pathMtu u.bound.addr dst.addr then (n, e0, .ok, payload.length)
    else if u.nextSend - now > u.sendQueueTime then (n, e0, .wouldBlock, 0)
    else
      match n.udpRoute u.bound dst with
      | none => (n, e0, .ok, payload.length)
      | some hops =>
        (n.setUdp name { u with nextSend := (if now ≤ u.nextSend then u.nextSend else now) + 10 * (payload.length + 28) },
         e0 ++ (if n.cfg.pcap then [NEff.pcapUdp now u.bound dst payload] else [])
            ++ [.forward { id := 0, ty := .payload, len := payload.length, ovh := 28, hops := hops,
                           src := u.bound.toString, payload := payload }], .ok, payload.length)

theorem udpSendTo_none (n : NetSt) (now : Int) (name : String) (dst : Ep) (payload : List UInt8)
    (h : n.udp? name = none) : n.udpSendTo now name dst payload = (n, [], .other, 0) := by
  unfold NetSt.udpSendTo; simp only [h]

theorem udpSendTo_eq (n : NetSt) (now : Int) (name : String) (dst : Ep) (payload : List UInt8) (u0 : UdpSock)
    (h : n.udp? name = some u0) :
    n.udpSendTo now name dst payload =
      NetSt.udpSendTail
        (if u0.bound.isDefault then (n.setUdp name { u0 with waitSendH := none }).udpBind name {}
          else (n.setUdp name { u0 with waitSendH := none }, Ec.ok)).1
        (u0.abortSend name).2
        (if u0.bound.isDefault then (n.setUdp name { u0 with waitSendH := none }).udpBind name {}
          else (n.setUdp name { u0 with waitSendH := none }, Ec.ok)).2
        now name dst payload := by
  unfold NetSt.udpSendTo NetSt.udpSendTail
  simp only [h]
  rfl

theorem udpSendTail_ctlStep (n : NetSt) (e0 : List NEff) (ecb : Ec) (now : Int) (name : String) (dst : Ep)
    (payload : List UInt8) : n.ctlStep (n.udpSendTail e0 ecb now name dst payload).1 := by
  unfold NetSt.udpSendTail
  split
  · exact NetSt.ctlStep.refl n
  · cases hu : n.udp? name with
    | none => exact NetSt.ctlStep.refl n
    | some u =>
      dsimp only
      repeat' split
      all_goals first
        | exact NetSt.ctlStep.refl n
        | exact NetSt.ctlStep.setUdp hu ⟨rfl, rfl, rfl, rfl, rfl, rfl, rfl, rfl, fun _ => rfl⟩

theorem udpSendTo_ctlStep (n : NetSt) (now : Int) (name : String) (dst : Ep) (payload : List UInt8) :
    n.ctlStep (n.udpSendTo now name dst payload).1 := by
  cases h : n.udp? name with
  | none => rw [udpSendTo_none n now name dst payload h]; exact NetSt.ctlStep.refl n
  | some u0 =>
    rw [udpSendTo_eq n now name dst payload u0 h]
    refine NetSt.ctlStep.trans ?_ (udpSendTail_ctlStep _ _ _ _ _ _ _)
    have h1 : n.ctlStep (n.setUdp name { u0 with waitSendH := none }) :=
      NetSt.ctlStep.setUdp h ⟨rfl, rfl, rfl, rfl, rfl, rfl, rfl, rfl, fun _ => rfl⟩
    split
    · exact h1.trans (udpBind_ctlStep _ _ _)
    · exact h1

/-! ### `udpMove` -/

/-- what move construction leaves behind -/
def UdpSock.movedFrom (u : UdpSock) : UdpSock :=
  { node := u.node, isV4 := u.isV4, nextSend := u.nextSend, queueSize := u.queueSize,
    recvNull := u.recvNull, df := u.df, sendQueueTime := u.sendQueueTime }

theorem UdpSock.DOk.movedFrom (u : UdpSock) : u.movedFrom.DOk := by
  constructor <;> simp [UdpSock.movedFrom]

theorem udpMove_none_d (n : NetSt) (src dst : String) (h : n.udp? src = none) : n.udpMove src dst = n := by
  unfold NetSt.udpMove; simp only [h]

theorem udpMove_some_d (n : NetSt) (src dst : String) (u : UdpSock) (h : n.udp? src = some u) :
    n.udpMove src dst =
      (({ n with reg := { n.reg with udp := if u.bound.isDefault then n.reg.udp
                                            else n.reg.udp.map (fun (e : Ep × String) => if e.1 == u.bound then (e.1, dst) else e) },
                 fwds := match u.fwd with | some f => (n.setFwd f (some dst)).fwds | none => n.fwds }).setUdp dst u).setUdp
        src u.movedFrom := by
  unfold NetSt.udpMove
  simp only [h]
  cases u.fwd <;> cases u.bound.isDefault <;> rfl

theorem udpMove_udp? (n : NetSt) (src dst x : String) (u : UdpSock) (h : n.udp? src = some u) :
    (n.udpMove src dst).udp? x = if x = src then some u.movedFrom else if x = dst then some u else n.udp? x := by
  rw [udpMove_some_d n src dst u h, udp?_setUdp, udp?_setUdp]
  rfl

theorem udpMove_tcps (n : NetSt) (src dst : String) : (n.udpMove src dst).tcps = n.tcps := by
  cases h : n.udp? src with
  | none => rw [udpMove_none_d n src dst h]
  | some u => rw [udpMove_some_d n src dst u h]; rfl

theorem udpMove_fwds_length (n : NetSt) (src dst : String) : (n.udpMove src dst).fwds.length = n.fwds.length := by
  cases h : n.udp? src with
  | none => rw [udpMove_none_d n src dst h]
  | some u => rw [udpMove_some_d n src dst u h]; cases u.fwd <;> simp [NetSt.setFwd]

theorem udpMove_fwdTarget (n : NetSt) (src dst : String) (u : UdpSock) (h : n.udp? src = some u) (g : Nat)
    (hlt : ∀ f, u.fwd = some f → f < n.fwds.length) :
    (n.udpMove src dst).fwdTarget g = if u.fwd = some g then some dst else n.fwdTarget g := by
  rw [udpMove_some_d n src dst u h]
  cases hf : u.fwd with
  | none => simp [NetSt.fwdTarget]
  | some f =>
    have := fwdTarget_setFwd_some n f g dst (hlt f hf)
    simp only [NetSt.fwdTarget] at this ⊢
    simp only [fwds_setUdp, Option.some.injEq]
    rw [this]
    by_cases hg : g = f <;> simp [hg, eq_comm]

/-! ### what the TCP side can do to the UDP side: `tFrame` -/

/-- UDP sockets and the UDP registry untouched; forwarders allocated so far are only ever
    detached (never re-pointed), new ones are appended -/
structure NetSt.tFrame (n n' : NetSt) : Prop where
  udps : n'.udps = n.udps
  regU : n'.reg.udp = n.reg.udp
  cfg  : n'.cfg = n.cfg
  len  : n.fwds.length ≤ n'.fwds.length
  mono : ∀ g, g < n.fwds.length → n'.fwdTarget g = n.fwdTarget g ∨ n'.fwdTarget g = none

theorem NetSt.tFrame.refl (n : NetSt) : n.tFrame n := ⟨rfl, rfl, rfl, Nat.le_refl _, fun _ _ => Or.inl rfl⟩

theorem NetSt.tFrame.trans {n m k : NetSt} (h1 : n.tFrame m) (h2 : m.tFrame k) : n.tFrame k := by
  refine ⟨h2.udps.trans h1.udps, h2.regU.trans h1.regU, h2.cfg.trans h1.cfg, Nat.le_trans h1.len h2.len, fun g hg => ?_⟩
  rcases h2.mono g (Nat.lt_of_lt_of_le hg h1.len) with a | a
  · rcases h1.mono g hg with b | b
    · exact Or.inl (a.trans b)
    · exact Or.inr (a.trans b)
  · exact Or.inr a

theorem NetSt.tFrame.of_eq {n m k : NetSt} (h : n.tFrame m) (h1 : k.udps = m.udps) (h2 : k.reg.udp = m.reg.udp)
    (h3 : k.fwds = m.fwds) (h4 : k.cfg = m.cfg) : n.tFrame k :=
  h.trans ⟨h1, h2, h4, by rw [h3]; exact Nat.le_refl _, fun g _ => Or.inl (fwdTarget_congr _ _ h3 g)⟩

theorem NetSt.tFrame.setTcp {n m : NetSt} (h : n.tFrame m) (k : String) (v : TcpSock) : n.tFrame (m.setTcp k v) :=
  h.of_eq rfl rfl rfl rfl
theorem NetSt.tFrame.setChan {n m : NetSt} (h : n.tFrame m) (c : Nat) (ch : Chan) : n.tFrame (m.setChan c ch) :=
  h.of_eq rfl rfl rfl rfl
theorem NetSt.tFrame.setFwdNone {n m : NetSt} (h : n.tFrame m) (f : Nat) : n.tFrame (m.setFwd f none) :=
  h.trans ⟨rfl, rfl, rfl, by simp, fun g _ => by
    rw [fwdTarget_setFwd_none]; by_cases hg : g = f <;> simp [hg]⟩
theorem NetSt.tFrame.newFwd {n m : NetSt} (h : n.tFrame m) (name : String) : n.tFrame (m.newFwd name).1 :=
  h.trans ⟨rfl, rfl, rfl, by simp, fun g hg => by
    rw [fwdTarget_newFwd]; have : g ≠ m.fwds.length := by omega
    simp [this]⟩

theorem NetSt.tFrame.setFwdOpt {n m : NetSt} (h : n.tFrame m) (fo : Option Nat) :
    n.tFrame (match fo with | some f => m.setFwd f none | none => m) := by
  cases fo with
  | none => exact h
  | some f => exact h.setFwdNone f

theorem NetSt.tFrame.tcpSendPacket {n m : NetSt} (h : n.tFrame m) (now : Int) (name : String) (p : Pkt) :
    n.tFrame (m.tcpSendPacket now name p).1 := by
  unfold NetSt.tcpSendPacket
  split
  · exact h
  · split
    · exact h
    · exact (h.setChan _ _).setTcp _ _

theorem NetSt.tFrame.tcpClose {n m : NetSt} (h : n.tFrame m) (now : Int) (name : String) :
    n.tFrame (m.tcpClose now name).1 := by
  unfold NetSt.tcpClose
  split
  · exact h
  · rename_i s0 hs
    split
    rename_i r n1 e0 heq
    have h1 : n.tFrame n1 := by
      have := congrArg Prod.fst heq
      dsimp only at this
      rw [← this]
      split
      · exact h
      · split
        · exact (h.setTcp _ _).tcpSendPacket _ _ _
        · exact h
    split
    · exact h1
    · rename_i s hs2
      dsimp only
      refine NetSt.tFrame.setTcp (NetSt.tFrame.setFwdOpt ?_ s.fwd) _ _
      split
      · exact h1.of_eq rfl rfl rfl rfl
      · exact h1

theorem NetSt.tFrame.tcpOpen {n m : NetSt} (h : n.tFrame m) (now : Int) (name : String) (v4 : Bool) :
    n.tFrame (m.tcpOpen now name v4).1 := by
  unfold NetSt.tcpOpen
  split
  rename_i r n1 e0 heq
  have h1 : n.tFrame n1 := by
    have := congrArg Prod.fst heq
    dsimp only at this
    rw [← this]; exact h.tcpClose now name
  split
  · exact h1
  · exact (h1.newFwd name).setTcp _ _

theorem NetSt.tFrame.tcpBind {n m : NetSt} (h : n.tFrame m) (name : String) (ep : Ep) :
    n.tFrame (m.tcpBind name ep).1 := by
  unfold NetSt.tcpBind
  repeat' split
  all_goals first
    | exact h
    | exact h.of_eq rfl rfl rfl rfl
    | exact (h.of_eq (m := m) rfl rfl rfl).setTcp _ _

theorem NetSt.tFrame.internalConnect {n m : NetSt} (h : n.tFrame m) (name : String) (target : Ep) :
    n.tFrame (m.internalConnect name target).1 := by
  unfold NetSt.internalConnect
  repeat' split
  all_goals first
    | exact h
    | exact h.of_eq rfl rfl rfl rfl

theorem NetSt.tFrame.tcpConnect {n m : NetSt} (h : n.tFrame m) (now : Int) (name : String) (target : Ep) (hh : Nat) :
    n.tFrame (m.tcpConnect now name target hh).1 := by
  unfold NetSt.tcpConnect
  split
  · exact h
  · rename_i s0 hs
    split
    rename_i r n1 e0 heq
    have h1 : n.tFrame n1 := by
      have := congrArg Prod.fst heq
      dsimp only at this
      rw [← this]
      split
      · exact h.tcpOpen _ _ _
      · exact h
    split
    · exact h1
    · rename_i s hs1
      split
      rename_i r2 n2 ecb heq2
      have h2 : n.tFrame n2 := by
        have := congrArg Prod.fst heq2
        dsimp only at this
        rw [← this]
        repeat' split
        all_goals first
          | exact h1
          | exact h1.of_eq rfl rfl rfl rfl
          | exact (h1.of_eq (m := n1) rfl rfl rfl).setTcp _ _
      split
      · exact h2
      · split
        · exact h2
        · split
          · exact h2
          · split
            rename_i r3 n3 e1 cid heq3
            have h3 : n.tFrame n3 := by
              have := congrArg Prod.fst heq3
              dsimp only at this
              rw [← this]; exact h2.internalConnect _ _
            repeat' split
            all_goals first
              | exact h3
              | exact h3.setTcp _ _

theorem NetSt.tFrame.tcpAttach {n m : NetSt} (h : n.tFrame m) (now : Int) (peer : String) (bindEp : Ep) (cid : Nat) :
    n.tFrame (m.tcpAttach now peer bindEp cid).1 := by
  unfold NetSt.tcpAttach
  split
  · exact h
  · split
    rename_i r n1 e0 heq
    have h1 : n.tFrame n1 := by
      have := congrArg Prod.fst heq
      dsimp only at this
      rw [← this]; exact h.tcpOpen _ _ _
    split
    · exact (h1.setTcp _ _).setChan _ _
    · exact h1

theorem NetSt.tFrame.of_closeEff {n m : NetSt} {name : String} (e : CloseEff n m name) : n.tFrame m := by
  refine ⟨e.udps, e.regU, e.cfg, by rw [e.flen]; exact Nat.le_refl _, fun g _ => ?_⟩
  rw [e.ft]
  split
  · exact Or.inr rfl
  · exact Or.inl rfl

theorem NetSt.tFrame.accClose {n m : NetSt} (h : n.tFrame m) (now : Int) (name : String) :
    n.tFrame (m.accClose now name).1 :=
  h.trans (NetSt.tFrame.of_closeEff (accClose_eff m now name))

theorem NetSt.tFrame.accListen {n m : NetSt} (h : n.tFrame m) (name : String) (qs : Int) :
    n.tFrame (m.accListen name qs).1 := by
  unfold NetSt.accListen
  repeat' split
  all_goals first
    | exact h
    | exact h.setTcp _ _

theorem NetSt.tFrame.tcpDestroy {n m : NetSt} (h : n.tFrame m) (now : Int) (name : String) :
    n.tFrame (m.tcpDestroy now name).1 := by
  unfold NetSt.tcpDestroy
  split
  · exact h
  · dsimp only
    refine NetSt.tFrame.of_eq (m := (if _ then _ else _ : NetSt × List NEff).1) ?_ rfl rfl rfl rfl
    split
    · exact h.accClose _ _
    · exact (h.setTcp _ _).tcpClose _ _

theorem tcpMove_none_d (n : NetSt) (src dst : String) (h : n.tcp? src = none) : n.tcpMove src dst = n := by
  unfold NetSt.tcpMove; simp only [h]

theorem tcpMove_some_d (n : NetSt) (src dst : String) (t : TcpSock) (h : n.tcp? src = some t) :
    n.tcpMove src dst =
      (({ n with reg := { n.reg with tcp := if t.bound.isDefault then n.reg.tcp
                          else n.reg.tcp.map (fun (e : Ep × String) => if e.1 == t.bound && e.2 == src then (e.1, dst) else e) },
                 fwds := match t.fwd with | some f => (n.setFwd f (some dst)).fwds | none => n.fwds }).setTcp dst t).setTcp
        src { node := t.node, isV4 := t.isV4, mss := t.mss, cwnd := t.cwnd, inFlight := t.inFlight,
              nextOut := t.nextOut, nextIn := t.nextIn, lastDrop := t.lastDrop, recvNull := t.recvNull } := by
  unfold NetSt.tcpMove
  simp only [h]
  cases t.fwd <;> cases t.bound.isDefault <;> rfl

/-- move construction of a TCP socket: the UDP side is untouched, the forwarder the socket
    holds is re-pointed at the new object -/
theorem tcpMove_frame (n : NetSt) (src dst : String) (t : TcpSock) (h : n.tcp? src = some t)
    (hlt : ∀ f, t.fwd = some f → f < n.fwds.length) :
    (n.tcpMove src dst).udps = n.udps ∧ (n.tcpMove src dst).reg.udp = n.reg.udp
    ∧ (n.tcpMove src dst).fwds.length = n.fwds.length
    ∧ ∀ g, (n.tcpMove src dst).fwdTarget g = if t.fwd = some g then some dst else n.fwdTarget g := by
  rw [tcpMove_some_d n src dst t h]
  refine ⟨rfl, rfl, ?_, fun g => ?_⟩
  · cases t.fwd <;> simp [NetSt.setFwd]
  · cases hf : t.fwd with
    | none => simp [NetSt.fwdTarget]
    | some f =>
      have := fwdTarget_setFwd_some n f g dst (hlt f hf)
      simp only [NetSt.fwdTarget] at this ⊢
      simp only [fwds_setTcp, Option.some.injEq]
      rw [this]
      by_cases hg : g = f <;> simp [hg, eq_comm]

theorem tcpMove_udps (n : NetSt) (src dst : String) :
    (n.tcpMove src dst).udps = n.udps ∧ (n.tcpMove src dst).reg.udp = n.reg.udp := by
  cases h : n.tcp? src with
  | none => rw [tcpMove_none_d n src dst h]; exact ⟨rfl, rfl⟩
  | some t => rw [tcpMove_some_d n src dst t h]; exact ⟨rfl, rfl⟩

/-! ### the open system `NS`: TCP labels -/

def NLbl.isTcp : NLbl → Bool
  | .tNew .. | .tOpen .. | .tBind .. | .tClose .. | .tDestroy .. | .tMove .. | .tConnect .. | .aListen ..
  | .aClose .. | .tAttach .. | .tPatch .. => true
  | _ => false

/-- a TCP label never touches the ghost logs of the UDP sockets -/
theorem NS.step_tcp_ghost (s : NS) (l : NLbl) (h : l.isTcp = true) :
    (s.step l).acc = s.acc ∧ (s.step l).out = s.out := by
  cases l <;> simp only [NLbl.isTcp] at h <;> try (exact absurd h (by decide))
  all_goals (unfold NS.step; dsimp only)
  all_goals (repeat' split)
  all_goals exact ⟨rfl, rfl⟩

/-- every TCP label except move construction: the UDP side is framed (`tFrame`) -/
theorem NS.step_tcp_tFrame (s : NS) (l : NLbl) (h : l.isTcp = true) (hm : ∀ a b, l ≠ .tMove a b) :
    s.n.tFrame (s.step l).n := by
  have r := NetSt.tFrame.refl s.n
  cases l <;> simp only [NLbl.isTcp] at h <;> try (exact absurd h (by decide))
  case tMove a b => exact absurd rfl (hm a b)
  all_goals simp only [NS.step]
  case tNew name node isAcc => split; exact r.setTcp _ _; exact r
  case tOpen now name v4 => exact r.tcpOpen _ _ _
  case tBind name ep => exact r.tcpBind _ _
  case tClose now name => exact r.tcpClose _ _
  case tDestroy now name => exact r.tcpDestroy _ _
  case tConnect now name target hh => exact r.tcpConnect _ _ _ _
  case aListen name qs => exact r.accListen _ _
  case aClose now name => exact r.accClose _ _
  case tAttach now peer acceptor cid =>
    split
    · exact r
    · split
      · exact r.tcpAttach _ _ _ _
      · exact r
  case tPatch name t' chans' =>
    split
    · exact r
    · split
      · exact (r.of_eq (k := { s.n with chans := chans' }) rfl rfl rfl rfl).setTcp _ _
      · exact r

theorem NS.step_tcp_udps (s : NS) (l : NLbl) (h : l.isTcp = true) :
    (s.step l).n.udps = s.n.udps ∧ (s.step l).n.reg.udp = s.n.reg.udp := by
  by_cases hm : ∀ a b, l ≠ .tMove a b
  · have := NS.step_tcp_tFrame s l h hm
    exact ⟨this.udps, this.regU⟩
  · have : ∃ a b, l = .tMove a b := by
      apply Classical.byContradiction; intro hc; apply hm; intro a b e; exact hc ⟨a, b, e⟩
    obtain ⟨a, b, e⟩ := this
    subst e
    simp only [NS.step]
    split
    · exact tcpMove_udps _ _ _
    · exact ⟨rfl, rfl⟩

theorem NS.step_tcp_udp? (s : NS) (l : NLbl) (h : l.isTcp = true) (x : String) :
    (s.step l).n.udp? x = s.n.udp? x := by
  unfold NetSt.udp?; rw [(NS.step_tcp_udps s l h).1]

/-! ### the system invariant -/

/-- The data invariant of the open system: every UDP socket object satisfies the per-socket
    invariant (`account`, `closed_empty`, `hand`, `pend` are `UdpSock.DOk` clause by clause) and
    the ghost logs account for every accepted datagram exactly once, in arrival order (`fifo`). -/
structure DInv (s : NS) : Prop where
  account : ∀ name u, s.n.udp? name = some u → u.isOpen = true → u.queueSize = paySum u.queue
  closed_empty : ∀ name u, s.n.udp? name = some u → u.isOpen = false → u.queue = []
  hand : ∀ name u, s.n.udp? name = some u →
    (u.recvH.isSome = true → u.recvNull = false) ∧ (u.waitRecvH.isSome = true → u.recvNull = true)
  pend : ∀ name u, s.n.udp? name = some u → (u.recvH.isSome = true ∨ u.waitRecvH.isSome = true) →
    u.queue = [] ∧ u.isOpen = true ∧ u.bound.isDefault = false
  fifo : ∀ name, s.acc name = (s.out name).map Prod.fst ++ s.n.uqueue name

theorem DInv.dok {s : NS} (h : DInv s) {name : String} {u : UdpSock} (hu : s.n.udp? name = some u) : u.DOk :=
  ⟨h.account name u hu, h.closed_empty name u hu, (h.hand name u hu).1, (h.hand name u hu).2, h.pend name u hu⟩

theorem DInv.of_dok {s : NS} (hd : ∀ name u, s.n.udp? name = some u → u.DOk)
    (hf : ∀ name, s.acc name = (s.out name).map Prod.fst ++ s.n.uqueue name) : DInv s :=
  ⟨fun x u hu => (hd x u hu).acct, fun x u hu => (hd x u hu).cle, fun x u hu => ⟨(hd x u hu).h1, (hd x u hu).h2⟩,
   fun x u hu => (hd x u hu).pend, hf⟩

theorem DInv.init (c : NetCfg) : DInv (NS.init c) := by
  apply DInv.of_dok
  · intro name u hu; simp [NS.init, NetSt.udp?] at hu
  · intro name; simp [NS.init, NetSt.uqueue, NetSt.udp?]

theorem uqueue_of_udp? {n n' : NetSt} {x : String} (h : n'.udp? x = n.udp? x) : n'.uqueue x = n.uqueue x := by
  unfold NetSt.uqueue; rw [h]

theorem uqueue_some {n : NetSt} {x : String} {u : UdpSock} (h : n.udp? x = some u) : n.uqueue x = u.queue := by
  unfold NetSt.uqueue; rw [h]; rfl

theorem uqueue_none {n : NetSt} {x : String} (h : n.udp? x = none) : n.uqueue x = [] := by
  unfold NetSt.uqueue; rw [h]; rfl

theorem NetSt.udpSame.uqueue {n n' : NetSt} (h : n.udpSame n') (x : String) : n'.uqueue x = n.uqueue x := by
  rcases h x with ⟨a, b⟩ | ⟨u, u', a, b, c⟩
  · rw [uqueue_none a, uqueue_none b]
  · rw [uqueue_some a, uqueue_some b]; exact c.1

/-- a step that changes neither the logs nor any queue -/
theorem DInv.plainStep {s : NS} (h : DInv s) (s' : NS) (ha : s'.acc = s.acc) (ho : s'.out = s.out)
    (hd : ∀ x u', s'.n.udp? x = some u' → u'.DOk) (hq : ∀ x, s'.n.uqueue x = s.n.uqueue x) : DInv s' := by
  apply DInv.of_dok hd
  intro x; rw [ha, ho, hq]; exact h.fifo x

/-- control-path steps -/
theorem DInv.ctl {s : NS} (h : DInv s) (s' : NS) (ha : s'.acc = s.acc) (ho : s'.out = s.out)
    (hs : s.n.udpSame s'.n) : DInv s' := by
  apply h.plainStep s' ha ho
  · intro x u' hu'
    rcases hs x with ⟨a, b⟩ | ⟨u, u2, a, b, c⟩
    · rw [b] at hu'; simp at hu'
    · rw [b] at hu'; simp at hu'; subst hu'
      exact (h.dok a).sameData c
  · exact hs.uqueue

/-- a step on socket `name` that can only hand the head of its queue to a reader -/
theorem DInv.readStep {s : NS} (h : DInv s) (name : String) (n' : NetSt)
    (hoth : ∀ x, x ≠ name → n'.udp? x = s.n.udp? x) (hd : ∀ u', n'.udp? name = some u' → u'.DOk)
    (hq : QTail (s.n.uqueue name) (n'.uqueue name)) : DInv (s.readStep name n') := by
  apply DInv.of_dok
  · intro x u' hu'
    by_cases hx : x = name
    · subst hx; exact hd u' hu'
    · have : n'.udp? x = some u' := hu'
      rw [hoth x hx] at this; exact h.dok this
  · intro x
    by_cases hx : x = name
    · subst hx
      simp only [NS.readStep, setS_same, List.map_append, List.map_map]
      have e : (Prod.fst ∘ fun (x : Pkt) => (x, true)) = id := rfl
      rw [h.fifo x, e, List.map_id, List.append_assoc, hq.popped_append]
    · simp only [NS.readStep, setS_other _ _ _ _ hx]
      rw [h.fifo x, uqueue_of_udp? (hoth x hx)]

/-- a step that discards everything socket `name` has queued -/
theorem DInv.discardStep {s : NS} (h : DInv s) (name : String) (n' : NetSt)
    (hoth : ∀ x, x ≠ name → n'.udp? x = s.n.udp? x) (hd : ∀ u', n'.udp? name = some u' → u'.DOk)
    (hq : n'.uqueue name = []) : DInv (s.discardStep name n') := by
  apply DInv.of_dok
  · intro x u' hu'
    by_cases hx : x = name
    · subst hx; exact hd u' hu'
    · have : n'.udp? x = some u' := hu'
      rw [hoth x hx] at this; exact h.dok this
  · intro x
    by_cases hx : x = name
    · subst hx
      simp only [NS.discardStep, setS_same, List.map_append, List.map_map]
      have e : (Prod.fst ∘ fun (x : Pkt) => (x, false)) = id := rfl
      rw [h.fifo x, e, List.map_id, hq, List.append_nil]
    · simp only [NS.discardStep, setS_other _ _ _ _ hx]
      rw [h.fifo x, uqueue_of_udp? (hoth x hx)]

/-- a step that maps socket `name` without touching its queue or the logs -/
theorem DInv.mapStep {s : NS} (h : DInv s) (name : String) (g : UdpSock → UdpSock)
    (hg : ∀ u, s.n.udp? name = some u → u.DOk → (g u).DOk ∧ (g u).queue = u.queue) :
    DInv { s with n := s.n.mapUdp name g } := by
  refine h.plainStep { s with n := s.n.mapUdp name g } rfl rfl ?_ ?_
  · intro x u' hu'
    have hu2 : (s.n.mapUdp name g).udp? x = some u' := hu'
    rw [udp?_mapUdp] at hu2
    by_cases hx : x = name
    · subst hx
      cases hu : s.n.udp? x with
      | none => simp [hu] at hu2
      | some u => simp [hu] at hu2; subst hu2; exact (hg u hu (h.dok hu)).1
    · simp [hx] at hu2; exact h.dok hu2
  · intro x
    show (s.n.mapUdp name g).uqueue x = s.n.uqueue x
    by_cases hx : x = name
    · subst hx
      cases hu : s.n.udp? x with
      | none => exact uqueue_of_udp? (by rw [udp?_mapUdp]; simp [hu])
      | some u =>
        rw [uqueue_some hu, uqueue_some (u := g u) (by rw [udp?_mapUdp]; simp [hu])]
        exact (hg u hu (h.dok hu)).2
    · exact uqueue_of_udp? (by rw [udp?_mapUdp]; simp [hx])

/-- a receive call on socket `name` -/
theorem DInv.mapRead {s : NS} (h : DInv s) (name : String) (g : UdpSock → UdpSock)
    (hg : ∀ u, s.n.udp? name = some u → u.DOk → (g u).DOk ∧ QTail u.queue (g u).queue) :
    DInv (s.readStep name (s.n.mapUdp name g)) := by
  apply h.readStep
  · intro x hx; rw [udp?_mapUdp]; simp [hx]
  · intro u' hu'
    rw [udp?_mapUdp] at hu'
    cases hu : s.n.udp? name with
    | none => simp [hu] at hu'
    | some u => simp [hu] at hu'; subst hu'; exact (hg u hu (h.dok hu)).1
  · cases hu : s.n.udp? name with
    | none =>
      rw [uqueue_none hu, uqueue_none (by rw [udp?_mapUdp]; simp [hu])]; exact QTail.refl _
    | some u =>
      rw [uqueue_some hu, uqueue_some (u := g u) (by rw [udp?_mapUdp]; simp [hu])]
      exact (hg u hu (h.dok hu)).2

/-- the components of a delivery that reaches a UDP socket -/
theorem NS.step_deliver_some (s : NS) (f : Nat) (p : Pkt) (name : String) (u : UdpSock)
    (hf : s.n.fwdTarget f = some name) (hu : s.n.udp? name = some u) :
    (s.step (.deliver f p)).n = s.n.setUdp name (u.incoming p).1
    ∧ (s.step (.deliver f p)).acc
        = (if u.queueSize + p.size > 262144 then s.acc else setS s.acc name (s.acc name ++ [p]))
    ∧ (s.step (.deliver f p)).out = setS s.out name (s.out name ++
        (popped (if u.queueSize + p.size > 262144 then u.queue else u.queue ++ [p]) (u.incoming p).1.queue).map (·, true))
    ∧ (s.step (.deliver f p)).attached = s.attached := by
  simp only [NS.step, hf, hu]
  by_cases hc : u.queueSize + p.size > 262144 <;> simp [hc]

theorem NS.step_deliver_none (s : NS) (f : Nat) (p : Pkt) (hf : s.n.fwdTarget f = none) :
    s.step (.deliver f p) = s := by
  simp only [NS.step, hf]

theorem NS.step_deliver_tcp (s : NS) (f : Nat) (p : Pkt) (name : String) (hf : s.n.fwdTarget f = some name)
    (hu : s.n.udp? name = none) : s.step (.deliver f p) = s := by
  simp only [NS.step, hf, hu]

theorem DInv.deliver {s : NS} (h : DInv s) (hr : RegInv s) (f : Nat) (p : Pkt) : DInv (s.step (.deliver f p)) := by
  cases hf : s.n.fwdTarget f with
  | none => rw [NS.step_deliver_none s f p hf]; exact h
  | some name =>
    cases hu : s.n.udp? name with
    | none => rw [NS.step_deliver_tcp s f p name hf hu]; exact h
    | some u =>
      obtain ⟨e1, e2, e3, _⟩ := NS.step_deliver_some s f p name u hf hu
      have ho := (hr.deliver_open hf hu).1
      apply DInv.of_dok
      · intro x u' hu'
        rw [e1, udp?_setUdp] at hu'
        by_cases hx : x = name
        · simp [hx] at hu'; subst hu'; exact (h.dok hu).incoming p ho
        · simp [hx] at hu'; exact h.dok hu'
      · intro x
        rw [e1, e2, e3]
        by_cases hx : x = name
        · subst hx
          rw [uqueue_some (u := (u.incoming p).1) (by simp)]
          have hfx := h.fifo x
          rw [uqueue_some hu] at hfx
          have e : (Prod.fst ∘ fun (x : Pkt) => (x, true)) = id := rfl
          rcases u.incoming_cases p with ⟨hc, ei⟩ | ⟨hc, _, hq⟩
          · simp only [hc, if_true, ei, popped_self, setS_same, List.map_nil, List.append_nil]
            exact hfx
          · simp only [hc, if_false, setS_same, List.map_append, List.map_map, e, List.map_id]
            rw [List.append_assoc, hq.popped_append, hfx, List.append_assoc]
        · rw [uqueue_of_udp? (n := s.n) (by simp [hx])]
          simp only [setS_other _ _ _ _ hx]
          split
          · exact h.fifo x
          · rw [setS_other _ _ _ _ hx]; exact h.fifo x

theorem DInv.uMove {s : NS} (h : DInv s) (src dst : String) : DInv (s.step (.uMove src dst)) := by
  simp only [NS.step]
  split
  · rename_i hg
    simp only [Bool.and_eq_true] at hg
    obtain ⟨hfr, hsome⟩ := hg
    have hdn : s.n.udp? dst = none := by
      simp only [NetSt.fresh, Bool.and_eq_true, Option.isNone_iff_eq_none] at hfr; exact hfr.1
    obtain ⟨u, hu⟩ := Option.isSome_iff_exists.mp hsome
    have hne : dst ≠ src := by intro e; rw [e, hu] at hdn; simp at hdn
    apply DInv.of_dok
    · intro x u' hu'
      have hu2 : (s.n.udpMove src dst).udp? x = some u' := hu'
      rw [udpMove_udp? s.n src dst x u hu] at hu2
      by_cases hx : x = src
      · simp [hx] at hu2; subst hu2; exact UdpSock.DOk.movedFrom u
      · by_cases hx2 : x = dst
        · simp [hx2, hne] at hu2; subst hu2; exact h.dok hu
        · simp [hx, hx2] at hu2; exact h.dok hu2
    · intro x
      show setS (setS s.acc dst (s.acc src)) src [] x
        = (setS (setS s.out dst (s.out src)) src [] x).map Prod.fst ++ (s.n.udpMove src dst).uqueue x
      by_cases hx : x = src
      · subst hx
        rw [uqueue_some (u := u.movedFrom) (by rw [udpMove_udp? s.n x dst x u hu]; simp)]
        simp [UdpSock.movedFrom]
      · by_cases hx2 : x = dst
        · subst hx2
          rw [uqueue_some (u := u) (by rw [udpMove_udp? s.n src x x u hu]; simp [hx])]
          simp only [setS_other _ _ _ _ hx, setS_same]
          have := h.fifo src
          rw [uqueue_some hu] at this; exact this
        · rw [uqueue_of_udp? (n := s.n) (by rw [udpMove_udp? s.n src dst x u hu]; simp [hx, hx2])]
          simp only [setS_other _ _ _ _ hx, setS_other _ _ _ _ hx2]
          exact h.fifo x
  · exact h

theorem DInv.step {s : NS} (h : DInv s) (hr : RegInv s) (l : NLbl) : DInv (s.step l) := by
  by_cases ht : l.isTcp = true
  · obtain ⟨ha, ho⟩ := NS.step_tcp_ghost s l ht
    exact h.ctl _ ha ho (NetSt.udpSame.of_udps (NS.step_tcp_udps s l ht).1)
  cases l <;> try (exact absurd rfl ht)
  case uNew name node =>
    simp only [NS.step]
    split
    · rename_i hfr
      have hn : s.n.udp? name = none := by
        simp only [NetSt.fresh, Bool.and_eq_true, Option.isNone_iff_eq_none] at hfr; exact hfr.1
      refine h.plainStep { s with n := s.n.udpNew name node } rfl rfl ?_ ?_
      · intro x u' hu'
        have hu2 : (s.n.setUdp name { node := node }).udp? x = some u' := hu'
        rw [udp?_setUdp] at hu2
        by_cases hx : x = name
        · simp [hx] at hu2; subst hu2; exact UdpSock.DOk.fresh node
        · simp [hx] at hu2; exact h.dok hu2
      · intro x
        show (s.n.setUdp name { node := node }).uqueue x = s.n.uqueue x
        by_cases hx : x = name
        · subst hx; rw [uqueue_none hn, uqueue_some (u := { node := node }) (by simp)]
        · exact uqueue_of_udp? (by simp [hx])
    · exact h
  case uOpen name v4 =>
    refine h.discardStep name _ (fun x hx => by rw [udpOpen_udp?]; simp [hx]) ?_ ?_
    · intro u' hu'
      rw [udpOpen_udp?] at hu'
      cases hu : s.n.udp? name with
      | none => simp [hu] at hu'
      | some u => simp [hu] at hu'; subst hu'; exact UdpSock.DOk.opened u v4 _
    · cases hu : s.n.udp? name with
      | none => exact uqueue_none (by rw [udpOpen_udp?]; simp [hu])
      | some u => rw [uqueue_some (u := u.opened v4 s.n.fwds.length) (by rw [udpOpen_udp?]; simp [hu])]; rfl
  case uBind name ep => exact h.ctl _ rfl rfl (udpBind_ctlStep s.n name ep).same
  case uClose name =>
    refine h.discardStep name _ (fun x hx => by rw [udpClose_udp?]; simp [hx]) ?_ ?_
    · intro u' hu'
      rw [udpClose_udp?] at hu'
      cases hu : s.n.udp? name with
      | none => simp [hu] at hu'
      | some u => simp [hu] at hu'; subst hu'; exact UdpSock.DOk.closed u
    · cases hu : s.n.udp? name with
      | none => exact uqueue_none (by rw [udpClose_udp?]; simp [hu])
      | some u => rw [uqueue_some (u := u.closed) (by rw [udpClose_udp?]; simp [hu])]; rfl
  case uDestroy name =>
    refine h.discardStep name _ (fun x hx => by rw [udpDestroy_udp?]; simp [hx]) ?_ ?_
    · intro u' hu'
      rw [udpDestroy_udp?] at hu'; simp at hu'
    · exact uqueue_none (by rw [udpDestroy_udp?]; simp)
  case uMove src dst => exact h.uMove src dst
  case uSendTo now name dst payload => exact h.ctl _ rfl rfl (udpSendTo_ctlStep s.n now name dst payload).same
  case uRecv name op =>
    show DInv (s.readStep name (s.n.udpAsyncRecv name op).1)
    rw [udpAsyncRecv_fst]
    exact h.mapRead name _ (fun u _ hd => ⟨hd.abortRecv.asyncReceive op rfl, UdpSock.asyncReceive_qtail _ op⟩)
  case uRecvNb name caps =>
    show DInv (s.readStep name (s.n.udpRecvNb name caps).1)
    rw [udpRecvNb_fst]
    exact h.mapRead name _ (fun u _ hd => ⟨hd.abortRecv.receiveFrom caps, UdpSock.receiveFrom_qtail _ caps⟩)
  case uWaitRead name hh =>
    show DInv { s with n := (s.n.udpWaitRead name hh).1 }
    rw [udpWaitRead_fst]
    exact h.mapStep name _ (fun u _ hd => ⟨hd.abortRecv.asyncWaitReceive hh rfl, UdpSock.asyncWaitReceive_queue _ hh⟩)
  case uWaitWrite now name hh =>
    refine h.ctl _ rfl rfl ?_
    show s.n.udpSame (s.n.udpWaitWrite now name hh).1
    rw [udpWaitWrite_fst]
    exact NetSt.udpSame.mapUdp _ _ _ (fun u => by split <;> exact ⟨rfl, rfl, rfl, rfl, rfl, rfl, rfl, rfl, fun _ => rfl⟩)
  case uSendWaitFired name ab =>
    refine h.ctl _ rfl rfl ?_
    show s.n.udpSame (s.n.udpSendWaitFired name ab).1
    intro x
    rw [udpSendWaitFired_udp?]
    by_cases hx : x = name
    · subst hx
      cases hu : s.n.udp? x with
      | none => left; simp
      | some u =>
        right; refine ⟨u, (if ab = true then u else { u with waitSendH := none }), rfl, by simp, ?_⟩
        split <;> exact ⟨rfl, rfl, rfl, rfl, rfl, rfl, rfl, rfl, fun _ => rfl⟩
    · simp only [hx, if_false]
      cases hu : s.n.udp? x with
      | none => left; exact ⟨rfl, rfl⟩
      | some u => right; exact ⟨u, u, rfl, rfl, UdpSock.sameData.refl u⟩
  case uCancel name =>
    show DInv { s with n := (s.n.udpCancel name).1 }
    rw [udpCancel_fst]
    exact h.mapStep name _ (fun u _ hd => ⟨hd.cancel name, by rw [UdpSock.cancel_fst]⟩)
  case uSetDf name df =>
    simp only [NS.step]
    split
    · rename_i u hu
      exact h.ctl _ rfl rfl (NetSt.udpSame.setUdp hu ⟨rfl, rfl, rfl, rfl, rfl, rfl, rfl, rfl, fun _ => rfl⟩)
    · exact h
  case deliver f p => exact h.deliver hr f p

theorem DInv.run (c : NetCfg) (hc : c.WF) (ls : List NLbl) : DInv ((NS.init c).run ls) := by
  suffices H : ∀ (s : NS), DInv s → RegInv s → DInv (s.run ls) from H _ (DInv.init c) (RegInv.init c hc)
  induction ls with
  | nil => intro s h _; exact h
  | cons l ls ih => intro s h hr; exact ih (s.step l) (h.step hr l) (hr.step l)

/-! ### forwarders: which labels touch the forwarder table -/

/-- the labels that leave the forwarder table, the TCP objects and the TCP registry alone -/
def NLbl.keepsFwds : NLbl → Bool
  | .uNew .. | .uBind .. | .uSendTo .. | .uRecv .. | .uRecvNb .. | .uWaitRead .. | .uWaitWrite ..
  | .uSendWaitFired .. | .uCancel .. | .uSetDf .. | .deliver .. => true
  | _ => false

theorem NS.step_keepsFwds (s : NS) (l : NLbl) (h : l.keepsFwds = true) :
    (s.step l).n.fwds = s.n.fwds ∧ (s.step l).n.tcps = s.n.tcps ∧ (s.step l).attached = s.attached := by
  cases l <;> simp only [NLbl.keepsFwds] at h <;> try (exact absurd h (by decide))
  case uNew name node => simp only [NS.step]; split <;> exact ⟨rfl, rfl, rfl⟩
  case uBind name ep => exact ⟨(udpBind_ctlStep s.n name ep).fwds, (udpBind_ctlStep s.n name ep).tcps, rfl⟩
  case uSendTo now name dst payload =>
    exact ⟨(udpSendTo_ctlStep s.n now name dst payload).fwds, (udpSendTo_ctlStep s.n now name dst payload).tcps, rfl⟩
  case uRecv name op =>
    show (s.n.udpAsyncRecv name op).1.fwds = _ ∧ (s.n.udpAsyncRecv name op).1.tcps = _ ∧ _
    rw [udpAsyncRecv_fst]; exact ⟨by simp, by simp, rfl⟩
  case uRecvNb name caps =>
    show (s.n.udpRecvNb name caps).1.fwds = _ ∧ (s.n.udpRecvNb name caps).1.tcps = _ ∧ _
    rw [udpRecvNb_fst]; exact ⟨by simp, by simp, rfl⟩
  case uWaitRead name hh =>
    show (s.n.udpWaitRead name hh).1.fwds = _ ∧ (s.n.udpWaitRead name hh).1.tcps = _ ∧ _
    rw [udpWaitRead_fst]; exact ⟨by simp, by simp, rfl⟩
  case uWaitWrite now name hh =>
    show (s.n.udpWaitWrite now name hh).1.fwds = _ ∧ (s.n.udpWaitWrite now name hh).1.tcps = _ ∧ _
    rw [udpWaitWrite_fst]; exact ⟨by simp, by simp, rfl⟩
  case uSendWaitFired name ab =>
    have := udpSendWaitFired_frame_d s.n name ab
    exact ⟨this.1, this.2.2.1, rfl⟩
  case uCancel name =>
    show (s.n.udpCancel name).1.fwds = _ ∧ (s.n.udpCancel name).1.tcps = _ ∧ _
    rw [udpCancel_fst]; exact ⟨by simp, by simp, rfl⟩
  case uSetDf name df => simp only [NS.step]; split <;> exact ⟨rfl, rfl, rfl⟩
  case deliver f p =>
    cases hf : s.n.fwdTarget f with
    | none => rw [NS.step_deliver_none s f p hf]; exact ⟨rfl, rfl, rfl⟩
    | some name =>
      cases hu : s.n.udp? name with
      | none => rw [NS.step_deliver_tcp s f p name hf hu]; exact ⟨rfl, rfl, rfl⟩
      | some u =>
        obtain ⟨e1, _, _, e4⟩ := NS.step_deliver_some s f p name u hf hu
        rw [e1, e4]; exact ⟨rfl, rfl, rfl⟩

/-- every label is of exactly one of these kinds -/
theorem NLbl.kinds (l : NLbl) :
    l.isTcp = true ∨ l.keepsFwds = true ∨ (∃ name v4, l = .uOpen name v4) ∨ (∃ name, l = .uClose name)
    ∨ (∃ name, l = .uDestroy name) ∨ (∃ src dst, l = .uMove src dst) := by
  cases l <;> simp [NLbl.isTcp, NLbl.keepsFwds]

/-- the forwarder a live UDP socket holds is allocated and reaches that socket -/
theorem RegInv.udp_fwd_lt {s : NS} (h : RegInv s) {f : Nat} {name : String} {u : UdpSock}
    (hu : s.n.udp? name = some u) (hf : u.fwd = some f) : f < s.n.fwds.length :=
  fwdTarget_lt _ _ _ (h.udp_fwd hu hf).2

/-- the forwarder a live TCP object holds is allocated and reaches that object -/
theorem RegInv.tcp_fwd {s : NS} (h : RegInv s) {f : Nat} {name : String} {t : TcpSock}
    (ht : s.n.tcp? name = some t) (hf : t.fwd = some f) :
    s.n.fwdTarget f = some name ∧ f < s.n.fwds.length := by
  have h1 : s.n.fwdTarget f = some name :=
    h.fwd.ftc name t.isOpen f (by simp [NetSt.tf, ht, hf])
  exact ⟨h1, fwdTarget_lt _ _ _ h1⟩

/-- **A detached forwarder stays detached.** Once a forwarder id has been allocated and points
    nowhere, no label re-attaches it. -/
theorem detached_step {s : NS} (hr : RegInv s) {f : Nat} (hn : s.n.fwdTarget f = none)
    (hl : f < s.n.fwds.length) (l : NLbl) :
    (s.step l).n.fwdTarget f = none ∧ f < (s.step l).n.fwds.length := by
  rcases l.kinds with ht | hk | ⟨name, v4, e⟩ | ⟨name, e⟩ | ⟨name, e⟩ | ⟨src, dst, e⟩
  · by_cases hm : ∀ a b, l ≠ .tMove a b
    · have fr := NS.step_tcp_tFrame s l ht hm
      refine ⟨?_, Nat.lt_of_lt_of_le hl fr.len⟩
      rcases fr.mono f hl with a | a
      · rw [a]; exact hn
      · exact a
    · have : ∃ a b, l = .tMove a b := by
        apply Classical.byContradiction; intro hc; apply hm; intro a b e; exact hc ⟨a, b, e⟩
      obtain ⟨a, b, e⟩ := this
      subst e
      simp only [NS.step]
      split
      · rename_i hg
        simp only [Bool.and_eq_true] at hg
        obtain ⟨t, ht⟩ := Option.isSome_iff_exists.mp hg.2
        obtain ⟨_, _, e3, e4⟩ := tcpMove_frame s.n a b t ht (fun g hg => (hr.tcp_fwd ht hg).2)
        refine ⟨?_, by rw [e3]; exact hl⟩
        show (s.n.tcpMove a b).fwdTarget f = none
        rw [e4]
        split
        · rename_i hf
          have := (hr.tcp_fwd ht hf).1
          rw [hn] at this; simp at this
        · exact hn
      · exact ⟨hn, hl⟩
  · have := (NS.step_keepsFwds s l hk).1
    rw [fwdTarget_congr _ _ this]; rw [this]; exact ⟨hn, hl⟩
  · subst e
    show (s.n.udpOpen name v4).1.fwdTarget f = none ∧ f < (s.n.udpOpen name v4).1.fwds.length
    rw [udpOpen_fwdTarget, udpOpen_fwds_length, udpClose_fwdTarget]
    have : f ≠ s.n.fwds.length := by omega
    simp only [this, and_false, if_false]
    refine ⟨?_, by omega⟩
    split
    · rfl
    · exact hn
  · subst e
    show (s.n.udpClose name).1.fwdTarget f = none ∧ f < (s.n.udpClose name).1.fwds.length
    rw [udpClose_fwdTarget, udpClose_fwds_length]
    refine ⟨?_, hl⟩
    split
    · rfl
    · exact hn
  · subst e
    show (s.n.udpDestroy name).1.fwdTarget f = none ∧ f < (s.n.udpDestroy name).1.fwds.length
    rw [udpDestroy_fwdTarget, udpDestroy_fwds_length, udpClose_fwdTarget]
    refine ⟨?_, hl⟩
    split
    · rfl
    · exact hn
  · subst e
    simp only [NS.step]
    split
    · rename_i hg
      simp only [Bool.and_eq_true] at hg
      obtain ⟨u, hu⟩ := Option.isSome_iff_exists.mp hg.2
      refine ⟨?_, by show f < (s.n.udpMove src dst).fwds.length; rw [udpMove_fwds_length]; exact hl⟩
      show (s.n.udpMove src dst).fwdTarget f = none
      rw [udpMove_fwdTarget s.n src dst u hu f (fun g hg => hr.udp_fwd_lt hu hg)]
      split
      · rename_i hf
        have := (hr.udp_fwd hu hf).2
        rw [hn] at this; simp at this
      · exact hn
    · exact ⟨hn, hl⟩

theorem detached_run {s : NS} (hr : RegInv s) {f : Nat} (hn : s.n.fwdTarget f = none)
    (hl : f < s.n.fwds.length) (ls : List NLbl) :
    (s.run ls).n.fwdTarget f = none ∧ f < (s.run ls).n.fwds.length := by
  induction ls generalizing s with
  | nil => exact ⟨hn, hl⟩
  | cons l ls ih =>
    have := detached_step hr hn hl l
    exact ih (hr.step l) this.1 this.2

theorem RegInv.run' {s : NS} (hr : RegInv s) (ls : List NLbl) : RegInv (s.run ls) := by
  induction ls generalizing s with
  | nil => exact hr
  | cons l ls ih => exact ih (hr.step l)

theorem NS.run_append (s : NS) (a b : List NLbl) : s.run (a ++ b) = (s.run a).run b := by
  simp [NS.run, List.foldl_append]

/-! ### which labels can take a socket's forwarder away -/

/-- close / destroy / re-open of `name`, or move construction from `name` -/
def NLbl.detaches (l : NLbl) (name : String) : Bool :=
  match l with
  | .uClose x | .uDestroy x | .uOpen x _ => x == name
  | .uMove src _ => src == name
  | _ => false

/-- the socket object is still there, open as before, with the same forwarder -/
def NetSt.keeps (_n n' : NetSt) (name : String) (u : UdpSock) : Prop :=
  ∃ u', n'.udp? name = some u' ∧ u'.fwd = u.fwd ∧ u'.isOpen = u.isOpen ∧ u'.node = u.node

theorem NetSt.keeps.of_udp? {n n' : NetSt} {name : String} {u : UdpSock} (hu : n.udp? name = some u)
    (h : n'.udp? name = n.udp? name) : n.keeps n' name u := ⟨u, by rw [h, hu], rfl, rfl, rfl⟩

theorem NetSt.keeps.of_udpSame {n n' : NetSt} {name : String} {u : UdpSock} (hu : n.udp? name = some u)
    (h : n.udpSame n') : n.keeps n' name u := by
  rcases h name with ⟨a, _⟩ | ⟨v, v', a, b, c⟩
  · rw [hu] at a; simp at a
  · rw [hu] at a; simp at a; subst a
    exact ⟨v', b, c.2.2.2.2.2.2.1, c.2.2.1, c.2.2.2.2.2.2.2.1⟩

theorem NetSt.keeps.of_mapUdp {n : NetSt} {name x : String} {u : UdpSock} (hu : n.udp? name = some u)
    (g : UdpSock → UdpSock) (hg : ∀ v : UdpSock, v.sameCtl (g v)) : n.keeps (n.mapUdp x g) name u := by
  by_cases hx : name = x
  · subst hx
    exact ⟨g u, by rw [udp?_mapUdp]; simp [hu], (hg u).2.1, (hg u).1, (hg u).2.2.2.1⟩
  · exact NetSt.keeps.of_udp? hu (by rw [udp?_mapUdp]; simp [hx])

theorem NS.step_keeps (s : NS) (l : NLbl) (name : String) (u : UdpSock) (hu : s.n.udp? name = some u)
    (hl : l.detaches name = false) : s.n.keeps (s.step l).n name u := by
  rcases l.kinds with ht | hk | ⟨x, v4, e⟩ | ⟨x, e⟩ | ⟨x, e⟩ | ⟨src, dst, e⟩
  · exact NetSt.keeps.of_udp? hu (NS.step_tcp_udp? s l ht name)
  · cases l <;> simp only [NLbl.keepsFwds] at hk <;> try (exact absurd hk (by decide))
    case uNew x node =>
      simp only [NS.step]
      split
      · rename_i hfr
        have hn : s.n.udp? x = none := by
          simp only [NetSt.fresh, Bool.and_eq_true, Option.isNone_iff_eq_none] at hfr; exact hfr.1
        have hx : name ≠ x := by intro e; rw [e, hn] at hu; simp at hu
        exact NetSt.keeps.of_udp? hu (by show (s.n.setUdp x _).udp? name = _; simp [hx])
      · exact NetSt.keeps.of_udp? hu rfl
    case uBind x ep => exact NetSt.keeps.of_udpSame hu (udpBind_ctlStep s.n x ep).same
    case uSendTo now x dst payload => exact NetSt.keeps.of_udpSame hu (udpSendTo_ctlStep s.n now x dst payload).same
    case uRecv x op =>
      show s.n.keeps (s.n.udpAsyncRecv x op).1 name u
      rw [udpAsyncRecv_fst]
      exact NetSt.keeps.of_mapUdp hu _ (fun v => (UdpSock.sameCtl_abortRecv v).trans (UdpSock.sameCtl_asyncReceive _ op))
    case uRecvNb x caps =>
      show s.n.keeps (s.n.udpRecvNb x caps).1 name u
      rw [udpRecvNb_fst]
      exact NetSt.keeps.of_mapUdp hu _ (fun v => (UdpSock.sameCtl_abortRecv v).trans (UdpSock.sameCtl_receiveFrom _ caps))
    case uWaitRead x hh =>
      show s.n.keeps (s.n.udpWaitRead x hh).1 name u
      rw [udpWaitRead_fst]
      exact NetSt.keeps.of_mapUdp hu _ (fun v => (UdpSock.sameCtl_abortRecv v).trans (UdpSock.sameCtl_asyncWaitReceive _ hh))
    case uWaitWrite now x hh =>
      show s.n.keeps (s.n.udpWaitWrite now x hh).1 name u
      rw [udpWaitWrite_fst]
      exact NetSt.keeps.of_mapUdp hu _ (fun v => by split <;> exact ⟨rfl, rfl, rfl, rfl, rfl⟩)
    case uSendWaitFired x ab =>
      show s.n.keeps (s.n.udpSendWaitFired x ab).1 name u
      by_cases hx : name = x
      · subst hx
        refine ⟨(if ab = true then u else { u with waitSendH := none }), by rw [udpSendWaitFired_udp?]; simp [hu], ?_⟩
        split <;> exact ⟨rfl, rfl, rfl⟩
      · exact NetSt.keeps.of_udp? hu (by rw [udpSendWaitFired_udp?]; simp [hx])
    case uCancel x =>
      show s.n.keeps (s.n.udpCancel x).1 name u
      rw [udpCancel_fst]
      exact NetSt.keeps.of_mapUdp hu _ (fun v => UdpSock.sameCtl_cancel x v)
    case uSetDf x df =>
      simp only [NS.step]
      split
      · rename_i v hv
        exact NetSt.keeps.of_udpSame hu (NetSt.udpSame.setUdp hv ⟨rfl, rfl, rfl, rfl, rfl, rfl, rfl, rfl, fun _ => rfl⟩)
      · exact NetSt.keeps.of_udp? hu rfl
    case deliver f p =>
      cases hf : s.n.fwdTarget f with
      | none => rw [NS.step_deliver_none s f p hf]; exact NetSt.keeps.of_udp? hu rfl
      | some x =>
        cases hv : s.n.udp? x with
        | none => rw [NS.step_deliver_tcp s f p x hf hv]; exact NetSt.keeps.of_udp? hu rfl
        | some v =>
          rw [(NS.step_deliver_some s f p x v hf hv).1]
          by_cases hx : name = x
          · subst hx
            rw [hu] at hv; simp at hv; subst hv
            have := UdpSock.sameCtl_incoming u p
            exact ⟨(u.incoming p).1, by simp, this.2.1, this.1, this.2.2.2.1⟩
          · exact NetSt.keeps.of_udp? hu (by simp [hx])
  · subst e
    have hx : name ≠ x := by intro e; simp [NLbl.detaches, e] at hl
    exact NetSt.keeps.of_udp? hu (by show (s.n.udpOpen x v4).1.udp? name = _; rw [udpOpen_udp?]; simp [hx])
  · subst e
    have hx : name ≠ x := by intro e; simp [NLbl.detaches, e] at hl
    exact NetSt.keeps.of_udp? hu (by show (s.n.udpClose x).1.udp? name = _; rw [udpClose_udp?]; simp [hx])
  · subst e
    have hx : name ≠ x := by intro e; simp [NLbl.detaches, e] at hl
    exact NetSt.keeps.of_udp? hu (by show (s.n.udpDestroy x).1.udp? name = _; rw [udpDestroy_udp?]; simp [hx])
  · subst e
    have hx : name ≠ src := by intro e; simp [NLbl.detaches, e] at hl
    simp only [NS.step]
    split
    · rename_i hg
      simp only [Bool.and_eq_true] at hg
      obtain ⟨v, hv⟩ := Option.isSome_iff_exists.mp hg.2
      have hdn : s.n.udp? dst = none := by
        have := hg.1
        simp only [NetSt.fresh, Bool.and_eq_true, Option.isNone_iff_eq_none] at this; exact this.1
      have hx2 : name ≠ dst := by intro e; rw [e, hdn] at hu; simp at hu
      exact NetSt.keeps.of_udp? hu (by show (s.n.udpMove src dst).udp? name = _; rw [udpMove_udp? s.n src dst name v hv]; simp [hx, hx2])
    · exact NetSt.keeps.of_udp? hu rfl

/-- **A forwarder keeps reaching its socket** under every label that does not close, destroy,
    re-open or move that very socket. -/
theorem fwd_kept_step {s : NS} (hr : RegInv s) {f : Nat} {name : String} {u : UdpSock}
    (hu : s.n.udp? name = some u) (hf : s.n.fwdTarget f = some name) (l : NLbl)
    (hl : l.detaches name = false) : (s.step l).n.fwdTarget f = some name := by
  obtain ⟨u', h1, h2, _, _⟩ := NS.step_keeps s l name u hu hl
  have := (hr.deliver_open hf hu).2
  exact ((hr.step l).udp_fwd h1 (by rw [h2, this])).2

/-! ### `send_to`: the decision table -/

/-- the packets a list of effects hands to `forward_packet`, in order -/
def fwdsOf (e : List NEff) : List Pkt :=
  e.filterMap (fun x => match x with | .forward p => some p | _ => none)

theorem fwdsOf_append (a b : List NEff) : fwdsOf (a ++ b) = fwdsOf a ++ fwdsOf b := by
  simp [fwdsOf, List.filterMap_append]

theorem fwdsOf_abortSend (name : String) (u : UdpSock) : fwdsOf (u.abortSend name).2 = [] := by
  unfold UdpSock.abortSend
  cases u.waitSendH <;> simp [fwdsOf]

theorem fwdsOf_pcap (b : Bool) (now : Int) (src dst : Ep) (payload : List UInt8) :
    fwdsOf (if b then [NEff.pcapUdp now src dst payload] else []) = [] := by
  cases b <;> simp [fwdsOf]

/-- the datagram `send_to` builds -/
def sendPkt (src : Ep) (hops : List String) (payload : List UInt8) : Pkt :=
  { id := 0, ty := .payload, len := payload.length, ovh := 28, hops := hops, src := src.toString, payload := payload }

section tail
variable (n : NetSt) (e0 : List NEff) (now : Int) (name : String) (dst : Ep) (payload : List UInt8) (u : UdpSock)
  (hu : n.udp? name = some u)
include hu

theorem udpSendTail_invalid (h0 : payload.length = 0) :
    n.udpSendTail e0 .ok now name dst payload = (n, e0, .invalid, 0) := by
  unfold NetSt.udpSendTail; simp [hu, h0]

theorem udpSendTail_msgSize (h1 : payload.length > 65535) :
    n.udpSendTail e0 .ok now name dst payload = (n, e0, .msgSize, 0) := by
  have h0 : payload.length ≠ 0 := by omega
  unfold NetSt.udpSendTail; simp [hu, h0, h1]

theorem udpSendTail_dfDrop (h0 : payload.length ≠ 0) (h1 : payload.length ≤ 65535)
    (h2 : u.df = true) (h3 : payload.length > n.cfg.pathMtu u.bound.addr dst.addr) :
    n.udpSendTail e0 .ok now name dst payload = (n, e0, .ok, payload.length) := by
  have h1' : ¬ payload.length > 65535 := by omega
  unfold NetSt.udpSendTail; simp [hu, h0, h1', h2, h3]

theorem udpSendTail_paced (h0 : payload.length ≠ 0) (h1 : payload.length ≤ 65535)
    (h2 : ¬ (u.df = true ∧ payload.length > n.cfg.pathMtu u.bound.addr dst.addr))
    (h3 : u.nextSend - now > u.sendQueueTime) :
    n.udpSendTail e0 .ok now name dst payload = (n, e0, .wouldBlock, 0) := by
  have h1' : ¬ payload.length > 65535 := by omega
  have h2' : (u.df && decide (payload.length > n.cfg.pathMtu u.bound.addr dst.addr)) = false := by
    cases hd : u.df <;> simp_all
  unfold NetSt.udpSendTail; simp only [hu]; simp [h0, h1', h2', h3]

theorem udpSendTail_noRoute (h0 : payload.length ≠ 0) (h1 : payload.length ≤ 65535)
    (h2 : ¬ (u.df = true ∧ payload.length > n.cfg.pathMtu u.bound.addr dst.addr))
    (h3 : ¬ u.nextSend - now > u.sendQueueTime) (h4 : n.udpRoute u.bound dst = none) :
    n.udpSendTail e0 .ok now name dst payload = (n, e0, .ok, payload.length) := by
  have h1' : ¬ payload.length > 65535 := by omega
  have h2' : (u.df && decide (payload.length > n.cfg.pathMtu u.bound.addr dst.addr)) = false := by
    cases hd : u.df <;> simp_all
  unfold NetSt.udpSendTail; simp only [hu]; simp [h0, h1', h2', h3, h4]

theorem udpSendTail_sent (h0 : payload.length ≠ 0) (h1 : payload.length ≤ 65535)
    (h2 : ¬ (u.df = true ∧ payload.length > n.cfg.pathMtu u.bound.addr dst.addr))
    (h3 : ¬ u.nextSend - now > u.sendQueueTime) (hops : List String) (h4 : n.udpRoute u.bound dst = some hops) :
    n.udpSendTail e0 .ok now name dst payload =
      (n.setUdp name { u with nextSend := (if now ≤ u.nextSend then u.nextSend else now) + 10 * (payload.length + 28) },
       e0 ++ (if n.cfg.pcap then [NEff.pcapUdp now u.bound dst payload] else []) ++ [.forward (sendPkt u.bound hops payload)],
       .ok, payload.length) := by
  have h1' : ¬ payload.length > 65535 := by omega
  have h2' : (u.df && decide (payload.length > n.cfg.pathMtu u.bound.addr dst.addr)) = false := by
    cases hd : u.df <;> simp_all
  unfold NetSt.udpSendTail; simp only [hu]; simp [h0, h1', h2', h3, h4, sendPkt]

end tail

/-- `send_to` on a bound socket: no implicit bind, straight to the checks -/
theorem udpSendTo_bound (n : NetSt) (now : Int) (name : String) (dst : Ep) (payload : List UInt8) (u0 : UdpSock)
    (h : n.udp? name = some u0) (hb : u0.bound.isDefault = false) :
    n.udpSendTo now name dst payload =
      (n.setUdp name { u0 with waitSendH := none }).udpSendTail (u0.abortSend name).2 .ok now name dst payload := by
  rw [udpSendTo_eq n now name dst payload u0 h]; simp [hb]

/-- `send_to` on an unbound socket: implicit `bind(udp::endpoint())` first -/
theorem udpSendTo_unbound (n : NetSt) (now : Int) (name : String) (dst : Ep) (payload : List UInt8) (u0 : UdpSock)
    (h : n.udp? name = some u0) (hb : u0.bound.isDefault = true) :
    n.udpSendTo now name dst payload =
      ((n.setUdp name { u0 with waitSendH := none }).udpBind name {}).1.udpSendTail (u0.abortSend name).2
        ((n.setUdp name { u0 with waitSendH := none }).udpBind name {}).2 now name dst payload := by
  rw [udpSendTo_eq n now name dst payload u0 h]; simp [hb]

theorem udpSendTail_bindFailed (n : NetSt) (e0 : List NEff) (ecb : Ec) (now : Int) (name : String) (dst : Ep)
    (payload : List UInt8) (h : ecb ≠ .ok) : n.udpSendTail e0 ecb now name dst payload = (n, e0, ecb, 0) := by
  unfold NetSt.udpSendTail; simp [h]

/-- everything `send_to_impl` can return, and what it forwards -/
theorem udpSendTail_total (n : NetSt) (e0 : List NEff) (ecb : Ec) (now : Int) (name : String) (dst : Ep)
    (payload : List UInt8) :
    ((n.udpSendTail e0 ecb now name dst payload).2.1 = e0
      ∧ ((ecb ≠ .ok ∧ (n.udpSendTail e0 ecb now name dst payload).2.2 = (ecb, 0))
         ∨ (n.udpSendTail e0 ecb now name dst payload).2.2 = (.other, 0)
         ∨ (n.udpSendTail e0 ecb now name dst payload).2.2 = (.invalid, 0)
         ∨ (n.udpSendTail e0 ecb now name dst payload).2.2 = (.msgSize, 0)
         ∨ (n.udpSendTail e0 ecb now name dst payload).2.2 = (.wouldBlock, 0)
         ∨ (n.udpSendTail e0 ecb now name dst payload).2.2 = (.ok, payload.length)))
    ∨ (∃ u hops, n.udp? name = some u ∧ ecb = .ok ∧ 0 < payload.length ∧ payload.length ≤ 65535
        ∧ n.udpRoute u.bound dst = some hops
        ∧ (n.udpSendTail e0 ecb now name dst payload).2 =
            (e0 ++ (if n.cfg.pcap then [NEff.pcapUdp now u.bound dst payload] else [])
               ++ [.forward (sendPkt u.bound hops payload)], .ok, payload.length)) := by
  by_cases hecb : ecb = .ok
  · subst hecb
    cases hu : n.udp? name with
    | none => left; unfold NetSt.udpSendTail; simp [hu]
    | some u =>
      by_cases h0 : payload.length = 0
      · left; rw [udpSendTail_invalid n e0 now name dst payload u hu h0]; simp
      · by_cases h1 : payload.length > 65535
        · left; rw [udpSendTail_msgSize n e0 now name dst payload u hu h1]; simp
        · have h1' : payload.length ≤ 65535 := by omega
          by_cases h2 : u.df = true ∧ payload.length > n.cfg.pathMtu u.bound.addr dst.addr
          · left; rw [udpSendTail_dfDrop n e0 now name dst payload u hu h0 h1' h2.1 h2.2]; simp
          · by_cases h3 : u.nextSend - now > u.sendQueueTime
            · left; rw [udpSendTail_paced n e0 now name dst payload u hu h0 h1' h2 h3]; simp
            · cases h4 : n.udpRoute u.bound dst with
              | none => left; rw [udpSendTail_noRoute n e0 now name dst payload u hu h0 h1' h2 h3 h4]; simp
              | some hops =>
                right
                refine ⟨u, hops, rfl, rfl, by omega, h1', h4, ?_⟩
                rw [udpSendTail_sent n e0 now name dst payload u hu h0 h1' h2 h3 hops h4]
  · left; rw [udpSendTail_bindFailed n e0 ecb now name dst payload hecb]
    exact ⟨rfl, Or.inl ⟨hecb, rfl⟩⟩

/-- `find_udp_socket` finds no route exactly when nothing is bound at the destination, or the
    registered socket object does not exist (excluded by the registry invariant) -/
theorem udpRoute_none_iff (n : NetSt) (src dst : Ep) :
    n.udpRoute src dst = none ↔
      n.reg.udp.lookup dst = none ∨ ∃ tgt, n.reg.udp.lookup dst = some tgt ∧ n.udp? tgt = none := by
  unfold NetSt.udpRoute
  cases hl : n.reg.udp.lookup dst with
  | none => simp
  | some tgt =>
    cases ht : n.udp? tgt with
    | none => simp [ht]
    | some t => simp [ht]

theorem udpRoute_some (n : NetSt) (src dst : Ep) (tgt : String) (t : UdpSock)
    (hl : n.reg.udp.lookup dst = some tgt) (ht : n.udp? tgt = some t) :
    n.udpRoute src dst = some (n.cfg.outRoute src.addr ++ n.cfg.netRoute src.addr dst.addr
      ++ n.incomingRoute t.bound t.fwd) := by
  unfold NetSt.udpRoute; simp [hl, ht]

/-- under the registry invariant the registered socket exists, is open, bound to exactly that
    endpoint, and holds an attached forwarder -/
theorem RegInv.reg_target {s : NS} (h : RegInv s) {dst : Ep} {tgt : String}
    (hl : s.n.reg.udp.lookup dst = some tgt) :
    ∃ t f, s.n.udp? tgt = some t ∧ t.isOpen = true ∧ t.bound = dst ∧ t.fwd = some f
      ∧ s.n.fwdTarget f = some tgt := by
  have hm := mem_of_lookup_some _ _ _ hl
  have hs := (h.udp.sound dst tgt hm).1
  unfold NetSt.ub at hs
  cases ht : s.n.udp? tgt with
  | none => simp [ht] at hs
  | some t =>
    simp [ht] at hs
    have ho := h.fwd.openU tgt t.isOpen t.fwd (by simp [NetSt.uf, ht])
    rw [hs.1] at ho
    cases hf : t.fwd with
    | none => simp [hf] at ho
    | some f => exact ⟨t, f, rfl, hs.1, hs.2, hf, (h.udp_fwd ht hf).2⟩

/-! ### close, destroy, re-open: the forwarder is detached -/

theorem close_like_detaches {s : NS} (hr : RegInv s) {name : String} {u : UdpSock} {f : Nat}
    (hu : s.n.udp? name = some u) (hf : u.fwd = some f) (l : NLbl)
    (hl : l = .uClose name ∨ l = .uDestroy name ∨ ∃ v4, l = .uOpen name v4) :
    (s.step l).n.fwdTarget f = none ∧ f < (s.step l).n.fwds.length := by
  have hlt := hr.udp_fwd_lt hu hf
  rcases hl with e | e | ⟨v4, e⟩ <;> subst e
  · show (s.n.udpClose name).1.fwdTarget f = none ∧ f < (s.n.udpClose name).1.fwds.length
    rw [udpClose_fwdTarget, udpClose_fwds_length]; simp [hu, hf, hlt]
  · show (s.n.udpDestroy name).1.fwdTarget f = none ∧ f < (s.n.udpDestroy name).1.fwds.length
    rw [udpDestroy_fwdTarget, udpDestroy_fwds_length, udpClose_fwdTarget]; simp [hu, hf, hlt]
  · show (s.n.udpOpen name v4).1.fwdTarget f = none ∧ f < (s.n.udpOpen name v4).1.fwds.length
    rw [udpOpen_fwdTarget, udpOpen_fwds_length, udpClose_fwdTarget]
    have : f ≠ s.n.fwds.length := by omega
    simp [hu, hf, this]; omega

/-! ### the ghost logs only ever grow (move construction carries them to the new object) -/

theorem logs_append_only (s : NS) (l : NLbl) (hm : ∀ a b, l ≠ .uMove a b) (x : String) :
    (∃ e, (s.step l).acc x = s.acc x ++ e) ∧ (∃ e, (s.step l).out x = s.out x ++ e) := by
  have triv : (∃ e, s.acc x = s.acc x ++ e) ∧ (∃ e, s.out x = s.out x ++ e) := ⟨⟨[], by simp⟩, ⟨[], by simp⟩⟩
  have outS : ∀ (name : String) (ex : List (Pkt × Bool)), ∃ e, setS s.out name (s.out name ++ ex) x = s.out x ++ e := by
    intro name ex
    by_cases hx : x = name
    · subst hx; exact ⟨ex, by simp⟩
    · exact ⟨[], by simp [setS_other _ _ _ _ hx]⟩
  by_cases ht : l.isTcp = true
  · obtain ⟨a, b⟩ := NS.step_tcp_ghost s l ht; rw [a, b]; exact triv
  cases l <;> try (exact absurd rfl ht)
  case uMove a b => exact absurd rfl (hm a b)
  case deliver f p =>
    cases hf : s.n.fwdTarget f with
    | none => rw [NS.step_deliver_none s f p hf]; exact triv
    | some name =>
      cases hu : s.n.udp? name with
      | none => rw [NS.step_deliver_tcp s f p name hf hu]; exact triv
      | some u =>
        obtain ⟨_, e2, e3, _⟩ := NS.step_deliver_some s f p name u hf hu
        rw [e2, e3]
        refine ⟨?_, outS name _⟩
        split
        · exact triv.1
        · by_cases hx : x = name
          · subst hx; exact ⟨[p], by simp⟩
          · exact ⟨[], by simp [setS_other _ _ _ _ hx]⟩
  all_goals (simp only [NS.step, NS.readStep, NS.discardStep])
  all_goals first
    | exact triv
    | exact ⟨triv.1, outS _ _⟩
    | (split <;> exact triv)

/-! ### error codes of `bind` -/

theorem ioResolve_error_d (ips : List String) (ep : Ep) (e : Ec) (h : ioResolve ips ep = .error e) : e = .notAvail := by
  unfold ioResolve at h
  repeat' split at h
  all_goals simp_all

theorem udpBind_codes (n : NetSt) (name : String) (ep : Ep) :
    (n.udpBind name ep).2 ∈ [Ec.other, .badDesc, .afNoSupport, .invalid, .notAvail, .inUse, .denied, .ok] := by
  unfold NetSt.udpBind
  split
  · simp
  · split
    · simp
    · split
      · simp
      · split
        · simp
        · split
          · rename_i e he
            rw [ioResolve_error_d _ _ _ he]; simp
          · rename_i ep1 _
            rcases simBind_cases n.reg.udp n.reg.nextPort name ep1 with ⟨_, _, e⟩ | ⟨_, _, e⟩ | ⟨q, h0, hp, e⟩ | ⟨_, _, e⟩ | ⟨hge, hl, e⟩ <;>
              rw [e] <;> simp

/-! ### the configuration never changes -/

theorem NS.step_cfg (s : NS) (l : NLbl) : (s.step l).n.cfg = s.n.cfg := by
  rcases l.kinds with ht | hk | ⟨x, v4, e⟩ | ⟨x, e⟩ | ⟨x, e⟩ | ⟨a, b, e⟩
  · by_cases hm : ∀ a b, l ≠ .tMove a b
    · exact (NS.step_tcp_tFrame s l ht hm).cfg
    · have : ∃ a b, l = .tMove a b := by
        apply Classical.byContradiction; intro hc; apply hm; intro a b e; exact hc ⟨a, b, e⟩
      obtain ⟨a, b, e⟩ := this
      subst e
      simp only [NS.step]
      split
      · show (s.n.tcpMove a b).cfg = s.n.cfg
        cases h : s.n.tcp? a with
        | none => rw [tcpMove_none_d _ _ _ h]
        | some t => rw [tcpMove_some_d _ _ _ t h]; rfl
      · rfl
  · cases l <;> simp only [NLbl.keepsFwds] at hk <;> try (exact absurd hk (by decide))
    case uNew name node => simp only [NS.step]; split <;> rfl
    case uBind name ep => exact (udpBind_ctlStep s.n name ep).cfg
    case uSendTo now name dst payload => exact (udpSendTo_ctlStep s.n now name dst payload).cfg
    case uRecv name op => show (s.n.udpAsyncRecv name op).1.cfg = _; rw [udpAsyncRecv_fst]; simp
    case uRecvNb name caps => show (s.n.udpRecvNb name caps).1.cfg = _; rw [udpRecvNb_fst]; simp
    case uWaitRead name hh => show (s.n.udpWaitRead name hh).1.cfg = _; rw [udpWaitRead_fst]; simp
    case uWaitWrite now name hh => show (s.n.udpWaitWrite now name hh).1.cfg = _; rw [udpWaitWrite_fst]; simp
    case uSendWaitFired name ab => exact (udpSendWaitFired_frame_d s.n name ab).2.2.2
    case uCancel name => show (s.n.udpCancel name).1.cfg = _; rw [udpCancel_fst]; simp
    case uSetDf name df => simp only [NS.step]; split <;> rfl
    case deliver f p =>
      cases hf : s.n.fwdTarget f with
      | none => rw [NS.step_deliver_none s f p hf]
      | some name =>
        cases hu : s.n.udp? name with
        | none => rw [NS.step_deliver_tcp s f p name hf hu]
        | some u => rw [(NS.step_deliver_some s f p name u hf hu).1]; rfl
  · subst e; exact udpOpen_cfg _ _ _
  · subst e; exact udpClose_cfg _ _
  · subst e; exact udpDestroy_cfg _ _
  · subst e
    simp only [NS.step]
    split
    · show (s.n.udpMove a b).cfg = s.n.cfg
      cases h : s.n.udp? a with
      | none => rw [udpMove_none_d _ _ _ h]
      | some u => rw [udpMove_some_d _ _ _ u h]; rfl
    · rfl

theorem NS.run_cfg (s : NS) (ls : List NLbl) : (s.run ls).n.cfg = s.n.cfg := by
  induction ls generalizing s with
  | nil => rfl
  | cons l ls ih => exact (ih (s.step l)).trans (NS.step_cfg s l)

/-! ### evaluating `bind` in concrete examples (`String.contains` does not reduce in the kernel) -/

/-- the state after a successful `bind` to a free, explicit, non-privileged port -/
def NetSt.bindOk (n : NetSt) (name : String) (ep : Ep) : NetSt :=
  match n.udp? name with
  | some u => ({ n with reg := { n.reg with udp := n.reg.udp ++ [(ep, name)] } }).setUdp name { u with bound := ep }
  | none => n

theorem udpBind_explicit (n : NetSt) (name : String) (ep : Ep) (u : UdpSock)
    (hu : n.udp? name = some u) (ho : u.isOpen = true) (hv : ep.isV4 = u.isV4) (hd : u.bound.isDefault = true)
    (hr : ioResolve (n.cfg.ipsOf u.node) ep = .ok ep) (hp : 1024 ≤ ep.port) (hfree : n.reg.udp.lookup ep = none) :
    n.udpBind name ep = (n.bindOk name ep, .ok) := by
  rw [udpBind_pre n name ep u ep ⟨hu, ho, hv, hd, hr⟩]
  rcases simBind_cases n.reg.udp n.reg.nextPort name ep with ⟨_, h, _⟩ | ⟨h, _, _⟩ | ⟨q, h, _, _⟩ | ⟨_, h, _⟩ | ⟨_, _, e⟩
  · omega
  · omega
  · omega
  · rw [hfree] at h; simp at h
  · rw [e]; simp only [NetSt.bindOk, hu]

theorem Ep.isV4_eq (e : Ep) : e.isV4 = !decide (':' ∈ e.addr.toList) := by
  unfold Ep.isV4; simp

end SimVerif
