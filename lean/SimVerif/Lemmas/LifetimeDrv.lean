/-
  C12 helper lemmas about the world driver (SimVerif/Drv/Kernel.lean): packets and drop
  notifications addressed to a detached forwarder vanish; the catch-all of `run()`.
-/
import SimVerif.Drv.Kernel
import SimVerif.Lemmas.LifetimeKernel
import SimVerif.Lemmas.HandlersTcpFns
import SimVerif.Lemmas.HandlersUdp
import SimVerif.Lemmas.NetTables

namespace SimVerif

open Drv

/-- an effect the catch-all's socket cancels produce: a posted completion or a timer cancel -/
def NEff.isPostOrCancel : NEff → Bool
  | .post _ => true
  | .cancelTimer _ _ => true
  | _ => false

/-- what holds of the kernel state while the catch-all cancels the sockets, relative to the kernel
    state `k0` right after all timers were cancelled: still no timer queued or pending, timers
    untouched, and the ready queue only grew by plain (non-timer) posted completions -/
structure CatchInv (k0 : K) (s : KSt) : Prop where
  dead    : KDead s.k
  timers  : s.k.timers = k0.timers
  stopped : s.k.stopped = k0.stopped
  ready   : ∃ extra, s.k.ready = k0.ready ++ extra ∧ ∀ t ∈ extra, t.tm = false

namespace HL

/-- `forward_packet` when the next hop is a socket forwarder that is detached (or was never
    attached): the packet vanishes, nothing changes -/
theorem forwardPkt_detached (p : KParams) (f : Nat) (pk : Pkt) (s : KSt) (name : String) (rest : List String)
    (hh : pk.hops = name :: rest) (h1 : name.startsWith "@" = true)
    (h2 : ((name.drop 1).toString.toNat?).bind s.net.fwdTarget = none) :
    forwardPkt p (f + 1) pk s = s := by
  rw [forwardPkt]
  simp only [hh, h1, if_true, h2]

/-- the same for the hop name of forwarder `g` itself: `fwdHop g` starts with "@" and decodes to
    `g` (`Hs.fwdHop_decode`), so no hypothesis about decoding is left -/
theorem forwardPkt_detached_fwdHop (p : KParams) (f : Nat) (pk : Pkt) (s : KSt) (g : Nat) (rest : List String)
    (hh : pk.hops = fwdHop g :: rest) (h2 : s.net.fwdTarget g = none) :
    forwardPkt p (f + 1) pk s = s :=
  forwardPkt_detached p f pk s (fwdHop g) rest hh (Hs.fwdHop_startsWith g)
    (by rw [Hs.fwdHop_decode]; exact h2)

/-- a queue's tail-drop notification for a segment whose sender's forwarder is detached vanishes -/
theorem applyQEffs_dropCb_detached (p : KParams) (qi : Nat) (pk : Pkt) (s : KSt) (fid : Nat)
    (h1 : pk.dropFwd = some fid) (h2 : s.net.fwdTarget fid = none) :
    applyQEffs p qi [.dropCb pk] s = s := by
  simp [applyQEffs, h1, h2]

/-- a dropper's notification likewise: only the trace line of the drop itself is emitted -/
theorem dropNotify_detached (s : KSt) (name : String) (pk : Pkt) (fid : Nat)
    (h1 : pk.dropFwd = some fid) (h2 : s.net.fwdTarget fid = none) :
    dropNotify s name pk = s.emit (describePkt "D" name s.k.now pk pk.hasDrop) := by
  unfold dropNotify
  have : (s.emit (describePkt "D" name s.k.now pk pk.hasDrop)).net = s.net := rfl
  simp only [h1, this, h2]
  split <;> rfl

theorem applyNEffs_nil (p : KParams) (f : Nat) (s : KSt) : applyNEffs p (f + 1) [] s = s := by
  rw [applyNEffs]
  intro h; cases h

/-- a posted completion: the kernel gets a plain task, the rest is the driver's bookkeeping -/
theorem applyNEffs_post (p : KParams) (f : Nat) (c : Compl) (rest : List NEff) (s : KSt) :
    ∃ s', applyNEffs p (f + 1) (.post c :: rest) s = applyNEffs p (f + 1) rest s'
      ∧ s'.k = step p s.k (.post c.h) := by
  rw [applyNEffs]
  exact ⟨_, rfl, rfl⟩

theorem applyNEffs_cancelTimer_some (p : KParams) (f : Nat) (o : String) (sl t : Nat) (rest : List NEff) (s : KSt)
    (h : s.itimers.lookup (o, sl) = some t) :
    applyNEffs p (f + 1) (.cancelTimer o sl :: rest) s
      = applyNEffs p (f + 1) rest { s with k := step p s.k (.cancel t) } := by
  rw [applyNEffs]; simp only [h]

theorem applyNEffs_cancelTimer_none (p : KParams) (f : Nat) (o : String) (sl : Nat) (rest : List NEff) (s : KSt)
    (h : s.itimers.lookup (o, sl) = none) :
    applyNEffs p (f + 1) (.cancelTimer o sl :: rest) s = applyNEffs p (f + 1) rest s := by
  rw [applyNEffs]; simp only [h]

theorem applyNEffs_zero (p : KParams) (effs : List NEff) (s : KSt) :
    applyNEffs p 0 effs s = { s with bad := true } := by
  rw [applyNEffs]

theorem CatchInv_applyNEffs (p : KParams) (k0 : K) (f : Nat) (effs : List NEff) (s : KSt)
    (hs : ∀ e ∈ effs, e.isPostOrCancel = true) (hI : CatchInv k0 s) : CatchInv k0 (applyNEffs p f effs s) := by
  cases f with
  | zero => rw [applyNEffs_zero]; exact ⟨hI.dead, hI.timers, hI.stopped, hI.ready⟩
  | succ f =>
    induction effs generalizing s with
    | nil => rw [applyNEffs_nil]; exact hI
    | cons e rest ih =>
      have hrest : ∀ e ∈ rest, e.isPostOrCancel = true := fun e he => hs e (List.mem_cons_of_mem _ he)
      have he := hs e List.mem_cons_self
      cases e with
      | post c =>
        obtain ⟨s', he', hk'⟩ := applyNEffs_post p f c rest s
        rw [he']
        apply ih _ hrest
        obtain ⟨extra, hx, ht⟩ := hI.ready
        have hk2 : s'.k = postTask s.k c.h := hk'
        refine ⟨by rw [hk2]; exact KDead_post s.k c.h hI.dead, by rw [hk2]; exact hI.timers,
          by rw [hk2]; exact hI.stopped, extra ++ [{ h := c.h, ec := .ok, st := s.k.now }], ?_, ?_⟩
        · rw [hk2]
          unfold postTask; dsimp only; rw [hx, List.append_assoc]
        · intro t htm
          rw [List.mem_append] at htm
          rcases htm with htm | htm
          · exact ht t htm
          · simp only [List.mem_singleton] at htm; subst htm; rfl
      | cancelTimer o sl =>
        cases hl : s.itimers.lookup (o, sl) with
        | none => rw [applyNEffs_cancelTimer_none _ _ _ _ _ _ hl]; exact ih _ hrest hI
        | some t =>
          rw [applyNEffs_cancelTimer_some _ _ _ _ _ _ _ hl]
          apply ih _ hrest
          have : step p s.k (.cancel t) = s.k := KDead_cancel s.k t hI.dead
          exact ⟨by rw [this]; exact hI.dead, by rw [this]; exact hI.timers, by rw [this]; exact hI.stopped,
            by rw [this]; exact hI.ready⟩
      | _ => simp [NEff.isPostOrCancel] at he

theorem simple_tcp_cancel (t : TcpSock) : ∀ e ∈ t.cancel.2, e.isPostOrCancel = true := by
  rw [tcp_cancel_eq]
  intro e he
  simp only [tcpAbortRecvEffs, tcpAbortSendEffs, tcpAbortConnEffs, List.mem_append] at he
  rcases he with (he | he) | he
  · rcases he with he | he
    · split at he <;> simp at he; subst he; rfl
    · split at he <;> simp at he; subst he; rfl
  · split at he <;> simp at he; subst he; rfl
  · split at he <;> simp at he; subst he; rfl

theorem simple_udp_cancel (name : String) (u : UdpSock) : ∀ e ∈ (u.cancel name).2, e.isPostOrCancel = true := by
  rw [udp_cancel_eq]
  intro e he
  simp only [udpAbortRecvEffs, udpAbortSendEffs, List.mem_append, List.mem_singleton] at he
  rcases he with (he | he | he) | he
  · rcases he with he | he
    · split at he <;> simp at he; subst he; rfl
    · split at he <;> simp at he; subst he; rfl
  · split at he <;> simp at he; subst he; rfl
  · subst he; rfl
  · subst he; rfl

/-- the first loop of the catch-all is `cancelAllL` on the kernel state -/
theorem catch_timers_fold (p : KParams) (l : List (Int × Nat)) (s : KSt) :
    l.foldl (fun (s : KSt) (x : Int × Nat) => { s with k := step p s.k (.cancel x.2) }) s
      = { s with k := cancelAllL l s.k } := by
  induction l generalizing s with
  | nil => rfl
  | cons a rest ih => rw [List.foldl_cons, ih]; rfl

theorem CatchInv_fold_tcp (p : KParams) (k0 : K) (l : List (Ep × String)) (s : KSt) (hI : CatchInv k0 s) :
    CatchInv k0 (l.foldl (fun (s : KSt) (x : Ep × String) =>
      match s.net.tcp? x.2 with
      | some t => let r := t.cancel; applyNEffs p netFuel r.2 { s with net := s.net.setTcp x.2 r.1 }
      | none => s) s) := by
  induction l generalizing s with
  | nil => exact hI
  | cons a rest ih =>
    rw [List.foldl_cons]
    apply ih
    split
    · exact CatchInv_applyNEffs p k0 netFuel _ _ (simple_tcp_cancel _) ⟨hI.dead, hI.timers, hI.stopped, hI.ready⟩
    · exact hI

theorem CatchInv_fold_udp (p : KParams) (k0 : K) (l : List (Ep × String)) (s : KSt) (hI : CatchInv k0 s) :
    CatchInv k0 (l.foldl (fun (s : KSt) (x : Ep × String) =>
      match s.net.udp? x.2 with
      | some u => let r := u.cancel x.2; applyNEffs p netFuel r.2 { s with net := s.net.setUdp x.2 r.1 }
      | none => s) s) := by
  induction l generalizing s with
  | nil => exact hI
  | cons a rest ih =>
    rw [List.foldl_cons]
    apply ih
    split
    · exact CatchInv_applyNEffs p k0 netFuel _ _ (simple_udp_cancel _ _) ⟨hI.dead, hI.timers, hI.stopped, hI.ready⟩
    · exact hI

/-- **the catch-all of `run()`**, given the kernel invariant at the moment the exception arrives -/
theorem runCatch_spec (p : KParams) (s : KSt) (hk : KInv s.k) :
    (runCatch p s).k.tq = []
    ∧ (runCatch p s).k.stopped = true
    ∧ (∀ i, ((runCatch p s).k.timers i).expired = true ∧ ((runCatch p s).k.timers i).handler = none)
    ∧ (∃ extra, (runCatch p s).k.ready = s.k.ready ++ s.k.tq.filterMap (abortCompletion s.k) ++ extra
        ∧ ∀ t ∈ extra, t.tm = false)
    ∧ (runCatch p s).thrown = false ∧ (runCatch p s).threw = true := by
  unfold runCatch
  dsimp only
  rw [catch_timers_fold]
  obtain ⟨_, _, c3, _, _, _, _⟩ := cancelAllL_spec s.k.tq s.k hk rfl
  obtain ⟨d1, d2⟩ := cancelAllL_dead s.k hk
  have h0 : CatchInv (cancelAllL s.k.tq s.k) { s with k := cancelAllL s.k.tq s.k } :=
    ⟨d1, rfl, rfl, [], by simp, by simp⟩
  have h1 := CatchInv_fold_tcp p _ (sortEps ({ s with k := cancelAllL s.k.tq s.k } : KSt).net.reg.tcp) _ h0
  have h2 := CatchInv_fold_udp p _ (sortEps
    ((sortEps ({ s with k := cancelAllL s.k.tq s.k } : KSt).net.reg.tcp).foldl (fun (s : KSt) (x : Ep × String) =>
      match s.net.tcp? x.2 with
      | some t => let r := t.cancel; applyNEffs p netFuel r.2 { s with net := s.net.setTcp x.2 r.1 }
      | none => s) { s with k := cancelAllL s.k.tq s.k }).net.reg.udp) _ h1
  refine ⟨h2.dead.tq, rfl, fun i => ⟨h2.dead.exp i, ?_⟩, ?_, rfl, rfl⟩
  · exact (congrArg (fun f => (f i).handler) h2.timers).trans (d2 i)
  · obtain ⟨extra, hx, ht⟩ := h2.ready
    exact ⟨extra, hx.trans (by rw [c3]), ht⟩

end HL

end SimVerif
