/-
  SimVerif.Lemmas.HttpServerSafe — no undefined behaviour: the handlers never overflow, the
  parser never reads outside the receive buffer, so neither the reference nor (through
  `run_eq_spec`) the mechanism ever reaches `End.ub`.
-/
import SimVerif.HttpServerSys
import SimVerif.Lemmas.HttpServerBasic
import SimVerif.Props.C15

namespace SimVerif.HttpServer

open SimVerif.Http

theorem stoll_inI64 (s : Bytes) (v : Int) (h : stoll s = some v) : inI64 v = true := by
  unfold stoll at h
  dsimp only at h
  split at h <;> dsimp only at h <;> split at h <;> (try (simp at h; done)) <;> split at h <;>
    simp at h <;> (obtain ⟨h1, h2⟩ := h; rw [← h2]; exact h1)

theorem contentHandler_no_ub (size : Int) (hdrs : HMap) : contentHandler size hdrs ≠ .error .ub := by
  unfold contentHandler
  split
  · split <;> simp
  · dsimp only
    split
    · simp
    · rename_i start hs
      split
      · simp
      · rename_i e he
        split
        · simp
        · rename_i hc
          have h1 := stoll_inI64 _ _ hs
          have h2 := stoll_inI64 _ _ he
          have : inI64 (e + 1 - start) = true := by
            simp [inI64] at h1 h2 ⊢
            omega
          rw [this]
          simp only [Bool.not_true, Bool.false_eq_true, ↓reduceIte]
          split <;> simp

theorem handler_no_ub (h : Handler) (hdrs : HMap) : h.run hdrs ≠ .error .ub := by
  cases h with
  | content size => exact contentHandler_no_ub size hdrs
  | redirect t => simp [Handler.run]
  | fixed b => simp [Handler.run]

theorem answer_no_ub (cfg : Srv) (req : Request) : answer cfg req ≠ .ub := by
  unfold answer
  split
  · split <;> simp
  · rename_i h _
    have := handler_no_ub h req.headers
    split <;> simp_all

theorem reqStep_no_ub (cfg : Srv) (b : Bytes) : reqStep cfg b ≠ .ub := by
  unfold reqStep
  split
  · simp
  · rename_i n hn
    have hb := firstBlank_bounds b n hn
    have := C15_in_bounds b n hb.2
    split
    · contradiction
    · simp
    · rename_i req _
      have := answer_no_ub cfg req
      split <;> simp_all

theorem specStream_no_ub (cfg : Srv) (b : Bytes) : (specStream cfg b).fin ≠ .ub := by
  induction hn : b.length using Nat.strongRecOn generalizing b with
  | _ n ih =>
    rw [specStream_eq]
    have := reqStep_no_ub cfg b
    cases hs : reqStep cfg b with
    | more => simp
    | fail => simp
    | stall r => simp
    | ub => exact absurd hs this
    | respond r c rest =>
      simp only
      have hl := reqStep_respond_lt cfg b r c rest hs
      split
      · simp only [Out.cons]
        exact ih rest.length (by omega) rest rfl
      · simp
end SimVerif.HttpServer
