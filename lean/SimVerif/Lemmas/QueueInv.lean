/-
  SimVerif.Lemmas.QueueInv — projection lemmas for the queue mechanism (SimVerif/Queue.lean),
  the open system `QS` (SimVerif/QueueSys.lean), and the invariant `QInv` that holds after
  every well-timed history (`QS.okRun`) when the re-entry guard is present.
-/
import SimVerif.QueueSys

namespace SimVerif

/-! ### `omax` -/

theorem omax_ge (a : Option Int) (b : Int) : b ≤ omax a b := by
  unfold omax; split
  · omega
  · split <;> omega

theorem omax_some_ge (x b : Int) : x ≤ omax (some x) b := by
  unfold omax; dsimp only; split <;> omega

theorem omax_of_le (a : Option Int) (b : Int) (h : ∀ d, a = some d → d ≤ b) : omax a b = b := by
  unfold omax; split
  · rfl
  · rename_i x; have := h x rfl; simp [this]

theorem omax_some_of_ge (x b : Int) (h : b ≤ x) : omax (some x) b = x := by
  unfold omax; dsimp only; split <;> omega

/-! ### list helpers -/

theorem length_filter_split {α : Type} (p : α → Bool) (l : List α) :
    l.length = (l.filter (fun a => !p a)).length + (l.filter p).length := by
  induction l with
  | nil => rfl
  | cons a l ih =>
    cases hp : p a <;> simp [hp] <;> omega

/-- `prev` fields are linked to the departure of the entry before. -/
def Linked : Option Int → List Fwd → Prop
  | _, [] => True
  | o, f :: l => f.prev = o ∧ Linked (some f.dep) l

theorem Linked_append (o : Option Int) (l : List Fwd) (f : Fwd) (hl : Linked o l)
    (hf : f.prev = (l.getLast?.map (fun x => some x.dep)).getD o) : Linked o (l ++ [f]) := by
  induction l generalizing o with
  | nil => simpa [Linked] using hf
  | cons a l ih =>
    refine ⟨hl.1, ih _ hl.2 ?_⟩
    rw [hf]
    cases l with
    | nil => simp
    | cons b l =>
      rw [List.getLast?_cons_cons, List.getLast?_cons]; rfl

theorem Linked_none_append (l : List Fwd) (f : Fwd) (hl : Linked none l)
    (hf : f.prev = l.getLast?.map Fwd.dep) : Linked none (l ++ [f]) := by
  apply Linked_append _ _ _ hl
  rw [hf]; cases l.getLast? <;> rfl

theorem Linked_take (o : Option Int) (l : List Fwd) (hl : Linked o l) :
    l.map Fwd.prev = (o :: l.map (fun f => some f.dep)).take l.length := by
  induction l generalizing o with
  | nil => rfl
  | cons a l ih =>
    simp only [List.map_cons, List.length_cons, List.take_succ_cons]
    rw [hl.1, ih _ hl.2]

theorem Linked_adjacent (o : Option Int) (A B : List Fwd) (f₁ f₂ : Fwd)
    (hl : Linked o (A ++ f₁ :: f₂ :: B)) : f₂.prev = some f₁.dep := by
  induction A generalizing o with
  | nil => exact hl.2.1
  | cons a A ih => exact ih _ hl.2

/-! ### `applyEff`: touches only `timer`, `posted`, `dropLog` -/

theorem applyEff_frame (s : QS) (l : List QEff) :
    (s.applyEff l).q = s.q ∧ (s.applyEff l).now = s.now ∧ (s.applyEff l).arrLog = s.arrLog
    ∧ (s.applyEff l).fwdLog = s.fwdLog := by
  induction l generalizing s with
  | nil => simp [QS.applyEff]
  | cons e l ih =>
    cases e with
    | arm e cb =>
      unfold QS.applyEff; dsimp only
      split <;> simp [ih]
    | post cb => unfold QS.applyEff; simp [ih]
    | dropCb p => unfold QS.applyEff; simp [ih]

@[simp] theorem applyEff_q (s : QS) (l : List QEff) : (s.applyEff l).q = s.q :=
  (applyEff_frame s l).1
@[simp] theorem applyEff_now (s : QS) (l : List QEff) : (s.applyEff l).now = s.now :=
  (applyEff_frame s l).2.1
@[simp] theorem applyEff_arrLog (s : QS) (l : List QEff) : (s.applyEff l).arrLog = s.arrLog :=
  (applyEff_frame s l).2.2.1
@[simp] theorem applyEff_fwdLog (s : QS) (l : List QEff) : (s.applyEff l).fwdLog = s.fwdLog :=
  (applyEff_frame s l).2.2.2

theorem applyEff_prevDep (s : QS) (l : List QEff) : (s.applyEff l).prevDep = s.prevDep := by
  simp [QS.prevDep]

theorem applyEff_dropLog_nodrop (s : QS) (l : List QEff) (h : ∀ x, QEff.dropCb x ∉ l) :
    (s.applyEff l).dropLog = s.dropLog := by
  induction l generalizing s with
  | nil => simp [QS.applyEff]
  | cons e l ih =>
    have hl : ∀ x, QEff.dropCb x ∉ l := fun x hx => h x (List.mem_cons_of_mem _ hx)
    cases e with
    | arm e cb =>
      unfold QS.applyEff; dsimp only
      split <;> simp [ih _ hl]
    | post cb => unfold QS.applyEff; simp [ih _ hl]
    | dropCb p => exact absurd List.mem_cons_self (h p)

/-- the effect lists the mechanism functions actually produce have at most one element -/
theorem applyEff_nil (s : QS) : s.applyEff [] = s := rfl

theorem applyEff_drop1 (s : QS) (p : Pkt) :
    s.applyEff [.dropCb p] = { s with dropLog := s.dropLog ++ [(s.now, p)] } := rfl

theorem applyEff_post1 (s : QS) (cb : Cb) :
    s.applyEff [.post cb] = { s with posted := s.posted ++ [cb] } := rfl

theorem applyEff_arm1 (s : QS) (e : Int) (cb : Cb) (h : s.timer = none) :
    s.applyEff [.arm e cb] = { s with timer := some (e, cb) } := by
  simp [QS.applyEff, h]

/-! ### `beginSend` -/

theorem beginSend_items (c : QCfg) (now : Int) (q : Q) : (q.beginSend c now).1.items = q.items := by
  unfold Q.beginSend; split
  · rfl
  · dsimp only; split
    · rfl
    · split <;> rfl

theorem beginSend_held (c : QCfg) (now : Int) (q : Q) : (q.beginSend c now).1.held = q.held := by
  unfold Q.beginSend; split
  · rfl
  · dsimp only; split
    · rfl
    · split <;> rfl

theorem beginSend_forwarding (c : QCfg) (now : Int) (q : Q) :
    (q.beginSend c now).1.forwarding = q.forwarding := by
  unfold Q.beginSend; split
  · rfl
  · dsimp only; split
    · rfl
    · split <;> rfl

theorem beginSend_nodrop (c : QCfg) (now : Int) (q : Q) (x : Pkt) :
    QEff.dropCb x ∉ (q.beginSend c now).2 := by
  unfold Q.beginSend; split
  · simp
  · dsimp only; split
    · simp
    · split <;> simp

/-- the three outcomes of `begin_send_next_packet` on a non-empty queue -/
theorem beginSend_cases (c : QCfg) (now : Int) (q : Q) (ts : Int) (p : Pkt) (rest : List (Int × Pkt))
    (h : q.items = (ts, p) :: rest) :
    (now < ts ∧ q.beginSend c now = (q, [.arm ts .begin]))
    ∨ (ts ≤ now ∧ c.bw = 0 ∧ q.beginSend c now = ({ q with lastForward := now }, [.post .sent]))
    ∨ (ts ≤ now ∧ c.bw ≠ 0 ∧ q.beginSend c now
          = ({ q with lastForward := now + c.ser p.size }, [.arm (now + c.ser p.size) .sent])) := by
  unfold Q.beginSend; rw [h]; dsimp only
  by_cases h1 : now < ts
  · left; simp [h1]
  · right
    by_cases h2 : c.bw = 0
    · left; simp [h1, h2]; omega
    · right; simp [h1, h2]; omega

/-! ### `incoming` -/

/-- the tail-drop test of `incoming_packet`, verbatim -/
def Q.drops (c : QCfg) (q : Q) (p : Pkt) : Bool :=
  p.okToDrop && decide (0 < c.cap) && decide ((c.cap : Int) < q.held + p.size)

/-- the tail-drop condition as a proposition: droppable type, bounded queue, would overflow -/
def TailDrop (c : QCfg) (held : Int) (p : Pkt) : Prop :=
  p.okToDrop = true ∧ 0 < c.cap ∧ (c.cap : Int) < held + p.size

instance (c : QCfg) (held : Int) (p : Pkt) : Decidable (TailDrop c held p) :=
  inferInstanceAs (Decidable (p.okToDrop = true ∧ 0 < c.cap ∧ (c.cap : Int) < held + p.size))

theorem drops_eq_decide (c : QCfg) (q : Q) (p : Pkt) : q.drops c p = decide (TailDrop c q.held p) := by
  rw [Bool.eq_iff_iff, decide_eq_true_iff]; simp [Q.drops, TailDrop, and_assoc]

theorem drops_iff (c : QCfg) (q : Q) (p : Pkt) :
    q.drops c p = true ↔ (p.okToDrop = true ∧ 0 < c.cap ∧ (c.cap : Int) < q.held + p.size) := by
  simp [Q.drops, and_assoc]

theorem incoming_of_drops (c : QCfg) (now : Int) (q : Q) (p : Pkt) (h : q.drops c p = true) :
    q.incoming c now p = (q, if p.hasDrop then [.dropCb p] else []) := by
  unfold Q.drops at h; unfold Q.incoming; rw [if_pos h]

theorem incoming_of_not_drops (c : QCfg) (now : Int) (q : Q) (p : Pkt) (h : q.drops c p = false) :
    q.incoming c now p =
      if 1 < (q.items ++ [(now + c.lat, p)]).length || (c.reentryGuard && q.forwarding) then
        ({ q with items := q.items ++ [(now + c.lat, p)], held := q.held + p.size }, [])
      else
        ({ q with items := q.items ++ [(now + c.lat, p)], held := q.held + p.size } : Q).beginSend c now := by
  unfold Q.drops at h; unfold Q.incoming; rw [if_neg (by simp [h])]

theorem incoming_items (c : QCfg) (now : Int) (q : Q) (p : Pkt) :
    (q.incoming c now p).1.items = if q.drops c p then q.items else q.items ++ [(now + c.lat, p)] := by
  cases h : q.drops c p
  · rw [incoming_of_not_drops _ _ _ _ h]; split <;> simp [beginSend_items]
  · rw [incoming_of_drops _ _ _ _ h]; simp

theorem incoming_held (c : QCfg) (now : Int) (q : Q) (p : Pkt) :
    (q.incoming c now p).1.held = if q.drops c p then q.held else q.held + p.size := by
  cases h : q.drops c p
  · rw [incoming_of_not_drops _ _ _ _ h]; split <;> simp [beginSend_held]
  · rw [incoming_of_drops _ _ _ _ h]; simp

theorem incoming_forwarding (c : QCfg) (now : Int) (q : Q) (p : Pkt) :
    (q.incoming c now p).1.forwarding = q.forwarding := by
  cases h : q.drops c p
  · rw [incoming_of_not_drops _ _ _ _ h]; split <;> simp [beginSend_forwarding]
  · rw [incoming_of_drops _ _ _ _ h]

theorem incoming_nodrop (c : QCfg) (now : Int) (q : Q) (p : Pkt) (h : q.drops c p = false) (x : Pkt) :
    QEff.dropCb x ∉ (q.incoming c now p).2 := by
  rw [incoming_of_not_drops _ _ _ _ h]; split
  · simp
  · exact beginSend_nodrop _ _ _ _

/-! ### `doArrive` -/

@[simp] theorem doArrive_q (c : QCfg) (s : QS) (p : Pkt) :
    (s.doArrive c p).q = (s.q.incoming c s.now p).1 := by simp [QS.doArrive]
@[simp] theorem doArrive_now (c : QCfg) (s : QS) (p : Pkt) : (s.doArrive c p).now = s.now := by
  simp [QS.doArrive]
@[simp] theorem doArrive_fwdLog (c : QCfg) (s : QS) (p : Pkt) :
    (s.doArrive c p).fwdLog = s.fwdLog := by simp [QS.doArrive]
@[simp] theorem doArrive_prevDep (c : QCfg) (s : QS) (p : Pkt) :
    (s.doArrive c p).prevDep = s.prevDep := by simp [QS.prevDep]
theorem doArrive_arrLog (c : QCfg) (s : QS) (p : Pkt) :
    (s.doArrive c p).arrLog = s.arrLog ++ [(s.now, p, s.q.drops c p)] := by
  simp [QS.doArrive, Q.drops]

theorem doArrive_items (c : QCfg) (s : QS) (p : Pkt) :
    (s.doArrive c p).q.items
      = if s.q.drops c p then s.q.items else s.q.items ++ [(s.now + c.lat, p)] := by
  rw [doArrive_q, incoming_items]

theorem doArrive_held (c : QCfg) (s : QS) (p : Pkt) :
    (s.doArrive c p).q.held = if s.q.drops c p then s.q.held else s.q.held + p.size := by
  rw [doArrive_q, incoming_held]

theorem doArrive_forwarding (c : QCfg) (s : QS) (p : Pkt) :
    (s.doArrive c p).q.forwarding = s.q.forwarding := by
  rw [doArrive_q, incoming_forwarding]

theorem doArrive_dropLog (c : QCfg) (s : QS) (p : Pkt) :
    (s.doArrive c p).dropLog
      = if s.q.drops c p && p.hasDrop then s.dropLog ++ [(s.now, p)] else s.dropLog := by
  unfold QS.doArrive; dsimp only
  cases h : s.q.drops c p
  · rw [applyEff_dropLog_nodrop _ _ (incoming_nodrop _ _ _ _ h)]; simp
  · rw [incoming_of_drops _ _ _ _ h]
    cases hd : p.hasDrop <;> simp [QS.applyEff]

/-- `begin_send_next_packet` called at the state's own clock, effects applied -/
def QS.kick (c : QCfg) (s : QS) : QS :=
  ({ s with q := (s.q.beginSend c s.now).1 }).applyEff (s.q.beginSend c s.now).2

/-- the arrival does not start the sender: dropped, or a backlog exists, or guarded -/
theorem doArrive_quiet (c : QCfg) (s : QS) (p : Pkt)
    (h : s.q.drops c p = true ∨ s.q.items ≠ [] ∨ (c.reentryGuard = true ∧ s.q.forwarding = true)) :
    (s.doArrive c p).timer = s.timer ∧ (s.doArrive c p).posted = s.posted := by
  unfold QS.doArrive; dsimp only
  cases hd : s.q.drops c p
  · rw [incoming_of_not_drops _ _ _ _ hd]
    have : (1 < (s.q.items ++ [(s.now + c.lat, p)]).length || (c.reentryGuard && s.q.forwarding)) = true := by
      rcases h with h | h | h
      · simp [hd] at h
      · cases hi : s.q.items with
        | nil => exact absurd hi h
        | cons a l => simp
      · simp [h.1, h.2]
    rw [if_pos this]; simp [QS.applyEff]
  · rw [incoming_of_drops _ _ _ _ hd]
    cases p.hasDrop <;> simp [QS.applyEff]

/-- the arrival finds the queue empty and idle: it starts the sender -/
theorem doArrive_kick (c : QCfg) (s : QS) (p : Pkt) (hd : s.q.drops c p = false)
    (hi : s.q.items = []) (hf : s.q.forwarding = false) :
    s.doArrive c p = QS.kick c { s with
      q := { s.q with items := [(s.now + c.lat, p)], held := s.q.held + p.size },
      arrLog := s.arrLog ++ [(s.now, p, false)] } := by
  unfold QS.doArrive QS.kick; dsimp only
  rw [incoming_of_not_drops _ _ _ _ hd]
  have hd' : (p.okToDrop && decide (0 < c.cap) && decide ((c.cap : Int) < s.q.held + p.size)) = false := hd
  simp [hi, hf, hd']

/-! ### `kick` -/

@[simp] theorem kick_items (c : QCfg) (s : QS) : (QS.kick c s).q.items = s.q.items := by
  simp [QS.kick, beginSend_items]
@[simp] theorem kick_held (c : QCfg) (s : QS) : (QS.kick c s).q.held = s.q.held := by
  simp [QS.kick, beginSend_held]
@[simp] theorem kick_forwarding (c : QCfg) (s : QS) : (QS.kick c s).q.forwarding = s.q.forwarding := by
  simp [QS.kick, beginSend_forwarding]
@[simp] theorem kick_now (c : QCfg) (s : QS) : (QS.kick c s).now = s.now := by simp [QS.kick]
@[simp] theorem kick_arrLog (c : QCfg) (s : QS) : (QS.kick c s).arrLog = s.arrLog := by simp [QS.kick]
@[simp] theorem kick_fwdLog (c : QCfg) (s : QS) : (QS.kick c s).fwdLog = s.fwdLog := by simp [QS.kick]
@[simp] theorem kick_dropLog (c : QCfg) (s : QS) : (QS.kick c s).dropLog = s.dropLog := by
  unfold QS.kick; rw [applyEff_dropLog_nodrop _ _ (beginSend_nodrop _ _ _)]

theorem kick_cases (c : QCfg) (s : QS) (ts : Int) (p : Pkt) (rest : List (Int × Pkt))
    (hti : s.timer = none) (h : s.q.items = (ts, p) :: rest) :
    (s.now < ts ∧ QS.kick c s = { s with timer := some (ts, .begin) })
    ∨ (ts ≤ s.now ∧ c.bw = 0 ∧ QS.kick c s =
          { s with q := { s.q with lastForward := s.now }, posted := s.posted ++ [.sent] })
    ∨ (ts ≤ s.now ∧ c.bw ≠ 0 ∧ QS.kick c s =
          { s with q := { s.q with lastForward := s.now + c.ser p.size },
                   timer := some (s.now + c.ser p.size, .sent) }) := by
  rcases beginSend_cases c s.now s.q ts p rest h with ⟨h1, he⟩ | ⟨h1, h2, he⟩ | ⟨h1, h2, he⟩
  · left; refine ⟨h1, ?_⟩; unfold QS.kick; rw [he]; simp [QS.applyEff, hti]
  · right; left; refine ⟨h1, h2, ?_⟩; unfold QS.kick; rw [he]; simp [QS.applyEff]
  · right; right; refine ⟨h1, h2, ?_⟩; unfold QS.kick; rw [he]; simp [QS.applyEff, hti]

/-! ### the invariant -/

/-- log/accounting part: independent of the callback state -/
structure QData (c : QCfg) (s : QS) : Prop where
  stamps : ((s.arrLog.filter (fun a => !a.2.2)).map (fun a => (a.1 + c.lat, a.2.1)))
            = s.fwdLog.map (fun f => (f.ts, f.pkt)) ++ s.q.items
  held : s.q.held = (s.q.items.map (fun x => (x.2.size : Int))).sum
  drops : s.dropLog = (s.arrLog.filter (fun a => a.2.2 && a.2.1.hasDrop)).map (fun a => (a.1, a.2.1))
  dep_le : ∀ f ∈ s.fwdLog, f.dep ≤ s.now
  arr_le : ∀ a ∈ s.arrLog, a.1 ≤ s.now
  recur : ∀ f ∈ s.fwdLog, f.dep = omax f.prev f.ts + c.serEff f.pkt.size
  linked : Linked none s.fwdLog
  mono : (s.fwdLog.map Fwd.dep).Pairwise (· ≤ ·)

/-- callback part, between labels -/
structure QCtl (c : QCfg) (s : QS) : Prop where
  nf : s.q.forwarding = false
  idle : s.timer = none → s.posted = [] → s.q.items = []
  excl : s.timer ≠ none → s.posted = []
  tsent : ∀ e, s.timer = some (e, .sent) →
    c.bw ≠ 0 ∧ ∃ ts p rest, s.q.items = (ts, p) :: rest ∧ e = omax s.prevDep ts + c.ser p.size
  tbegin : ∀ e, s.timer = some (e, .begin) →
    (∃ p rest, s.q.items = (e, p) :: rest) ∧ ∀ d, s.prevDep = some d → d ≤ e
  post : s.posted ≠ [] →
    s.posted = [.sent] ∧ c.bw = 0 ∧ ∃ ts p rest, s.q.items = (ts, p) :: rest ∧ s.now = omax s.prevDep ts

structure QInv (c : QCfg) (s : QS) : Prop extends QData c s, QCtl c s

theorem QData.transfer {c : QCfg} {s s' : QS} (h : QData c s)
    (hi : s'.q.items = s.q.items) (hh : s'.q.held = s.q.held) (ha : s'.arrLog = s.arrLog)
    (hf : s'.fwdLog = s.fwdLog) (hd : s'.dropLog = s.dropLog) (hn : s.now ≤ s'.now) : QData c s' := by
  constructor
  · rw [ha, hf, hi]; exact h.stamps
  · rw [hh, hi]; exact h.held
  · rw [hd, ha]; exact h.drops
  · rw [hf]; intro f hf; have := h.dep_le f hf; omega
  · rw [ha]; intro a ha; have := h.arr_le a ha; omega
  · rw [hf]; exact h.recur
  · rw [hf]; exact h.linked
  · rw [hf]; exact h.mono

theorem QData.init (c : QCfg) : QData c {} := by
  constructor <;> simp [Linked]

theorem QCtl.init (c : QCfg) : QCtl c {} := by
  constructor <;> simp

theorem QInv.init (c : QCfg) : QInv c {} := ⟨QData.init c, QCtl.init c⟩

theorem QData.kick {c : QCfg} {s : QS} (h : QData c s) : QData c (QS.kick c s) :=
  h.transfer (by simp) (by simp) (by simp) (by simp) (by simp) (by simp)

theorem QData.doArrive {c : QCfg} {s : QS} (h : QData c s) (p : Pkt) : QData c (s.doArrive c p) := by
  constructor
  · rw [doArrive_arrLog, doArrive_fwdLog, doArrive_items]
    cases hd : s.q.drops c p <;> simp [List.filter_append, h.stamps]
  · rw [doArrive_held, doArrive_items]
    cases hd : s.q.drops c p <;> simp [h.held]
  · rw [doArrive_arrLog, doArrive_dropLog]
    cases hd : s.q.drops c p <;> cases hh : p.hasDrop <;> simp [List.filter_append, h.drops, hh]
  · simpa using h.dep_le
  · rw [doArrive_arrLog, doArrive_now]; intro a ha
    rcases List.mem_append.mp ha with ha | ha
    · exact h.arr_le a ha
    · simp at ha; subst ha; simp
  · simpa using h.recur
  · simpa using h.linked
  · simpa using h.mono

theorem kick_ctl (c : QCfg) (s : QS) (ts : Int) (p : Pkt) (rest : List (Int × Pkt))
    (hti : s.timer = none) (hpo : s.posted = []) (hf : s.q.forwarding = false)
    (hi : s.q.items = (ts, p) :: rest)
    (hd : ∀ d, s.prevDep = some d → d ≤ s.now)
    (hts : ts ≤ s.now → s.now = omax s.prevDep ts) : QCtl c (QS.kick c s) := by
  rcases kick_cases c s ts p rest hti hi with ⟨h1, he⟩ | ⟨h1, h2, he⟩ | ⟨h1, h2, he⟩
  · rw [he]
    constructor
    · exact hf
    · intro h; simp at h
    · intro _; exact hpo
    · intro e h; simp at h
    · intro e h
      simp at h; subst h
      exact ⟨⟨p, rest, hi⟩, fun d hd' => by have := hd d hd'; omega⟩
    · intro h; exact absurd hpo h
  · rw [he]
    constructor
    · exact hf
    · intro _ h; simp at h
    · intro h; exact absurd hti h
    · intro e h; simp [hti] at h
    · intro e h; simp [hti] at h
    · intro _
      refine ⟨by simp [hpo], h2, ts, p, rest, hi, hts h1⟩
  · rw [he]
    constructor
    · exact hf
    · intro h; simp at h
    · intro _; exact hpo
    · intro e h
      simp at h; subst h
      refine ⟨h2, ts, p, rest, hi, ?_⟩
      show s.now + c.ser p.size = omax s.prevDep ts + c.ser p.size
      rw [← hts h1]
    · intro e h; simp at h
    · intro h; exact absurd hpo h

/-! ### preservation by the labels -/

theorem QData.advance {c : QCfg} {s : QS} (h : QData c s) (t : Int) (ht : s.now ≤ t) :
    QData c { s with now := t } :=
  h.transfer rfl rfl rfl rfl rfl ht

theorem QCtl.advance {c : QCfg} {s : QS} (h : QCtl c s) (t : Int) (ht : s.posted ≠ [] → t = s.now) :
    QCtl c { s with now := t } :=
  ⟨h.nf, h.idle, h.excl, h.tsent, h.tbegin, fun hp => by
    have h1 := h.post hp
    have h2 : t = s.now := ht hp
    subst h2; exact h1⟩

/-- a non-empty queue outside a forward has its callback pending; an empty one has none -/
theorem QCtl.empty_idle {c : QCfg} {s : QS} (h : QCtl c s) (hi : s.q.items = []) :
    s.timer = none ∧ s.posted = [] := by
  have hpo : s.posted = [] := by
    cases hp : s.posted with
    | nil => rfl
    | cons a l =>
      obtain ⟨_, _, ts, p, rest, h3, _⟩ := h.post (by simp [hp])
      simp [hi] at h3
  refine ⟨?_, hpo⟩
  cases hti : s.timer with
  | none => rfl
  | some x =>
    obtain ⟨e, cb⟩ := x
    cases cb with
    | begin => obtain ⟨⟨p, rest, h3⟩, _⟩ := h.tbegin e hti; simp [hi] at h3
    | sent => obtain ⟨_, ts, p, rest, h3, _⟩ := h.tsent e hti; simp [hi] at h3

theorem QInv.doArrive {c : QCfg} (hc : c.WF) {s : QS} (h : QInv c s) (p : Pkt) :
    QInv c (s.doArrive c p) := by
  refine ⟨h.toQData.doArrive p, ?_⟩
  have hC := h.toQCtl
  by_cases hq : s.q.drops c p = true ∨ s.q.items ≠ []
  · -- the callback state is untouched, the head (if any) too
    obtain ⟨h1, h2⟩ := doArrive_quiet c s p (by rcases hq with hq | hq; exact .inl hq; exact .inr (.inl hq))
    have hitems : ∀ ts q rest, s.q.items = (ts, q) :: rest →
        ∃ rest', (s.doArrive c p).q.items = (ts, q) :: rest' := by
      intro ts q rest hi
      rw [doArrive_items]; split
      · exact ⟨rest, hi⟩
      · exact ⟨rest ++ [(s.now + c.lat, p)], by simp [hi]⟩
    constructor
    · rw [doArrive_forwarding]; exact hC.nf
    · rw [h1, h2]; intro a b
      have hi := hC.idle a b
      rw [doArrive_items]
      rcases hq with hq | hq
      · simp [hq, hi]
      · exact absurd hi hq
    · rw [h1, h2]; exact hC.excl
    · rw [h1, doArrive_prevDep]; intro e he
      obtain ⟨a, ts, q, rest, hi, hb⟩ := hC.tsent e he
      obtain ⟨rest', hi'⟩ := hitems ts q rest hi
      exact ⟨a, ts, q, rest', hi', hb⟩
    · rw [h1, doArrive_prevDep]; intro e he
      obtain ⟨⟨q, rest, hi⟩, hb⟩ := hC.tbegin e he
      obtain ⟨rest', hi'⟩ := hitems e q rest hi
      exact ⟨⟨q, rest', hi'⟩, hb⟩
    · rw [h2, doArrive_prevDep, doArrive_now]; intro hp
      obtain ⟨a, b, ts, q, rest, hi, hb⟩ := hC.post hp
      obtain ⟨rest', hi'⟩ := hitems ts q rest hi
      exact ⟨a, b, ts, q, rest', hi', hb⟩
  · -- accepted into an empty, idle queue: the sender is started
    have hd : s.q.drops c p = false := by
      cases hx : s.q.drops c p with
      | false => rfl
      | true => exact absurd (.inl hx) hq
    have hi : s.q.items = [] := by
      cases hx : s.q.items with
      | nil => rfl
      | cons a l => exact absurd (.inr (by simp [hx])) hq
    obtain ⟨hti, hpo⟩ := hC.empty_idle hi
    rw [doArrive_kick c s p hd hi hC.nf]
    have hlat := hc.lat_nonneg
    have hprev : ∀ d, s.prevDep = some d → d ≤ s.now := by
      intro d hd'
      unfold QS.prevDep at hd'
      cases hl : s.fwdLog.getLast? with
      | none => simp [hl] at hd'
      | some f =>
        simp [hl] at hd'; subst hd'
        exact h.dep_le f (List.mem_of_getLast? hl)
    refine kick_ctl c { s with
      q := { s.q with items := [(s.now + c.lat, p)], held := s.q.held + p.size },
      arrLog := s.arrLog ++ [(s.now, p, false)] } (s.now + c.lat) p [] hti hpo hC.nf rfl hprev ?_
    intro hle
    have hle' : s.now + c.lat ≤ s.now := hle
    have : s.now + c.lat = s.now := by omega
    show s.now = omax s.prevDep (s.now + c.lat)
    rw [this, omax_of_le _ _ hprev]

theorem QInv.step_arrive {c : QCfg} (hc : c.WF) {s : QS} (h : QInv c s) (t : Int) (p : Pkt)
    (hok : s.ok (.arrive t p)) : QInv c (s.step c (.arrive t p)) := by
  obtain ⟨h1, _, h3⟩ := hok
  have h' : QInv c { s with now := t } := ⟨h.toQData.advance t h1, h.toQCtl.advance t h3⟩
  exact h'.doArrive hc p

theorem step_cbBegin_eq (c : QCfg) (s : QS) (t : Int) :
    s.step c (.cbBegin t) = QS.kick c { s with now := t, timer := none } := rfl

theorem QInv.step_cbBegin {c : QCfg} {s : QS} (h : QInv c s) (t : Int)
    (hok : s.ok (.cbBegin t)) : QInv c (s.step c (.cbBegin t)) := by
  obtain ⟨hti, hpo, hle⟩ := hok
  obtain ⟨⟨p, rest, hi⟩, hb⟩ := h.tbegin t hti
  rw [step_cbBegin_eq]
  refine ⟨(h.toQData.transfer (s' := { s with now := t, timer := none }) rfl rfl rfl rfl rfl hle).kick, ?_⟩
  exact kick_ctl c { s with now := t, timer := none } t p rest rfl hpo h.nf hi hb
    (fun _ => (omax_of_le _ _ hb).symm)

/-- callback state while a packet is being forwarded (re-entrant arrivals happen here) -/
structure QMid (s : QS) : Prop where
  fw : s.q.forwarding = true
  ti : s.timer = none
  po : s.posted = []

theorem QMid.doArrive {c : QCfg} (hc : c.WF) {s : QS} (h : QMid s) (p : Pkt) :
    QMid (s.doArrive c p) := by
  obtain ⟨h1, h2⟩ := doArrive_quiet c s p (.inr (.inr ⟨hc.guard, h.fw⟩))
  exact ⟨by rw [doArrive_forwarding]; exact h.fw, by rw [h1]; exact h.ti, by rw [h2]; exact h.po⟩

theorem fold_doArrive {c : QCfg} (hc : c.WF) (re : List Pkt) (s : QS) (hd : QData c s) (hm : QMid s) :
    QData c (re.foldl (fun s p => s.doArrive c p) s) ∧ QMid (re.foldl (fun s p => s.doArrive c p) s)
    ∧ (re.foldl (fun s p => s.doArrive c p) s).now = s.now
    ∧ (re.foldl (fun s p => s.doArrive c p) s).fwdLog = s.fwdLog := by
  induction re generalizing s with
  | nil => exact ⟨hd, hm, rfl, rfl⟩
  | cons p re ih =>
    obtain ⟨a, b, c', d⟩ := ih (s.doArrive c p) (hd.doArrive p) (hm.doArrive hc p)
    refine ⟨a, b, ?_, ?_⟩
    · rw [List.foldl_cons, c', doArrive_now]
    · rw [List.foldl_cons, d, doArrive_fwdLog]

/-- state right after `next_packet_sent` popped the head `(ts, p)` at instant `t` -/
def QS.afterPop (s : QS) (t ts : Int) (p : Pkt) (rest : List (Int × Pkt)) : QS :=
  { s with now := t, timer := none, posted := [],
           q := { s.q with items := rest, held := s.q.held - p.size, forwarding := true },
           fwdLog := s.fwdLog ++ [({ dep := t, ts := ts, pkt := p, prev := s.prevDep } : Fwd)] }

/-- tail of `next_packet_sent`: clear the mark, continue with the backlog -/
def QS.finish (c : QCfg) (t : Int) (s : QS) : QS :=
  ({ s with q := (s.q.sentFinish c t).1 }).applyEff (s.q.sentFinish c t).2

theorem step_cbSent_eq (c : QCfg) (s : QS) (t : Int) (re : List Pkt) (ts : Int) (p : Pkt)
    (rest : List (Int × Pkt)) (hi : s.q.items = (ts, p) :: rest)
    (hk : (s.timer = some (t, .sent) ∧ s.posted = []) ∨ (s.timer = none ∧ s.posted = [.sent])) :
    s.step c (.cbSent t re)
      = QS.finish c t (re.foldl (fun s p => s.doArrive c p) (s.afterPop t ts p rest)) := by
  rcases hk with ⟨hti, hpo⟩ | ⟨hti, hpo⟩
  · unfold QS.step; simp [hti, hpo, Q.sentPop, hi, QS.afterPop, QS.finish, QS.prevDep]
  · unfold QS.step; simp [hti, hpo, Q.sentPop, hi, QS.afterPop, QS.finish, QS.prevDep]

theorem afterPop_spec {c : QCfg} {s : QS} (h : QInv c s) (t ts : Int) (p : Pkt)
    (rest : List (Int × Pkt)) (hi : s.q.items = (ts, p) :: rest) (hle : s.now ≤ t)
    (ht : t = omax s.prevDep ts + c.serEff p.size) :
    QData c (s.afterPop t ts p rest) ∧ QMid (s.afterPop t ts p rest) := by
  refine ⟨?_, ⟨rfl, rfl, rfl⟩⟩
  constructor
  · simp [QS.afterPop, h.stamps, hi]
  · have := h.held; rw [hi] at this
    simp [QS.afterPop] at this ⊢; omega
  · exact h.drops
  · intro f hf
    rcases List.mem_append.mp hf with hf | hf
    · have := h.dep_le f hf; show f.dep ≤ t; omega
    · simp at hf; subst hf; show t ≤ t; omega
  · intro a ha; have := h.arr_le a ha; show a.1 ≤ t; omega
  · intro f hf
    rcases List.mem_append.mp hf with hf | hf
    · exact h.recur f hf
    · simp at hf; subst hf; exact ht
  · exact Linked_none_append _ _ h.linked rfl
  · show ((s.fwdLog ++ _).map Fwd.dep).Pairwise (· ≤ ·)
    rw [List.map_append, List.pairwise_append]
    refine ⟨h.mono, by simp, ?_⟩
    intro a ha b hb
    simp at hb; subst hb
    obtain ⟨f, hf, rfl⟩ := List.mem_map.mp ha
    have := h.dep_le f hf; omega

theorem finish_inv {c : QCfg} {s : QS} (t : Int) (hd : QData c s) (hm : QMid s) (hn : s.now = t)
    (hp : s.prevDep = some t) : QInv c (QS.finish c t s) := by
  subst hn
  cases hi : s.q.items with
  | nil =>
    have e : QS.finish c s.now s = { s with q := { s.q with forwarding := false } } := by
      simp [QS.finish, Q.sentFinish, hi, QS.applyEff]
    rw [e]
    refine ⟨hd.transfer rfl rfl rfl rfl rfl (Int.le_refl _), ?_⟩
    constructor
    · rfl
    · intro _ _; exact hi
    · intro h; exact absurd hm.ti h
    · intro e h; have := hm.ti; simp_all
    · intro e h; have := hm.ti; simp_all
    · intro h; exact absurd hm.po h
  | cons x rest =>
    obtain ⟨ts, p⟩ := x
    have e : QS.finish c s.now s = QS.kick c { s with q := { s.q with forwarding := false } } := by
      simp [QS.finish, Q.sentFinish, hi, QS.kick]
    rw [e]
    refine ⟨(hd.transfer (s' := { s with q := { s.q with forwarding := false } })
              rfl rfl rfl rfl rfl (Int.le_refl _)).kick, ?_⟩
    refine kick_ctl c { s with q := { s.q with forwarding := false } } ts p rest hm.ti hm.po rfl hi ?_ ?_
    · intro d hd'
      have : s.prevDep = some d := hd'
      rw [hp] at this; simp at this; show d ≤ s.now; omega
    · intro hle
      show s.now = omax s.prevDep ts
      rw [hp]; exact (omax_some_of_ge _ _ hle).symm

theorem QInv.cbSent_shape {c : QCfg} {s : QS} (h : QInv c s) (t : Int) (re : List Pkt)
    (hok : s.ok (.cbSent t re)) :
    ∃ ts p rest, s.q.items = (ts, p) :: rest ∧ s.now ≤ t
      ∧ t = omax s.prevDep ts + c.serEff p.size
      ∧ ((s.timer = some (t, .sent) ∧ s.posted = []) ∨ (s.timer = none ∧ s.posted = [.sent])) := by
  rcases hok with ⟨hti, hpo, hle⟩ | ⟨hhd, ht⟩
  · obtain ⟨hbw, ts, p, rest, hi, he⟩ := h.tsent t hti
    refine ⟨ts, p, rest, hi, hle, ?_, .inl ⟨hti, hpo⟩⟩
    simp [QCfg.serEff, hbw, he]
  · have hne : s.posted ≠ [] := by intro h0; simp [h0] at hhd
    obtain ⟨hpo, hbw, ts, p, rest, hi, he⟩ := h.post hne
    have hti : s.timer = none := by
      cases hx : s.timer with
      | none => rfl
      | some x => exact absurd (h.excl (by simp [hx])) hne
    refine ⟨ts, p, rest, hi, by omega, ?_, .inr ⟨hti, hpo⟩⟩
    simp [QCfg.serEff, hbw, ht, he]

theorem QInv.step_cbSent {c : QCfg} (hc : c.WF) {s : QS} (h : QInv c s) (t : Int) (re : List Pkt)
    (hok : s.ok (.cbSent t re)) : QInv c (s.step c (.cbSent t re)) := by
  obtain ⟨ts, p, rest, hi, hle, ht, hk⟩ := h.cbSent_shape t re hok
  rw [step_cbSent_eq c s t re ts p rest hi hk]
  obtain ⟨hd, hm⟩ := afterPop_spec h t ts p rest hi hle ht
  obtain ⟨a, b, c', d⟩ := fold_doArrive hc re _ hd hm
  refine finish_inv t a b (by rw [c']; rfl) ?_
  unfold QS.prevDep; rw [d]; simp [QS.afterPop]

theorem QInv.step {c : QCfg} (hc : c.WF) {s : QS} (h : QInv c s) (l : QLbl) (hok : s.ok l) :
    QInv c (s.step c l) := by
  cases l with
  | arrive t p => exact h.step_arrive hc t p hok
  | cbBegin t => exact h.step_cbBegin t hok
  | cbSent t re => exact h.step_cbSent hc t re hok

theorem QInv.run {c : QCfg} (hc : c.WF) (ls : List QLbl) (s : QS) (h : QInv c s)
    (hok : QS.okRun c s ls) : QInv c (QS.run c s ls) := by
  induction ls generalizing s with
  | nil => exact h
  | cons l ls ih => exact ih _ (h.step hc l hok.1) hok.2

theorem QInv.run_init {c : QCfg} (hc : c.WF) (ls : List QLbl) (hok : QS.okRun c {} ls) :
    QInv c (QS.run c {} ls) := QInv.run hc ls {} (QInv.init c) hok

/-! ### runs: prefixes -/

theorem run_append (c : QCfg) (s : QS) (l₁ l₂ : List QLbl) :
    QS.run c s (l₁ ++ l₂) = QS.run c (QS.run c s l₁) l₂ := by
  simp [QS.run, List.foldl_append]

theorem okRun_append (c : QCfg) (s : QS) (l₁ l₂ : List QLbl) :
    QS.okRun c s (l₁ ++ l₂) ↔ QS.okRun c s l₁ ∧ QS.okRun c (QS.run c s l₁) l₂ := by
  induction l₁ generalizing s with
  | nil => simp [QS.okRun, QS.run]
  | cons l l₁ ih =>
    simp only [List.cons_append, QS.okRun, ih, and_assoc]
    rfl

theorem fold_arrLog_prefix (c : QCfg) (re : List Pkt) (s : QS) :
    ∃ r, (re.foldl (fun s p => s.doArrive c p) s).arrLog = s.arrLog ++ r := by
  induction re generalizing s with
  | nil => exact ⟨[], by simp⟩
  | cons p re ih =>
    obtain ⟨r, hr⟩ := ih (s.doArrive c p)
    exact ⟨(s.now, p, s.q.drops c p) :: r, by rw [List.foldl_cons, hr, doArrive_arrLog]; simp⟩

theorem finish_arrLog (c : QCfg) (t : Int) (s : QS) : (QS.finish c t s).arrLog = s.arrLog := by
  simp [QS.finish]

theorem step_arrLog_prefix {c : QCfg} {s : QS} (h : QInv c s) (l : QLbl) (hok : s.ok l) :
    ∃ r, (s.step c l).arrLog = s.arrLog ++ r := by
  cases l with
  | arrive t p => exact ⟨_, doArrive_arrLog c { s with now := t } p⟩
  | cbBegin t => exact ⟨[], by rw [step_cbBegin_eq]; simp⟩
  | cbSent t re =>
    obtain ⟨ts, p, rest, hi, _, _, hk⟩ := h.cbSent_shape t re hok
    rw [step_cbSent_eq c s t re ts p rest hi hk, finish_arrLog]
    exact fold_arrLog_prefix c re _

theorem run_arrLog_prefix {c : QCfg} (hc : c.WF) (ls : List QLbl) (s : QS) (h : QInv c s)
    (hok : QS.okRun c s ls) : ∃ r, (QS.run c s ls).arrLog = s.arrLog ++ r := by
  induction ls generalizing s with
  | nil => exact ⟨[], by simp [QS.run]⟩
  | cons l ls ih =>
    obtain ⟨r₁, h₁⟩ := step_arrLog_prefix h l hok.1
    obtain ⟨r₂, h₂⟩ := ih (s.step c l) (h.step hc l hok.1) hok.2
    exact ⟨r₁ ++ r₂, by show (QS.run c (s.step c l) ls).arrLog = _; rw [h₂, h₁, List.append_assoc]⟩

/-! ### every call of `begin_send_next_packet` / `next_packet_sent` finds a packet -/

/-- what the unreachable arm would do -/
theorem beginSend_nil (c : QCfg) (now : Int) (q : Q) (h : q.items = []) :
    q.beginSend c now = (q, []) := by
  unfold Q.beginSend; rw [h]

/-- call site 1, `incoming_packet`: the packet was just appended -/
theorem incoming_beginSend_nonempty (q : Q) (x : Int × Pkt) : q.items ++ [x] ≠ [] := by simp

/-- call site 2, `next_packet_sent`: guarded by `m_queue.size()` -/
theorem sentFinish_nil (c : QCfg) (now : Int) (q : Q) (h : q.items = []) :
    q.sentFinish c now = ({ q with forwarding := false }, []) := by
  simp [Q.sentFinish, h]

/-- call site 3, the timer callback; and the `front()` of `next_packet_sent` itself -/
theorem callback_nonempty {c : QCfg} {s : QS} (h : QInv c s) (l : QLbl) (hok : s.ok l)
    (hl : (∃ t, l = .cbBegin t) ∨ (∃ t re, l = .cbSent t re)) : s.q.items ≠ [] := by
  rcases hl with ⟨t, rfl⟩ | ⟨t, re, rfl⟩
  · obtain ⟨⟨p, rest, hi⟩, _⟩ := h.tbegin t hok.1; simp [hi]
  · obtain ⟨ts, p, rest, hi, _⟩ := h.cbSent_shape t re hok; simp [hi]

theorem beginSend_called_nonempty {c : QCfg} (hc : c.WF) (pre post : List QLbl) (l : QLbl)
    (h : QS.okRun c {} (pre ++ l :: post))
    (hl : (∃ t, l = .cbBegin t) ∨ (∃ t re, l = .cbSent t re)) :
    (QS.run c {} pre).q.items ≠ [] := by
  obtain ⟨h1, h2⟩ := (okRun_append c {} pre (l :: post)).mp h
  exact callback_nonempty (QInv.run_init hc pre h1) l h2.1 hl

/-! ### `QS.okRun` is decidable (used by the non-vacuity examples) -/

def QS.timerOkb (s : QS) (t : Int) : Bool :=
  match s.timer with
  | none => true
  | some (e, _) => decide (t ≤ e)

theorem timerOkb_iff (s : QS) (t : Int) :
    (∀ e cb, s.timer = some (e, cb) → t ≤ e) ↔ s.timerOkb t = true := by
  unfold QS.timerOkb
  cases h : s.timer with
  | none => simp
  | some x => obtain ⟨e, cb⟩ := x; simp

instance QS.decOk (s : QS) : (l : QLbl) → Decidable (s.ok l)
  | .arrive t _ =>
    have : Decidable (∀ e cb, s.timer = some (e, cb) → t ≤ e) :=
      decidable_of_iff _ (timerOkb_iff s t).symm
    inferInstanceAs (Decidable (s.now ≤ t ∧ (∀ e cb, s.timer = some (e, cb) → t ≤ e)
      ∧ (s.posted ≠ [] → t = s.now)))
  | .cbBegin t => inferInstanceAs (Decidable (s.timer = some (t, .begin) ∧ s.posted = [] ∧ s.now ≤ t))
  | .cbSent t _ => inferInstanceAs (Decidable (
      (s.timer = some (t, .sent) ∧ s.posted = [] ∧ s.now ≤ t)
      ∨ (s.posted.head? = some .sent ∧ t = s.now)))

instance QS.decOkRun (c : QCfg) : (s : QS) → (ls : List QLbl) → Decidable (QS.okRun c s ls)
  | _, [] => isTrue trivial
  | s, l :: rest =>
    have := QS.decOkRun c (s.step c l) rest
    inferInstanceAs (Decidable (s.ok l ∧ QS.okRun c (s.step c l) rest))

/-! ### concrete histories for the non-vacuity examples of Props/C09, Props/C10 -/
namespace QEx

/-- 1 byte = 1000 ns, latency 10 ns, room for 150 bytes -/
def cfg : QCfg := { bw := 1000000, lat := 10, cap := 150, ser := fun s => (s : Int) * 1000 }

theorem cfg_wf : cfg.WF := ⟨by decide, by intro s; show 0 ≤ (s : Int) * 1000; omega, rfl⟩

def p1 : Pkt := { id := 1, len := 80 }                      -- 100 bytes
def p2 : Pkt := { id := 2, len := 30 }                      -- 50 bytes: fills the queue exactly
def p3 : Pkt := { id := 3, len := 30, hasDrop := true }     -- overflows: dropped, reported
def p4 : Pkt := { id := 4, ty := .ack, len := 30 }          -- ACK: accepted over capacity
def p5 : Pkt := { id := 5, len := 30 }                      -- overflows, no callback: silent drop
def p6 : Pkt := { id := 6, ty := .ack, len := 30 }          -- sent back by the next hop (re-entrant)

/-- p1 waits for its latency, is serialised for 100000 ns; p2 (stamp 15) has to wait for p1's
    departure, so `omax` picks `prev`; p6 re-enters the queue while p1 is being forwarded. -/
def hist : List QLbl :=
  [.arrive 0 p1, .arrive 5 p2, .arrive 6 p3, .arrive 7 p4, .arrive 8 p5, .cbBegin 10,
   .cbSent 100010 [p6], .cbSent 150010 [], .cbSent 200010 []]

/-- infinitely fast link, no latency: the `post` path -/
def cfg0 : QCfg := { bw := 0, lat := 0, cap := 0, ser := fun _ => 0 }

theorem cfg0_wf : cfg0.WF := ⟨by decide, by intro s; exact Int.le_refl 0, rfl⟩

/-- the pinned tree (no `m_forwarding` guard): the invariant fails, see Props/C09 -/
def cfgPinned : QCfg := { cfg with reentryGuard := false }

def histPinned : List QLbl := [.arrive 0 p1, .cbBegin 10, .cbSent 100010 [p6]]

def hist0 : List QLbl := [.arrive 3 p1, .arrive 3 p2, .cbSent 3 [], .cbSent 3 []]

end QEx

end SimVerif
