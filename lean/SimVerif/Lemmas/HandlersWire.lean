/-
  The remaining channel clause of `HTS.ok` ("the packet handed to `.incoming` carries no
  channel or a valid one") DERIVED from a purely environmental assumption: the network only
  hands in — delivers, or reports as dropped — packets whose channel id was carried by a packet
  the sockets put on the wire before.

  Ghost state: `wire`, the channel ids carried by all packets forwarded so far (`wireOf` of the
  effect lists). Invariant `WireInv`: accept queues valid (`ConnsOk`), packets queued for
  retransmission carry valid ids (`ResendOk` — `packet_dropped` queues whatever packet the
  environment reports, and the ACK path sends it again: this is why drop notifications need
  the same assumption as deliveries), and every id on the wire is valid. `WStep n n' effs` is
  the per-function fact; `wire_label` the per-label one; `okRun_of_okRunSent` the result.
-/
import SimVerif.Lemmas.HandlersTcpSys

namespace SimVerif

/-- packets queued for retransmission carry no channel or a valid one -/
structure ResendOk (n : NetSt) : Prop where
  ok : ∀ name t, n.tcp? name = some t → ∀ p ∈ t.resend, ∀ c, p.chan = some c → c < n.chans.length

/-- `effs` and the step from `n` to `n'`: the channel table does not shrink, retransmission
    queues stay valid, every channel id put on the wire is valid afterwards -/
structure WStep (n n' : NetSt) (effs : List NEff) : Prop where
  len    : n.chans.length ≤ n'.chans.length
  resend : ResendOk n → ResendOk n'
  wire   : ResendOk n → ∀ c ∈ wireOf effs, c < n'.chans.length

open HL

@[simp] theorem wireOf_nil : wireOf [] = [] := rfl

theorem wireOf_append (a b : List NEff) : wireOf (a ++ b) = wireOf a ++ wireOf b := by
  induction a with
  | nil => rfl
  | cons e rest ih => cases e <;> simp [wireOf, ih]

theorem wireOf_silent_free {l : List NEff} (h : ∀ e ∈ l, ∀ p, e = .forward p → p.chan = none) : wireOf l = [] := by
  induction l with
  | nil => rfl
  | cons e rest ih =>
    have hr := ih (fun e he => h e (List.mem_cons_of_mem _ he))
    cases e with
    | forward p => simp [wireOf, hr, h (.forward p) List.mem_cons_self p rfl]
    | _ => simp [wireOf, hr]

/-! ### closure properties -/

theorem WStep.refl (n : NetSt) : WStep n n [] := ⟨Nat.le_refl _, id, fun _ c hc => by cases hc⟩

theorem WStep.trans {n n1 n2 : NetSt} {e1 e2 : List NEff} (h1 : WStep n n1 e1) (h2 : WStep n1 n2 e2) :
    WStep n n2 (e1 ++ e2) := by
  refine ⟨Nat.le_trans h1.len h2.len, fun h => h2.resend (h1.resend h), fun h c hc => ?_⟩
  rw [wireOf_append, List.mem_append] at hc
  rcases hc with hc | hc
  · exact Nat.lt_of_lt_of_le (h1.wire h c hc) h2.len
  · exact h2.wire (h1.resend h) c hc

theorem WStep.congr {n n' : NetSt} {e e' : List NEff} (h : WStep n n' e) (he : wireOf e' = wireOf e) :
    WStep n n' e' := ⟨h.len, h.resend, fun hr c hc => h.wire hr c (by rw [← he]; exact hc)⟩

/-- the facts may be established under the hypothesis they are used with -/
theorem WStep.of_cond {n n' : NetSt} {e : List NEff} (hl : n.chans.length ≤ n'.chans.length)
    (h : ResendOk n → WStep n n' e) : WStep n n' e :=
  ⟨hl, fun hr => (h hr).resend hr, fun hr => (h hr).wire hr⟩

/-- a state step that puts nothing on the wire, with the effects' ids accounted for separately -/
theorem WStep.with_effs {n n' : NetSt} (h : WStep n n' []) (effs : List NEff)
    (hw : ResendOk n → ∀ c ∈ wireOf effs, c < n'.chans.length) : WStep n n' effs :=
  ⟨h.len, h.resend, hw⟩

/-- more effects that put no channel id on the wire -/
theorem WStep.add_quiet {n n' : NetSt} {e : List NEff} (h : WStep n n' e) (e0 e1 : List NEff)
    (h0 : wireOf e0 = []) (h1 : wireOf e1 = []) : WStep n n' (e0 ++ e ++ e1) :=
  h.congr (by simp [wireOf_append, h0, h1])

/-- a step that leaves the TCP object table alone and does not shrink the channel table -/
theorem WStep.of_tcps {n n' : NetSt} (ht : n'.tcps = n.tcps) (hl : n.chans.length ≤ n'.chans.length) :
    WStep n n' [] := by
  refine ⟨hl, fun h => ⟨fun b t hb p hp c hc => ?_⟩, fun _ c hc => by cases hc⟩
  have hb' : n.tcp? b = some t := by unfold NetSt.tcp? at hb ⊢; rw [← ht]; exact hb
  exact Nat.lt_of_lt_of_le (h.ok b t hb' p hp c hc) hl

theorem WStep.setChan {n n' : NetSt} {e : List NEff} (h : WStep n n' e) (c : Nat) (ch : Chan) :
    WStep n (n'.setChan c ch) e :=
  (h.trans (WStep.of_tcps (n' := n'.setChan c ch) rfl (by rw [setChan_length]; exact Nat.le_refl _))).congr (by simp)

/-- object `a` is replaced (or created) with a retransmission queue of valid packets -/
theorem WStep.setTcp_gen {n : NetSt} (a : String) (s' : TcpSock) {effs : List NEff}
    (hre : ResendOk n → ∀ p ∈ s'.resend, ∀ c, p.chan = some c → c < n.chans.length)
    (hw : wireOf effs = []) : WStep n (n.setTcp a s') effs := by
  refine ⟨Nat.le_refl _, fun h => ⟨fun b t hb p hp c hc => ?_⟩, fun _ c hc => by rw [hw] at hc; cases hc⟩
  by_cases hba : b = a
  · subst hba
    rw [setTcp_tcp_same] at hb; cases hb
    exact hre h p hp c hc
  · rw [setTcp_tcp_other _ _ _ _ hba] at hb
    exact h.ok b t hb p hp c hc

/-- object `a` is replaced by a value whose retransmission queue is a sub-list of the old one -/
theorem WStep.setTcp {n : NetSt} {a : String} {s s' : TcpSock} {effs : List NEff} (hs : n.tcp? a = some s)
    (hre : ∀ p ∈ s'.resend, p ∈ s.resend) (hw : wireOf effs = []) : WStep n (n.setTcp a s') effs :=
  WStep.setTcp_gen a s' (fun h p hp c hc => h.ok a s hs p (hre p hp) c hc) hw

/-- the same in a state that differs from `n` outside the TCP table -/
theorem WStep.setTcp' {n n1 : NetSt} {a : String} {s s' : TcpSock} {effs : List NEff} (hs : n.tcp? a = some s)
    (ht : n1.tcps = n.tcps) (hl : n.chans.length ≤ n1.chans.length)
    (hre : ∀ p ∈ s'.resend, p ∈ s.resend) (hw : wireOf effs = []) : WStep n (n1.setTcp a s') effs :=
  (WStep.of_tcps ht hl).trans (WStep.setTcp (by unfold NetSt.tcp? at hs ⊢; rw [ht]; exact hs) hre hw)

/-- goal-directed: first a retransmission-neutral update of object `a`, then the rest -/
theorem WStep.setTcp_then {n n2 : NetSt} {a : String} {s s' : TcpSock} {effs : List NEff}
    (hs : n.tcp? a = some s) (hre : ∀ p ∈ s'.resend, p ∈ s.resend) (hrest : WStep (n.setTcp a s') n2 effs) :
    WStep n n2 effs :=
  (WStep.setTcp (effs := []) hs hre rfl).trans hrest

namespace HL

/-! ### socket-level functions keep the retransmission queue -/

theorem readSome_resend (s : TcpSock) (b : Bool) (caps : List Nat) : (s.readSome b caps).1.resend = s.resend := by
  unfold TcpSock.readSome
  (repeat' split) <;> simp

theorem asyncReadImpl_resend (s : TcpSock) (op : ReadOp) : (s.asyncReadImpl op).1.resend = s.resend := by
  have h := readSome_resend s s.chan.isSome op.caps
  unfold TcpSock.asyncReadImpl; dsimp only
  split <;> simp [h]

theorem asyncWaitReadImpl_resend (s : TcpSock) (h : Nat) : (s.asyncWaitReadImpl h).1.resend = s.resend := by
  unfold TcpSock.asyncWaitReadImpl; (repeat' split) <;> simp

theorem maybeWakeupReader_resend (tp : TParams) (s : TcpSock) : (s.maybeWakeupReader tp).1.resend = s.resend := by
  unfold TcpSock.maybeWakeupReader; dsimp only
  (repeat' split) <;> first
    | rfl
    | exact asyncWaitReadImpl_resend _ _
    | exact asyncReadImpl_resend _ _

theorem cancel_resend (s : TcpSock) : s.cancel.1.resend = s.resend := by rw [tcp_cancel_eq]

theorem abortAccept_resend (s : TcpSock) : s.abortAccept.1.resend = s.resend := by
  unfold TcpSock.abortAccept
  splits <;> rfl

theorem wireOf_abortAccept (s : TcpSock) : wireOf s.abortAccept.2 = [] := by
  unfold TcpSock.abortAccept
  splits <;> first | rfl | (rename_i op _; cases op <;> rfl)

theorem wireOf_tcpCancelEffs (s : TcpSock) : wireOf (tcpCancelEffs s) = [] := by
  unfold tcpCancelEffs tcpAbortRecvEffs tcpAbortSendEffs tcpAbortConnEffs
  cases s.recvH <;> cases s.waitRecvH <;> cases s.sendH <;> cases s.connectH <;> rfl

theorem wireOf_cancel (s : TcpSock) : wireOf s.cancel.2 = [] := by
  rw [tcp_cancel_eq]; exact wireOf_tcpCancelEffs s

theorem wireOf_abortRecv (s : TcpSock) : wireOf s.abortRecv.2 = [] := by
  rw [tcp_abortRecv_eq]; unfold tcpAbortRecvEffs
  cases s.recvH <;> cases s.waitRecvH <;> rfl

theorem wireOf_abortSend (s : TcpSock) : wireOf s.abortSend.2 = [] := by
  rw [tcp_abortSend_eq]; unfold tcpAbortSendEffs
  cases s.sendH <;> rfl

theorem wireOf_asyncReadImpl (s : TcpSock) (op : ReadOp) : wireOf (s.asyncReadImpl op).2 = [] := by
  unfold TcpSock.asyncReadImpl; dsimp only; split <;> rfl

theorem wireOf_asyncWaitReadImpl (s : TcpSock) (h : Nat) : wireOf (s.asyncWaitReadImpl h).2 = [] := by
  unfold TcpSock.asyncWaitReadImpl; (repeat' split) <;> rfl

theorem wireOf_maybeWakeupReader (tp : TParams) (s : TcpSock) : wireOf (s.maybeWakeupReader tp).2 = [] := by
  unfold TcpSock.maybeWakeupReader; dsimp only
  (repeat' split) <;> first
    | rfl
    | exact wireOf_asyncWaitReadImpl _ _
    | exact wireOf_asyncReadImpl _ _

/-! ### send_packet and its callers -/

/-- `send_packet(p)` puts `p`'s channel id on the wire -/
theorem ws_tcpSendPacket (n : NetSt) (now : Int) (name : String) (p : Pkt)
    (hp : ResendOk n → ∀ c, p.chan = some c → c < n.chans.length) :
    WStep n (n.tcpSendPacket now name p).1 (n.tcpSendPacket now name p).2 := by
  unfold NetSt.tcpSendPacket
  split
  · exact WStep.refl n
  · rename_i s hs
    split
    · exact WStep.refl n
    · dsimp only
      refine WStep.with_effs (WStep.setTcp' hs ?_ ?_ ?_ ?_) _ (fun hr c hc => ?_)
      · rfl
      · rw [setChan_length]; exact Nat.le_refl _
      · exact fun _ h => h
      · rfl
      rw [wireOf_append, List.mem_append] at hc
      rcases hc with hc | hc
      · exfalso; split at hc <;> simp [wireOf] at hc
      · simp only [wireOf, List.append_nil, Option.mem_toList] at hc
        rw [setTcp_chans, setChan_length]
        exact hp hr c hc

theorem ws_tcpSendSeg (n : NetSt) (now : Int) (name : String) (hops : List String) (seg : List UInt8) :
    WStep n (n.tcpSendSeg now name hops seg).1 (n.tcpSendSeg now name hops seg).2 := by
  unfold NetSt.tcpSendSeg
  split
  · exact WStep.refl n
  · rename_i s hs
    dsimp only
    refine WStep.setTcp_then (s' := { s with nextOut := s.nextOut + 1 }) hs (fun _ h => h)
      (ws_tcpSendPacket _ _ _ _ ?_)
    intro _ c hc; cases hc

theorem ws_tcpResendOne (n : NetSt) (now : Int) (name : String) (r : NetSt × List NEff)
    (hr : n.tcpResendOne now name = some r) : WStep n r.1 r.2 := by
  unfold NetSt.tcpResendOne at hr
  split at hr
  · cases hr
  · rename_i s hs
    split at hr
    · cases hr
    · rename_i p rest hre
      (repeat' split at hr) <;> first
        | (simp only [Option.some.injEq] at hr; subst hr
           refine WStep.of_cond (by rw [chanLen_tcpSendPacket]; exact Nat.le_refl _) (fun hok => ?_)
           have h1 : WStep n (n.setTcp name { s with resend := rest }) [] :=
             WStep.setTcp hs (fun q hq => by rw [hre]; exact List.mem_cons_of_mem _ hq) rfl
           exact h1.trans (ws_tcpSendPacket _ now name p
             (fun _ c hc => hok.ok name s hs p (by rw [hre]; exact List.mem_cons_self) c hc)))
        | cases hr

theorem ws_tcpAckPost (tp : TParams) (n : NetSt) (name : String) (wb : Bool) (acked : Nat) :
    WStep n (n.tcpAckPost tp name wb acked).1 [] := by
  unfold NetSt.tcpAckPost
  split
  · exact WStep.refl n
  · rename_i s hs
    exact WStep.setTcp hs (fun _ h => h) rfl

/-- `packet_dropped(p)` queues the packet the environment reports for retransmission: its
    channel field must be valid -/
theorem ws_tcpPacketDropped (tp : TParams) (n : NetSt) (name : String) (p : Pkt)
    (hp : ∀ c, p.chan = some c → c < n.chans.length) :
    WStep n (n.tcpPacketDropped tp name p) [] := by
  unfold NetSt.tcpPacketDropped
  split
  · exact WStep.refl n
  · rename_i s hs
    split
    · exact WStep.refl n
    · dsimp only
      (repeat' split) <;>
        (refine WStep.setTcp_gen name _ (fun hr q hq c hc => ?_) rfl
         simp only [List.mem_append, List.mem_singleton] at hq
         rcases hq with hq | hq
         · exact hr.ok name s hs q hq c hc
         · subst hq; exact hp c hc)

theorem ws_wmid (tp : TParams) (name : String) (mid : List WMid) (n : NetSt)
    (hp : ∀ p, WMid.drop p ∈ mid → ∀ c, p.chan = some c → c < n.chans.length) :
    WStep n (mid.foldl (WMid.apply tp name) n) [] := by
  induction mid generalizing n with
  | nil => exact WStep.refl n
  | cons w rest ih =>
    simp only [List.foldl_cons]
    have h1 : WStep n (WMid.apply tp name n w) [] := by
      cases w with
      | seg now hops sg =>
        refine (ws_tcpSendSeg n now name hops sg).congr ?_
        unfold NetSt.tcpSendSeg
        split
        · rfl
        · unfold NetSt.tcpSendPacket
          splits <;> simp [wireOf]
      | drop p => exact ws_tcpPacketDropped tp n name p (hp p List.mem_cons_self)
    exact (h1.trans (ih _ (fun p hpm c hc =>
      Nat.lt_of_lt_of_le (hp p (List.mem_cons_of_mem _ hpm) c hc) h1.len))).congr rfl

theorem ws_tcpWriteFinish (n : NetSt) (name : String) (op : WriteOp) (r : Except Ec Nat) :
    WStep n (n.tcpWriteFinish name op r).1 (n.tcpWriteFinish name op r).2 := by
  unfold NetSt.tcpWriteFinish
  split
  · exact WStep.refl n
  · rename_i s hs
    splits <;> exact WStep.setTcp hs (fun _ h => h) rfl

/-! ### close / open / bind / cancel / read / write -/

theorem ws_tcpCloseEof (n : NetSt) (now : Int) (name : String) (s0 : TcpSock) (hs0 : n.tcp? name = some s0) :
    WStep n (tcpCloseEof n now name s0).1 (tcpCloseEof n now name s0).2 := by
  unfold tcpCloseEof
  splits <;> first
    | exact WStep.refl n
    | (refine WStep.setTcp_then (s' := { s0 with nextOut := s0.nextOut + 1 }) hs0 (fun _ h => h)
         (ws_tcpSendPacket _ _ _ _ ?_)
       intro _ c hc; cases hc)

theorem ws_tcpCloseFin (n : NetSt) (name : String) (e0 : List NEff) (he : wireOf e0 = []) :
    WStep n (tcpCloseFin n name e0).1 (tcpCloseFin n name e0).2 := by
  unfold tcpCloseFin
  split
  · exact (WStep.refl n).congr he
  · rename_i s hs
    dsimp only
    refine WStep.setTcp' (s := s) hs ?_ ?_ ?_ ?_
    · splits <;> rfl
    · splits <;> exact Nat.le_refl _
    · rw [cancel_resend]; intro p hp; cases hp
    · rw [wireOf_append, he, wireOf_cancel]; rfl

theorem wireOf_tcpCloseEof (n : NetSt) (now : Int) (name : String) (s0 : TcpSock) :
    wireOf (tcpCloseEof n now name s0).2 = [] := by
  unfold tcpCloseEof
  splits <;> first
    | rfl
    | (unfold NetSt.tcpSendPacket
       splits <;> simp [wireOf])

theorem ws_tcpClose (n : NetSt) (now : Int) (name : String) :
    WStep n (n.tcpClose now name).1 (n.tcpClose now name).2 := by
  rw [tcpClose_eq]
  split
  · exact WStep.refl n
  · rename_i s0 hs0
    have h1 := ws_tcpCloseEof n now name s0 hs0
    have h2 := ws_tcpCloseFin (tcpCloseEof n now name s0).1 name (tcpCloseEof n now name s0).2
      (wireOf_tcpCloseEof n now name s0)
    exact ⟨Nat.le_trans h1.len h2.len, fun hr => h2.resend (h1.resend hr), fun hr => h2.wire (h1.resend hr)⟩

theorem wireOf_tcpClose (n : NetSt) (now : Int) (name : String) : wireOf (n.tcpClose now name).2 = [] := by
  cases h : n.tcp? name with
  | none => rw [tcpClose_eq, h]; rfl
  | some s0 => rw [(tcpClose_some n now name s0 h).1, wireOf_append, wireOf_tcpCloseEof, wireOf_tcpCancelEffs]; rfl

theorem ws_tcpOpen (n : NetSt) (now : Int) (name : String) (v4 : Bool) :
    WStep n (n.tcpOpen now name v4).1 (n.tcpOpen now name v4).2 := by
  have hc := ws_tcpClose n now name
  unfold NetSt.tcpOpen
  dsimp only
  split
  · exact hc
  · rename_i s hs
    refine (hc.trans (WStep.setTcp' (effs := []) (s := s) (s' := { s with isOpen := true, isV4 := v4, fwd := _ })
      (n1 := ((n.tcpClose now name).1.newFwd name).1) hs rfl (Nat.le_refl _) (fun _ h => h) rfl)).congr ?_
    simp

theorem wireOf_tcpOpen (n : NetSt) (now : Int) (name : String) (v4 : Bool) : wireOf (n.tcpOpen now name v4).2 = [] := by
  unfold NetSt.tcpOpen; dsimp only; split <;> exact wireOf_tcpClose _ _ _

theorem ws_tcpBind (n : NetSt) (name : String) (ep : Ep) : WStep n (n.tcpBind name ep).1 [] := by
  unfold NetSt.tcpBind
  split
  · exact WStep.refl n
  · rename_i s hs
    splits <;> first
      | exact WStep.refl n
      | exact WStep.of_tcps rfl (Nat.le_refl _)
      | exact WStep.setTcp' hs rfl (Nat.le_refl _) (fun _ h => h) rfl

theorem ws_tcpCancel (n : NetSt) (name : String) : WStep n (n.tcpCancel name).1 (n.tcpCancel name).2 := by
  unfold NetSt.tcpCancel
  split
  · exact WStep.refl n
  · rename_i s hs
    exact WStep.setTcp hs (by rw [cancel_resend]; exact fun _ h => h) (wireOf_cancel s)

theorem ws_tcpAsyncRead (n : NetSt) (name : String) (op : ReadOp) :
    WStep n (n.tcpAsyncRead name op).1 (n.tcpAsyncRead name op).2 := by
  unfold NetSt.tcpAsyncRead
  split
  · exact WStep.refl n
  · rename_i s hs
    exact WStep.setTcp hs (by rw [asyncReadImpl_resend]; exact fun _ h => h)
      (by rw [wireOf_append, wireOf_abortRecv, wireOf_asyncReadImpl]; rfl)

theorem ws_tcpWaitRead (n : NetSt) (name : String) (hd : Nat) :
    WStep n (n.tcpWaitRead name hd).1 (n.tcpWaitRead name hd).2 := by
  unfold NetSt.tcpWaitRead
  split
  · exact WStep.refl n
  · rename_i s hs
    exact WStep.setTcp hs (by rw [asyncWaitReadImpl_resend]; exact fun _ h => h)
      (by rw [wireOf_append, wireOf_abortRecv, wireOf_asyncWaitReadImpl]; rfl)

theorem ws_tcpReadNb (n : NetSt) (name : String) (caps : List Nat) : WStep n (n.tcpReadNb name caps).1 [] := by
  unfold NetSt.tcpReadNb
  split
  · exact WStep.refl n
  · rename_i s hs
    exact WStep.setTcp hs (by rw [readSome_resend]; exact fun _ h => h) rfl

theorem ws_tcpAsyncWrite (n : NetSt) (name : String) (op : WriteOp) :
    WStep n (n.tcpAsyncWrite name op).1 (n.tcpAsyncWrite name op).2 := by
  unfold NetSt.tcpAsyncWrite
  split
  · exact WStep.refl n
  · rename_i s hs
    exact WStep.setTcp hs (fun _ h => h) (by rw [wireOf_append, wireOf_abortSend]; rfl)

/-! ### connect -/

/-- `internal_connect` allocates the new channel's id as `chans.length` and then grows the table:
    the SYN it sends carries a valid id -/
theorem ws_internalConnect (n : NetSt) (name : String) (target : Ep) :
    WStep n (n.internalConnect name target).1 (n.internalConnect name target).2.1 := by
  unfold NetSt.internalConnect
  splits <;> first
    | exact WStep.refl n
    | (dsimp only
       refine WStep.with_effs (WStep.of_tcps ?_ ?_) _ (fun _ c hc => ?_)
       · rfl
       · simp
       · simp [wireOf] at hc
         subst hc; simp)

theorem ws_tcpConnectBind (n : NetSt) (name : String) (s : TcpSock) (target : Ep) (hs : n.tcp? name = some s) :
    WStep n (tcpConnectBind n name s target).1 [] := by
  unfold tcpConnectBind
  splits <;> first
    | exact WStep.refl n
    | exact WStep.of_tcps rfl (Nat.le_refl _)
    | exact WStep.setTcp' hs rfl (Nat.le_refl _) (fun _ h => h) rfl

theorem ws_tcpConnectFin (n : NetSt) (name : String) (target : Ep) (hd : Nat) (e0 : List NEff) (ecb : Ec)
    (he0 : wireOf e0 = []) :
    WStep n (tcpConnectFin n name target hd e0 ecb).1 (tcpConnectFin n name target hd e0 ecb).2 := by
  unfold tcpConnectFin
  split
  · exact (WStep.refl n).congr (by simp [wireOf_append, he0, wireOf])
  · split
    · exact (WStep.refl n).congr he0
    · split
      · exact (WStep.refl n).congr (by simp [wireOf_append, he0, wireOf])
      · have hi := ws_internalConnect n name target
        generalize n.internalConnect name target = x at hi ⊢
        obtain ⟨n1, e1, cid⟩ := x
        dsimp only at hi ⊢
        split
        · exact ⟨hi.len, hi.resend, fun _ c hc => by rw [he0] at hc; cases hc⟩
        · rename_i s1 hs1
          split
          · refine (hi.trans (WStep.setTcp (effs := []) hs1 ?_ rfl)).congr ?_
            · exact fun _ h => h
            · simp [wireOf_append, he0, wireOf]
          · refine (hi.trans (WStep.setTcp (effs := []) hs1 ?_ rfl)).congr ?_
            · exact fun _ h => h
            · simp [wireOf_append, he0]

theorem ws_tcpConnect (n : NetSt) (now : Int) (name : String) (target : Ep) (hd : Nat) :
    WStep n (n.tcpConnect now name target hd).1 (n.tcpConnect now name target hd).2 := by
  rw [tcpConnect_eq]
  split
  · exact WStep.refl n
  · rename_i s0 hs0
    have hA : WStep n (if (!s0.isOpen) = true then n.tcpOpen now name target.isV4 else (n, [])).1
          (if (!s0.isOpen) = true then n.tcpOpen now name target.isV4 else (n, [])).2
        ∧ wireOf (if (!s0.isOpen) = true then n.tcpOpen now name target.isV4 else (n, [])).2 = [] := by
      split
      · exact ⟨ws_tcpOpen _ _ _ _, wireOf_tcpOpen _ _ _ _⟩
      · exact ⟨WStep.refl n, rfl⟩
    generalize (if (!s0.isOpen) = true then n.tcpOpen now name target.isV4 else (n, [])) = a at hA
    dsimp only
    split
    · exact hA.1
    · rename_i s hs
      have h2 := ws_tcpConnectBind a.1 name s target hs
      have h3 := ws_tcpConnectFin (tcpConnectBind a.1 name s target).1 name target hd a.2
        (tcpConnectBind a.1 name s target).2 hA.2
      exact ⟨Nat.le_trans hA.1.len (Nat.le_trans h2.len h3.len),
        fun hr => h3.resend (h2.resend (hA.1.resend hr)),
        fun hr => h3.wire (h2.resend (hA.1.resend hr))⟩

/-! ### incoming packets (socket) -/

theorem ws_tcpIncoming (tp : TParams) (n : NetSt) (now : Int) (name : String) (p : Pkt) :
    WStep n (n.tcpIncoming tp now name p).1 (n.tcpIncoming tp now name p).2 := by
  unfold NetSt.tcpIncoming
  split
  · exact WStep.refl n
  · rename_i s hs
    splits <;> first
      | exact WStep.refl n
      | exact WStep.setTcp hs (fun _ h => h) rfl
      | exact WStep.setTcp hs (by rw [maybeWakeupReader_resend]; exact fun _ h => h)
          (by simp [wireOf, wireOf_maybeWakeupReader])

/-! ### acceptor -/

theorem ws_accCancel (n : NetSt) (name : String) : WStep n (n.accCancel name).1 (n.accCancel name).2 := by
  unfold NetSt.accCancel
  split
  · exact WStep.refl n
  · rename_i s hs
    exact WStep.setTcp hs (by rw [abortAccept_resend]; exact fun _ h => h) (wireOf_abortAccept s)

theorem ws_accListen (n : NetSt) (name : String) (qs : Int) : WStep n (n.accListen name qs).1 [] := by
  unfold NetSt.accListen
  split
  · exact WStep.refl n
  · rename_i s hs
    splits <;> first
      | exact WStep.refl n
      | exact WStep.setTcp hs (fun _ h => h) rfl

theorem ws_tcpAttach (n : NetSt) (now : Int) (peer : String) (bindEp : Ep) (cid : Nat) :
    WStep n (n.tcpAttach now peer bindEp cid).1 (n.tcpAttach now peer bindEp cid).2 := by
  unfold NetSt.tcpAttach
  split
  · exact WStep.refl n
  · rename_i p0 hp0
    have ho := ws_tcpOpen n now peer p0.isV4
    dsimp only
    split
    · rename_i p ch hp hch
      refine WStep.setChan ?_ _ _
      refine (ho.trans (WStep.setTcp (effs := []) hp ?_ rfl)).congr ?_
      · exact fun _ h => h
      · simp
    · exact ho

theorem wireOf_rsts (n : NetSt) (l : List Nat) (src : String) :
    wireOf (l.filterMap (fun c => (n.chan? c).map (fun ch =>
      NEff.forward { id := 0, ty := .err, ec := .reset, len := 0, ovh := 28, hops := ch.hops0, src := src }))) = [] := by
  induction l with
  | nil => rfl
  | cons c rest ih =>
    simp only [List.filterMap_cons]
    cases n.chan? c <;> simp [ih, wireOf]

theorem ws_accResetClosed (n : NetSt) (name : String) (s0 : TcpSock) (a0 : AccState) (hs : n.tcp? name = some s0) :
    WStep n (accResetClosed n name s0 a0).1 (accResetClosed n name s0 a0).2 := by
  unfold accResetClosed
  split
  · dsimp only
    exact WStep.setTcp hs (by rw [abortAccept_resend]; exact fun _ h => h)
      (by rw [wireOf_append, wireOf_rsts, wireOf_abortAccept]; rfl)
  · exact WStep.refl n

/-- `check_accept_queue()` hands over a queued connection: the SYN-ACK carries the connection's
    channel id, which the function has just looked up in the channel table -/
theorem ws_accTryAccept (n : NetSt) (now : Int) (name : String) :
    WStep n (accTryAccept n now name).1 (accTryAccept n now name).2 := by
  unfold accTryAccept
  cases hs : n.tcp? name with
  | none => exact WStep.refl n
  | some s =>
    dsimp only
    cases ha : s.acc with
    | none => exact WStep.refl n
    | some a =>
      dsimp only
      cases hop : a.acceptOp with
      | none => exact WStep.refl n
      | some op =>
        cases hc : a.conns with
        | nil => exact WStep.refl n
        | cons c rest =>
          have h1 : WStep n (n.setTcp name { s with acc := some { a with conns := rest, acceptOp := none } }) [] :=
            WStep.setTcp hs (fun _ h => h) rfl
          cases op with
          | into hh pn we =>
            dsimp only
            have hat := h1.trans (ws_tcpAttach _ now pn s.bound c)
            generalize NetSt.tcpAttach _ now pn s.bound c = x at hat ⊢
            cases hch : x.1.chan? c with
            | none => exact hat
            | some ch =>
              dsimp only
              refine ⟨hat.len, hat.resend, fun hr d hd => ?_⟩
              simp only [wireOf_append, wireOf, List.mem_append, List.append_nil,
                Option.toList_some, List.mem_singleton] at hd
              rcases hd with hd | hd
              · exact hat.wire hr d (by simpa using hd)
              · subst hd
                exact (chan?_isSome_iff x.1 d).mp (by rw [hch]; rfl)
          | fresh hh nn =>
            dsimp only
            have hat := h1.trans (ws_tcpAttach _ now nn s.bound c)
            generalize NetSt.tcpAttach _ now nn s.bound c = x at hat ⊢
            cases hch : x.1.chan? c with
            | none => exact hat
            | some ch =>
              dsimp only
              refine ⟨hat.len, hat.resend, fun hr d hd => ?_⟩
              simp only [wireOf_append, wireOf, List.mem_append, List.append_nil,
                Option.toList_some, List.mem_singleton] at hd
              rcases hd with hd | hd
              · exact hat.wire hr d (by simpa using hd)
              · subst hd
                exact (chan?_isSome_iff x.1 d).mp (by rw [hch]; rfl)

theorem ws_accCheckQueue (n : NetSt) (now : Int) (name : String) :
    WStep n (n.accCheckQueue now name).1 (n.accCheckQueue now name).2 := by
  rw [accCheckQueue_eq]
  cases hs : n.tcp? name with
  | none => exact WStep.refl n
  | some s0 =>
    dsimp only
    cases ha : s0.acc with
    | none => exact WStep.refl n
    | some a0 => exact (ws_accResetClosed n name s0 a0 hs).trans (ws_accTryAccept _ now name)

theorem ws_accIncoming (n : NetSt) (now : Int) (name : String) (p : Pkt) :
    WStep n (n.accIncoming now name p).1 (n.accIncoming now name p).2 := by
  unfold NetSt.accIncoming
  split
  · rename_i s c hs hty hch
    split
    · rename_i a ha
      exact WStep.setTcp_then (s' := { s with acc := some { a with conns := a.conns ++ [c] } }) hs
        (fun _ h => h) (ws_accCheckQueue _ now name)
    · exact WStep.refl n
  · rename_i s hs hty
    exact WStep.setTcp hs (by rw [abortAccept_resend]; exact fun _ h => h) (wireOf_abortAccept s)
  · exact WStep.refl n

theorem ws_accAcceptPrep (n : NetSt) (now : Int) (name : String) (op : AcceptOp) :
    WStep n (accAcceptPrep n now name op).1 (accAcceptPrep n now name op).2 := by
  unfold accAcceptPrep
  splits <;> first
    | exact WStep.refl n
    | exact ws_tcpClose _ _ _
    | exact WStep.setTcp_gen _ _ (fun _ p hp => by cases hp) rfl

theorem ws_accAsyncAccept (n : NetSt) (now : Int) (name : String) (op : AcceptOp) :
    WStep n (n.accAsyncAccept now name op).1 (n.accAsyncAccept now name op).2 := by
  rw [accAsyncAccept_eq]
  have h0 := ws_accAcceptPrep n now name op
  split
  · exact h0
  · rename_i s hs
    split
    · exact (h0.trans (WStep.refl _)).congr (by simp [wireOf_append, wireOf_abortAccept])
    · rename_i a ha
      have h1 : WStep (accAcceptPrep n now name op).1
          ((accAcceptPrep n now name op).1.setTcp name { s.abortAccept.1 with acc := some { a with acceptOp := some op } })
          s.abortAccept.2 :=
        WStep.setTcp hs (by rw [abortAccept_resend]; exact fun _ h => h) (wireOf_abortAccept s)
      exact (h0.trans h1).trans (ws_accCheckQueue _ now name)

theorem ws_accClose (n : NetSt) (now : Int) (name : String) :
    WStep n (n.accClose now name).1 (n.accClose now name).2 := by
  unfold NetSt.accClose
  split
  · exact WStep.refl n
  · rename_i s hs
    dsimp only
    have h1 : WStep n (n.setTcp name
        (match s.acc with | some a => ({ s with acc := some { a with queueLimit := -1 } } : TcpSock) | none => s).abortAccept.1)
        (match s.acc with | some a => ({ s with acc := some { a with queueLimit := -1 } } : TcpSock) | none => s).abortAccept.2 := by
      refine WStep.setTcp hs ?_ (wireOf_abortAccept _)
      rw [abortAccept_resend]
      cases s.acc <;> exact fun _ h => h
    exact (h1.trans (ws_tcpClose _ now name)).trans (ws_accCheckQueue _ now name)

/-! ### every label -/

/-- **Every label is a `WStep`**, provided the packets the environment reports as dropped (label
    `.dropped`, and the tail-drops inside a write) carry no channel or a valid one -/
theorem ws_label (tp : TParams) (n : NetSt) (l : h4_HLbl)
    (hdrop : ∀ name p, l = .dropped name p → ∀ c, p.chan = some c → c < n.chans.length)
    (hmid : ∀ name h? mid r, l = .runWrite name h? mid r →
      ∀ p, WMid.drop p ∈ mid → ∀ c, p.chan = some c → c < n.chans.length) :
    WStep n (l.eff tp n).1 (l.eff tp n).2 := by
  cases l with
  | newSock name node isAcc => exact WStep.setTcp_gen _ _ (fun _ p hp => by cases hp) rfl
  | connect now name target hd => exact ws_tcpConnect _ _ _ _ _
  | read name op => exact ws_tcpAsyncRead _ _ _
  | waitRead name hd => exact ws_tcpWaitRead _ _ _
  | write name op => exact ws_tcpAsyncWrite _ _ _
  | runWrite name h? mid r =>
    simp only [h4_HLbl.eff]
    cases ht : n.tcp? name with
    | none => exact WStep.refl n
    | some t =>
      dsimp only
      cases hop : t.sendH with
      | none => exact WStep.refl n
      | some op =>
        dsimp only
        have main := ((WStep.setTcp (effs := []) (s' := { t with sendH := none }) ht (fun _ h => h) rfl).trans
          (ws_wmid tp name mid _ (hmid name h? mid r rfl))).trans (ws_tcpWriteFinish _ name op r)
        cases h? with
        | none => simpa using main
        | some hd =>
          dsimp only
          split
          · exact WStep.refl n
          · exact main
  | readNb name caps => exact ws_tcpReadNb _ _ _
  | cancel name => exact ws_tcpCancel _ _
  | close now name => exact ws_tcpClose _ _ _
  | reopen now name v4 => exact ws_tcpOpen _ _ _ _
  | bind name ep => exact ws_tcpBind _ _ _
  | accept now name op => exact ws_accAsyncAccept _ _ _ _
  | listen name qs => exact ws_accListen _ _ _
  | accCancel name => exact ws_accCancel _ _
  | accClose now name => exact ws_accClose _ _ _
  | incoming now name p =>
    simp only [h4_HLbl.eff]
    splits <;> first
      | exact WStep.refl n
      | exact ws_accIncoming _ _ _ _
      | exact ws_tcpIncoming _ _ _ _ _
  | dropped name p => exact ws_tcpPacketDropped _ _ _ _ (hdrop name p rfl)
  | resendOne now name =>
    simp only [h4_HLbl.eff]
    split
    · rename_i r hr; exact ws_tcpResendOne _ _ _ r hr
    · exact WStep.refl n
  | ackPost name wb acked => exact ws_tcpAckPost _ _ _ _ _
  | refusedFired hd => exact (WStep.refl n).congr rfl

/-! ### the invariant and the derivation of the packet clause -/

end HL

/-- accept queues, retransmission queues and the wire hold valid channel ids only -/
structure WireInv (n : NetSt) (w : List Nat) : Prop where
  conns  : ConnsOk n
  resend : ResendOk n
  wire   : ∀ c ∈ w, c < n.chans.length

namespace HL

theorem pktSent_valid {n : NetSt} {w : List Nat} (hI : WireInv n w) {p : Pkt} (hp : pktSent w p) :
    ∀ c, p.chan = some c → c < n.chans.length := fun c hc => hI.wire c (hp c hc)

/-- under the environment's promise every label keeps the invariant -/
theorem wire_label (tp : TParams) (n : NetSt) (w : List Nat) (l : h4_HLbl) (hI : WireInv n w)
    (henv : HTS.okEnv w l) : WireInv (l.eff tp n).1 (w ++ wireOf (l.eff tp n).2) := by
  have hws : WStep n (l.eff tp n).1 (l.eff tp n).2 :=
    ws_label tp n l (fun name p hl => by subst hl; exact pktSent_valid hI henv)
      (fun name h? mid r hl p hp => by subst hl; exact pktSent_valid hI (henv p hp))
  refine ⟨cok_label tp n l (fun now name p hl => by subst hl; exact pktSent_valid hI henv) hI.conns,
    hws.resend hI.resend, fun c hc => ?_⟩
  rw [List.mem_append] at hc
  rcases hc with hc | hc
  · exact Nat.lt_of_lt_of_le (hI.wire c hc) hws.len
  · exact hws.wire hI.resend c hc

/-- the packet clause of `HTS.ok` follows from the environment's promise -/
theorem ok_of_okSent {s : HdS} {w : List Nat} {l : h4_HLbl} (hI : WireInv s.n w) (hc : HTS.okCode s l)
    (henv : HTS.okEnv w l) : HTS.ok s l := by
  cases l <;> first
    | exact hc
    | exact pktSent_valid hI henv

/-- **The packet clause derived**: a run in which the code's preconditions hold and the
    environment hands in only packets whose channel id was on the wire satisfies `HTS.okRun`. -/
theorem okRun_of_okRunSent (tp : TParams) (ls : List h4_HLbl) (s : HdS) (w : List Nat) (hI : WireInv s.n w)
    (h : HTS.okRunSent tp s w ls) : HTS.okRun tp s ls := by
  induction ls generalizing s w with
  | nil => trivial
  | cons l rest ih =>
    obtain ⟨hc, henv, hrest⟩ := h
    exact ⟨ok_of_okSent hI hc henv, ih _ _ (wire_label tp s.n w l hI henv) hrest⟩

end HL

/-! ### a decidable form (for concrete histories) -/

def pktSentb (wire : List Nat) (p : Pkt) : Bool :=
  match p.chan with | some c => wire.contains c | none => true

theorem pktSentb_sound {wire : List Nat} {p : Pkt} (h : pktSentb wire p = true) : pktSent wire p := by
  intro c hc
  unfold pktSentb at h
  rw [hc] at h
  simpa using h

def HTS.okEnvb (wire : List Nat) : h4_HLbl → Bool
  | .incoming _ _ p => pktSentb wire p
  | .dropped _ p => pktSentb wire p
  | .runWrite _ _ mid _ => mid.all (fun m => match m with | .drop p => pktSentb wire p | _ => true)
  | _ => true

theorem HTS.okEnvb_sound {wire : List Nat} {l : h4_HLbl} (h : HTS.okEnvb wire l = true) : HTS.okEnv wire l := by
  cases l <;> simp only [HTS.okEnvb, HTS.okEnv] at h ⊢ <;> (try trivial) <;> (try exact pktSentb_sound h)
  case runWrite name h? mid r =>
    intro p hp
    rw [List.all_eq_true] at h
    exact pktSentb_sound (h _ hp)

def HTS.okCodeb (s : HdS) : h4_HLbl → Bool
  | .incoming _ _ _ => true
  | l => HTS.okb s l

theorem HTS.okCodeb_sound {s : HdS} {l : h4_HLbl} (h : HTS.okCodeb s l = true) : HTS.okCode s l := by
  cases l <;> simp only [HTS.okCodeb, HTS.okCode] at h ⊢ <;> first
    | trivial
    | exact HTS.okb_sound h

def HTS.okRunSentb (tp : TParams) : HdS → List Nat → List h4_HLbl → Bool
  | _, _, [] => true
  | s, w, l :: rest =>
    HTS.okCodeb s l && HTS.okEnvb w l && HTS.okRunSentb tp (HTS.step tp s l) (w ++ wireOf (l.eff tp s.n).2) rest

theorem HTS.okRunSentb_sound (tp : TParams) (ls : List h4_HLbl) (s : HdS) (w : List Nat)
    (h : HTS.okRunSentb tp s w ls = true) : HTS.okRunSent tp s w ls := by
  induction ls generalizing s w with
  | nil => trivial
  | cons l rest ih =>
    simp only [HTS.okRunSentb, Bool.and_eq_true] at h
    exact ⟨HTS.okCodeb_sound h.1.1, HTS.okEnvb_sound h.1.2, ih _ _ h.2⟩

def ResendOkb (n : NetSt) : Bool :=
  n.tcps.all (fun e => e.2.resend.all (fun p => match p.chan with | some c => decide (c < n.chans.length) | none => true))

theorem ResendOkb_sound {n : NetSt} (h : ResendOkb n = true) : ResendOk n := by
  refine ⟨fun name t ht p hp c hc => ?_⟩
  unfold ResendOkb at h
  rw [List.all_eq_true] at h
  have := h (name, t) (HL.tcp_lookup_mem ht)
  rw [List.all_eq_true] at this
  have := this p hp
  rw [hc] at this
  simpa using this

end SimVerif
