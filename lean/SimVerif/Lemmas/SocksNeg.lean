/-
  SimVerif.Lemmas.SocksNeg — the negotiation machine of the SOCKS proxy model: what each
  member function does with malformed input (closes this connection, nothing else), the
  decision table for well-formed requests, reply codes, command counters over all histories,
  and segmentation independence of the composed exact-size reads.
-/
import SimVerif.SocksSpec

namespace SimVerif.Socks

/-! ### malformed input closes -/

/-- an error (end of file, reset, …) on any read of the negotiation closes the connection -/
theorem exactDone_error_closes (c : Conn) (cnt : List Int) (k : Kind) (ec : Ec) (total : Nat)
    (hk : k = .hs1 ∨ k = .hs2 ∨ k = .req1 ∨ k = .dom) (hec : ec ≠ .ok) :
    exactDone {} c cnt k ec total = .ok (c, cnt, closeActs) := by
  sorry

/-- greeting: short, or a version byte that is neither 4 nor 5 -/
theorem hs1_bad_closes (c : Conn) (cnt : List Int) (n : Nat) (hs : c.Sized)
    (h : n ≠ 2 ∨ (c.outBuf.byte 0 ≠ 4 ∧ c.outBuf.byte 0 ≠ 5)) :
    onHandshake1 {} c cnt .ok n = .ok (c, cnt, closeActs) := by
  sorry

/-- greeting accepted: read exactly NMETHODS further bytes (as an unsigned byte) -/
theorem hs1_good (c : Conn) (cnt : List Int) (hs : c.Sized) (h : c.outBuf.byte 0 = 4 ∨ c.outBuf.byte 0 = 5) :
    onHandshake1 {} c cnt .ok 2
      = .ok (c, cnt, [.read .client (c.outBuf.byte 1).toNat (.exact 0 (c.outBuf.byte 1).toNat 0 .hs2)]) := by
  sorry

/-- method list without "no authentication" (0) -/
theorem hs2_no_noauth_closes (c : Conn) (cnt : List Int) (n : Nat) (hs : c.Sized) (hn : n ≤ 65536)
    (h : (0 : UInt8) ∉ c.outPrefix n) : onHandshake2 c cnt .ok n = .ok (c, cnt, closeActs) := by
  sorry

/-- method list offering "no authentication": reply `05 00`, nothing else -/
theorem hs2_good (c : Conn) (cnt : List Int) (n : Nat) (hs : c.Sized) (hn : n ≤ 65536)
    (h : (0 : UInt8) ∈ c.outPrefix n) :
    ∃ c', onHandshake2 c cnt .ok n = .ok (c', cnt, [.write .client [5, 0] (.write .client 2 .hs3)])
      ∧ c'.outBuf = c.outBuf ∧ c'.Sized := by
  sorry

theorem hs3_bad_closes (c : Conn) (cnt : List Int) (ec : Ec) (n : Nat) (h : ec ≠ .ok ∨ n ≠ 2) :
    onHandshake3 c cnt ec n = .ok (c, cnt, closeActs) := by
  sorry

/-- **malformed request**: error, short read, wrong version, unknown command, non-zero reserved
    byte, unknown or unsupported address type, BIND by host name, SOCKS4 user id: the connection
    is closed and nothing else happens (the counters may have counted the command byte) -/
theorem req1_malformed_closes (c : Conn) (cnt : List Int) (ec : Ec) (n : Nat) (hs : c.Sized) (hc : cnt.length = 3)
    (h : ec ≠ .ok ∨ n ≠ expectedLen c.ver ∨ ¬ validReq c.ver (c.outPrefix (expectedLen c.ver))) :
    ∃ c' cnt', onRequest1 {} c cnt ec n = .ok (c', cnt', closeActs) ∧ cnt'.length = 3 := by
  sorry

/-- **well-formed request**: exactly the action of the decision table -/
theorem req1_valid (c : Conn) (cnt : List Int) (hs : c.Sized) (hc : cnt.length = 3)
    (h : validReq c.ver (c.outPrefix (expectedLen c.ver))) :
    ∃ c' cnt' a, onRequest1 {} c cnt .ok (expectedLen c.ver) = .ok (c', cnt', [a]) ∧ cnt'.length = 3
      ∧ (match decision c.ver (c.outPrefix (expectedLen c.ver)) with
         | .connect ad pt => a = .connect ad pt .connect
         | .bind ad pt => a = .bindSock ad pt .bound
         | .udp ad pt => a = .udpOpen (.udpBound ad pt)
         | .name len =>
           if len ≤ 3 then
             a = .resolve ((List.range len).map (fun j => c.outBuf.byte (5 + j)))
                   (be16 (c.outBuf.byte (5 + len)) (c.outBuf.byte (6 + len))) .resolve
           else a = .read .client (len - 3) (.exact 10 (len - 3) 0 .dom)) := by
  sorry

/-- the rest of a host name arrived: look it up (name = bytes 5 … 5+len, port follows) -/
theorem dom_good (c : Conn) (cnt : List Int) (n : Nat) (hs : c.Sized) :
    onRequestDomainName {} c cnt .ok n
      = .ok (c, cnt, [.resolve ((List.range (c.outBuf.byte 4).toNat).map (fun j => c.outBuf.byte (5 + j)))
                        (be16 (c.outBuf.byte (5 + (c.outBuf.byte 4).toNat)) (c.outBuf.byte (6 + (c.outBuf.byte 4).toNat))) .resolve]) := by
  sorry

/-! ### counters -/

/-- `on_request1` counts the command byte iff it is 1, 2 or 3; nothing else touches the counters -/
theorem req1_counts (c : Conn) (cnt : List Int) (ec : Ec) (n : Nat) (c' : Conn) (cnt' : List Int) (a : List Act)
    (hc : cnt.length = 3) (h : onRequest1 {} c cnt ec n = .ok (c', cnt', a)) :
    cnt' = (if ec = .ok ∧ n = expectedLen c.ver then
              (let k := sx (c.outBuf.byte 1)
               if 1 ≤ k ∧ k ≤ 3 then cnt.set (k - 1).toNat (cnt.getD (k - 1).toNat 0 + 1) else cnt)
            else cnt) := by
  sorry

/-- over all histories: the counters are the numbers of connections that received a request
    with command byte 1 (CONNECT), 2 (BIND), 3 (UDP ASSOCIATE) -/
theorem counters_run (ver : Int) (flags : Nat) (ls : List SLbl) (s : SS)
    (h : (SS.init ver flags).run {} ls = .ok s) :
    s.cnt = [s.countCmd 1, s.countCmd 2, s.countCmd 3] := by
  sorry

/-! ### reply codes -/

/-- connect / accept outcome → reply: success 0 (v5) / 90 (v4) then relay; failure 5 / 91 then close -/
theorem reply_connected (c : Conn) (cnt : List Int) (ec : Ec) (rem : Option (Nat × Nat)) (hs : c.Sized)
    (hab : ec ≠ .aborted ∧ ec ≠ .badDesc) :
    ∃ c', onConnected c cnt ec rem
        = .ok (c', cnt, [.write .client (replyMsg c.ver (connCode c.ver ec) (rem.getD (0, 0)).1 (rem.getD (0, 0)).2)
                          (.write .client (replyMsg c.ver (connCode c.ver ec) (rem.getD (0, 0)).1 (rem.getD (0, 0)).2).length
                             (if ec = .ok then .relayStart else .closeAfter))])
      ∧ c'.outBuf = c.outBuf ∧ c'.Sized := by
  sorry

/-- unresolvable host name → reply code 4 (host unreachable), then close -/
theorem reply_unresolvable (c : Conn) (cnt : List Int) (ec : Ec) (ips : List (Nat × Nat)) (hs : c.Sized)
    (h : ec ≠ .ok ∨ ips = []) :
    ∃ c', onRequestDomainLookup c cnt ec ips
        = .ok (c', cnt, [.write .client [u8 c.ver.toNat, 4, 0, 1, 0, 0, 0, 0, 0, 0] (.write .client 10 .closeAfter)]) := by
  sorry

/-- resolvable host name → connect to the first address -/
theorem lookup_connects (c : Conn) (cnt : List Int) (a pt : Nat) (rest : List (Nat × Nat)) :
    onRequestDomainLookup c cnt .ok ((a, pt) :: rest) = .ok (c, cnt, [.connect a pt .connect]) := by
  sorry

/-- BIND socket outcome → first reply: success 0 / 90 then accept; failure 1 / 91 then close -/
theorem reply_bound (c : Conn) (cnt : List Int) (ec : Ec) (loc : Nat × Nat) (hs : c.Sized) :
    ∃ c', bindConnection2 c cnt ec loc
        = .ok (c', cnt, [.write .client (replyMsg c.ver (bindCode c.ver ec) loc.1 loc.2)
                          (.write .client (replyMsg c.ver (bindCode c.ver ec) loc.1 loc.2).length
                             (if ec = .ok then .startAccept else .closeAfter))])
      ∧ c'.Sized := by
  sorry

/-- the handler of a failure reply closes the connection -/
theorem closeAfter_closes (c : Conn) (cnt : List Int) (s : Sock) (len : Nat) (ec : Ec) (n : Nat) :
    complete {} c cnt (.write s len .closeAfter) (.wr ec n) = .ok (c, cnt, closeActs) := by
  sorry

/-! ### segmentation independence of composed reads -/

/-- store the successive chunks of a composed read -/
def feedExact (c : Conn) (off need got : Nat) : List Bytes → Except Fault (Conn × Nat)
  | [] => .ok (c, got)
  | d :: rest =>
    match exactStep c off need got .ok d with
    | .error e => .error e
    | .ok (c', total, _) => feedExact c' off need total rest

/-- however the bytes of a composed read are cut into read completions, the connection state
    and the byte count the handler finally sees are those of a single completion carrying all
    of them -/
theorem exact_fusion (c : Conn) (off need got : Nat) (chunks : List Bytes)
    (h : off + got + chunks.flatten.length ≤ c.outBuf.cap) :
    feedExact c off need got chunks
      = (match exactStep c off need got .ok chunks.flatten with
         | .error e => .error e
         | .ok (c', total, _) => .ok (c', total)) := by
  sorry

/-- the composed read ends exactly when the region is full (or on a zero-byte completion) -/
theorem exact_done_iff (c : Conn) (off need got : Nat) (d : Bytes) (c' : Conn) (total : Nat) (done : Bool)
    (h : exactStep c off need got .ok d = .ok (c', total, done)) :
    total = got + d.length ∧ (done = true ↔ (d.length = 0 ∨ got + d.length ≥ need)) := by
  sorry

end SimVerif.Socks
